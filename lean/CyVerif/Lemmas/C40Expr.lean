import CyVerif.Lemmas.C40Agree2
/-! C40: expressions the validator accepts evaluate alike under the inferred typing and under
object-typed locals. -/
namespace CyVerif.C40

variable {F : Type}

theorem chk_bind {α β : Type} {x : Chk α} {f : α → Chk β} {b : β} (h : (x >>= f) = .ok b) :
    ∃ a, x = .ok a ∧ f a = .ok b := by
  cases x with
  | error e => cases h
  | ok a => exact ⟨a, rfl, h⟩

theorem cleanE_sound {fo : FOps F} (law : Lawful fo) {Γ : Nat → Ty} {nt : Nat → Option Ty} {σ : Store F}
    (hinv : Inv Γ σ) {S : List Nat} (hb : Bound S σ) :
    ∀ {e : Expr} {ts to : Ty}, cleanE Γ nt S e = .ok (ts, to) →
      aty Γ nt e = some ts ∧ aty objEnv noNt e = some to ∧
      Agree (evalE fo Γ nt σ e) (evalE fo objEnv noNt σ e) := by
  intro e
  induction e with
  | int n =>
    intro ts to h
    simp only [cleanE] at h
    split at h <;> cases h <;> simp [aty, *] <;> exact Agree.rfl' _
  | flt b => intro ts to h; simp only [cleanE] at h; cases h; exact ⟨rfl, rfl, Agree.rfl' _⟩
  | bool b => intro ts to h; simp only [cleanE] at h; cases h; exact ⟨rfl, rfl, Agree.rfl' _⟩
  | str cs => intro ts to h; simp only [cleanE] at h; cases h; exact ⟨rfl, rfl, Agree.rfl' _⟩
  | none => intro ts to h; simp only [cleanE] at h; cases h; exact ⟨rfl, rfl, Agree.rfl' _⟩
  | typed t => intro ts to h; simp only [cleanE] at h; cases h
  | next a _ => intro ts to h; simp only [cleanE] at h; cases h
  | name v id =>
    intro ts to h
    simp only [cleanE] at h
    simp only [aty, evalE, nameTy_obj]
    split at h
    · rename_i hv
      cases h
      refine ⟨by simp [nameTy, hv], rfl, ?_⟩
      exact readVar_agree hb (Or.inl hv)
    · split at h
      · rename_i hc
        split at h
        · cases h
        · cases h
          refine ⟨rfl, rfl, ?_⟩
          apply readVar_agree hb
          rcases hc with hc | hc
          · exact Or.inr (Or.inl hc)
          · exact Or.inr (Or.inr hc)
      · cases h
  | bin op ip a b iha ihb =>
    intro ts to h
    simp only [cleanE] at h
    obtain ⟨⟨sa, oa⟩, ha, h⟩ := chk_bind h
    obtain ⟨⟨sb, ob⟩, hb', h⟩ := chk_bind h
    obtain ⟨hsa, hoa, aga⟩ := iha ha
    obtain ⟨hsb, hob, agb⟩ := ihb hb'
    have key : ∀ va vb, evalE fo Γ nt σ a = .ok va → evalE fo Γ nt σ b = .ok vb →
        binType op ip (isStrLit a) (some sa) (some sb) (constInfo a) (constInfo b) = some ts ∧
        binType op ip (isStrLit a) (some oa) (some ob) (constInfo a) (constInfo b) = some to ∧
        Agree (binSem fo op ip sa sb (some ts) va vb) (binSem fo op ip oa ob (some to) va vb) :=
      fun va vb ea eb => binOK_sound law h (evalE_conf hinv ea hsa) (evalE_conf hinv eb hsb)
    -- the types do not depend on the values: get them from the validator's own match
    have hty : binType op ip (isStrLit a) (some sa) (some sb) (constInfo a) (constInfo b) = some ts ∧
        binType op ip (isStrLit a) (some oa) (some ob) (constInfo a) (constInfo b) = some to := by
      unfold binOK at h
      simp only at h
      split at h
      · rename_i ts' to' h1 h2
        have : (ts', to') = (ts, to) := by
          repeat' split at h
          all_goals first | (cases h; rfl) | cases h
        cases this
        exact ⟨h1, h2⟩
      · cases h
    refine ⟨by simp only [aty, hsa, hsb]; exact hty.1, by simp only [aty, hoa, hob]; exact hty.2, ?_⟩
    simp only [evalE]
    refine Agree.bind aga (fun va ea _ => Agree.bind agb (fun vb eb _ => ?_))
    simp only [binNode, hsa, hsb, hoa, hob, tyOut, Out.bind_ok, hty.1, hty.2]
    exact (key va vb ea eb).2.2
  | un op a iha =>
    intro ts to h
    simp only [cleanE] at h
    obtain ⟨⟨sa, oa⟩, ha, h⟩ := chk_bind h
    obtain ⟨hsa, hoa, aga⟩ := iha ha
    have hty : aty Γ nt (.un op a) = some ts ∧ aty objEnv noNt (.un op a) = some to := by
      unfold unOK at h
      simp only at h
      split at h
      · rename_i ts' to' h1 h2
        have : (ts', to') = (ts, to) := by
          repeat' split at h
          all_goals first | (cases h; rfl) | cases h
        cases this
        exact ⟨h1, h2⟩
      · cases h
    refine ⟨hty.1, hty.2, ?_⟩
    simp only [evalE]
    refine Agree.bind aga (fun va ea _ => ?_)
    simp only [hsa, hoa, tyOut, Out.bind_ok]
    exact (unOK_sound hsa hoa h (evalE_conf hinv ea hsa)).2.2
  | cmp op a b iha ihb =>
    intro ts to h
    simp only [cleanE] at h
    obtain ⟨⟨sa, oa⟩, ha, h⟩ := chk_bind h
    obtain ⟨⟨sb, ob⟩, hb', h⟩ := chk_bind h
    obtain ⟨hsa, hoa, aga⟩ := iha ha
    obtain ⟨hsb, hob, agb⟩ := ihb hb'
    have hty : aty Γ nt (.cmp op a b) = some ts ∧ aty objEnv noNt (.cmp op a b) = some to := by
      unfold cmpOK at h
      simp only at h
      split at h
      · rename_i ts' to' h1 h2
        have : (ts', to') = (ts, to) := by
          repeat' split at h
          all_goals first | (cases h; rfl) | cases h
        cases this
        exact ⟨h1, h2⟩
      · cases h
    refine ⟨hty.1, hty.2, ?_⟩
    simp only [evalE]
    refine Agree.bind aga (fun va ea _ => Agree.bind agb (fun vb eb _ => ?_))
    simp only [hsa, hsb, hoa, hob, tyOut, Out.bind_ok]
    refine (cmpOK_sound h (evalE_conf hinv ea hsa) (evalE_conf hinv eb hsb) ?_).2.2
    intro he; subst he
    simp only [evalE] at eb; cases eb; rfl
  | call a iha =>
    intro ts to h
    simp only [cleanE] at h
    obtain ⟨⟨sa, oa⟩, ha, h⟩ := chk_bind h
    cases h
    obtain ⟨_, _, aga⟩ := iha ha
    exact ⟨rfl, rfl, by simpa only [evalE] using aga⟩
  | len a iha =>
    intro ts to h
    simp only [cleanE] at h
    obtain ⟨⟨sa, oa⟩, ha, h⟩ := chk_bind h
    obtain ⟨hsa, hoa, aga⟩ := iha ha
    simp only at h
    split at h
    · rename_i hp
      cases h
      refine ⟨rfl, rfl, ?_⟩
      simp only [evalE]
      refine Agree.bind aga (fun va _ _ => ?_)
      simp only [hsa, hoa, tyOut, Out.bind_ok, lenSem, hp.1, hp.2, if_true]
      exact Agree.rfl' _
    · cases h
  | abs a iha =>
    intro ts to h
    simp only [cleanE] at h
    obtain ⟨⟨sa, oa⟩, ha, h⟩ := chk_bind h
    obtain ⟨hsa, hoa, aga⟩ := iha ha
    simp only at h
    split at h
    · rename_i ts' to' h1 h2
      have hfin : (ts', to') = (ts, to) := by
        repeat' split at h
        all_goals first | (cases h; rfl) | cases h
      cases hfin
      refine ⟨by simp only [aty, hsa]; exact h1, by simp only [aty, hoa]; exact h2, ?_⟩
      simp only [evalE]
      refine Agree.bind aga (fun va ea _ => ?_)
      simp only [hsa, hoa, tyOut, Out.bind_ok]
      split at h
      · rename_i hs; subst hs; exact Agree.rfl' _
      · split at h
        · rename_i hp
          obtain ⟨hps, hpo, rfl⟩ := hp
          have e1 : ∀ t : Ty, t.isPyObject = true → ∀ tr, absType (some t) = some tr →
              absSem fo t va = (pyAbs fo va).bind (fromPy fo tr) := by
            intro t ht tr htr
            cases t <;> simp [Ty.isPyObject] at ht <;> simp only [absType] at htr <;> cases htr <;> rfl
          rw [e1 sa hps _ h1, e1 oa hpo _ h2]
          exact Agree.rfl' _
        · split at h
          · rename_i hp
            obtain ⟨rfl, rfl⟩ := hp
            obtain ⟨x, rfl⟩ := evalE_conf hinv ea hsa
            exact Agree.rfl' _
          · cases h
    · cases h
  | idx a b iha ihb =>
    intro ts to h
    simp only [cleanE] at h
    obtain ⟨⟨sa, oa⟩, ha, h⟩ := chk_bind h
    obtain ⟨⟨sb, ob⟩, hb', h⟩ := chk_bind h
    obtain ⟨hsa, hoa, aga⟩ := iha ha
    obtain ⟨hsb, hob, agb⟩ := ihb hb'
    simp only at h
    split at h
    · rename_i ts' to' h1 h2
      split at h
      · rename_i hp
        cases h
        obtain ⟨hps, hpo, hc⟩ := hp
        refine ⟨by simp only [aty, hsa, hsb]; exact h1, by simp only [aty, hoa, hob]; exact h2, ?_⟩
        simp only [evalE]
        refine Agree.bind aga (fun va ea _ => Agree.bind agb (fun vb eb _ => ?_))
        simp only [hsa, hsb, hoa, hob, tyOut, Out.bind_ok, h1, h2, idxSem, hps, hpo, if_true]
        rcases hc with rfl | ⟨rfl, hts, hto⟩
        · exact Agree.rfl' _
        · rcases evalE_conf hinv ea hsa with ⟨cs, rfl⟩ | rfl
          · refine Agree.bind (Agree.rfl' _) (fun r hr _ => ?_)
            have hr1 : ∃ c, r = .str [c] := by
              simp only [pyIdx] at hr
              repeat' split at hr
              all_goals first | (cases hr; exact ⟨_, rfl⟩) | cases hr
            obtain ⟨c, rfl⟩ := hr1
            rcases hts with rfl | rfl <;> rcases hto with rfl | rfl | rfl <;> exact Agree.rfl' _
          · refine Agree.bind (Agree.rfl' _) (fun r hr _ => ?_)
            simp [pyIdx] at hr
      · cases h
    · cases h

end CyVerif.C40

import CyVerif.Model.C30
/-! C30 helper lemmas: field lists (own fields, merge with the base, parameter partition). -/
namespace CyVerif.C30

theorem nodupStr_cons {x : String} {xs : List String} :
    nodupStr (x :: xs) = true ↔ (xs.contains x = false ∧ nodupStr xs = true) := by
  simp [nodupStr]

theorem names_append (a b : List RField) : names (a ++ b) = names a ++ names b := by
  simp [names]

theorem any_name_iff (acc : List RField) (n : String) :
    acc.any (fun g => g.name == n) = (names acc).contains n := by
  induction acc with
  | nil => simp [names]
  | cons a t ih =>
    simp only [List.any_cons, names, List.map_cons, List.contains_cons] at *
    rw [ih]
    congr 1
    exact Bool.eq_iff_iff.mpr ⟨fun h => by simpa using (beq_iff_eq.mp h).symm ▸ rfl,
      fun h => by simpa using (beq_iff_eq.mp h).symm ▸ rfl⟩

/-- inserting fields whose names are new and pairwise distinct just appends them -/
theorem foldl_upsert_append (own acc : List RField)
    (hd : ∀ f ∈ own, (names acc).contains f.name = false)
    (hn : nodupStr (names own) = true) :
    own.foldl upsert acc = acc ++ own := by
  induction own generalizing acc with
  | nil => simp
  | cons f t ih =>
    have hf : (names acc).contains f.name = false := hd f (by simp)
    have hstep : upsert acc f = acc ++ [f] := by
      unfold upsert
      rw [any_name_iff, hf]
      simp
    simp only [List.foldl_cons, hstep]
    have hn' : (names t).contains f.name = false ∧ nodupStr (names t) = true := by
      have := hn
      simp only [names, List.map_cons] at this
      exact nodupStr_cons.mp this
    rw [ih]
    · simp
    · intro g hg
      rw [names_append]
      simp only [names, List.map_cons, List.map_nil, List.contains_append, List.contains_cons,
        List.contains_nil, Bool.or_false, Bool.or_eq_false_iff]
      refine ⟨hd g (by simp [hg]), ?_⟩
      -- g ≠ f because f.name ∉ names t but g.name ∈ names t
      have hgt : (names t).contains g.name = true := by
        simp only [names, List.contains_iff_mem, List.mem_map]
        exact ⟨g, hg, rfl⟩
      cases hgf : (g.name == f.name) with
      | false => rfl
      | true =>
        have : g.name = f.name := beq_iff_eq.mp hgf
        rw [this] at hgt
        rw [hn'.1] at hgt
        cases hgt
    · exact hn'.2

theorem baseAttr_names {bfs : List RField} {n : String} (h : baseAttr bfs n = true) :
    (names bfs).contains n = true := by
  unfold baseAttr at h
  rw [← any_name_iff]
  simp only [List.any_eq_true, Bool.and_eq_true] at *
  obtain ⟨g, hg, h1, _⟩ := h
  exact ⟨g, hg, h1⟩

theorem pyInherit_id {bfs : List RField} {bare : Bool} {r : RField}
    (h : (names bfs).contains r.name = false) : pyInherit bfs bare r = r := by
  unfold pyInherit
  cases hb : baseAttr bfs r.name with
  | false => simp
  | true => rw [baseAttr_names hb] at h; cases h

theorem resolveField_name (d : FDefaults) (kw : Bool) (f : FieldSpec) :
    (resolveField d kw f).name = f.name := rfl

/-- the own-field lists of the two implementations coincide -/
theorem cyOwn_eq_pyOwn (v : Var) (d : FDefaults) (bfs : List RField) (kw : Bool) (fs : List FieldSpec)
    (h1 : ∀ f ∈ fs, f.kind ≠ .kwSentinel)
    (h2 : ∀ f ∈ fs, f.dflt ≠ .both)
    (h3 : ∀ f ∈ fs, f.kind = .classvar ∨ (names bfs).contains f.name = false)
    (h4 : v.fieldKwOnly = true ∨ ∀ f ∈ fs, f.kwOnly = none) :
    cyOwn v d (names bfs) kw fs = pyOwn d bfs kw fs := by
  induction fs with
  | nil => simp [cyOwn, pyOwn]
  | cons f t ih =>
    have iht := ih (fun g hg => h1 g (by simp [hg])) (fun g hg => h2 g (by simp [hg]))
      (fun g hg => h3 g (by simp [hg])) (h4.imp id (fun h g hg => h g (by simp [hg])))
    have k1 := h1 f (by simp)
    have k2 := h2 f (by simp)
    have k3 := h3 f (by simp)
    unfold cyOwn pyOwn
    cases hk : f.kind with
    | kwSentinel => exact absurd hk k1
    | classvar => simp [iht]
    | plain =>
      have hn : (names bfs).contains f.name = false := by
        cases k3 with
        | inl h => rw [hk] at h; cases h
        | inr h => exact h
      have hb : (f.dflt == Dflt.both) = false := by
        cases hd : f.dflt <;> first | rfl | exact absurd hd k2
      simp only [hb, hn, Bool.or_false, iht]
      rw [pyInherit_id (by rw [resolveField_name]; exact hn)]
      simp only [show (Kind.plain == Kind.classvar) = false from rfl, Bool.false_eq_true, if_false]
      congr 1
      cases h4 with
      | inl hv => simp [hv]
      | inr hnone =>
        have : f.kwOnly = none := hnone f (by simp)
        cases hv : v.fieldKwOnly <;> simp [resolveField, this]
    | initvar =>
      have hn : (names bfs).contains f.name = false := by
        cases k3 with
        | inl h => rw [hk] at h; cases h
        | inr h => exact h
      have hb : (f.dflt == Dflt.both) = false := by
        cases hd : f.dflt <;> first | rfl | exact absurd hd k2
      simp only [hb, hn, Bool.or_false, iht]
      rw [pyInherit_id (by rw [resolveField_name]; exact hn)]
      simp only [show (Kind.initvar == Kind.classvar) = false from rfl, Bool.false_eq_true, if_false]
      congr 1
      cases h4 with
      | inl hv => simp [hv]
      | inr hnone =>
        have : f.kwOnly = none := hnone f (by simp)
        cases hv : v.fieldKwOnly <;> simp [resolveField, this]

theorem pyInherit_name (bfs : List RField) (b : Bool) (r : RField) : (pyInherit bfs b r).name = r.name := by
  unfold pyInherit; split <;> rfl

theorem pyInherit_kwOnly (bfs : List RField) (b : Bool) (r : RField) :
    (pyInherit bfs b r).kwOnly = r.kwOnly := by
  unfold pyInherit; split <;> rfl

theorem mem_pyOwn_name {d : FDefaults} {bfs : List RField} {kw : Bool} {fs : List FieldSpec} {g : RField}
    (h : g ∈ pyOwn d bfs kw fs) : ∃ f ∈ fs, f.name = g.name ∧ f.kind ≠ .classvar := by
  induction fs generalizing kw with
  | nil => simp [pyOwn] at h
  | cons f t ih =>
    unfold pyOwn at h
    cases hk : f.kind with
    | kwSentinel =>
      simp only [hk] at h
      obtain ⟨f', hf', hn⟩ := ih h
      exact ⟨f', by simp [hf'], hn⟩
    | classvar =>
      simp only [hk] at h
      obtain ⟨f', hf', hn⟩ := ih h
      exact ⟨f', by simp [hf'], hn⟩
    | plain =>
      simp only [hk, List.mem_cons] at h
      cases h with
      | inl h => exact ⟨f, by simp, by rw [h, pyInherit_name, resolveField_name], by rw [hk]; simp⟩
      | inr h =>
        obtain ⟨f', hf', hn⟩ := ih h
        exact ⟨f', by simp [hf'], hn⟩
    | initvar =>
      simp only [hk, List.mem_cons] at h
      cases h with
      | inl h => exact ⟨f, by simp, by rw [h, pyInherit_name, resolveField_name], by rw [hk]; simp⟩
      | inr h =>
        obtain ⟨f', hf', hn⟩ := ih h
        exact ⟨f', by simp [hf'], hn⟩

theorem contains_names_pyOwn {d : FDefaults} {bfs : List RField} {kw : Bool} {fs : List FieldSpec} {n : String}
    (h : (fs.map (·.name)).contains n = false) : (names (pyOwn d bfs kw fs)).contains n = false := by
  cases hc : (names (pyOwn d bfs kw fs)).contains n with
  | false => rfl
  | true =>
    simp only [names, List.contains_iff_mem, List.mem_map] at hc
    obtain ⟨g, hg, hgn⟩ := hc
    obtain ⟨f, hf, hfn, _⟩ := mem_pyOwn_name hg
    have : (fs.map (·.name)).contains n = true := by
      simp only [List.contains_iff_mem, List.mem_map]
      exact ⟨f, hf, by rw [hfn, hgn]⟩
    rw [h] at this; cases this

theorem nodup_pyOwn {d : FDefaults} {bfs : List RField} {kw : Bool} {fs : List FieldSpec}
    (h : nodupStr (fs.map (·.name)) = true) : nodupStr (names (pyOwn d bfs kw fs)) = true := by
  induction fs generalizing kw with
  | nil => simp [pyOwn, names, nodupStr]
  | cons f t ih =>
    simp only [List.map_cons] at h
    obtain ⟨h1, h2⟩ := nodupStr_cons.mp h
    unfold pyOwn
    cases hk : f.kind with
    | kwSentinel => simpa [hk] using ih h2
    | classvar => simpa [hk] using ih h2
    | plain =>
      simp only [names, List.map_cons]
      rw [nodupStr_cons]
      exact ⟨by rw [pyInherit_name, resolveField_name]; exact contains_names_pyOwn h1, ih h2⟩
    | initvar =>
      simp only [names, List.map_cons]
      rw [nodupStr_cons]
      exact ⟨by rw [pyInherit_name, resolveField_name]; exact contains_names_pyOwn h1, ih h2⟩

/-- with disjoint names the merged field list is base fields followed by own fields -/
theorem pyFields_eq_append (s : ClassSpec) (o : Opts)
    (hn : nodupStr (s.fields.map (·.name)) = true)
    (h8 : ∀ f ∈ s.fields, f.kind = .classvar ∨ (names s.baseFields).contains f.name = false) :
    pyFields s o = s.baseFields ++ pyOwn pyFldD s.baseFields o.kwOnly s.fields := by
  unfold pyFields
  apply foldl_upsert_append
  · intro g hg
    obtain ⟨f, hf, hfn, hk⟩ := mem_pyOwn_name hg
    cases h8 f hf with
    | inl h => exact absurd h hk
    | inr h => rw [← hfn]; exact h
  · exact nodup_pyOwn hn

/-- without sentinel and without per-field kw_only every own field follows the class-level flag -/
theorem pyOwn_kw {d : FDefaults} {bfs : List RField} {kw : Bool} {fs : List FieldSpec} {g : RField}
    (h1 : ∀ f ∈ fs, f.kind ≠ .kwSentinel) (h4 : ∀ f ∈ fs, f.kwOnly = none)
    (h : g ∈ pyOwn d bfs kw fs) : g.kwOnly = kw := by
  induction fs with
  | nil => simp [pyOwn] at h
  | cons f t ih =>
    have iht := ih (fun g hg => h1 g (by simp [hg])) (fun g hg => h4 g (by simp [hg]))
    unfold pyOwn at h
    cases hk : f.kind with
    | kwSentinel => exact absurd hk (h1 f (by simp))
    | classvar => simp only [hk] at h; exact iht h
    | plain =>
      simp only [hk, List.mem_cons] at h
      cases h with
      | inl h => rw [h, pyInherit_kwOnly]; simp [resolveField, h4 f (by simp)]
      | inr h => exact iht h
    | initvar =>
      simp only [hk, List.mem_cons] at h
      cases h with
      | inl h => rw [h, pyInherit_kwOnly]; simp [resolveField, h4 f (by simp)]
      | inr h => exact iht h

end CyVerif.C30

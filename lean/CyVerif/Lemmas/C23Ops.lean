import CyVerif.Lemmas.C23Send
namespace CyVerif.C23
variable {σ ι : Type}

theorem relO_next_suspended {o : Res} {s : σ} {ca : CyObj σ ι} {pa : PyObj σ ι} (hd : RelD ca pa) :
    RelO o (.gen .suspended false s ca) (.gen .suspended s pa) :=
  ⟨.deleg (.gen s hd), fun _ _ => .gen s hd⟩

theorem sim_finish_leave (fl : Flags) (B : Body σ ι) (rc : CyRec σ ι) (rp : PyRec σ ι)
    (H : SimAll fl rc rp) (st : σ) (sub : CyObj σ ι) (sub' : PyObj σ ι) (hs : RelN sub sub') (inp : Input) :
    RSim fl RelO (cyFinish fl B rc .suspended st sub inp) (pyLeave B rp st sub' inp) :=
  (sim_resume_leave fl B rc rp H st sub sub' hs inp false).unset

theorem sim_finish_throw (fl : Flags) (B : Body σ ι) (O : OpqSem ι) (rc : CyRec σ ι) (rp : PyRec σ ι)
    (H : SimAll fl rc rp) (st : σ) (sub : CyObj σ ι) (sub' : PyObj σ ι) (hs : RelN sub sub') (e : Exc) :
    RSim fl RelO (cyFinish fl B rc .suspended st sub (.throw e)) (pySendEx2 fl.coro B O rp .suspended st sub' (.throw e) false) :=
  (sim_resume_throw fl B O rc rp H st sub sub' hs e false).unset

/-- `__Pyx_Coroutine_AmSend` vs `gen_send_ex2` + `SEND`, generator suspended (possibly inside `yield from`) -/
theorem sim_amSend_suspended (fl : Flags) (B : Body σ ι) (O : OpqSem ι) (rc : CyRec σ ι) (rp : PyRec σ ι)
    (H : SimAll fl rc rp) (st : σ) (yf : CyObj σ ι) (yf' : PyObj σ ι) (hd : RelD yf yf') (v : Val) :
    RSim fl RelO (cyAmSend fl B O rc .suspended false st yf v) (pySendEx2 fl.coro B O rp .suspended st yf' (.send v) false) := by
  cases hd with
  | null =>
    simp only [cyAmSend, Bool.false_eq_true, if_false]
    exact (sim_sendEx_suspended fl B O rc rp H st (.send v) false).unset
  | opq o =>
    simp only [cyAmSend, Bool.false_eq_true, if_false, pySendEx2, pyEval]
    generalize opqSend O o v = c
    rcases c with ⟨tg, ir, o'⟩
    apply RSim.pre
    cases ir with
    | val x => exact RSim.pure rfl rfl (relO_next_suspended (.opq o'))
    | exc e => exact sim_finish_leave fl B rc rp H st _ _ (.deleg (.opq o')) _
  | gen s h =>
    simp only [cyAmSend, Bool.false_eq_true, if_false, pySendEx2, pyEval]
    apply RSim.bind (Q0 := RelO) (H.nonrun _ _ (.send v) (.deleg (.gen s h)) (by simp [ReqOk, CyObj.isFinished])) (relO_null _)
    intro o ca pa hne hq
    cases o with
    | div => exact absurd rfl hne
    | next x => exact RSim.pure rfl rfl (relO_next_suspended (hq.2 x rfl))
    | ret x => exact sim_finish_leave fl B rc rp H st _ _ hq.1 _
    | err e =>
      cases hx : e.isStop with
      | some x =>
        intro hdv
        simp only [hx, R.pre, okDevs_append, okDevs_single, Flags.fixed] at hdv
        exact absurd hdv.1 (by simp)
      | none =>
        simp only [hx]
        exact sim_finish_leave fl B rc rp H st _ _ hq.1 _

theorem sim_amSend_created (fl : Flags) (B : Body σ ι) (O : OpqSem ι) (rc : CyRec σ ι) (rp : PyRec σ ι)
    (H : SimAll fl rc rp) (st : σ) (v : Val) :
    RSim fl RelO (cyAmSend fl B O rc .created false st .null v) (pySendEx2 fl.coro B O rp .created st .null (.send v) false) := by
  simp only [cyAmSend, Bool.false_eq_true, if_false]
  exact (sim_sendEx_created fl B O rc rp H st (.send v) false).unset

end CyVerif.C23

import CyVerif.Lemmas.C10EscTok
/-! Bytes / char literals (non-raw): Cython's loop vs `_PyBytes_DecodeEscape`. -/
namespace CyVerif.C10

theorem bytesSide_true (k : Kind) (hb : k.hasBytes = true) (r : Res (List Nat)) : bytesSide k r = r := by
  simp [bytesSide, hb]

theorem refBStep_bs (d : Nat) (t : List Nat) :
    refBStep (92 :: d :: t) =
      if d = 10 then (.ok [], t)
      else match refSimple d with
        | some v => (.ok [v], t)
        | none =>
          if isOct d then (.ok [(refOct d t).1 % 256], (refOct d t).2)
          else if d = 120 then
            match refHex 2 t 0 with
            | none => (.err "SyntaxError", t)
            | some (v, r) => (.ok [v], r)
          else (.ok [92], d :: t) := by
  simp only [refBStep, if_neg (show ¬ ((92 : Nat) ≠ 92) by decide)]
  rfl

/-- ordinary characters are copied -/
theorem refB_run (w tail v : List Nat) (hw : ∀ x ∈ w, x ≠ 92) (f : Nat)
    (hv : refLoop refBStep f tail = .ok v) (hf : tail.length < f) :
    ∀ f', (w ++ tail).length < f' → refLoop refBStep f' (w ++ tail) = .ok (w ++ v) := by
  induction w with
  | nil =>
    intro f' hf'
    simp only [List.nil_append] at hf' ⊢
    rw [refLoop_fuel _ refBStep_decr f' f tail hf' hf, hv]
  | cons x xs ih =>
    intro f' hf'
    have hx : x ≠ 92 := hw x (by simp)
    have hstep : refBStep (x :: (xs ++ tail)) = (.ok [x], xs ++ tail) := by simp [refBStep, hx]
    have hl : (xs ++ tail).length < f' := by simp only [List.cons_append, List.length_cons] at hf'; omega
    have := refLoop_cons _ refBStep_decr x _ _ [x] _ f' f' hstep
      (ih (fun y hy => hw y (by simp [hy])) f' hl) hl hf'
    simpa using this

/-- what the byte builder holds after appending ASCII text -/
theorem chStr_ascii_bs (k : Kind) (hb : k.hasBytes = true) (chars : List Nat) (lit : Bool) (ch : Chunk)
    (h : chStr k chars lit = .ok ch) (ha : ∀ x ∈ chars, x < 128) : ch.bs = chars := by
  have := (chStr_ok k chars lit ch h).2.2.2
  rw [bytesSide_true k hb, utf8Encode_ascii chars ha] at this
  injection this with this; exact this.symm

theorem H_bytes (P : LexP) (hP : P.WF) (lk : Lookup) (k : Kind) (hk : k.isText = false) (hb : k.hasBytes = true)
    (c : Nat) (rest : List Nat) (ch1 : Chunk) (rest1 : List Nat)
    (hs : cyStep P lk k false (c :: rest) = (.ok ch1, rest1))
    (hg : ch1.nonfatal = false ∧ ch1.nonascii = false)
    (f : Nat) (v : List Nat) (hf : rest1.length < f) (hv : refLoop refBStep f rest1 = .ok v)
    (f' : Nat) (hf' : (c :: rest).length < f') :
    refLoop refBStep f' (c :: rest) = .ok (ch1.bs ++ v) := by
  have hnf : ¬ (k = Kind.f) := by intro e; subst e; simp [Kind.isText] at hk
  by_cases h92 : c = 92
  · subst h92
    cases rest with
    | nil => simp [cyStep] at hs
    | cons d t =>
      rw [cyStep_bs] at hs
      injection hs with hs1 hs2
      subst hs2
      have sync : ∀ o, refBStep (92 :: d :: t) = (.ok o, (d :: t).drop (escLen P (d :: t))) → ch1.bs = o →
          refLoop refBStep f' (92 :: d :: t) = .ok (ch1.bs ++ v) := by
        intro o ho hbs
        rw [hbs]
        exact refLoop_cons _ refBStep_decr 92 (d :: t) _ o v f f' ho hv hf hf'
      by_cases hoct : isOct d = true
      · -- octal
        obtain ⟨hp, hdrop, h1⟩ := oct_agree P d t hoct
        obtain ⟨m, hm⟩ : ∃ m, escLen P (d :: t) = m + 1 := ⟨escLen P (d :: t) - 1, by omega⟩
        have hb' := (isOct_iff d).1 hoct
        apply sync [(refOct d t).1 % 256]
        · rw [refBStep_bs, if_neg (by omega), refSimple_none d (by omega)]
          simp only [hoct, if_true, hdrop]
        · rw [hm] at hs1 hp
          rw [List.take_succ_cons] at hs1 hp
          rw [appendEsc_two] at hs1
          simp only [hoct, if_true, hp] at hs1
          have := (chVal_ok P k _ ch1 hs1).2.2.2
          rw [bytesSide_true k hb] at this
          split at this
          · injection this with this
            rw [← this]
          · cases this
      · have hoct' : isOct d = false := by simpa using hoct
        by_cases h120 : d = 120
        · subst h120
          have hlen : escLen P (120 :: t) = if hexPrefix 2 t = true then 3 else 1 := by simp [escLen, isOct]
          have hcy : ∀ tl, appendEsc P lk k (92 :: 120 :: tl) =
              if tl.length = 2 then
                (match parseInt 16 isHex tl with
                 | some v => chVal P k v
                 | none => .err "ValueError")
              else chErr := by
            intro tl; rw [appendEsc_two]; simp [isOct] <;> rfl
          by_cases hp : hexPrefix 2 t = true
          · obtain ⟨w, hw, hr⟩ := (hex_agree 1 t).1 hp
            have hl := hexPrefix_take_length 2 t hp
            apply sync [w]
            · rw [refBStep_bs, hlen]; simp [refSimple, isOct, hp, hr]
            · rw [hlen] at hs1
              simp only [hp, if_true, List.take_succ_cons] at hs1
              rw [hcy, hw] at hs1
              simp only [hl, if_true] at hs1
              have := (chVal_ok P k _ ch1 hs1).2.2.2
              rw [bytesSide_true k hb] at this
              have hlt := parseInt_hex_lt _ w hw
              rw [hl] at hlt
              rw [if_pos (Or.inl (by omega))] at this
              injection this with this
              rw [← this, Nat.mod_eq_of_lt (by omega)]
          · rw [hlen] at hs1
            simp only [hp, Bool.false_eq_true, if_false, List.take_succ_cons, List.take_zero] at hs1
            rw [hcy] at hs1
            simp only [List.length_nil] at hs1
            have := chErr_nonfatal ch1 (by simpa using hs1)
            rw [this] at hg; cases hg.1
        by_cases hsimple : d = 10 ∨ d = 92 ∨ d = 39 ∨ d = 34 ∨ d = 97 ∨ d = 98 ∨ d = 102 ∨ d = 110 ∨ d = 114 ∨
            d = 116 ∨ d = 118
        · have hlen : escLen P (d :: t) = 1 := by
            rcases hsimple with rfl | rfl | rfl | rfl | rfl | rfl | rfl | rfl | rfl | rfl | rfl <;>
              simp [escLen, isOct, simpleSet]
          rw [hlen] at hs1 sync
          simp only [List.take_succ_cons, List.take_zero, List.drop_succ_cons, List.drop_zero] at hs1 sync
          rw [appendEsc_two] at hs1
          rcases hsimple with rfl | rfl | rfl | rfl | rfl | rfl | rfl | rfl | rfl | rfl | rfl <;>
            simp [isOct, cyCharFromEscape] at hs1
          · subst hs1; exact sync [] (by rw [refBStep_bs]; simp) rfl
          all_goals
            (apply sync _ (by rw [refBStep_bs]; simp [refSimple]; rfl)
             exact chStr_ascii_bs k hb _ false ch1 hs1 (by simp))
        · -- `\N…`, `\u…`, `\U…` and unknown escapes: the token is kept verbatim
          have hd : d ≠ 10 ∧ d ≠ 92 ∧ d ≠ 39 ∧ d ≠ 34 ∧ d ≠ 97 ∧ d ≠ 98 ∧ d ≠ 102 ∧ d ≠ 110 ∧ d ≠ 114 ∧ d ≠ 116 ∧
              d ≠ 118 := by omega
          have href : refBStep (92 :: d :: t) = (.ok [92], d :: t) := by
            rw [refBStep_bs, if_neg hd.1, refSimple_none d (by omega)]
            simp [hoct', h120]
          have hseq : appendEsc P lk k (92 :: (d :: t).take (escLen P (d :: t))) =
              chStr k (92 :: (d :: t).take (escLen P (d :: t))) false := by
            cases hn : escLen P (d :: t) with
            | zero => simp [appendEsc_one]
            | succ m =>
              rw [List.take_succ_cons, appendEsc_two]
              obtain ⟨h1, h2, h3, h4, h5, h6, h7, h8, h9, h10, h11⟩ := hd
              simp [hoct', h120, h1, h2, h3, h4, h5, h6, h7, h8, h9, h10, h11, hk]
          rw [hseq] at hs1
          have hchars := escTok_chars P hP d t
          have hbs := chStr_ascii_bs k hb _ false ch1 hs1 (by
            intro x hx
            simp only [List.mem_cons] at hx
            rcases hx with rfl | hx
            · omega
            · exact (hchars x hx).1)
          have hrun := refB_run ((d :: t).take (escLen P (d :: t))) _ v
            (fun x hx e => hd.2.1 ((hchars x hx).2 e)) f hv hf
          rw [List.take_append_drop] at hrun
          have hl : (d :: t).length < f' := by simp only [List.length_cons] at hf' ⊢; omega
          have := refLoop_cons _ refBStep_decr 92 (d :: t) (d :: t) [92] _ f' f' href (hrun f' hl) hl hf'
          rw [this, hbs]; rfl
  · have hbr : ¬ (k = .f ∧ (c = 123 ∨ c = 125)) := fun h => hnf h.1
    simp only [cyStep, h92, if_false, hbr] at hs
    injection hs with hs1 hs2
    subst hs2
    have hflag := (chStr_ok k _ true ch1 hs1).2.2.1
    rw [hg.2] at hflag
    have hc : c < 128 := by
      simp only [Bool.true_and, List.any_cons, List.any_nil, Bool.or_false] at hflag
      have : decide (128 ≤ c) = false := hflag.symm
      simpa using this
    have hbs := chStr_ascii_bs k hb _ true ch1 hs1 (by simp; exact hc)
    have hstep : refBStep (c :: rest) = (.ok [c], rest) := by simp [refBStep, h92]
    rw [hbs]
    exact refLoop_cons _ refBStep_decr c rest rest [c] v f f' hstep hv hf hf'

end CyVerif.C10

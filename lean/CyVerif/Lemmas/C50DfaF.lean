import CyVerif.Lemmas.C50DfaE
/-! Subset construction, part F: the transitions written into a DFA state come exactly from the items. -/
namespace CyVerif.C50

/-- every transition of `st` stems from an item, and leads to the state whose key is the item's set -/
structure FromItems (keys : List SSet) (its : List (Ev × SSet)) (st : DState) : Prop where
  els : ∀ t, st.els = some t → ∃ c1 S, (Ev.range (-maxint) c1, S) ∈ its ∧ keys[t]? = some S
  chars : ∀ c0 c1 t, (c0, c1, t) ∈ st.chars →
    c0 ≠ -maxint ∧ c1 ≠ maxint ∧ ∃ S, (Ev.range c0 c1, S) ∈ its ∧ keys[t]? = some S
  sp : ∀ k t, st.spGet k = some t → ∃ S, (Ev.sp k, S) ∈ its ∧ keys[t]? = some S

/-- every item left a transition in `st` (except ranges ending at `maxint`, which rely on `'else'`) -/
structure Covers (its : List (Ev × SSet)) (st : DState) : Prop where
  els : ∀ c1 S, (Ev.range (-maxint) c1, S) ∈ its → st.els ≠ none
  chars : ∀ c0 c1 S, (Ev.range c0 c1, S) ∈ its → c0 ≠ -maxint → c1 ≠ maxint → ∃ t, (c0, c1, t) ∈ st.chars
  sp : ∀ k S, k ≠ .eps → (Ev.sp k, S) ∈ its → st.spGet k ≠ none

theorem FromItems.mono {keys extra : List SSet} {A B : List (Ev × SSet)} {st : DState}
    (h : FromItems keys A st) : FromItems (keys ++ extra) (A ++ B) st := by
  have up : ∀ {t : Nat} {S : SSet}, keys[t]? = some S → (keys ++ extra)[t]? = some S := by
    intro t S hk
    have : t < keys.length := by
      rcases List.getElem?_eq_some_iff.1 hk with ⟨h, _⟩; exact h
    rw [List.getElem?_append_left this]; exact hk
  refine ⟨?_, ?_, ?_⟩
  · intro t ht
    obtain ⟨c1, S, hm, hk⟩ := h.els t ht
    exact ⟨c1, S, List.mem_append_left _ hm, up hk⟩
  · intro c0 c1 t ht
    obtain ⟨a, b, S, hm, hk⟩ := h.chars c0 c1 t ht
    exact ⟨a, b, S, List.mem_append_left _ hm, up hk⟩
  · intro k t ht
    obtain ⟨S, hm, hk⟩ := h.sp k t ht
    exact ⟨S, List.mem_append_left _ hm, up hk⟩

/-- one item: `add_transitions(new_state, event, t)` with `keys[t] = S` -/
theorem step_item {keys : List SSet} {P : List (Ev × SSet)} {st st' : DState} {ev : Ev} {S : SSet} {t : Nat}
    (hf : FromItems keys P st) (hc : Covers P st) (hk : keys[t]? = some S)
    (ha : st.addTransitions ev t = some st') :
    FromItems keys (P ++ [(ev, S)]) st' ∧ Covers (P ++ [(ev, S)]) st' := by
  have hf' : FromItems keys (P ++ [(ev, S)]) st := by simpa using hf.mono (extra := []) (B := [(ev, S)])
  cases ev with
  | range c0 c1 =>
    obtain ⟨e1, e2, e3, e4⟩ := addTransitions_range ha
    by_cases h0 : c0 = -maxint
    · obtain ⟨x1, x2⟩ := e2 h0
      refine ⟨⟨?_, ?_, ?_⟩, ⟨?_, ?_, ?_⟩⟩
      · intro t' ht'
        rw [x1] at ht'
        simp only [Option.some.injEq] at ht'
        subst ht'
        exact ⟨c1, S, by rw [h0]; simp, hk⟩
      · intro a b t' ht'; rw [x2] at ht'; exact hf'.chars a b t' ht'
      · intro k t' ht'; rw [e1] at ht'; exact hf'.sp k t' ht'
      · intro _ _ _; rw [x1]; simp
      · intro a b S' hm ha' hb'
        rw [x2]
        rcases List.mem_append.1 hm with hm | hm
        · exact hc.chars a b S' hm ha' hb'
        · simp only [List.mem_singleton, Prod.mk.injEq, Ev.range.injEq] at hm
          exact absurd (hm.1.1.trans h0) ha'
      · intro k S' hk' hm
        rw [e1]
        rcases List.mem_append.1 hm with hm | hm
        · exact hc.sp k S' hk' hm
        · simp at hm
    · by_cases h1 : c1 = maxint
      · have := e4 h0 h1
        subst this
        refine ⟨hf', ⟨?_, ?_, ?_⟩⟩
        · intro b S' hm
          rcases List.mem_append.1 hm with hm | hm
          · exact hc.els b S' hm
          · simp only [List.mem_singleton, Prod.mk.injEq, Ev.range.injEq] at hm
            exact absurd hm.1.1.symm h0
        · intro a b S' hm ha' hb'
          rcases List.mem_append.1 hm with hm | hm
          · exact hc.chars a b S' hm ha' hb'
          · simp only [List.mem_singleton, Prod.mk.injEq, Ev.range.injEq] at hm
            exact absurd (hm.1.2.trans h1) hb'
        · intro k S' hk' hm
          rcases List.mem_append.1 hm with hm | hm
          · exact hc.sp k S' hk' hm
          · simp at hm
      · obtain ⟨x1, x2⟩ := e3 h0 h1
        refine ⟨⟨?_, ?_, ?_⟩, ⟨?_, ?_, ?_⟩⟩
        · intro t' ht'; rw [x1] at ht'; exact hf'.els t' ht'
        · intro a b t' ht'
          rw [x2] at ht'
          rcases List.mem_cons.1 ht' with e | e
          · simp only [Prod.mk.injEq] at e
            obtain ⟨rfl, rfl, rfl⟩ := e
            exact ⟨h0, h1, S, by simp, hk⟩
          · exact hf'.chars a b t' e
        · intro k t' ht'; rw [e1] at ht'; exact hf'.sp k t' ht'
        · intro b S' hm
          rw [x1]
          rcases List.mem_append.1 hm with hm | hm
          · exact hc.els b S' hm
          · simp only [List.mem_singleton, Prod.mk.injEq, Ev.range.injEq] at hm
            exact absurd hm.1.1.symm h0
        · intro a b S' hm ha' hb'
          rw [x2]
          rcases List.mem_append.1 hm with hm | hm
          · obtain ⟨t', ht'⟩ := hc.chars a b S' hm ha' hb'
            exact ⟨t', List.mem_cons_of_mem _ ht'⟩
          · simp only [List.mem_singleton, Prod.mk.injEq, Ev.range.injEq] at hm
            obtain ⟨⟨rfl, rfl⟩, _⟩ := hm
            exact ⟨t, by simp⟩
        · intro k S' hk' hm
          rw [e1]
          rcases List.mem_append.1 hm with hm | hm
          · exact hc.sp k S' hk' hm
          · simp at hm
  | sp k0 =>
    obtain ⟨e1, e2, e3⟩ := addTransitions_sp ha
    refine ⟨⟨?_, ?_, ?_⟩, ⟨?_, ?_, ?_⟩⟩
    · intro t' ht'; rw [e1] at ht'; exact hf'.els t' ht'
    · intro a b t' ht'; rw [e2] at ht'; exact hf'.chars a b t' ht'
    · intro k t' ht'
      rw [e3] at ht'
      by_cases hkk : k = k0 ∧ k0 ≠ .eps
      · simp only [hkk, ne_eq, not_false_eq_true, and_self, if_true, Option.some.injEq] at ht'
        subst ht'
        exact ⟨S, by rw [hkk.1]; simp, hk⟩
      · rw [if_neg hkk] at ht'; exact hf'.sp k t' ht'
    · intro b S' hm
      rw [e1]
      rcases List.mem_append.1 hm with hm | hm
      · exact hc.els b S' hm
      · simp at hm
    · intro a b S' hm ha' hb'
      rw [e2]
      rcases List.mem_append.1 hm with hm | hm
      · exact hc.chars a b S' hm ha' hb'
      · simp at hm
    · intro k S' hk' hm
      rw [e3]
      by_cases hkk : k = k0 ∧ k0 ≠ .eps
      · rw [if_pos hkk]; simp
      · rw [if_neg hkk]
        rcases List.mem_append.1 hm with hm | hm
        · exact hc.sp k S' hk' hm
        · simp only [List.mem_singleton, Prod.mk.injEq, Ev.sp.injEq] at hm
          exact absurd ⟨hm.1, by rw [← hm.1]; exact hk'⟩ hkk

end CyVerif.C50

import CyVerif.Lemmas.C35Step2
/-! Consequences of the invariant: who is in use, what `allocate` / `release` may return. -/
namespace CyVerif.C35

theorem mem_inUseNames {s : FS} {n : Nat} :
    n ∈ inUseNames s ↔ ∃ t ∈ s.allocated, t.name = n ∧ isFree s t = false := by
  simp [inUseNames, inUse, List.mem_map, List.mem_filter, and_left_comm, and_comm]

theorem inUseNames_sub_names {s : FS} {n : Nat} (h : n ∈ inUseNames s) : n ∈ names s := by
  obtain ⟨t, ht, e, _⟩ := mem_inUseNames.mp h
  exact mem_names.mpr ⟨t, ht, e⟩

theorem isFree_iff {s : FS} {t : Temp} :
    isFree s t = true ↔ ∃ fl, aget s.free t.key = some fl ∧ t.name ∈ fl.members := by
  unfold isFree
  split
  · rename_i h; simp [h]
  · rename_i fl h; simp [h]

/-- (d) `release_temp` succeeds exactly on the temps in use -/
theorem release_ok_iff {s : FS} (w : WF s) (n : Nat) :
    (∃ s', release s n = .ok s') ↔ n ∈ inUseNames s := by
  constructor
  · rintro ⟨s', h⟩
    obtain ⟨k, hk, hn, -⟩ := release_ok h
    obtain ⟨t, ht, htn⟩ := mem_names.mp (w.usedOnly n k hk)
    have htk : t.key = k := by
      have := w.used t ht; rw [htn, hk] at this; exact (Option.some.inj this).symm
    refine mem_inUseNames.mpr ⟨t, ht, htn, ?_⟩
    cases hf : isFree s t with
    | false => rfl
    | true =>
      obtain ⟨fl, hfl, hm⟩ := isFree_iff.mp hf
      rw [htk] at hfl; rw [hfl] at hn; rw [htn] at hm; exact absurd hm (by simpa using hn)
  · intro h
    obtain ⟨t, ht, htn, hf⟩ := mem_inUseNames.mp h
    have hu := w.used t ht
    rw [htn] at hu
    unfold release
    simp only [hu]
    split
    · rename_i hm
      exfalso
      cases hg : aget s.free t.key with
      | none => rw [hg] at hm; simp at hm
      | some fl =>
        rw [hg] at hm; simp at hm
        have : isFree s t = true := isFree_iff.mpr ⟨fl, hg, htn ▸ hm⟩
        rw [hf] at this; cases this
    · exact ⟨_, rfl⟩

/-- (d) a name that was never handed out: `KeyError` -/
theorem release_unknown {s : FS} (w : WF s) {n : Nat} (h : n ∉ names s) : release s n = .err "KeyError" := by
  unfold release
  cases hu : aget s.usedType n with
  | none => rfl
  | some k => exact absurd (w.usedOnly n k hu) h

/-- (d) a name that was handed out but is not in use (released before): `RuntimeError` ("freed twice") -/
theorem release_twice {s : FS} (w : WF s) {n : Nat} (h : n ∈ names s) (h' : n ∉ inUseNames s) :
    release s n = .err "RuntimeError" := by
  obtain ⟨t, ht, htn⟩ := mem_names.mp h
  have hu := w.used t ht
  rw [htn] at hu
  have hf : isFree s t = true := by
    cases hf : isFree s t with
    | true => rfl
    | false => exact absurd (mem_inUseNames.mpr ⟨t, ht, htn, hf⟩) h'
  obtain ⟨fl, hfl, hm⟩ := isFree_iff.mp hf
  unfold release
  simp only [hu, hfl, Option.getD_some]
  rw [htn] at hm
  simp [hm]

/-- `temps_allocated` only grows -/
theorem allocated_prefix_apply (s : FS) (op : Op) : s.allocated <+: (s.apply op).allocated := by
  cases op with
  | alloc ty m st r =>
    simp only [FS.apply, allocate]
    split
    · exact List.prefix_refl _
    · exact List.prefix_append _ _
  | release n =>
    simp only [FS.apply]
    split
    · rename_i s' h
      obtain ⟨k, -, -, rfl⟩ := release_ok h
      exact List.prefix_refl _
    · exact List.prefix_refl _

theorem allocated_prefix_runOps (s : FS) (ops : List Op) : s.allocated <+: (s.runOps ops).allocated := by
  induction ops generalizing s with
  | nil => exact List.prefix_refl _
  | cons op ops ih => exact List.IsPrefix.trans (allocated_prefix_apply s op) (ih (s.apply op))

theorem holdingRef_sub_allManaged {s : FS} {n : Nat} (h : n ∈ holdingRef s) : n ∈ allManaged s := by
  simp only [holdingRef, inUse, List.mem_map, List.mem_filter] at h
  obtain ⟨t, ⟨⟨ht, _⟩, hm⟩, e⟩ := h
  simp only [allManaged, List.mem_map, List.mem_filter]
  refine ⟨t, ⟨ht, ?_⟩, e⟩
  cases hmm : t.manage <;> simp_all

theorem mem_holdingRef {s : FS} (w : WF s) {n : Nat} :
    n ∈ holdingRef s ↔ ∃ t ∈ s.allocated, t.name = n ∧ t.manage = true ∧ isFree s t = false := by
  simp only [holdingRef, inUse, List.mem_map, List.mem_filter]
  constructor
  · rintro ⟨t, ⟨⟨ht, hf⟩, hm⟩, e⟩
    refine ⟨t, ht, e, ?_, by simpa using hf⟩
    cases hmm : t.manage <;> simp_all
  · rintro ⟨t, ht, e, hm, hf⟩
    refine ⟨t, ⟨⟨ht, by simp [hf]⟩, ?_⟩, e⟩
    simp [hm, w.canonManage t ht hm]

end CyVerif.C35

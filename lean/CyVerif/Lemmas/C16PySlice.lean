import CyVerif.Model.C16PySlice
import CyVerif.Lemmas.C16Arith
/-! Facts about the `PySlice` reference model (bounds after clamping, counting). -/
namespace CyVerif.C16.PySlice
open CyVerif.C16

theorem clampBound_pos_range {length step : Int} (x : Int) (hl : 0 ≤ length) (hs : 0 < step) :
    0 ≤ clampBound length step x ∧ clampBound length step x ≤ length := by
  unfold clampBound; simp only []; split <;> (try split) <;> (try split) <;> omega

theorem clampBound_neg_range {length step : Int} (x : Int) (hl : 0 ≤ length) (hs : step < 0) :
    -1 ≤ clampBound length step x ∧ clampBound length step x ≤ length - 1 := by
  unfold clampBound; simp only []; split <;> (try split) <;> (try split) <;> omega

/-- Language reference, positive step: add `len` to a negative bound, then clamp into `[0, len]`. -/
theorem clampBound_pos {length step : Int} (x : Int) (hl : 0 ≤ length) (hs : 0 < step) :
    clampBound length step x = min length (max 0 (if x < 0 then x + length else x)) := by
  unfold clampBound; simp only []; split <;> (try split) <;> (try split) <;> omega

/-- Language reference, negative step: add `len` to a negative bound, then clamp into `[-1, len-1]`. -/
theorem clampBound_neg {length step : Int} (x : Int) (hl : 0 ≤ length) (hs : step < 0) :
    clampBound length step x = min (length - 1) (max (-1) (if x < 0 then x + length else x)) := by
  unfold clampBound; simp only []; split <;> (try split) <;> (try split) <;> omega

theorem sliceLen_nonneg (s e : Int) {step : Int} (hs : step ≠ 0) : 0 ≤ sliceLen s e step := by
  unfold sliceLen
  split
  · split
    · have := count_pos (d := s - e) (st := -step) (by omega) (by omega); omega
    · omega
  · split
    · have := count_pos (d := e - s) (st := step) (by omega) (by omega); omega
    · omega

/-- `sliceLen` counts exactly the terms of `s, s+step, s+2·step, …` that lie before `e`. -/
theorem sliceLen_counts (s e : Int) {step : Int} (hs : step ≠ 0) (k : Int) (hk : 0 ≤ k) :
    k < sliceLen s e step ↔
      ((0 < step ∧ s + k * step < e) ∨ (step < 0 ∧ e < s + k * step)) := by
  unfold sliceLen
  by_cases hneg : step < 0
  · rw [if_pos hneg]
    have hkm : k * -step = -(k * step) := Int.mul_neg k step
    have hnn : 0 ≤ k * -step := Int.mul_nonneg hk (by omega)
    split
    · rename_i hlt
      have := count_below (d := s - e) (st := -step) (by omega) (by omega) k
      rw [this]
      constructor
      · intro h; right; omega
      · rintro (h | h) <;> omega
    · constructor
      · intro h; omega
      · rintro (h | h) <;> omega
  · rw [if_neg hneg]
    have hpos : 0 < step := by omega
    have hnn : 0 ≤ k * step := Int.mul_nonneg hk (by omega)
    split
    · have := count_below (d := e - s) (st := step) (by omega) (by omega) k
      rw [this]
      constructor
      · intro h; left; omega
      · rintro (h | h) <;> omega
    · constructor
      · intro h; omega
      · rintro (h | h) <;> omega

/-- every selected index lies inside `[0, n)` as soon as start/stop are inside the clamp ranges -/
theorem sliceLen_in_bounds {n s e step : Int} (hst : step ≠ 0)
    (hp : 0 < step → 0 ≤ s ∧ e ≤ n) (hn : step < 0 → s ≤ n - 1 ∧ -1 ≤ e)
    (k : Int) (hk : 0 ≤ k) (hlt : k < sliceLen s e step) :
    0 ≤ s + k * step ∧ s + k * step < n := by
  have hc := (sliceLen_counts s e hst k hk).1 hlt
  rcases hc with ⟨h1, h2⟩ | ⟨h1, h2⟩
  · have := hp h1
    have hnn : 0 ≤ k * step := Int.mul_nonneg hk (by omega)
    omega
  · have := hn h1
    have hnn : 0 ≤ k * -step := Int.mul_nonneg hk (by omega)
    rw [Int.mul_neg] at hnn
    omega

/-- `indices` on unbounded integers: the adjusted bounds are inside the clamp ranges. -/
theorem indices_ranges {n : Int} (hl : 0 ≤ n) {s e st : Option Int} {adj : Adj} {step : Int}
    (h : indices n s e st = .ok (adj, step)) :
    step ≠ 0 ∧ adj.len = sliceLen adj.start adj.stop step ∧
    (0 < step → 0 ≤ adj.start ∧ adj.start ≤ n ∧ 0 ≤ adj.stop ∧ adj.stop ≤ n) ∧
    (step < 0 → -1 ≤ adj.start ∧ adj.start ≤ n - 1 ∧ -1 ≤ adj.stop ∧ adj.stop ≤ n - 1) := by
  unfold indices at h
  by_cases hz : st = some 0
  · simp [hz] at h
  · rw [if_neg hz] at h
    injection h with h
    injection h with h1 h2
    subst h1
    have hne : st.getD 1 ≠ 0 := by
      cases st with
      | none => simp
      | some v => simp at hz ⊢; exact hz
    refine ⟨by rw [← h2]; exact hne, by rw [← h2], ?_, ?_⟩
    · intro hp
      rw [← h2] at hp
      have hlt : ¬ st.getD 1 < 0 := by omega
      have a1 : ∀ x, 0 ≤ clampBound n (st.getD 1) x ∧ clampBound n (st.getD 1) x ≤ n :=
        fun x => clampBound_pos_range x hl hp
      cases s <;> cases e <;> simp only [hlt, if_false] <;>
        (first | omega | (have := a1 ‹Int›; omega) | skip)
      all_goals (rename_i x y; have := a1 x; have := a1 y; omega)
    · intro hn
      rw [← h2] at hn
      have a1 : ∀ x, -1 ≤ clampBound n (st.getD 1) x ∧ clampBound n (st.getD 1) x ≤ n - 1 :=
        fun x => clampBound_neg_range x hl hn
      cases s <;> cases e <;> simp only [hn, if_true] <;>
        (first | omega | (have := a1 ‹Int›; omega) | skip)
      all_goals (rename_i x y; have := a1 x; have := a1 y; omega)

end CyVerif.C16.PySlice

import CyVerif.Lemmas.C28BinopChk
/-! # C28 — exhaustive kernel checks, operands of unrelated types -/
namespace CyVerif.C28

theorem unrelChk_tt : unrelChk ⟨true⟩ ⟨true, true⟩ = true := by decide +kernel
theorem unrelChk_tf : unrelChk ⟨true⟩ ⟨true, false⟩ = true := by decide +kernel
theorem unrelChk_ff : unrelChk ⟨true⟩ ⟨false, false⟩ = true := by decide +kernel
theorem unrelChk_ft : unrelChk ⟨true⟩ ⟨false, true⟩ = true := by decide +kernel
theorem unrelChk_tt' : unrelChk ⟨false⟩ ⟨true, true⟩ = true := by decide +kernel
theorem unrelChk_tf' : unrelChk ⟨false⟩ ⟨true, false⟩ = true := by decide +kernel
theorem unrelChk_ff' : unrelChk ⟨false⟩ ⟨false, false⟩ = true := by decide +kernel
theorem unrelChk_ft' : unrelChk ⟨false⟩ ⟨false, true⟩ = true := by decide +kernel

theorem unrelChk_all (v : Variant) (cfg : OpCfg) : unrelChk v cfg = true := by
  obtain ⟨b⟩ := v; obtain ⟨c, a⟩ := cfg
  cases b <;> cases c <;> cases a
  · exact unrelChk_ff'
  · exact unrelChk_ft'
  · exact unrelChk_tf'
  · exact unrelChk_tt'
  · exact unrelChk_ff
  · exact unrelChk_ft
  · exact unrelChk_tf
  · exact unrelChk_tt

end CyVerif.C28

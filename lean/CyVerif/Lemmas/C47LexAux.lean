import CyVerif.Lemmas.C47LexRun
/-! Finer token facts (maximal runs) and small reference-lexer steps (C47 completeness). -/
namespace CyVerif.C47

/-- finer shape of the tokens: runs are runs of one character, quote runs are maximal -/
def QP : Tok → List Char → Prop
  | .quote _ run, post => ∃ q n, isQuote q = true ∧ run = rep (n + 1) q ∧ ∀ x r, post = x :: r → x ≠ q
  | .escape bs eq, _ => (∃ n, bs = rep (n + 1) '\\') ∧ isQuote eq = true
  | _, _ => True

theorem eq_rep_of_takeWhile (q : Char) (l : List Char) :
    l.takeWhile (· == q) = rep (l.takeWhile (· == q)).length q := by
  apply List.eq_replicate_iff.mpr
  exact ⟨rfl, fun b hb => by simpa using mem_takeWhile_imp hb⟩

theorem mRun_post {l run post : List Char} (h : mRun l = some (run, post)) :
    ∃ q n, isQuote q = true ∧ run = rep (n + 1) q ∧ ∀ x r, post = x :: r → x ≠ q := by
  cases l with
  | nil => simp [mRun] at h
  | cons q cs =>
    simp only [mRun] at h
    split at h
    · rename_i hq
      simp only [spanEq, Option.some.injEq, Prod.mk.injEq] at h
      obtain ⟨h1, h2⟩ := h
      have hlen : 0 < run.length := by rw [← h1]; simp [List.takeWhile]
      refine ⟨q, run.length - 1, hq, ?_, ?_⟩
      · have := eq_rep_of_takeWhile q (q :: cs)
        rw [h1] at this
        have e : run.length - 1 + 1 = run.length := by omega
        rw [e]; exact this
      · intro x r hx
        rw [hx] at h2
        have := dropWhile_head_false h2
        simpa using this
    · simp at h

theorem mQuote_post {l : List Char} {t : Tok} {post : List Char} (h : mQuote l = some (t, post)) : QP t post := by
  cases l with
  | nil => simp [mQuote] at h
  | cons c cs =>
    simp only [mQuote] at h
    split at h
    · split at h
      · rename_i run post' hr
        simp only [Option.some.injEq, Prod.mk.injEq] at h
        obtain ⟨rfl, rfl⟩ := h
        exact mRun_post hr
      · simp at h
    · split at h
      · rename_i run post' hr
        simp only [Option.some.injEq, Prod.mk.injEq] at h
        obtain ⟨rfl, rfl⟩ := h
        exact mRun_post hr
      · simp at h

theorem mCode_post {l : List Char} {t : Tok} {post : List Char} (h : mCode l = some (t, post)) : QP t post := by
  cases l with
  | nil => simp [mCode] at h
  | cons c cs =>
    simp only [mCode] at h
    split at h
    · simp only [Option.some.injEq, Prod.mk.injEq] at h; obtain ⟨rfl, rfl⟩ := h; trivial
    · split at h
      · simp only [Option.some.injEq, Prod.mk.injEq] at h; obtain ⟨rfl, rfl⟩ := h; trivial
      · exact mQuote_post h

theorem mStr_post {l : List Char} {t : Tok} {post : List Char} (h : mStr l = some (t, post)) : QP t post := by
  rcases mStr_some h with he | ⟨_, hq⟩
  · obtain ⟨bs, q, rfl, hsp, hq, cs, hl⟩ := mEscape_some he
    refine ⟨?_, hq⟩
    subst hl
    simp only [spanEq, Prod.mk.injEq] at hsp
    have hlen : 0 < bs.length := by rw [← hsp.1]; simp [List.takeWhile]
    refine ⟨bs.length - 1, ?_⟩
    have := eq_rep_of_takeWhile '\\' ('\\' :: cs)
    rw [hsp.1] at this
    have e : bs.length - 1 + 1 = bs.length := by omega
    rw [e]; exact this
  · exact mQuote_post hq

theorem search_post {m : List Char → Option (Tok × List Char)} {Q : Tok → List Char → Prop}
    (hm : ∀ l t post, m l = some (t, post) → Q t post) :
    ∀ {rest pre t post}, search m rest = some (pre, t, post) → Q t post := by
  intro rest
  induction rest with
  | nil => intro pre t post h; simp [search] at h
  | cons c cs ih =>
    intro pre t post h
    simp only [search] at h
    split at h
    · rename_i t' post' hm'
      simp only [Option.some.injEq, Prod.mk.injEq] at h
      obtain ⟨_, rfl, rfl⟩ := h
      exact hm _ _ _ hm'
    · split at h
      · rename_i pre' t' post' hs
        simp only [Option.some.injEq, Prod.mk.injEq] at h
        obtain ⟨_, rfl, rfl⟩ := h
        exact ih hs
      · simp at h

theorem keptMask_litIf (b : List Char) : keptMask (litIf b) = ff b.length := by
  unfold litIf; split
  · rename_i h; subst h; rfl
  · simp [keptMask, ff, List.map_const']

theorem keptMask_kept (s : List Char) : keptMask [.kept s] = tt s.length := by
  simp [keptMask, tt, List.map_const']

theorem keptMask_lit (s : List Char) : keptMask [.lit s] = ff s.length := by
  simp [keptMask, ff, List.map_const']

theorem isPrefixOf_qsOf {q c : Char} {triple : Bool} {n : Nat} :
    (qsOf q triple).isPrefixOf (rep (n + 1) c) = true ↔ c = q ∧ (triple = true → 2 ≤ n) := by
  cases triple with
  | false =>
    simp only [qsOf, Bool.false_eq_true, if_false, rep, List.replicate_succ, List.isPrefixOf, Bool.and_true,
      beq_iff_eq, false_imp_iff, and_true]
    exact eq_comm
  | true =>
    match n with
    | 0 => simp [qsOf, rep, List.isPrefixOf]
    | 1 => simp [qsOf, rep, List.replicate_succ, List.isPrefixOf]
    | n + 2 =>
      simp only [qsOf, if_true, rep, List.replicate_succ, List.isPrefixOf, Bool.and_true, Bool.and_self,
        beq_iff_eq, true_imp_iff, Nat.le_add_left, and_true]
      exact eq_comm

theorem refLex_code_fquote {c : Char} (hc : isQuote c = true) (X : List Char) :
    refLex .code 0 ('f' :: c :: X) = none := by
  have hf : isQuote 'f' = false := by decide
  simp only [refLex, hf, hc]
  simp

theorem refLex_code_brace {c : Char} (hc : c = '{' ∨ c = '}') (X : List Char) :
    refLex .code 0 (c :: X) = (refLex .code 0 X).map (false :: ·) := by
  rcases hc with rfl | rfl
  · have h : isQuote '{' = false := by decide
    simp only [refLex, h]; simp
  · have h : isQuote '}' = false := by decide
    simp only [refLex, h]; simp

theorem refLex_code_nl (X : List Char) :
    refLex .code 0 ('\n' :: X) = (refLex .code 0 X).map (false :: ·) := by
  have h : isQuote '\n' = false := by decide
  simp only [refLex, h]; simp

theorem refLex_comment (post : List Char) :
    refLex .comment 0 post =
      (refLex .code 0 (post.dropWhile (· != '\n'))).map (tt (post.takeWhile (· != '\n')).length ++ ·) := by
  induction post with
  | nil => simp [refLex]
  | cons c cs ih =>
    by_cases hc : c = '\n'
    · subst hc
      have h1 : ¬ (('\n' : Char) != '\n') = true := by decide
      rw [List.dropWhile_cons_of_neg (p := (· != '\n')) h1, List.takeWhile_cons_of_neg (p := (· != '\n')) h1, refLex_code_nl]
      simp [refLex]; rfl
    · have h1 : (c != '\n') = true := by simpa using hc
      rw [List.dropWhile_cons_of_pos (p := (· != '\n')) h1, List.takeWhile_cons_of_pos (p := (· != '\n')) h1]
      simp only [refLex, hc, if_false, ih, Option.map_map, List.length_cons, tt_succ]
      rfl

end CyVerif.C47

import CyVerif.Model.C41
/-! Lemmas for the directive-parsing model (C41). -/
set_option linter.unusedSectionVars false
set_option linter.unusedSimpArgs false
namespace CyVerif.C41

/-! ### splitting -/

theorem splitOn_ne_nil (c : Char) (s : Str) : splitOn c s ≠ [] := by
  induction s with
  | nil => simp [splitOn]
  | cons x xs ih =>
    unfold splitOn
    split
    · simp
    · split <;> simp

/-- `(a + c + b).split(c) == a.split(c) + b.split(c)` when `c` is the separator -/
theorem splitOn_append (c : Char) (a b : Str) :
    splitOn c (a ++ c :: b) = splitOn c a ++ splitOn c b := by
  induction a with
  | nil => simp [splitOn]
  | cons x xs ih =>
    by_cases hx : x = c
    · simp [splitOn, hx, ih]
    · simp only [List.cons_append, splitOn, hx, if_false, ih]
      cases h : splitOn c xs with
      | nil => exact absurd h (splitOn_ne_nil c xs)
      | cons hd tl => simp

/-! ### the Res monad -/

theorem Res.bind_assoc {α β γ} (x : Res α) (f : α → Res β) (g : β → Res γ) :
    Res.bind (Res.bind x f) g = Res.bind x (fun a => Res.bind (f a) g) := by
  cases x <;> rfl

theorem execActs_append (C : Cfg) (relaxed : Bool) (a b : List Act) (st : Settings) :
    execActs C relaxed st (a ++ b) = Res.bind (execActs C relaxed st a) (fun s => execActs C relaxed s b) := by
  induction a generalizing st with
  | nil => rfl
  | cons x xs ih =>
    simp only [List.cons_append, execActs]
    cases execAct C relaxed st x with
    | ok s => simp [Res.bind, ih]
    | err e => rfl

theorem execItems_append (C : Cfg) (relaxed iu : Bool) (a b : List Str) (st : Settings) :
    execItems C relaxed iu st (a ++ b) =
      Res.bind (execItems C relaxed iu st a) (fun s => execItems C relaxed iu s b) := by
  induction a generalizing st with
  | nil => rfl
  | cons x xs ih =>
    simp only [List.cons_append, execItems]
    cases execItem C relaxed iu st x with
    | ok s => simp [Res.bind, ih]
    | err e => rfl

/-! ### settings as a dictionary -/

theorem Settings.get_set (st : Settings) (k : Str) (v : DVal) (n : Str) :
    (st.set k v).get n = if k = n then some v else st.get n := by
  induction st with
  | nil => simp [Settings.set, Settings.get, lkS]
  | cons y r ih =>
    obtain ⟨a, b⟩ := y
    unfold Settings.get at ih ⊢
    by_cases hak : a = k
    · subst hak
      by_cases han : a = n <;> simp [Settings.set, lkS, han]
    · by_cases han : a = n
      · subst han
        have : ¬ k = a := fun e => hak e.symm
        simp [Settings.set, lkS, hak, this]
      · simp [Settings.set, lkS, hak, han, ih]

/-! ### effect of a list of elementary actions on one name -/

def Res.toOption {α} : Res α → Option α
  | .ok a => some a
  | .err _ => none

def appendTo (x : Option DVal) (v : Str) : Option DVal :=
  match x with
  | none => some (.list [v])
  | some (.list l) => some (.list (l ++ [v]))
  | some d => some d

/-- what the actions that NAME `n` do to the entry of `n` (all other actions are irrelevant) -/
def effect (C : Cfg) (relaxed : Bool) (n : Str) : List Act → Option DVal → Option DVal
  | [], x => x
  | .set m v :: r, x => effect C relaxed n r (if m = n then Res.toOption (parseValue C relaxed n v) else x)
  | .app m v :: r, x => effect C relaxed n r (if m = n then appendTo x v else x)

theorem execActs_get (C : Cfg) (relaxed : Bool) (n : Str) (acts : List Act) :
    ∀ (st r : Settings), execActs C relaxed st acts = .ok r → r.get n = effect C relaxed n acts (st.get n) := by
  induction acts with
  | nil => intro st r h; simp only [execActs, Res.ok.injEq] at h; subst h; rfl
  | cons a as ih =>
    intro st r h
    simp only [execActs] at h
    cases ha : execAct C relaxed st a with
    | err e => rw [ha] at h; simp [Res.bind] at h
    | ok st' =>
      rw [ha] at h
      simp only [Res.bind] at h
      rw [ih st' r h]
      cases a with
      | set m v =>
        simp only [execAct] at ha
        cases hp : parseValue C relaxed m v with
        | err e => rw [hp] at ha; simp [Res.bind] at ha
        | ok pv =>
          rw [hp] at ha
          simp only [Res.bind, Res.ok.injEq] at ha
          subst ha
          rw [Settings.get_set]
          by_cases hm : m = n
          · subst hm; simp [effect, hp, Res.toOption]
          · simp [effect, hm]
      | app m v =>
        simp only [execAct] at ha
        by_cases hm : m = n
        · subst hm
          cases hg : st.get m with
          | none =>
            rw [hg] at ha
            simp only [Res.ok.injEq] at ha
            subst ha
            simp [effect, Settings.get_set, appendTo]
          | some d =>
            rw [hg] at ha
            cases d <;> simp only [Res.ok.injEq, reduceCtorEq] at ha
            subst ha
            simp [effect, Settings.get_set, appendTo]
        · have : st'.get n = st.get n := by
            cases hg : st.get m with
            | none =>
              rw [hg] at ha; simp only [Res.ok.injEq] at ha; subst ha
              simp [Settings.get_set, hm]
            | some d =>
              rw [hg] at ha
              cases d <;> simp only [Res.ok.injEq, reduceCtorEq] at ha
              subst ha
              simp [Settings.get_set, hm]
          simp [effect, hm, this]

/-! ### totality of `parse_directive_value` -/

/-- the directive can be parsed from a string in the source variant at hand -/
def goodName (C : Cfg) (n : Str) : Prop :=
  C.fixed = true ∨ ∀ k, lkS n C.T.types = some k → k.unparsable = false

theorem parseValue_err (C : Cfg) (relaxed : Bool) (n v : Str) (e : String) (hg : goodName C n)
    (h : parseValue C relaxed n v = .err e) : e = "ValueError" := by
  unfold parseValue at h
  cases hl : lkS n C.T.types with
  | none => simp [hl] at h
  | some k =>
    rw [hl] at h
    have hk : C.fixed = true ∨ k.unparsable = false := hg.imp id (fun f => f k hl)
    cases k <;> dsimp only at h
    case bool => split at h <;> simp_all
    case int => split at h <;> simp_all
    case str => simp at h
    case enum => split at h <;> simp_all
    case encoding => split at h <;> simp_all
    all_goals (rcases hk with hf | hu)
    all_goals (try (simp [Kind.unparsable] at hu; done))
    all_goals simp_all

theorem parseValue_ok (C : Cfg) (relaxed : Bool) (n v : Str) (d : DVal) (hg : goodName C n)
    (h : parseValue C relaxed n v = .ok d) :
    (∃ k, lkS n C.T.types = some k ∧ d.hasKind k) ∨ (lkS n C.T.types = none ∧ d = .none) := by
  unfold parseValue at h
  cases hl : lkS n C.T.types with
  | none => right; simp_all
  | some k =>
    rw [hl] at h
    left
    have hk : C.fixed = true ∨ k.unparsable = false := hg.imp id (fun f => f k hl)
    cases k <;> dsimp only at h
    case bool => split at h <;> simp at h; subst h; exact ⟨_, rfl, trivial⟩
    case int => split at h <;> simp at h; subst h; exact ⟨_, rfl, trivial⟩
    case str => simp at h; subst h; exact ⟨_, rfl, trivial⟩
    case enum => split at h <;> simp at h; subst h; rename_i hm; exact ⟨_, rfl, hm⟩
    case encoding => split at h <;> simp at h; subst h; exact ⟨_, rfl, trivial⟩
    all_goals (rcases hk with hf | hu)
    all_goals (try (simp [Kind.unparsable] at hu; done))
    all_goals simp_all

theorem parseValue_ok_not_list (C : Cfg) (relaxed : Bool) (n v : Str) (d : DVal)
    (h : parseValue C relaxed n v = .ok d) : isListKind C.T n = false := by
  unfold isListKind
  cases hl : lkS n C.T.types with
  | none => simp
  | some k =>
    cases k <;> simp
    unfold parseValue at h
    rw [hl] at h
    simp at h

/-! ### totality of `parse_directive_list` -/

/-- list-typed names hold lists (true of `{}` and of `dict(get_directive_defaults())`) -/
def ListOK (T : Table) (st : Settings) : Prop :=
  ∀ n, isListKind T n = true → st.get n = none ∨ ∃ l, st.get n = some (.list l)

/-- `.app` only on list-typed names; `.set` only on names parsable in this source variant -/
def GoodAct (C : Cfg) : Act → Prop
  | .set n _ => goodName C n
  | .app n _ => isListKind C.T n = true

theorem execAct_total (C : Cfg) (relaxed : Bool) (st : Settings) (a : Act) (hst : ListOK C.T st)
    (ha : GoodAct C a) :
    match execAct C relaxed st a with
    | .ok st' => ListOK C.T st'
    | .err e => e = "ValueError" := by
  cases a with
  | set n v =>
    simp only [execAct]
    cases hp : parseValue C relaxed n v with
    | err e => simp only [Res.bind]; exact parseValue_err C relaxed n v e ha hp
    | ok pv =>
      simp only [Res.bind]
      intro m hm
      rw [Settings.get_set]
      by_cases h : n = m
      · subst h
        rw [parseValue_ok_not_list C relaxed n v pv hp] at hm
        cases hm
      · simp only [h, if_false]; exact hst m hm
  | app n v =>
    simp only [execAct]
    have hn : isListKind C.T n = true := ha
    rcases hst n hn with h0 | ⟨l, hl⟩
    · rw [h0]
      intro m hm
      rw [Settings.get_set]
      by_cases h : n = m
      · simp [h]
      · simp only [h, if_false]; exact hst m hm
    · rw [hl]
      intro m hm
      rw [Settings.get_set]
      by_cases h : n = m
      · simp [h]
      · simp only [h, if_false]; exact hst m hm

theorem execActs_total (C : Cfg) (relaxed : Bool) (acts : List Act) :
    ∀ (st : Settings), ListOK C.T st → (∀ a ∈ acts, GoodAct C a) →
    match execActs C relaxed st acts with
    | .ok st' => ListOK C.T st'
    | .err e => e = "ValueError" := by
  induction acts with
  | nil => intro st hst _; exact hst
  | cons a as ih =>
    intro st hst hg
    simp only [execActs]
    have h1 := execAct_total C relaxed st a hst (hg a (by simp))
    cases ha : execAct C relaxed st a with
    | err e => rw [ha] at h1; exact h1
    | ok st' =>
      rw [ha] at h1
      exact ih st' h1 (fun b hb => hg b (by simp [hb]))

theorem expandNV_err (C : Cfg) (iu : Bool) (n v : Str) (e : String)
    (h : expandNV C iu n v = .err e) : e = "ValueError" := by
  unfold expandNV at h
  repeat' split at h
  all_goals simp_all

theorem expandItem_err (C : Cfg) (iu : Bool) (item : Str) (e : String)
    (h : expandItem C iu item = .err e) : e = "ValueError" := by
  unfold expandItem at h
  split at h
  · simp at h
  · split at h
    · simp at h; exact h.symm
    · exact expandNV_err C iu _ _ e h

theorem expandItem_cases (C : Cfg) (iu : Bool) (item : Str) (acts : List Act)
    (h : expandItem C iu item = .ok acts) :
    acts = [] ∨ expandNV C iu (strip C.tab (splitEq item).1) (strip C.tab (splitEq item).2) = .ok acts := by
  unfold expandItem at h
  split at h
  · left; simp at h; exact h
  · split at h
    · simp at h
    · right; exact h

/-- every `.app` produced by an item is on a list-typed name -/
theorem expandItem_app (C : Cfg) (iu : Bool) (item : Str) (acts : List Act)
    (h : expandItem C iu item = .ok acts) : ∀ n v, Act.app n v ∈ acts → isListKind C.T n = true := by
  rcases expandItem_cases C iu item acts h with h0 | h1
  · subst h0; simp
  · unfold expandNV at h1
    repeat' split at h1
    all_goals simp at h1
    all_goals subst h1
    all_goals simp_all

/-- every name assigned by an item is a key of `_directive_defaults` -/
theorem expandItem_names (C : Cfg) (iu : Bool) (item : Str) (acts : List Act)
    (h : expandItem C iu item = .ok acts) : ∀ a ∈ acts, a.name ∈ C.T.defaults := by
  rcases expandItem_cases C iu item acts h with h0 | h1
  · subst h0; simp
  · unfold expandNV at h1
    repeat' split at h1
    all_goals simp at h1
    all_goals subst h1
    all_goals simp_all [Act.name]
    intro a ha
    unfold allMatches at ha
    split at ha
    · exact (List.mem_filter.1 ha).1
    · simp at ha

/-- the items of the string only assign directives that can be parsed in this source variant -/
def GoodItems (C : Cfg) (iu : Bool) (items : List Str) : Prop :=
  ∀ raw ∈ items, ∀ acts, expandItem C iu (strip C.tab raw) = .ok acts → ∀ n v, Act.set n v ∈ acts → goodName C n

theorem execItems_total (C : Cfg) (relaxed iu : Bool) (items : List Str) :
    ∀ (st : Settings), ListOK C.T st → GoodItems C iu items →
    match execItems C relaxed iu st items with
    | .ok st' => ListOK C.T st'
    | .err e => e = "ValueError" := by
  induction items with
  | nil => intro st hst _; exact hst
  | cons i is ih =>
    intro st hst hg
    simp only [execItems, execItem]
    cases hx : expandItem C iu (strip C.tab i) with
    | err e => simp only [Res.bind]; exact expandItem_err C iu _ e hx
    | ok acts =>
      simp only [Res.bind]
      have hga : ∀ a ∈ acts, GoodAct C a := by
        intro a ha
        cases a with
        | set n v => exact hg i (by simp) acts hx n v ha
        | app n v => exact expandItem_app C iu _ acts hx n v ha
      have h1 := execActs_total C relaxed acts st hst hga
      cases he : execActs C relaxed st acts with
      | err e => rw [he] at h1; exact h1
      | ok st' =>
        rw [he] at h1
        exact ih st' h1 (fun r hr => hg r (by simp [hr]))

/-! ### the elementary actions of a whole string -/

/-- all actions of all items, in order (none = some item is rejected) -/
def expandAll (C : Cfg) (iu : Bool) : List Str → Res (List Act)
  | [] => .ok []
  | i :: is => Res.bind (expandItem C iu (strip C.tab i)) fun a =>
      Res.bind (expandAll C iu is) fun b => .ok (a ++ b)

theorem execItems_acts (C : Cfg) (relaxed iu : Bool) (items : List Str) :
    ∀ (st r : Settings), execItems C relaxed iu st items = .ok r →
      ∃ acts, expandAll C iu items = .ok acts ∧ execActs C relaxed st acts = .ok r := by
  induction items with
  | nil => intro st r h; exact ⟨[], rfl, h⟩
  | cons i is ih =>
    intro st r h
    simp only [execItems, execItem] at h
    cases hx : expandItem C iu (strip C.tab i) with
    | err e => rw [hx] at h; simp [Res.bind] at h
    | ok a =>
      rw [hx] at h
      simp only [Res.bind] at h
      cases he : execActs C relaxed st a with
      | err e => rw [he] at h; simp at h
      | ok st' =>
        rw [he] at h
        simp only at h
        obtain ⟨b, hb, hr⟩ := ih st' r h
        refine ⟨a ++ b, ?_, ?_⟩
        · simp [expandAll, hx, hb, Res.bind]
        · rw [execActs_append, he]; exact hr

theorem effect_append (C : Cfg) (relaxed : Bool) (n : Str) (a b : List Act) (x : Option DVal) :
    effect C relaxed n (a ++ b) x = effect C relaxed n b (effect C relaxed n a x) := by
  induction a generalizing x with
  | nil => rfl
  | cons y ys ih => cases y <;> simp [effect, ih]

theorem effect_unnamed (C : Cfg) (relaxed : Bool) (n : Str) (a : List Act) (x : Option DVal)
    (h : ∀ y ∈ a, y.name ≠ n) : effect C relaxed n a x = x := by
  induction a generalizing x with
  | nil => rfl
  | cons y ys ih =>
    have hy := h y (by simp)
    have hr : ∀ z ∈ ys, z.name ≠ n := fun z hz => h z (by simp [hz])
    cases y <;> simp_all [effect, Act.name]

theorem effect_map_set (C : Cfg) (relaxed : Bool) (n v : Str) (ms : List Str) (x : Option DVal) :
    effect C relaxed n (ms.map (Act.set · v)) x =
      if n ∈ ms then Res.toOption (parseValue C relaxed n v) else x := by
  induction ms generalizing x with
  | nil => rfl
  | cons m r ih =>
    simp only [List.map_cons, effect, ih]
    by_cases h : m = n
    · subst h; simp
    · have h' : ¬ n = m := fun e => h e.symm
      simp [h, h']

/-! ### `.all` -/

theorem isPrefix_append (p s : Str) : isPrefix p (p ++ s) = true := by
  induction p with
  | nil => rfl
  | cons a r ih => simp [isPrefix, ih]

theorem allMatches_all (T : Table) (pre : Str) :
    allMatches T (pre ++ ".all".toList) = T.defaults.filter (isPrefix (pre ++ ['.'])) := by
  unfold allMatches endsWith
  have h1 : (pre ++ ".all".toList).reverse = ".all".toList.reverse ++ pre.reverse := by simp
  rw [h1, isPrefix_append]
  have h2 : (pre ++ ".all".toList).take ((pre ++ ".all".toList).length - 3) = pre ++ ['.'] := by
    have e : pre ++ ".all".toList = (pre ++ ['.']) ++ ['a', 'l', 'l'] := by simp
    have l : (pre ++ ".all".toList).length - 3 = (pre ++ ['.']).length := by simp
    rw [l, e, List.take_left]
  rw [h2]; simp

theorem allMatches_not_all (T : Table) (name : Str) (h : endsWith name ".all".toList = false) :
    allMatches T name = [] := by
  unfold allMatches; rw [h]; simp

end CyVerif.C41

import CyVerif.Lemmas.C37Own
/-! C37 leg 2: part-A invariant is inductive. -/
namespace CyVerif.C37

theorem fetch_other {n t : Nat} {pc : Nat → PC} {v : PC} (hne : pc t ≠ .fetch)
    (h : ∃ u < n, pc u = .fetch) : ∃ u < n, upd pc t v u = .fetch := by
  obtain ⟨u, hu, hp⟩ := h
  refine ⟨u, hu, ?_⟩
  have : u ≠ t := fun e => hne (e ▸ hp)
  rw [upd_other pc t v u this]; exact hp

theorem raised_cons_other {c : Cfg} {ran : List Nat} {k : Nat} (hkind : c.kinds k ≠ .raise)
    (h : ∃ k' ∈ k :: ran, c.kinds k' = .raise) : ∃ k' ∈ ran, c.kinds k' = .raise := by
  obtain ⟨k', hm, hk'⟩ := h
  rcases List.mem_cons.mp hm with e | hm'
  · exact absurd (e ▸ hk') hkind
  · exact ⟨k', hm', hk'⟩

theorem invA_slotOrFetch {c : Cfg} {total : Nat → Nat} {st st' : St} {t : Nat} (ht : t < c.n)
    (inv : InvA c total st) (h : Step c st t st') :
    (∃ k ∈ st'.ran, c.kinds k = .raise) → st'.slot.isSome = true ∨ ∃ u < c.n, st'.pc u = .fetch := by
  intro hr
  have ih := inv.slotOrFetch
  cases h with
  | skip k rest hpc htodo hw => exact ih hr
  | runCont k rest hpc htodo hk =>
    exact ih (raised_cons_other (by simp [hk]) hr)
  | runBrk k rest hpc htodo hk | runRet k rest hpc htodo hk =>
    rcases ih (raised_cons_other (by simp [hk]) hr) with h1 | h1
    · exact Or.inl h1
    · exact Or.inr (fetch_other (by simp [hpc]) h1)
  | runRaise k rest hpc htodo hk => exact Or.inr ⟨t, ht, upd_same _ _ _⟩
  | finMaster hpc | finWorker hpc | setWhy v hpc | writeRet v hpc =>
    rcases ih hr with h1 | h1
    · exact Or.inl h1
    · exact Or.inr (fetch_other (by simp [hpc]) h1)
  | fetchFull hpc hg hs => exact Or.inl hs
  | fetchTake hpc hs => exact Or.inl (inv.fetchCur t ht hpc)

theorem invA_step {c : Cfg} {total : Nat → Nat} {st st' : St} {t : Nat} {sk : Bool} (hg : c.guarded = true)
    (htot : ∀ x, total x ≤ 1) (inv : InvA c total st) (h : step c st t sk = some st') : InvA c total st' := by
  obtain ⟨ht, hs⟩ := step_sound h
  exact { part := invA_part ht inv hs, own := invA_own ht hg htot inv hs, fetchCur := invA_fetchCur inv hs,
          slotOrFetch := invA_slotOrFetch ht inv hs, finTodo := invA_finTodo inv hs, finCur := invA_finCur inv hs }

theorem sumN_succ_front (n : Nat) (F : Nat → Nat) : sumN (n + 1) F = F 0 + sumN n (fun t => F (t + 1)) := by
  induction n with
  | zero => simp [sumN]
  | succ n ih =>
    rw [sumN, ih]; simp only [sumN]; omega

theorem sumN_getD_count (parts : List (List Nat)) (x : Nat) :
    sumN parts.length (fun t => (parts[t]?.getD []).count x) = parts.flatten.count x := by
  induction parts with
  | nil => rfl
  | cons p ps ih =>
    rw [List.length_cons, sumN_succ_front]
    simp only [List.getElem?_cons_zero, Option.getD_some, List.getElem?_cons_succ, List.flatten_cons, List.count_append]
    rw [ih]

theorem invA_init (guarded preferErr : Bool) (kinds : Nat → Kind) (parts : List (List Nat)) :
    InvA { n := parts.length, kinds := kinds, guarded := guarded, preferErr := preferErr }
      (fun x => parts.flatten.count x) (initSt parts) := by
  refine { part := ?_, own := ?_, fetchCur := ?_, slotOrFetch := ?_, finTodo := ?_, finCur := ?_ }
  · intro x; simp [initSt, pend]; exact sumN_getD_count parts x
  · intro e; simp [initSt, owners, ind, sumN_eq_zero]
  · intro t _ h; simp [initSt] at h
  · intro ⟨k, hk, _⟩; simp [initSt] at hk
  · intro t _ h; simp [initSt] at h
  · intro t _ _ h; simp [initSt] at h

theorem invA_run {c : Cfg} {total : Nat → Nat} (hg : c.guarded = true) (htot : ∀ x, total x ≤ 1)
    (acts : List (Nat × Bool)) {st st' : St} (inv : InvA c total st) (h : runActs c st acts = some st') : InvA c total st' := by
  induction acts generalizing st with
  | nil => simp [runActs] at h; exact h ▸ inv
  | cons a rest ih =>
    obtain ⟨t, sk⟩ := a
    simp only [runActs] at h
    split at h
    next st1 hs => exact ih (invA_step hg htot inv hs) h
    next => cases h

end CyVerif.C37

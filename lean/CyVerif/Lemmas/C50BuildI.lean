import CyVerif.Lemmas.C50BuildH
/-! RE → NFA, part I: adding one token definition to the lexicon machine. -/
namespace CyVerif.C50

/-- `add_token_to_machine` for a rule of the default state -/
def lexCertStep {n : NFA} {Fs : List (Nat × (List CurChar → Prop))} (lc : LexCert n Fs) (re : RE) (a : Nat) (p : Int)
    (c : BuildCert n.newState.1 (re.build n.newState.1 0 n.nodes.length true false) 0 n.nodes.length (re.Sem true false)) :
    LexCert ((re.build n.newState.1 0 n.nodes.length true false).setAction n.nodes.length a p)
      (Fs ++ [(n.nodes.length, re.Sem true false)]) := by
  have hpos := lc.pos
  have hlen' : n.newState.1.nodes.length = n.nodes.length + 1 := by simp [NFA.newState]
  have hg := c.grow
  rw [hlen'] at hg
  have hNlt : n.nodes.length < (re.build n.newState.1 0 n.nodes.length true false).nodes.length := by omega
  have hlenS : ((re.build n.newState.1 0 n.nodes.length true false).setAction n.nodes.length a p).nodes.length
      = (re.build n.newState.1 0 n.nodes.length true false).nodes.length := by
    simp [NFA.setAction, modifyNth_length]
  have hsrc := c.src
  have hsupp := c.labSupp
  simp only [hlen'] at hsrc hsupp
  exact {
    added := fun s l u => lc.added s l u ∨ c.added s l u
    lab := fun s w => lc.lab s w ∨ c.lab s w
    wf := setAction_wf _ c.wf _ _ _
    pos := by rw [hlenS]; omega
    edges := fun s l u => by
      rw [setAction_edge _ _ _ _ hNlt, c.edges, newState_edge, lc.edges]
    srcLt := by
      rw [hlenS]
      rintro s l u (h | h)
      · have := lc.srcLt s l u h; omega
      · rcases hsrc s l u h with e | e <;> omega
    labInit := .inl lc.labInit
    labEdge := by
      rintro s l u w (h | h) (hl | hl)
      · exact .inl (lc.labEdge s l u w h hl)
      · have h1 := lc.srcLt s l u h
        have : s = 0 := by rcases hsupp s w hl with e | e | e <;> omega
        subst this
        have := c.labI w hl
        subst this
        exact .inl (lc.labEdge _ l u [] h lc.labInit)
      · have h1 := lc.labLt s w hl
        have : s = 0 := by rcases hsrc s l u h with e | e <;> omega
        subst this
        have := lc.labI w hl
        subst this
        exact .inr (c.labEdge _ l u [] h c.labInit)
      · exact .inr (c.labEdge s l u w h hl)
    labLt := by
      rw [hlenS]
      rintro s w (h | h)
      · have := lc.labLt s w h; omega
      · rcases hsupp s w h with e | e | e <;> omega
    labI := by
      rintro w (h | h)
      · exact lc.labI w h
      · exact c.labI w h
    finals := by
      rw [hlenS]
      intro q hq
      rcases List.mem_append.1 hq with hq | hq
      · obtain ⟨q1, q2, q3, q4⟩ := lc.finals q hq
        refine ⟨q1, by omega, ?_, fun w hw => (q4 w hw).mono (fun _ _ _ e => .inl e)⟩
        rintro w (h | h)
        · exact q3 w h
        · rcases hsupp q.1 w h with e | e | e <;> omega
      · simp only [List.mem_singleton] at hq
        subst hq
        refine ⟨(by show n.nodes.length ≠ 0; omega), hNlt, ?_, fun w hw => (c.complete w hw).mono (fun _ _ _ e => .inr e)⟩
        rintro w (h | h)
        · have := lc.labLt _ w h; simp at this
        · exact c.labF w h }

theorem lexActsStep {n : NFA} {Fs : List (Nat × (List CurChar → Prop))} (lc : LexCert n Fs) (la : LexActs n Fs)
    (re : RE) (hsmall : (Fs.length : Int) + 1 < maxint)
    (c : BuildCert n.newState.1 (re.build n.newState.1 0 n.nodes.length true false) 0 n.nodes.length (re.Sem true false)) :
    LexActs ((re.build n.newState.1 0 n.nodes.length true false).setAction n.nodes.length (Fs.length + 1 - 1)
        (-((Fs.length + 1 : Nat) : Int)))
      (Fs ++ [(n.nodes.length, re.Sem true false)]) := by
  have hlen' : n.newState.1.nodes.length = n.nodes.length + 1 := by simp [NFA.newState]
  have hg := c.grow
  rw [hlen'] at hg
  have hNlt : n.nodes.length < (re.build n.newState.1 0 n.nodes.length true false).nodes.length := by omega
  have hnode : ∀ s, ((re.build n.newState.1 0 n.nodes.length true false).node s).action = (n.node s).action ∧
      ((re.build n.newState.1 0 n.nodes.length true false).node s).prio = (n.node s).prio := by
    intro s
    rw [(c.acts s).1, (c.acts s).2, newState_node]; exact ⟨rfl, rfl⟩
  have hfresh : (n.node n.nodes.length).action = none ∧ (n.node n.nodes.length).prio = -maxint := by
    unfold NFA.node
    rw [List.getElem?_eq_none (Nat.le_refl _)]
    exact ⟨rfl, rfl⟩
  have hfin_lt : ∀ q ∈ Fs, q.1 < n.nodes.length := fun q hq => (lc.finals q hq).2.1
  refine ⟨?_, ?_, ?_, by show (re.build n.newState.1 0 n.nodes.length true false).inits = _; rw [c.inits]; exact la.inits⟩
  · intro k hk
    rw [setAction_node _ _ _ _ hNlt]
    simp only [List.length_append, List.length_singleton] at hk
    by_cases hkl : k < Fs.length
    · have hget : (Fs ++ [(n.nodes.length, re.Sem true false)])[k] = Fs[k] := List.getElem_append_left hkl
      rw [hget]
      have := hfin_lt Fs[k] (List.getElem_mem hkl)
      rw [if_neg (by omega), (hnode _).1, (hnode _).2]
      exact la.fin k hkl
    · have hk' : k = Fs.length := by omega
      subst hk'
      have hget : (Fs ++ [(n.nodes.length, re.Sem true false)])[Fs.length] = (n.nodes.length, re.Sem true false) := by
        simp
      rw [hget]
      simp only [if_true]
      rw [(hnode _).2, hfresh.2]
      have : -((Fs.length + 1 : Nat) : Int) > -maxint := by omega
      rw [if_pos this]
      simp only [Nat.add_sub_cancel, true_and]
      omega
  · intro s hs
    rw [setAction_node _ _ _ _ hNlt]
    have hsN : s ≠ n.nodes.length := hs (n.nodes.length, re.Sem true false) (by simp)
    rw [if_neg hsN, (hnode s).1, (hnode s).2]
    exact la.other s (fun q hq => hs q (List.mem_append_left _ hq))
  · intro j k hj hk he
    simp only [List.length_append, List.length_singleton] at hj hk
    by_cases hjl : j < Fs.length <;> by_cases hkl : k < Fs.length
    · rw [List.getElem_append_left hjl, List.getElem_append_left hkl] at he
      exact la.inj j k hjl hkl he
    · have : k = Fs.length := by omega
      subst this
      rw [List.getElem_append_left hjl] at he
      have := hfin_lt Fs[j] (List.getElem_mem hjl)
      simp at he; omega
    · have : j = Fs.length := by omega
      subst this
      rw [List.getElem_append_left hkl] at he
      have := hfin_lt Fs[k] (List.getElem_mem hkl)
      simp at he; omega
    · omega

end CyVerif.C50

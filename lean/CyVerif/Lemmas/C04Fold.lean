import CyVerif.Lemmas.C04Emit
/-!
Fold evaluators (`overflowcheck.fold`) and `DivInt`.
-/
namespace CyVerif.C04

theorem evalFold_spec {C : Cfg} (hP : C.P.WF) {base sg : Bool} {w : Nat} (hbw : BaseWidth C.P w)
    (e : Expr) (hl : e.leavesIn sg w = true) :
    ∃ v f, evalFold C base sg w e = .ok (v, f) ∧ InR sg w v ∧
      (f = false → e.AllFit sg w ∧ v = e.denote) ∧ (¬ e.AllFit sg w → f = true) := by
  induction e with
  | leaf v =>
    have hv : InR sg w v := by simpa [Expr.leavesIn] using hl
    exact ⟨v, false, rfl, hv, fun _ => ⟨hv, rfl⟩, fun h => absurd hv h⟩
  | bin op const l r ihl ihr =>
    simp only [Expr.leavesIn, Bool.and_eq_true] at hl
    obtain ⟨vl, fl, h1, hvl, hl1, _⟩ := ihl hl.1
    obtain ⟨vr, fr, h2, hvr, hr1, _⟩ := ihr hl.2
    obtain ⟨v, fh, h3, hv, hh1, _⟩ := callHelper_spec hP (base := base) hbw op const hvl hvr
    have key : (fl || fr || fh) = false → (Expr.bin op const l r).AllFit sg w ∧ v = (Expr.bin op const l r).denote := by
      intro hf
      simp only [Bool.or_eq_false_iff] at hf
      obtain ⟨⟨hfl, hfr⟩, hfh⟩ := hf
      obtain ⟨al, el⟩ := hl1 hfl
      obtain ⟨ar, er⟩ := hr1 hfr
      obtain ⟨hd, ev⟩ := hh1 hfh
      subst el er
      refine ⟨⟨al, ar, hd, ?_⟩, ev⟩
      rw [← ev]; exact hv
    refine ⟨v, fl || fr || fh, ?_, hv, key, ?_⟩
    · simp only [evalFold, h1, h2, h3, bind, Except.bind, pure, Except.pure]
    · intro hna
      cases hf : (fl || fr || fh)
      · exact absurd (key hf).1 hna
      · rfl

/-- without fold every node raises on its own flag; the observable outcome is the same -/
theorem noFold_of_evalFold (C : Cfg) (base sg : Bool) (w : Nat) (e : Expr) :
    ∀ v f, evalFold C base sg w e = .ok (v, f) →
      emitNoFold C base sg w e = if f then .raise "OverflowError" else .val v := by
  induction e with
  | leaf x =>
    intro v f h
    simp only [evalFold, pure, Except.pure, Except.ok.injEq, Prod.mk.injEq] at h
    obtain ⟨h1, h2⟩ := h
    subst h1 h2
    rfl
  | bin op const l r ihl ihr =>
    intro v f h
    simp only [evalFold, bind, Except.bind] at h
    cases hl : evalFold C base sg w l with
    | error k => rw [hl] at h; simp at h
    | ok pl =>
      obtain ⟨vl, fl⟩ := pl
      rw [hl] at h
      simp only at h
      cases hr : evalFold C base sg w r with
      | error k => rw [hr] at h; simp at h
      | ok pr =>
        obtain ⟨vr, fr⟩ := pr
        rw [hr] at h
        simp only at h
        cases hh : callHelper C base sg w op const vl vr with
        | error k => rw [hh] at h; simp at h
        | ok ph =>
          obtain ⟨vh, fh⟩ := ph
          rw [hh] at h
          simp only [pure, Except.pure, Except.ok.injEq, Prod.mk.injEq] at h
          obtain ⟨h1, h2⟩ := h
          subst h1 h2
          have il := ihl vl fl hl
          have ir := ihr vr fr hr
          simp only [emitNoFold, il]
          cases fl
          · simp only [Bool.false_eq_true, if_false, ir]
            cases fr
            · simp only [Bool.false_eq_true, if_false, emitBinop, hh, Bool.false_or]
            · simp
          · simp

/-! ### `DivInt` (CMath.c) -/

theorem divInt_eq {w : Nat} (hw : 1 ≤ w) {a b : Int} (ha : InR true w a) (hb : InR true w b)
    (hb0 : b ≠ 0) (hmin : ¬ (a = tmin true w ∧ b = -1)) :
    divInt w a b = .ok (a.fdiv b) ∧ InR true w (a.fdiv b) := by
  have hp := two_pow_pos' (w - 1)
  have hq : cdiv true w a b = .ok (a.tdiv b) := by
    unfold cdiv; rw [if_neg hb0, if_neg (by simpa using hmin)]
  obtain ⟨s1, s2, s3, s4⟩ := tdiv_tmod_spec a hb0
  have hqr := tdiv_inR hw ha hb0 hmin
  have hnq := Int.natAbs_tdiv a b
  have hnq' : (a.natAbs).div (b.natAbs) = a.natAbs / b.natAbs := rfl
  rw [hnq'] at hnq
  have hmulabs : (a.tdiv b * b).natAbs ≤ a.natAbs := by
    rw [Int.natAbs_mul, hnq]; exact Nat.div_mul_le_self _ _
  have hmin' : tmin true w = -(2 : Int) ^ (w - 1) := by simp [tmin]
  rw [hmin'] at hmin
  rw [inR_signed] at ha hb hqr
  have hqb : a.tdiv b * b = a - a.tmod b := by rw [Int.mul_comm]; omega
  have hmul : smul w (a.tdiv b) b = .ok (a.tdiv b * b) := by
    unfold smul; rw [if_pos]; rw [inR_signed]; omega
  have hsub : ssub w a (a.tdiv b * b) = .ok (a.tmod b) := by
    unfold ssub
    have : a - a.tdiv b * b = a.tmod b := by omega
    rw [this, if_pos]; rw [inR_signed]; omega
  unfold divInt
  simp only [hq, hmul, hsub, bind, Except.bind]
  by_cases had : a.tmod b ≠ 0 ∧ ((a.tmod b < 0) ≠ (b < 0))
  · rw [if_pos had]
    -- the quotient is not MIN when an adjustment is needed
    have hlt : -(2 : Int) ^ (w - 1) < a.tdiv b := by
      by_cases h1 : b.natAbs = 1
      · omega
      · by_cases ha0 : a = 0
        · subst ha0; simp at had
        · have : a.natAbs / b.natAbs < a.natAbs := Nat.div_lt_self (by omega) (by omega)
          omega
    have hfd : a.fdiv b = a.tdiv b - 1 := by
      refine (fdiv_fmod_unique_ne (r := a.tmod b + b) hb0 ?_ ?_ ?_).1
      · rw [Int.mul_sub, Int.mul_one]; omega
      · intro hbp; simp only [ne_eq, eq_iff_iff] at had; omega
      · intro hbn; simp only [ne_eq, eq_iff_iff] at had; omega
    have hin : InR true w (a.tdiv b - 1) := by rw [inR_signed]; omega
    unfold ssub
    rw [if_pos hin, hfd]
    exact ⟨rfl, hin⟩
  · rw [if_neg had]
    have hfd : a.fdiv b = a.tdiv b := by
      refine (fdiv_fmod_unique_ne (r := a.tmod b) hb0 s1 ?_ ?_).1
      · intro hbp
        simp only [ne_eq, eq_iff_iff, not_and, Decidable.not_not] at had
        by_cases hr0 : a.tmod b = 0
        · omega
        · have := had hr0; omega
      · intro hbn
        simp only [ne_eq, eq_iff_iff, not_and, Decidable.not_not] at had
        by_cases hr0 : a.tmod b = 0
        · omega
        · have := had hr0; omega
    have hin : InR true w (a.tdiv b - 0) := by rw [inR_signed]; omega
    unfold ssub
    rw [if_pos hin, hfd, Int.sub_zero]
    rw [Int.sub_zero] at hin
    exact ⟨rfl, hin⟩

end CyVerif.C04

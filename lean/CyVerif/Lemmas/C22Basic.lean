import CyVerif.Model.C22Cy
/-! C22 helper definitions and lemmas for the refinement proof. -/
namespace CyVerif.C22

/-- where a statement sits relative to the innermost enclosing `exc_vars` owner (except clause / finally copy):
`top` = no owner, `free` = directly in it, `guarded` = inside a try / with body nested in it -/
inductive Mode where
  | top | free | guarded
  deriving DecidableEq, Repr

def Mode.enterTry : Mode → Mode
  | .top => .top
  | _ => .guarded

mutual
/-- syntactic restriction needed when `clr` (the pinned `reraiseClears` variant): no bare `raise` inside the body of a
try / with statement that is itself inside an except clause or a finally clause.  `NG false` holds for every program. -/
def NG (clr : Bool) : Mode → Stmt → Bool
  | m, .reraise _ => !clr || m != .guarded
  | m, .seq a b => NG clr m a && NG clr m b
  | m, .tryEx b hs e => NG clr m.enterTry b && NGH clr hs && NG clr m e
  | m, .tryFin b f => NG clr m.enterTry b && NG clr m f && NG clr .free f
  | m, .withS _ _ b => NG clr m.enterTry b
  | m, .loop _ b => NG clr m b
  | _, _ => true
def NGH (clr : Bool) : Handlers → Bool
  | .nil => true
  | .cons _ _ b rest => NG clr .free b && NGH clr rest
end

mutual
theorem NG_false : ∀ (s : Stmt) (m : Mode), NG false m s = true
  | .reraise _, _ => by simp [NG]
  | .seq a b, m => by simp [NG, NG_false a m, NG_false b m]
  | .tryEx b hs e, m => by simp [NG, NG_false b _, NGH_false hs, NG_false e m]
  | .tryFin b f, m => by simp [NG, NG_false b _, NG_false f _]
  | .withS _ _ b, m => by simp [NG, NG_false b _]
  | .loop _ b, m => by simp [NG, NG_false b m]
  | .skip, _ => by simp [NG]
  | .log _, _ => by simp [NG]
  | .probe, _ => by simp [NG]
  | .raiseI _ _ _, _ => by simp [NG]
  | .raiseNew _ _, _ => by simp [NG]
  | .ret _, _ => by simp [NG]
  | .brk _, _ => by simp [NG]
  | .cont _, _ => by simp [NG]
  | .delN, _ => by simp [NG]
theorem NGH_false : ∀ (hs : Handlers), NGH false hs = true
  | .nil => by simp [NGH]
  | .cons _ _ b rest => by simp [NGH, NG_false b _, NGH_false rest]
end

def liftOut : Out → COut
  | .norm => .norm | .exc _ => .err | .ret => .ret | .brk => .brk | .cont => .cont

def excOf : Out → Option Nat
  | .exc e => some e
  | _ => none

def Out.isExc : Out → Bool
  | .exc _ => true
  | _ => false

@[simp] theorem topmostL_some (e : Nat) (l : List (Option Nat)) : topmostL (some e :: l) = some e := rfl
@[simp] theorem topmostL_none (l : List (Option Nat)) : topmostL (none :: l) = topmostL l := rfl

theorem ts_eta (ts : TS) : { ts with cur := ts.cur } = ts := by cases ts; rfl

/-- bodies of "quiet" handlers only return or fall through -/
theorem simple_out (env : Env) : ∀ (s : Stmt) (ts : TS), simpleBody s = true →
    (pyExec env s ts = (.norm, ts) ∨ pyExec env s ts = (.ret, ts))
  | .skip, ts, _ => by simp [pyExec]
  | .ret none, ts, _ => by simp [pyExec, Env.fires]
  | .seq a b, ts, h => by
    simp only [simpleBody, Bool.and_eq_true] at h
    rcases simple_out env a ts h.1 with ha | ha
    · simp only [pyExec, ha]; exact simple_out env b ts h.2
    · simp [pyExec, ha]
  | .ret (some _), _, h => by simp [simpleBody] at h
  | .log _, _, h => by simp [simpleBody] at h
  | .probe, _, h => by simp [simpleBody] at h
  | .raiseI _ _ _, _, h => by simp [simpleBody] at h
  | .raiseNew _ _, _, h => by simp [simpleBody] at h
  | .reraise _, _, h => by simp [simpleBody] at h
  | .brk _, _, h => by simp [simpleBody] at h
  | .cont _, _, h => by simp [simpleBody] at h
  | .tryEx _ _ _, _, h => by simp [simpleBody] at h
  | .tryFin _ _, _, h => by simp [simpleBody] at h
  | .withS _ _ _, _, h => by simp [simpleBody] at h
  | .loop _ _, _, h => by simp [simpleBody] at h
  | .delN, _, h => by simp [simpleBody] at h

theorem simple_cy (V : Variant) (env : Env) : ∀ (s : Stmt) (cs : CS), simpleBody s = true → cs.retCrashes = false →
    (cyExec V env s cs = (.norm, cs) ∨ cyExec V env s cs = (.ret, cs))
  | .skip, cs, _, _ => by simp [cyExec]
  | .ret none, cs, _, hc => by simp [cyExec, Env.fires, hc]
  | .seq a b, cs, h, hc => by
    simp only [simpleBody, Bool.and_eq_true] at h
    rcases simple_cy V env a cs h.1 hc with ha | ha
    · simp only [cyExec, ha]; exact simple_cy V env b cs h.2 hc
    · simp [cyExec, ha]
  | .ret (some _), _, h, _ => by simp [simpleBody] at h
  | .log _, _, h, _ => by simp [simpleBody] at h
  | .probe, _, h, _ => by simp [simpleBody] at h
  | .raiseI _ _ _, _, h, _ => by simp [simpleBody] at h
  | .raiseNew _ _, _, h, _ => by simp [simpleBody] at h
  | .reraise _, _, h, _ => by simp [simpleBody] at h
  | .brk _, _, h, _ => by simp [simpleBody] at h
  | .cont _, _, h, _ => by simp [simpleBody] at h
  | .tryEx _ _ _, _, h, _ => by simp [simpleBody] at h
  | .tryFin _ _, _, h, _ => by simp [simpleBody] at h
  | .withS _ _ _, _, h, _ => by simp [simpleBody] at h
  | .loop _ _, _, h, _ => by simp [simpleBody] at h
  | .delN, _, h, _ => by simp [simpleBody] at h

end CyVerif.C22

namespace CyVerif.C22

theorem quiet_noExc (env : Env) : ∀ (hs : Handlers) (e : Nat) (ts : TS), quietH hs = true →
    (pyDispatch env hs e ts).1.isExc = false
  | .nil, _, _, h => by simp [quietH] at h
  | .cons none false b .nil, e, ts, h => by
    simp only [quietH] at h
    simp only [pyDispatch, matchesPat, if_true]
    rcases simple_out env b ts h with hb | hb <;> simp [hb, Out.isExc]
  | .cons (some c) false b rest, e, ts, h => by
    simp only [quietH, Bool.and_eq_true] at h
    simp only [pyDispatch]
    split
    · rcases simple_out env b ts h.1 with hb | hb <;> simp [hb, Out.isExc]
    · exact quiet_noExc env rest e ts h.2
  | .cons none true _ _, _, _, h => by simp [quietH] at h
  | .cons (some _) true _ _, _, _, h => by simp [quietH] at h
  | .cons none false _ (.cons _ _ _ _), _, _, h => by simp [quietH] at h

theorem isExc_fin (o o2 : Out) (h1 : o.isExc = false) (h2 : o2.isExc = false) :
    (match o2 with | .norm => o | o' => o').isExc = false := by
  cases o2 <;> simp_all [Out.isExc]

theorem noExc (env : Env) : ∀ (s : Stmt) (ts : TS), usesErr s = false → (pyExec env s ts).1.isExc = false
  | .skip, ts, _ => by simp [pyExec, Out.isExc]
  | .ret none, ts, _ => by simp [pyExec, Env.fires, Out.isExc]
  | .brk none, ts, _ => by simp [pyExec, Env.fires, Out.isExc]
  | .cont none, ts, _ => by simp [pyExec, Env.fires, Out.isExc]
  | .delN, ts, _ => by simp [pyExec, Out.isExc]
  | .seq a b, ts, h => by
    simp only [usesErr, Bool.or_eq_false_iff] at h
    have ia := noExc env a ts h.1
    simp only [pyExec]
    generalize pyExec env a ts = r at ia ⊢
    obtain ⟨o, t⟩ := r
    cases o <;> simp_all [Out.isExc]
    exact noExc env b t h.2
  | .tryEx b hs e, ts, h => by
    simp only [usesErr, Bool.or_eq_false_iff, Bool.and_eq_false_iff, Bool.not_eq_false'] at h
    simp only [pyExec]
    have ib := fun hb => noExc env b ts hb
    generalize pyExec env b ts = r at ib ⊢
    obtain ⟨o, t⟩ := r
    cases o with
    | norm => exact noExc env e t h.1
    | exc x =>
      rcases h.2 with hb | hq
      · have := ib hb; simp [Out.isExc] at this
      · exact quiet_noExc env hs x _ hq
    | ret => simp [Out.isExc]
    | brk => simp [Out.isExc]
    | cont => simp [Out.isExc]
  | .tryFin b f, ts, h => by
    simp only [usesErr, Bool.or_eq_false_iff] at h
    have ib := noExc env b ts h.1
    simp only [pyExec]
    generalize pyExec env b ts = r at ib ⊢
    obtain ⟨o, t⟩ := r
    have jf := noExc env f t h.2
    cases o with
    | norm => exact jf
    | exc x => simp [Out.isExc] at ib
    | ret => exact isExc_fin .ret _ rfl jf
    | brk => exact isExc_fin .brk _ rfl jf
    | cont => exact isExc_fin .cont _ rfl jf
  | .ret (some _), _, h => by simp [usesErr] at h
  | .brk (some _), _, h => by simp [usesErr] at h
  | .cont (some _), _, h => by simp [usesErr] at h
  | .log _, _, h => by simp [usesErr] at h
  | .probe, _, h => by simp [usesErr] at h
  | .raiseI _ _ _, _, h => by simp [usesErr] at h
  | .raiseNew _ _, _, h => by simp [usesErr] at h
  | .reraise _, _, h => by simp [usesErr] at h
  | .withS _ _ _, _, h => by simp [usesErr] at h
  | .loop _ _, _, h => by simp [usesErr] at h

end CyVerif.C22

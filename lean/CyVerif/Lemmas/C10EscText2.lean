import CyVerif.Lemmas.C10EscText
/-! Case analysis of one backslash escape in a text literal. -/
namespace CyVerif.C10

theorem cyStep_bs (P : LexP) (lk : Lookup) (k : Kind) (d : Nat) (t : List Nat) :
    cyStep P lk k false (92 :: d :: t) =
      (appendEsc P lk k (92 :: (d :: t).take (escLen P (d :: t))), (d :: t).drop (escLen P (d :: t))) := by
  simp [cyStep]

/-- CPython's decoder on a backslash followed by `d` -/
theorem refStep_bs (lk : Lookup) (fstr : Bool) (d : Nat) (t : List Nat) :
    refStep lk fstr (92 :: d :: t) =
      if d = 10 then (.ok [], t)
      else match refSimple d with
        | some v => (.ok [v], t)
        | none =>
          if isOct d then (.ok [(refOct d t).1], (refOct d t).2)
          else if d = 120 then refHexEsc 2 t
          else if d = 117 then refHexEsc 4 t
          else if d = 85 then refHexEsc 8 t
          else if d = 78 then
            match t with
            | 123 :: t2 =>
              match t2.dropWhile (· ≠ 125) with
              | 125 :: r =>
                if t2.takeWhile (· ≠ 125) = [] then (.err "SyntaxError", r)
                else match lk (t2.takeWhile (· ≠ 125)) with
                  | .code n => (.ok [n], r)
                  | _ => (.err "SyntaxError", r)
              | _ => (.err "SyntaxError", t)
            | _ => (.err "SyntaxError", t)
          else (.ok [92], d :: t) := by
  simp only [refStep, if_neg (show ¬ ((92 : Nat) ≠ 92) by decide)]
  rfl

theorem refSimple_none (d : Nat) (h : d ≠ 92 ∧ d ≠ 39 ∧ d ≠ 34 ∧ d ≠ 98 ∧ d ≠ 102 ∧ d ≠ 116 ∧ d ≠ 110 ∧ d ≠ 114 ∧
    d ≠ 118 ∧ d ≠ 97) : refSimple d = none := by
  obtain ⟨h1, h2, h3, h4, h5, h6, h7, h8, h9, h10⟩ := h
  simp [refSimple, h1, h2, h3, h4, h5, h6, h7, h8, h9, h10]

/-- A: octal escapes -/
theorem text_oct (P : LexP) (lk : Lookup) (k : Kind) (hk : k.isText = true) (fstr : Bool) (d : Nat)
    (t : List Nat) (hd : isOct d = true) (ch1 : Chunk)
    (hs : appendEsc P lk k (92 :: (d :: t).take (escLen P (d :: t))) = .ok ch1) :
    refStep lk fstr (92 :: d :: t) = (.ok ch1.us, (d :: t).drop (escLen P (d :: t))) := by
  obtain ⟨hp, hdrop, h1⟩ := oct_agree P d t hd
  obtain ⟨m, hm⟩ : ∃ m, escLen P (d :: t) = m + 1 := ⟨escLen P (d :: t) - 1, by omega⟩
  rw [hm] at hs hp
  rw [List.take_succ_cons] at hs hp
  rw [appendEsc_two] at hs
  simp only [hd, if_true, hp] at hs
  have hus := (chVal_ok P k _ ch1 hs).1
  rw [hasText_of_isText k hk] at hus
  have hb := (isOct_iff d).1 hd
  rw [refStep_bs, if_neg (by omega), refSimple_none d (by omega)]
  simp only [hd, if_true, hdrop, hus]

theorem hexPrefix_take_length (n : Nat) (t : List Nat) (h : hexPrefix n t = true) : (t.take n).length = n := by
  simp only [hexPrefix, Bool.and_eq_true, decide_eq_true_eq] at h
  rw [List.length_take]; omega

/-- C, D: `\uXXXX` and `\UXXXXXXXX` (`d` is `u` with 4 digits or `U` with 8) -/
theorem text_hex_uU (P : LexP) (lk : Lookup) (k : Kind) (hk : k.isText = true) (fstr : Bool) (d n : Nat)
    (hdn : (d = 117 ∧ n = 3) ∨ (d = 85 ∧ n = 7)) (t : List Nat) (ch1 : Chunk)
    (hs : appendEsc P lk k (92 :: (d :: t).take (escLen P (d :: t))) = .ok ch1) (hg : ch1.nonfatal = false) :
    refStep lk fstr (92 :: d :: t) = (.ok ch1.us, (d :: t).drop (escLen P (d :: t))) := by
  have hlen : escLen P (d :: t) = if hexPrefix (n + 1) t = true then n + 2 else 1 := by
    rcases hdn with ⟨rfl, rfl⟩ | ⟨rfl, rfl⟩ <;> simp [escLen, isOct]
  have href : refStep lk fstr (92 :: d :: t) = refHexEsc (n + 1) t := by
    rw [refStep_bs]
    rcases hdn with ⟨rfl, rfl⟩ | ⟨rfl, rfl⟩ <;> simp [refSimple, isOct]
  have hcy : ∀ tl, appendEsc P lk k (92 :: d :: tl) =
      if tl.length = 4 ∨ tl.length = 8 then
        (match parseInt 16 isHex tl with
         | some v => if v > 1114111 then .err "CompileError" else chUesc k v (92 :: d :: tl)
         | none => .err "ValueError")
      else chErr := by
    intro tl
    rw [appendEsc_two]
    rcases hdn with ⟨rfl, rfl⟩ | ⟨rfl, rfl⟩ <;> simp [isOct, hk] <;> rfl
  rw [hlen] at hs ⊢
  by_cases hp : hexPrefix (n + 1) t = true
  · obtain ⟨v, hv, hr⟩ := (hex_agree n t).1 hp
    have hl := hexPrefix_take_length (n + 1) t hp
    simp only [hp, if_true, List.take_succ_cons, List.drop_succ_cons] at hs ⊢
    rw [hcy, hv] at hs
    have hl' : (t.take (n + 1)).length = 4 ∨ (t.take (n + 1)).length = 8 := by
      rw [hl]; rcases hdn with ⟨_, rfl⟩ | ⟨_, rfl⟩ <;> simp
    simp only [hl', if_true] at hs
    by_cases hbig : v > 1114111
    · simp [hbig] at hs
    · simp only [hbig, if_false] at hs
      have hus := (chUesc_ok k v _ ch1 hs).1
      rw [href, refHexEsc, hr]
      simp only [hbig, if_false, hus]
  · simp only [hp] at hs
    have hp' : hexPrefix (n + 1) t = false := by simpa using hp
    simp only [Bool.false_eq_true, if_false, List.take_succ_cons, List.take_zero] at hs
    rw [hcy] at hs
    simp only [List.length_nil] at hs
    have := chErr_nonfatal ch1 (by simpa using hs)
    rw [this] at hg; cases hg

end CyVerif.C10

import CyVerif.Lemmas.C24Dict
/-! C24 helper lemmas, part 4: the generated wrapper against `initialize_locals`. -/
namespace CyVerif.C24

/-- well-formed signature: what the Python grammar / the compiler guarantee -/
structure Sig.WF (s : Sig) : Prop where
  npo_le : s.npo ≤ s.pos.length
  nodup : s.declNames.Nodup
  /-- "non-default argument follows default argument" is a syntax error: defaults form a suffix -/
  dflt_suffix : ∀ i (h : i < s.pos.length), isReq s.pos[i] = decide (i < (s.pos.filter isReq).length)

def Sig.kwA (s : Sig) : List Param := s.kwo.filter isReq ++ s.kwo.filter (fun p => !isReq p)
def Sig.allNames (s : Sig) : List Nat := s.allArgs.map (·.name)

theorem Sig.allArgs_eq (s : Sig) : s.allArgs = s.pos ++ s.kwA := rfl

theorem Sig.kwA_perm (s : Sig) : s.kwA.Perm s.kwo := List.filter_append_perm isReq s.kwo

theorem Sig.kwA_length (s : Sig) : s.kwA.length = s.kwo.length := s.kwA_perm.length_eq

theorem Sig.allArgs_length (s : Sig) : s.allArgs.length = s.pos.length + s.kwo.length := by
  rw [s.allArgs_eq, List.length_append, s.kwA_length]

theorem Sig.decl_length (s : Sig) : s.decl.length = s.pos.length + s.kwo.length := by
  unfold Sig.decl; rw [List.length_append]

theorem Sig.allNames_perm (s : Sig) : s.allNames.Perm s.declNames := by
  unfold Sig.allNames Sig.declNames Sig.decl
  rw [s.allArgs_eq, List.map_append, List.map_append]
  exact List.Perm.append_left _ (s.kwA_perm.map _)

theorem Sig.WF.allNames_nodup {s : Sig} (h : s.WF) : s.allNames.Nodup :=
  (s.allNames_perm.nodup_iff).2 h.nodup

theorem Sig.allNames_length (s : Sig) : s.allNames.length = s.pos.length + s.kwo.length := by
  unfold Sig.allNames; rw [List.length_map, s.allArgs_length]

theorem Sig.declNames_length (s : Sig) : s.declNames.length = s.pos.length + s.kwo.length := by
  unfold Sig.declNames; rw [List.length_map, s.decl_length]

theorem Sig.allArgs_pos (s : Sig) {j : Nat} (hj : j < s.pos.length) : s.allArgs[j]? = s.pos[j]? := by
  rw [s.allArgs_eq, List.getElem?_append_left hj]

theorem Sig.decl_pos (s : Sig) {j : Nat} (hj : j < s.pos.length) : s.decl[j]? = s.pos[j]? := by
  unfold Sig.decl; rw [List.getElem?_append_left hj]

theorem Sig.allArgs_kw (s : Sig) {j : Nat} (hj : s.pos.length ≤ j) : s.allArgs[j]? = s.kwA[j - s.pos.length]? := by
  rw [s.allArgs_eq, List.getElem?_append_right hj]

theorem Sig.decl_kw (s : Sig) {j : Nat} (hj : s.pos.length ≤ j) : s.decl[j]? = s.kwo[j - s.pos.length]? := by
  unfold Sig.decl; rw [List.getElem?_append_right hj]

/-- the number of required positional-only parameters -/
theorem filter_prefix_length {α : Type} (f : α → Bool) : ∀ (l : List α) (m : Nat),
    (∀ i (h : i < l.length), f l[i] = decide (i < m)) → (l.filter f).length = min m l.length
  | [], m, _ => by simp
  | a :: l, 0, h => by
    have : (a :: l).filter f = [] := by
      rw [List.filter_eq_nil_iff]
      intro x hx
      obtain ⟨i, hi, rfl⟩ := List.mem_iff_getElem.1 hx
      rw [h i hi]; simp
    rw [this]; simp
  | a :: l, m + 1, h => by
    have ha : f a = true := by have := h 0 (by simp); simpa using this
    have ih := filter_prefix_length f l m (fun i hi => by
      have := h (i + 1) (by simp; omega)
      simpa using this)
    rw [List.filter_cons, if_pos ha, List.length_cons, ih, List.length_cons]
    omega

theorem Sig.WF.nrpo {s : Sig} (h : s.WF) :
    ((s.pos.take s.npo).filter isReq).length = min (s.pos.filter isReq).length s.npo := by
  rw [filter_prefix_length isReq (s.pos.take s.npo) (s.pos.filter isReq).length]
  · rw [List.length_take]; have := h.npo_le; omega
  · intro i hi
    rw [List.length_take] at hi
    rw [List.getElem_take]
    exact h.dflt_suffix i (by omega)

theorem Sig.WF.minpos_le {s : Sig} (_h : s.WF) : (s.pos.filter isReq).length ≤ s.pos.length :=
  List.length_filter_le _ _

theorem Sig.WF.pos_dflt {s : Sig} (h : s.WF) {j : Nat} {p : Param} (hp : s.pos[j]? = some p) :
    p.dflt.isSome = decide ((s.pos.filter isReq).length ≤ j) := by
  rw [List.getElem?_eq_some_iff] at hp
  obtain ⟨hj, rfl⟩ := hp
  have := h.dflt_suffix j hj
  have e : isReq s.pos[j] = s.pos[j].dflt.isNone := rfl
  rw [e] at this
  cases hd : s.pos[j].dflt <;> simp [hd] at this ⊢ <;> omega

/-! ### CPython side in closed form -/

theorem pyLoc_distinct {s : Sig} (hn : s.declNames.Nodup) (init : Slots) {kws : List (Key × Val)}
    (hk : KeysDistinct kws) : SlotsDistinct (pyLoc s init) kws := by
  refine List.Pairwise.imp ?_ hk.pairwise
  intro a b hab j ha hb
  obtain ⟨_, hla, _⟩ := (pyLoc_slot_iff s init a.1 j).1 ha
  obtain ⟨_, hlb, _⟩ := (pyLoc_slot_iff s init b.1 j).1 hb
  have h1 := ((locate_eq_some hn).1 hla).2
  have h2 := ((locate_eq_some hn).1 hlb).2
  rw [h1] at h2
  injection h2 with h2
  exact hab h2

/-- slots filled from the positional arguments -/
def argSlots (s : Sig) (c : Call) : Slots := Slots.ofArgs c.args (min c.args.length s.pos.length)

theorem pyBind_closed {s : Sig} (h : s.WF) {c : Call} (hk : KeysDistinct c.kws) :
    pyBind s c =
      if c.kws.any (fun kv => pyLoc s (argSlots s c) kv.1 == .bad) then tyErr
      else if c.args.length > s.pos.length && !s.star then tyErr
      else if !allSet (withDefaults s.decl (genSlots (pyLoc s (argSlots s c)) c.kws (argSlots s c))) s.total then tyErr
      else .ok { vals := readSlots s.decl (withDefaults s.decl (genSlots (pyLoc s (argSlots s c)) c.kws (argSlots s c))),
                 star := if s.star then some (c.args.drop (min c.args.length s.pos.length)) else none,
                 kw := if s.sstar then some (c.kws.filter (fun kv => pyLoc s (argSlots s c) kv.1 == .extra)) else none } := by
  unfold pyBind
  simp only
  change (match foldRes (pyKwStep s) ⟨argSlots s c, []⟩ c.kws with
    | Res.err e => Res.err e
    | Res.ok st => _) = _
  rw [pyLoop_gen h.nodup (argSlots s c) c.kws ⟨argSlots s c, []⟩ hk (fun _ _ _ _ => rfl),
    genLoop_closed _ _ _ (pyLoc_distinct h.nodup _ hk)]
  unfold genClosed
  by_cases hb : c.kws.any (fun kv => pyLoc s (argSlots s c) kv.1 == .bad) = true
  · simp only [hb, if_true]; rfl
  · simp only [hb, Bool.false_eq_true, if_false, List.nil_append]

/-! ### both slot arrays against one description -/

/-- value of the slot of parameter `nm` at index `j` before default filling -/
def specSlot (s : Sig) (c : Call) (j nm : Nat) : Option Val :=
  if j < min c.args.length s.pos.length then c.args[j]?
  else if s.npo ≤ j then dictGet c.kws nm else none

theorem argSlots_lt {s : Sig} {c : Call} {j : Nat} (hj : j < min c.args.length s.pos.length) :
    argSlots s c j = c.args[j]? ∧ (argSlots s c j).isSome = true := by
  unfold argSlots Slots.ofArgs
  rw [if_pos hj]
  have : j < c.args.length := by omega
  exact ⟨rfl, by rw [List.getElem?_eq_getElem this]; rfl⟩

theorem argSlots_ge {s : Sig} {c : Call} {j : Nat} (hj : ¬ j < min c.args.length s.pos.length) :
    argSlots s c j = none := by
  unfold argSlots Slots.ofArgs
  rw [if_neg hj]

theorem py_slot {s : Sig} (h : s.WF) (c : Call) {j nm : Nat} (hnm : s.declNames[j]? = some nm) :
    genSlots (pyLoc s (argSlots s c)) c.kws (argSlots s c) j = specSlot s c j nm := by
  unfold genSlots specSlot
  by_cases hj : j < min c.args.length s.pos.length
  · rw [if_pos hj]
    have ⟨h1, h2⟩ := argSlots_lt (s := s) (c := c) hj
    have : c.kws.find? (fun kv => pyLoc s (argSlots s c) kv.1 == .slot j) = none := by
      rw [List.find?_eq_none]
      intro kv _ hp
      rw [beq_iff_eq, pyLoc_slot_iff] at hp
      rw [h2] at hp
      exact absurd hp.2.2 (by simp)
    rw [this, h1]
  · rw [if_neg hj]
    have h0 := argSlots_ge (s := s) (c := c) hj
    by_cases hn : s.npo ≤ j
    · rw [if_pos hn]
      have : c.kws.find? (fun kv => pyLoc s (argSlots s c) kv.1 == .slot j) =
          c.kws.find? (fun kv => kv.1.txtEq nm) := by
        apply find?_congr'
        intro kv _
        rw [Bool.eq_iff_iff, beq_iff_eq, pyLoc_slot_iff, txtEq_iff, locate_eq_some h.nodup, h0]
        constructor
        · rintro ⟨hs, ⟨_, hget⟩, _⟩
          rw [hnm] at hget; injection hget with hget
          exact ⟨hs, hget.symm⟩
        · rintro ⟨hs, ht⟩
          exact ⟨hs, ⟨hn, by rw [hnm, ht]⟩, rfl⟩
      rw [this, h0]
      unfold dictGet
      cases c.kws.find? (fun kv => kv.1.txtEq nm) <;> rfl
    · rw [if_neg hn]
      have : c.kws.find? (fun kv => pyLoc s (argSlots s c) kv.1 == .slot j) = none := by
        rw [List.find?_eq_none]
        intro kv _ hp
        rw [beq_iff_eq, pyLoc_slot_iff, locate_eq_some h.nodup] at hp
        exact hn hp.2.1.1
      rw [this, h0]

/-- `__pyx_pyargnames`: the names of the non-positional-only arguments in `all_args` order -/
def Sig.argNames (s : Sig) : List Nat := (s.allArgs.drop s.npo).map (·.name)

theorem Sig.argNames_eq (s : Sig) : s.argNames = s.allNames.drop s.npo := by
  unfold Sig.argNames Sig.allNames; rw [List.map_drop]

theorem Sig.argNames_length (s : Sig) : s.argNames.length = s.pos.length + s.kwo.length - s.npo := by
  rw [s.argNames_eq, List.length_drop, s.allNames_length]

theorem Sig.WF.argNames_nodup {s : Sig} (h : s.WF) : s.argNames.Nodup := by
  rw [s.argNames_eq]; exact (List.drop_sublist _ _).nodup h.allNames_nodup

theorem cy_slot {s : Sig} (h : s.WF) (c : Call) {first base : Nat}
    (hbase : s.npo < s.pos.length + s.kwo.length → base = s.npo)
    (hfirst : s.npo + first = max (min c.args.length s.pos.length) s.npo)
    {j nm : Nat} (hnm : s.allNames[j]? = some nm) :
    kwSlots s.argNames first base c.kws (argSlots s c) j = specSlot s c j nm := by
  have hjL : j < s.pos.length + s.kwo.length := by
    rw [List.getElem?_eq_some_iff] at hnm
    obtain ⟨hj, _⟩ := hnm
    rwa [s.allNames_length] at hj
  have hnpo := h.npo_le
  unfold kwSlots specSlot
  rw [s.argNames_length]
  by_cases hL : s.npo < s.pos.length + s.kwo.length
  · have hb := hbase hL
    subst hb
    by_cases hr : max (min c.args.length s.pos.length) s.npo ≤ j
    · have hr' : s.npo + first ≤ j ∧ j < s.npo + (s.pos.length + s.kwo.length - s.npo) := by omega
      rw [if_pos hr']
      have hj : ¬ j < min c.args.length s.pos.length := by omega
      have hn : s.npo ≤ j := by omega
      rw [if_neg hj, if_pos hn, argSlots_ge hj]
      have : s.argNames.getD (j - s.npo) 0 = nm := by
        rw [List.getD_eq_getElem?_getD, s.argNames_eq, List.getElem?_drop]
        have : s.npo + (j - s.npo) = j := by omega
        rw [this, hnm]; rfl
      rw [this]
      cases dictGet c.kws nm <;> rfl
    · have hr' : ¬(s.npo + first ≤ j ∧ j < s.npo + (s.pos.length + s.kwo.length - s.npo)) := by omega
      rw [if_neg hr']
      by_cases hj : j < min c.args.length s.pos.length
      · rw [if_pos hj]; exact (argSlots_lt hj).1
      · have hn : ¬ s.npo ≤ j := by omega
        rw [if_neg hj, if_neg hn]; exact argSlots_ge hj
  · have hr' : ¬(base + first ≤ j ∧ j < base + (s.pos.length + s.kwo.length - s.npo)) := by omega
    rw [if_neg hr']
    by_cases hj : j < min c.args.length s.pos.length
    · rw [if_pos hj]; exact (argSlots_lt hj).1
    · have hn : ¬ s.npo ≤ j := by omega
      rw [if_neg hj, if_neg hn]; exact argSlots_ge hj

/-! ### the two loops reject / collect the same keys -/

theorem pyLoc_bad_iff (s : Sig) (init : Slots) (k : Key) :
    pyLoc s init k = .bad ↔
      k.isStr = false ∨ (∃ j, locate s.declNames s.npo k.text = some j ∧ (init j).isSome = true) ∨
        (locate s.declNames s.npo k.text = none ∧ s.sstar = false) := by
  unfold pyLoc
  cases hs : k.isStr
  · simp
  · simp only [Bool.not_true, Bool.false_eq_true, if_false, Bool.true_eq_false, false_or]
    rcases hl : locate s.declNames s.npo k.text with _ | j
    · cases hss : s.sstar <;> simp
    · cases hi : (init j).isSome <;> simp [hi]

theorem pyLoc_extra_iff (s : Sig) (init : Slots) (k : Key) :
    pyLoc s init k = .extra ↔
      k.isStr = true ∧ locate s.declNames s.npo k.text = none ∧ s.sstar = true := by
  unfold pyLoc
  cases hs : k.isStr
  · simp
  · simp only [Bool.not_true, Bool.false_eq_true, if_false, true_and]
    rcases hl : locate s.declNames s.npo k.text with _ | j
    · cases hss : s.sstar <;> simp
    · cases hi : (init j).isSome <;> simp [hi]

theorem Sig.names_pos (s : Sig) {j : Nat} (hj : j < s.pos.length) : s.allNames[j]? = s.declNames[j]? := by
  unfold Sig.allNames Sig.declNames
  rw [List.getElem?_map, List.getElem?_map, s.allArgs_pos hj, s.decl_pos hj]

theorem Sig.WF.mem_drop_names {s : Sig} (h : s.WF) (t : Nat) :
    t ∈ s.allNames.drop s.npo ↔ t ∈ s.declNames.drop s.npo := by
  unfold Sig.allNames Sig.declNames Sig.decl
  rw [s.allArgs_eq, ← List.map_drop, ← List.map_drop,
    List.drop_append_of_le_length h.npo_le, List.drop_append_of_le_length h.npo_le,
    List.map_append, List.map_append, List.mem_append, List.mem_append]
  have : t ∈ s.kwA.map (·.name) ↔ t ∈ s.kwo.map (·.name) := (s.kwA_perm.map _).mem_iff
  rw [this]

theorem Sig.WF.locate_none_iff {s : Sig} (h : s.WF) (t : Nat) :
    locate s.declNames s.npo t = none ↔ ∀ i : Nat, s.argNames[i]? ≠ some t := by
  rw [locate_eq_none h.nodup]
  constructor
  · intro hd i hget
    have hm : t ∈ s.argNames := List.mem_iff_getElem?.2 ⟨i, hget⟩
    rw [s.argNames_eq, h.mem_drop_names, mem_drop_iff] at hm
    obtain ⟨j, hj, hg⟩ := hm
    exact hd j hj hg
  · intro ha j hj hget
    have hm : t ∈ s.declNames.drop s.npo := mem_drop_iff.2 ⟨j, hj, hget⟩
    rw [← h.mem_drop_names, ← s.argNames_eq] at hm
    obtain ⟨i, hi⟩ := List.mem_iff_getElem?.1 hm
    exact ha i hi

theorem Sig.WF.dup_iff {s : Sig} (h : s.WF) (c : Call) {first : Nat}
    (hfirst : s.npo + first = max (min c.args.length s.pos.length) s.npo) (t : Nat) :
    (∃ i, i < first ∧ s.argNames[i]? = some t) ↔
      ∃ j, locate s.declNames s.npo t = some j ∧ (argSlots s c j).isSome = true := by
  have hnpo := h.npo_le
  constructor
  · rintro ⟨i, hi, hget⟩
    rw [s.argNames_eq, List.getElem?_drop] at hget
    have hlt : s.npo + i < min c.args.length s.pos.length := by omega
    rw [s.names_pos (by omega)] at hget
    exact ⟨s.npo + i, (locate_eq_some h.nodup).2 ⟨by omega, hget⟩, (argSlots_lt hlt).2⟩
  · rintro ⟨j, hl, hs⟩
    obtain ⟨hj, hget⟩ := (locate_eq_some h.nodup).1 hl
    have hlt : j < min c.args.length s.pos.length := by
      apply Classical.byContradiction
      intro hc
      rw [argSlots_ge hc] at hs
      cases hs
    refine ⟨j - s.npo, by omega, ?_⟩
    rw [s.argNames_eq, List.getElem?_drop]
    have : s.npo + (j - s.npo) = j := by omega
    rw [this, s.names_pos (by omega)]
    exact hget

theorem loc_bad_eq {s : Sig} (h : s.WF) (c : Call) {first : Nat} (base : Nat) (kwUsed : Bool)
    (hfirst : s.npo + first = max (min c.args.length s.pos.length) s.npo) (k : Key) :
    (pyLoc s (argSlots s c) k == .bad) = (cyLoc s.argNames first base (s.sstar && kwUsed) s.sstar k == .bad) := by
  rw [Bool.eq_iff_iff, beq_iff_eq, beq_iff_eq, pyLoc_bad_iff, cyLoc_bad_iff h.argNames_nodup,
    h.dup_iff c hfirst, h.locate_none_iff]
  cases s.sstar <;> simp

theorem loc_extra_eq {s : Sig} (h : s.WF) (c : Call) (first base : Nat) (k : Key) :
    (pyLoc s (argSlots s c) k == .extra) = (cyLoc s.argNames first base (s.sstar && true) s.sstar k == .extra) := by
  rw [Bool.eq_iff_iff, beq_iff_eq, beq_iff_eq, pyLoc_extra_iff, cyLoc_extra_iff h.argNames_nodup,
    h.locate_none_iff]
  cases s.sstar <;> simp

/-! ### after the loops: defaults, required-argument checks, read-out -/

/-- final value of parameter `p` sitting at slot `j` -/
def V (s : Sig) (c : Call) (j : Nat) (p : Param) : Option Val :=
  (specSlot s c j p.name).orElse (fun _ => p.dflt)

def pyL (s : Sig) (c : Call) : Slots :=
  withDefaults s.decl (genSlots (pyLoc s (argSlots s c)) c.kws (argSlots s c))

def cyL (s : Sig) (c : Call) (first base : Nat) : Slots :=
  withDefaults s.allArgs (kwSlots s.argNames first base c.kws (argSlots s c))

theorem pyL_eq {s : Sig} (h : s.WF) (c : Call) {j : Nat} {p : Param} (hp : s.decl[j]? = some p) :
    pyL s c j = V s c j p := by
  unfold pyL withDefaults V
  rw [hp]
  have : s.declNames[j]? = some p.name := by
    unfold Sig.declNames; rw [List.getElem?_map, hp]; rfl
  simp only [py_slot h c this]

theorem cyL_eq {s : Sig} (h : s.WF) (c : Call) {first base : Nat}
    (hbase : s.npo < s.pos.length + s.kwo.length → base = s.npo)
    (hfirst : s.npo + first = max (min c.args.length s.pos.length) s.npo)
    {j : Nat} {p : Param} (hp : s.allArgs[j]? = some p) :
    cyL s c first base j = V s c j p := by
  unfold cyL withDefaults V
  rw [hp]
  have : s.allNames[j]? = some p.name := by
    unfold Sig.allNames; rw [List.getElem?_map, hp]; rfl
  simp only [cy_slot h c hbase hfirst this]

/-- value of a keyword-only parameter -/
def W (c : Call) (p : Param) : Option Val := (dictGet c.kws p.name).orElse (fun _ => p.dflt)

theorem V_kw {s : Sig} (h : s.WF) (c : Call) {j : Nat} (hj : s.pos.length ≤ j) (p : Param) :
    V s c j p = W c p := by
  unfold V W specSlot
  have hnpo := h.npo_le
  have h1 : ¬ j < min c.args.length s.pos.length := by omega
  have h2 : s.npo ≤ j := by omega
  rw [if_neg h1, if_pos h2]

theorem allSet_iff (a : Slots) (n : Nat) : allSet a n = true ↔ ∀ j, j < n → (a j).isSome = true := by
  unfold allSet
  rw [List.all_eq_true]
  constructor
  · intro h j hj; exact h j (List.mem_range.2 hj)
  · intro h j hj; exact h j (List.mem_range.1 hj)

theorem anyNull_iff (a : Slots) (lo hi : Nat) :
    anyNull a lo hi = true ↔ ∃ j, lo ≤ j ∧ j < hi ∧ (a j).isNone = true := by
  unfold anyNull
  rw [List.any_eq_true]
  constructor
  · rintro ⟨d, hd, hn⟩
    rw [List.mem_range] at hd
    exact ⟨lo + d, by omega, by omega, hn⟩
  · rintro ⟨j, h1, h2, hn⟩
    refine ⟨j - lo, List.mem_range.2 (by omega), ?_⟩
    have : lo + (j - lo) = j := by omega
    rw [this]; exact hn

/-- every parameter gets a value: CPython's "missing required argument" checks pass -/
def Complete (s : Sig) (c : Call) : Prop :=
  (∀ j p, s.pos[j]? = some p → (V s c j p).isSome = true) ∧ (∀ p ∈ s.kwo, (W c p).isSome = true)

theorem py_allSet_iff {s : Sig} (h : s.WF) (c : Call) : allSet (pyL s c) s.total = true ↔ Complete s c := by
  rw [allSet_iff]
  unfold Complete Sig.total
  constructor
  · intro ha
    constructor
    · intro j p hp
      have hj : j < s.pos.length := by rw [List.getElem?_eq_some_iff] at hp; exact hp.1
      have := ha j (by omega)
      rwa [pyL_eq h c (by rw [s.decl_pos hj]; exact hp)] at this
    · intro p hp
      obtain ⟨i, hi, rfl⟩ := List.mem_iff_getElem.1 hp
      have := ha (s.pos.length + i) (by omega)
      have hd : s.decl[s.pos.length + i]? = some s.kwo[i] := by
        rw [s.decl_kw (by omega)]
        have : s.pos.length + i - s.pos.length = i := by omega
        rw [this, List.getElem?_eq_getElem hi]
      rwa [pyL_eq h c hd, V_kw h c (by omega)] at this
  · rintro ⟨h1, h2⟩ j hj
    by_cases hjp : j < s.pos.length
    · have hd : s.decl[j]? = some s.pos[j] := by rw [s.decl_pos hjp, List.getElem?_eq_getElem hjp]
      rw [pyL_eq h c hd]
      exact h1 j _ (List.getElem?_eq_getElem hjp)
    · have hi : j - s.pos.length < s.kwo.length := by omega
      have hd : s.decl[j]? = some s.kwo[j - s.pos.length] := by
        rw [s.decl_kw (by omega), List.getElem?_eq_getElem hi]
      rw [pyL_eq h c hd, V_kw h c (by omega)]
      exact h2 _ (List.getElem_mem hi)

theorem cy_allSet_iff {s : Sig} (h : s.WF) (c : Call) {first base : Nat}
    (hbase : s.npo < s.pos.length + s.kwo.length → base = s.npo)
    (hfirst : s.npo + first = max (min c.args.length s.pos.length) s.npo) :
    allSet (cyL s c first base) s.allArgs.length = true ↔ Complete s c := by
  rw [allSet_iff, s.allArgs_length]
  unfold Complete
  constructor
  · intro ha
    constructor
    · intro j p hp
      have hj : j < s.pos.length := by rw [List.getElem?_eq_some_iff] at hp; exact hp.1
      have := ha j (by omega)
      rwa [cyL_eq h c hbase hfirst (by rw [s.allArgs_pos hj]; exact hp)] at this
    · intro p hp
      have hp' : p ∈ s.kwA := s.kwA_perm.mem_iff.2 hp
      obtain ⟨i, hi, rfl⟩ := List.mem_iff_getElem.1 hp'
      have hi' : i < s.kwo.length := by rw [← s.kwA_length]; exact hi
      have := ha (s.pos.length + i) (by omega)
      have hd : s.allArgs[s.pos.length + i]? = some s.kwA[i] := by
        rw [s.allArgs_kw (by omega)]
        have : s.pos.length + i - s.pos.length = i := by omega
        rw [this, List.getElem?_eq_getElem hi]
      rwa [cyL_eq h c hbase hfirst hd, V_kw h c (by omega)] at this
  · rintro ⟨h1, h2⟩ j hj
    by_cases hjp : j < s.pos.length
    · have hd : s.allArgs[j]? = some s.pos[j] := by rw [s.allArgs_pos hjp, List.getElem?_eq_getElem hjp]
      rw [cyL_eq h c hbase hfirst hd]
      exact h1 j _ (List.getElem?_eq_getElem hjp)
    · have hi : j - s.pos.length < s.kwA.length := by rw [s.kwA_length]; omega
      have hd : s.allArgs[j]? = some s.kwA[j - s.pos.length] := by
        rw [s.allArgs_kw (by omega), List.getElem?_eq_getElem hi]
      rw [cyL_eq h c hbase hfirst hd, V_kw h c (by omega)]
      exact h2 _ (s.kwA_perm.mem_iff.1 (List.getElem_mem hi))

theorem V_of_dflt (s : Sig) (c : Call) (j : Nat) {p : Param} (hd : p.dflt.isSome = true) :
    (V s c j p).isSome = true := by
  unfold V
  cases specSlot s c j p.name <;> simp [hd]

theorem W_of_dflt (c : Call) {p : Param} (hd : p.dflt.isSome = true) : (W c p).isSome = true := by
  unfold W
  cases dictGet c.kws p.name <;> simp [hd]

theorem V_of_arg (s : Sig) (c : Call) {j : Nat} (hj : j < min c.args.length s.pos.length) (p : Param) :
    (V s c j p).isSome = true := by
  unfold V specSlot
  rw [if_pos hj]
  have : j < c.args.length := by omega
  rw [List.getElem?_eq_getElem this]; rfl

/-- the two required-argument loops of the generated code decide exactly `Complete` -/
theorem cy_checks_iff {s : Sig} (h : s.WF) (c : Call) {first base : Nat}
    (hbase : s.npo < s.pos.length + s.kwo.length → base = s.npo)
    (hfirst : s.npo + first = max (min c.args.length s.pos.length) s.npo)
    (hnr : ¬ c.args.length < ((s.pos.take s.npo).filter isReq).length) :
    ((decide ((s.pos.filter isReq).length > ((s.pos.take s.npo).filter isReq).length) &&
        anyNull (cyL s c first base) c.args.length (s.pos.filter isReq).length) = false ∧
     (decide ((s.kwo.filter isReq).length > 0) &&
        anyNull (cyL s c first base) s.pos.length (s.pos.length + (s.kwo.filter isReq).length)) = false) ↔
      Complete s c := by
  rw [← cy_allSet_iff h c hbase hfirst, allSet_iff, s.allArgs_length]
  have hm := h.minpos_le
  have hnrpo := h.nrpo
  have hkq : (s.kwo.filter isReq).length ≤ s.kwo.length := List.length_filter_le _ _
  constructor
  · rintro ⟨hc1, hc2⟩ j hj
    by_cases hjp : j < s.pos.length
    · have hd : s.allArgs[j]? = some s.pos[j] := by rw [s.allArgs_pos hjp, List.getElem?_eq_getElem hjp]
      by_cases hjn : j < min c.args.length s.pos.length
      · rw [cyL_eq h c hbase hfirst hd]; exact V_of_arg s c hjn _
      · by_cases hjm : (s.pos.filter isReq).length ≤ j
        · rw [cyL_eq h c hbase hfirst hd]
          apply V_of_dflt
          rw [h.pos_dflt (List.getElem?_eq_getElem hjp)]
          simpa using hjm
        · -- a required positional parameter that was not passed positionally
          have hgt : (s.pos.filter isReq).length > ((s.pos.take s.npo).filter isReq).length := by omega
          rw [decide_eq_true hgt, Bool.true_and] at hc1
          cases hs : (cyL s c first base j).isSome
          · have : anyNull (cyL s c first base) c.args.length (s.pos.filter isReq).length = true := by
              rw [anyNull_iff]
              exact ⟨j, by omega, by omega, by cases hx : cyL s c first base j <;> simp [hx] at hs ⊢⟩
            rw [this] at hc1; cases hc1
          · rfl
    · by_cases hjr : j < s.pos.length + (s.kwo.filter isReq).length
      · have hgt : (s.kwo.filter isReq).length > 0 := by omega
        rw [decide_eq_true hgt, Bool.true_and] at hc2
        cases hs : (cyL s c first base j).isSome
        · have : anyNull (cyL s c first base) s.pos.length (s.pos.length + (s.kwo.filter isReq).length) = true := by
            rw [anyNull_iff]
            exact ⟨j, by omega, hjr, by cases hx : cyL s c first base j <;> simp [hx] at hs ⊢⟩
          rw [this] at hc2; cases hc2
        · rfl
      · have hi : j - s.pos.length < s.kwA.length := by rw [s.kwA_length]; omega
        have hd : s.allArgs[j]? = some s.kwA[j - s.pos.length] := by
          rw [s.allArgs_kw (by omega), List.getElem?_eq_getElem hi]
        rw [cyL_eq h c hbase hfirst hd]
        apply V_of_dflt
        have hmem : s.kwA[j - s.pos.length] ∈ s.kwo.filter (fun p => !isReq p) := by
          have : s.kwA[j - s.pos.length]? = (s.kwo.filter (fun p => !isReq p))[j - s.pos.length - (s.kwo.filter isReq).length]? := by
            unfold Sig.kwA
            rw [List.getElem?_append_right (by omega)]
          rw [List.getElem?_eq_getElem hi] at this
          exact List.mem_of_getElem? this.symm
        have := (List.mem_filter.1 hmem).2
        unfold isReq at this
        cases hx : s.kwA[j - s.pos.length].dflt <;> simp [hx] at this ⊢
  · intro ha
    constructor
    · rw [Bool.and_eq_false_iff]
      right
      rw [Bool.eq_false_iff]
      intro hn
      obtain ⟨j, _, hj2, hnone⟩ := (anyNull_iff _ _ _).1 hn
      have := ha j (by omega)
      cases hx : cyL s c first base j <;> simp [hx] at this hnone
    · rw [Bool.and_eq_false_iff]
      right
      rw [Bool.eq_false_iff]
      intro hn
      obtain ⟨j, _, hj2, hnone⟩ := (anyNull_iff _ _ _).1 hn
      have := ha j (by omega)
      cases hx : cyL s c first base j <;> simp [hx] at this hnone

theorem inj_of_nodup_map {α β : Type} (f : α → β) {l : List α} (hn : (l.map f).Nodup) {a b : α}
    (ha : a ∈ l) (hb : b ∈ l) (hab : f a = f b) : a = b := by
  obtain ⟨i, hi, rfl⟩ := List.mem_iff_getElem.1 ha
  obtain ⟨k, hk, rfl⟩ := List.mem_iff_getElem.1 hb
  have hi' : i < (l.map f).length := by rw [List.length_map]; exact hi
  have hk' : k < (l.map f).length := by rw [List.length_map]; exact hk
  have : (l.map f)[i] = (l.map f)[k] := by rw [List.getElem_map, List.getElem_map]; exact hab
  have := (List.getElem_inj hn).1 this
  subst this; rfl

theorem Sig.allNames_getElem? (s : Sig) (i : Nat) : s.allNames[i]? = (s.allArgs[i]?).map (·.name) := by
  unfold Sig.allNames; rw [List.getElem?_map]

theorem Sig.allArgs_perm (s : Sig) : s.allArgs.Perm s.decl := by
  unfold Sig.decl
  rw [s.allArgs_eq]
  exact List.Perm.append_left _ s.kwA_perm

/-- the slot Cython reads for the declared parameter at index `j` holds the same value as CPython's slot `j` -/
theorem readout_eq {s : Sig} (h : s.WF) (c : Call) {first base : Nat}
    (hbase : s.npo < s.pos.length + s.kwo.length → base = s.npo)
    (hfirst : s.npo + first = max (min c.args.length s.pos.length) s.npo)
    {j : Nat} {p : Param} (hp : s.decl[j]? = some p) :
    cyL s c first base (s.allNames.idxOf p.name) = pyL s c j := by
  rw [pyL_eq h c hp]
  have hjL : j < s.decl.length := by rw [List.getElem?_eq_some_iff] at hp; exact hp.1
  have hpm : p ∈ s.decl := List.mem_of_getElem? hp
  have hpa : p ∈ s.allArgs := s.allArgs_perm.mem_iff.2 hpm
  have hnm : p.name ∈ s.allNames := List.mem_map.2 ⟨p, hpa, rfl⟩
  have hlt : s.allNames.idxOf p.name < s.allNames.length := List.idxOf_lt_length_iff.2 hnm
  have hget : s.allNames[s.allNames.idxOf p.name] = p.name := List.getElem_idxOf hlt
  have hlt' : s.allNames.idxOf p.name < s.allArgs.length := by
    unfold Sig.allNames at hlt; rwa [List.length_map] at hlt
  -- the parameter at that index of `all_args` is `p` itself
  have hq : s.allArgs[s.allNames.idxOf p.name] = p := by
    apply inj_of_nodup_map (·.name) (l := s.allArgs) (show (s.allArgs.map (·.name)).Nodup from h.allNames_nodup)
      (List.getElem_mem hlt') hpa
    have h1 : s.allNames[s.allNames.idxOf p.name]? = some (s.allArgs[s.allNames.idxOf p.name]).name := by
      rw [s.allNames_getElem?, List.getElem?_eq_getElem hlt']; rfl
    rw [List.getElem?_eq_getElem hlt, hget] at h1
    injection h1 with h1
    exact h1.symm
  have hd : s.allArgs[s.allNames.idxOf p.name]? = some p := by
    rw [List.getElem?_eq_getElem hlt', hq]
  rw [cyL_eq h c hbase hfirst hd]
  have hdn : s.declNames[j]? = some p.name := by
    unfold Sig.declNames; rw [List.getElem?_map, hp]; rfl
  by_cases hjp : j < s.pos.length
  · -- positional: same index
    have : s.allNames.idxOf p.name = j := by
      have hj' : j < s.allNames.length := by rw [s.allNames_length]; omega
      have : s.allNames[j] = p.name := by
        have h1 := s.names_pos hjp
        rw [hdn, List.getElem?_eq_getElem hj'] at h1
        injection h1
      rw [← this]
      exact h.allNames_nodup.idxOf_getElem j hj'
    rw [this]
  · -- keyword-only: both indices are past the positional block
    have hja : s.pos.length ≤ s.allNames.idxOf p.name := by
      apply Classical.byContradiction
      intro hc
      have hc : s.allNames.idxOf p.name < s.pos.length := by omega
      have h1 := s.names_pos hc
      rw [List.getElem?_eq_getElem hlt, hget] at h1
      have h2 : locate s.declNames 0 p.name = some (s.allNames.idxOf p.name) :=
        (locate_eq_some h.nodup).2 ⟨Nat.zero_le _, h1.symm⟩
      have h3 : locate s.declNames 0 p.name = some j :=
        (locate_eq_some h.nodup).2 ⟨Nat.zero_le _, hdn⟩
      rw [h2] at h3; injection h3 with h3; omega
    rw [V_kw h c hja, V_kw h c (by omega)]

theorem vals_eq {s : Sig} (h : s.WF) (c : Call) {first base : Nat}
    (hbase : s.npo < s.pos.length + s.kwo.length → base = s.npo)
    (hfirst : s.npo + first = max (min c.args.length s.pos.length) s.npo) :
    s.decl.map (fun p => (p.name, (cyL s c first base (s.allNames.idxOf p.name)).getD 0)) =
      readSlots s.decl (pyL s c) := by
  unfold readSlots
  apply List.ext_getElem
  · simp
  · intro j h1 h2
    rw [List.length_map] at h1
    rw [List.getElem_map, List.getElem_map, List.getElem_range]
    have hp : s.decl[j]? = some s.decl[j] := List.getElem?_eq_getElem h1
    rw [readout_eq h c hbase hfirst hp]
    have : s.decl.getD j ⟨0, none⟩ = s.decl[j] := by
      rw [List.getD_eq_getElem?_getD, hp]; rfl
    rw [this]

/-! ### the keyword branch of `generate_tuple_and_keyword_parsing_code` -/

theorem posArgCount_spec {s : Sig} (h : s.WF) {nargs : Nat} (hm : ¬(nargs > s.pos.length ∧ s.star = false)) :
    s.npo + posArgCount s nargs = max (min nargs s.pos.length) s.npo := by
  have hnpo := h.npo_le
  unfold posArgCount
  simp only
  by_cases hP : s.pos.length = 0
  · rw [if_pos hP]; omega
  · rw [if_neg hP]
    cases hs : s.star
    · have : nargs ≤ s.pos.length := by
        apply Classical.byContradiction; intro hc; exact hm ⟨by omega, hs⟩
      simp only [Bool.false_eq_true, if_false]
      split <;> (try split) <;> omega
    · simp only [if_true]
      split <;> (try split) <;> omega

theorem valuesBase_spec (s : Sig) (hL : s.npo < s.pos.length + s.kwo.length) : valuesBase s = s.npo := by
  unfold valuesBase
  rw [s.allArgs_length]
  by_cases h0 : 0 < s.npo
  · simp [h0, hL]
  · have : s.npo = 0 := by omega
    simp [this]

theorem argNames_def (s : Sig) : List.map (fun x => x.name) (List.drop s.npo s.allArgs) = s.argNames := rfl

/-- no named parameter accepts a keyword and there is no `**kw`: CPython rejects every keyword -/
theorem py_bad_of_reject {s : Sig} (h : s.WF) (c : Call) (hnames : s.argNames = []) (hss : s.sstar = false)
    (kv : Key × Val) : pyLoc s (argSlots s c) kv.1 = .bad := by
  rw [pyLoc_bad_iff]
  cases hs : kv.1.isStr
  · exact Or.inl rfl
  · right; right
    refine ⟨(h.locate_none_iff _).2 ?_, hss⟩
    intro i; rw [hnames]; simp

/-- fewer positional arguments than required positional-only parameters: some parameter stays unset -/
theorem not_complete_of_few {s : Sig} (h : s.WF) (c : Call)
    (hlt : c.args.length < ((s.pos.take s.npo).filter isReq).length) : ¬ Complete s c := by
  rintro ⟨h1, _⟩
  rw [h.nrpo] at hlt
  have hm := h.minpos_le
  have hj : c.args.length < s.pos.length := by omega
  have := h1 c.args.length _ (List.getElem?_eq_getElem hj)
  unfold V specSlot at this
  have e1 : ¬ c.args.length < min c.args.length s.pos.length := by omega
  have e2 : ¬ s.npo ≤ c.args.length := by omega
  rw [if_neg e1, if_neg e2] at this
  have hd := h.pos_dflt (List.getElem?_eq_getElem hj)
  have : (s.pos[c.args.length]).dflt.isSome = true := by simpa using this
  rw [this] at hd
  have : (s.pos.filter isReq).length ≤ c.args.length := by simpa using hd.symm
  omega

theorem star_eq (s : Sig) (c : Call) :
    (if s.star = true then some (c.args.drop s.pos.length) else none) =
      (if s.star = true then some (c.args.drop (min c.args.length s.pos.length)) else none) := by
  cases hs : s.star
  · rfl
  · simp only [if_true]
    by_cases hle : c.args.length ≤ s.pos.length
    · have : min c.args.length s.pos.length = c.args.length := by omega
      rw [this, List.drop_length, List.drop_eq_nil_of_le hle]
    · have : min c.args.length s.pos.length = s.pos.length := by omega
      rw [this]

end CyVerif.C24

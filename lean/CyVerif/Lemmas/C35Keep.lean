import CyVerif.Lemmas.C35Cover
/-! A temp in use stays in use until it is released itself. -/
namespace CyVerif.C35

theorem holdingRef_allocate {s : FS} (w : WF s) (ty : Ty) (m st r : Bool) {n : Nat}
    (h : n ∈ holdingRef s) : n ∈ holdingRef (allocate s ty m st r).1 := by
  have w' := wf_allocate w ty m st r
  obtain ⟨t, ht, e, hm, hf⟩ := (mem_holdingRef w).mp h
  rcases allocate_fresh_or_reuse s ty m st r with ⟨fl, x, hc, he⟩ | ⟨-, he⟩
  · rw [he] at w' ⊢
    obtain ⟨-, hfl, -⟩ := reuseCandidate_some hc
    refine (mem_holdingRef w').mpr ⟨t, ht, e, hm, ?_⟩
    cases hf' : isFree (allocReuse s (reqKey ty m) fl x).1 t with
    | false => rfl
    | true =>
      obtain ⟨fl', hfl', hm'⟩ := isFree_iff.mp hf'
      change aget (aset s.free _ _) t.key = _ at hfl'
      by_cases hk : t.key = reqKey ty m
      · rw [hk, aget_aset_self] at hfl'
        cases hfl'
        have : isFree s t = true := isFree_iff.mpr ⟨fl, hk ▸ hfl, List.mem_of_mem_erase hm'⟩
        rw [hf] at this; cases this
      · rw [aget_aset_ne _ _ hk] at hfl'
        have : isFree s t = true := isFree_iff.mpr ⟨fl', hfl', hm'⟩
        rw [hf] at this; cases this
  · rw [he] at w' ⊢
    refine (mem_holdingRef w').mpr ⟨t, List.mem_append.mpr (Or.inl ht), e, hm, ?_⟩
    cases hf' : isFree (allocFresh s (reqKey ty m).1 (reqKey ty m).2 st r).1 t with
    | false => rfl
    | true =>
      obtain ⟨fl', hfl', hm'⟩ := isFree_iff.mp hf'
      have : isFree s t = true := isFree_iff.mpr ⟨fl', hfl', hm'⟩
      rw [hf] at this; cases this

theorem holdingRef_release {s s' : FS} (w : WF s) {x : Nat} (hr : release s x = .ok s') {n : Nat}
    (h : n ∈ holdingRef s) (hne : n ≠ x) : n ∈ holdingRef s' := by
  have w' := wf_release w hr
  obtain ⟨t, ht, e, hm, hf⟩ := (mem_holdingRef w).mp h
  obtain ⟨k, -, -, rfl⟩ := release_ok hr
  refine (mem_holdingRef w').mpr ⟨t, ht, e, hm, ?_⟩
  cases hf' : isFree _ t with
  | false => rfl
  | true =>
    obtain ⟨fl', hfl', hm'⟩ := isFree_iff.mp hf'
    change aget (aset s.free _ _) t.key = _ at hfl'
    by_cases hk : t.key = k
    · rw [hk, aget_aset_self] at hfl'
      cases hfl'
      simp only at hm'
      rcases List.mem_append.mp hm' with hm' | hm'
      · cases hg : aget s.free k with
        | none => rw [hg] at hm'; simp at hm'
        | some fl =>
          rw [hg] at hm'; simp at hm'
          have : isFree s t = true := isFree_iff.mpr ⟨fl, hk ▸ hg, hm'⟩
          rw [hf] at this; cases this
      · simp at hm'; exact absurd (e ▸ hm') hne
    · rw [aget_aset_ne _ _ hk] at hfl'
      have : isFree s t = true := isFree_iff.mpr ⟨fl', hfl', hm'⟩
      rw [hf] at this; cases this

theorem allManaged_nodup {s : FS} (w : WF s) : (allManaged s).Nodup := by
  unfold allManaged
  have := w.namesNodup
  unfold names at this
  exact List.Nodup.sublist (List.Sublist.map _ List.filter_sublist) this

theorem holdingRef_nodup {s : FS} (w : WF s) : (holdingRef s).Nodup := by
  unfold holdingRef inUse
  have := w.namesNodup
  unfold names at this
  exact List.Nodup.sublist (List.Sublist.map _ (List.Sublist.trans List.filter_sublist List.filter_sublist)) this

end CyVerif.C35

/-!
Uniqueness characterisations of the three integer divisions used by the
models: C (`tdiv`/`tmod`, truncation), Python (`fdiv`/`fmod`, floor).
-/
namespace CyVerif

theorem tdiv_tmod_unique_pos {a b q r : Int} (ha : 0 ≤ a) (hb : 0 < b)
    (h : r + b * q = a) (h0 : 0 ≤ r) (h1 : r < b) : a.tdiv b = q ∧ a.tmod b = r := by
  rw [Int.tdiv_eq_ediv_of_nonneg ha, Int.tmod_eq_emod_of_nonneg ha]
  exact (Int.ediv_emod_unique hb).2 ⟨h, h0, h1⟩

theorem tdiv_tmod_unique_nonneg {a b q r : Int} (ha : 0 ≤ a) (_hb : b ≠ 0)
    (h : r + b * q = a) (h0 : 0 ≤ r) (h1 : r.natAbs < b.natAbs) : a.tdiv b = q ∧ a.tmod b = r := by
  by_cases hpos : 0 < b
  · exact tdiv_tmod_unique_pos ha hpos h h0 (by omega)
  · have hneg : 0 < -b := by omega
    have h' : r + (-b) * (-q) = a := by rw [Int.neg_mul_neg]; exact h
    have := tdiv_tmod_unique_pos ha hneg h' h0 (by omega)
    rw [Int.tdiv_neg, Int.tmod_neg] at this
    constructor
    · omega
    · exact this.2

/-- `q, r` are C's quotient and remainder of `a` by `b` as soon as
`a = b*q + r`, `|r| < |b|` and `r` has the sign of `a` (or is zero). -/
theorem tdiv_tmod_unique {a b q r : Int} (hb : b ≠ 0) (h : r + b * q = a)
    (hr : r.natAbs < b.natAbs) (hs1 : 0 ≤ a → 0 ≤ r) (hs2 : a ≤ 0 → r ≤ 0) :
    a.tdiv b = q ∧ a.tmod b = r := by
  by_cases ha : 0 ≤ a
  · exact tdiv_tmod_unique_nonneg ha hb h (hs1 ha) hr
  · have ha' : 0 ≤ -a := by omega
    have h' : (-r) + b * (-q) = -a := by rw [Int.mul_neg]; omega
    have := tdiv_tmod_unique_nonneg ha' hb h' (by have := hs2 (by omega); omega) (by omega)
    rw [Int.neg_tdiv, Int.neg_tmod] at this
    constructor <;> omega

/-- Floor division/modulo (Python `//`, `%`) characterisation for either sign of the divisor. -/
theorem fdiv_fmod_unique_ne {a b q r : Int} (hb : b ≠ 0) (h : r + b * q = a)
    (hp : 0 < b → 0 ≤ r ∧ r < b) (hn : b < 0 → b < r ∧ r ≤ 0) :
    a.fdiv b = q ∧ a.fmod b = r := by
  by_cases hpos : 0 < b
  · exact (Int.fdiv_fmod_unique hpos).2 ⟨h, hp hpos⟩
  · have hneg : b < 0 := by omega
    exact (Int.fdiv_fmod_unique' hneg).2 ⟨h, hn hneg⟩

theorem fmod_range_pos (a : Int) {b : Int} (hb : 0 < b) : 0 ≤ a.fmod b ∧ a.fmod b < b :=
  ⟨Int.fmod_nonneg_of_pos a hb, Int.fmod_lt_of_pos a hb⟩

theorem fmod_range_neg (a : Int) {b : Int} (hb : b < 0) : b < a.fmod b ∧ a.fmod b ≤ 0 := by
  have := (Int.fdiv_fmod_unique' (a := a) (q := a.fdiv b) (r := a.fmod b) hb).1 ⟨rfl, rfl⟩
  exact this.2

theorem fmod_add_mul_fdiv' (a b : Int) : a.fmod b + b * a.fdiv b = a := Int.fmod_add_mul_fdiv a b

/-- Everything the models need to know about C's `/` and `%`. -/
theorem tdiv_tmod_spec (a : Int) {b : Int} (hb : b ≠ 0) :
    a.tmod b + b * a.tdiv b = a ∧ (a.tmod b).natAbs < b.natAbs ∧
    (0 ≤ a → 0 ≤ a.tmod b) ∧ (a ≤ 0 → a.tmod b ≤ 0) := by
  refine ⟨Int.tmod_add_mul_tdiv a b, ?_, fun h => Int.tmod_nonneg b h, fun h => ?_⟩
  · rw [Int.natAbs_tmod]; exact Nat.mod_lt _ (by omega)
  · have := Int.tmod_nonneg (a := -a) b (by omega)
    rw [Int.neg_tmod] at this; omega

theorem mul_neg_iff' (a b : Int) : a * b < 0 ↔ (a < 0 ∧ 0 < b) ∨ (0 < a ∧ b < 0) := by
  constructor
  · intro h
    by_cases ha : 0 ≤ a
    · by_cases hb : 0 ≤ b
      · have := Int.mul_nonneg ha hb; omega
      · by_cases ha0 : a = 0
        · subst ha0; simp at h
        · right; omega
    · by_cases hb : 0 < b
      · left; omega
      · have := Int.mul_nonneg_of_nonpos_of_nonpos (show a ≤ 0 by omega) (show b ≤ 0 by omega); omega
  · rintro (⟨ha, hb⟩ | ⟨ha, hb⟩)
    · exact Int.mul_neg_of_neg_of_pos ha hb
    · exact Int.mul_neg_of_pos_of_neg ha hb

end CyVerif

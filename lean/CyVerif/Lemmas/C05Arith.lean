import CyVerif.Model.C05
/-!
Arithmetic facts for the C05 model: powers of two as atoms, C casts and ranges, digit-list values,
`pylong_join`, byte arrays.
-/
namespace CyVerif.C05

/-! ### powers of two -/

theorem two_pos (k : Nat) : 0 < two k := by
  unfold two; exact Int.natCast_pos.mpr (Nat.two_pow_pos k)

theorem two_zero : two 0 = 1 := by simp [two]

theorem two_succ (k : Nat) : two (k + 1) = 2 * two k := by
  unfold two; rw [Nat.pow_succ]; push_cast; omega

theorem two_add (a b : Nat) : two (a + b) = two a * two b := by
  unfold two; rw [Nat.pow_add]; push_cast; rfl

theorem two_le_two {a b : Nat} (h : a ≤ b) : two a ≤ two b := by
  unfold two; exact Int.ofNat_le.mpr (Nat.pow_le_pow_right (by decide) h)

theorem two_lt_two {a b : Nat} (h : a < b) : two a < two b := by
  unfold two; exact Int.ofNat_lt.mpr (Nat.pow_lt_pow_right (by decide) h)

theorem two_double_le {a b : Nat} (h : a < b) : 2 * two a ≤ two b := by
  rw [← two_succ]; exact two_le_two h

theorem two_pred {k : Nat} (h : 0 < k) : two k = 2 * two (k - 1) := by
  have : k = (k - 1) + 1 := by omega
  rw [this, two_succ]; simp

theorem two_dvd {a b : Nat} (h : a ≤ b) : two a ∣ two b := by
  have : b = a + (b - a) := by omega
  rw [this, two_add]; exact Int.dvd_mul_right _ _

theorem two_eq_pow (k : Nat) : two k = (2 : Int) ^ k := by
  unfold two; push_cast; rfl

theorem natCast_two_pow (k : Nat) : ((2 ^ k : Nat) : Int) = two k := rfl

/-! ### types, ranges, casts -/

theorem bits_pos {t : CTy} (h : 0 < t.bytes) : 0 < t.bits := by unfold CTy.bits; omega

theorem two_bits {t : CTy} (h : 0 < t.bytes) : two t.bits = 2 * two (t.bits - 1) := two_pred (bits_pos h)

theorem cast_inRange {t : CTy} (h : 0 < t.bytes) (x : Int) : t.inRange (cast t x) := by
  have hb := two_bits h
  have hp := two_pos (t.bits - 1)
  unfold CTy.inRange CTy.lo CTy.hi cast
  cases t.signed with
  | true =>
    simp only [if_true]
    have h1 := Int.emod_nonneg (x + two (t.bits - 1)) (b := two t.bits) (by omega)
    have h2 := Int.emod_lt_of_pos (x + two (t.bits - 1)) (b := two t.bits) (by omega)
    omega
  | false =>
    simp only [Bool.false_eq_true, if_false]
    exact ⟨Int.emod_nonneg _ (by omega), Int.emod_lt_of_pos _ (by omega)⟩

theorem cast_of_inRange {t : CTy} (h : 0 < t.bytes) {x : Int} (hx : t.inRange x) : cast t x = x := by
  have hb := two_bits h
  have hp := two_pos (t.bits - 1)
  unfold CTy.inRange CTy.lo CTy.hi at hx
  unfold cast
  cases hs : t.signed with
  | true =>
    simp only [hs, if_true] at hx ⊢
    rw [Int.emod_eq_of_lt (by omega) (by omega)]; omega
  | false =>
    simp only [hs, Bool.false_eq_true, if_false] at hx ⊢
    exact Int.emod_eq_of_lt hx.1 hx.2

theorem cast_eq_iff {t : CTy} (h : 0 < t.bytes) (x : Int) : cast t x = x ↔ t.inRange x :=
  ⟨fun e => e ▸ cast_inRange h x, cast_of_inRange h⟩

theorem inRange_signed {t : CTy} (hs : t.signed = true) (x : Int) :
    t.inRange x ↔ (- two (t.bits - 1) ≤ x ∧ x < two (t.bits - 1)) := by
  simp [CTy.inRange, CTy.lo, CTy.hi, hs]

theorem inRange_unsigned {t : CTy} (hs : t.signed = false) (x : Int) :
    t.inRange x ↔ (0 ≤ x ∧ x < two t.bits) := by
  simp [CTy.inRange, CTy.lo, CTy.hi, hs]

theorem bits_le {t f : CTy} (h : t.bytes ≤ f.bytes) : t.bits ≤ f.bits := by unfold CTy.bits; omega
theorem bits_lt {t f : CTy} (h : t.bytes < f.bytes) : t.bits < f.bits := by unfold CTy.bits; omega

/-- a type of the same signedness and at least the size contains the range -/
theorem inRange_mono {t f : CTy} (hs : t.signed = f.signed) (hb : t.bytes ≤ f.bytes) {x : Int}
    (hx : t.inRange x) : f.inRange x := by
  have h1 : two (t.bits - 1) ≤ two (f.bits - 1) := two_le_two (by have := bits_le hb; omega)
  have h2 : two t.bits ≤ two f.bits := two_le_two (bits_le hb)
  cases hf : f.signed with
  | true =>
    rw [hf] at hs
    rw [inRange_signed hs] at hx; rw [inRange_signed hf]; omega
  | false =>
    rw [hf] at hs
    rw [inRange_unsigned hs] at hx; rw [inRange_unsigned hf]; omega

theorem isUnsigned_eq {t : CTy} (h : 0 < t.bytes) : isUnsigned t = !t.signed := by
  have hb := two_bits h
  have hp := two_pos (t.bits - 1)
  have h0 : cast t 0 = 0 := cast_of_inRange h (by
    cases hs : t.signed with
    | true => rw [inRange_signed hs]; omega
    | false => rw [inRange_unsigned hs]; omega)
  unfold isUnsigned
  rw [h0]
  cases hs : t.signed with
  | true =>
    have : cast t (-1) = -1 := cast_of_inRange h (by rw [inRange_signed hs]; omega)
    simp [this]
  | false =>
    have : cast t (-1) = two t.bits - 1 := by
      unfold cast; simp only [hs, Bool.false_eq_true, if_false]
      have : (-1 : Int) = (two t.bits - 1) + two t.bits * (-1) := by omega
      rw [this, Int.add_mul_emod_self_left]
      exact Int.emod_eq_of_lt (by omega) (by omega)
    simp [this]; omega

theorem cast_neg_one_signed {t : CTy} (h : 0 < t.bytes) (hs : t.signed = true) : cast t (-1) = -1 := by
  have hp := two_pos (t.bits - 1)
  exact cast_of_inRange h (by rw [inRange_signed hs]; omega)

theorem cast_neg_one_unsigned {t : CTy} (h : 0 < t.bytes) (hs : t.signed = false) : cast t (-1) = two t.bits - 1 := by
  have hb := two_bits h
  have hp := two_pos (t.bits - 1)
  unfold cast; simp only [hs, Bool.false_eq_true, if_false]
  have : (-1 : Int) = (two t.bits - 1) + two t.bits * (-1) := by omega
  rw [this, Int.add_mul_emod_self_left]
  exact Int.emod_eq_of_lt (by omega) (by omega)

end CyVerif.C05

import CyVerif.Lemmas.C10Table
/-! Ordering of the table (interned entries last) and the layout round trip. -/
namespace CyVerif.C10

/-! ### the sort keys are total preorders -/

theorem listLe_total : ∀ a b : List Nat, (listLe a b || listLe b a) = true
  | [], _ => by simp [listLe]
  | _ :: _, [] => by simp [listLe]
  | x :: s, y :: t => by
    have ih := listLe_total s t
    simp only [listLe]
    by_cases h1 : x < y
    · simp [h1]
    · by_cases h2 : y < x
      · simp [h1, h2]
      · simp [h1, h2]; simpa using ih

theorem listLe_trans : ∀ a b c : List Nat, listLe a b = true → listLe b c = true → listLe a c = true
  | [], _, _ => by simp [listLe]
  | _ :: _, [], _ => by simp [listLe]
  | _ :: _, _ :: _, [] => by simp [listLe]
  | x :: s, y :: t, z :: u => by
    have ih := listLe_trans s t u
    simp only [listLe]
    by_cases h1 : x < y <;> by_cases h2 : y < x <;> by_cases h3 : y < z <;> by_cases h4 : z < y <;>
      by_cases h5 : x < z <;> by_cases h6 : z < x <;> simp [h1, h2, h3, h4, h5, h6] <;>
      first | omega | exact ih

theorem listLe_refl : ∀ a : List Nat, listLe a a = true
  | [] => by simp [listLe]
  | x :: s => by simp [listLe, listLe_refl s]

theorem listLe_antisymm : ∀ a b : List Nat, listLe a b = true → listLe b a = true → a = b
  | [], [] => by simp
  | [], _ :: _ => by simp [listLe]
  | _ :: _, [] => by simp [listLe]
  | x :: s, y :: t => by
    have ih := listLe_antisymm s t
    simp only [listLe]
    by_cases h1 : x < y <;> by_cases h2 : y < x <;> simp [h1, h2]
    · omega
    · intro a b; exact ⟨by omega, ih a b⟩

theorem textLe_total (a b : TextEntry) : (textLe a b || textLe b a) = true := by
  unfold textLe
  have := listLe_total a.text b.text
  cases ha : a.interned <;> cases hb : b.interned <;> simp_all

theorem textLe_trans (a b c : TextEntry) : textLe a b = true → textLe b c = true → textLe a c = true := by
  unfold textLe
  have := listLe_trans a.text b.text c.text
  cases ha : a.interned <;> cases hb : b.interned <;> cases hc : c.interned <;> simp_all

theorem bytesLe_total (a b : BytesEntry) : (bytesLe a b || bytesLe b a) = true := by
  unfold bytesLe
  by_cases h : a.data = b.data
  · simp [h]; simpa using listLe_total a.cname b.cname
  · have h' : ¬ b.data = a.data := fun e => h e.symm
    simp [h, h']; simpa using listLe_total a.data b.data

theorem bytesLe_trans (a b c : BytesEntry) : bytesLe a b = true → bytesLe b c = true → bytesLe a c = true := by
  unfold bytesLe
  by_cases h1 : a.data = b.data
  · by_cases h2 : b.data = c.data
    · rw [if_pos h1, if_pos h2, if_pos (h1.trans h2)]
      exact listLe_trans _ _ _
    · have h3 : ¬ a.data = c.data := fun e => h2 (h1.symm.trans e)
      rw [if_pos h1, if_neg h2, if_neg h3, h1]
      exact fun _ h => h
  · by_cases h2 : b.data = c.data
    · have h3 : ¬ a.data = c.data := fun e => h1 (e.trans h2.symm)
      rw [if_neg h1, if_pos h2, if_neg h3, ← h2]
      exact fun h _ => h
    · rw [if_neg h1, if_neg h2]
      by_cases h3 : a.data = c.data
      · intro ha hb
        rw [h3] at ha
        exact absurd (listLe_antisymm _ _ hb ha) h2
      · rw [if_neg h3]
        exact listLe_trans _ _ _

/-! ### interned entries form a suffix of the sorted table -/

theorem internedSuffix_of_pairwise (l : List TextEntry)
    (h : l.Pairwise (fun a b => a.interned = true → b.interned = true)) : internedSuffix l = true := by
  induction l with
  | nil => rfl
  | cons e rest ih =>
    rw [List.pairwise_cons] at h
    unfold internedSuffix
    by_cases he : e.interned = true
    · simp only [he, if_true, List.all_eq_true]
      intro x hx; exact h.1 x hx he
    · simp only [he]; exact ih h.2

theorem textLe_interned (a b : TextEntry) (h : textLe a b = true) : a.interned = true → b.interned = true := by
  unfold textLe at h
  cases ha : a.interned <;> cases hb : b.interned <;> simp_all

theorem sortTexts_pairwise (ts : List TextEntry) :
    (sortTexts ts).Pairwise (fun a b => textLe a b = true) :=
  List.pairwise_mergeSort textLe_trans textLe_total ts

theorem sortBytes_pairwise (bs : List BytesEntry) :
    (sortBytes bs).Pairwise (fun a b => bytesLe a b = true) :=
  List.pairwise_mergeSort bytesLe_trans bytesLe_total bs

theorem internedSuffix_sortTexts (ts : List TextEntry) : internedSuffix (sortTexts ts) = true :=
  internedSuffix_of_pairwise _ ((sortTexts_pairwise ts).imp (fun {a b} h => textLe_interned a b h))

theorem sortTexts_perm (ts : List TextEntry) : (sortTexts ts).Perm ts := List.mergeSort_perm ts textLe
theorem sortBytes_perm (bs : List BytesEntry) : (sortBytes bs).Perm bs := List.mergeSort_perm bs bytesLe

/-! ### the run-time interned test `i >= first_interned` -/

theorem rtInterned_spec (ts : List TextEntry) (h : internedSuffix ts = true) :
    ∀ (i0 j : Nat) (e : TextEntry), ts[j]? = some e →
      rtInterned (firstInternedIdx ts i0) (i0 + j) = e.interned := by
  induction ts with
  | nil => intro _ _ _ h; simp at h
  | cons x rest ih =>
    intro i0 j e hj
    unfold internedSuffix at h
    unfold firstInternedIdx
    by_cases hx : x.interned = true
    · simp only [hx, if_true] at h ⊢
      have he : e.interned = true := by
        cases j with
        | zero => simp at hj; rw [← hj]; exact hx
        | succ j =>
          simp at hj
          exact (List.all_eq_true.mp h) e (List.mem_of_getElem? hj)
      simp [rtInterned, he]
    · simp only [hx] at h ⊢
      cases j with
      | zero =>
        simp at hj; subst hj
        have hx' : x.interned = false := by simpa using hx
        rw [hx']
        -- the first interned index of the rest is larger than i0
        have : ∀ (l : List TextEntry) (k : Nat), rtInterned (firstInternedIdx l (k + 1)) k = false := by
          intro l
          induction l with
          | nil => intro k; simp [firstInternedIdx, rtInterned]
          | cons y t iht =>
            intro k
            unfold firstInternedIdx
            split
            · simp [rtInterned]
            · have := iht (k + 1)
              cases hf : firstInternedIdx t (k + 1 + 1) with
              | none => simp [rtInterned]
              | some f =>
                rw [hf] at this
                simp [rtInterned] at this ⊢
                omega
        simpa using this rest i0
      | succ j =>
        simp at hj
        have := ih h (i0 + 1) j e hj
        rw [← this]
        congr 1
        omega

end CyVerif.C10

import CyVerif.Lemmas.C24Main
set_option linter.unusedSimpArgs false
/-! C24 helper lemmas, part 5: each path of the generated wrapper equals `pyBind`. -/
namespace CyVerif.C24

theorem mapRes_tyErr {α β : Type} (f : α → β) : mapRes f (tyErr : Res α) = tyErr := rfl

theorem any_congr' {α : Type} {p q : α → Bool} {l : List α} (h : ∀ x, p x = q x) : l.any p = l.any q := by
  have : p = q := funext h
  rw [this]

theorem filter_congr'' {α : Type} {p q : α → Bool} (l : List α) (h : ∀ x, p x = q x) : l.filter p = l.filter q := by
  have : p = q := funext h
  rw [this]

/-- keyword branch (`kwds_len > 0`) of `generate_tuple_and_keyword_parsing_code` -/
theorem cyGeneral_kw (cfg : Cfg) {s : Sig} (h : s.WF) {c : Call} (hk : KeysDistinct c.kws)
    (hne : c.kws.length > 0) :
    cyGeneral cfg s c = mapRes (observe cfg) (pyBind s c) := by
  rw [pyBind_closed h hk]
  unfold cyGeneral
  simp only [hne, if_true, argNames_def]
  have hnpo := h.npo_le
  have hlen : s.argNames.length = s.pos.length + s.kwo.length - s.npo := s.argNames_length
  by_cases hmany : c.args.length > s.pos.length ∧ s.star = false
  · -- too many positional arguments: both raise (possibly for an earlier reason)
    have e1 : (decide (c.args.length > s.pos.length) && !s.star) = true := by simp [hmany.1, hmany.2]
    rw [e1]
    simp only [if_true]
    split <;> (try split) <;> rfl
  · have e1 : (decide (c.args.length > s.pos.length) && !s.star) = false := by
      rw [Bool.eq_false_iff]; intro hc
      simp only [Bool.and_eq_true, decide_eq_true_eq, Bool.not_eq_true'] at hc
      exact hmany hc
    rw [e1]
    simp only [Bool.false_eq_true, if_false]
    have hfirst := posArgCount_spec h hmany
    have hbase : s.npo < s.pos.length + s.kwo.length → valuesBase s = s.npo := valuesBase_spec s
    have hub : ¬ posArgCount s c.args.length > s.argNames.length := by omega
    simp only [hub, if_false]
    rw [parseKeywords_closed cfg s.sstar h.argNames_nodup (by omega) _ _ hk]
    unfold parseClosed
    have hbadeq : c.kws.any (fun kv => cyLoc s.argNames (posArgCount s c.args.length) (valuesBase s)
          (s.sstar && cfg.kwUsed) s.sstar kv.1 == .bad) =
        c.kws.any (fun kv => pyLoc s (argSlots s c) kv.1 == .bad) :=
      any_congr' (fun kv => (loc_bad_eq h c (valuesBase s) cfg.kwUsed hfirst kv.1).symm)
    rw [hbadeq]
    by_cases hbad : c.kws.any (fun kv => pyLoc s (argSlots s c) kv.1 == .bad) = true
    · rw [if_pos hbad, if_pos hbad]
      split <;> (try split) <;> rfl
    · rw [if_neg hbad, if_neg hbad]
      -- some keyword is accepted
      have hacc : (!(!s.argNames.isEmpty || s.sstar)) = false := by
        rw [Bool.eq_false_iff]; intro hc
        simp only [Bool.not_eq_true', Bool.or_eq_false_iff, Bool.not_eq_false', List.isEmpty_iff] at hc
        obtain ⟨kv, hkv⟩ := List.exists_mem_of_length_pos hne
        apply hbad
        rw [List.any_eq_true]
        exact ⟨kv, hkv, by rw [py_bad_of_reject h c hc.1 hc.2 kv]; rfl⟩
      rw [hacc]
      simp only [Bool.false_eq_true, if_false]
      change (if c.args.length < ((s.pos.take s.npo).filter isReq).length then tyErr else
        (if (decide ((s.pos.filter isReq).length > ((s.pos.take s.npo).filter isReq).length) &&
              anyNull (cyL s c (posArgCount s c.args.length) (valuesBase s)) c.args.length (s.pos.filter isReq).length) = true
          then tyErr
          else if (decide ((s.kwo.filter isReq).length > 0) &&
              anyNull (cyL s c (posArgCount s c.args.length) (valuesBase s)) s.pos.length
                (s.pos.length + (s.kwo.filter isReq).length)) = true
          then tyErr
          else cyFinish cfg s c (cyL s c (posArgCount s c.args.length) (valuesBase s)) _)) =
        mapRes (observe cfg) (if (!allSet (pyL s c) s.total) = true then tyErr else _)
      by_cases hfew : c.args.length < ((s.pos.take s.npo).filter isReq).length
      · rw [if_pos hfew]
        have : allSet (pyL s c) s.total = false := by
          rw [Bool.eq_false_iff]; intro hc
          exact not_complete_of_few h c hfew ((py_allSet_iff h c).1 hc)
        rw [this]; rfl
      · rw [if_neg hfew]
        have hchk := cy_checks_iff h c hbase hfirst hfew
        by_cases hC : Complete s c
        · obtain ⟨hc1, hc2⟩ := hchk.2 hC
          rw [hc1, hc2, (py_allSet_iff h c).2 hC]
          simp only [Bool.false_eq_true, if_false, Bool.not_true]
          unfold cyFinish
          simp only []
          have hall : allSet (cyL s c (posArgCount s c.args.length) (valuesBase s)) s.allArgs.length = true :=
            (cy_allSet_iff h c hbase hfirst).2 hC
          rw [hall]
          simp only [Bool.not_true, Bool.false_eq_true, if_false, mapRes, observe]
          have hv := vals_eq h c hbase hfirst
          unfold Sig.allNames at hv
          rw [hv, star_eq s c]
          cases hu : cfg.kwUsed
          · simp [pyL]
          · rw [← filter_congr'' c.kws (fun kv => (loc_extra_eq h c (posArgCount s c.args.length) (valuesBase s) kv.1))]
            simp [pyL]
        · have hns : allSet (pyL s c) s.total = false := by
            rw [Bool.eq_false_iff]; intro hc; exact hC ((py_allSet_iff h c).1 hc)
          rw [hns]
          simp only [Bool.not_false, if_true, mapRes_tyErr]
          have : ¬((decide ((s.pos.filter isReq).length > ((s.pos.take s.npo).filter isReq).length) &&
              anyNull (cyL s c (posArgCount s c.args.length) (valuesBase s)) c.args.length (s.pos.filter isReq).length) = false ∧
            (decide ((s.kwo.filter isReq).length > 0) &&
              anyNull (cyL s c (posArgCount s c.args.length) (valuesBase s)) s.pos.length
                (s.pos.length + (s.kwo.filter isReq).length)) = false) := fun hc => hC (hchk.1 hc)
          split
          · rfl
          · split
            · rfl
            · rename_i h1 h2
              exact absurd ⟨by simpa using h1, by simpa using h2⟩ this

/-! ### no keywords passed -/

theorem kwSlots_nil (names : List Nat) (first base : Nat) (init : Slots) :
    kwSlots names first base [] init = init := by
  funext j
  unfold kwSlots dictGet
  split <;> simp

theorem complete_nokw {s : Sig} (h : s.WF) {c : Call} (hkw : c.kws = []) :
    Complete s c ↔ (s.pos.filter isReq).length ≤ c.args.length ∧ (s.kwo.filter isReq).length = 0 := by
  have hm := h.minpos_le
  have hnpo := h.npo_le
  have hget : ∀ n, dictGet c.kws n = none := by intro n; rw [hkw]; rfl
  constructor
  · rintro ⟨h1, h2⟩
    constructor
    · apply Classical.byContradiction
      intro hc
      have hj : c.args.length < s.pos.length := by omega
      have := h1 c.args.length _ (List.getElem?_eq_getElem hj)
      unfold V specSlot at this
      have e1 : ¬ c.args.length < min c.args.length s.pos.length := by omega
      rw [if_neg e1, hget] at this
      have hd := h.pos_dflt (List.getElem?_eq_getElem hj)
      have hd' : (s.pos[c.args.length]).dflt.isSome = true := by
        split at this <;> simpa using this
      rw [hd'] at hd
      have : (s.pos.filter isReq).length ≤ c.args.length := by simpa using hd.symm
      omega
    · rw [List.length_eq_zero_iff, List.filter_eq_nil_iff]
      intro p hp hr
      have := h2 p hp
      unfold W at this
      rw [hget] at this
      unfold isReq at hr
      cases hx : p.dflt <;> simp [hx] at this hr
  · rintro ⟨h1, h2⟩
    constructor
    · intro j p hp
      have hj : j < s.pos.length := by rw [List.getElem?_eq_some_iff] at hp; exact hp.1
      by_cases hjn : j < min c.args.length s.pos.length
      · exact V_of_arg s c hjn p
      · apply V_of_dflt
        rw [h.pos_dflt hp]
        have : (s.pos.filter isReq).length ≤ j := by omega
        simpa using this
    · intro p hp
      apply W_of_dflt
      rw [List.length_eq_zero_iff, List.filter_eq_nil_iff] at h2
      have := h2 p hp
      unfold isReq at this
      cases hx : p.dflt <;> simp [hx] at this ⊢

theorem ofArgs_eq (s : Sig) (c : Call) {k : Nat} (hk : k = min c.args.length s.pos.length) :
    Slots.ofArgs c.args k = argSlots s c := by
  subst hk; rfl

/-- result of `cyFinish` on fully set slots, when no keywords were passed -/
theorem cyFinish_nokw (cfg : Cfg) {s : Sig} (h : s.WF) {c : Call} (hkw : c.kws = [])
    (hC : Complete s c) :
    cyFinish cfg s c (withDefaults s.allArgs (argSlots s c)) [] =
      mapRes (observe cfg) (Res.ok (Binding.mk (readSlots s.decl (pyL s c))
        (if s.star then some (c.args.drop (min c.args.length s.pos.length)) else none)
        (if s.sstar then some (c.kws.filter (fun kv => pyLoc s (argSlots s c) kv.1 == .extra)) else none))) := by
  have hnpo := h.npo_le
  -- any admissible (first, base) describes the same slots when there are no keywords
  let first := max (min c.args.length s.pos.length) s.npo - s.npo
  have hfirst : s.npo + first = max (min c.args.length s.pos.length) s.npo := by omega
  have hbase : s.npo < s.pos.length + s.kwo.length → s.npo = s.npo := fun _ => rfl
  have hcy : withDefaults s.allArgs (argSlots s c) = cyL s c first s.npo := by
    unfold cyL; rw [hkw, kwSlots_nil]
  rw [hcy]
  unfold cyFinish
  simp only []
  rw [(cy_allSet_iff h c hbase hfirst).2 hC]
  simp only [Bool.not_true, Bool.false_eq_true, if_false, mapRes, observe]
  have hv := vals_eq h c hbase hfirst
  unfold Sig.allNames at hv
  rw [hv, star_eq s c, hkw]
  cases cfg.kwUsed <;> cases s.sstar <;> simp

theorem cyGeneral_nokw (cfg : Cfg) {s : Sig} (h : s.WF) {c : Call} (hkw : c.kws = []) :
    cyGeneral cfg s c = mapRes (observe cfg) (pyBind s c) := by
  have hk : KeysDistinct c.kws := by unfold KeysDistinct; rw [hkw]; exact List.nodup_nil
  rw [pyBind_closed h hk]
  have hnb : c.kws.any (fun kv => pyLoc s (argSlots s c) kv.1 == .bad) = false := by rw [hkw]; rfl
  rw [hnb]
  simp only [Bool.false_eq_true, if_false]
  change _ = mapRes (observe cfg) (if (decide (c.args.length > s.pos.length) && !s.star) = true then tyErr
    else if (!allSet (pyL s c) s.total) = true then tyErr
    else Res.ok (Binding.mk (readSlots s.decl (pyL s c))
        (if s.star then some (c.args.drop (min c.args.length s.pos.length)) else none)
        (if s.sstar then some (c.kws.filter (fun kv => pyLoc s (argSlots s c) kv.1 == .extra)) else none)))
  have hm := h.minpos_le
  have hcn := complete_nokw h hkw
  have hlen : c.kws.length = 0 := by rw [hkw]; rfl
  unfold cyGeneral
  simp only [hlen, Nat.lt_irrefl, gt_iff_lt, if_false]
  by_cases hC : Complete s c
  · have hfin := cyFinish_nokw cfg h hkw hC
    obtain ⟨hc1, hc2⟩ := hcn.1 hC
    rw [(py_allSet_iff h c).2 hC]
    clear hcn hC hnb hk
    cases hs : s.star <;> cases hss : s.sstar <;> rw [hs, hss] at hfin <;>
    simp only [hc2, Nat.lt_irrefl, decide_false, Bool.false_and, Bool.false_or, Bool.not_true, Bool.not_false,
      Bool.and_true, Bool.and_false, Bool.false_eq_true, if_false, if_true] at hfin ⊢ <;>
    repeat' split
    all_goals first
      | rfl
      | exact hfin
      | (exfalso
         simp only [beq_iff_eq, bne_iff_ne, decide_eq_true_eq, Bool.or_eq_true, Bool.and_eq_true,
           Bool.not_eq_true', decide_eq_false_iff_not, Nat.not_lt, ne_eq, Bool.false_eq_true] at * <;>
         omega)
      | (rw [ofArgs_eq s c] <;> first
          | exact hfin
          | (simp only [beq_iff_eq, bne_iff_ne, decide_eq_true_eq, Bool.or_eq_true, Bool.and_eq_true,
               Bool.not_eq_true', decide_eq_false_iff_not, Nat.not_lt, ne_eq, Bool.false_eq_true] at * <;>
             omega))
  · have hns : allSet (pyL s c) s.total = false := by
      rw [Bool.eq_false_iff]; intro hc; exact hC ((py_allSet_iff h c).1 hc)
    rw [hns]
    have hcn' : ¬((s.pos.filter isReq).length ≤ c.args.length ∧ (s.kwo.filter isReq).length = 0) :=
      fun hx => hC (hcn.2 hx)
    clear hcn hC hnb hk hns
    cases hs : s.star <;>
    simp only [Bool.not_true, Bool.not_false, Bool.and_true, Bool.and_false, Bool.false_eq_true, if_false, if_true,
      mapRes_tyErr, ite_self] <;>
    repeat' split
    all_goals first
      | rfl
      | (exfalso
         simp only [beq_iff_eq, bne_iff_ne, decide_eq_true_eq, Bool.or_eq_true, Bool.and_eq_true,
           Bool.not_eq_true', decide_eq_false_iff_not, Nat.not_lt, ne_eq, gt_iff_lt, Bool.false_eq_true] at * <;>
         omega)

/-- `generate_tuple_and_keyword_parsing_code` binds like CPython, with and without keywords -/
theorem cyGeneral_eq (cfg : Cfg) {s : Sig} (h : s.WF) {c : Call} (hk : KeysDistinct c.kws) :
    cyGeneral cfg s c = mapRes (observe cfg) (pyBind s c) := by
  by_cases hne : c.kws.length > 0
  · exact cyGeneral_kw cfg h hk hne
  · have : c.kws = [] := List.length_eq_zero_iff.1 (by omega)
    exact cyGeneral_nokw cfg h this

/-! ### signatures without named parameters -/

theorem locate_nil (lo t : Nat) : locate [] lo t = none := by
  unfold locate; simp

theorem pyLoc_noparams {s : Sig} (hp : s.pos = []) (hq : s.kwo = []) (init : Slots) (k : Key) :
    pyLoc s init k = if !k.isStr then .bad else if s.sstar then .extra else .bad := by
  unfold pyLoc Sig.declNames Sig.decl
  rw [hp, hq]
  simp [locate_nil]

theorem cyStarargCopy_eq (cfg : Cfg) {s : Sig} (h : s.WF) {c : Call} (hk : KeysDistinct c.kws)
    (hp : s.pos = []) (hq : s.kwo = []) (hvec : cfg.vec = true → hasNonStr c.kws = false) :
    cyStarargCopy cfg s c = mapRes (observe cfg) (pyBind s c) := by
  rw [pyBind_closed h hk]
  have hloc := pyLoc_noparams hp hq (argSlots s c)
  have hbad : c.kws.any (fun kv => pyLoc s (argSlots s c) kv.1 == .bad) =
      if s.sstar then hasNonStr c.kws else decide (c.kws.length > 0) := by
    cases hss : s.sstar
    · simp only [Bool.false_eq_true, if_false]
      rw [Bool.eq_iff_iff, List.any_eq_true, decide_eq_true_eq]
      constructor
      · rintro ⟨kv, hkv, _⟩; exact List.length_pos_of_mem hkv
      · intro hl
        obtain ⟨kv, hkv⟩ := List.exists_mem_of_length_pos hl
        refine ⟨kv, hkv, ?_⟩
        rw [hloc, hss]; cases kv.1.isStr <;> rfl
    · simp only [if_true]
      unfold hasNonStr
      apply any_congr'
      intro kv
      rw [hloc, hss]; cases kv.1.isStr <;> rfl
  have hextra : s.sstar = true → hasNonStr c.kws = false →
      c.kws.filter (fun kv => pyLoc s (argSlots s c) kv.1 == .extra) = c.kws := by
    intro hss hns
    rw [List.filter_eq_self]
    intro kv hkv
    have : kv.1.isStr = true := by
      cases hx : kv.1.isStr
      · exact absurd (hasNonStr_iff.2 ⟨kv, hkv, hx⟩) (by rw [hns]; exact Bool.false_ne_true)
      · rfl
    rw [hloc, hss, this]; rfl
  have htot : s.total = 0 := by unfold Sig.total; rw [hp, hq]; rfl
  have hall : allSet (withDefaults s.decl (genSlots (pyLoc s (argSlots s c)) c.kws (argSlots s c))) s.total = true := by
    rw [htot]; rfl
  have hvals : readSlots s.decl (withDefaults s.decl (genSlots (pyLoc s (argSlots s c)) c.kws (argSlots s c))) = [] := by
    unfold readSlots Sig.decl; rw [hp, hq]; rfl
  have hdrop : c.args.drop (min c.args.length s.pos.length) = c.args := by rw [hp]; simp
  rw [hbad, hall, hvals, hdrop, hp]
  unfold cyStarargCopy
  simp only [List.length_nil, Bool.not_true, Bool.false_eq_true, if_false]
  have hnl : hasNonStr c.kws = true → 0 < c.kws.length := by
    intro hx
    obtain ⟨kv, hkv, _⟩ := hasNonStr_iff.1 hx
    exact List.length_pos_of_mem hkv
  have hfil : hasNonStr c.kws = false →
      (if s.sstar = true then some (c.kws.filter (fun kv => pyLoc s (argSlots s c) kv.1 == .extra)) else none) =
      (if s.sstar = true then some c.kws else none) := by
    intro hns
    cases hss : s.sstar
    · rfl
    · simp only [if_true]; rw [hextra hss hns]
  cases hns : hasNonStr c.kws
  · rw [hfil hns]
    clear hfil hextra hloc hbad hall hvals
    cases hss : s.sstar <;> cases hst : s.star <;> cases hv : cfg.vec <;> cases hu : cfg.kwUsed <;>
      by_cases hl : 0 < c.args.length <;> by_cases hl2 : 0 < c.kws.length <;>
      simp_all [mapRes, observe, tyErr]
  · clear hfil hextra hloc hbad hall hvals
    have hl2 := hnl hns
    cases hss : s.sstar <;> cases hst : s.star <;> cases hv : cfg.vec <;> cases hu : cfg.kwUsed <;>
      by_cases hl : 0 < c.args.length <;>
      simp_all [mapRes, observe, tyErr]

end CyVerif.C24

import CyVerif.Lemmas.C09Lit
/-! C09 part A: from the filtered token text (`strip_underscores`) to value, by shape. -/
namespace CyVerif.C09

theorem litValue_dec (tok : List Char) (c : Char) (r : List Char)
    (hs : tok.filter (· ≠ '_') = c :: r) (hc : c ≠ '0') :
    litValue tok = positional 10 ((c :: r).map specDigit) := by
  unfold litValue
  simp only [hs]
  split
  · rename_i heq; simp at heq; exact absurd heq.1 hc
  · rfl

theorem litValue_single (tok : List Char) (c : Char) (hs : tok.filter (· ≠ '_') = [c]) :
    litValue tok = positional 10 ([c].map specDigit) := by
  unfold litValue
  simp only [hs]

theorem litValue_lead0 (tok : List Char) (c : Char) (r : List Char)
    (hs : tok.filter (· ≠ '_') = '0' :: c :: r) :
    litValue tok =
      if c = 'x' ∨ c = 'X' then positional 16 (r.map specDigit)
      else if c = 'o' ∨ c = 'O' then positional 8 (r.map specDigit)
      else if c = 'b' ∨ c = 'B' then positional 2 (r.map specDigit)
      else positional 8 (('0' :: c :: r).map specDigit) := by
  unfold litValue
  simp only [hs]

theorem decDigitCount_dec (tok : List Char) (c : Char) (r : List Char)
    (hs : tok.filter (· ≠ '_') = c :: r) (hc : c ≠ '0') : decDigitCount tok = (c :: r).length := by
  unfold decDigitCount
  simp only [hs]
  split
  · rename_i heq; simp at heq; exact absurd heq.1 hc
  · rfl

/-- (A) decimal without leading zero -/
theorem shape_dec (lim : Nat) (tok : List Char) (c : Char) (r : List Char)
    (hs : tok.filter (· ≠ '_') = c :: r) (hc : c ≠ '0') (hall : ∀ x ∈ c :: r, decDigit x = true)
    (hlim : digitsOK lim (decDigitCount tok)) :
    strToNumber lim (stripUnderscores tok) = .ok (litValue tok : Nat) := by
  unfold stripUnderscores
  rw [hs, litValue_dec tok c r hs hc,
    positional_eq_dfold 10 _ (fun x hx => (decDigit_spec (hall x hx)).2)]
  rw [decDigitCount_dec tok c r hs hc] at hlim
  exact s2n_decimal lim c r hc (fun x hx => (decDigit_spec (hall x hx)).1) hlim

/-- (E) the single digit `0` -/
theorem shape_zero (lim : Nat) (tok : List Char) (hs : tok.filter (· ≠ '_') = ['0']) :
    strToNumber lim (stripUnderscores tok) = .ok (litValue tok : Nat) := by
  unfold stripUnderscores
  rw [hs, litValue_single tok '0' hs, s2n_zero]
  decide

/-- (B) hexadecimal -/
theorem shape_hex (lim : Nat) (tok : List Char) (x : Char) (r : List Char)
    (hs : tok.filter (· ≠ '_') = '0' :: x :: r) (hx : x = 'x' ∨ x = 'X') (hne : r ≠ [])
    (hall : ∀ c ∈ r, hexDigit c = true) :
    strToNumber lim (stripUnderscores tok) = .ok (litValue tok : Nat) := by
  unfold stripUnderscores
  rw [hs, litValue_lead0 tok x r hs, if_pos hx,
    positional_eq_dfold 16 _ (fun c hc => (hexDigit_spec (hall c hc)).2)]
  exact s2n_hex lim x r hx hne (fun c hc => (hexDigit_spec (hall c hc)).1)

/-- (C) octal with `0o` -/
theorem shape_oct (lim : Nat) (tok : List Char) (x : Char) (r : List Char)
    (hs : tok.filter (· ≠ '_') = '0' :: x :: r) (hx : x = 'o' ∨ x = 'O') (hne : r ≠ [])
    (hall : ∀ c ∈ r, octDigit c = true) :
    strToNumber lim (stripUnderscores tok) = .ok (litValue tok : Nat) := by
  have h1 : ¬ (x = 'x' ∨ x = 'X') := by rcases hx with rfl | rfl <;> decide
  unfold stripUnderscores
  rw [hs, litValue_lead0 tok x r hs, if_neg h1, if_pos hx,
    positional_eq_dfold 8 _ (fun c hc => (octDigit_spec (hall c hc)).2)]
  exact s2n_oct lim x r hx hne (fun c hc => (octDigit_spec (hall c hc)).1)

/-- (D) binary -/
theorem shape_bin (lim : Nat) (tok : List Char) (x : Char) (r : List Char)
    (hs : tok.filter (· ≠ '_') = '0' :: x :: r) (hx : x = 'b' ∨ x = 'B') (hne : r ≠ [])
    (hall : ∀ c ∈ r, binDigit c = true) :
    strToNumber lim (stripUnderscores tok) = .ok (litValue tok : Nat) := by
  have h1 : ¬ (x = 'x' ∨ x = 'X') := by rcases hx with rfl | rfl <;> decide
  have h2 : ¬ (x = 'o' ∨ x = 'O') := by rcases hx with rfl | rfl <;> decide
  unfold stripUnderscores
  rw [hs, litValue_lead0 tok x r hs, if_neg h1, if_neg h2, if_pos hx,
    positional_eq_dfold 2 _ (fun c hc => (binDigit_spec (hall c hc)).2)]
  exact s2n_bin lim x r hx hne (fun c hc => (binDigit_spec (hall c hc)).1)

/-- (F) `0` followed by octal digits: zeros (Python 3) and legacy octal (Python 2) -/
theorem shape_legacy (lim : Nat) (tok : List Char) (d : Char) (ds : List Char)
    (hs : tok.filter (· ≠ '_') = '0' :: d :: ds)
    (hdec : ∀ c ∈ '0' :: d :: ds, decDigit c = true) (h8 : ∀ c ∈ '0' :: d :: ds, digitValue c < 8) :
    strToNumber lim (stripUnderscores tok) = .ok (litValue tok : Nat) := by
  have hd : digitValue d < 8 := h8 d (by simp)
  have h1 : ¬ (d = 'x' ∨ d = 'X') := by rintro (rfl | rfl) <;> revert hd <;> decide
  have h2 : ¬ (d = 'o' ∨ d = 'O') := by rintro (rfl | rfl) <;> revert hd <;> decide
  have h3 : ¬ (d = 'b' ∨ d = 'B') := by rintro (rfl | rfl) <;> revert hd <;> decide
  unfold stripUnderscores
  rw [hs, litValue_lead0 tok d ds hs, if_neg h1, if_neg h2, if_neg h3,
    positional_eq_dfold 8 _ (fun c hc => (decDigit_spec (hdec c hc)).2)]
  exact s2n_legacy lim d ds h8

end CyVerif.C09

import CyVerif.Lemmas.C30Errs
/-! C30: the agreement theorem between the Cython model and the CPython model. -/
namespace CyVerif.C30

theorem nodupStr_and {a b c d e : Bool} (h : (a && b && c && d && e) = true) :
    a = true ∧ b = true ∧ c = true ∧ d = true ∧ e = true := by
  simp only [Bool.and_eq_true] at h
  obtain ⟨⟨⟨⟨h1, h2⟩, h3⟩, h4⟩, h5⟩ := h
  exact ⟨h1, h2, h3, h4, h5⟩

theorem fields_agree (p : Params) (hp : p.WF) (v : Var) (s : ClassSpec) (hs : s.wf = true)
    (h : Hyp v s = true) (hb : s.fields.any (·.dflt == .both) = false) :
    cyFields p v s (s.opts.resolve p.optD) = pyFields s (s.opts.resolve pyOptD) ∧
    (v.fieldKwOnly = true ∨
      ∀ f ∈ pyFields s (s.opts.resolve pyOptD), f.kwOnly = (s.opts.resolve pyOptD).kwOnly) ∧
    pyFields s (s.opts.resolve pyOptD) =
      s.baseFields ++ pyOwn pyFldD s.baseFields (s.opts.resolve pyOptD).kwOnly s.fields := by
  obtain ⟨_, hO, hF⟩ := hp
  obtain ⟨_, hnd, _, _, _⟩ := nodupStr_and hs
  simp only [Hyp, Bool.and_eq_true] at h
  obtain ⟨⟨⟨⟨⟨⟨⟨⟨⟨⟨⟨h2, h8⟩, _⟩, h1⟩, _⟩, _⟩, _⟩, _⟩, _⟩, _⟩, _⟩, _⟩ := h
  have h2' : ∀ f ∈ s.fields, f.kind ≠ .kwSentinel := by
    intro f hf hk
    have := List.all_eq_true.mp h2 f hf
    rw [hk] at this; cases this
  have h8' : ∀ f ∈ s.fields, f.kind = .classvar ∨ (names s.baseFields).contains f.name = false := by
    intro f hf
    have := List.all_eq_true.mp h8 f hf
    simp only [Bool.or_eq_true, beq_iff_eq, Bool.not_eq_true'] at this
    exact this
  have hb' : ∀ f ∈ s.fields, f.dflt ≠ .both := by
    intro f hf hd
    have := List.any_eq_false.mp hb f hf
    rw [hd] at this; exact this rfl
  have h1' : v.fieldKwOnly = true ∨ ((∀ f ∈ s.fields, f.kwOnly = none) ∧
      ∀ g ∈ s.baseFields, g.kwOnly = (s.opts.resolve pyOptD).kwOnly) := by
    simp only [Bool.or_eq_true, Bool.and_eq_true] at h1
    cases h1 with
    | inl h => exact Or.inl h
    | inr h =>
      refine Or.inr ⟨fun f hf => ?_, fun g hg => ?_⟩
      · have := List.all_eq_true.mp h.1 f hf
        exact Option.isNone_iff_eq_none.mp this
      · have := List.all_eq_true.mp h.2 g hg
        exact beq_iff_eq.mp this
  have happ := pyFields_eq_append s (s.opts.resolve pyOptD) hnd h8'
  refine ⟨?_, ?_, happ⟩
  · rw [happ]
    unfold cyFields
    rw [hO, hF, cyOwn_eq_pyOwn v pyFldD s.baseFields _ s.fields h2' hb' h8' (h1'.imp id (·.1))]
  · cases h1' with
    | inl h => exact Or.inl h
    | inr h =>
      refine Or.inr ?_
      intro f hf
      rw [happ] at hf
      cases List.mem_append.mp hf with
      | inl hf => exact h.2 f hf
      | inr hf => exact pyOwn_kw h2' h.1 hf

theorem out_agree (p : Params) (hp : p.WF) (v : Var) (s : ClassSpec) (hs : s.wf = true)
    (h : Hyp v s = true) (hb : s.fields.any (·.dflt == .both) = false) :
    cyOut p v s = pyOut s := by
  obtain ⟨hFe, hkw, happ⟩ := fields_agree p hp v s hs h hb
  obtain ⟨hT, hO, _⟩ := hp
  obtain ⟨_, _, hnb, _, _⟩ := nodupStr_and hs
  rw [hO] at hFe
  simp only [Hyp, Bool.and_eq_true] at h
  obtain ⟨⟨⟨⟨⟨⟨⟨⟨⟨⟨⟨_, h8⟩, _⟩, _⟩, _⟩, _⟩, _⟩, _⟩, h7⟩, _⟩, h10⟩, h13⟩ := h
  have h8' : ∀ f ∈ s.fields, f.kind = .classvar ∨ (names s.baseFields).contains f.name = false := by
    intro f hf
    have := List.all_eq_true.mp h8 f hf
    simp only [Bool.or_eq_true, beq_iff_eq, Bool.not_eq_true'] at this
    exact this
  -- body sources
  have hbody : (pyFields s (s.opts.resolve pyOptD)).map (fun f => (f.name, pySrc s.baseFields f)) =
      (pyFields s (s.opts.resolve pyOptD)).map (fun f => (f.name, f.src)) := by
    rw [happ]
    apply body_eq _ _ hnb
    intro g hg
    obtain ⟨f, hf, hfn, hk⟩ := mem_pyOwn_name hg
    cases h8' f hf with
    | inl h => exact absurd h hk
    | inr h => rw [← hfn]; exact h
  -- hash
  have hhash : hashState (cyHashAct p (s.opts.resolve pyOptD) s.user) s.user
        (cyHashNames v (pyFields s (s.opts.resolve pyOptD))) =
      hashState (pyHashAction (s.opts.resolve pyOptD).unsafeHash (s.opts.resolve pyOptD).eq
        (s.opts.resolve pyOptD).frozen (pyExplicitHash s.user)) s.user
        (hashNames (pyFields s (s.opts.resolve pyOptD))) := by
    rw [cyHashAct_eq p hT]
    have ha := hashAct_agree (s.opts.resolve pyOptD).unsafeHash (s.opts.resolve pyOptD).eq
      (s.opts.resolve pyOptD).frozen s.user.hash s.user.eq h10
      (cyHashNames v (pyFields s (s.opts.resolve pyOptD))) s.user rfl rfl
    rw [ha.1]
    apply hashState_names
    intro hadd
    apply cyHashNames_eq
    simp only [Bool.or_eq_true, Bool.not_eq_true', beq_eq_false_iff_ne, ne_eq] at h13
    rcases h13 with (h13 | h13) | h13
    · exact Or.inl h13
    · exact absurd hadd h13
    · refine Or.inr (fun f hf => ?_)
      have := List.all_eq_true.mp h13 f hf
      simp only [Bool.or_eq_true] at this
      rcases this with (a | b) | c
      · exact Or.inl a
      · exact Or.inr (Or.inl b)
      · exact Or.inr (Or.inr c)
  -- match args
  have hmatch : (if ((s.opts.resolve pyOptD).matchArgs && !s.user.matchArgs) = true
        then some (cyMatchArgs v (s.opts.resolve pyOptD) (pyFields s (s.opts.resolve pyOptD))) else none) =
      (if ((s.opts.resolve pyOptD).matchArgs && !s.user.matchArgs) = true
        then some (names (pyStd (pyFields s (s.opts.resolve pyOptD)))) else none) := by
    cases hg : ((s.opts.resolve pyOptD).matchArgs && !s.user.matchArgs) with
    | false => rfl
    | true =>
      simp only [if_true]
      rw [cyMatchArgs_eq v _ _ hkw]
      simp only [hg, Bool.or_eq_true, Bool.not_true, Bool.false_eq_true, or_false] at h7
      cases h7 with
      | inl h7 => exact Or.inl h7
      | inr h7 =>
        refine Or.inr (fun f hf => ?_)
        have := List.all_eq_true.mp h7 f hf
        simpa using this
  unfold cyOut pyOut
  simp only [hO, hFe, cyParams_eq v _ _ hkw, hbody, hhash, hmatch]

end CyVerif.C30

import CyVerif.Lemmas.C15Crop
/-! # C15 — slice-bound coercion (`SliceIndexNode.analyse_types`, `get_slice_config`) -/
namespace CyVerif.C15

variable {α : Type}

/-- the bound's value is a `Py_ssize_t` (always true for absent/None bounds, for signed C types not wider
than `Py_ssize_t` and for unsigned C types narrower than it) -/
def Bound.fits (sw : Nat) : Bound → Prop
  | .absent => True
  | .pyNone => True
  | .c _ _ v => inSS sw v = true
  | .pyInt v => inSS sw v = true

/-- only the C-typed bounds have to fit (Python ints are passed through unchanged to a slice object) -/
def Bound.cfits (sw : Nat) : Bound → Prop
  | .c _ _ v => inSS sw v = true
  | _ => True

instance (sw : Nat) (b : Bound) : Decidable (b.fits sw) := by cases b <;> unfold Bound.fits <;> infer_instance
instance (sw : Nat) (b : Bound) : Decidable (b.cfits sw) := by cases b <;> unfold Bound.cfits <;> infer_instance

/-- the `Py_ssize_t` the generated code passes for a bound -/
def Bound.cval (sw : Nat) (isStop : Bool) : Bound → Int
  | .absent => if isStop then ssMax sw else 0
  | .pyNone => if isStop then ssMax sw else 0
  | .c _ _ v => v
  | .pyInt v => v

theorem inSS_zero (sw : Nat) : inSS sw 0 = true := by
  rw [inSS_iff]; have := two_pow_pos (sw - 1); unfold ssMin ssMax; omega

theorem inSS_ssMax (sw : Nat) : inSS sw (ssMax sw) = true := by
  rw [inSS_iff]; have := two_pow_pos (sw - 1); unfold ssMin ssMax; omega

theorem coerceBound_fits {sw : Nat} (hsw : 0 < sw) {b : Bound} (hf : b.fits sw) (isStop : Bool) :
    coerceBound sw isStop b = .ok (b.cval sw isStop) ∧ inSS sw (b.cval sw isStop) = true := by
  cases b
  case absent => cases isStop <;> simp [coerceBound, Bound.cval, inSS_zero, inSS_ssMax]
  case pyNone => cases isStop <;> simp [coerceBound, Bound.cval, inSS_zero, inSS_ssMax]
  case c w s v =>
    simp only [Bound.fits] at hf
    simp [coerceBound, Bound.cval, castSS_id hsw hf, hf]
  case pyInt v =>
    simp only [Bound.fits] at hf
    simp [coerceBound, Bound.cval, hf]

theorem unpackStart_cval {sw : Nat} {len : Nat} (b : Bound) :
    unpackStart len 1 (some (b.cval sw false)) = unpackStart len 1 b.value := by
  cases b <;> simp [Bound.cval, Bound.value, unpackStart, adjBound_one] <;> omega

theorem unpackStop_cval {sw : Nat} {len : Nat} (hn : (len : Int) ≤ ssMax sw) (b : Bound) :
    unpackStop len 1 (some (b.cval sw true)) = unpackStop len 1 b.value := by
  have h0 := ssMax_nonneg sw
  cases b <;> simp [Bound.cval, Bound.value, unpackStop, adjBound_one]
  · have h1 : ¬ ssMax sw < 0 := by omega
    simp [h1]; omega
  · have h1 : ¬ ssMax sw < 0 := by omega
    simp [h1]; omega

theorem pySlice_congr (l : List α) {a a' b b' : Option Int}
    (ha : unpackStart l.length 1 a = unpackStart l.length 1 a')
    (hb : unpackStop l.length 1 b = unpackStop l.length 1 b') :
    pySlice l a b none = pySlice l a' b' none := by
  rw [pySlice_step1, pySlice_step1, ha, hb]

theorem pySetSlice_congr (l : List α) {a a' b b' : Option Int} (vs : List α)
    (ha : unpackStart l.length 1 a = unpackStart l.length 1 a')
    (hb : unpackStop l.length 1 b = unpackStop l.length 1 b') :
    pySetSlice l a b vs = pySetSlice l a' b' vs := by
  simp only [pySetSlice, ha, hb]

theorem objBound_cfits {sw : Nat} (hsw : 0 < sw) {b : Bound} (hf : b.cfits sw) : objBound sw b = b.value := by
  cases b
  case c w s v =>
    simp only [Bound.cfits] at hf
    simp [objBound, Bound.value, castSS_id hsw hf]
  all_goals rfl

end CyVerif.C15

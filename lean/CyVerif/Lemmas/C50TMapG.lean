import CyVerif.Lemmas.C50TMapF
/-! TransitionMap, part G: `items()`. -/
namespace CyVerif.C50

theorem mem_rangeItems (es : Bool) (l : List (Int × SSet)) (last : Int) (ev : Ev) (S : SSet) :
    (ev, S) ∈ rangeItems es l last ↔
      ∃ k, ∃ hk : k < l.length,
        ev = .range l[k].1 (match l[k + 1]? with | some e => e.1 | none => last) ∧ S = l[k].2 ∧ (S ≠ [] ∨ es = true) := by
  induction l with
  | nil => simp [rangeItems]
  | cons e rest ih =>
    obtain ⟨c, s⟩ := e
    simp only [rangeItems, List.mem_append, ih]
    constructor
    · rintro (h | ⟨k, hk, h1, h2, h3⟩)
      · split at h
        · rename_i hcond
          simp only [List.mem_singleton, Prod.mk.injEq] at h
          refine ⟨0, by simp, ?_, by simp [h.2], ?_⟩
          · rw [h.1]
            cases rest <;> simp
          · rw [h.2]; simpa using hcond
        · cases h
      · exact ⟨k + 1, by simp; omega, by simpa using h1, by simpa using h2, h3⟩
    · rintro ⟨k, hk, h1, h2, h3⟩
      cases k with
      | zero =>
        left
        simp only [List.getElem_cons_zero] at h1 h2
        subst h2
        have : (S ≠ [] ∨ es = true) := h3
        simp only [this, if_true, List.mem_singleton, Prod.mk.injEq, and_true]
        rw [h1]
        cases rest <;> simp
      | succ k =>
        right
        exact ⟨k, by simpa using hk, by simpa using h1, by simpa using h2, h3⟩

/-- every character-range item of `items()` is an interval of the map with its set -/
theorem TMap.items_range (m : TMap) (ev : Ev) (S : SSet) :
    (∃ c0 c1, ev = .range c0 c1) → ((ev, S) ∈ m.items ↔
      ∃ k, k < m.ents.length ∧ ev = .range (m.codeAt k) (m.codeAt (k + 1)) ∧ S = m.setAt k ∧
        (S ≠ [] ∨ m.setAt 0 ≠ [])) := by
  rintro ⟨c0, c1, rfl⟩
  unfold TMap.items
  simp only [List.mem_append, List.mem_map, Prod.mk.injEq, reduceCtorEq, false_and, and_false, exists_false, or_false]
  rw [mem_rangeItems]
  constructor
  · rintro ⟨k, hk, h1, h2, h3⟩
    refine ⟨k, hk, ?_, ?_, ?_⟩
    · rw [h1, m.codeAt_of_lt hk]; simp only [TMap.codeAt]; rfl
    · rw [h2, m.setAt_of_lt hk]
    · simpa using h3
  · rintro ⟨k, hk, h1, h2, h3⟩
    refine ⟨k, hk, ?_, ?_, ?_⟩
    · rw [h1, m.codeAt_of_lt hk]; simp only [TMap.codeAt]; rfl
    · rw [h2, m.setAt_of_lt hk]
    · simpa using h3

theorem mem_getSpecial {sp : List (Sp × SSet)} (h : (sp.map (·.1)).Nodup) (k : Sp) (S : SSet) :
    (k, S) ∈ sp ↔ getSpecial sp k = some S := by
  induction sp with
  | nil => simp [getSpecial]
  | cons q qs ih =>
    obtain ⟨a, s⟩ := q
    simp only [List.map_cons, List.nodup_cons] at h
    simp only [getSpecial, List.mem_cons, Prod.mk.injEq]
    by_cases hak : a = k
    · subst hak
      simp only [if_true, Option.some.injEq, true_and]
      constructor
      · rintro (h' | h')
        · exact h'.symm
        · exact absurd (List.mem_map.2 ⟨(a, S), h', rfl⟩) h.1
      · intro h'; left; exact h'.symm
    · have : ¬ k = a := fun e => hak e.symm
      simp only [hak, if_false, this, false_and, false_or]
      exact ih h.2

/-- the special part of `items()`: exactly the non-empty entries of `special` -/
theorem TMap.items_sp (m : TMap) (h : m.WF) (k : Sp) (S : SSet) :
    (Ev.sp k, S) ∈ m.items ↔ S ≠ [] ∧ getSpecial m.special k = some S := by
  unfold TMap.items
  simp only [List.mem_append, List.mem_map, List.mem_filter, Prod.mk.injEq, Ev.sp.injEq]
  have hno : (Ev.sp k, S) ∉ rangeItems (m.setAt 0 ≠ []) m.ents m.last := by
    intro hmem
    obtain ⟨_, _, h1, _⟩ := (mem_rangeItems _ _ _ _ _).1 hmem
    cases h1
  simp only [hno, false_or]
  rw [← mem_getSpecial h.spKeys]
  constructor
  · rintro ⟨p, ⟨hp, hne⟩, hk, hs⟩
    obtain ⟨a, b⟩ := p
    simp only at hk hs
    subst hk hs
    exact ⟨by simpa using hne, hp⟩
  · rintro ⟨hne, hp⟩
    exact ⟨(k, S), ⟨hp, by simpa using hne⟩, rfl, rfl⟩

end CyVerif.C50

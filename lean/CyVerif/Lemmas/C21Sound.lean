import CyVerif.Lemmas.C21Base
/-! Soundness of the C21 checker: the invariant carried along a walk. -/
namespace CyVerif.C21

/-- what `wf` gives, as propositions -/
structure WF (g : Graph) (fl : Flags) : Prop where
  var_lt : ∀ e ∈ g.allEv, e.var < g.nvars
  node_lt : ∀ e ∈ g.allEv, e.node < fl.length
  assign_ne : ∀ w d n, Ev.assign w d n ∈ g.allEv → d ≠ g.ub w
  disj : ∀ v w, v < g.nvars → w < g.nvars → v ≠ w → ∀ x ∈ g.mask v, x ∉ g.mask w

theorem wfg_of {g : Graph} {nn : Nat} (h : wfg g nn = true) :
    (∀ e ∈ g.allEv, e.var < g.nvars) ∧ (∀ e ∈ g.allEv, e.node < nn) ∧
    (∀ w d n, Ev.assign w d n ∈ g.allEv → d ≠ g.ub w) ∧
    (∀ v w, v < g.nvars → w < g.nvars → v ≠ w → ∀ x ∈ g.mask v, x ∉ g.mask w) ∧
    (∀ p c, (p, c) ∈ g.edges → p < g.blocks.length ∧ c < g.blocks.length) ∧
    g.entry < g.blocks.length := by
  simp only [wfg, Bool.and_eq_true, List.all_eq_true, decide_eq_true_eq, List.mem_range,
    Bool.or_eq_true, beq_iff_eq, Bool.not_eq_true', List.contains_eq_mem, decide_eq_false_iff_not] at h
  obtain ⟨⟨⟨⟨⟨_, h1⟩, h2⟩, h3⟩, h4⟩, h5⟩ := h
  refine ⟨fun e he => (h1 e he).1, fun e he => (h1 e he).2, ?_, ?_, fun p c hpc => h4 (p, c) hpc, h5⟩
  · intro w d n he
    have := h2 _ he
    simpa using this
  · intro v w hv hw hne x hx
    rcases h3 v hv w hw with h | h
    · exact absurd h hne
    · exact h x hx

theorem wf_of {g : Graph} {sol : Sol} {fl : Flags} (h : wf g sol fl = true) : WF g fl := by
  simp only [wf, Bool.and_eq_true] at h
  obtain ⟨h1, h2, h3, h4, _, _⟩ := wfg_of h.1.1
  exact ⟨h1, h2, h3, h4⟩

/-- Running the stats of a block keeps "the live definition of `v` is in the state". -/
theorem run_last {g : Graph} {fl : Flags} (hwf : WF g fl) {v : Nat} (hv : v < g.nvars)
    (evs : List Ev) (hev : ∀ e ∈ evs, e ∈ g.allEv) (s : List Nat) (d : Nat)
    (hm : d ∈ g.mask v) (hs : d ∈ s) : lastFrom g v d evs ∈ run g s evs := by
  induction evs generalizing s d with
  | nil => exact hs
  | cons e es ih =>
    have hes : ∀ e ∈ es, e ∈ g.allEv := fun x hx => hev x (List.mem_cons_of_mem _ hx)
    have he := hev e List.mem_cons_self
    have hlt := hwf.var_lt e he
    cases e with
    | assign w d' n =>
      simp only [lastFrom, run, step]
      by_cases hw : w = v
      · subst hw
        simp only [if_true]
        exact ih hes _ _ (bit_mem_mask (e := .assign w d' n) he rfl) List.mem_cons_self
      · simp only [hw, if_false]
        refine ih hes _ _ hm (List.mem_cons_of_mem _ (mem_kill.mpr ⟨hs, ?_⟩))
        exact hwf.disj v w hv hlt (Ne.symm hw) d hm
    | del w d' n =>
      simp only [lastFrom, run, step]
      by_cases hw : w = v
      · subst hw
        simp only [if_true]
        exact ih hes _ _ (ub_mem_mask g w) List.mem_cons_self
      · simp only [hw, if_false]
        refine ih hes _ _ hm (List.mem_cons_of_mem _ (mem_kill.mpr ⟨hs, ?_⟩))
        exact hwf.disj v w hv hlt (Ne.symm hw) d hm
    | read w n =>
      simp only [lastFrom, run, step]
      exact ih hes _ _ hm hs

/-- the flag check of the `k`-th stat was made against the state reached after `k` stats -/
theorem flagsOk_at {g : Graph} {fl : Flags} (evs : List Ev) (s : List Nat)
    (h : flagsOk g fl s evs = true) (k : Nat) (e : Ev) (hk : evs[k]? = some e) :
    evOk g fl (run g s (evs.take k)) e = true := by
  induction evs generalizing s k with
  | nil => simp at hk
  | cons x xs ih =>
    simp only [flagsOk, Bool.and_eq_true] at h
    cases k with
    | zero =>
      simp only [List.getElem?_cons_zero, Option.some.injEq] at hk
      subst hk
      simpa [run] using h.1
    | succ k =>
      simp only [List.getElem?_cons_succ] at hk
      simpa [run] using ih _ h.2 k hk

theorem ubit_mem {g : Graph} {v : Nat} (hv : v < g.nvars) : g.ub v ∈ g.ubit := by
  unfold Graph.ub
  rw [List.getD_eq_getElem?_getD, List.getElem?_eq_getElem (by simpa [Graph.nvars] using hv)]
  exact List.getElem_mem _

/-- components of `validate` -/
structure Valid (g : Graph) (sol : Sol) (fl : Flags) : Prop where
  wf : WF g fl
  entry_empty : g.ev g.entry = []
  entry_noin : ∀ p c, (p, c) ∈ g.edges → c ≠ g.entry
  entry_out : ∀ x ∈ g.ubit, x ∈ sol.o g.entry
  edge : ∀ p c, (p, c) ∈ g.edges → ∀ x ∈ sol.o p, x ∈ sol.i c
  edge_lt : ∀ p c, (p, c) ∈ g.edges → p < g.blocks.length
  flags : ∀ b, b < g.blocks.length → b ≠ g.entry → flagsOk g fl (sol.i b) (g.ev b) = true
  trans : ∀ b, b < g.blocks.length → b ≠ g.entry → ∀ x ∈ run g (sol.i b) (g.ev b), x ∈ sol.o b

theorem valid_of {g : Graph} {sol : Sol} {fl : Flags} (h : validate g sol fl = true) :
    Valid g sol fl := by
  unfold validate at h
  simp only [Bool.and_eq_true] at h
  obtain ⟨⟨⟨⟨⟨hwf, h1⟩, h2⟩, h3⟩, h4⟩, h5⟩ := h
  have hw := wf_of hwf
  simp only [List.all_eq_true, bne_iff_ne, ne_eq, Prod.forall] at h2
  simp only [List.all_eq_true, Prod.forall, sub_iff] at h4
  simp only [List.all_eq_true, List.mem_range, Bool.or_eq_true, beq_iff_eq, Bool.and_eq_true, sub_iff] at h5
  have hlt : ∀ p c, (p, c) ∈ g.edges → p < g.blocks.length := by
    intro p c hpc
    simp only [wf, Bool.and_eq_true] at hwf
    exact ((wfg_of hwf.1.1).2.2.2.2.1 p c hpc).1
  refine ⟨hw, by simpa using h1, h2, sub_iff.mp h3, h4, hlt, ?_, ?_⟩
  · intro b hb hne
    rcases h5 b hb with h | h
    · exact absurd h hne
    · exact h.1
  · intro b hb hne
    rcases h5 b hb with h | h
    · exact absurd h hne
    · exact h.2

/-- Invariant at block entry along a walk. -/
theorem reach_inv {g : Graph} {sol : Sol} {fl : Flags} (hv : Valid g sol fl) {b : Nat} {tr : List Ev}
    (hr : Reach g b tr) :
    (∀ e ∈ tr, e ∈ g.allEv) ∧ (b = g.entry → tr = []) ∧
    (b ≠ g.entry → ∀ v, v < g.nvars → last g v tr ∈ sol.i b) := by
  induction hr with
  | entry => exact ⟨by simp, fun _ => rfl, fun h => absurd rfl h⟩
  | @step b c tr hr hbc ih =>
    obtain ⟨ih1, ih2, ih3⟩ := ih
    have hce := hv.entry_noin b c hbc
    have hall : ∀ e ∈ tr ++ g.ev b, e ∈ g.allEv := by
      intro e he
      rcases List.mem_append.mp he with h | h
      · exact ih1 e h
      · exact ev_sub_allEv h
    refine ⟨hall, fun h => absurd h hce, fun _ v hvn => ?_⟩
    apply hv.edge b c hbc
    by_cases hbe : b = g.entry
    · have htr := ih2 hbe
      subst htr
      have hee : g.ev b = [] := hbe ▸ hv.entry_empty
      rw [hee]
      simp only [List.append_nil, last, lastFrom]
      rw [hbe]
      exact hv.entry_out _ (ubit_mem hvn)
    · have hin := ih3 hbe v hvn
      unfold last
      rw [lastFrom_append]
      apply hv.trans b (hv.edge_lt b c hbc) hbe
      exact run_last hv.wf hvn (g.ev b) (fun e he => ev_sub_allEv he) _ _
        (lastFrom_mem_mask ih1 (ub_mem_mask g v)) hin

end CyVerif.C21

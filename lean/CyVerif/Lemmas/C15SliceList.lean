import CyVerif.Lemmas.C15Slice
/-! # C15 — `gather`, `progression`, `readRange` and the step-1 form of `pySlice` -/
namespace CyVerif.C15

variable {α : Type}

theorem progression_succ (a step : Int) (n : Nat) :
    progression a step (n + 1) = progression a step n ++ [a + (n : Int) * step] := by
  simp [progression, List.range_succ]

theorem mem_progression {a step x : Int} {n : Nat} :
    x ∈ progression a step n ↔ ∃ i : Nat, i < n ∧ x = a + (i : Int) * step := by
  simp only [progression, List.mem_map, List.mem_range]
  constructor
  · rintro ⟨i, hi, rfl⟩; exact ⟨i, hi, rfl⟩
  · rintro ⟨i, hi, rfl⟩; exact ⟨i, hi, rfl⟩

theorem gather_append (l : List α) (xs ys : List Int) : gather l (xs ++ ys) = gather l xs ++ gather l ys := by
  simp [gather, List.filterMap_append]

/-- nothing is dropped by `gather` when all positions are inside the list -/
theorem gather_length {l : List α} {idx : List Int} (h : ∀ x ∈ idx, 0 ≤ x ∧ x < l.length) :
    (gather l idx).length = idx.length := by
  induction idx with
  | nil => rfl
  | cons x xs ih =>
    have hx := h x (List.mem_cons_self)
    have hk : x.toNat < l.length := by omega
    have ih' := ih (fun y hy => h y (List.mem_cons_of_mem _ hy))
    simp only [gather, List.filterMap_cons, hx.1, if_true, List.getElem?_eq_getElem hk] at ih' ⊢
    simp [ih']

/-- consecutive positions: `gather` is `drop`/`take` -/
theorem gather_consecutive {l : List α} {a : Nat} {n : Nat} (h : a + n ≤ l.length) :
    gather l (progression (a : Int) 1 n) = (l.drop a).take n := by
  induction n with
  | zero => simp [progression, gather]
  | succ n ih =>
    have hlt : a + n < l.length := by omega
    rw [progression_succ, gather_append, ih (by omega), List.take_add_one]
    congr 1
    have h0 : (0 : Int) ≤ (a : Int) + (n : Int) := by omega
    have ht : ((a : Int) + (n : Int)).toNat = a + n := by omega
    simp [gather, h0, ht, List.getElem?_drop, List.getElem?_eq_getElem hlt]

theorem readArr_ok {l : List α} {k : Int} (h0 : 0 ≤ k) (h1 : k < l.length) :
    readArr l k = .ok (l[k.toNat]'(by omega)) := by
  have hk : k.toNat < l.length := by omega
  simp [readArr, h0, List.getElem?_eq_getElem hk]

/-- the copy loop reads exactly `l[s .. s+n)` when that range is inside the array -/
theorem readRange_ok {l : List α} {n : Nat} : ∀ {s : Int}, 0 ≤ s → s + n ≤ l.length →
    readRange l s n = .ok ((l.drop s.toNat).take n) := by
  induction n with
  | zero => intro s _ _; simp [readRange]
  | succ n ih =>
    intro s h0 h1
    have hk : s.toNat < l.length := by omega
    have hs1 : (s + 1).toNat = s.toNat + 1 := by omega
    rw [readRange, readArr_ok h0 (by omega)]
    simp only [Out.bind]
    rw [ih (s := s + 1) (by omega) (by omega)]
    rw [List.drop_eq_getElem_cons hk, List.take_succ_cons, hs1]

/-- `o[a:b]` (no step): the `drop`/`take` form over the adjusted bounds -/
theorem pySlice_step1 (l : List α) (a b : Option Int) :
    pySlice l a b none = .ok ((l.drop (unpackStart l.length 1 a).toNat).take
      (unpackStop l.length 1 b - unpackStart l.length 1 a).toNat) := by
  have hA : 0 ≤ unpackStart l.length 1 a ∧ unpackStart l.length 1 a ≤ l.length := by
    cases a
    · simp [unpackStart]
    · exact adjBound_pos_range (by omega) (by omega)
  have hB : 0 ≤ unpackStop l.length 1 b ∧ unpackStop l.length 1 b ≤ l.length := by
    cases b
    · simp [unpackStop]
    · exact adjBound_pos_range (by omega) (by omega)
  have h1 : (1 : Int) ≠ 0 := by omega
  simp only [pySlice, Option.getD_none, h1, if_false, pySliceIdx, sliceLen_one]
  generalize unpackStart l.length 1 a = A at hA
  generalize unpackStop l.length 1 b = B at hB
  congr 1
  have hn : (if A < B then B - A else 0).toNat = (B - A).toNat := by split <;> omega
  rw [hn]
  have := gather_consecutive (l := l) (a := A.toNat) (n := (B - A).toNat) (by omega)
  rw [Int.toNat_of_nonneg hA.1] at this
  exact this

end CyVerif.C15

import CyVerif.Model.C20Rw
/-! Lemmas for the parallel-assignment flattening. -/
namespace CyVerif.C20

def LT.noStar : LT → Bool
  | .leaf _ => true
  | .snil => true
  | .scons s h tl => !s && h.noStar && tl.noStar
  | .seq b => b.noStar

theorem evalRhss_append (c : Cfg) (τ : Val → Bool) (σ : Store) (a b : List (LT × Expr)) :
    evalRhss c τ σ (a ++ b) =
      ((evalRhss c τ σ a).1 ++ (evalRhss c τ σ b).1, (evalRhss c τ σ a).2 ++ (evalRhss c τ σ b).2) := by
  induction a with
  | nil => simp [evalRhss]
  | cons p ps ih => obtain ⟨l, e⟩ := p; simp [evalRhss, ih, List.append_assoc]

theorem assignPairs_append (c : Cfg) (τ : Val → Bool) (a b : List (LT × Val)) (σ : Store) :
    assignPairs c τ (a ++ b) σ =
      ((assignPairs c τ a σ).1 ++ (assignPairs c τ b (assignPairs c τ a σ).2).1,
       (assignPairs c τ b (assignPairs c τ a σ).2).2) := by
  induction a generalizing σ with
  | nil => simp [assignPairs]
  | cons p ps ih => obtain ⟨l, v⟩ := p; simp [assignPairs, ih, List.append_assoc]

theorem eval_acons_plain (c : Cfg) (τ : Val → Bool) (σ : Store) (a rest : Expr) (h : isStarArg a = false) :
    eval c τ σ (.acons a rest) =
      ((eval c τ σ a).1 ++ (eval c τ σ rest).1, .cons (eval c τ σ a).2 (eval c τ σ rest).2) := by
  cases a <;> simp_all [eval, isStarArg]

/-- Flattening of one star-free target tree against its right-hand side: the right-hand sides of the
emitted assignments log what the original right-hand side logs, and storing them pairwise equals
unpacking the original value. -/
theorem flat_nostar (fs : Bool) (c : Cfg) (τ : Val → Bool) (lt : LT) :
    ∀ (r : Expr) (stats : List (LT × Expr)) (σ : Store), flat fs lt r = some stats → lt.noStar = true →
      (evalRhss c τ σ stats).1 = (eval c τ σ r).1 ∧
      ∀ σ', assignPairs c τ (evalRhss c τ σ stats).2 σ' = assignLT c τ lt σ' (eval c τ σ r).2 := by
  induction lt with
  | leaf t =>
    intro r stats σ hf _
    simp [flat] at hf; subst hf
    simp [evalRhss, assignPairs, assignLT]
  | snil =>
    intro r stats σ hf _
    cases r <;> simp [flat] at hf
    subst hf
    simp [evalRhss, assignPairs, assignLT, eval]
  | scons s h tl ihh iht =>
    intro r stats σ hf hn
    simp [LT.noStar] at hn
    obtain ⟨⟨hs, hnh⟩, hnt⟩ := hn
    subst hs
    cases r with
    | acons a rest =>
      simp only [flat] at hf
      by_cases hst : isStarArg a = true
      · simp [hst] at hf
      · simp only [hst] at hf
        cases h1 : flat fs h a with
        | none => simp [h1] at hf
        | some l1 =>
          cases h2 : flat fs tl rest with
          | none => simp [h1, h2] at hf
          | some l2 =>
            simp [h1, h2] at hf; subst hf
            obtain ⟨e1, a1⟩ := ihh a l1 σ h1 hnh
            obtain ⟨e2, a2⟩ := iht rest l2 σ h2 hnt
            have hp := eval_acons_plain c τ σ a rest (by simpa using hst)
            constructor
            · simp [evalRhss_append, e1, e2, hp]
            · intro σ'
              simp [evalRhss_append, assignPairs_append, a1, a2, hp, assignLT, Val.head, Val.tail]
    | _ => simp [flat] at hf
  | seq body ih =>
    intro r stats σ hf hn
    simp [LT.noStar] at hn
    cases r with
    | tuple args =>
      simp only [flat] at hf
      obtain ⟨e1, a1⟩ := ih args stats σ hf hn
      exact ⟨by simp [e1, eval], fun σ' => by simp [a1, eval, assignLT, elemsOf]⟩
    | list args =>
      simp only [flat] at hf
      obtain ⟨e1, a1⟩ := ih args stats σ hf hn
      exact ⟨by simp [e1, eval], fun σ' => by simp [a1, eval, assignLT, elemsOf]⟩
    | _ =>
      simp [flat] at hf; subst hf
      simp [evalRhss, assignPairs]

end CyVerif.C20

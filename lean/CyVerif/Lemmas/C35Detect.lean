import CyVerif.Lemmas.C35Net
/-! Completeness corollaries: one dropped or duplicated ownership event is always reported. -/
namespace CyVerif.C35

theorem regs_append (xs ys : List NEv) (o : Nat) : regs (xs ++ ys) o = regs xs o + regs ys o := by
  simp [regs]
theorem dels_append (xs ys : List NEv) (o : Nat) : dels (xs ++ ys) o = dels xs o + dels ys o := by
  simp [dels]

/-- an event that releases (`GIVEREF`/`DECREF`) or registers (`GOTREF`/`INCREF`) a non-NULL object -/
def NEv.touches (e : NEv) (o : Nat) : Prop := (∃ d, e.kind = .del (some o) d) ∨ e.kind = .reg (some o)

theorem touches_counts {e : NEv} {o : Nat} (h : e.touches o) : e.regOf o ≠ e.delOf o := by
  rcases h with ⟨d, h⟩ | h <;> simp [NEv.regOf, NEv.delOf, h]

/-- leak / missing registration: dropping one ownership event from a balanced stream is reported -/
theorem dropped_event_reported {xs ys : List NEv} {e : NEv} {o : Nat} (he : e.touches o)
    (h : Balanced (xs ++ e :: ys)) : report (xs ++ ys) ≠ [] := by
  intro hr
  have h1 := ((balanced_iff _).mp h).2.2 o
  have h2 := ((balanced_iff _).mp ((report_nil_iff _).mp hr)).2.2 o
  simp only [regs_append, dels_append, regs_cons, dels_cons] at h1 h2
  have := touches_counts he
  omega

/-- double release / double registration: one extra ownership event in a balanced stream is reported -/
theorem extra_event_reported {xs ys : List NEv} {e : NEv} {o : Nat} (he : e.touches o)
    (h : Balanced (xs ++ ys)) : report (xs ++ e :: ys) ≠ [] := by
  intro hr
  have h1 := ((balanced_iff _).mp h).2.2 o
  have h2 := ((balanced_iff _).mp ((report_nil_iff _).mp hr)).2.2 o
  simp only [regs_append, dels_append, regs_cons, dels_cons] at h1 h2
  have := touches_counts he
  omega

/-- use after release: a release with no outstanding registration is reported wherever it occurs -/
theorem early_release_reported {xs ys : List NEv} {e : NEv} {o : Nat} {d : Bool}
    (he : e.kind = .del (some o) d) (h : dels xs o = regs xs o) : report (xs ++ e :: ys) ≠ [] := by
  intro hr
  have h2 := ((balanced_iff _).mp ((report_nil_iff _).mp hr)).2.1 (xs.length + 1) o
  have : (xs ++ e :: ys).take (xs.length + 1) = xs ++ [e] := by
    rw [List.take_append, List.take_of_length_le (Nat.le_succ _)]; simp
  rw [this, regs_append, dels_append] at h2
  have h3 : regs [e] o = 0 := by simp [regs, NEv.regOf, he]
  have h4 : dels [e] o = 1 := by simp [dels, NEv.delOf, he]
  omega

/-- a NULL pointer passed to `GOTREF/INCREF/GIVEREF/DECREF` is reported -/
theorem null_reported {xs ys : List NEv} {e : NEv} (he : e.kind = .reg none ∨ ∃ d, e.kind = .del none d) :
    report (xs ++ e :: ys) ≠ [] := by
  intro hr
  have h2 := ((balanced_iff _).mp ((report_nil_iff _).mp hr)).1 e (by simp)
  rcases he with he | ⟨d, he⟩
  · exact h2.1 he
  · exact h2.2 d he

end CyVerif.C35

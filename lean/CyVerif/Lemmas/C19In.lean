import CyVerif.Model.C19Cmp
/-! `x in (a1, …, an)`: the flattened or-chain against CPython's container search. -/
namespace CyVerif.C19

/-- values produced by `evalLeaves` are values of the leaves -/
theorem evalLeaves_mem (W : World) : ∀ (ls : List Nat) (log : Log) (acc : List Val) (log' : Log) (vs : List Val),
    evalLeaves W ls log acc = (log', .ok vs) →
    ∀ a ∈ vs, a ∈ acc ∨ ∃ l ∈ ls, W.ev l = .ok a := by
  intro ls
  induction ls with
  | nil =>
    intro log acc log' vs h a ha
    simp only [evalLeaves, Prod.mk.injEq, Out.ok.injEq] at h
    obtain ⟨_, rfl⟩ := h
    left; simpa using ha
  | cons l rest ih =>
    intro log acc log' vs h a ha
    unfold evalLeaves at h
    cases hev : W.ev l with
    | raise e => simp [hev] at h
    | ok v =>
      simp only [hev] at h
      rcases ih _ _ _ _ h a ha with hacc | ⟨l', hl', he⟩
      · simp only [List.mem_cons] at hacc
        rcases hacc with rfl | hacc
        · right; exact ⟨l, by simp, hev⟩
        · left; exact hacc
      · right; exact ⟨l', by simp [hl'], he⟩

/-- with `item == x` tests and no item identical to `x`, the or-chain *is* CPython's search (same calls, same order) -/
theorem flat_eq_contains (lf : Bool) (W : World) (xv : Val) : ∀ (vs : List Val) (log : Log),
    (∀ a ∈ vs, W.same a xv = false) →
    cyFlat ⟨lf, true⟩ W false xv vs log = pyContains W xv vs log := by
  intro vs
  induction vs with
  | nil => intro log _; simp [cyFlat, pyContains]
  | cons a rest ih =>
    intro log hs
    have hsa := hs a (by simp)
    have ih' := fun log => ih log (fun b hb => hs b (by simp [hb]))
    unfold cyFlat pyContains
    simp only [hsa, Bool.false_eq_true, ↓reduceIte]
    cases hc : W.cmp opEQ a xv with
    | raise e => simp
    | ok r =>
      cases ht : W.truth r with
      | raise e => simp [ht]
      | ok t => cases t <;> simp [ht, ih']

/-- comparison followed by the truth test -/
def cmpTruth (W : World) (op : Nat) (a b : Val) : Out Bool :=
  match W.cmp op a b with
  | .raise e => .raise e
  | .ok r => W.truth r

def Out.not : Out Bool → Out Bool
  | .ok b => .ok !b
  | .raise e => .raise e

/-- results only: reflexive equality makes the identity shortcut unobservable in the result -/
theorem flat_result_reflexive (lf : Bool) (W : World) (xv : Val) : ∀ (vs : List Val) (log log' : Log),
    (∀ a ∈ vs, W.same a xv = true → cmpTruth W opEQ a xv = .ok true) →
    (cyFlat ⟨lf, true⟩ W false xv vs log).2 = (pyContains W xv vs log').2 := by
  intro vs
  induction vs with
  | nil => intro log log' _; simp [cyFlat, pyContains]
  | cons a rest ih =>
    intro log log' hs
    have ih' := fun l l' => ih l l' (fun b hb => hs b (by simp [hb]))
    unfold cyFlat pyContains
    simp only [Bool.false_eq_true, ↓reduceIte]
    cases hsame : W.same a xv with
    | true =>
      have hrefl := hs a (by simp) hsame
      unfold cmpTruth at hrefl
      cases hc : W.cmp opEQ a xv with
      | raise e => simp [hc] at hrefl
      | ok r =>
        simp only [hc] at hrefl
        simp [hrefl]
    | false =>
      simp only [Bool.false_eq_true, ↓reduceIte]
      cases hc : W.cmp opEQ a xv with
      | raise e => simp
      | ok r =>
        cases ht : W.truth r with
        | raise e => simp [ht]
        | ok t =>
          cases t
          · simp only [ht]; exact ih' _ _
          · simp [ht]

/-- `not in`: the and-chain of `item != x` against `not (x in …)`, results only -/
theorem flat_notin_result (lf : Bool) (W : World) (xv : Val) : ∀ (vs : List Val) (log log' : Log),
    (∀ a ∈ vs, W.same a xv = false) →
    (∀ a ∈ vs, cmpTruth W opNE a xv = (cmpTruth W opEQ a xv).not) →
    (cyFlat ⟨lf, true⟩ W true xv vs log).2 = (negFin (pyContains W xv vs log')).2 := by
  intro vs
  induction vs with
  | nil => intro log log' _ _; simp [cyFlat, pyContains, negFin]
  | cons a rest ih =>
    intro log log' hs hne
    have ih' := fun l l' => ih l l' (fun b hb => hs b (by simp [hb])) (fun b hb => hne b (by simp [hb]))
    have hsa := hs a (by simp)
    have hna := hne a (by simp)
    unfold cmpTruth at hna
    unfold cyFlat pyContains
    simp only [hsa, Bool.false_eq_true, ↓reduceIte]
    cases hc : W.cmp opEQ a xv with
    | raise e =>
      simp only [hc, Out.not] at hna
      cases hc2 : W.cmp opNE a xv with
      | raise e2 => simp only [hc2, Out.raise.injEq] at hna; simp [negFin, hna]
      | ok r2 => simp only [hc2] at hna; simp [hna, negFin]
    | ok r =>
      simp only [hc] at hna
      cases ht : W.truth r with
      | raise e =>
        simp only [ht, Out.not] at hna
        cases hc2 : W.cmp opNE a xv with
        | raise e2 => simp only [hc2, Out.raise.injEq] at hna; simp [negFin, hna, ht]
        | ok r2 => simp only [hc2] at hna; simp [hna, negFin, ht]
      | ok t =>
        simp only [ht, Out.not] at hna
        cases hc2 : W.cmp opNE a xv with
        | raise e2 => simp [hc2] at hna
        | ok r2 =>
          simp only [hc2] at hna
          cases t
          · simp only [hna, ht, Bool.not_false, beq_self_eq_true, ↓reduceIte]; exact ih' _ _
          · simp [hna, ht, negFin]

end CyVerif.C19

import CyVerif.Lemmas.C35Held
import CyVerif.Lemmas.C35Keep
/-! Invariant of the abstract generated function. -/
namespace CyVerif.C35

theorem acquires_append (xs ys : List NEv) (o : Nat) : acquires (xs ++ ys) o = acquires xs o + acquires ys o := by
  simp [acquires]
theorem gotrefs_append (xs ys : List NEv) (o : Nat) : gotrefs (xs ++ ys) o = gotrefs xs o + gotrefs ys o := by
  simp [gotrefs]
theorem giverefs_append (xs ys : List NEv) (o : Nat) : giverefs (xs ++ ys) o = giverefs xs o + giverefs ys o := by
  simp [giverefs]

structure FInv (st : FSt) : Prop where
  wf : WF st.fs
  keysNodup : (st.owned.map (·.1)).Nodup
  held : ∀ t o, (t, o) ∈ st.owned → t ∈ holdingRef st.fs
  bal : runHeld (fun _ => 0) st.evs = some (ownedCount st.owned)
  acq : ∀ o, acquires st.evs o = gotrefs st.evs o

theorem finv_init (taken : List Nat) : FInv (FSt.init taken) := by
  constructor
  · exact wf_init taken
  · simp [FSt.init]
  · simp [FSt.init]
  · simp only [FSt.init, runHeld]; congr 1
  · simp [FSt.init, acquires, gotrefs]

theorem key_not_mem_of_aget_none {owned : List (Nat × Nat)} {t : Nat} (h : aget owned t = none)
    {t' o : Nat} (hm : (t', o) ∈ owned) : t' ≠ t := by
  intro e
  have := aget_none_iff.mp h
  exact this (List.mem_map.mpr ⟨(t', o), hm, e⟩)

theorem finv_step {st st' : FSt} (inv : FInv st) {x : Stmt} (h : st.step x = some st') :
    FInv st' ∧ st.fs.allocated <+: st'.fs.allocated := by
  cases x with
  | alloc ty m s r =>
    simp only [FSt.step, Option.some.injEq] at h; subst h
    refine ⟨⟨wf_allocate inv.wf _ _ _ _, inv.keysNodup, ?_, inv.bal, inv.acq⟩, allocated_prefix_apply st.fs (.alloc ty m s r)⟩
    intro t o hm; exact holdingRef_allocate inv.wf _ _ _ _ (inv.held t o hm)
  | release t =>
    simp only [FSt.step] at h
    split at h
    · cases h
    · rename_i fs' hr
      split at h
      · cases h
      · rename_i hn
        simp only [Option.some.injEq] at h; subst h
        have hnone : aget st.owned t = none := by simpa using hn
        refine ⟨⟨wf_release inv.wf hr, inv.keysNodup, ?_, inv.bal, inv.acq⟩, ?_⟩
        · intro t' o hm
          exact holdingRef_release inv.wf hr (inv.held t' o hm) (key_not_mem_of_aget_none hnone hm)
        · obtain ⟨k, -, -, rfl⟩ := release_ok hr; exact List.prefix_refl _
  | newref t o =>
    simp only [FSt.step] at h
    split at h
    · rename_i hc
      simp only [Option.some.injEq] at h; subst h
      refine ⟨⟨inv.wf, ?_, ?_, ?_, ?_⟩, List.prefix_refl _⟩
      · simp only [List.map_append, List.map_cons, List.map_nil]
        exact List.nodup_append.mpr ⟨inv.keysNodup, by simp, by
          intro a ha b hb; simp at hb; subst hb; exact fun e => (aget_none_iff.mp hc.2) (e ▸ ha)⟩
      · intro t' o' hm
        rcases List.mem_append.mp hm with hm | hm
        · exact inv.held t' o' hm
        · simp at hm; rw [hm.1]; exact hc.1
      · rw [runHeld_append, inv.bal, ownedCount_append]
        simp [runHeld, stepHeld, NEv.kind]
      · intro o'
        rw [acquires_append, gotrefs_append, inv.acq o']
        simp [acquires, gotrefs, NEv.acqOf, NEv.gotOf]
    · cases h
  | borrow t o =>
    simp only [FSt.step] at h
    split at h
    · rename_i hc
      simp only [Option.some.injEq] at h; subst h
      refine ⟨⟨inv.wf, ?_, ?_, ?_, ?_⟩, List.prefix_refl _⟩
      · simp only [List.map_append, List.map_cons, List.map_nil]
        exact List.nodup_append.mpr ⟨inv.keysNodup, by simp, by
          intro a ha b hb; simp at hb; subst hb; exact fun e => (aget_none_iff.mp hc.2) (e ▸ ha)⟩
      · intro t' o' hm
        rcases List.mem_append.mp hm with hm | hm
        · exact inv.held t' o' hm
        · simp at hm; rw [hm.1]; exact hc.1
      · rw [runHeld_append, inv.bal, ownedCount_append]
        simp [runHeld, stepHeld, NEv.kind]
      · intro o'
        rw [acquires_append, gotrefs_append, inv.acq o']
        simp [acquires, gotrefs, NEv.acqOf, NEv.gotOf]
    · cases h
  | dispose t =>
    simp only [FSt.step] at h
    split at h
    · cases h
    · rename_i o ho
      simp only [Option.some.injEq] at h; subst h
      refine ⟨⟨inv.wf, ?_, ?_, ?_, ?_⟩, List.prefix_refl _⟩
      · exact List.Nodup.sublist (List.Sublist.map _ List.filter_sublist) inv.keysNodup
      · intro t' o' hm; exact inv.held t' o' (List.mem_filter.mp hm).1
      · rw [runHeld_append, inv.bal, ownedCount_remove inv.keysNodup ho]
        simp [runHeld, stepHeld, NEv.kind, ownedCount_pos ho]
      · intro o'
        rw [acquires_append, gotrefs_append, inv.acq o']
        simp [acquires, gotrefs, NEv.acqOf, NEv.gotOf]
  | steal t =>
    simp only [FSt.step] at h
    split at h
    · cases h
    · rename_i o ho
      simp only [Option.some.injEq] at h; subst h
      refine ⟨⟨inv.wf, ?_, ?_, ?_, ?_⟩, List.prefix_refl _⟩
      · exact List.Nodup.sublist (List.Sublist.map _ List.filter_sublist) inv.keysNodup
      · intro t' o' hm; exact inv.held t' o' (List.mem_filter.mp hm).1
      · rw [runHeld_append, inv.bal, ownedCount_remove inv.keysNodup ho]
        simp [runHeld, stepHeld, NEv.kind, ownedCount_pos ho]
      · intro o'
        rw [acquires_append, gotrefs_append, inv.acq o']
        simp [acquires, gotrefs, NEv.acqOf, NEv.gotOf]

theorem finv_run {st st' : FSt} (inv : FInv st) {xs : List Stmt} (h : st.run xs = some st') :
    FInv st' ∧ st.fs.allocated <+: st'.fs.allocated := by
  induction xs generalizing st with
  | nil => simp only [FSt.run, Option.some.injEq] at h; subst h; exact ⟨inv, List.prefix_refl _⟩
  | cons x xs ih =>
    simp only [FSt.run] at h
    split at h
    · cases h
    · rename_i s1 hs
      obtain ⟨i1, p1⟩ := finv_step inv hs
      obtain ⟨i2, p2⟩ := ih i1 h
      exact ⟨i2, List.IsPrefix.trans p1 p2⟩

end CyVerif.C35

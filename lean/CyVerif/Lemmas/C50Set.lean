import CyVerif.Model.C50
/-! State sets as strictly increasing lists: membership, sortedness, extensionality. -/
namespace CyVerif.C50

/-- the representation invariant of a state set -/
def Sorted (s : SSet) : Prop := s.Pairwise (· < ·)

theorem mem_sins {x y : Nat} {s : SSet} : y ∈ sins x s ↔ y = x ∨ y ∈ s := by
  induction s with
  | nil => simp [sins]
  | cons z zs ih =>
    simp only [sins]
    split
    · simp
    · split
      · rename_i h; subst h; simp
      · simp only [List.mem_cons, ih]
        constructor
        · rintro (h | h | h) <;> simp [h]
        · rintro (h | h | h) <;> simp [h]

theorem sins_sorted {x : Nat} {s : SSet} (h : Sorted s) : Sorted (sins x s) := by
  induction s with
  | nil => simp [sins, Sorted]
  | cons z zs ih =>
    unfold Sorted at *
    simp only [sins]
    rw [List.pairwise_cons] at h
    split
    · rename_i hx
      refine List.pairwise_cons.2 ⟨?_, List.pairwise_cons.2 h⟩
      intro a ha
      rcases List.mem_cons.1 ha with ha | ha
      · omega
      · have := h.1 a ha; omega
    · split
      · exact List.pairwise_cons.2 h
      · refine List.pairwise_cons.2 ⟨?_, ih h.2⟩
        intro a ha
        rcases mem_sins.1 ha with ha | ha
        · omega
        · exact h.1 a ha

theorem mem_sunion {a b : SSet} {y : Nat} : y ∈ sunion a b ↔ y ∈ a ∨ y ∈ b := by
  unfold sunion
  induction b with
  | nil => simp
  | cons z zs ih =>
    simp only [List.foldr_cons, mem_sins, ih, List.mem_cons]
    constructor
    · rintro (h | h | h) <;> simp [h]
    · rintro (h | h | h) <;> simp [h]

theorem sunion_sorted {a b : SSet} (h : Sorted a) : Sorted (sunion a b) := by
  unfold sunion
  induction b with
  | nil => simpa using h
  | cons z zs ih => simpa using sins_sorted ih

theorem sorted_nil : Sorted [] := by simp [Sorted]

/-- Two strictly increasing lists with the same members are equal. -/
theorem sorted_ext {a b : SSet} (ha : Sorted a) (hb : Sorted b) (h : ∀ x, x ∈ a ↔ x ∈ b) : a = b := by
  induction a generalizing b with
  | nil =>
    cases b with
    | nil => rfl
    | cons y ys => exact absurd ((h y).2 (by simp)) (by simp)
  | cons x xs ih =>
    cases b with
    | nil => exact absurd ((h x).1 (by simp)) (by simp)
    | cons y ys =>
      unfold Sorted at ha hb
      rw [List.pairwise_cons] at ha hb
      have hxy : x = y := by
        have h1 := (h x).1 (by simp)
        have h2 := (h y).2 (by simp)
        rcases List.mem_cons.1 h1 with h1 | h1
        · exact h1
        · rcases List.mem_cons.1 h2 with h2 | h2
          · exact h2.symm
          · have := hb.1 x h1; have := ha.1 y h2; omega
      subst hxy
      congr 1
      apply ih ha.2 hb.2
      intro z
      constructor
      · intro hz
        have := (h z).1 (List.mem_cons_of_mem _ hz)
        rcases List.mem_cons.1 this with h' | h'
        · have := ha.1 z hz; omega
        · exact h'
      · intro hz
        have := (h z).2 (List.mem_cons_of_mem _ hz)
        rcases List.mem_cons.1 this with h' | h'
        · have := hb.1 z hz; omega
        · exact h'

theorem sins_ne_nil {x : Nat} {s : SSet} : sins x s ≠ [] := by
  cases s with
  | nil => simp [sins]
  | cons z zs =>
    simp only [sins]
    split
    · simp
    · split <;> simp

end CyVerif.C50

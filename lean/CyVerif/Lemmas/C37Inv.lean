import CyVerif.Lemmas.C37Step
/-! C37 leg 2: invariants of the exit protocol, part A (partition of the iteration space, ownership). -/
namespace CyVerif.C37

/-- number of places that hold exception `e`: the shared slot, the thread states, plus the number of times it was released -/
def owners (n : Nat) (st : St) (e : Nat) : Nat :=
  ind (st.slot = some e) + sumN n (fun t => ind (st.cur t = some e)) + st.released.count e

def pend (n : Nat) (st : St) (x : Nat) : Nat := sumN n (fun t => (st.todo t).count x)

theorem count_toList (o : Option Nat) (e : Nat) : o.toList.count e = ind (o = some e) := by
  cases o with
  | none => simp [ind]
  | some v => by_cases h : v = e <;> simp [ind, h]

theorem count_cons_ind (k x : Nat) (l : List Nat) : (k :: l).count x = l.count x + ind (k = x) := by
  by_cases h : k = x <;> simp [ind, h]

structure InvA (c : Cfg) (total : Nat → Nat) (st : St) : Prop where
  part : ∀ x, st.ran.count x + st.skipped.count x + pend c.n st x = total x
  own : ∀ e, owners c.n st e = ind (e ∈ st.ran ∧ c.kinds e = .raise)
  fetchCur : ∀ t < c.n, st.pc t = .fetch → (st.cur t).isSome = true
  slotOrFetch : (∃ k ∈ st.ran, c.kinds k = .raise) → st.slot.isSome = true ∨ ∃ t < c.n, st.pc t = .fetch
  finTodo : ∀ t < c.n, st.pc t = .finished → st.todo t = []
  finCur : ∀ t < c.n, t ≠ 0 → st.pc t = .finished → st.cur t = none

theorem pend_pop {n t : Nat} {st : St} {k : Nat} {rest : List Nat} (ht : t < n) (htodo : st.todo t = k :: rest) (x : Nat) :
    sumN n (fun t' => (upd st.todo t rest t').count x) + ind (k = x) = pend n st x := by
  have h1 := sumN_comp_upd (fun l : List Nat => l.count x) st.todo rest ht
  simp only [htodo, count_cons_ind] at h1
  unfold pend; omega

/-- an iteration at the head of a todo list has not run yet -/
theorem head_not_ran {c : Cfg} {total : Nat → Nat} {st : St} (htot : ∀ x, total x ≤ 1) (inv : InvA c total st)
    {t k : Nat} {rest : List Nat} (ht : t < c.n) (htodo : st.todo t = k :: rest) : k ∉ st.ran := by
  have hp := inv.part k
  have h1 := pend_pop ht htodo k
  have h2 := htot k
  have h3 : ind (k = k) = 1 := ind_true rfl
  rw [h3] at h1
  have : st.ran.count k = 0 := by omega
  exact List.count_eq_zero.mp this

theorem ind_raised_cons {c : Cfg} {ran : List Nat} {k : Nat} (hk : k ∉ ran) (hkind : c.kinds k = .raise) (e : Nat) :
    ind (e ∈ k :: ran ∧ c.kinds e = .raise) = ind (e ∈ ran ∧ c.kinds e = .raise) + ind (k = e) := by
  by_cases h : k = e
  · subst h; simp [ind, hk, hkind]
  · have h' : e ≠ k := fun x => h x.symm
    simp [ind, h, h']

theorem ind_raised_cons_other {c : Cfg} {ran : List Nat} {k : Nat} (hkind : c.kinds k ≠ .raise) (e : Nat) :
    ind (e ∈ k :: ran ∧ c.kinds e = .raise) = ind (e ∈ ran ∧ c.kinds e = .raise) := by
  by_cases h : e = k
  · subst h; simp [ind, hkind]
  · simp [ind, h]

theorem invA_part {c : Cfg} {total : Nat → Nat} {st st' : St} {t : Nat} (ht : t < c.n)
    (inv : InvA c total st) (h : Step c st t st') : ∀ x, st'.ran.count x + st'.skipped.count x + pend c.n st' x = total x := by
  intro x
  have hp := inv.part x
  cases h with
  | skip k rest hpc htodo hw =>
    have := pend_pop ht htodo x
    simp only [pend, count_cons_ind] at *; omega
  | runCont k rest hpc htodo hk | runBrk k rest hpc htodo hk | runRet k rest hpc htodo hk | runRaise k rest hpc htodo hk =>
    have := pend_pop ht htodo x
    simp only [pend, count_cons_ind] at *; omega
  | finMaster | finWorker | setWhy | writeRet | fetchFull | fetchTake => exact hp

end CyVerif.C37

import CyVerif.Model.C24
/-! C24 helper lemmas, part 1: name search, the generic keyword loop and its closed form. -/
namespace CyVerif.C24

/-- index `≥ lo` of the name `t` in `names` -/
def locate (names : List Nat) (lo t : Nat) : Option Nat :=
  if lo ≤ names.idxOf t ∧ names.idxOf t < names.length then some (names.idxOf t) else none

theorem locate_eq_some {names : List Nat} (hn : names.Nodup) {lo t i : Nat} :
    locate names lo t = some i ↔ lo ≤ i ∧ names[i]? = some t := by
  unfold locate
  constructor
  · intro h
    split at h
    · rename_i hc
      injection h with h
      subst h
      refine ⟨hc.1, ?_⟩
      rw [List.getElem?_eq_some_iff]
      exact ⟨hc.2, List.getElem_idxOf hc.2⟩
    · cases h
  · rintro ⟨hlo, hget⟩
    rw [List.getElem?_eq_some_iff] at hget
    obtain ⟨hi, hget⟩ := hget
    have : names.idxOf t = i := by
      rw [← hget]; exact hn.idxOf_getElem i hi
    rw [this]
    simp [hlo, hi]

theorem locate_eq_none {names : List Nat} (hn : names.Nodup) {lo t : Nat} :
    locate names lo t = none ↔ ∀ i, lo ≤ i → names[i]? ≠ some t := by
  constructor
  · intro h i hlo hget
    have := (locate_eq_some hn (lo := lo)).2 ⟨hlo, hget⟩
    rw [h] at this; cases this
  · intro h
    cases hl : locate names lo t with
    | none => rfl
    | some i =>
      have := (locate_eq_some hn).1 hl
      exact absurd this.2 (h i this.1)

theorem locate_lt {names : List Nat} {lo t i : Nat} (h : locate names lo t = some i) : i < names.length := by
  unfold locate at h
  split at h
  · rename_i hc; injection h with h; omega
  · cases h

theorem locate_ge {names : List Nat} {lo t i : Nat} (h : locate names lo t = some i) : lo ≤ i := by
  unfold locate at h
  split at h
  · rename_i hc; injection h with h; omega
  · cases h

/-- searching `names[lo:]` with a predicate of the shape `b && (t == ·)` -/
theorem searchFrom_eq {names : List Nat} (hn : names.Nodup) (b : Bool) (t lo : Nat) :
    searchFrom (fun n => b && t == n) names lo = if b then locate names lo t else none := by
  unfold searchFrom
  cases b with
  | false =>
    have : (names.drop lo).findIdx? (fun n => false && t == n) = none := by
      rw [List.findIdx?_eq_none_iff]; intro x _; simp
    simp
  | true =>
    simp only [Bool.true_and, if_true]
    cases h : (names.drop lo).findIdx? (fun n => t == n) with
    | none =>
      rw [List.findIdx?_eq_none_iff] at h
      symm
      rw [Option.map_none, locate_eq_none hn]
      intro i hlo hget
      have hmem : t ∈ names.drop lo := by
        rw [List.mem_iff_getElem?]
        refine ⟨i - lo, ?_⟩
        rw [List.getElem?_drop]
        have : lo + (i - lo) = i := by omega
        rw [this]; exact hget
      have := h t hmem
      simp at this
    | some i =>
      rw [List.findIdx?_eq_some_iff_getElem] at h
      obtain ⟨hi, hp, _⟩ := h
      symm
      rw [Option.map_some, locate_eq_some hn]
      refine ⟨by omega, ?_⟩
      have h1 : (names.drop lo)[i]? = some (names.drop lo)[i] := List.getElem?_eq_getElem hi
      have h2 : (names.drop lo)[i] = t := by
        have := hp
        simp only [beq_iff_eq] at this
        exact this.symm
      rw [h2, List.getElem?_drop] at h1
      rw [Nat.add_comm]; exact h1

theorem find?_congr' {α : Type} {p q : α → Bool} : ∀ {l : List α}, (∀ x ∈ l, p x = q x) → l.find? p = l.find? q
  | [], _ => rfl
  | a :: l, h => by
    have ha := h a (List.mem_cons_self)
    have hl : ∀ x ∈ l, p x = q x := fun x hx => h x (List.mem_cons_of_mem _ hx)
    simp only [List.find?_cons, ha, find?_congr' hl]

/-! ### generic keyword loop -/

/-- where a key lands -/
inductive Land where
  | slot (j : Nat) | extra | skip | bad
  deriving DecidableEq

def genStep (loc : Key → Land) (st : KwState) (kv : Key × Val) : Res KwState :=
  match loc kv.1 with
  | .slot j => .ok { st with slots := st.slots.set j (some kv.2) }
  | .extra => .ok { st with extra := st.extra ++ [kv] }
  | .skip => .ok st
  | .bad => tyErr

def genSlots (loc : Key → Land) (kws : List (Key × Val)) (init : Slots) : Slots :=
  fun j => match kws.find? (fun kv => loc kv.1 == .slot j) with
    | some kv => some kv.2
    | none => init j

def genClosed (loc : Key → Land) (st : KwState) (kws : List (Key × Val)) : Res KwState :=
  if kws.any (fun kv => loc kv.1 == .bad) then tyErr
  else .ok ⟨genSlots loc kws st.slots, st.extra ++ kws.filter (fun kv => loc kv.1 == .extra)⟩

/-- no two keys of the list land in the same slot -/
def SlotsDistinct (loc : Key → Land) (kws : List (Key × Val)) : Prop :=
  kws.Pairwise (fun a b => ∀ j, loc a.1 = .slot j → loc b.1 ≠ .slot j)

theorem genSlots_nil (loc : Key → Land) (init : Slots) : genSlots loc [] init = init := by
  funext j; simp [genSlots]

theorem genSlots_cons_noslot {loc : Key → Land} {kv : Key × Val} (h : ∀ j, loc kv.1 ≠ .slot j)
    (rest : List (Key × Val)) (init : Slots) : genSlots loc (kv :: rest) init = genSlots loc rest init := by
  funext j
  have : (loc kv.1 == Land.slot j) = false := by simpa using h j
  simp [genSlots, this]

theorem genSlots_cons_slot {loc : Key → Land} {kv : Key × Val} {j : Nat} (h : loc kv.1 = .slot j)
    {rest : List (Key × Val)} (hnone : rest.find? (fun kv' => loc kv'.1 == .slot j) = none) (init : Slots) :
    genSlots loc (kv :: rest) init = genSlots loc rest (init.set j (some kv.2)) := by
  funext j'
  simp only [genSlots, List.find?_cons, h]
  by_cases hj : j' = j
  · subst hj
    simp [hnone, Slots.set]
  · have : (Land.slot j == Land.slot j') = false := by
      simp; exact fun h => hj h.symm
    simp [this, Slots.set, hj]

theorem genLoop_closed (loc : Key → Land) : ∀ (kws : List (Key × Val)) (st : KwState),
    SlotsDistinct loc kws → foldRes (genStep loc) st kws = genClosed loc st kws
  | [], st, _ => by
    simp [foldRes, genClosed, genSlots_nil]
  | kv :: rest, st, hd => by
    have hd' := List.pairwise_cons.1 hd
    have ih := fun st' => genLoop_closed loc rest st' hd'.2
    simp only [foldRes, genStep]
    cases hl : loc kv.1 with
    | bad => simp [genClosed, hl, tyErr]
    | skip =>
      have hns : ∀ j, loc kv.1 ≠ .slot j := by intro j; rw [hl]; exact fun h => by cases h
      have e1 : (loc kv.1 == Land.bad) = false := by rw [hl]; decide
      have e2 : (loc kv.1 == Land.extra) = false := by rw [hl]; decide
      simp only [ih, genClosed, List.any_cons, List.filter_cons, e1, e2, Bool.false_or,
        genSlots_cons_noslot hns]
      rfl
    | extra =>
      have hns : ∀ j, loc kv.1 ≠ .slot j := by intro j; rw [hl]; exact fun h => by cases h
      have e1 : (loc kv.1 == Land.bad) = false := by rw [hl]; decide
      have e2 : (loc kv.1 == Land.extra) = true := by rw [hl]; decide
      simp only [ih, genClosed, List.any_cons, List.filter_cons, e1, e2, Bool.false_or,
        genSlots_cons_noslot hns, if_true, List.append_assoc, List.singleton_append]
    | slot j =>
      have hnone : rest.find? (fun kv' => loc kv'.1 == .slot j) = none := by
        rw [List.find?_eq_none]
        intro x hx hp
        exact hd'.1 x hx j hl (by simpa using hp)
      have e1 : (loc kv.1 == Land.bad) = false := by rw [hl]; rfl
      have e2 : (loc kv.1 == Land.extra) = false := by rw [hl]; rfl
      simp only [ih, genClosed, List.any_cons, List.filter_cons, e1, e2, Bool.false_or,
        genSlots_cons_slot hl hnone]
      rfl

end CyVerif.C24

import CyVerif.Lemmas.C09Pool5
import CyVerif.Lemmas.C09Congr
/-! C09 part B: the whole pool — every constant of a module resolves to an object that is
indistinguishable from the one its own source text denotes. -/
namespace CyVerif.C09

/-- side conditions of the partial theorem, per constant (both hold trivially for the repaired code) -/
def Hyp (v : Variant) (c : Const) : Prop :=
  (v.floatSign = true ∨ c.noZeroFloat = true) ∧ (v.fsDistinct = true ∨ c.itemsDistinct = true)

/-- a slot is justified by a constant with exactly its key whose intended value is indistinguishable
from the object stored now and from the object stored first -/
def Justified (v : Variant) (s : Slot) : Prop :=
  ∃ c y, c.wf = true ∧ Hyp v c ∧ constKey v c = some s.key ∧ evalConst c = some y ∧
    same y s.obj = true ∧ same y s.first = true

def PoolInv (v : Variant) (p : Pool) : Prop := ∀ s ∈ p, Justified v s

def firstsOf (p : Pool) : List Val := p.map (·.first)

theorem poolFind_spec : ∀ (p : Pool) (k : Key) (j i : Nat) (s : Slot), poolFind p k j = some (i, s) →
    j ≤ i ∧ p[i - j]? = some s ∧ keyEq s.key k = true := by
  intro p
  induction p with
  | nil => intro k j i s h; simp [poolFind] at h
  | cons e r ih =>
    intro k j i s h
    simp only [poolFind] at h
    split at h
    · rename_i heq
      simp only [Option.some.injEq, Prod.mk.injEq] at h
      obtain ⟨rfl, rfl⟩ := h
      exact ⟨Nat.le_refl _, by simp, heq⟩
    · obtain ⟨h1, h2, h3⟩ := ih k (j + 1) i s h
      refine ⟨by omega, ?_, h3⟩
      have : i - j = (i - (j + 1)) + 1 := by omega
      rw [this, List.getElem?_cons_succ]; exact h2

theorem poolSet_mem : ∀ (p : Pool) (i : Nat) (s t : Slot), t ∈ poolSet p i s → t ∈ p ∨ t = s := by
  intro p
  induction p with
  | nil => intro i s t h; simp [poolSet] at h
  | cons x r ih =>
    intro i s t h
    cases i with
    | zero =>
      simp only [poolSet, List.mem_cons] at h
      rcases h with h | h
      · right; exact h
      · left; simp [h]
    | succ i =>
      simp only [poolSet, List.mem_cons] at h
      rcases h with h | h
      · left; simp [h]
      · rcases ih i s t h with h | h
        · left; simp [h]
        · right; exact h

theorem poolSet_firsts : ∀ (p : Pool) (i : Nat) (s t : Slot), p[i]? = some t → s.first = t.first →
    firstsOf (poolSet p i s) = firstsOf p := by
  intro p
  induction p with
  | nil => intro i s t h; simp at h
  | cons x r ih =>
    intro i s t h hk
    cases i with
    | zero =>
      simp only [List.getElem?_cons_zero, Option.some.injEq] at h; subst h
      simp [poolSet, firstsOf, hk]
    | succ i =>
      simp only [List.getElem?_cons_succ] at h
      have := ih i s t h hk
      simp only [firstsOf] at this
      simp [poolSet, firstsOf, this]

theorem poolSet_get : ∀ (p : Pool) (i : Nat) (s t : Slot), p[i]? = some t → (poolSet p i s)[i]? = some s := by
  intro p
  induction p with
  | nil => intro i s t h; simp at h
  | cons x r ih =>
    intro i s t h
    cases i with
    | zero => simp [poolSet]
    | succ i =>
      simp only [List.getElem?_cons_succ] at h
      simp [poolSet, ih i s t h]

/-- the pool only grows at the end, and the first objects of existing slots never change -/
theorem register_prefix (once ns : Bool) (p : Pool) (key : Option Key) (built : Option Val) :
    ∃ l, firstsOf (register once ns p key built).1 = firstsOf p ++ l := by
  cases key with
  | none => exact ⟨[], by simp [register]⟩
  | some k =>
    simp only [register]
    cases hf : poolFind p k 0 with
    | some is =>
      obtain ⟨i, s⟩ := is
      obtain ⟨_, hget, _⟩ := poolFind_spec p k 0 i s hf
      simp only [Nat.sub_zero] at hget
      simp only
      cases alreadyInit once ns s with
      | true => exact ⟨[], by simp⟩
      | false =>
        cases built with
        | none => exact ⟨[], by simp⟩
        | some x =>
          have := poolSet_firsts p i { key := s.key, obj := x, first := s.first, initG := s.initG || !ns, initM := s.initM || ns } s hget rfl
          exact ⟨[], by simp [this]⟩
    | none =>
      cases built with
      | none => exact ⟨[], by simp⟩
      | some x => exact ⟨[x], by simp [firstsOf]⟩

theorem register_sound (v : Variant) (once ns : Bool) (p : Pool) (c : Const) (key : Option Key) (y b : Val)
    (hinv : PoolInv v p) (hw : c.wf = true) (hh : Hyp v c) (hk : constKey v c = key)
    (hy : evalConst c = some y) (hb : same y b = true) :
    PoolInv v (register once ns p key (some b)).1 ∧
      (∃ x, (register once ns p key (some b)).2.2 = some x ∧ same y x = true) ∧
      (∀ i, (register once ns p key (some b)).2.1 = some i →
        ∃ f, (firstsOf (register once ns p key (some b)).1)[i]? = some f ∧ same y f = true) := by
  cases key with
  | none => exact ⟨hinv, ⟨b, rfl, hb⟩, fun i h => by simp [register] at h⟩
  | some k =>
    simp only [register]
    cases hf : poolFind p k 0 with
    | some is =>
      obtain ⟨i, s⟩ := is
      obtain ⟨_, hget, he⟩ := poolFind_spec p k 0 i s hf
      simp only [Nat.sub_zero] at hget
      have hm : s ∈ p := List.mem_of_getElem? hget
      obtain ⟨c0, y0, hw0, hh0, hk0, hy0, hs0, hf0⟩ := hinv s hm
      obtain ⟨z0, z, ez0, ez, hs⟩ := const_sound v c0 c s.key k hw0 hw hh0.1
        (hh0.2.elim Or.inl (fun h0 => hh.2.elim Or.inl (fun h1 => Or.inr ⟨h0, h1⟩))) hk0 hk he
      rw [hy0] at ez0; injection ez0 with ez0; subst ez0
      rw [hy] at ez; injection ez with ez; subst ez
      have hyy0 : same y y0 = true := same_symm y0 y hs
      have hfirst : (firstsOf p)[i]? = some s.first := by simp [firstsOf, hget]
      simp only
      cases alreadyInit once ns s with
      | true =>
        refine ⟨hinv, ⟨s.obj, rfl, same_trans y y0 s.obj hyy0 hs0⟩, ?_⟩
        intro i' hi
        simp only [if_true, Option.some.injEq] at hi; subst hi
        exact ⟨s.first, hfirst, same_trans y y0 s.first hyy0 hf0⟩
      | false =>
        simp only [Bool.false_eq_true, if_false]
        refine ⟨?_, ⟨b, rfl, hb⟩, ?_⟩
        · intro t ht
          rcases poolSet_mem p i _ t ht with h | h
          · exact hinv t h
          · subst h
            exact ⟨c0, y0, hw0, hh0, hk0, hy0, same_trans y0 y b hs hb, hf0⟩
        · intro i' hi
          simp only [Option.some.injEq] at hi; subst hi
          rw [poolSet_firsts p i { key := s.key, obj := b, first := s.first, initG := s.initG || !ns, initM := s.initM || ns } s hget rfl]
          exact ⟨s.first, hfirst, same_trans y y0 s.first hyy0 hf0⟩
    | none =>
      refine ⟨?_, ⟨b, rfl, hb⟩, ?_⟩
      · intro t ht
        rcases List.mem_append.mp ht with h | h
        · exact hinv t h
        · simp only [List.mem_singleton] at h; subst h
          exact ⟨c, y, hw, hh, hk, hy, hb, hb⟩
      · intro i' hi
        simp only [Option.some.injEq] at hi; subst hi
        exact ⟨b, by simp [firstsOf], hb⟩

theorem same_tupleOf (m : Option (LTag × Int)) (ys xs : List Val) (h : sameL ys xs = true) :
    same (tupleOf m ys) (tupleOf m xs) = true := by
  unfold tupleOf
  cases m with
  | none => simpa [same] using h
  | some p => simp only [same]; exact sameL_repeat ys xs h _

theorem evalNode_seq (k : Nat) (m : Option (LTag × Int)) (args : List Node) :
    evalNode (.seq k m args) = (evalNodes args).map (tupleOf m) := by
  simp only [evalNode]
  cases evalNodes args <;> rfl

theorem prefix_trans {α} {a b c l1 l2 : List α} (h1 : b = a ++ l1) (h2 : c = b ++ l2) : ∃ l, c = a ++ l :=
  ⟨l1 ++ l2, by rw [h2, h1, List.append_assoc]⟩

/-- what is known about the result of processing a node / constant whose intended value is `y` -/
def ResultOK (p' : Pool) (r : Option Nat × Option Val) (y : Val) : Prop :=
  (∃ x, r.2 = some x ∧ same y x = true) ∧
    (∀ i, r.1 = some i → ∃ f, (firstsOf p')[i]? = some f ∧ same y f = true)

theorem resultOK_of_register (v : Variant) (once ns : Bool) (p : Pool) (c : Const) (key : Option Key) (y b : Val)
    (hinv : PoolInv v p) (hw : c.wf = true) (hh : Hyp v c) (hk : constKey v c = key)
    (hy : evalConst c = some y) (hb : same y b = true) :
    PoolInv v (register once ns p key (some b)).1 ∧
      ResultOK (register once ns p key (some b)).1 (register once ns p key (some b)).2 y := by
  obtain ⟨h1, h2, h3⟩ := register_sound v once ns p c key y b hinv hw hh hk hy hb
  exact ⟨h1, h2, h3⟩

mutual
theorem node_proc (v : Variant) (once ns : Bool) : ∀ (n : Node) (p : Pool), PoolInv v p → n.wf = true →
    (v.floatSign = true ∨ n.noZeroFloat = true) →
    PoolInv v (procNode v once ns p n).1 ∧
      (∃ l, firstsOf (procNode v once ns p n).1 = firstsOf p ++ l) ∧
      ∀ y, evalNode n = some y → ResultOK (procNode v once ns p n).1 (procNode v once ns p n).2 y
  | .leaf t a, p, hinv, _, _ => by
    refine ⟨hinv, ⟨[], by simp [procNode]⟩, fun y hy => ?_⟩
    simp only [evalNode, Option.some.injEq] at hy; subst hy
    exact ⟨⟨.atom a, rfl, same_refl _⟩, fun i hi => by simp [procNode] at hi⟩
  | .opq, p, hinv, _, _ => ⟨hinv, ⟨[], by simp [procNode]⟩, fun y hy => by simp [evalNode] at hy⟩
  | .seq k m args, p, hinv, hw, hz => by
    have hw' : Node.wfs args = true := by simpa [Node.wf] using hw
    have hz' : v.floatSign = true ∨ Node.noZeroFloats args = true := by simpa [Node.noZeroFloat] using hz
    obtain ⟨hinv1, ⟨l1, hl1⟩, hval⟩ := nodes_proc v once ns args p hinv hw' hz'
    simp only [procNode]
    obtain ⟨l2, hl2⟩ := register_prefix once ns (procNodes v once ns p args).1 (nodeKey v (.seq k m args))
      ((procNodes v once ns p args).2.map (tupleOf m))
    have hpre := prefix_trans hl1 hl2
    cases he : evalNodes args with
    | none =>
      have hk : nodeKey v (.seq k m args) = none := by
        cases hk : nodeKey v (.seq k m args) with
        | none => rfl
        | some key =>
          obtain ⟨x, hx⟩ := key_eval v _ key hk
          rw [evalNode_seq, he] at hx; simp at hx
      rw [hk] at hpre ⊢
      exact ⟨hinv1, hpre, fun y hy => by rw [evalNode_seq, he] at hy; simp at hy⟩
    | some ys =>
      obtain ⟨xs, hxs, hs⟩ := hval ys he
      rw [hxs] at hpre ⊢
      have := resultOK_of_register v once ns (procNodes v once ns p args).1 (.tuple (.seq k m args))
        (nodeKey v (.seq k m args)) (tupleOf m ys) (tupleOf m xs) hinv1 (by simpa [Const.wf] using hw)
        ⟨by simpa [Const.noZeroFloat] using hz, Or.inr (by simp [Const.itemsDistinct])⟩ rfl
        (by simp [evalConst, evalNode_seq, he]) (same_tupleOf m ys xs hs)
      refine ⟨this.1, hpre, fun y hy => ?_⟩
      rw [evalNode_seq, he] at hy
      simp only [Option.map_some, Option.some.injEq] at hy; subst hy
      exact this.2
  | .slice a b c, p, hinv, hw, hz => by
    simp only [Node.wf, Bool.and_eq_true] at hw
    have hza : v.floatSign = true ∨ a.noZeroFloat = true := hz.elim Or.inl (fun h => by
      simp only [Node.noZeroFloat, Bool.and_eq_true] at h; exact Or.inr h.1.1)
    have hzb : v.floatSign = true ∨ b.noZeroFloat = true := hz.elim Or.inl (fun h => by
      simp only [Node.noZeroFloat, Bool.and_eq_true] at h; exact Or.inr h.1.2)
    have hzc : v.floatSign = true ∨ c.noZeroFloat = true := hz.elim Or.inl (fun h => by
      simp only [Node.noZeroFloat, Bool.and_eq_true] at h; exact Or.inr h.2)
    obtain ⟨ia, ⟨la, hla⟩, va⟩ := node_proc v once ns a p hinv hw.1.1 hza
    obtain ⟨ib, ⟨lb, hlb⟩, vb⟩ := node_proc v once ns b _ ia hw.1.2 hzb
    obtain ⟨ic, ⟨lc, hlc⟩, vc⟩ := node_proc v once ns c _ ib hw.2 hzc
    obtain ⟨lab, hlab⟩ := prefix_trans hla hlb
    obtain ⟨labc, hlabc⟩ := prefix_trans hlab hlc
    simp only [procNode]
    have hreg := fun built => register_prefix once ns
      (procNode v once ns (procNode v once ns (procNode v once ns p a).1 b).1 c).1 (poolKey v (.slice a b c)) built
    cases hea : evalNode a with
    | none =>
      have hk : poolKey v (.slice a b c) = none := by
        cases hk : nodeKey v (.slice a b c) with
        | none => simp [poolKey, hk]
        | some key =>
          obtain ⟨x, hx⟩ := key_eval v _ key hk
          simp [evalNode, hea] at hx
      rw [hk]
      exact ⟨ic, ⟨labc, by simpa [register] using hlabc⟩, fun y hy => by simp [evalNode, hea] at hy⟩
    | some ya =>
    cases heb : evalNode b with
    | none =>
      have hk : poolKey v (.slice a b c) = none := by
        cases hk : nodeKey v (.slice a b c) with
        | none => simp [poolKey, hk]
        | some key =>
          obtain ⟨x, hx⟩ := key_eval v _ key hk
          simp [evalNode, hea, heb] at hx
      rw [hk]
      exact ⟨ic, ⟨labc, by simpa [register] using hlabc⟩, fun y hy => by simp [evalNode, hea, heb] at hy⟩
    | some yb =>
    cases hec : evalNode c with
    | none =>
      have hk : poolKey v (.slice a b c) = none := by
        cases hk : nodeKey v (.slice a b c) with
        | none => simp [poolKey, hk]
        | some key =>
          obtain ⟨x, hx⟩ := key_eval v _ key hk
          simp [evalNode, hea, heb, hec] at hx
      rw [hk]
      exact ⟨ic, ⟨labc, by simpa [register] using hlabc⟩, fun y hy => by simp [evalNode, hea, heb, hec] at hy⟩
    | some yc =>
      obtain ⟨⟨xa, hxa, sa⟩, _⟩ := va ya hea
      obtain ⟨⟨xb, hxb, sb⟩, _⟩ := vb yb heb
      obtain ⟨⟨xc, hxc, sc⟩, _⟩ := vc yc hec
      obtain ⟨l4, hl4⟩ := hreg (some (.slice xa xb xc))
      rw [hxa, hxb, hxc]
      have := resultOK_of_register v once ns _ (.slice (.slice a b c)) (poolKey v (.slice a b c))
        (.slice ya yb yc) (.slice xa xb xc) ic (by simp [Const.wf, Node.wf, hw.1.1, hw.1.2, hw.2])
        ⟨by simpa [Const.noZeroFloat] using hz, Or.inr (by simp [Const.itemsDistinct])⟩
        (by simp [constKey, poolKey]) (by simp [evalConst, evalNode, hea, heb, hec])
        (by simp [same, sa, sb, sc])
      refine ⟨this.1, prefix_trans hlabc hl4, fun y hy => ?_⟩
      simp only [evalNode, hea, heb, hec, Option.some.injEq] at hy; subst hy
      exact this.2
theorem nodes_proc (v : Variant) (once ns : Bool) : ∀ (ns' : List Node) (p : Pool), PoolInv v p → Node.wfs ns' = true →
    (v.floatSign = true ∨ Node.noZeroFloats ns' = true) →
    PoolInv v (procNodes v once ns p ns').1 ∧
      (∃ l, firstsOf (procNodes v once ns p ns').1 = firstsOf p ++ l) ∧
      ∀ ys, evalNodes ns' = some ys → ∃ xs, (procNodes v once ns p ns').2 = some xs ∧ sameL ys xs = true
  | [], p, hinv, _, _ => by
    refine ⟨hinv, ⟨[], by simp [procNodes]⟩, fun ys hy => ?_⟩
    simp only [evalNodes, Option.some.injEq] at hy; subst hy
    exact ⟨[], rfl, by simp [sameL]⟩
  | n :: rest, p, hinv, hw, hz => by
    simp only [Node.wfs, Bool.and_eq_true] at hw
    have hzn : v.floatSign = true ∨ n.noZeroFloat = true := hz.elim Or.inl (fun h => by
      simp only [Node.noZeroFloats, Bool.and_eq_true] at h; exact Or.inr h.1)
    have hzs : v.floatSign = true ∨ Node.noZeroFloats rest = true := hz.elim Or.inl (fun h => by
      simp only [Node.noZeroFloats, Bool.and_eq_true] at h; exact Or.inr h.2)
    obtain ⟨i1, ⟨l1, hl1⟩, v1⟩ := node_proc v once ns n p hinv hw.1 hzn
    obtain ⟨i2, ⟨l2, hl2⟩, v2⟩ := nodes_proc v once ns rest _ i1 hw.2 hzs
    simp only [procNodes]
    refine ⟨i2, prefix_trans hl1 hl2, fun ys hy => ?_⟩
    simp only [evalNodes] at hy
    cases hn : evalNode n with
    | none => simp [hn] at hy
    | some y =>
    cases hns : evalNodes rest with
    | none => simp [hn, hns] at hy
    | some ys' =>
      simp [hn, hns] at hy; subst hy
      obtain ⟨⟨x, hx, sx⟩, _⟩ := v1 y hn
      obtain ⟨xs, hxs, sxs⟩ := v2 ys' hns
      rw [hx, hxs]
      exact ⟨x :: xs, rfl, by simp [sameL, sx, sxs]⟩
end

end CyVerif.C09

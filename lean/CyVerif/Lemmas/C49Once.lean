import CyVerif.Lemmas.C49Observe
/-! "Each written fragment exactly once": the fragments of the document after a
guarded step are a permutation of the old fragments plus the newly written one
(for every operation except `reset`, which discards text by design). -/
namespace CyVerif.C49
open Forest

def fragOf : Item → Option Frag
  | .frag s ms => some (s, ms)
  | _ => none

theorem fragsD_eq_filterMap (d : Doc) : fragsD d = d.filterMap fragOf := by
  induction d with
  | nil => rfl
  | cons a r ih => cases a <;> simp [fragsD, fragOf, List.filterMap_cons, ih]

theorem fragsD_perm {d e : Doc} (h : d.Perm e) : (fragsD d).Perm (fragsD e) := by
  rw [fragsD_eq_filterMap, fragsD_eq_filterMap]; exact h.filterMap _

theorem perm_insBefore {y : Item} {d : Doc} (h : y ∈ d) (x : Doc) :
    (insBefore y x d).Perm (x ++ d) := by
  induction d with
  | nil => cases h
  | cons a r ih =>
    by_cases e : a = y
    · rw [e, insBefore_cons_self]
    · have : y ∈ r := by
        rcases List.mem_cons.1 h with h | h
        · exact absurd h.symm e
        · exact h
      rw [insBefore_cons_ne e]
      exact (List.Perm.cons a (ih this)).trans (List.perm_middle.symm)

theorem Forest.doc_split_perm {t : Nat} {nm : Option Nat} {F : Forest} (h : (t, nm) ∈ F.rootTags) :
    F.doc.Perm ((F.removeRoot t).doc ++ (F.getRoot t).doc) := by
  induction F with
  | nil => simp [Forest.rootTags] at h
  | cons id nm' fs kd r _ ihr =>
    by_cases e : id = t
    · simp only [Forest.removeRoot, Forest.getRoot, e, if_true, Forest.doc, List.append_nil]
      exact List.perm_append_comm
    · simp only [Forest.rootTags, List.mem_cons, Prod.mk.injEq] at h
      have h' : (t, nm) ∈ r.rootTags := by
        rcases h with h | h
        · exact absurd h.1.symm e
        · exact h
      simp only [Forest.removeRoot, Forest.getRoot, e, if_false, Forest.doc]
      rw [List.append_assoc]
      exact List.Perm.append_left _ (ihr h')

/-- the fragment contributed by an operation -/
def opFrags : Op → List Frag
  | .write _ s ms => if s = "" then [] else [(s, ms)]
  | _ => []

def isReset : Op → Bool
  | .reset _ => true
  | _ => false

theorem Sim.cl_mem {σ : St} {sp : Spec} {F : Forest} (h : Sim σ sp F) {k : Nat} (hk : k < sp.n) :
    Item.cl k ∈ sp.doc := by
  obtain ⟨b, hb⟩ := h.handle_of_lt hk
  rw [← h.doc]
  exact Forest.cl_mem_doc_of_tag (h.h2t k b hb)

theorem frags_step {σ : St} {sp sp' : Spec} {F : Forest} (h : Sim σ sp F) (op : Op)
    (hnr : isReset op = false) (hs : sp.step op = some sp') :
    (fragsD sp'.doc).Perm (fragsD sp.doc ++ opFrags op) := by
  cases op with
  | new =>
    simp only [Spec.step, Option.some.injEq] at hs
    subst hs
    simp [fragsD_append, fragsD, opFrags]
  | write k s ms =>
    simp only [Spec.step] at hs
    by_cases hk : k < sp.n
    · simp only [hk, if_true] at hs
      by_cases hse : s = ""
      · subst hse
        by_cases hme : ms = []
        · subst hme
          simp only [if_true, Option.some.injEq] at hs
          subst hs
          simp [opFrags]
        · simp [hme] at hs
      · simp only [hse, if_false, Option.some.injEq] at hs
        subst hs
        simp only [opFrags, hse, if_false]
        refine (fragsD_perm (perm_insBefore (h.cl_mem hk) _)).trans ?_
        rw [fragsD_append]
        exact List.perm_append_comm
    · simp [hk] at hs
  | ip k =>
    simp only [Spec.step] at hs
    by_cases hk : k < sp.n
    · simp only [hk, if_true, Option.some.injEq] at hs
      subst hs
      refine (fragsD_perm (perm_insBefore (h.cl_mem hk) _)).trans ?_
      simp [fragsD, opFrags]
    · simp [hk] at hs
  | insert k t =>
    simp only [Spec.step] at hs
    by_cases hg : k < sp.n ∧ t ∈ sp.roots ∧ t ≠ k ∧ Item.cl k ∉ region t sp.doc
    · obtain ⟨hk, hroot, htk, hout⟩ := hg
      simp only [hk, hroot, htk, hout, ne_eq, not_false_eq_true, and_self, if_true,
        Option.some.injEq] at hs
      subst hs
      obtain ⟨id, hid⟩ := Forest.rootTag_of_rootName (h.roots ▸ hroot)
      obtain ⟨hdocR, hdocT⟩ := Forest.doc_removeRoot F hid h.ids h.names
      have hsplit := Forest.doc_split_perm hid
      rw [h.doc] at hdocR hdocT hsplit
      rw [hdocR, hdocT] at hsplit
      -- the cursor of `k` survives the cut
      have hclk : Item.cl k ∈ cut t sp.doc := by
        rcases List.mem_append.1 (hsplit.mem_iff.1 (h.cl_mem hk)) with hm | hm
        · exact hm
        · rcases List.mem_cons.1 hm with e | hm
          · cases e
          · rcases List.mem_append.1 hm with hm | hm
            · exact absurd hm hout
            · have e := List.mem_singleton.1 hm
              injection e with e
              exact absurd e.symm htk
      simp only [opFrags, List.append_nil]
      refine (fragsD_perm (perm_insBefore hclk _)).trans ?_
      rw [List.cons_append]
      exact fragsD_perm (List.perm_append_comm.trans hsplit.symm)
    · simp [hg] at hs
  | commit k =>
    simp only [Spec.step] at hs
    by_cases hk : k < sp.n
    · simp only [hk, if_true, Option.some.injEq] at hs
      subst hs
      simp [opFrags]
    · simp [hk] at hs
  | reset k => simp [isReset] at hnr

end CyVerif.C49

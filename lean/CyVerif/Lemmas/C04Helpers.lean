import CyVerif.Lemmas.C04Arith
import CyVerif.Lemmas.IntDiv
/-!
Exactness of every checked helper of `Overflow.c` in the portable branch:
each returns the wrapped exact result and sets the flag iff the exact result is
not representable — i.e. it coincides with the `__builtin_*_overflow` branch.
-/
namespace CyVerif.C04

theorem decide_ne_comm (x y : Int) : decide (x ≠ y) = decide (y ≠ x) := by
  by_cases h : x = y
  · subst h; rfl
  · have h' : ¬ y = x := fun e => h e.symm
    simp [h, h']

/-! ### signed add -/

theorem sadd_widen {w wl : Nat} (hw : 1 ≤ w) (h : w < wl) {a b : Int} (ha : InR true w a) (hb : InR true w b) :
    sadd wl a b = .ok (a + b) := by
  have hm := two_pow_split hw
  have hmono : (2 : Int) ^ w ≤ (2 : Int) ^ (wl - 1) := two_pow_mono (by omega)
  rw [inR_signed] at ha hb
  unfold sadd
  rw [if_pos]
  rw [inR_signed]; omega

theorem widen_result {w : Nat} (_hw : 1 ≤ w) (e : Int) :
    (wrap true w e, decide (e ≠ wrap true w e)) = builtinOvf true w e := by
  unfold builtinOvf; rw [decide_ne_comm]

theorem addS_xor {P : Plat} (hP : 1 ≤ P.wint) {w : Nat} (hw : 1 ≤ w) {a b : Int}
    (ha : InR true w a) (hb : InR true w b) :
    (wrap true w (((toU w a + toU w b) % 2 ^ w : Nat) : Int),
      flagOf P (topBit w ((toU w a ^^^ (toU w a + toU w b) % 2 ^ w) &&& (toU w b ^^^ (toU w a + toU w b) % 2 ^ w))))
      = builtinOvf true w (a + b) := by
  have hm := two_pow_split hw
  have hmn := two_pow_split_nat hw
  have hp := two_pow_pos' (w - 1)
  have hua := toU_lt w a
  have hub := toU_lt w b
  have hr : (toU w a + toU w b) % 2 ^ w < 2 ^ w := Nat.mod_lt _ (Nat.two_pow_pos w)
  rw [signTrick hP hw hua hr hub hr, builtinOvf_eq hw]
  have hca := toU_signed hw ha
  have hcb := toU_signed hw hb
  have hrv := mod_small2 (s := toU w a + toU w b) (M := 2 ^ w) (by omega)
  have hc1 := two_pow_cast w
  have hc2 := two_pow_cast (w - 1)
  rw [inR_signed] at ha hb
  generalize toU w a = ua at *
  generalize toU w b = ub at *
  generalize (ua + ub) % 2 ^ w = r at *
  have key : ∃ k : Int, (r : Int) = (a + b) + k * (2 : Int) ^ w := by
    by_cases h1 : a < 0 <;> by_cases h2 : b < 0 <;> simp only [h1, h2, if_true, if_false] at hca hcb <;>
      split at hrv <;>
      first | exact ⟨0, by omega⟩ | exact ⟨1, by omega⟩ | exact ⟨2, by omega⟩ | exact ⟨-1, by omega⟩
  obtain ⟨k, hk⟩ := key
  congr 1
  · rw [hk, wrap_add_mul hw]
  · rw [Bool.eq_iff_iff]
    simp only [inR_signed]
    simp only [Bool.and_eq_true, bne_iff_ne, ne_eq, decide_eq_decide, not_and, Int.not_le, decide_eq_true_eq]
    have hca' : ((ua : Int) = a + (2 : Int) ^ w ∧ a < 0) ∨ ((ua : Int) = a ∧ 0 ≤ a) := by
      split at hca <;> omega
    have hcb' : ((ub : Int) = b + (2 : Int) ^ w ∧ b < 0) ∨ ((ub : Int) = b ∧ 0 ≤ b) := by
      split at hcb <;> omega
    have hrv' : (r = ua + ub ∧ ua + ub < 2 ^ w) ∨ (r + 2 ^ w = ua + ub ∧ 2 ^ w ≤ ua + ub) := by
      split at hrv <;> omega
    clear hca hcb hrv
    omega

end CyVerif.C04

namespace CyVerif.C04

theorem addS_portable_eq {P : Plat} (hP : 1 ≤ P.wint) {w : Nat} (hw : 1 ≤ w) {a b : Int}
    (ha : InR true w a) (hb : InR true w b) :
    addS_portable P w a b = .ok (builtinOvf true w (a + b)) := by
  unfold addS_portable
  split
  · rename_i h
    rw [sadd_widen hw h ha hb]
    simp only [bind, Except.bind, pure, Except.pure]
    rw [widen_result hw]
  · split
    · rename_i h
      rw [sadd_widen hw h ha hb]
      simp only [bind, Except.bind, pure, Except.pure]
      rw [widen_result hw]
    · simp only [pure, Except.pure]
      rw [addS_xor hP hw ha hb]

/-! ### signed sub -/

theorem subS_portable_eq {P : Plat} (hP : 1 ≤ P.wint) {w : Nat} (hw : 1 ≤ w) {a b : Int}
    (ha : InR true w a) (hb : InR true w b) :
    subS_portable P w a b = .ok (builtinOvf true w (a - b)) := by
  unfold subS_portable
  simp only [pure, Except.pure]
  congr 1
  have hm := two_pow_split hw
  have hmn := two_pow_split_nat hw
  have hp := two_pow_pos' (w - 1)
  have hua := toU_lt w a
  have hub := toU_lt w b
  have hr : (toU w a + 2 ^ w - toU w b) % 2 ^ w < 2 ^ w := Nat.mod_lt _ (Nat.two_pow_pos w)
  rw [signTrick hP hw hua hub hua hr, builtinOvf_eq hw]
  have hca := toU_signed hw ha
  have hcb := toU_signed hw hb
  have hrv := mod_small2 (s := toU w a + 2 ^ w - toU w b) (M := 2 ^ w) (by omega)
  have hc1 := two_pow_cast w
  have hc2 := two_pow_cast (w - 1)
  rw [inR_signed] at ha hb
  generalize toU w a = ua at *
  generalize toU w b = ub at *
  generalize (ua + 2 ^ w - ub) % 2 ^ w = r at *
  have hca' : ((ua : Int) = a + (2 : Int) ^ w ∧ a < 0) ∨ ((ua : Int) = a ∧ 0 ≤ a) := by
    split at hca <;> omega
  have hcb' : ((ub : Int) = b + (2 : Int) ^ w ∧ b < 0) ∨ ((ub : Int) = b ∧ 0 ≤ b) := by
    split at hcb <;> omega
  have hrv' : (r + ub = ua + 2 ^ w ∧ ua + 2 ^ w - ub < 2 ^ w) ∨ (r + ub = ua ∧ 2 ^ w ≤ ua + 2 ^ w - ub) := by
    split at hrv <;> omega
  clear hca hcb hrv
  have key : ∃ k : Int, (r : Int) = (a - b) + k * (2 : Int) ^ w := by
    rcases hca' with h1 | h1 <;> rcases hcb' with h2 | h2 <;> rcases hrv' with h3 | h3 <;>
      first | exact ⟨0, by omega⟩ | exact ⟨1, by omega⟩ | exact ⟨2, by omega⟩ | exact ⟨-1, by omega⟩
  obtain ⟨k, hk⟩ := key
  congr 1
  · rw [hk, wrap_add_mul hw]
  · rw [Bool.eq_iff_iff]
    simp only [inR_signed]
    simp only [Bool.and_eq_true, bne_iff_ne, ne_eq, decide_eq_decide, not_and, Int.not_le, decide_eq_true_eq]
    omega

/-! ### division-based bounds -/

theorem tdiv_lt_iff_pp {x b a : Int} (hx : 0 ≤ x) (hb : 0 < b) : x.tdiv b < a ↔ x < a * b := by
  rw [Int.tdiv_eq_ediv_of_nonneg hx]; exact Int.ediv_lt_iff_lt_mul hb

theorem lt_tdiv_iff_np {x b a : Int} (hx : x ≤ 0) (hb : 0 < b) : a < x.tdiv b ↔ a * b < x := by
  have h := tdiv_lt_iff_pp (x := -x) (a := -a) (by omega) hb
  rw [Int.neg_tdiv, Int.neg_mul] at h
  omega

theorem tdiv_lt_iff_nn {x b a : Int} (hx : x ≤ 0) (hb : b < 0) : x.tdiv b < a ↔ a * b < x := by
  have h := tdiv_lt_iff_pp (x := -x) (b := -b) (a := a) (by omega) (by omega)
  rw [Int.neg_tdiv, Int.tdiv_neg, Int.neg_neg, Int.mul_neg] at h
  omega

theorem lt_tdiv_iff_pn {x b a : Int} (hx : 0 ≤ x) (hb : b < 0) : a < x.tdiv b ↔ x < a * b := by
  have h := tdiv_lt_iff_pp (x := x) (b := -b) (a := -a) hx (by omega)
  rw [Int.tdiv_neg, Int.neg_mul, Int.mul_neg, Int.neg_neg] at h
  omega

theorem pyxMin_eq {w : Nat} (hw : 2 ≤ w) (sg : Bool) : pyxMin sg w = tmin sg w := by
  have h1 := two_pow_split (w := w - 1) (by omega)
  have : w - 1 - 1 = w - 2 := by omega
  rw [this] at h1
  cases sg
  · simp [pyxMin, tmin]
  · simp only [pyxMin, tmin, pyxHalfMax, if_true]; omega

theorem pyxMax_eq {w : Nat} (hw : 2 ≤ w) (sg : Bool) : pyxMax sg w = tmax sg w := by
  cases sg
  · simp [pyxMax, tmax]
  · simp only [pyxMax, if_true, pyxMin_eq hw]; simp [tmin, tmax]

theorem wrap_emod {sg : Bool} {w : Nat} (hw : 1 ≤ w) (x : Int) :
    wrap sg w (x % (2 : Int) ^ w) = wrap sg w x := by
  have := Int.emod_add_mul_ediv x ((2 : Int) ^ w)
  have h2 : x % (2 : Int) ^ w = x + (-(x / (2 : Int) ^ w)) * (2 : Int) ^ w := by
    rw [Int.neg_mul, Int.mul_comm]; omega
  rw [h2, wrap_add_mul hw]

theorem mul_toU_wrap {w : Nat} (hw : 1 ≤ w) (a b : Int) :
    wrap true w (((toU w a * toU w b) % 2 ^ w : Nat) : Int) = wrap true w (a * b) := by
  rw [Int.natCast_emod, Int.natCast_mul, toU_cast, toU_cast, two_pow_cast, ← Int.mul_emod, wrap_emod hw]

theorem mulConstS_noswap {w : Nat} (hw : 2 ≤ w) {a b : Int} (ha : InR true w a) (hb : InR true w b) :
    mulConstS_portable w false a b = .ok (builtinOvf true w (a * b)) := by
  have hw1 : 1 ≤ w := by omega
  have hm := two_pow_split hw1
  have hp := two_pow_pos' (w - 1)
  unfold mulConstS_portable
  simp only [Bool.false_eq_true, if_false]
  rw [mul_toU_wrap hw1, builtinOvf_eq hw1, pyxMin_eq hw, pyxMax_eq hw]
  have hmin : tmin true w = -(2 : Int) ^ (w - 1) := by simp [tmin]
  have hmax : tmax true w = (2 : Int) ^ (w - 1) - 1 := by simp [tmax]
  rw [inR_signed] at ha hb
  split
  · rename_i h1
    have c1 : cdiv true w (tmax true w) b = .ok ((tmax true w).tdiv b) := by
      unfold cdiv; rw [if_neg (by omega), if_neg (by omega)]
    have c2 : cdiv true w (tmin true w) b = .ok ((tmin true w).tdiv b) := by
      unfold cdiv; rw [if_neg (by omega), if_neg (by omega)]
    rw [c1, c2]
    simp only [bind, Except.bind, pure, Except.pure]
    congr 2
    rw [Bool.eq_iff_iff]
    simp only [inR_signed, Bool.or_eq_true, decide_eq_true_eq]
    rw [tdiv_lt_iff_pp (by omega) (by omega), lt_tdiv_iff_np (by omega) (by omega)]
    omega
  · split
    · rename_i h1 h2
      subst h2
      simp only [pure, Except.pure]
      congr 2
      rw [Bool.eq_iff_iff]
      simp only [inR_signed, decide_eq_true_eq]
      omega
    · split
      · rename_i h1 h2 h3
        have c1 : cdiv true w (tmax true w) b = .ok ((tmax true w).tdiv b) := by
          unfold cdiv; rw [if_neg (by omega), if_neg (by omega)]
        have c2 : cdiv true w (tmin true w) b = .ok ((tmin true w).tdiv b) := by
          unfold cdiv; rw [if_neg (by omega), if_neg (by omega)]
        rw [c1, c2]
        simp only [bind, Except.bind, pure, Except.pure]
        congr 2
        rw [Bool.eq_iff_iff]
        simp only [inR_signed, Bool.or_eq_true, decide_eq_true_eq]
        rw [tdiv_lt_iff_nn (by omega) (by omega), lt_tdiv_iff_pn (by omega) (by omega)]
        omega
      · rename_i h1 h2 h3
        simp only [pure, Except.pure]
        congr 2
        have hb01 : b = 0 ∨ b = 1 := by omega
        rw [Bool.eq_iff_iff]
        simp only [inR_signed, decide_eq_true_eq]
        rcases hb01 with h | h <;> subst h <;> simp <;> omega

end CyVerif.C04

import CyVerif.Model.C49
/-!
List-level facts about the flat-document operations of `Model/C49Spec.lean`
(`insBefore`, `before`, `after`, `region`, `cut`, `clearRegion`, `textD`, …).
-/
namespace CyVerif.C49

@[simp] theorem insBefore_nil (y : Item) (x : Doc) : insBefore y x [] = [] := rfl

theorem insBefore_cons_self (y : Item) (x r : Doc) : insBefore y x (y :: r) = x ++ y :: r := by
  simp [insBefore]

theorem insBefore_cons_ne {a y : Item} (h : a ≠ y) (x r : Doc) :
    insBefore y x (a :: r) = a :: insBefore y x r := by
  simp [insBefore, h]

theorem insBefore_empty (y : Item) (d : Doc) : insBefore y [] d = d := by
  induction d with
  | nil => rfl
  | cons a r ih => by_cases h : a = y <;> simp [insBefore, h, ih]

theorem insBefore_append_of_mem {y : Item} {A : Doc} (h : y ∈ A) (x B : Doc) :
    insBefore y x (A ++ B) = insBefore y x A ++ B := by
  induction A with
  | nil => cases h
  | cons a r ih =>
    by_cases e : a = y
    · simp [insBefore, e]
    · have : y ∈ r := by
        rcases List.mem_cons.1 h with h | h
        · exact absurd h.symm e
        · exact h
      simp [insBefore, e, ih this]

theorem insBefore_append_of_not_mem {y : Item} {A : Doc} (h : y ∉ A) (x B : Doc) :
    insBefore y x (A ++ B) = A ++ insBefore y x B := by
  induction A with
  | nil => rfl
  | cons a r ih =>
    have e : a ≠ y := fun e => h (by simp [e])
    have : y ∉ r := fun m => h (List.mem_cons_of_mem _ m)
    simp [insBefore, e, ih this]

theorem after_append_of_not_mem {y : Item} {A : Doc} (h : y ∉ A) (B : Doc) :
    after y (A ++ B) = after y B := by
  induction A with
  | nil => rfl
  | cons a r ih =>
    have e : a ≠ y := fun e => h (by simp [e])
    have : y ∉ r := fun m => h (List.mem_cons_of_mem _ m)
    simp [after, e, ih this]

theorem after_append_of_mem {y : Item} {A : Doc} (h : y ∈ A) (B : Doc) :
    after y (A ++ B) = after y A ++ B := by
  induction A with
  | nil => cases h
  | cons a r ih =>
    by_cases e : a = y
    · simp [after, e]
    · have : y ∈ r := by
        rcases List.mem_cons.1 h with h | h
        · exact absurd h.symm e
        · exact h
      simp [after, e, ih this]

theorem before_append_of_not_mem {y : Item} {A : Doc} (h : y ∉ A) (B : Doc) :
    before y (A ++ B) = A ++ before y B := by
  induction A with
  | nil => rfl
  | cons a r ih =>
    have e : a ≠ y := fun e => h (by simp [e])
    have : y ∉ r := fun m => h (List.mem_cons_of_mem _ m)
    simp [before, e, ih this]

theorem before_append_of_mem {y : Item} {A : Doc} (h : y ∈ A) (B : Doc) :
    before y (A ++ B) = before y A := by
  induction A with
  | nil => cases h
  | cons a r ih =>
    by_cases e : a = y
    · simp [before, e]
    · have : y ∈ r := by
        rcases List.mem_cons.1 h with h | h
        · exact absurd h.symm e
        · exact h
      simp [before, e, ih this]

theorem after_cons_self (y : Item) (r : Doc) : after y (y :: r) = r := by simp [after]
theorem before_cons_self (y : Item) (r : Doc) : before y (y :: r) = [] := by simp [before]

theorem before_of_not_mem {y : Item} {A : Doc} (h : y ∉ A) : before y A = A := by
  have := before_append_of_not_mem h []
  simpa [before] using this

theorem after_of_not_mem {y : Item} {A : Doc} (h : y ∉ A) : after y A = [] := by
  have := after_append_of_not_mem h []
  simpa [after] using this

/-- A document in which the segment of `k` is visible: `A ++ op k :: inner ++ cl k :: B`. -/
theorem region_split {k : Nat} {A inner B : Doc} (hA : Item.op k ∉ A) (hi : Item.cl k ∉ inner) :
    region k (A ++ Item.op k :: (inner ++ Item.cl k :: B)) = inner := by
  unfold region
  rw [after_append_of_not_mem hA, after_cons_self, before_append_of_not_mem hi, before_cons_self]
  simp

theorem cut_split {k : Nat} {A inner B : Doc} (hA : Item.op k ∉ A) (hi : Item.cl k ∉ inner) :
    cut k (A ++ Item.op k :: (inner ++ Item.cl k :: B)) = A ++ B := by
  unfold cut
  rw [after_append_of_not_mem hA, after_cons_self, after_append_of_not_mem hi, after_cons_self,
    before_append_of_not_mem hA, before_cons_self]
  simp

theorem clearRegion_split {k : Nat} {A inner B : Doc} (hA : Item.op k ∉ A) (hi : Item.cl k ∉ inner) :
    clearRegion k (A ++ Item.op k :: (inner ++ Item.cl k :: B)) = A ++ Item.op k :: Item.cl k :: B := by
  unfold clearRegion
  rw [after_append_of_not_mem hA, after_cons_self, after_append_of_not_mem hi, after_cons_self,
    before_append_of_not_mem hA, before_cons_self]
  simp

theorem textD_append (A B : Doc) : textD (A ++ B) = textD A ++ textD B := by
  induction A with
  | nil => simp [textD]
  | cons a r ih => cases a <;> simp [textD, ih, String.append_assoc]

theorem marksD_append (A B : Doc) : marksD (A ++ B) = marksD A ++ marksD B := by
  induction A with
  | nil => simp [marksD]
  | cons a r ih => cases a <;> simp [marksD, ih]

theorem fragsD_append (A B : Doc) : fragsD (A ++ B) = fragsD A ++ fragsD B := by
  induction A with
  | nil => simp [fragsD]
  | cons a r ih => cases a <;> simp [fragsD, ih]

theorem cut_append_of_not_mem {k : Nat} {A : Doc} (hA : Item.op k ∉ A) (B : Doc) :
    cut k (A ++ B) = A ++ cut k B := by
  unfold cut
  rw [after_append_of_not_mem hA, before_append_of_not_mem hA]
  simp

theorem region_append_of_not_mem {k : Nat} {A : Doc} (hA : Item.op k ∉ A) (B : Doc) :
    region k (A ++ B) = region k B := by
  unfold region
  rw [after_append_of_not_mem hA]

theorem clearRegion_append_of_not_mem {k : Nat} {A : Doc} (hA : Item.op k ∉ A) (B : Doc) :
    clearRegion k (A ++ B) = A ++ clearRegion k B := by
  unfold clearRegion
  rw [after_append_of_not_mem hA, before_append_of_not_mem hA]
  simp

end CyVerif.C49

import CyVerif.Lemmas.C50DfaM
/-! Scanner loop, part A: the symbol stream of a cursor, the longest accepted prefix. -/
namespace CyVerif.C50

/-- the values `cur_char` takes from cursor `c` on, up to (excluding) `''` -/
def evStream (text : List Nat) (c : Cursor) : List CurChar :=
  if _h : c.curChar = .empty then [] else c.curChar :: evStream text (nextChar text c)
termination_by curMeasure text c
decreasing_by exact nextChar_measure text c (by assumption)

/-- `k` applications of `next_char()` -/
def nextN (text : List Nat) : Nat → Cursor → Cursor
  | 0, c => c
  | k + 1, c => nextN text k (nextChar text c)

/-- longest prefix of `evs` that leads from `q` to an accepting state: (length, action) -/
def bestK (d : Dfa) : Nat → List CurChar → Option (Nat × Nat)
  | q, [] => ((dstate d q).action).map fun a => (0, a)
  | q, x :: rest =>
    match (dstate d q).step x with
    | some q' =>
      match bestK d q' rest with
      | some (k, a) => some (k + 1, a)
      | none => ((dstate d q).action).map fun a => (0, a)
    | none => ((dstate d q).action).map fun a => (0, a)

/-- number of symbols the machine can read before it blocks -/
def travLen (d : Dfa) : Nat → List CurChar → Nat
  | _, [] => 0
  | q, x :: rest =>
    match (dstate d q).step x with
    | some q' => travLen d q' rest + 1
    | none => 0

/-- the prefix of length `k` is accepted with action `a` -/
def AcceptsK (d : Dfa) (q : Nat) (evs : List CurChar) (k : Nat) (a : Nat) : Prop :=
  k ≤ evs.length ∧ ∃ qk, runDfa d (some q) (evs.take k) = some qk ∧ (dstate d qk).action = some a

theorem acceptsK_zero (d : Dfa) (q : Nat) (evs : List CurChar) (a : Nat) :
    AcceptsK d q evs 0 a ↔ (dstate d q).action = some a := by
  unfold AcceptsK
  simp [runDfa]

theorem acceptsK_succ (d : Dfa) (q : Nat) (x : CurChar) (rest : List CurChar) (k a : Nat) :
    AcceptsK d q (x :: rest) (k + 1) a ↔ ∃ q', (dstate d q).step x = some q' ∧ AcceptsK d q' rest k a := by
  unfold AcceptsK
  simp only [List.length_cons, Nat.add_le_add_iff_right, List.take_succ_cons, runDfa]
  constructor
  · rintro ⟨hk, qk, hr, ha⟩
    cases hs : (dstate d q).step x with
    | none => rw [hs, runDfa_none] at hr; cases hr
    | some q' => rw [hs] at hr; exact ⟨q', rfl, hk, qk, hr, ha⟩
  · rintro ⟨q', hs, hk, qk, hr, ha⟩
    rw [hs]; exact ⟨hk, qk, hr, ha⟩

/-- `bestK` is the longest accepted prefix -/
theorem bestK_spec (d : Dfa) (evs : List CurChar) : ∀ q,
    (∀ k a, bestK d q evs = some (k, a) → AcceptsK d q evs k a ∧ ∀ k' a', AcceptsK d q evs k' a' → k' ≤ k) ∧
    (bestK d q evs = none → ∀ k a, ¬ AcceptsK d q evs k a) := by
  induction evs with
  | nil =>
    intro q
    simp only [bestK]
    refine ⟨fun k a h => ?_, fun h k a hk => ?_⟩
    · cases ha : (dstate d q).action with
      | none => simp [ha] at h
      | some a0 =>
        simp only [ha, Option.map_some, Option.some.injEq, Prod.mk.injEq] at h
        obtain ⟨rfl, rfl⟩ := h
        exact ⟨(acceptsK_zero d q [] a0).2 ha, fun k' a' hk' => by have := hk'.1; simpa using this⟩
    · have hk0 : k = 0 := by have := hk.1; simpa using this
      subst hk0
      rw [(acceptsK_zero d q [] a).1 hk] at h
      simp at h
  | cons x rest ih =>
    intro q
    have zero_case : ∀ k a, ((dstate d q).action).map (fun a => (0, a)) = some (k, a) →
        (∀ k' a', AcceptsK d q (x :: rest) (k' + 1) a' → False) →
        AcceptsK d q (x :: rest) k a ∧ ∀ k' a', AcceptsK d q (x :: rest) k' a' → k' ≤ k := by
      intro k a h hno
      cases ha : (dstate d q).action with
      | none => simp [ha] at h
      | some a0 =>
        simp only [ha, Option.map_some, Option.some.injEq, Prod.mk.injEq] at h
        obtain ⟨rfl, rfl⟩ := h
        refine ⟨(acceptsK_zero d q _ a0).2 ha, fun k' a' hk' => ?_⟩
        cases k' with
        | zero => exact Nat.le_refl _
        | succ k' => exact absurd hk' (fun h => hno k' a' h)
    have none_case : ((dstate d q).action).map (fun a => (0, a)) = none →
        (∀ k' a', AcceptsK d q (x :: rest) (k' + 1) a' → False) →
        ∀ k a, ¬ AcceptsK d q (x :: rest) k a := by
      intro h hno k a hk
      cases k with
      | zero =>
        rw [(acceptsK_zero d q _ a).1 hk] at h
        simp at h
      | succ k => exact hno k a hk
    simp only [bestK]
    cases hs : (dstate d q).step x with
    | none =>
      have hno : ∀ k' a', AcceptsK d q (x :: rest) (k' + 1) a' → False := by
        intro k' a' hk'
        obtain ⟨q', hq', _⟩ := (acceptsK_succ d q x rest k' a').1 hk'
        rw [hs] at hq'; cases hq'
      exact ⟨fun k a h => zero_case k a h hno, fun h => none_case h hno⟩
    | some q' =>
      obtain ⟨ih1, ih2⟩ := ih q'
      dsimp only
      cases hb : bestK d q' rest with
      | none =>
        dsimp only
        have hno : ∀ k' a', AcceptsK d q (x :: rest) (k' + 1) a' → False := by
          intro k' a' hk'
          obtain ⟨q'', hq'', hacc⟩ := (acceptsK_succ d q x rest k' a').1 hk'
          rw [hs] at hq''
          simp only [Option.some.injEq] at hq''
          subst hq''
          exact ih2 hb k' a' hacc
        exact ⟨fun k a h => zero_case k a h hno, fun h => none_case h hno⟩
      | some ka =>
        obtain ⟨k0, a0⟩ := ka
        obtain ⟨acc, mx⟩ := ih1 k0 a0 hb
        dsimp only
        refine ⟨fun k a h => ?_, fun h => (by simp at h)⟩
        simp only [Option.some.injEq, Prod.mk.injEq] at h
        obtain ⟨rfl, rfl⟩ := h
        refine ⟨(acceptsK_succ d q x rest k0 a0).2 ⟨q', hs, acc⟩, fun k' a' hk' => ?_⟩
        cases k' with
        | zero => omega
        | succ k' =>
          obtain ⟨q'', hq'', hacc⟩ := (acceptsK_succ d q x rest k' a').1 hk'
          rw [hs] at hq''
          simp only [Option.some.injEq] at hq''
          subst hq''
          have := mx k' a' hacc
          omega

end CyVerif.C50

import CyVerif.Lemmas.C37InvB3
/-! C37 leg 2: what the invariants say once every thread has left the region. -/
namespace CyVerif.C37

theorem allFinished_pc {c : Cfg} {st : St} (h : allFinished c st = true) : ∀ t < c.n, st.pc t = .finished := by
  intro t ht
  have := (List.all_eq_true.mp h) t (List.mem_range.mpr ht)
  simpa using this

theorem fin_not_pending {c : Cfg} {st : St} (h : allFinished c st = true) : ¬ ∃ t < c.n, pending (st.pc t) := by
  rintro ⟨t, ht, hp⟩
  exact hp.2 (allFinished_pc h t ht)

theorem fin_no_fetch {c : Cfg} {st : St} (h : allFinished c st = true) : ¬ ∃ t < c.n, st.pc t = .fetch := by
  rintro ⟨t, ht, hp⟩
  rw [allFinished_pc h t ht] at hp; cases hp

theorem fin_workers_sum {c : Cfg} {total : Nat → Nat} {st : St} (hn : 0 < c.n) (h : allFinished c st = true)
    (inv : InvA c total st) (e : Nat) :
    sumN c.n (fun t => ind (st.cur t = some e)) = ind (st.cur 0 = some e) := by
  refine sumN_single (F := fun t => ind (st.cur t = some e)) hn (fun t ht h0 => ?_)
  show ind (st.cur t = some e) = 0
  rw [inv.finCur t ht h0 (allFinished_pc h t ht)]; simp [ind]

/-- after the region: an exception ran ⇒ the slot is full; and conversely the slot only holds raised exceptions -/
theorem fin_slot_iff {c : Cfg} {total : Nat → Nat} {st : St} (h : allFinished c st = true) (inv : InvA c total st) :
    (∃ k ∈ st.ran, c.kinds k = .raise) ↔ st.slot.isSome = true := by
  constructor
  · intro hr
    rcases inv.slotOrFetch hr with h1 | h1
    · exact h1
    · exact absurd h1 (fin_no_fetch h)
  · intro hs
    obtain ⟨e, he⟩ := Option.isSome_iff_exists.mp hs
    have ho := inv.own e
    unfold owners at ho
    rw [ind_true he] at ho
    have : 0 < ind (e ∈ st.ran ∧ c.kinds e = .raise) := by omega
    exact ⟨e, (ind_pos.mp this).1, (ind_pos.mp this).2⟩

theorem fin_why4 {c : Cfg} {total : Nat → Nat} {st : St} (h : allFinished c st = true) (invA : InvA c total st)
    (invB : InvB c st) (hw : st.why = 4) : st.slot.isSome = true := by
  rcases invB.whyInv with h0 | hk
  · omega
  · rw [hw] at hk
    rcases hk with ⟨h2, _⟩ | ⟨h3, _⟩ | ⟨_, hr⟩
    · omega
    · omega
    · exact (fin_slot_iff h invA).mp hr

theorem fin_pend_zero {c : Cfg} {total : Nat → Nat} {st : St} (h : allFinished c st = true) (inv : InvA c total st)
    (x : Nat) : pend c.n st x = 0 := by
  unfold pend
  exact sumN_eq_zero (fun t ht => by rw [inv.finTodo t ht (allFinished_pc h t ht)]; rfl)

end CyVerif.C37

import CyVerif.Lemmas.C16View
/-!
`get_item_pointer`, the compile-time loop (`generate_buffer_slice_code`), the
dimension accounting of `_unellipsify`, and `__getitem__` as a whole.
-/
namespace CyVerif.C16
open PySlice

theorem pybufferIndex_direct (src : Dim) (hsub : src.suboffset = -1) (off i : Int) :
    pybufferIndex src [off] i = (PySlice.index src.shape i).map fun j => [off + j * src.stride] := by
  unfold pybufferIndex PySlice.index
  by_cases h1 : i < 0 <;> by_cases h2 : 0 ≤ i + src.shape <;> by_cases h3 : i < src.shape <;> by_cases h4 : 0 ≤ i <;>
    by_cases h5 : i + src.shape < 0 <;> by_cases h6 : src.shape ≤ i + src.shape <;> by_cases h7 : src.shape ≤ i <;>
    simp [h1, h2, h3, h4, h5, h6, h7, hsub, Res.map, addLast] <;> omega

def IdxItem : Item → Prop
  | .idx i => InSsize i
  | _ => False

/-- `get_item_pointer` over direct dimensions: all items are integers, one per dimension. -/
theorem getItemPointer_direct :
    ∀ (items : List Item) (dims : List Dim) (off : Int),
      items.length = dims.length →
      (∀ it ∈ items, IdxItem it) →
      (∀ d ∈ dims, d.suboffset = -1) →
      getItemPointer dims items [off] =
        (specSels dims items).map fun sels => [off + viewOffset sels] := by
  intro items
  induction items with
  | nil =>
    intro dims off hlen _ _
    cases dims with
    | nil => simp [getItemPointer, specSels, Res.map, viewOffset]
    | cons d ds => simp at hlen
  | cons it rest ih =>
    intro dims off hlen hidx hdir
    cases dims with
    | nil => simp at hlen
    | cons src dims =>
      have hlen' : rest.length = dims.length := by simpa using hlen
      have hp := hidx it (List.mem_cons_self ..)
      have hidx' : ∀ it ∈ rest, IdxItem it := fun x hx => hidx x (List.mem_cons_of_mem _ hx)
      have hsub := hdir src (List.mem_cons_self ..)
      have hdir' : ∀ d ∈ dims, d.suboffset = -1 := fun x hx => hdir x (List.mem_cons_of_mem _ hx)
      cases it with
      | idx i =>
        rw [specSels_cons_idx]
        simp only [getItemPointer]
        rw [toSsize_ok hp]
        simp only []
        rw [pybufferIndex_direct src hsub]
        cases hj : PySlice.index src.shape i with
        | err e => rfl
        | ok j =>
          simp only [Res.map]
          rw [ih dims (off + j * src.stride) hlen' hidx' hdir']
          cases specSels dims rest with
          | err e => rfl
          | ok l =>
            simp only [Res.map, viewOffset]
            rw [Int.add_assoc]
      | slc s e c => exact absurd hp (by simp [IdxItem])
      | ell => exact absurd hp (by simp [IdxItem])
      | none => exact absurd hp (by simp [IdxItem])
      | bad => exact absurd hp (by simp [IdxItem])

/-! ### `_unellipsify_index_tuple` -/

def PlainB : Item → Bool
  | .idx _ => true
  | .slc _ _ _ => true
  | _ => false

def isSlc : Item → Bool
  | .slc _ _ _ => true
  | _ => false

theorem scanTuple_plain : ∀ (xs : List Item) (pos : Nat) (hs : Bool) (fe : Option Nat),
    xs.all PlainB = true →
    scanTuple xs pos hs fe = .ok (hs || xs.any isSlc, fe) := by
  intro xs
  induction xs with
  | nil => intro pos hs fe _; simp [scanTuple]
  | cons x xs ih =>
    intro pos hs fe h
    simp only [List.all_cons, Bool.and_eq_true] at h
    cases x with
    | idx i => simp only [scanTuple]; rw [ih _ _ _ h.2]; simp [isSlc]
    | slc a b c => simp only [scanTuple]; rw [ih _ _ _ h.2]; simp [isSlc]
    | ell => simp [PlainB] at h
    | none => simp [PlainB] at h
    | bad => simp [PlainB] at h

theorem scanTuple_ell : ∀ (pre post : List Item) (pos : Nat) (hs : Bool),
    pre.all PlainB = true → post.all PlainB = true →
    scanTuple (pre ++ .ell :: post) pos hs .none = .ok (true, some (pos + pre.length)) := by
  intro pre
  induction pre with
  | nil =>
    intro post pos hs _ hpost
    simp only [List.nil_append, scanTuple, List.length_nil, Nat.add_zero]
    rw [scanTuple_plain post _ _ _ hpost]; simp
  | cons x xs ih =>
    intro post pos hs h hpost
    simp only [List.all_cons, Bool.and_eq_true] at h
    have e : pos + (x :: xs).length = (pos + 1) + xs.length := by simp; omega
    cases x with
    | idx i => simp only [List.cons_append, scanTuple]; rw [ih post _ _ h.2 hpost, e]
    | slc a b c => simp only [List.cons_append, scanTuple]; rw [ih post _ _ h.2 hpost, e]
    | ell => simp [PlainB] at h
    | none => simp [PlainB] at h
    | bad => simp [PlainB] at h

theorem set_append_length {α} (A : List α) (b x : α) (R : List α) :
    (A ++ b :: R).set A.length x = A ++ x :: R := by
  induction A with
  | nil => simp
  | cons a A ih => simp [ih]

/-- the write loops fill consecutive slots -/
theorem copyHead_fill : ∀ (xs A B C : List Item), B.length = xs.length →
    copyHead xs A.length (A ++ B ++ C) = .ok (A ++ xs ++ C) := by
  intro xs
  induction xs with
  | nil => intro A B C h; have : B = [] := List.eq_nil_of_length_eq_zero (by simpa using h); subst this; simp [copyHead]
  | cons x xs ih =>
    intro A B C h
    cases B with
    | nil => simp at h
    | cons b B =>
      have hB : B.length = xs.length := by simpa using h
      simp only [copyHead, pySet]
      have hk : ¬ ((A.length : Int) < 0) := by omega
      have hin : (0 : Int) ≤ (A.length : Int) ∧ ((A.length : Nat) : Int) < ((A ++ b :: B ++ C).length : Nat) := by
        simp only [List.length_append, List.length_cons]; omega
      simp only [hk, if_false, hin, and_self, if_true, Int.toNat_natCast]
      have e1 : A ++ b :: B ++ C = A ++ b :: (B ++ C) := by simp
      rw [e1, set_append_length]
      have e2 : A ++ x :: (B ++ C) = (A ++ [x]) ++ B ++ C := by simp
      have e3 : A.length + 1 = (A ++ [x]).length := by simp
      rw [e2, e3, ih (A ++ [x]) B C hB]
      simp

theorem copyTail_fill : ∀ (xs A B C : List Item), B.length = xs.length → xs.all PlainB = true →
    copyTail xs (A.length : Int) (A ++ B ++ C) = .ok (A ++ xs ++ C) := by
  intro xs
  induction xs with
  | nil => intro A B C h _; have : B = [] := List.eq_nil_of_length_eq_zero (by simpa using h); subst this; simp [copyTail]
  | cons x xs ih =>
    intro A B C h hpl
    simp only [List.all_cons, Bool.and_eq_true] at hpl
    cases B with
    | nil => simp at h
    | cons b B =>
      have hB : B.length = xs.length := by simpa using h
      have hx : x ≠ .ell := by intro hc; subst hc; simp [PlainB] at hpl
      simp only [copyTail, hx, if_false, pySet]
      have hk : ¬ ((A.length : Int) < 0) := by omega
      have hin : (0 : Int) ≤ (A.length : Int) ∧ ((A.length : Nat) : Int) < ((A ++ b :: B ++ C).length : Nat) := by
        simp only [List.length_append, List.length_cons]; omega
      simp only [hk, if_false, hin, and_self, if_true, Int.toNat_natCast]
      have e1 : A ++ b :: B ++ C = A ++ b :: (B ++ C) := by simp
      rw [e1, set_append_length]
      have e2 : A ++ x :: (B ++ C) = (A ++ [x]) ++ B ++ C := by simp
      have e3 : (A.length : Int) + 1 = ((A ++ [x]).length : Nat) := by simp
      rw [e2, e3, ih (A ++ [x]) B C hB hpl.2]
      simp

theorem unellipsifyTuple_ell (pre post : List Item) (ndim : Nat)
    (hpre : pre.all PlainB = true) (hpost : post.all PlainB = true)
    (hcount : pre.length + post.length ≤ ndim) :
    unellipsifyTuple (pre ++ .ell :: post) ndim =
      .ok (true, pre ++ List.replicate (ndim - (pre.length + post.length)) Item.full ++ post) := by
  unfold unellipsifyTuple
  rw [scanTuple_ell pre post 0 false hpre hpost]
  simp only [Nat.zero_add]
  have ht : (pre ++ Item.ell :: post).take pre.length = pre := by simp
  have hd : (pre ++ Item.ell :: post).drop (pre.length + 1) = post := by
    rw [← List.drop_drop]; simp
  rw [ht, hd]
  have hr : List.replicate ndim Item.full =
      ([] : List Item) ++ List.replicate pre.length Item.full ++
        List.replicate (ndim - pre.length) Item.full := by
    rw [List.nil_append, List.replicate_append_replicate]; congr 1; omega
  have h0 : (0 : Nat) = ([] : List Item).length := rfl
  rw [hr, h0, copyHead_fill pre [] _ _ (by simp)]
  simp only [List.nil_append]
  have hr2 : List.replicate (ndim - pre.length) Item.full =
      List.replicate (ndim - (pre.length + post.length)) Item.full ++ List.replicate post.length Item.full := by
    rw [List.replicate_append_replicate]; congr 1; omega
  have hpos : ((ndim : Int) - (((pre ++ Item.ell :: post).length : Nat) - (pre.length : Nat)) + 1) =
      ((pre ++ List.replicate (ndim - (pre.length + post.length)) Item.full).length : Nat) := by
    simp only [List.length_append, List.length_cons, List.length_replicate]
    omega
  rw [hpos, hr2]
  have e : pre ++ (List.replicate (ndim - (pre.length + post.length)) Item.full ++ List.replicate post.length Item.full) =
      (pre ++ List.replicate (ndim - (pre.length + post.length)) Item.full) ++ List.replicate post.length Item.full ++ [] := by
    simp
  rw [e, copyTail_fill post _ _ [] (by simp) hpost]
  simp

theorem scanTuple_plain0 (t : List Item) (h : t.all PlainB = true) :
    scanTuple t 0 false .none = .ok (t.any isSlc, .none) := by
  rw [scanTuple_plain t 0 false .none h]; simp

theorem unellipsifyTuple_plain (t : List Item) (ndim : Nat) (h : t.all PlainB = true) (hlen : t.length ≤ ndim) :
    unellipsifyTuple t ndim =
      .ok (t.any isSlc || decide (t.length < ndim), t ++ List.replicate (ndim - t.length) Item.full) := by
  unfold unellipsifyTuple
  rw [scanTuple_plain0 t h]
  simp only []
  by_cases hgt : ndim > t.length
  · rw [if_pos hgt]; simp [hgt]
  · rw [if_neg hgt]
    have : ndim - t.length = 0 := by omega
    have hlt : ¬ t.length < ndim := by omega
    simp [this, hlt]

theorem unellipsify_tuple_ell (v : Variant) (pre post : List Item) (ndim : Nat)
    (hpre : pre.all PlainB = true) (hpost : post.all PlainB = true)
    (hcount : pre.length + post.length ≤ ndim) :
    unellipsify v (.tuple (pre ++ .ell :: post)) ndim =
      .ok (true, pre ++ List.replicate (ndim - (pre.length + post.length)) Item.full ++ post) := by
  simp only [unellipsify, unellipsifyTupleV]
  rw [scanTuple_ell pre post 0 false hpre hpost]
  simp only [Option.isSome_some, if_true]
  have : ¬ (v.tooMany = true ∧ ((pre ++ Item.ell :: post).length : Int) - 1 > (ndim : Int)) := by
    simp only [List.length_append, List.length_cons]; omega
  rw [if_neg this]
  exact unellipsifyTuple_ell pre post ndim hpre hpost hcount

theorem unellipsify_tuple_plain (v : Variant) (t : List Item) (ndim : Nat) (h : t.all PlainB = true)
    (hlen : t.length ≤ ndim) :
    unellipsify v (.tuple t) ndim =
      .ok (t.any isSlc || decide (t.length < ndim), t ++ List.replicate (ndim - t.length) Item.full) := by
  simp only [unellipsify, unellipsifyTupleV]
  rw [scanTuple_plain0 t h]
  simp only [Option.isSome_none, Bool.false_eq_true, if_false]
  have : ¬ (v.tooMany = true ∧ (t.length : Int) - 0 > (ndim : Int)) := by omega
  rw [if_neg this]
  exact unellipsifyTuple_plain t ndim h hlen

/-! ### the reference expansion on the same inputs -/

theorem filter_isEll_plain (l : List Item) (h : l.all PlainB = true) : l.filter isEll = [] := by
  induction l with
  | nil => rfl
  | cons x xs ih =>
    simp only [List.all_cons, Bool.and_eq_true] at h
    cases x <;> simp_all [PlainB, isEll]

theorem filter_consumes_plain (l : List Item) (h : l.all PlainB = true) : l.filter consumesDim = l := by
  induction l with
  | nil => rfl
  | cons x xs ih =>
    simp only [List.all_cons, Bool.and_eq_true] at h
    cases x <;> simp_all [PlainB, consumesDim]

theorem any_bad_plain (l : List Item) (h : l.all PlainB = true) : l.any (· = Item.bad) = false := by
  induction l with
  | nil => rfl
  | cons x xs ih =>
    simp only [List.all_cons, Bool.and_eq_true] at h
    cases x <;> simp_all [PlainB]

theorem flatMap_plain (l : List Item) (r : List Item) (h : l.all PlainB = true) :
    (l.flatMap fun it => if isEll it then r else [it]) = l := by
  induction l with
  | nil => rfl
  | cons x xs ih =>
    simp only [List.all_cons, Bool.and_eq_true] at h
    cases x <;> simp_all [PlainB, isEll, List.flatMap_cons]

theorem specExpand_ell (pre post : List Item) (ndim : Nat)
    (hpre : pre.all PlainB = true) (hpost : post.all PlainB = true)
    (hcount : pre.length + post.length ≤ ndim) :
    specExpand (pre ++ .ell :: post) ndim =
      .ok (pre ++ List.replicate (ndim - (pre.length + post.length)) Item.full ++ post) := by
  unfold specExpand
  have hb : (pre ++ Item.ell :: post).any (· = Item.bad) = false := by
    simp [List.any_append, any_bad_plain pre hpre, any_bad_plain post hpost]
  have he : ((pre ++ Item.ell :: post).filter isEll).length = 1 := by
    simp [List.filter_append, List.filter_cons, filter_isEll_plain pre hpre, filter_isEll_plain post hpost, isEll]
  have hk : ((pre ++ Item.ell :: post).filter consumesDim).length = pre.length + post.length := by
    simp [List.filter_append, filter_consumes_plain pre hpre, filter_consumes_plain post hpost, consumesDim]
  simp only [hb, he, hk]
  have h1 : ¬ (1 > 1) := by omega
  have h2 : ¬ (pre.length + post.length > ndim) := by omega
  simp only [Bool.false_eq_true, if_false, h1, h2, if_true]
  rw [List.flatMap_append, List.flatMap_cons, flatMap_plain pre _ hpre, flatMap_plain post _ hpost]
  simp [isEll]

theorem specExpand_plain (t : List Item) (ndim : Nat) (h : t.all PlainB = true) (hlen : t.length ≤ ndim) :
    specExpand t ndim = .ok (t ++ List.replicate (ndim - t.length) Item.full) := by
  unfold specExpand
  simp only [any_bad_plain t h, filter_isEll_plain t h, filter_consumes_plain t h]
  have h2 : ¬ (t.length > ndim) := by omega
  simp [h2]

/-! ### `memoryview.__getitem__` -/

theorem plainB_of_plainItem {it : Item} (h : PlainItem it) : PlainB it = true := by
  cases it <;> simp_all [PlainItem, PlainB]

theorem all_plainB {l : List Item} (h : ∀ it ∈ l, PlainItem it) : l.all PlainB = true := by
  rw [List.all_eq_true]; intro x hx; exact plainB_of_plainItem (h x hx)

theorem plainItem_full : PlainItem Item.full := by simp [Item.full, PlainItem, OptIn]

/-- a full slice agrees for every repair variant -/
theorem agrees_full (v : Variant) {shape : Int} (hs : 0 ≤ shape) :
    Agrees v shape ⟨0, 0, 0, false, false, false⟩ :=
  agrees_of v hs _ (Or.inr (by simp [F9Region, negStep])) (Or.inr (Or.inl rfl))

def AgreesList (v : Variant) (dims : List Dim) (items : List Item) : Prop :=
  ∀ p ∈ dims.zip items, AgreesItem v p.1 p.2

theorem dst_init_direct : Dst.init = Dst.direct [] [] 0 := rfl

theorem extendDirect_nil (sels : List (Dim × Sel)) :
    extendDirect [] [] 0 sels = Dst.direct (viewShape sels) (viewStrides sels) (viewOffset sels) := by
  simp [extendDirect]

/-- the driver `memview_slice` on a fully expanded index -/
theorem memviewSlice_direct (v : Variant) (dims : List Dim) (items : List Item)
    (hlen : items.length = dims.length) (hplain : ∀ it ∈ items, PlainItem it)
    (hdir : ∀ d ∈ dims, d.suboffset = -1) (hag : AgreesList v dims items) :
    memviewSlice v dims items =
      (specSels dims items).map fun sels =>
        Dst.direct (viewShape sels) (viewStrides sels) (viewOffset sels) := by
  unfold memviewSlice
  rw [dst_init_direct, memviewSliceLoop_direct v items dims [] [] 0 hlen hplain hdir hag]
  cases specSels dims items with
  | err e => rfl
  | ok l => simp only [Res.map, extendDirect_nil]

def viewOut (sv : SpecView) : Out := .view (Dst.direct sv.shape sv.strides sv.offset)
def scalarOut (sv : SpecView) : Out := .scalar [sv.offset]

theorem getitem_tuple_unfold (v : Variant) (dims : List Dim) (t : List Item) :
    getitem v dims (.tuple t) =
      match unellipsify v (.tuple t) dims.length with
      | .err e => .err e
      | .ok (true, items) =>
        match memviewSlice v dims items with
        | .err e => .err e
        | .ok d => .ok (.view d)
      | .ok (false, items) =>
        match getItemPointer dims items [0] with
        | .err e => .err e
        | .ok p => .ok (.scalar p) := by
  unfold getitem; split <;> first | rfl | simp_all

theorem getitem_view_of_unellipsify (v : Variant) (dims : List Dim) (t items : List Item)
    (hu : unellipsify v (.tuple t) dims.length = .ok (true, items))
    (hs : specExpand t dims.length = .ok items)
    (hlen : items.length = dims.length) (hplain : ∀ it ∈ items, PlainItem it)
    (hdir : ∀ d ∈ dims, d.suboffset = -1) (hag : AgreesList v dims items) :
    getitem v dims (.tuple t) = (specGetitem dims (.tuple t)).map viewOut := by
  rw [getitem_tuple_unfold]
  simp only [hu, specGetitem, hs]
  rw [memviewSlice_direct v dims items hlen hplain hdir hag]
  cases specSels dims items with
  | err e => rfl
  | ok l => rfl

/-- index tuple with one `Ellipsis` -/
theorem getitem_tuple_ell (v : Variant) (dims : List Dim) (pre post : List Item)
    (hplain : ∀ it ∈ pre ++ post, PlainItem it)
    (hcount : pre.length + post.length ≤ dims.length)
    (hdir : ∀ d ∈ dims, d.suboffset = -1)
    (hag : AgreesList v dims
      (pre ++ List.replicate (dims.length - (pre.length + post.length)) Item.full ++ post)) :
    getitem v dims (.tuple (pre ++ .ell :: post)) =
      (specGetitem dims (.tuple (pre ++ .ell :: post))).map viewOut := by
  have hpre : pre.all PlainB = true := all_plainB fun x hx => hplain x (List.mem_append_left _ hx)
  have hpost : post.all PlainB = true := all_plainB fun x hx => hplain x (List.mem_append_right _ hx)
  apply getitem_view_of_unellipsify v dims _ _ (unellipsify_tuple_ell v pre post _ hpre hpost hcount)
    (specExpand_ell pre post _ hpre hpost hcount) _ _ hdir hag
  · simp only [List.length_append, List.length_replicate]; omega
  · intro it hit
    simp only [List.mem_append, List.mem_replicate] at hit
    rcases hit with (h | ⟨_, h⟩) | h
    · exact hplain it (List.mem_append_left _ h)
    · subst h; exact plainItem_full
    · exact hplain it (List.mem_append_right _ h)

/-- index tuple without `Ellipsis` that contains a slice or is shorter than `ndim` -/
theorem getitem_tuple_view (v : Variant) (dims : List Dim) (t : List Item)
    (hplain : ∀ it ∈ t, PlainItem it) (hlen : t.length ≤ dims.length)
    (hview : t.any isSlc = true ∨ t.length < dims.length)
    (hdir : ∀ d ∈ dims, d.suboffset = -1)
    (hag : AgreesList v dims (t ++ List.replicate (dims.length - t.length) Item.full)) :
    getitem v dims (.tuple t) = (specGetitem dims (.tuple t)).map viewOut := by
  have hall := all_plainB hplain
  have hu := unellipsify_tuple_plain v t dims.length hall hlen
  have hb : (t.any isSlc || decide (t.length < dims.length)) = true := by
    rcases hview with h | h
    · simp [h]
    · simp [h]
  rw [hb] at hu
  apply getitem_view_of_unellipsify v dims _ _ hu (specExpand_plain t _ hall hlen) _ _ hdir hag
  · simp only [List.length_append, List.length_replicate]; omega
  · intro it hit
    simp only [List.mem_append, List.mem_replicate] at hit
    rcases hit with h | ⟨_, h⟩
    · exact hplain it h
    · subst h; exact plainItem_full

theorem idx_not_slc {l : List Item} (h : ∀ it ∈ l, IdxItem it) : l.any isSlc = false := by
  induction l with
  | nil => rfl
  | cons x xs ih =>
    have hx := h x (List.mem_cons_self ..)
    have := ih fun y hy => h y (List.mem_cons_of_mem _ hy)
    cases x <;> simp_all [IdxItem, isSlc]

theorem plain_of_idx {it : Item} (h : IdxItem it) : PlainItem it := by
  cases it <;> simp_all [IdxItem, PlainItem]

/-- one integer per dimension: element access through `get_item_pointer` -/
theorem getitem_tuple_index (v : Variant) (dims : List Dim) (t : List Item)
    (hidx : ∀ it ∈ t, IdxItem it) (hlen : t.length = dims.length)
    (hdir : ∀ d ∈ dims, d.suboffset = -1) :
    getitem v dims (.tuple t) = (specGetitem dims (.tuple t)).map scalarOut := by
  have hall := all_plainB fun x hx => plain_of_idx (hidx x hx)
  have hu := unellipsify_tuple_plain v t dims.length hall (by omega)
  have hb : (t.any isSlc || decide (t.length < dims.length)) = false := by
    simp [idx_not_slc hidx, hlen]
  have hz : dims.length - t.length = 0 := by omega
  rw [hb, hz] at hu
  simp only [List.replicate_zero, List.append_nil] at hu
  have hs := specExpand_plain t dims.length hall (by omega)
  rw [hz] at hs
  simp only [List.replicate_zero, List.append_nil] at hs
  rw [getitem_tuple_unfold]
  simp only [hu, specGetitem, hs]
  rw [getItemPointer_direct t dims 0 hlen hidx hdir]
  cases specSels dims t with
  | err e => rfl
  | ok l => simp [Res.map, scalarOut, SpecView.ofSels]

/-! ### a single (non-tuple) index object -/

/-- `mv[i]` on a 1-D view: the fast path through `pybuffer_index` -/
theorem getitem_single_index_1d (v : Variant) (src : Dim) (hsub : src.suboffset = -1) (i : Int) (hi : InSsize i) :
    getitem v [src] (.single (.idx i)) = (specGetitem [src] (.single (.idx i))).map scalarOut := by
  have hs : specExpand [Item.idx i] 1 = .ok [Item.idx i] := by
    have := specExpand_plain [Item.idx i] 1 (by simp [PlainB]) (by simp)
    simpa using this
  simp only [getitem, toSsize_ok hi, specGetitem, List.length_singleton, hs]
  rw [pybufferIndex_direct src hsub, specSels_cons_idx]
  cases PySlice.index src.shape i with
  | err e => rfl
  | ok j => simp [Res.map, specSels, scalarOut, SpecView.ofSels, viewOffset]

/-- `mv[a:b:c]` (one slice object) on a view of any dimensionality ≥ 1 -/
theorem getitem_single_slice (v : Variant) (dims : List Dim) (hnd : 1 ≤ dims.length) (s e c : Option Int)
    (hp : PlainItem (.slc s e c)) (hdir : ∀ d ∈ dims, d.suboffset = -1)
    (hag : AgreesList v dims (.slc s e c :: List.replicate (dims.length - 1) Item.full)) :
    getitem v dims (.single (.slc s e c)) = (specGetitem dims (.single (.slc s e c))).map viewOut := by
  have hu : unellipsify v (.single (.slc s e c)) dims.length =
      .ok (true, .slc s e c :: List.replicate (dims.length - 1) Item.full) := by
    unfold unellipsify
    by_cases h1 : dims.length = 1
    · simp [h1]
    · simp [h1]
  have hs : specExpand [Item.slc s e c] dims.length =
      .ok (.slc s e c :: List.replicate (dims.length - 1) Item.full) := by
    have := specExpand_plain [Item.slc s e c] dims.length (by simp [PlainB]) (by simpa using hnd)
    simpa using this
  have hg : getitem v dims (.single (.slc s e c)) =
      match unellipsify v (.single (.slc s e c)) dims.length with
      | .err e => .err e
      | .ok (true, items) =>
        match memviewSlice v dims items with
        | .err e => .err e
        | .ok d => .ok (.view d)
      | .ok (false, items) =>
        match getItemPointer dims items [0] with
        | .err e => .err e
        | .ok p => .ok (.scalar p) := by
    unfold getitem; split <;> first | rfl | simp_all
  rw [hg, hu]
  simp only [specGetitem, hs]
  rw [memviewSlice_direct v dims _ (by simp; omega) _ hdir hag]
  · cases specSels dims (Item.slc s e c :: List.replicate (dims.length - 1) Item.full) with
    | err e => rfl
    | ok l => rfl
  · intro it hit
    simp only [List.mem_cons, List.mem_replicate] at hit
    rcases hit with h | ⟨_, h⟩
    · subst h; exact hp
    · subst h; exact plainItem_full

end CyVerif.C16

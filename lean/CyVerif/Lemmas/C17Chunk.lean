import CyVerif.Model.C17Spec
namespace CyVerif.C17

/-- plain leaves: no array fields, no two-float structs -/
def Plain (ss : List Slot) : Prop := ∀ s ∈ ss, s.arr = [] ∧ s.cplx = false

/-- REFERENCE for one item: the next `k` leaves of the dtype are `k` consecutive elements of kind `g` and size
    `size`, the first one at offset `off` -/
def Consec (g : Char) (size : Nat) : Nat → Nat → List Slot → Prop
  | 0, _, _ => True
  | _ + 1, _, [] => False
  | k + 1, off, s :: ss =>
    s.size = size ∧ (s.group = g ∨ s.group = 'H' ∨ g = 'H') ∧ s.off = off ∧ Consec g size k (off + size) ss

theorem alignUp_of_mod_zero {o a : Nat} (h : o % a = 0) : alignUp o a = o := by simp [alignUp, h]

theorem alignStep_aligned (st : St) (h : st.encPack = '@' → st.off % alignOf st.encType = 0) :
    (alignStep st).off = st.off ∧ (alignStep st).encCount = st.encCount ∧ (alignStep st).encPack = st.encPack ∧
    (alignStep st).encType = st.encType ∧ (alignStep st).isComplex = st.isComplex := by
  unfold alignStep
  by_cases hm : st.encPack = '@'
  · simp [hm, alignUp_of_mod_zero (h hm)]
  · simp [hm]

/-- The element loop of `ProcessTypeChunk` succeeds exactly when the next `k+1` leaves are the consecutive
    elements the item denotes (all dtypes made of plain leaves, all counts, all offsets). -/
theorem chunkLoop_ok_iff (g : Char) (ss : List Slot) :
    ∀ (st : St) (fuel k : Nat), st.slots = ss → Plain ss → ss ≠ [] → st.encCount = k + 1 → k + 1 < 2 ^ 64 →
      ss.length < fuel →
      (st.encPack = '@' → st.off % alignOf st.encType = 0 ∧ encSize st % alignOf st.encType = 0) →
      ((∃ st', chunkLoop g 1 fuel st = .ok st') ↔ Consec g (encSize st) (k + 1) st.off ss) := by
  induction ss with
  | nil => intro st fuel k _ _ h; exact absurd rfl h
  | cons s rest ih =>
    intro st fuel k hs hp _ hc hk hf hal
    obtain ⟨fuel, rfl⟩ : ∃ f, fuel = f + 1 := ⟨fuel - 1, by simp at hf; omega⟩
    have hsp := hp s (List.mem_cons_self ..)
    obtain ⟨hoff, h1c, h1p, h1t, h1z⟩ := alignStep_aligned st (fun hm => (hal hm).1)
    unfold chunkLoop
    split
    · next heq => rw [hs] at heq; cases heq
    · next s' rest' heq =>
      rw [hs] at heq
      obtain ⟨rfl, rfl⟩ := List.cons.inj heq
      simp only []
      generalize alignStep st = st1 at hoff h1c h1p h1t h1z
      simp only [hsp.2, Bool.false_eq_true, and_false, if_false]
      unfold Consec
      by_cases hmis : (s.size ≠ encSize st ∨ s.group ≠ g) ∧ ¬((s.group = 'H' ∨ g = 'H') ∧ s.size = encSize st)
      · rw [if_pos hmis]
        constructor
        · intro ⟨_, h⟩; cases h
        · intro ⟨h1, h2, _⟩
          rcases hmis with ⟨hm1 | hm1, hm2⟩
          · exact absurd h1 hm1
          · rcases h2 with h2 | h2 | h2
            · exact absurd h2 hm1
            · exact absurd ⟨Or.inl h2, h1⟩ hm2
            · exact absurd ⟨Or.inr h2, h1⟩ hm2
      · rw [if_neg hmis]
        have hkind : s.size = encSize st ∧ (s.group = g ∨ s.group = 'H' ∨ g = 'H') := by
          by_cases a : s.size = encSize st
          · refine ⟨a, ?_⟩
            by_cases b : s.group = g
            · exact Or.inl b
            · have : (s.group = 'H' ∨ g = 'H') ∧ s.size = encSize st :=
                Classical.not_not.mp (fun hn => hmis ⟨Or.inr b, hn⟩)
              rcases this.1 with h | h
              · exact Or.inr (Or.inl h)
              · exact Or.inr (Or.inr h)
          · exact absurd ⟨Or.inl a, fun hn => a hn.2⟩ hmis
        rw [hoff]
        by_cases ho : st.off ≠ s.off
        · rw [if_pos ho]
          constructor
          · intro ⟨_, h⟩; cases h
          · intro ⟨_, _, h3, _⟩; exact absurd h3.symm ho
        · rw [if_neg ho]
          have ho : s.off = st.off := (Classical.not_not.mp ho).symm
          have hdec : decCount st1.encCount = k := by simp [decCount, h1c, hc]
          simp only [hdec, Nat.sub_self, Nat.zero_mul, Nat.add_zero, show (1 : Nat) ≠ 0 from by decide, if_true, ite_true]
          cases rest with
          | nil =>
            simp only [if_true]
            cases k with
            | zero => simp [Consec, hkind, ho]
            | succ k => simp [Consec]
          | cons s2 rest2 =>
            simp only [reduceCtorEq, if_false]
            cases k with
            | zero => simp [Consec, hkind, ho]
            | succ k =>
              simp only [Nat.add_one_ne_zero, ne_eq, not_false_eq_true, if_true]
              have hsz : encSize { st1 with off := st.off + encSize st, encCount := k + 1, slots := s2 :: rest2 } = encSize st := by
                simp [encSize, h1p, h1t, h1z]
              have := ih { st1 with off := st.off + encSize st, encCount := k + 1, slots := s2 :: rest2 } fuel k rfl
                (fun x hx => hp x (List.mem_cons_of_mem _ hx)) (by simp) rfl (by omega) (by simp at hf ⊢; omega)
                (by
                  intro hm
                  have hm' : st.encPack = '@' := by rw [← h1p]; exact hm
                  have h2 := hal hm'
                  refine ⟨?_, ?_⟩
                  · show (st.off + encSize st) % alignOf st1.encType = 0
                    rw [h1t, Nat.add_mod, h2.1, h2.2]; simp
                  · rw [hsz]; show encSize st % alignOf st1.encType = 0
                    rw [h1t]; exact h2.2)
              simp only [Nat.add_zero]
              rw [this, hsz]
              simp [hkind, ho]

end CyVerif.C17

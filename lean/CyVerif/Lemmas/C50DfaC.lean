import CyVerif.Lemmas.C50DfaB
/-! Subset construction, part C: the merged map of a DFA state; ends of the map. -/
namespace CyVerif.C50
open CyVerif.C46 (Reach)

theorem contribChr_items (n : NFA) {m : TMap} (h : m.WF) {c : Int} (h1 : -maxint ≤ c) (h2 : c < maxint) (u : Nat) :
    ContribChr n m.items c u ↔ ∃ t ∈ m.lookup c, Reach n.eps t u := by
  unfold ContribChr
  constructor
  · rintro ⟨c0, c1, S, hm, a, b, t, ht, hr⟩
    exact ⟨t, (m.items_cover h h1 h2 t).1 ⟨c0, c1, S, hm, a, b, ht⟩, hr⟩
  · rintro ⟨t, ht, hr⟩
    obtain ⟨c0, c1, S, hm, a, b, ht'⟩ := (m.items_cover h h1 h2 t).2 ht
    exact ⟨c0, c1, S, hm, a, b, t, ht', hr⟩

theorem contribSp_items (n : NFA) {m : TMap} (h : m.WF) (k : Sp) (u : Nat) :
    ContribSp n m.items k u ↔ k ≠ .eps ∧ ∃ t ∈ m.lookupSp k, Reach n.eps t u := by
  unfold ContribSp
  constructor
  · rintro ⟨hk, S, hm, t, ht, hr⟩
    exact ⟨hk, t, (m.items_cover_sp h k t).1 ⟨S, hm, ht⟩, hr⟩
  · rintro ⟨hk, t, ht, hr⟩
    obtain ⟨S, hm, ht'⟩ := (m.items_cover_sp h k t).2 ht
    exact ⟨hk, S, hm, t, ht', hr⟩

theorem mergeStates_spec (n : NFA) (hn : n.WF) (olds : List Nat) (tm tm' : TMap) (h : tm.WF)
    (hr : mergeStates n olds tm = some tm') :
    tm'.WF ∧
    (∀ c, -maxint ≤ c → c < maxint → ∀ u, u ∈ tm'.lookup c ↔
      u ∈ tm.lookup c ∨ ∃ s ∈ olds, ∃ t ∈ (n.node s).trans.lookup c, Reach n.eps t u) ∧
    (∀ k u, u ∈ tm'.lookupSp k ↔
      u ∈ tm.lookupSp k ∨ (k ≠ .eps ∧ ∃ s ∈ olds, ∃ t ∈ (n.node s).trans.lookupSp k, Reach n.eps t u)) := by
  induction olds generalizing tm with
  | nil =>
    simp only [mergeStates, Option.some.injEq] at hr
    subst hr
    exact ⟨h, by simp, by simp⟩
  | cons s ss ih =>
    simp only [mergeStates] at hr
    cases h1 : mergeItems n (n.node s).trans.items tm with
    | none => simp [h1] at hr
    | some tm1 =>
      simp only [h1] at hr
      have hw := NFA.node_wf hn s
      obtain ⟨w1, w2, w3⟩ := mergeItems_spec n _ tm tm1 h
        (fun c0 c1 S hm => TMap.items_bounds hw hm) h1
      obtain ⟨r1, r2, r3⟩ := ih tm1 w1 hr
      refine ⟨r1, fun c hc1 hc2 u => ?_, fun k u => ?_⟩
      · rw [r2 c hc1 hc2 u, w2 c hc2 u, contribChr_items n hw hc1 hc2]
        constructor
        · rintro ((hu | ⟨t, ht, hr'⟩) | ⟨s', hs', t, ht, hr'⟩)
          · exact .inl hu
          · exact .inr ⟨s, by simp, t, ht, hr'⟩
          · exact .inr ⟨s', by simp [hs'], t, ht, hr'⟩
        · rintro (hu | ⟨s', hs', t, ht, hr'⟩)
          · exact .inl (.inl hu)
          · rcases List.mem_cons.1 hs' with e | e
            · subst e; exact .inl (.inr ⟨t, ht, hr'⟩)
            · exact .inr ⟨s', e, t, ht, hr'⟩
      · rw [r3 k u, w3 k u, contribSp_items n hw]
        constructor
        · rintro ((hu | ⟨hk, t, ht, hr'⟩) | ⟨hk, s', hs', t, ht, hr'⟩)
          · exact .inl hu
          · exact .inr ⟨hk, s, by simp, t, ht, hr'⟩
          · exact .inr ⟨hk, s', by simp [hs'], t, ht, hr'⟩
        · rintro (hu | ⟨hk, s', hs', t, ht, hr'⟩)
          · exact .inl (.inl hu)
          · rcases List.mem_cons.1 hs' with e | e
            · subst e; exact .inl (.inr ⟨hk, t, ht, hr'⟩)
            · exact .inr ⟨hk, s', e, t, ht, hr'⟩

theorem TMap.empty_lookup (c : Int) : TMap.empty.lookup c = [] := by
  unfold TMap.lookup TMap.empty lookupEnts
  simp only [List.foldl_cons, List.foldl_nil]
  split <;> rfl

theorem TMap.empty_lookupSp (k : Sp) : TMap.empty.lookupSp k = [] := rfl

/-- the union of the targets of the NFA states in `olds` on symbol `x`, epsilon-closed -/
def StepSet (n : NFA) (olds : List Nat) (x : CurChar) (u : Nat) : Prop :=
  ∃ s ∈ olds, ∃ t ∈ n.delta s x, Reach n.eps t u

/-- the map built for a DFA state describes the epsilon-closed successor set of every symbol -/
theorem merged_spec (n : NFA) (hn : n.WF) (olds : List Nat) (tm : TMap)
    (hr : mergeStates n olds TMap.empty = some tm) :
    tm.WF ∧
    (∀ c : Nat, (c : Int) < maxint → ∀ u, u ∈ tm.lookup c ↔ StepSet n olds (.chr c) u) ∧
    (∀ u, u ∈ tm.lookupSp .bol ↔ StepSet n olds .bol u) ∧
    (∀ u, u ∈ tm.lookupSp .eol ↔ StepSet n olds .eol u) ∧
    (∀ u, u ∈ tm.lookupSp .eof ↔ StepSet n olds .eof u) ∧
    tm.lookupSp .eps = [] := by
  obtain ⟨w1, w2, w3⟩ := mergeStates_spec n hn olds TMap.empty tm TMap.empty_wf hr
  refine ⟨w1, fun c hc u => ?_, fun u => ?_, fun u => ?_, fun u => ?_, ?_⟩
  · rw [w2 c (by unfold maxint; omega) hc u, TMap.empty_lookup]
    simp [StepSet, NFA.delta]
  · rw [w3 .bol u, TMap.empty_lookupSp]; simp [StepSet, NFA.delta]
  · rw [w3 .eol u, TMap.empty_lookupSp]; simp [StepSet, NFA.delta]
  · rw [w3 .eof u, TMap.empty_lookupSp]; simp [StepSet, NFA.delta]
  · cases hl : tm.lookupSp .eps with
    | nil => rfl
    | cons u us =>
      have := (w3 .eps u).1 (by rw [hl]; simp)
      rw [TMap.empty_lookupSp] at this
      simp at this

end CyVerif.C50

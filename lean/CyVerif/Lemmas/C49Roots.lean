import CyVerif.Lemmas.C49Steps4
/-! Taking a stand-alone tree out of the forest (needed for `insert`). -/
namespace CyVerif.C49
open Forest

namespace Forest

def rootTags : Forest → List (Nat × Option Nat)
  | nil => []
  | cons id nm _ _ rest => (id, nm) :: rest.rootTags

/-- the forest without the root tree at address `t` -/
def removeRoot (t : Nat) : Forest → Forest
  | nil => nil
  | cons id nm fs kd r => if id = t then r else cons id nm fs kd (removeRoot t r)

/-- the root tree at address `t` alone -/
def getRoot (t : Nat) : Forest → Forest
  | nil => nil
  | cons id nm fs kd r => if id = t then cons id nm fs kd nil else getRoot t r

theorem rootTags_sub_tags {F : Forest} {x : Nat × Option Nat} (h : x ∈ F.rootTags) : x ∈ F.tags := by
  induction F with
  | nil => simp [rootTags] at h
  | cons id nm fs kd r _ ihr =>
    simp only [rootTags, List.mem_cons] at h
    simp only [tags, List.mem_cons, List.mem_append]
    rcases h with h | h
    · exact Or.inl h
    · exact Or.inr (Or.inr (ihr h))

theorem rootTag_of_rootName {F : Forest} {t : Nat} (h : t ∈ F.rootNames) :
    ∃ id, (id, some t) ∈ F.rootTags := by
  induction F with
  | nil => simp [rootNames] at h
  | cons id nm fs kd r _ ihr =>
    simp only [rootNames, List.mem_append] at h
    rcases h with h | h
    · cases nm with
      | none => simp at h
      | some j =>
        simp at h; subst h
        exact ⟨id, by simp [rootTags]⟩
    · obtain ⟨i, hi⟩ := ihr h
      exact ⟨i, by simp [rootTags, hi]⟩

theorem tags_split {t : Nat} {nm : Option Nat} {F : Forest} (h : (t, nm) ∈ F.rootTags) :
    F.tags.Perm ((F.removeRoot t).tags ++ (F.getRoot t).tags) := by
  induction F with
  | nil => simp [rootTags] at h
  | cons id nm' fs kd r _ ihr =>
    by_cases e : id = t
    · simp only [removeRoot, getRoot, e, if_true, tags, List.append_nil]
      refine List.Perm.trans ?_ List.perm_append_comm
      simp only [List.cons_append]
      exact List.Perm.refl _
    · simp only [rootTags, List.mem_cons, Prod.mk.injEq] at h
      have h' : (t, nm) ∈ r.rootTags := by
        rcases h with h | h
        · exact absurd h.1.symm e
        · exact h
      simp only [removeRoot, getRoot, e, if_false, tags, List.cons_append]
      refine List.Perm.cons _ ?_
      rw [List.append_assoc]
      exact List.Perm.append_left _ (ihr h')

theorem rootIds_getRoot {t : Nat} {nm : Option Nat} {F : Forest} (h : (t, nm) ∈ F.rootTags) :
    (F.getRoot t).rootIds = [t] := by
  induction F with
  | nil => simp [rootTags] at h
  | cons id nm' fs kd r _ ihr =>
    by_cases e : id = t
    · simp [getRoot, e, rootIds]
    · simp only [rootTags, List.mem_cons, Prod.mk.injEq] at h
      have h' : (t, nm) ∈ r.rootTags := by
        rcases h with h | h
        · exact absurd h.1.symm e
        · exact h
      simp [getRoot, e, ihr h']

theorem NE_removeRoot {t : Nat} {F : Forest} (h : F.NE) : (F.removeRoot t).NE := by
  induction F with
  | nil => trivial
  | cons id nm fs kd r _ ihr =>
    by_cases e : id = t
    · simp only [removeRoot, e, if_true]; exact h.2.2
    · simp only [removeRoot, e, if_false]; exact ⟨h.1, h.2.1, ihr h.2.2⟩

theorem NE_getRoot {t : Nat} {F : Forest} (h : F.NE) : (F.getRoot t).NE := by
  induction F with
  | nil => trivial
  | cons id nm fs kd r _ ihr =>
    by_cases e : id = t
    · simp only [getRoot, e, if_true]; exact ⟨h.1, h.2.1, trivial⟩
    · simp only [getRoot, e, if_false]; exact ihr h.2.2

end Forest

theorem Cons_removeRoot {H : Heap} {t : Nat} {F : Forest} (h : Cons H F) : Cons H (F.removeRoot t) := by
  induction F with
  | nil => trivial
  | cons id nm fs kd r _ ihr =>
    by_cases e : id = t
    · simp only [Forest.removeRoot, e, if_true]; exact h.2.2
    · simp only [Forest.removeRoot, e, if_false]; exact ⟨h.1, h.2.1, ihr h.2.2⟩

theorem Cons_getRoot {H : Heap} {t : Nat} {F : Forest} (h : Cons H F) : Cons H (F.getRoot t) := by
  induction F with
  | nil => trivial
  | cons id nm fs kd r _ ihr =>
    by_cases e : id = t
    · subst e; simp only [Forest.getRoot, if_true]; exact ⟨h.1, h.2.1, trivial⟩
    · simp only [Forest.getRoot, e, if_false]; exact ihr h.2.2

end CyVerif.C49

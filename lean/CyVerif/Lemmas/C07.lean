import CyVerif.Model.C07
namespace CyVerif.C07

theorem powLoop_spec (m : Nat) (t b e : Nat) (ht : t < m) : powLoop m t b e = (t * b ^ e) % m := by
  fun_induction powLoop m t b e with
  | case1 t b => simp [Nat.mod_eq_of_lt ht]
  | case2 t b e he ih =>
    have hm : 0 < m := by omega
    simp only [dite_eq_ite] at ih
    rw [ih (Nat.mod_lt _ hm)]
    have hsplit : b ^ e = (if e % 2 = 1 then b else 1) * (b * b) ^ (e / 2) := by
      have hde := Nat.div_add_mod e 2
      have : b ^ e = b ^ (2 * (e / 2) + e % 2) := by rw [hde]
      rw [this, Nat.pow_add, Nat.pow_mul, Nat.pow_two]
      rcases Nat.mod_two_eq_zero_or_one e with h | h
      · simp [h]
      · simp [h, Nat.mul_comm]
    rw [hsplit]
    by_cases h2 : e / 2 = 0
    · simp [h2]
    · simp only [h2, if_false]
      rw [Nat.mul_mod, Nat.mod_mod, ← Nat.pow_mod, ← Nat.mul_mod, Nat.mul_assoc]

theorem Int.pow_emod_congr {a b m : Int} (h : a % m = b % m) (n : Nat) : a ^ n % m = b ^ n % m := by
  induction n with
  | zero => simp
  | succ n ih => rw [Int.pow_succ, Int.pow_succ, Int.mul_emod, ih, h, ← Int.mul_emod]

theorem pattern_lt (w : Nat) (x : Int) : pattern w x < 2 ^ w := by
  unfold pattern
  have hpos : (0 : Int) < ((2 ^ w : Nat) : Int) := by exact_mod_cast Nat.two_pow_pos w
  have h1 := Int.emod_lt_of_pos x hpos
  have h0 := Int.emod_nonneg x (Int.ne_of_gt hpos)
  omega

theorem pattern_cast (w : Nat) (x : Int) : ((pattern w x : Nat) : Int) = x % ((2 ^ w : Nat) : Int) := by
  unfold pattern
  have hpos : (0 : Int) < ((2 ^ w : Nat) : Int) := by exact_mod_cast Nat.two_pow_pos w
  exact Int.toNat_of_nonneg (Int.emod_nonneg x (Int.ne_of_gt hpos))

theorem pattern_nonneg_small (w : Nat) (x : Int) (h0 : 0 ≤ x) (h1 : x < ((2 ^ w : Nat) : Int)) :
    pattern w x = x.toNat := by
  unfold pattern; rw [Int.emod_eq_of_lt h0 h1]

end CyVerif.C07

import CyVerif.Lemmas.C40Expr
/-! C40: statements — stores, loops, and the soundness of the validator `cleanS`. -/
namespace CyVerif.C40

variable {F : Type}

theorem tyOf_obj (v : Nat) : tyOf objEnv v = .obj := by
  unfold tyOf objEnv; split <;> rfl

theorem storeConv_py {fo : FOps F} {t te : Ty} {v : Val F} (h : t.isPyObject = true)
    (h2 : ¬(t = .pyint ∧ te = .ucs4)) : storeConv fo t te v = .ok v := by
  unfold storeConv
  by_cases hte : t = te
  · rw [if_pos hte]
  · rw [if_neg hte, if_pos h, if_neg h2]

theorem storeConv_obj {fo : FOps F} {te : Ty} {v : Val F} : storeConv fo .obj te v = .ok v :=
  storeConv_py rfl (fun h => by cases h.1)

theorem storeConv_same {fo : FOps F} {t : Ty} {v : Val F} : storeConv fo t t v = .ok v := by
  unfold storeConv; rw [if_pos rfl]

theorem inRange_widen {t te : Ty} {n : Int} (ht : t = .clong ∨ t = .cssize) (hte : te.isPlainCInt = true)
    (h : inRange te n = true) : inRange t n = true := by
  rcases ht with rfl | rfl <;> cases te <;> simp [Ty.isPlainCInt] at hte <;>
    simp only [inRange, decide_eq_true_eq] at h ⊢ <;> omega

/-- an accepted store does not change the value, and the stored value conforms to the variable's type -/
theorem store_ok {fo : FOps F} {t te : Ty} {v : Val F} (hok : storeOK t te = true) (c : conf te v) :
    storeConv fo t te v = .ok v ∧ (t.isPyObject = false → conf t v) := by
  simp only [storeOK, decide_eq_true_eq] at hok
  by_cases hp : t.isPyObject = true
  · refine ⟨?_, fun h => by rw [hp] at h; cases h⟩
    rcases hok with ⟨_, h2⟩ | rfl | ⟨ht, _⟩
    · exact storeConv_py hp h2
    · exact storeConv_same
    · rcases ht with rfl | rfl <;> simp [Ty.isPyObject] at hp
  · rcases hok with hok | hok | ⟨ht, hte⟩
    · exact absurd hok.1 hp
    · subst hok
      exact ⟨storeConv_same, fun _ => c⟩
    · obtain ⟨n, rfl, hr⟩ := plain_conf hte c
      have hr' := inRange_widen ht hte hr
      have hnp : te.isPyObject = false := by cases te <;> simp [Ty.isPlainCInt] at hte <;> rfl
      have hnd : ¬(te = .cdouble ∨ te = .softc) := by
        intro h; rcases h with rfl | rfl <;> simp [Ty.isPlainCInt] at hte
      constructor
      · unfold storeConv
        by_cases hte' : t = te
        · rw [if_pos hte']
        · rw [if_neg hte', if_neg hp]
          rcases ht with rfl | rfl <;> simp [hnp, hnd, cInt?, hr']
      · intro _
        rcases ht with rfl | rfl <;> exact ⟨n, rfl, hr'⟩

def Ext (σ σ' : Store F) : Prop := ∀ v, (σ v).isSome = true → (σ' v).isSome = true

theorem Ext.refl' (σ : Store F) : Ext σ σ := fun _ h => h
theorem Ext.trans' {σ σ' σ'' : Store F} (h1 : Ext σ σ') (h2 : Ext σ' σ'') : Ext σ σ'' := fun v h => h2 v (h1 v h)
theorem Ext.set (σ : Store F) (v : Nat) (x : Val F) : Ext σ (σ.set v x) := by
  intro w h; unfold Store.set; split <;> simp [h]

theorem Bound.ext {S : List Nat} {σ σ' : Store F} (h : Bound S σ) (e : Ext σ σ') : Bound S σ' :=
  fun v hv => e v (h v hv)

theorem Bound.cons {S : List Nat} {σ : Store F} (h : Bound S σ) (v : Nat) (x : Val F) :
    Bound (v :: S) (σ.set v x) := by
  intro w hw
  unfold Store.set
  by_cases hwv : w = v
  · simp [hwv]
  · simp only [hwv, if_false]
    apply h
    simp only [List.contains_cons, Bool.or_eq_true, beq_iff_eq] at hw
    rcases hw with hw | hw
    · exact absurd hw hwv
    · exact hw

theorem Inv.set {Γ : Nat → Ty} {σ : Store F} (h : Inv Γ σ) (v : Nat) (x : Val F)
    (hx : (tyOf Γ v).isPyObject = false → conf (tyOf Γ v) x) : Inv Γ (σ.set v x) := by
  intro w y hy hp
  unfold Store.set at hy
  by_cases hwv : w = v
  · subst hwv; simp at hy; subst hy; exact hx hp
  · simp only [hwv, if_false] at hy; exact h w y hy hp

theorem interS_sub_l {a b : List Nat} {v : Nat} (h : (interS a b).contains v = true) : a.contains v = true := by
  simp only [interS, List.contains_iff_mem, List.mem_filter] at h ⊢
  exact h.1

theorem interS_sub_r {a b : List Nat} {v : Nat} (h : (interS a b).contains v = true) : b.contains v = true := by
  simp only [interS, List.contains_iff_mem, List.mem_filter] at h ⊢
  exact h.2

theorem condTruth_non_ucs4 {fo : FOps F} {t : Ty} (v : Val F) (h : t ≠ .ucs4) :
    condTruth fo t v = v.truth fo := by
  unfold condTruth
  cases t <;> first | rfl | exact absurd rfl h

theorem condOK_sound {fo : FOps F} {s o : Ty} (v : Val F) (h : condOK s o = true) :
    condTruth fo s v = condTruth fo o v := by
  simp only [condOK, decide_eq_true_eq] at h
  rcases h with rfl | ⟨h1, h2⟩
  · rfl
  · rw [condTruth_non_ucs4 v h1, condTruth_non_ucs4 v h2]

theorem rangeItems_bounds : ∀ (n : Nat) (lo hi st x : Int), x ∈ (rangeItems n lo hi st).1 →
    (0 < st → lo ≤ x ∧ x < hi) ∧ (¬ 0 < st → hi < x ∧ x ≤ lo) := by
  intro n
  induction n with
  | zero => intro lo hi st x hx; simp [rangeItems] at hx
  | succ n ih =>
    intro lo hi st x hx
    unfold rangeItems at hx
    by_cases hs : st > 0
    · simp only [hs, if_true] at hx
      by_cases hc : lo < hi
      · simp only [hc, decide_true, if_true, List.mem_cons] at hx
        rcases hx with rfl | hx
        · exact ⟨fun _ => ⟨Int.le_refl _, hc⟩, fun h => absurd hs h⟩
        · have := (ih (lo + st) hi st x hx).1 hs
          exact ⟨fun _ => ⟨by omega, this.2⟩, fun h => absurd hs h⟩
      · simp [hc] at hx
    · simp only [hs, if_false] at hx
      by_cases hc : lo > hi
      · simp only [hc, decide_true, if_true, List.mem_cons] at hx
        rcases hx with rfl | hx
        · exact ⟨fun h => absurd h hs, fun _ => ⟨hc, Int.le_refl _⟩⟩
        · have := (ih (lo + st) hi st x hx).2 hs
          exact ⟨fun h => absurd h hs, fun _ => ⟨this.1, by omega⟩⟩
      · simp [hc] at hx

theorem iter_agree {fS fO : Store F → Val F → Out (Flow F)} (P : Store F → Prop) (Q : Val F → Prop)
    (hstep : ∀ σ x, P σ → Q x → Agree (fS σ x) (fO σ x) ∧ ∀ σ', fS σ x = .ok (.next σ') → P σ') :
    ∀ (items : List (Val F)) (σ : Store F), (∀ x ∈ items, Q x) → P σ →
      Agree (iter fS items σ) (iter fO items σ) ∧ ∀ σ', iter fS items σ = .ok (.next σ') → P σ' := by
  intro items
  induction items with
  | nil =>
    intro σ _ hp
    exact ⟨Agree.rfl' _, fun σ' h => by simp only [iter] at h; cases h; exact hp⟩
  | cons x xs ih =>
    intro σ hq hp
    obtain ⟨hag, hpost⟩ := hstep σ x hp (hq x (List.mem_cons_self))
    have hq' : ∀ y ∈ xs, Q y := fun y hy => hq y (List.mem_cons_of_mem _ hy)
    simp only [iter]
    rcases hag with hag | hag
    · rw [← hag]
      cases hs : fS σ x with
      | ok r =>
        cases r with
        | next σ' => exact ih σ' hq' (hpost σ' hs)
        | ret v => exact ⟨Agree.rfl' _, fun σ' h => by cases h⟩
      | err e => exact ⟨Agree.rfl' _, fun σ' h => by cases h⟩
      | ub w => exact ⟨Agree.rfl' _, fun σ' h => by cases h⟩
      | unsup => exact ⟨Agree.rfl' _, fun σ' h => by cases h⟩
    · rw [hag]
      exact ⟨Or.inr rfl, fun σ' h => by cases h⟩

end CyVerif.C40

import CyVerif.Lemmas.C47Base
/-! Where a label can occur inside a text made of prefix-free slices and labels (C47). -/
namespace CyVerif.C47

/-- conditions on the label prefix under which substitution is reversible -/
structure WF (p : List Char) : Prop where
  ne : p ≠ []
  nodigit : ∀ c ∈ p, c.isDigit = false
  nodelim : ∀ c ∈ p, isDelim c = false

def Digits (d : List Char) : Prop := d ≠ [] ∧ ∀ c ∈ d, c.isDigit = true

theorem digits_toDigits (k : Nat) : Digits (Nat.toDigits 10 k) :=
  ⟨Nat.toDigits_ne_nil, fun _ hc => Nat.isDigit_of_mem_toDigits (by omega) (by omega) hc⟩

theorem toDigits_inj {j k : Nat} (h : Nat.toDigits 10 j = Nat.toDigits 10 k) : j = k := by
  have := congrArg (fun l => Nat.ofDigitChars 10 l 0) h
  simpa [Nat.ofDigitChars_ten_toDigits] using this

theorem occ_getElem? {a L b T : List Char} (h : a ++ L ++ b = T) (i : Nat) (hi : i < L.length) :
    T[a.length + i]? = L[i]? := by
  subst h
  rw [List.append_assoc, List.getElem?_append_right (by omega)]
  simp [List.getElem?_append_left hi]

theorem mem_of_getElem?_eq {l : List Char} {i : Nat} {c : Char} (h : l[i]? = some c) : c ∈ l :=
  List.mem_of_getElem? h

/-- A label cannot start inside `t` when `t` is free of the prefix and directly followed by a label:
the first digit of the candidate would sit on a character of the prefix. -/
theorem no_early {p t d d' X b : List Char} (hp : WF p) (hd' : Digits d') (ht : t ≠ [])
    (hfree : ¬ p <:+: t) (h : p ++ d' ++ ['_'] ++ b = t ++ (p ++ d ++ X)) : False := by
  have hpt : p <+: t ++ (p ++ d ++ X) := ⟨d' ++ ['_'] ++ b, by rw [← h]; simp⟩
  by_cases hlen : p.length ≤ t.length
  · have : p <+: t := List.prefix_of_prefix_length_le hpt (List.prefix_append _ _) hlen
    exact hfree this.isInfix
  · have htl : 0 < t.length := List.length_pos_iff.mpr ht
    obtain ⟨c, hc⟩ : ∃ c, d'[0]? = some c := by
      cases d' with
      | nil => exact absurd rfl hd'.1
      | cons c _ => exact ⟨c, rfl⟩
    have h1 : (p ++ d' ++ ['_'] ++ b)[p.length]? = some c := by
      rw [List.append_assoc, List.append_assoc, List.getElem?_append_right (by omega)]
      simp [List.getElem?_append_left (List.length_pos_iff.mpr hd'.1), hc]
    have h2 : (t ++ (p ++ d ++ X))[p.length]? = p[p.length - t.length]? := by
      rw [List.getElem?_append_right (by omega), List.append_assoc, List.getElem?_append_left (by omega)]
    rw [h, h2] at h1
    have hcp := hp.nodigit c (List.mem_of_getElem? h1)
    have hcd := hd'.2 c (List.mem_of_getElem? hc)
    simp [hcp] at hcd


theorem digits_sep {d' d b R : List Char} (hd' : ∀ c ∈ d', c.isDigit = true) (hd : ∀ c ∈ d, c.isDigit = true)
    (h : d' ++ '_' :: b = d ++ '_' :: R) : d' = d := by
  induction d' generalizing d with
  | nil =>
    cases d with
    | nil => rfl
    | cons c t =>
      simp only [List.nil_append, List.cons_append, List.cons.injEq] at h
      have := hd c (by simp); rw [← h.1] at this; simp at this
  | cons c t ih =>
    cases d with
    | nil =>
      simp only [List.nil_append, List.cons_append, List.cons.injEq] at h
      have := hd' c (by simp); rw [h.1] at this; simp at this
    | cons c2 t2 =>
      simp only [List.cons_append, List.cons.injEq] at h
      rw [h.1, ih (fun c hc => hd' c (by simp [hc])) (fun c hc => hd c (by simp [hc])) h.2]

theorem lbl_get_p {p d R : List Char} {i : Nat} (hi : i < p.length) :
    (p ++ d ++ ['_'] ++ R)[i]? = p[i]? := by
  rw [List.append_assoc, List.append_assoc, List.getElem?_append_left hi]

theorem lbl_get_d {p d R : List Char} {i : Nat} (h1 : p.length ≤ i) (h2 : i < p.length + d.length) :
    (p ++ d ++ ['_'] ++ R)[i]? = d[i - p.length]? := by
  rw [List.append_assoc, List.append_assoc, List.getElem?_append_right h1,
    List.getElem?_append_left (by omega)]

theorem lbl_get_R {p d R : List Char} {i : Nat} (h1 : p.length + d.length + 1 ≤ i) :
    (p ++ d ++ ['_'] ++ R)[i]? = R[i - (p.length + d.length + 1)]? := by
  rw [List.getElem?_append_right (by simp; omega)]
  congr 1; simp; omega

theorem lbl_get_pd {p d R : List Char} {i : Nat} (hi : i < p.length + d.length) :
    (p ++ d ++ ['_'] ++ R)[i]? = (p ++ d)[i]? := by
  rw [List.append_assoc, List.getElem?_append_left (by simp; omega)]

/-- Where a label `p d' _` can occur in `p d _ R` (a label followed by text `R` that is empty or
starts with a delimiter): at offset 0 with the same digits, or entirely inside `R`. -/
theorem occ_in_label {p d d' R a b : List Char} (hp : WF p) (hd : Digits d) (hd' : Digits d')
    (hR : R = [] ∨ ∃ c r, R = c :: r ∧ isDelim c = true)
    (h : a ++ (p ++ d' ++ ['_']) ++ b = p ++ d ++ ['_'] ++ R) :
    (a = [] ∧ d' = d) ∨ (p ++ d' ++ ['_']) <:+: R := by
  have hpl : 0 < p.length := List.length_pos_iff.mpr hp.ne
  have hdl : 0 < d.length := List.length_pos_iff.mpr hd.1
  have hdl' : 0 < d'.length := List.length_pos_iff.mpr hd'.1
  by_cases h0 : a.length = 0
  · have ha : a = [] := List.length_eq_zero_iff.mp h0
    subst ha
    left; refine ⟨rfl, ?_⟩
    simp only [List.nil_append, List.append_assoc, List.append_cancel_left_eq, List.cons_append] at h
    exact digits_sep hd'.2 hd.2 h
  by_cases hbig : p.length + d.length + 1 ≤ a.length
  · right
    rw [List.append_assoc] at h
    rcases List.append_eq_append_iff.mp h with ⟨as, h1, h2⟩ | ⟨bs, h1, h2⟩
    · have : as = [] := by
        have := congrArg List.length h1
        simp at this
        exact List.length_eq_zero_iff.mp (by omega)
      subst this
      simp at h2
      exact ⟨[], b, by simp [h2]⟩
    · exact ⟨bs, b, by rw [h2]; simp⟩
  · exfalso
    obtain ⟨c0, hc0⟩ : ∃ c, p[0]? = some c := ⟨p[0], by simp⟩
    have hL : (p ++ d' ++ ['_']).length = p.length + d'.length + 1 := by simp; omega
    have hget := occ_getElem? h
    by_cases h1 : a.length < p.length
    · -- the candidate's position `|p| - |a|` (inside its prefix part) meets the first digit of `d`
      have := hget (p.length - a.length) (by omega)
      have e1 : a.length + (p.length - a.length) = p.length := by omega
      rw [e1, lbl_get_d (Nat.le_refl _) (by omega), Nat.sub_self,
        ← List.append_nil (p ++ d' ++ ['_']), lbl_get_p (R := []) (by omega)] at this
      obtain ⟨c, hc⟩ : ∃ c, d[0]? = some c := ⟨d[0], by simp⟩
      rw [hc] at this
      have h3 := hp.nodigit c (List.mem_of_getElem? this.symm)
      have h4 := hd.2 c (List.mem_of_getElem? hc)
      simp [h3] at h4
    · by_cases h2 : a.length < p.length + d.length
      · -- the candidate starts on a digit
        have := hget 0 (by omega)
        rw [Nat.add_zero, lbl_get_d (by omega) h2,
          ← List.append_nil (p ++ d' ++ ['_']), lbl_get_p (R := []) hpl, hc0] at this
        have h3 := hd.2 c0 (List.mem_of_getElem? this)
        have h4 := hp.nodigit c0 (List.mem_of_getElem? hc0)
        simp [h4] at h3
      · -- the candidate starts on the final `_`; its second character must be the head of `R`
        have ha : a.length = p.length + d.length := by omega
        have := hget 1 (by omega)
        rw [lbl_get_R (by omega), ← List.append_nil (p ++ d' ++ ['_']), lbl_get_pd (R := []) (by omega)] at this
        have e1 : a.length + 1 - (p.length + d.length + 1) = 0 := by omega
        rw [e1] at this
        obtain ⟨c1, hc1⟩ : ∃ c, (p ++ d')[1]? = some c := ⟨(p ++ d')[1]'(by simp; omega), by simp⟩
        rw [hc1] at this
        have hnd : isDelim c1 = false := by
          rcases List.mem_append.mp (List.mem_of_getElem? hc1) with hm | hm
          · exact hp.nodelim c1 hm
          · have := hd'.2 c1 hm
            cases hdd : isDelim c1 with
            | false => rfl
            | true =>
              simp [isDelim] at hdd
              rcases hdd with ((hdd | hdd) | hdd) | hdd <;> subst hdd <;> simp at this
        rcases hR with rfl | ⟨c, r, rfl, hc⟩
        · simp at this
        · simp at this; subst this; simp [hnd] at hc

end CyVerif.C47

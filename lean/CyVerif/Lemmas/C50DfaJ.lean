import CyVerif.Lemmas.C50DfaI
/-! Subset construction, part J: properties of the merged map of one DFA state. -/
namespace CyVerif.C50
open CyVerif.C46 (Reach)

theorem merged_ends (n : NFA) (hn : n.WF) (he : n.EndsAgree) (olds : List Nat) (tm : TMap)
    (hr : mergeStates n olds TMap.empty = some tm) : tm.EndsAgree := by
  obtain ⟨w1, w2, _⟩ := mergeStates_spec n hn olds TMap.empty tm TMap.empty_wf hr
  unfold TMap.EndsAgree
  apply sorted_ext (TMap.lookup_sorted w1 _) (TMap.lookup_sorted w1 _)
  intro u
  rw [w2 (-maxint) (Int.le_refl _) (by unfold maxint; omega) u,
      w2 (maxint - 1) (by unfold maxint; omega) (by omega) u]
  simp only [TMap.empty_lookup, List.not_mem_nil, false_or]
  constructor
  · rintro ⟨s, hs, t, ht, hr'⟩
    exact ⟨s, hs, t, by rw [← he s]; exact ht, hr'⟩
  · rintro ⟨s, hs, t, ht, hr'⟩
    exact ⟨s, hs, t, by rw [he s]; exact ht, hr'⟩

theorem merged_items (n : NFA) (hn : n.WF) (olds : List Nat) (tm : TMap)
    (hr : mergeStates n olds TMap.empty = some tm) {ev : Ev} {K : SSet} (hm : (ev, K) ∈ tm.items) :
    Sorted K ∧ EpsClosed n K := by
  obtain ⟨w1, w2, w3⟩ := mergeStates_spec n hn olds TMap.empty tm TMap.empty_wf hr
  cases ev with
  | range c0 c1 =>
    obtain ⟨k, hk, hev, hS, _⟩ := (tm.items_range _ K ⟨c0, c1, rfl⟩).1 hm
    have hb := TMap.codeAt_bounds w1 (k := k) (by omega)
    have hlt := TMap.codeAt_lt w1.incr (a := k) (b := k + 1) (by omega) (by omega)
    have hb' := TMap.codeAt_bounds w1 (k := k + 1) (by omega)
    have hl : tm.lookup (tm.codeAt k) = K := by
      rw [hS]; exact tm.lookup_interval w1 hk (Int.le_refl _) hlt
    refine ⟨by rw [← hl]; exact TMap.lookup_sorted w1 _, ?_⟩
    apply closed_of_reach (B := fun t => ∃ s ∈ olds, t ∈ (n.node s).trans.lookup (tm.codeAt k))
    intro u
    rw [← hl, w2 _ hb.1 (by omega) u, TMap.empty_lookup]
    simp only [List.not_mem_nil, false_or]
    constructor
    · rintro ⟨s, hs, t, ht, hr'⟩; exact ⟨t, ⟨s, hs, ht⟩, hr'⟩
    · rintro ⟨t, ⟨s, hs, ht⟩, hr'⟩; exact ⟨s, hs, t, ht, hr'⟩
  | sp k0 =>
    obtain ⟨hne, hg⟩ := (tm.items_sp w1 k0 K).1 hm
    have hl : tm.lookupSp k0 = K := by unfold TMap.lookupSp; rw [hg]; rfl
    refine ⟨by rw [← hl]; exact TMap.lookupSp_sorted w1 _, ?_⟩
    apply closed_of_reach (B := fun t => k0 ≠ .eps ∧ ∃ s ∈ olds, t ∈ (n.node s).trans.lookupSp k0)
    intro u
    rw [← hl, w3 k0 u, TMap.empty_lookupSp]
    simp only [List.not_mem_nil, false_or]
    constructor
    · rintro ⟨hk, s, hs, t, ht, hr'⟩; exact ⟨t, ⟨hk, s, hs, ht⟩, hr'⟩
    · rintro ⟨t, ⟨hk, s, hs, ht⟩, hr'⟩; exact ⟨hk, s, hs, t, ht, hr'⟩

/-- a freshly created state has no transitions -/
theorem fresh_from (keys : List SSet) (a : Option Nat) : FromItems keys [] (freshD a) :=
  ⟨fun t h => (by simp [freshD] at h), fun c0 c1 t h => (by simp [freshD] at h),
   fun k t h => (by cases k <;> simp [freshD, DState.spGet] at h)⟩

theorem fresh_covers (a : Option Nat) : Covers [] (freshD a) :=
  ⟨fun _ _ h => (by cases h), fun _ _ _ h => (by cases h), fun _ _ _ h => (by cases h)⟩

/-- the transitions written for state `q` describe the successor sets -/
theorem transOK_of_items (n : NFA) (hn : n.WF) (he : n.EndsAgree) (sm' : SMap) (q : Nat) (olds : List Nat) (tm : TMap)
    (hr : mergeStates n olds TMap.empty = some tm)
    (hlen : sm'.keys.length = sm'.states.length) (hkey : sm'.key q = olds)
    (hf : FromItems sm'.keys tm.items (dstate sm'.states q)) (hc : Covers tm.items (dstate sm'.states q)) :
    TransOK n sm' q := by
  obtain ⟨w1, m1, m2, m3, m4, _⟩ := merged_spec n hn olds tm hr
  have hends := merged_ends n hn he olds tm hr
  have hko : ∀ o, sm'.keyOf o = keyOfK sm'.keys o := by intro o; cases o <;> rfl
  intro x hx
  rw [hkey, hko]
  cases x with
  | chr c =>
    obtain ⟨a, b⟩ := fast_chr w1 hends hf hc c hx
    refine ⟨fun t ht => by rw [← hlen]; exact a t ht, fun u => ?_⟩
    rw [b]; exact m1 c hx u
  | bol =>
    obtain ⟨a, b⟩ := fast_sp w1 hf hc .bol (by simp)
    refine ⟨fun t ht => by rw [← hlen]; exact a t ht, fun u => ?_⟩
    have : (dstate sm'.states q).step .bol = (dstate sm'.states q).spGet .bol := rfl
    rw [this, b]; exact m2 u
  | eol =>
    obtain ⟨a, b⟩ := fast_sp w1 hf hc .eol (by simp)
    refine ⟨fun t ht => by rw [← hlen]; exact a t ht, fun u => ?_⟩
    have : (dstate sm'.states q).step .eol = (dstate sm'.states q).spGet .eol := rfl
    rw [this, b]; exact m3 u
  | eof =>
    obtain ⟨a, b⟩ := fast_sp w1 hf hc .eof (by simp)
    refine ⟨fun t ht => by rw [← hlen]; exact a t ht, fun u => ?_⟩
    have : (dstate sm'.states q).step .eof = (dstate sm'.states q).spGet .eof := rfl
    rw [this, b]; exact m4 u
  | empty => exact absurd hx (by simp [ValidSym])

end CyVerif.C50

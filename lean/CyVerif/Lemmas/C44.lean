import CyVerif.Model.C44
/-!
Helper lemmas for C44: the varint reader inverts `encodeVarint`, each of the
three entry forms is decoded back by `decodeEntry`, and the framing facts
(first byte of an entry has bit 7 set, no other byte has).
-/
namespace CyVerif.C44

/-! ### finite bit-packing facts (checked over the whole finite range) -/

theorem chunk_bits : ∀ r, r < 64 →
    (64 ||| r) &&& 64 ≠ 0 ∧ (64 ||| r) &&& 63 = r ∧ r &&& 64 = 0 ∧ r &&& 63 = r ∧ 64 ||| r = 64 + r := by
  decide

theorem and63 (v : Nat) : v &&& 63 = v % 64 := Nat.and_two_pow_sub_one_eq_mod v 6

theorem shr6 (v : Nat) : v >>> 6 = v / 64 := by simp [Nat.shiftRight_eq_div_pow]

/-! ### varints -/

theorem readVarintRaw_encode (v : Nat) (rest : List Nat) :
    readVarintRaw (encodeVarint v ++ rest) = some (v, (encodeVarint v).length, rest) := by
  fun_induction encodeVarint v with
  | case1 v h ih =>
    have hr : v % 64 < 64 := Nat.mod_lt _ (by decide)
    obtain ⟨h1, h2, -, -, -⟩ := chunk_bits (v % 64) hr
    rw [and63 v]
    simp only [List.cons_append, readVarintRaw, h1, ne_eq, not_false_eq_true, if_true, ih, h2, List.length_cons]
    rw [shr6]
    congr 2
    omega
  | case2 v h =>
    have hv : v < 64 := by omega
    obtain ⟨-, -, h3, h4, -⟩ := chunk_bits v hv
    simp [readVarintRaw, h3, h4]

theorem encodeVarint_length_le (k : Nat) : ∀ v, v < 64 ^ (k + 1) → (encodeVarint v).length ≤ k + 1 := by
  induction k with
  | zero =>
    intro v hv
    rw [encodeVarint]
    have : ¬ 64 ≤ v := by omega
    simp [this]
  | succ k ih =>
    intro v hv
    rw [encodeVarint]
    by_cases h : 64 ≤ v
    · simp only [h, if_true, List.length_cons]
      have : v >>> 6 < 64 ^ (k + 1) := by
        rw [shr6]
        apply Nat.div_lt_of_lt_mul
        rw [← Nat.pow_succ']
        exact hv
      have := ih _ this
      omega
    · simp [h]

theorem readVarint_encode (v : Nat) (rest : List Nat) (hv : v < 4294967296) :
    readVarint (encodeVarint v ++ rest) = some (v, rest) := by
  have hl : (encodeVarint v).length ≤ 6 := encodeVarint_length_le 5 v (by
    have : (64 : Nat) ^ (5 + 1) = 68719476736 := by decide
    omega)
  simp [readVarint, readVarintRaw_encode, hl, hv]

theorem encodeVarint_lt128 (v : Nat) : ∀ b ∈ encodeVarint v, b < 128 := by
  fun_induction encodeVarint v with
  | case1 v h ih =>
    intro b hb
    have hr : v % 64 < 64 := Nat.mod_lt _ (by decide)
    obtain ⟨-, -, -, -, h5⟩ := chunk_bits (v % 64) hr
    rw [and63 v] at hb
    rcases List.mem_cons.1 hb with rfl | hb
    · omega
    · exact ih b hb
  | case2 v h =>
    intro b hb
    simp at hb
    omega

theorem encodeVarint_ne_nil (v : Nat) : encodeVarint v ≠ [] := by
  rw [encodeVarint]; split <;> simp


/-! ### shape of `decodeEntry` / `lineDelta` on each form -/

theorem decodeEntry_short (line : Int) (b s : Nat) (rest : List Nat) (h : (b >>> 3) &&& 15 < 10) :
    decodeEntry line (b :: s :: rest) =
      some (⟨line, line, (((((b >>> 3) &&& 15) <<< 3) ||| (s >>> 4) : Nat) : Int),
             ((((((b >>> 3) &&& 15) <<< 3) ||| (s >>> 4)) + (s &&& 15) : Nat) : Int)⟩,
            (b &&& 7) + 1, line, rest) := by
  have h15 : ¬ ((b >>> 3) &&& 15 = 15) := by omega
  have h14 : ¬ ((b >>> 3) &&& 15 = 14) := by omega
  have h13 : ¬ ((b >>> 3) &&& 15 = 13) := by omega
  have h10 : ¬ (10 ≤ (b >>> 3) &&& 15) := by omega
  simp only [decodeEntry, h15, h14, h13, h10, if_false]

theorem decodeEntry_oneline (line : Int) (b c e : Nat) (rest : List Nat)
    (h : 10 ≤ (b >>> 3) &&& 15) (h' : (b >>> 3) &&& 15 ≤ 12)
    (hi : inInt (line + (((b >>> 3) &&& 15) - 10 : Nat))) :
    decodeEntry line (b :: c :: e :: rest) =
      some (⟨line + (((b >>> 3) &&& 15) - 10 : Nat), line + (((b >>> 3) &&& 15) - 10 : Nat), c, e⟩,
            (b &&& 7) + 1, line + (((b >>> 3) &&& 15) - 10 : Nat), rest) := by
  have h15 : ¬ ((b >>> 3) &&& 15 = 15) := by omega
  have h14 : ¬ ((b >>> 3) &&& 15 = 14) := by omega
  have h13 : ¬ ((b >>> 3) &&& 15 = 13) := by omega
  simp only [decodeEntry, h15, h14, h13, h, hi, if_false, if_true, not_true_eq_false]

theorem decodeEntry_long (line : Int) (b u a c e : Nat) (r : List Nat)
    (h : (b >>> 3) &&& 15 = 14)
    (hu : u < 4294967296) (ha : a < 2147483648) (hc : c < 2147483648) (he : e < 2147483648)
    (hl : inInt (line + svarint u)) (hl' : inInt (line + svarint u + a)) :
    decodeEntry line (b :: (encodeVarint u ++ (encodeVarint a ++ (encodeVarint c ++ (encodeVarint e ++ r))))) =
      some (⟨line + svarint u, line + svarint u + a, (c : Int) - 1, (e : Int) - 1⟩,
            (b &&& 7) + 1, line + svarint u, r) := by
  have h15 : ¬ ((14 : Nat) = 15) := by decide
  simp only [decodeEntry, h, h15, if_false, if_true]
  rw [readVarint_encode u _ hu]
  simp only [hl, not_true_eq_false, if_false]
  rw [readVarint_encode a _ (by omega)]
  simp only [ha, hl', and_self, not_true_eq_false, if_false]
  rw [readVarint_encode c _ (by omega)]
  simp only [hc, not_true_eq_false, if_false]
  rw [readVarint_encode e _ (by omega)]
  simp only [he, not_true_eq_false, if_false]

theorem svarint_double (d : Nat) : svarint (d <<< 1) = d := by
  have h1 : (d <<< 1) &&& 1 = 0 := by
    have := Nat.and_two_pow_sub_one_eq_mod (d <<< 1) 1
    simp only [Nat.pow_one] at this
    rw [this, Nat.shiftLeft_eq]; omega
  have h2 : (d <<< 1) >>> 1 = d := by
    rw [Nat.shiftRight_eq_div_pow, Nat.shiftLeft_eq]; omega
  simp [svarint, h1, h2]


/-! ### finite facts about the first bytes -/

theorem short_bits : ∀ sc, sc < 80 → ∀ w, w < 16 →
    ((128 ||| ((sc >>> 3) <<< 3)) >>> 3) &&& 15 < 10 ∧
    ((128 ||| ((sc >>> 3) <<< 3)) &&& 7) + 1 = 1 ∧
    (((((128 ||| ((sc >>> 3) <<< 3)) >>> 3) &&& 15) <<< 3) ||| ((((sc &&& 7) <<< 4) ||| w) >>> 4)) = sc ∧
    (((sc &&& 7) <<< 4) ||| w) &&& 15 = w ∧ (((sc &&& 7) <<< 4) ||| w) < 128 ∧
    128 ≤ (128 ||| ((sc >>> 3) <<< 3)) ∧ (128 ||| ((sc >>> 3) <<< 3)) < 256 ∧
    ((128 ||| ((sc >>> 3) <<< 3)) >>> 3) ≠ 0x1f := by
  decide +kernel

theorem oneline_bits : ∀ d, d < 3 →
    ((128 ||| ((10 + d) <<< 3)) >>> 3) &&& 15 = 10 + d ∧
    ((128 ||| ((10 + d) <<< 3)) &&& 7) + 1 = 1 ∧
    128 ≤ (128 ||| ((10 + d) <<< 3)) ∧ (128 ||| ((10 + d) <<< 3)) < 256 ∧
    ((128 ||| ((10 + d) <<< 3)) >>> 3) ≠ 0x1f := by
  decide

theorem long_bits :
    ((128 ||| (14 <<< 3)) >>> 3) &&& 15 = 14 ∧ ((128 ||| (14 <<< 3)) &&& 7) + 1 = 1 ∧
    128 ≤ (128 ||| (14 <<< 3)) ∧ (128 ||| (14 <<< 3)) < 256 ∧ ((128 ||| (14 <<< 3)) >>> 3) ≠ 0x1f := by
  decide

/-- What one encoded entry looks like to the two decoders. -/
structure EntryOK (P : Params) (last : Int) (p : Pos) (bs : List Nat) : Prop where
  enc : encodeOne P last p = .ok (bs, carry P p)
  dec : ∀ rest, decodeEntry last (bs ++ rest) = some (p.toLoc, 1, p.sl, rest)
  frame : ∃ b tl, bs = b :: tl ∧ 128 ≤ b ∧ b < 256 ∧ b >>> 3 ≠ 0x1f ∧ (b &&& 7) + 1 = 1 ∧ ∀ x ∈ tl, x < 128
  delta : ∀ rest, lineDelta (bs ++ rest) = some (p.sl - last)

theorem carry_of_eq (P : Params) (p : Pos) (h : p.el = p.sl) : carry P p = p.el := by
  unfold carry; split <;> simp [h]


theorem lineDelta_short (b : Nat) (rest : List Nat) (h : (b >>> 3) &&& 15 < 10) :
    lineDelta (b :: rest) = some 0 := by
  have h15 : ¬ ((b >>> 3) &&& 15 = 15) := by omega
  have h14 : ¬ ((b >>> 3) &&& 15 = 14) := by omega
  have h13 : ¬ ((b >>> 3) &&& 15 = 13) := by omega
  have h10 : ¬ ((b >>> 3) &&& 15 = 10) := by omega
  have h11 : ¬ ((b >>> 3) &&& 15 = 11) := by omega
  have h12 : ¬ ((b >>> 3) &&& 15 = 12) := by omega
  simp only [lineDelta, h15, h14, h13, h10, h11, h12, or_self, if_false]

theorem entry_short (P : Params) (hP : P.WF) (last sl sc ec : Int)
    (hl : last = sl) (h4 : 0 ≤ sc) (hc : sc < P.shortCol) (hw0 : 0 ≤ ec - sc) (hw : ec - sc < P.shortWidth) :
    EntryOK P last ⟨sl, sl, sc, ec⟩
      [128 ||| ((sc.toNat >>> 3) <<< 3), ((sc.toNat &&& 7) <<< 4) ||| (ec - sc).toNat] := by
  obtain ⟨hP1, hP2, -, -, -⟩ := hP
  have hsc : sc.toNat < 80 := by omega
  have hwd : (ec - sc).toNat < 16 := by omega
  obtain ⟨f1, f2, f3, f4, f5, f6, f7, f8⟩ := short_bits sc.toNat hsc (ec - sc).toNat hwd
  have hn : ¬ sc < 0 := by omega
  subst hl
  refine ⟨?_, ?_, ?_, ?_⟩
  · simp only [encodeOne]
    rw [if_neg (by omega), if_pos ⟨trivial, by omega, hc, hw0, hw⟩, if_neg hn, carry_of_eq _ _ rfl]
  · intro rest
    simp only [List.cons_append, List.nil_append]
    rw [decodeEntry_short _ _ _ _ f1, f2, f3, f4]
    simp only [Pos.toLoc]
    congr 3 <;> omega
  · refine ⟨_, _, rfl, f6, f7, f8, f2, ?_⟩
    intro x hx
    simp at hx
    omega
  · intro rest
    simp only [List.cons_append]
    rw [lineDelta_short _ _ f1]
    simp


theorem lineDelta_oneline (b : Nat) (rest : List Nat) (d : Nat) (hd : d < 3) (h : (b >>> 3) &&& 15 = 10 + d) :
    lineDelta (b :: rest) = some (d : Int) := by
  have hd' : d = 0 ∨ d = 1 ∨ d = 2 := by omega
  rcases hd' with rfl | rfl | rfl <;> simp [lineDelta, h]

theorem entry_oneline (P : Params) (hP : P.WF) (last sl sc ec : Int) (h0 : 0 ≤ last)
    (hd0 : 0 ≤ sl - last) (hd : sl - last < P.oneDelta) (h3 : sl < 2147483648)
    (h4 : 0 ≤ sc) (h6 : 0 ≤ ec) (hs : sc < P.oneColS) (he : ec < P.oneColE)
    (hns : ¬ (sl = sl ∧ sl - last = 0 ∧ sc < P.shortCol ∧ 0 ≤ ec - sc ∧ ec - sc < P.shortWidth)) :
    EntryOK P last ⟨sl, sl, sc, ec⟩ [128 ||| ((10 + (sl - last).toNat) <<< 3), sc.toNat, ec.toNat] := by
  obtain ⟨-, -, hP3, hP4, hP5⟩ := hP
  have hdn : (sl - last).toNat < 3 := by omega
  obtain ⟨g1, g2, g3, g4, g5⟩ := oneline_bits (sl - last).toNat hdn
  refine ⟨?_, ?_, ?_, ?_⟩
  · unfold encodeOne
    dsimp only
    have e1 : ¬ sl < last := by omega
    have e2 : ¬ (sc < 0 ∨ ec < 0) := by omega
    rw [if_neg e1, if_neg hns, if_pos ⟨rfl, hd0, hd, hs, he⟩, if_neg e2, carry_of_eq _ _ rfl]
  · intro rest
    simp only [List.cons_append, List.nil_append]
    have hi : inInt (last + (((((128 ||| ((10 + (sl - last).toNat) <<< 3)) >>> 3) &&& 15) - 10 : Nat) : Int)) := by
      rw [g1]; unfold inInt; omega
    rw [decodeEntry_oneline _ _ _ _ _ (by omega) (by omega) hi, g1, g2]
    simp only [Pos.toLoc]
    have hsl : last + (((10 + (sl - last).toNat - 10 : Nat)) : Int) = sl := by omega
    have hsc : ((sc.toNat : Nat) : Int) = sc := by omega
    have hec : ((ec.toNat : Nat) : Int) = ec := by omega
    rw [hsl, hsc, hec]
  · refine ⟨_, _, rfl, g3, g4, g5, g2, ?_⟩
    intro x hx
    simp at hx
    omega
  · intro rest
    simp only [List.cons_append]
    rw [lineDelta_oneline _ _ _ hdn g1]
    congr 1; omega


theorem lineDelta_long (b u : Nat) (r : List Nat) (h : (b >>> 3) &&& 15 = 14) (hu : u < 4294967296) :
    lineDelta (b :: (encodeVarint u ++ r)) = some (svarint u) := by
  simp [lineDelta, h, readVarint_encode u r hu]

theorem entry_long (P : Params) (last : Int) (p : Pos) (h0 : 0 ≤ last)
    (h1 : last ≤ p.sl) (h2 : p.sl ≤ p.el) (h3 : p.el < 2147483648)
    (h4 : 0 ≤ p.sc) (h5 : p.sc < 2147483647) (h6 : 0 ≤ p.ec) (h7 : p.ec < 2147483647)
    (hns : ¬ (p.el = p.sl ∧ p.sl - last = 0 ∧ p.sc < P.shortCol ∧ 0 ≤ p.ec - p.sc ∧ p.ec - p.sc < P.shortWidth))
    (hno : ¬ (p.el = p.sl ∧ 0 ≤ p.sl - last ∧ p.sl - last < P.oneDelta ∧ p.sc < P.oneColS ∧ p.ec < P.oneColE)) :
    EntryOK P last p ((128 ||| (14 <<< 3)) ::
      (encodeVarint ((p.sl - last).toNat <<< 1) ++ encodeVarint (p.el - p.sl).toNat ++
        encodeVarint (p.sc + 1).toNat ++ encodeVarint (p.ec + 1).toNat)) := by
  obtain ⟨k1, k2, k3, k4, k5⟩ := long_bits
  have hu : (p.sl - last).toNat <<< 1 < 4294967296 := by rw [Nat.shiftLeft_eq]; omega
  have hsv : svarint ((p.sl - last).toNat <<< 1) = p.sl - last := by rw [svarint_double]; omega
  refine ⟨?_, ?_, ?_, ?_⟩
  · unfold encodeOne
    dsimp only
    have e1 : ¬ p.sl < last := by omega
    have e2 : ¬ (p.el - p.sl < 0 ∨ p.sc + 1 < 0 ∨ p.ec + 1 < 0) := by omega
    rw [if_neg e1, if_neg hns, if_neg hno, if_neg e2]
  · intro rest
    simp only [List.cons_append, List.append_assoc]
    have hl : inInt (last + svarint ((p.sl - last).toNat <<< 1)) := by rw [hsv]; unfold inInt; omega
    have hl' : inInt (last + svarint ((p.sl - last).toNat <<< 1) + ((p.el - p.sl).toNat : Nat)) := by
      rw [hsv]; unfold inInt; omega
    rw [decodeEntry_long _ _ _ _ _ _ _ k1 hu (by omega) (by omega) (by omega) hl hl', k2, hsv]
    have a1 : last + (p.sl - last) = p.sl := by omega
    have a2 : p.sl + (((p.el - p.sl).toNat : Nat) : Int) = p.el := by omega
    have a3 : (((p.sc + 1).toNat : Nat) : Int) - 1 = p.sc := by omega
    have a4 : (((p.ec + 1).toNat : Nat) : Int) - 1 = p.ec := by omega
    rw [a1, a2, a3, a4]
    rfl
  · refine ⟨_, _, rfl, k3, k4, k5, k2, ?_⟩
    intro x hx
    simp only [List.mem_append] at hx
    rcases hx with ((hx | hx) | hx) | hx <;> exact encodeVarint_lt128 _ x hx
  · intro rest
    simp only [List.cons_append, List.append_assoc]
    rw [lineDelta_long _ _ _ k1 hu, hsv]


/-- Every in-range position is encoded in one of the three forms and read back. -/
theorem entry_ok (P : Params) (hP : P.WF) (last : Int) (p : Pos) (h0 : 0 ≤ last)
    (h1 : last ≤ p.sl) (h2 : p.sl ≤ p.el) (h3 : p.el < 2147483648)
    (h4 : 0 ≤ p.sc) (h5 : p.sc < 2147483647) (h6 : 0 ≤ p.ec) (h7 : p.ec < 2147483647) :
    ∃ bs, EntryOK P last p bs := by
  by_cases hs : (p.el = p.sl ∧ p.sl - last = 0 ∧ p.sc < P.shortCol ∧ 0 ≤ p.ec - p.sc ∧ p.ec - p.sc < P.shortWidth)
  · obtain ⟨he, hd, hc, hw0, hw⟩ := hs
    obtain ⟨sl, el, sc, ec⟩ := p
    simp only at *
    subst he
    exact ⟨_, entry_short P hP last el sc ec (by omega) h4 hc hw0 hw⟩
  · by_cases ho : (p.el = p.sl ∧ 0 ≤ p.sl - last ∧ p.sl - last < P.oneDelta ∧ p.sc < P.oneColS ∧ p.ec < P.oneColE)
    · obtain ⟨he, hd0, hd, hcs, hce⟩ := ho
      obtain ⟨sl, el, sc, ec⟩ := p
      simp only at *
      subst he
      exact ⟨_, entry_oneline P hP last el sc ec h0 hd0 hd h3 h4 h6 hcs hce hs⟩
    · exact ⟨_, entry_long P last p h0 h1 h2 h3 h4 h5 h6 h7 hs ho⟩

/-! ### the loops -/

theorem bit7 : (∀ x, x < 128 → x &&& 128 = 0) ∧ (∀ b, b < 256 → 128 ≤ b → b &&& 128 ≠ 0) := by
  decide +kernel

theorem skipEntry_append (tl bs : List Nat) (htl : ∀ x ∈ tl, x < 128)
    (hbs : bs = [] ∨ ∃ b r, bs = b :: r ∧ 128 ≤ b ∧ b < 256) : skipEntry (tl ++ bs) = bs := by
  induction tl with
  | nil =>
    rcases hbs with rfl | ⟨b, r, rfl, hb1, hb2⟩
    · rfl
    · simp [skipEntry, bit7.2 b hb2 hb1]
  | cons x tl ih =>
    have hx : x &&& 128 = 0 := bit7.1 x (htl x (by simp))
    simp only [List.cons_append, skipEntry, hx, if_true]
    exact ih (fun y hy => htl y (by simp [hy]))

/-- The per-position requirements used by the induction: `last` is the line
the encoder carried and, at the same time, CPython's `computed_line`. -/
def Good (P : Params) : Int → List Pos → Prop
  | _, [] => True
  | last, p :: ps =>
    last ≤ p.sl ∧ p.sl ≤ p.el ∧ p.el < 2147483648 ∧ 0 ≤ p.sc ∧ p.sc < 2147483647 ∧
    0 ≤ p.ec ∧ p.ec < 2147483647 ∧ (ps ≠ [] → carry P p = p.sl) ∧ Good P p.sl ps

structure TableOK (P : Params) (last : Int) (ps : List Pos) (bs : List Nat) : Prop where
  enc : encodeFrom P last ps = .ok bs
  dec : ∀ fuel, bs.length < fuel → decodeLoop fuel last bs = some (ps.map Pos.toLoc)
  scan : ∀ fuel, bs.length < fuel → scanLoop fuel last bs = some (ps.map fun p => (p.sl, 1))
  head : bs = [] ∨ ∃ b r, bs = b :: r ∧ 128 ≤ b ∧ b < 256
  bytes : ∀ b ∈ bs, b < 256

theorem table_ok (P : Params) (hP : P.WF) : ∀ (ps : List Pos) (last : Int), 0 ≤ last → Good P last ps →
    ∃ bs, TableOK P last ps bs := by
  intro ps
  induction ps with
  | nil =>
    intro last _ _
    refine ⟨[], rfl, ?_, ?_, Or.inl rfl, by simp⟩
    · intro fuel hf
      cases fuel with
      | zero => simp at hf
      | succ n => rfl
    · intro fuel hf
      cases fuel with
      | zero => simp at hf
      | succ n => rfl
  | cons p ps ih =>
    intro last h0 hg
    obtain ⟨h1, h2, h3, h4, h5, h6, h7, hc, hg'⟩ := hg
    obtain ⟨bs1, e⟩ := entry_ok P hP last p h0 h1 h2 h3 h4 h5 h6 h7
    obtain ⟨bs2, t⟩ := ih p.sl (by omega) hg'
    obtain ⟨b, tl, rfl, hb1, hb2, hb3, hb4, htl⟩ := e.frame
    have hcar : encodeFrom P (carry P p) ps = encodeFrom P p.sl ps := by
      cases ps with
      | nil => rfl
      | cons q qs => rw [hc (by simp)]
    refine ⟨(b :: tl) ++ bs2, ?_, ?_, ?_, ?_, ?_⟩
    · simp only [encodeFrom, e.enc, hcar, t.enc]
    · intro fuel hf
      cases fuel with
      | zero => simp at hf
      | succ n =>
        have hn : bs2.length < n := by simp at hf; omega
        have hd := e.dec bs2
        simp only [List.cons_append] at hd
        simp only [List.cons_append, decodeLoop, hd, t.dec n hn, List.map_cons]
        rfl
    · intro fuel hf
      cases fuel with
      | zero => simp at hf
      | succ n =>
        have hn : bs2.length < n := by simp at hf; omega
        have hd := e.delta bs2
        simp only [List.cons_append] at hd
        have hi : inInt (last + (p.sl - last)) := by unfold inInt; omega
        simp only [List.cons_append, scanLoop, hd, hi, not_true_eq_false, if_false, hb3,
          skipEntry_append tl bs2 htl t.head, hb4, List.map_cons]
        have hl : last + (p.sl - last) = p.sl := by omega
        rw [hl, t.scan n hn]

    · exact Or.inr ⟨b, tl ++ bs2, rfl, hb1, hb2⟩
    · intro x hx
      simp only [List.cons_append, List.mem_cons, List.mem_append] at hx
      rcases hx with rfl | hx | hx
      · exact hb2
      · have := htl x hx; omega
      · exact t.bytes x hx


theorem good_of_dom_fixed (P : Params) (h : P.retStart = true) :
    ∀ (ps : List Pos) (last : Int), domFrom last ps = true → Good P last ps := by
  intro ps
  induction ps with
  | nil => intro _ _; trivial
  | cons p ps ih =>
    intro last hd
    simp only [domFrom, Bool.and_eq_true, decide_eq_true_eq] at hd
    obtain ⟨⟨a1, a2, a3, a4, a5, a6, a7⟩, hd'⟩ := hd
    exact ⟨a1, a2, a3, a4, a5, a6, a7, fun _ => by simp [carry, h], ih _ hd'⟩

theorem good_of_dom_single (P : Params) :
    ∀ (ps : List Pos) (last : Int), domFrom last ps = true → innerSingleLine ps = true → Good P last ps := by
  intro ps
  induction ps with
  | nil => intro _ _ _; trivial
  | cons p ps ih =>
    intro last hd hs
    simp only [domFrom, Bool.and_eq_true, decide_eq_true_eq] at hd
    obtain ⟨⟨a1, a2, a3, a4, a5, a6, a7⟩, hd'⟩ := hd
    cases ps with
    | nil => exact ⟨a1, a2, a3, a4, a5, a6, a7, fun h => absurd rfl h, trivial⟩
    | cons q qs =>
      simp only [innerSingleLine, Bool.and_eq_true, decide_eq_true_eq] at hs
      exact ⟨a1, a2, a3, a4, a5, a6, a7, fun _ => by rw [carry_of_eq P p hs.1, hs.1], ih _ hd' hs.2⟩


/-! ### `_build_positions` output lies in the domain -/

/-- Per-position part of `domFrom`. -/
def PosOK (p : Pos) : Prop :=
  p.sl ≤ p.el ∧ p.el < 2147483648 ∧ 0 ≤ p.sc ∧ p.sc < 2147483647 ∧ 0 ≤ p.ec ∧ p.ec < 2147483647

theorem domFrom_of_pairwise : ∀ (ps : List Pos) (last : Int),
    ps.Pairwise (fun a b => a.sl ≤ b.sl) → (∀ p ∈ ps, last ≤ p.sl ∧ PosOK p) → domFrom last ps = true := by
  intro ps
  induction ps with
  | nil => intro _ _ _; rfl
  | cons p ps ih =>
    intro last hp hb
    rw [List.pairwise_cons] at hp
    obtain ⟨h1, h2, h3, h4, h5, h6, h7⟩ := hb p (by simp)
    simp only [domFrom, Bool.and_eq_true, decide_eq_true_eq]
    refine ⟨⟨h1, h2, h3, h4, h5, h6, h7⟩, ih p.sl hp.2 ?_⟩
    intro q hq
    exact ⟨hp.1 q hq, (hb q (by simp [hq])).2⟩

theorem innerSingleLine_of_all : ∀ (ps : List Pos), (∀ p ∈ ps, p.el = p.sl) → innerSingleLine ps = true := by
  intro ps
  induction ps with
  | nil => intro _; rfl
  | cons p ps ih =>
    intro h
    cases ps with
    | nil => rfl
    | cons q qs =>
      simp only [innerSingleLine, Bool.and_eq_true, decide_eq_true_eq]
      exact ⟨h p (by simp), ih (fun r hr => h r (by simp [hr]))⟩

theorem rangesDesc_lines : ∀ (desc : List (Int × Int)) (nl nc : Int),
    (rangesDesc nl nc desc).map (·.sl) = desc.map (·.1) := by
  intro desc
  induction desc with
  | nil => intro _ _; rfl
  | cons x xs ih =>
    intro nl nc
    obtain ⟨l, c⟩ := x
    simp [rangesDesc, ih]

theorem rangesDesc_ok (first : Int) : ∀ (desc : List (Int × Int)) (nl nc : Int),
    0 ≤ nc → nc < 2147483647 →
    (∀ x ∈ desc, first ≤ x.1 ∧ x.1 < 2147483648 ∧ 0 ≤ x.2 ∧ x.2 < 2147483646) →
    ∀ p ∈ rangesDesc nl nc desc, p.el = p.sl ∧ first ≤ p.sl ∧ PosOK p := by
  intro desc
  induction desc with
  | nil => intro _ _ _ _ _ p hp; cases hp
  | cons x xs ih =>
    intro nl nc h0 h1 hb p hp
    obtain ⟨l, c⟩ := x
    obtain ⟨b1, b2, b3, b4⟩ := hb (l, c) (by simp)
    simp only at b1 b2 b3 b4
    simp only [rangesDesc, List.mem_cons] at hp
    rcases hp with rfl | hp
    · refine ⟨rfl, b1, ?_⟩
      unfold PosOK
      simp only
      split <;> omega
    · exact ih l c b3 (by omega) (fun y hy => hb y (by simp [hy])) p hp

end CyVerif.C44

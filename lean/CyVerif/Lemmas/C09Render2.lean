import CyVerif.Lemmas.C09Render
/-! C09 part A: `str_to_number (str v) = v`, `str_to_number (hex v) = v`, base-32 round trip. -/
namespace CyVerif.C09

theorem us_not_dec' : decDigit '_' = false := by decide

theorem s2n_of_not_minus (lim : Nat) (s : List Char) (h : ∀ r, s ≠ '-' :: r) :
    strToNumber lim s = strToNumberAbs lim s := by
  unfold strToNumber
  split
  · rename_i r; exact absurd rfl (h r)
  · rfl

theorem s2n_minus (lim : Nat) (s : List Char) : strToNumber lim ('-' :: s) = negRes (strToNumberAbs lim s) := rfl

theorem natText_no_minus (b n : Nat) (hb : 2 ≤ b) (hb32 : b ≤ 32) : ∀ r, natText b n ≠ '-' :: r := by
  intro r h
  have := natText_digits b n hb hb32 '-' (by rw [h]; simp)
  have h2 : digitValue '-' = 37 := by decide
  omega

/-- decimal text of a natural number parses back (given the digit limit) -/
theorem s2nAbs_natText10 (lim n : Nat) (hlim : digitsOK lim (natText 10 n).length) :
    strToNumberAbs lim (natText 10 n) = .ok (n : Int) := by
  rw [← s2n_of_not_minus lim _ (natText_no_minus 10 n (by omega) (by omega))]
  by_cases hn : n = 0
  · subst hn
    have : natText 10 0 = ['0'] := by unfold natText; simp
    rw [this]; exact s2n_zero lim
  · obtain ⟨c, r, hcr, hc0⟩ := natText_head 10 n (by omega) (by omega) (by omega)
    have hall := natText_digits 10 n (by omega) (by omega)
    have hv := natText_val 10 n (by omega) (by omega)
    rw [hcr] at hall hv hlim ⊢
    rw [s2n_decimal lim c r hc0 hall hlim, hv]

/-- `0x` + hexadecimal text parses back -/
theorem s2nAbs_hexText (lim n : Nat) :
    strToNumberAbs lim ('0' :: 'x' :: natText 16 n) = .ok (n : Int) := by
  rw [← s2n_lead0]
  rw [s2n_hex lim 'x' (natText 16 n) (Or.inl rfl) (natText_ne_nil 16 n (by omega))
    (natText_digits 16 n (by omega) (by omega)), natText_val 16 n (by omega) (by omega)]

theorem neg_natAbs_of_neg (v : Int) (h : v < 0) : -((v.natAbs : Nat) : Int) = v := by omega
theorem natAbs_of_nonneg' (v : Int) (h : ¬ v < 0) : ((v.natAbs : Nat) : Int) = v := by omega

theorem pyHex_parse (lim : Nat) (v : Int) : strToNumber lim (pyHex v) = .ok v := by
  unfold pyHex signText
  by_cases hv : v < 0
  · simp only [hv, if_true, List.cons_append, List.nil_append]
    rw [s2n_minus, s2nAbs_hexText]
    simp only [negRes, neg_natAbs_of_neg v hv]
  · simp only [hv, if_false, List.nil_append, List.cons_append]
    rw [s2n_lead0, s2nAbs_hexText, natAbs_of_nonneg' v hv]

theorem pyStr_parse (lim : Nat) (v : Int) (t : List Char) (h : pyStr lim v = .ok t) :
    strToNumber lim t = .ok v := by
  unfold pyStr at h
  simp only at h
  split at h
  · exact absurd h (by simp)
  · rename_i hl
    have hlim : digitsOK lim (natText 10 v.natAbs).length := by unfold digitsOK; omega
    injection h with h; subst h
    unfold signText
    by_cases hv : v < 0
    · simp only [hv, if_true, List.cons_append, List.nil_append]
      rw [s2n_minus, s2nAbs_natText10 lim _ hlim]
      simp only [negRes, neg_natAbs_of_neg v hv]
    · simp only [hv, if_false, List.nil_append]
      rw [s2n_of_not_minus lim _ (natText_no_minus 10 _ (by omega) (by omega)),
        s2nAbs_natText10 lim _ hlim, natAbs_of_nonneg' v hv]

/-- whatever text `generate_evaluation_code` hands to `get_py_int`, `str_to_number` maps it back -/
theorem genText_parse (fix : Bool) (lim : Nat) (v : Int) (t : List Char) (h : genText fix lim v = .ok t) :
    strToNumber lim t = .ok v := by
  unfold genText at h
  split at h
  · injection h with h; subst h; exact pyHex_parse lim v
  · exact pyStr_parse lim v t h

theorem negText_parse (fix : Bool) (lim : Nat) (v : Int) (t : List Char) (h : negText fix lim v = .ok t) :
    strToNumber lim t = .ok (-v) := by
  unfold negText at h
  split at h
  · injection h with h; subst h; exact pyHex_parse lim (-v)
  · exact pyStr_parse lim (-v) t h

/-- numbers up to 10^13 in magnitude have at most 14 decimal digits: `str` never hits the limit -/
theorem pyStr_small (lim : Nat) (v : Int) (h1 : v ≤ tenTo13) (h2 : -tenTo13 ≤ v) :
    ∃ t, pyStr lim v = .ok t := by
  unfold pyStr
  have hlen : (natText 10 v.natAbs).length ≤ 14 := by
    unfold natText
    split
    · simp
    · simp only [List.length_map, List.length_reverse]
      apply digitsLE_length_le 10 (by omega) 14
      unfold tenTo13 at h1 h2
      omega
  simp only
  rw [if_neg (by omega)]
  exact ⟨_, rfl⟩

/-- negative numbers of more than `lim` digits: `str` raises -/
theorem pyStr_big (lim : Nat) (v : Int) (hl : 640 ≤ lim) (hv : (10 : Int) ^ lim ≤ -v) :
    pyStr lim v = .err "ValueError" := by
  unfold pyStr
  have hn : 10 ^ lim ≤ v.natAbs := by
    have e : ((10 ^ lim : Nat) : Int) = (10 : Int) ^ lim := by simp
    have : ((10 ^ lim : Nat) : Int) ≤ (v.natAbs : Int) := by
      rw [e]; omega
    exact Int.ofNat_le.mp this
  have hlen : lim < (natText 10 v.natAbs).length := by
    unfold natText
    have hpos : 0 < 10 ^ lim := Nat.pow_pos (by omega)
    rw [if_neg (by omega)]
    simp only [List.length_map, List.length_reverse]
    exact digitsLE_length_gt 10 (by omega) lim _ hn
  simp only
  rw [if_pos ⟨by omega, by omega, hlen⟩]

/-- `int('-' + digits, b)` for an explicit power-of-two base -/
theorem pyInt_clean_neg (lim b : Nat) (ds : List Char) (hb2 : 2 ≤ b) (hb : b ≤ 36) (hp : isPow2Base b = true)
    (hne : ds ≠ []) (hall : ∀ c ∈ ds, digitValue c < b) :
    pyInt lim ('-' :: ds) b = .ok (-((dfold b 0 ds : Nat) : Int)) := by
  have hws : stripWs ('-' :: ds) = '-' :: ds := stripWs_clean _ (by
    intro x hx
    rcases List.mem_cons.mp hx with rfl | hx
    · decide
    · exact isWs_digit (by have := hall x hx; omega))
  unfold pyInt
  rw [if_neg (by omega)]
  have hsp : splitSign ('-' :: ds) = (true, ds) := rfl
  simp only [hws, hsp, chooseBase_nonzero b _ (by omega), stripBasePrefix_clean b _ hall hb]
  unfold pyIntCore
  rw [if_neg hne, scanDigits_clean b hb _ _ _ _ hne hall]
  simp [hp]

/-- the base-32 text written into the C file is read back as the same integer
(`PyLong_FromString(.., 32)` has no digit limit: 32 is a power of two) -/
theorem base32_roundtrip (lim : Nat) (v : Int) : pyInt lim (toBase32 v) 32 = .ok v := by
  unfold toBase32 signText
  have hne := natText_ne_nil 32 v.natAbs (by omega)
  have hall := natText_digits 32 v.natAbs (by omega) (by omega)
  have hval := natText_val 32 v.natAbs (by omega) (by omega)
  by_cases hv : v < 0
  · simp only [hv, if_true, List.cons_append, List.nil_append]
    rw [pyInt_clean_neg lim 32 _ (by omega) (by omega) (by decide) hne hall, hval, neg_natAbs_of_neg v hv]
  · simp only [hv, if_false, List.nil_append]
    rw [pyInt_clean lim 32 _ (by omega) (by omega) hne hall, hval]
    simp [isPow2Base, natAbs_of_nonneg' v hv]

theorem stripBasePrefix_noletter (b : Nat) (c0 c : Char) (r : List Char)
    (h : ¬ (c = 'x' ∨ c = 'X') ∧ ¬ (c = 'o' ∨ c = 'O') ∧ ¬ (c = 'b' ∨ c = 'B')) :
    stripBasePrefix b (c0 :: c :: r) = c0 :: c :: r := by
  unfold stripBasePrefix
  simp only
  rw [if_neg]
  rintro ⟨_, h16 | h8 | h2⟩
  · exact h.1 h16.2
  · exact h.2.1 h8.2
  · exact h.2.2 h2.2

/-- a legacy literal with a digit 8 or 9 is rejected (`int(value, 8)` raises) -/
theorem s2n_legacy_bad (lim : Nat) (tok : List Char) (h : legacyBad tok = true) :
    strToNumber lim (stripUnderscores tok) = .err "ValueError" := by
  unfold legacyBad at h
  split at h
  · rename_i c r
    simp only [Bool.and_eq_true] at h
    obtain ⟨hall, hany⟩ := h
    have hmem : ∀ x ∈ '0' :: c :: r, decDigit x = true := List.all_eq_true.mp hall
    have hs : ('0' :: c :: r).filter (· ≠ '_') = '0' :: c :: r := filter_us_of_all us_not_dec' _ hall
    have hc : digitValue c < 10 := (decDigit_spec (hmem c (by simp))).1
    have h1 : ¬ (c = 'x' ∨ c = 'X') := by rintro (rfl | rfl) <;> revert hc <;> decide
    have h2 : ¬ (c = 'o' ∨ c = 'O') := by rintro (rfl | rfl) <;> revert hc <;> decide
    have h3 : ¬ (c = 'b' ∨ c = 'B') := by rintro (rfl | rfl) <;> revert hc <;> decide
    unfold stripUnderscores
    rw [hs, s2n_lead0]
    unfold strToNumberAbs
    simp only [if_true, h1, h2, h3, if_false]
    have h37 : ∀ x ∈ '0' :: c :: r, digitValue x < 37 := fun x hx => by
      have := (decDigit_spec (hmem x hx)).1; omega
    have hws : stripWs ('0' :: c :: r) = '0' :: c :: r := stripWs_clean _ (fun x hx => isWs_digit (h37 x hx))
    unfold pyInt
    rw [if_neg (by omega)]
    simp only [hws, splitSign_digit _ (h37 '0' (by simp)), chooseBase_nonzero 8 _ (by omega),
      stripBasePrefix_noletter 8 '0' c r ⟨h1, h2, h3⟩]
    unfold pyIntCore
    rw [if_neg (by simp)]
    obtain ⟨x, hx, hx89⟩ := List.any_eq_true.mp hany
    have hbad : scanDigits 8 ('0' :: c :: r) true 0 0 = none := by
      apply scanDigits_bad
      refine ⟨x, by simp [hx], ?_⟩
      simp only [Bool.or_eq_true, beq_iff_eq] at hx89
      rcases hx89 with rfl | rfl <;> decide
    rw [hbad]
  · exact absurd h (by decide)

end CyVerif.C09

import CyVerif.Lemmas.C50ScanD
/-! Scanner loop, part E: `scan_a_token`. -/
namespace CyVerif.C50

theorem travLen_le (d : Dfa) (evs : List CurChar) : ∀ q, travLen d q evs ≤ evs.length := by
  induction evs with
  | nil => intro q; simp [travLen]
  | cons x rest ih =>
    intro q
    simp only [travLen]
    split
    · rename_i q' _; have := ih q'; simp only [List.length_cons]; omega
    · simp

theorem bestK_le (d : Dfa) (evs : List CurChar) (q k a : Nat) (h : bestK d q evs = some (k, a)) :
    k ≤ evs.length := ((bestK_spec d evs q).1 k a h).1.1

/-- `run_machine_inlined` (started without a backup) in declarative form -/
theorem runLoop_longest (d : Dfa) (text : List Nat) (q : Nat) (c : Cursor) :
    (∀ a c', runLoop d text q c none = (some a, c') →
      ∃ k, AcceptsK d q (evStream text c) k a ∧ (∀ k' a', AcceptsK d q (evStream text c) k' a' → k' ≤ k) ∧
        c' = nextN text k c) ∧
    (∀ c', runLoop d text q c none = (none, c') →
      (∀ k a, ¬ AcceptsK d q (evStream text c) k a) ∧ c' = nextN text (travLen d q (evStream text c)) c) := by
  rw [runLoop_spec]
  unfold loopResult
  obtain ⟨s1, s2⟩ := bestK_spec d (evStream text c) q
  cases hb : bestK d q (evStream text c) with
  | none =>
    simp only
    refine ⟨fun a c' h => by simp at h, fun c' h => ?_⟩
    simp only [Prod.mk.injEq, true_and] at h
    exact ⟨s2 hb, h.symm⟩
  | some ka =>
    obtain ⟨k, a⟩ := ka
    simp only
    refine ⟨fun a' c' h => ?_, fun c' h => by simp at h⟩
    simp only [Prod.mk.injEq, Option.some.injEq] at h
    obtain ⟨rfl, rfl⟩ := h
    obtain ⟨acc, mx⟩ := s1 k a hb
    exact ⟨k, acc, mx, rfl⟩

/-- a returned token: the longest accepted prefix, its characters, the cursor after it -/
theorem scanToken_tok (fix : Bool) (d : Dfa) (text : List Nat) (q : Nat) (c : Cursor) (hc : CursorOK text c)
    (t : List Nat) (a : Nat) (c' : Cursor) (h : scanToken fix d text q c = .tok t a c') :
    ∃ k, AcceptsK d q (evStream text c) k a ∧ (∀ k' a', AcceptsK d q (evStream text c) k' a' → k' ≤ k) ∧
      c' = nextN text k c ∧ t = charsOf ((evStream text c).take k) ∧ CursorOK text c' := by
  unfold scanToken at h
  obtain ⟨l1, _⟩ := runLoop_longest d text q c
  cases hr : runLoop d text q c none with
  | mk res cur =>
    rw [hr] at h
    cases res with
    | none =>
      simp only at h
      by_cases hp : cur.curPos = c.curPos
      · rw [if_pos hp] at h
        have key : ∀ c2 : Cursor, (if c2.curChar = .eof then TokRes.eof c2 else .unrecognized) ≠ .tok t a c' := by
          intro c2; split <;> simp
        exact absurd h (key _)
      · rw [if_neg hp] at h; cases h
    | some a0 =>
      simp only [TokRes.tok.injEq] at h
      obtain ⟨ht, ha, hcur⟩ := h
      subst ha hcur
      obtain ⟨k, acc, mx, hk⟩ := l1 a0 cur hr
      obtain ⟨ok, _, hch, _⟩ := nextN_chars text k c hc acc.1
      refine ⟨k, acc, mx, hk, ?_, by rw [hk]; exact ok⟩
      rw [hch, ← hk, ← ht]

/-- if some prefix is accepted, a token is returned -/
theorem scanToken_some (fix : Bool) (d : Dfa) (text : List Nat) (q : Nat) (c : Cursor)
    (k a : Nat) (hacc : AcceptsK d q (evStream text c) k a) :
    ∃ t a' c', scanToken fix d text q c = .tok t a' c' := by
  unfold scanToken
  obtain ⟨_, l2⟩ := runLoop_longest d text q c
  cases hr : runLoop d text q c none with
  | mk res cur =>
    cases res with
    | none => exact absurd hacc ((l2 cur hr).1 k a)
    | some a0 => exact ⟨_, a0, cur, rfl⟩

/-- no accepted prefix while characters remain: `UnrecognizedInput` -/
theorem scanToken_unmatched (fix : Bool) (d : Dfa) (text : List Nat) (q : Nat) (c : Cursor) (hc : CursorOK text c)
    (hrem : c.curPos < text.length) (hno : ∀ k a, ¬ AcceptsK d q (evStream text c) k a) :
    scanToken fix d text q c = .unrecognized := by
  unfold scanToken
  obtain ⟨l1, l2⟩ := runLoop_longest d text q c
  cases hr : runLoop d text q c none with
  | mk res cur =>
    cases res with
    | some a0 =>
      obtain ⟨k, acc, _⟩ := l1 a0 cur hr
      exact absurd acc (hno k a0)
    | none =>
      simp only
      obtain ⟨_, hcur⟩ := l2 cur hr
      obtain ⟨ok, _, _, _⟩ := nextN_chars text _ c hc (travLen_le d (evStream text c) q)
      rw [← hcur] at ok
      by_cases hp : cur.curPos = c.curPos
      · simp only [hp, if_true]
        have hend : ∀ c2 : Cursor, CursorOK text c2 → c2.curPos = c.curPos →
            ¬ (c2.curChar = .eof) ∧ ¬ (c2.curChar = .eol ∧ c2.inputState = 4) := by
          intro c2 ok2 hp2
          rcases ok2 with ⟨_, h2, _⟩ | ⟨_, ch, h2, _⟩ | ⟨h1, h2, _⟩ | ⟨_, h2, _⟩ | ⟨_, _, _, h4⟩ | ⟨_, _, _, h4⟩
          · rw [h2]; simp
          · rw [h2]; simp
          · rw [h2, h1]; simp
          · rw [h2]; simp
          · omega
          · omega
        obtain ⟨e1, e2⟩ := hend cur ok hp
        have : ¬ (fix = true ∧ cur.curChar = .eol ∧ cur.inputState = 4) := fun h => e2 h.2
        simp [this, e1]
      · simp [hp]

end CyVerif.C50

import CyVerif.Model.C33Conv
/-! # C33 — basic lemmas: `mapR`, sorted insertion, field-name lookup -/
namespace CyVerif.C33

theorem mapR_nil {α β} (f : α → R β) : mapR f [] = .ok [] := rfl

theorem mapR_cons_ok {α β} (f : α → R β) (x : α) (xs : List α) (y : β) (ys : List β)
    (h1 : f x = .ok y) (h2 : mapR f xs = .ok ys) : mapR f (x :: xs) = .ok (y :: ys) := by
  simp [mapR, h1, h2, bind, Except.bind]

theorem mapR_cons_inv {α β} (f : α → R β) (x : α) (xs : List α) (zs : List β)
    (h : mapR f (x :: xs) = .ok zs) : ∃ y ys, f x = .ok y ∧ mapR f xs = .ok ys ∧ zs = y :: ys := by
  simp only [mapR, bind, Except.bind] at h
  cases hx : f x with
  | error e => rw [hx] at h; cases h
  | ok y =>
    rw [hx] at h
    cases hxs : mapR f xs with
    | error e => rw [hxs] at h; cases h
    | ok ys => rw [hxs] at h; injection h with h; exact ⟨y, ys, rfl, rfl, h.symm⟩

/-- first error wins: ok prefix, then an element that fails with `e` -/
theorem mapR_first_err {α β} (f : α → R β) (pre : List α) (x : α) (post : List α) (e : String)
    (hpre : ∀ a ∈ pre, ∃ b, f a = .ok b) (hx : f x = .error e) :
    mapR f (pre ++ x :: post) = .error e := by
  induction pre with
  | nil => simp [mapR, hx, bind, Except.bind]
  | cons a pre ih =>
    obtain ⟨b, hb⟩ := hpre a (by simp)
    have := ih (fun a' ha' => hpre a' (by simp [ha']))
    simp [mapR, hb, this, bind, Except.bind]

theorem mapR_ok_all {α β} (f : α → R β) (xs : List α) (ys : List β) (h : mapR f xs = .ok ys) :
    ∀ a ∈ xs, ∃ b, f a = .ok b := by
  induction xs generalizing ys with
  | nil => intro a ha; cases ha
  | cons x xs ih =>
    obtain ⟨y, ys', h1, h2, _⟩ := mapR_cons_inv f x xs ys h
    intro a ha
    cases ha with
    | head => exact ⟨y, h1⟩
    | tail _ ha => exact ih ys' h2 a ha

theorem mapR_length {α β} (f : α → R β) (xs : List α) (ys : List β) (h : mapR f xs = .ok ys) :
    ys.length = xs.length := by
  induction xs generalizing ys with
  | nil => simp [mapR] at h; cases h; rfl
  | cons x xs ih =>
    obtain ⟨y, ys', _, h2, rfl⟩ := mapR_cons_inv f x xs ys h
    simp [ih ys' h2]

/-- an error of `mapR` is the error of some element all of whose predecessors converted -/
theorem mapR_err_inv {α β} (f : α → R β) (xs : List α) (e : String) (h : mapR f xs = .error e) :
    ∃ pre x post, xs = pre ++ x :: post ∧ (∀ a ∈ pre, ∃ b, f a = .ok b) ∧ f x = .error e := by
  induction xs with
  | nil => simp [mapR] at h
  | cons x xs ih =>
    cases hx : f x with
    | error e' =>
      simp [mapR, hx, bind, Except.bind] at h
      exact ⟨[], x, xs, rfl, by simp, by rw [hx, h]⟩
    | ok y =>
      cases hxs : mapR f xs with
      | ok ys => simp [mapR, hx, hxs, bind, Except.bind] at h
      | error e' =>
        simp [mapR, hx, hxs, bind, Except.bind] at h
        obtain ⟨pre, z, post, rfl, hp, hz⟩ := ih (by rw [hxs, h])
        refine ⟨x :: pre, z, post, rfl, ?_, hz⟩
        intro a ha
        cases ha with
        | head => exact ⟨y, hx⟩
        | tail _ ha => exact hp a ha

/-- converting back and forth element-wise -/
theorem mapR_roundtrip {α β} (f : α → R β) (g : β → R α) (cs : List α)
    (h : ∀ c ∈ cs, ∃ p, f c = .ok p ∧ g p = .ok c) :
    ∃ ps, mapR f cs = .ok ps ∧ mapR g ps = .ok cs := by
  induction cs with
  | nil => exact ⟨[], rfl, rfl⟩
  | cons c cs ih =>
    obtain ⟨p, hp1, hp2⟩ := h c (by simp)
    obtain ⟨ps, h1, h2⟩ := ih (fun c' hc' => h c' (by simp [hc']))
    exact ⟨p :: ps, mapR_cons_ok f c cs p ps hp1 h1, mapR_cons_ok g p ps c cs hp2 h2⟩

/-! ## sorted insertion needs no order theory when the new element is greater than all present -/

theorem lt_not_beq (a b : CVal) (h : CVal.lt a b = true) : CVal.beq a b = false := by
  unfold CVal.lt at h; unfold CVal.beq
  cases hc : CVal.cmp a b <;> simp_all

theorem setInsert_append (x : CVal) (s : List CVal) (h : ∀ y ∈ s, CVal.lt y x = true) :
    setInsert x s = s ++ [x] := by
  induction s with
  | nil => rfl
  | cons y ys ih =>
    have hy := h y (by simp)
    simp [setInsert, lt_not_beq y x hy, hy, ih (fun z hz => h z (by simp [hz]))]

theorem foldSet_sorted_aux (cs acc : List CVal)
    (h : (acc ++ cs).Pairwise (fun a b => CVal.lt a b = true)) :
    cs.foldl (fun s c => setInsert c s) acc = acc ++ cs := by
  induction cs generalizing acc with
  | nil => simp
  | cons c cs ih =>
    have h1 : ∀ y ∈ acc, CVal.lt y c = true := by
      intro y hy
      have := List.pairwise_append.mp h
      exact this.2.2 y hy c (by simp)
    simp only [List.foldl_cons, setInsert_append c acc h1]
    have : (acc ++ [c] ++ cs).Pairwise (fun a b => CVal.lt a b = true) := by simpa using h
    rw [ih (acc ++ [c]) this]; simp

theorem foldSet_sorted (cs : List CVal) (h : cs.Pairwise (fun a b => CVal.lt a b = true)) :
    foldSet cs = cs := by
  unfold foldSet; simpa using foldSet_sorted_aux cs [] (by simpa using h)

theorem mapInsert_append (k v : CVal) (m : List (CVal × CVal)) (h : ∀ kv ∈ m, CVal.lt kv.1 k = true) :
    mapInsert k v m = m ++ [(k, v)] := by
  induction m with
  | nil => rfl
  | cons y ys ih =>
    obtain ⟨k', v'⟩ := y
    have hy : CVal.lt k' k = true := h (k', v') (by simp)
    simp [mapInsert, lt_not_beq k' k hy, hy, ih (fun z hz => h z (by simp [hz]))]

theorem foldMap_sorted_aux (cs acc : List (CVal × CVal))
    (h : ((acc ++ cs).map (·.1)).Pairwise (fun a b => CVal.lt a b = true)) :
    cs.foldl (fun m kv => mapInsert kv.1 kv.2 m) acc = acc ++ cs := by
  induction cs generalizing acc with
  | nil => simp
  | cons c cs ih =>
    have h1 : ∀ kv ∈ acc, CVal.lt kv.1 c.1 = true := by
      intro kv hkv
      rw [List.map_append] at h
      have := List.pairwise_append.mp h
      exact this.2.2 kv.1 (List.mem_map_of_mem hkv) c.1 (by simp)
    simp only [List.foldl_cons, mapInsert_append c.1 c.2 acc h1]
    have : ((acc ++ [(c.1, c.2)] ++ cs).map (·.1)).Pairwise (fun a b => CVal.lt a b = true) := by simpa using h
    rw [ih (acc ++ [(c.1, c.2)]) this]; simp

theorem foldMap_sorted (cs : List (CVal × CVal))
    (h : (cs.map (·.1)).Pairwise (fun a b => CVal.lt a b = true)) : foldMap cs = cs := by
  unfold foldMap; simpa using foldMap_sorted_aux cs [] (by simpa using h)

end CyVerif.C33

import CyVerif.Lemmas.C49Main
/-! In a `Sim` state every observation of the heap model equals the observation
of the flat document (and the fuel `heap.length + 1` is always enough). -/
namespace CyVerif.C49
open Forest

theorem seqOpt_all {α} {g : Nat → Option (List α)} {Q : α → Prop}
    (hg : ∀ c x, g c = some x → ∀ a ∈ x, Q a) :
    ∀ (l : List Nat) (y : List α), seqOpt g l = some y → ∀ a ∈ y, Q a := by
  intro l
  induction l with
  | nil => intro y h; simp [seqOpt] at h; subst h; simp
  | cons c cs ih =>
    intro y h
    simp only [seqOpt] at h
    cases h1 : g c with
    | none => simp [h1] at h
    | some x =>
      cases h2 : seqOpt g cs with
      | none => simp [h1, h2] at h
      | some z =>
        simp only [h1, h2, Option.some.injEq] at h
        subst h
        intro a ha
        rcases List.mem_append.1 ha with ha | ha
        · exact hg c x h1 a ha
        · exact ih z h2 a ha

/-- `copyto` / `_collect_in` never emit an empty piece -/
theorem chunks_ne (H : Heap) : ∀ (f i : Nat) (cs : List String), chunks H f i = some cs →
    ∀ c ∈ cs, c ≠ "" := by
  intro f
  induction f with
  | zero => intro i cs h; simp [chunks] at h
  | succ f ih =>
    intro i cs h
    simp only [chunks] at h
    cases hn : H[i]? with
    | none => simp [hn] at h
    | some n =>
      cases hc : seqOpt (chunks H f) n.children with
      | none => simp [hn, hc] at h
      | some ck =>
        simp only [hn, hc, Option.some.injEq] at h
        subst h
        intro c hcm
        rcases List.mem_append.1 hcm with hcm | hcm
        · exact seqOpt_all (Q := fun c => c ≠ "") (fun c x hx => ih c x hx) _ _ hc c hcm
        · by_cases hs : n.stream = ""
          · simp [hs] at hcm
          · simp only [hs, if_false, List.mem_singleton] at hcm
            subst hcm; exact hs

theorem Sim.observe {σ : St} {sp : Spec} {F : Forest} (h : Sim σ sp F) {k : Nat} (hk : k < sp.n) :
    σ.getvalue k = some (.ok (sp.getvalue k)) ∧
    σ.allmarkers k = some (.ok (sp.allmarkers k)) ∧
    σ.empty k = some (.ok (sp.empty k)) ∧
    ∃ cs, σ.copyto k = some (.ok cs) ∧ joinS cs = sp.getvalue k ∧ ∀ c ∈ cs, c ≠ "" := by
  obtain ⟨b, hb⟩ := h.handle_of_lt hk
  obtain ⟨htag, fs0, kids0, hfind⟩ := h.find hb
  obtain ⟨n, hn, hch, hst, hmk, hck, hbk, hkid⟩ := Cons_find F h.cons hfind h.ids
  obtain ⟨A, B, hd, hA, hi, _⟩ := Forest.doc_decomp (fun fs kids => (fs, kids)) F hfind htag h.ids h.names
  have hreg : region k sp.doc = kids0.doc ++ fragItems fs0 := by
    rw [← h.doc, hd, region_split hA hi]
  have hlen : kids0.tags.length ≤ σ.heap.length := by
    have := length_le_of_nodup_lt hkid (Cons_ids_lt hck)
    simpa [Forest.ids] using this
  obtain ⟨cs, hcs, hjoin⟩ := chunks_forest hck σ.heap.length hlen
  have hms := allm_forest hck σ.heap.length hlen
  obtain ⟨bs, hbs, hemp⟩ := emp_forest hck σ.heap.length hlen
  have hchunks : chunks σ.heap σ.fuel b
      = some (cs ++ (if n.stream = "" then [] else [n.stream])) := by
    simp [St.fuel, chunks, hn, hch, hcs]
  have hallm : allm σ.heap σ.fuel b = some (marksD kids0.doc ++ n.markers) := by
    simp [St.fuel, allm, hn, hch, hms]
  have htext : joinS (cs ++ (if n.stream = "" then [] else [n.stream])) = textD (region k sp.doc) := by
    rw [joinS_append, joinS_opt, hjoin, hreg, textD_append, hst]
  refine ⟨?_, ?_, ?_, ?_⟩
  · simp [St.getvalue, hb, hchunks, Spec.getvalue, htext]
  · simp [St.allmarkers, hb, hallm, Spec.allmarkers, hreg, marksD_append, hmk]
  · by_cases hs : n.stream = ""
    · have hempb : emp σ.heap σ.fuel b = some [bs.all id] := by
        simp [St.fuel, emp, hn, hch, hbs, hs]
      have hfs : textD (fragItems fs0) = "" := by rw [← hst]; exact hs
      have : (bs.all id = true) ↔ textD (region k sp.doc) = "" := by
        rw [hreg, textD_append, hfs, hemp]; simp
      simp only [St.empty, hb, hempb, Spec.empty, List.all_cons, List.all_nil, Bool.and_true, id]
      congr 2
      by_cases hb' : bs.all id = true
      · simp [hb', this.1 hb']
      · have : ¬ textD (region k sp.doc) = "" := fun e => hb' (this.2 e)
        simp [hb', this]
    · have hempb : emp σ.heap σ.fuel b = some [false] := by
        simp [St.fuel, emp, hn, hs]
      have : ¬ textD (region k sp.doc) = "" := by
        rw [hreg, textD_append, ← hst]
        intro e
        exact hs (String.append_eq_empty_iff.1 e).2
      simp [St.empty, hb, hempb, Spec.empty, this]
  · refine ⟨_, by simp [St.copyto, hb, hchunks], htext, ?_⟩
    exact chunks_ne σ.heap σ.fuel b _ hchunks

end CyVerif.C49

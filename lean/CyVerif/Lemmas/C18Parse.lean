import CyVerif.Model.C18Parse
/-! C18 lemmas: specs accepted by `_parse_format` and what CPython's format-spec parser makes of them. -/
namespace CyVerif.C18

theorem isDig_ne (c : Char) (h : isDig c = true) (d : Char) (hd : isDig d = false) : c ≠ d := by
  rintro rfl; simp [h] at hd

theorem isDig_not_align (c : Char) (h : isDig c = true) : isAlign c = false := by
  have h1 := isDig_ne c h '<' (by decide)
  have h2 := isDig_ne c h '>' (by decide)
  have h3 := isDig_ne c h '=' (by decide)
  have h4 := isDig_ne c h '^' (by decide)
  simp [isAlign, h1, h2, h3, h4]

theorem isDig_not_sign (c : Char) (h : isDig c = true) : isSign c = false := by
  have h1 := isDig_ne c h ' ' (by decide)
  have h2 := isDig_ne c h '+' (by decide)
  have h3 := isDig_ne c h '-' (by decide)
  simp [isSign, h1, h2, h3]

/-- the type characters `_parse_format` knows -/
def isTypeC (c : Char) : Bool := c = 'o' || c = 'd' || c = 'x' || c = 'X' || c = 'c'

theorem fmtCOfChar_some (c : Char) (ft : FmtC) (h : fmtCOfChar c = some ft) : isTypeC c = true := by
  unfold fmtCOfChar at h
  unfold isTypeC
  by_cases h1 : c = 'o' <;> by_cases h2 : c = 'd' <;> by_cases h3 : c = 'x' <;> by_cases h4 : c = 'X' <;>
    by_cases h5 : c = 'c' <;> simp_all

theorem isTypeC_facts (c : Char) (h : isTypeC c = true) :
    isAlign c = false ∧ isSign c = false ∧ isDig c = false ∧ c ≠ 'z' ∧ c ≠ '#' ∧ c ≠ '0' ∧ c ≠ ',' ∧
    c ≠ '_' ∧ c ≠ '.' := by
  simp only [isTypeC, Bool.or_eq_true, decide_eq_true_eq] at h
  rcases h with (((rfl | rfl) | rfl) | rfl) | rfl <;> decide

/-- leading zeros do not change the value -/
theorem digitsVal_cons_zero (r : List Char) : digitsVal ('0' :: r) = digitsVal r := by
  simp [digitsVal, digVal]

theorem digitsVal_lstrip0 (l : List Char) : digitsVal (lstrip0 l) = digitsVal l := by
  induction l with
  | nil => rfl
  | cons c r ih =>
    unfold lstrip0 at *
    by_cases h : c = '0'
    · subst h; simp only [List.dropWhile_cons, decide_true, if_true]; rw [ih, digitsVal_cons_zero]
    · simp [h]

theorem all_isDig_lstrip0 (l : List Char) (h : (lstrip0 l).all isDig = true) : l.all isDig = true := by
  induction l with
  | nil => rfl
  | cons c r ih =>
    unfold lstrip0 at *
    by_cases hc : c = '0'
    · subst hc
      simp only [List.dropWhile_cons, decide_true, if_true] at h
      simp only [List.all_cons, Bool.and_eq_true]
      exact ⟨by decide, ih h⟩
    · simpa [List.dropWhile_cons, hc] using h

/-- digits followed by at most a non-digit: `takeWhile`/`dropWhile` split exactly there -/
theorem takeWhile_digits (l tl : List Char) (hl : l.all isDig = true)
    (htl : ∀ c, tl.head? = some c → isDig c = false) :
    (l ++ tl).takeWhile isDig = l ∧ (l ++ tl).dropWhile isDig = tl := by
  induction l with
  | nil =>
    cases tl with
    | nil => simp
    | cons c r => have := htl c rfl; simp [this]
  | cons c r ih =>
    simp only [List.all_cons, Bool.and_eq_true] at hl
    obtain ⟨h1, h2⟩ := ih hl.2
    simp [hl.1, h1, h2]

end CyVerif.C18

namespace CyVerif.C18

theorem pFillAlign_of_next (c0 : Char) (rest : List Char) (dA : Char)
    (h : ∀ c, rest.head? = some c → isAlign c = false) :
    pFillAlign (c0 :: rest) dA =
      if isAlign c0 then (' ', c0, false, true, rest) else (' ', dA, false, false, c0 :: rest) := by
  cases rest with
  | nil => simp [pFillAlign]
  | cons c1 r => have := h c1 rfl; simp [pFillAlign, this]

theorem pSign_cons (c : Char) (r : List Char) :
    pSign (c :: r) = if isSign c then (some c, r) else (none, c :: r) := rfl

theorem pFlag_cons (f c : Char) (r : List Char) :
    pFlag f (c :: r) = if c = f then (true, r) else (false, c :: r) := rfl

/-- a tail that is empty or one `odxXc` type character -/
def TypeTail (tl : List Char) : Prop := tl = [] ∨ ∃ t, tl = [t] ∧ isTypeC t = true

theorem TypeTail.head_not_dig {tl : List Char} (h : TypeTail tl) :
    ∀ c, tl.head? = some c → isDig c = false := by
  intro c hc
  rcases h with rfl | ⟨t, rfl, ht⟩
  · simp at hc
  · simp at hc; subst hc; exact (isTypeC_facts t ht).2.2.1

theorem pTail_digits (X tl : List Char) (hX : X.all isDig = true) (htl : TypeTail tl)
    (hw : digitsVal X ≤ SSIZE_MAX) :
    pTail (X ++ tl) = some (if X.isEmpty then none else some (digitsVal X), 0, none, tl.head?) := by
  obtain ⟨h1, h2⟩ := takeWhile_digits X tl hX htl.head_not_dig
  unfold pTail
  have hw' : ¬ digitsVal X > SSIZE_MAX := by omega
  simp only [h1, h2, hw', if_false]
  rcases htl with rfl | ⟨t, rfl, ht⟩
  · simp [pFlag]
  · obtain ⟨-, -, -, -, -, -, f1, f2, f3⟩ := isTypeC_facts t ht
    simp [pFlag_cons, f1, f2, f3]

end CyVerif.C18

namespace CyVerif.C18

theorem head_digits_tail (r tl : List Char) (hr : r.all isDig = true) (htl : TypeTail tl) :
    ∀ c, (r ++ tl).head? = some c → isAlign c = false := by
  intro c hc
  cases r with
  | nil =>
    rcases htl with rfl | ⟨t, rfl, ht⟩
    · simp at hc
    · simp at hc; subst hc; exact (isTypeC_facts t ht).1
  | cons d r' =>
    simp at hc; subst hc
    simp only [List.all_cons, Bool.and_eq_true] at hr
    exact isDig_not_align _ hr.1

theorem parseSpec_shape (a : List Char) (c0 : Char) (r tl : List Char)
    (ha : a = [] ∨ a = ['>'] ∨ a = ['-'])
    (h0 : isDig c0 = true) (hr : r.all isDig = true) (htl : TypeTail tl)
    (hz : c0 = '0' → r ≠ []) (hw : digitsVal (c0 :: r) ≤ SSIZE_MAX) :
    parseSpec (a ++ c0 :: r ++ tl) 'd' '>' = some ⟨
      if c0 = '0' then '0' else ' ',
      if a = ['>'] then '>' else if c0 = '0' then '=' else '>',
      if a = ['-'] then some '-' else none, false, false,
      some (digitsVal (c0 :: r)), 0, none, tl.head?.getD 'd'⟩ := by
  have hnext := head_digits_tail r tl hr htl
  have hnext0 : ∀ c, (c0 :: (r ++ tl)).head? = some c → isAlign c = false := by
    intro c hc; simp at hc; subst hc; exact isDig_not_align _ h0
  have a0 := isDig_not_align c0 h0
  have s0 := isDig_not_sign c0 h0
  have z0 : c0 ≠ 'z' := isDig_ne c0 h0 'z' (by decide)
  have n0 : c0 ≠ '#' := isDig_ne c0 h0 '#' (by decide)
  rcases ha with rfl | rfl | rfl
  · simp only [List.nil_append, List.cons_append]
    unfold parseSpec
    rw [pFillAlign_of_next c0 (r ++ tl) '>' hnext]
    simp only [a0, Bool.false_eq_true, if_false, pSign_cons, s0, pFlag_cons, z0, n0]
    by_cases hc : c0 = '0'
    · subst hc
      have hrne := hz rfl
      have := pTail_digits r tl hr htl (by rw [digitsVal_cons_zero] at hw; exact hw)
      have hre : r.isEmpty = false := by cases r <;> simp_all
      simp [this, hre, digitsVal_cons_zero]
    · have hall : (c0 :: r).all isDig = true := by simp [h0, hr]
      have := pTail_digits (c0 :: r) tl hall htl hw
      simp only [List.cons_append] at this
      simp [hc, this]
  · simp only [List.cons_append, List.nil_append]
    unfold parseSpec
    rw [pFillAlign_of_next '>' (c0 :: (r ++ tl)) '>' hnext0]
    have ag : isAlign '>' = true := by decide
    simp only [ag, if_true, pSign_cons, s0, Bool.false_eq_true, if_false, pFlag_cons, z0, n0]
    by_cases hc : c0 = '0'
    · subst hc
      have hrne := hz rfl
      have := pTail_digits r tl hr htl (by rw [digitsVal_cons_zero] at hw; exact hw)
      have hre : r.isEmpty = false := by cases r <;> simp_all
      simp [this, hre, digitsVal_cons_zero]
    · have hall : (c0 :: r).all isDig = true := by simp [h0, hr]
      have := pTail_digits (c0 :: r) tl hall htl hw
      simp only [List.cons_append] at this
      simp [hc, this]
  · simp only [List.cons_append, List.nil_append]
    unfold parseSpec
    rw [pFillAlign_of_next '-' (c0 :: (r ++ tl)) '>' hnext0]
    have am : isAlign '-' = false := by decide
    have sm : isSign '-' = true := by decide
    simp only [am, Bool.false_eq_true, if_false, pSign_cons, sm, if_true, pFlag_cons, z0, n0]
    by_cases hc : c0 = '0'
    · subst hc
      have hrne := hz rfl
      have := pTail_digits r tl hr htl (by rw [digitsVal_cons_zero] at hw; exact hw)
      have hre : r.isEmpty = false := by cases r <;> simp_all
      simp [this, hre, digitsVal_cons_zero]
    · have hall : (c0 :: r).all isDig = true := by simp [h0, hr]
      have := pTail_digits (c0 :: r) tl hall htl hw
      simp only [List.cons_append] at this
      simp [hc, this]

end CyVerif.C18

namespace CyVerif.C18

theorem lstrip0_cons_zero (r : List Char) : lstrip0 ('0' :: r) = lstrip0 r := by
  simp [lstrip0]

/-- what an accepted prefix looks like -/
theorem parsePrefix_shape (var : ParseVariant) (ft ft' : FmtC) (pre : List Char) (w : Nat) (pad : Char)
    (h : parsePrefix var ft pre = some (ft', w, pad)) :
    ft' = ft ∧ ∃ (a : List Char) (c0 : Char) (r : List Char),
      pre = a ++ c0 :: r ∧ (a = [] ∨ a = ['>'] ∨ a = ['-']) ∧ isDig c0 = true ∧ r.all isDig = true ∧
      (c0 = '0' → r ≠ []) ∧ w = digitsVal (c0 :: r) ∧ pad = (if c0 = '0' then '0' else ' ') ∧
      (var.rejectSignC = true → ¬ (a = ['-'] ∧ ft = .chr)) ∧
      (var.rejectGtZero = true → ¬ (a = ['>'] ∧ c0 = '0')) := by
  unfold parsePrefix at h
  -- the two rejections of the repaired variant
  by_cases g1 : var.rejectSignC = true ∧ pre.head?.getD ' ' = '-' ∧ ft = .chr
  · simp [g1] at h
  simp only [g1, if_false] at h
  generalize hstrip : (decide (pre.head?.getD ' ' = '>') || decide (pre.head?.getD ' ' = '-')) = strip at h
  generalize hpre1 : (if strip = true then pre.tail else pre) = pre1 at h
  by_cases g2 : var.rejectGtZero = true ∧ pre.head?.getD ' ' = '>' ∧ (decide (pre1.head? = some '0')) = true
  · simp [g2] at h
  simp only [g2, if_false] at h
  -- pre1 = c0 :: r, all digits
  have key : ∀ (c0 : Char) (r : List Char), pre1 = c0 :: r →
      ft' = ft ∧ isDig c0 = true ∧ r.all isDig = true ∧ (c0 = '0' → r ≠ []) ∧ w = digitsVal (c0 :: r) ∧
      pad = (if c0 = '0' then '0' else ' ') := by
    intro c0 r e
    subst e
    by_cases hc : c0 = '0'
    · subst hc
      simp only [List.head?_cons, decide_true, if_true, lstrip0_cons_zero] at h
      split at h
      · rename_i hh
        simp only [Option.some.injEq, Prod.mk.injEq] at h
        obtain ⟨e1, e2, e3⟩ := h
        have hall := all_isDig_lstrip0 r hh.2
        refine ⟨e1.symm, by decide, hall, ?_, ?_, e3.symm⟩
        · intro _ hr; subst hr; simp [lstrip0] at hh
        · rw [← e2, digitsVal_lstrip0, digitsVal_cons_zero]
      · exact absurd h (by simp)
    · have hz : (decide ((c0 :: r).head? = some '0')) = false := by simp [hc]
      simp only [hz, Bool.false_eq_true, if_false] at h
      split at h
      · rename_i hh
        simp only [Option.some.injEq, Prod.mk.injEq] at h
        obtain ⟨e1, e2, e3⟩ := h
        have hall := hh.2
        simp only [List.all_cons, Bool.and_eq_true] at hall
        exact ⟨e1.symm, hall.1, hall.2, fun h0 => absurd h0 hc, e2.symm, by simp [hc, e3.symm]⟩
      · exact absurd h (by simp)
  -- pre1 is not empty
  cases hp : pre1 with
  | nil =>
    rw [hp] at h
    simp at h
  | cons c0 r =>
    obtain ⟨k1, k2, k3, k4, k5, k6⟩ := key c0 r hp
    refine ⟨k1, ?_⟩
    cases strip with
    | false =>
      simp only [Bool.false_eq_true, if_false] at hpre1
      refine ⟨[], c0, r, by simp [hpre1, hp], Or.inl rfl, k2, k3, k4, k5, k6, ?_, ?_⟩ <;>
        (intro _; simp)
    | true =>
      simp only [if_true] at hpre1
      cases hpe : pre with
      | nil => rw [hpe] at hpre1; simp at hpre1; rw [hp] at hpre1; simp at hpre1
      | cons f rest =>
        rw [hpe] at hpre1 hstrip g1 g2
        simp only [List.tail_cons] at hpre1
        simp only [List.head?_cons, Option.getD_some, Bool.or_eq_true] at hstrip
        simp only [List.head?_cons, Option.getD_some] at g1 g2
        refine ⟨[f], c0, r, by simp [hpre1, hp], ?_, k2, k3, k4, k5, k6, ?_, ?_⟩
        · rcases hstrip with hh | hh <;> have hh := of_decide_eq_true hh <;> subst hh
          · exact Or.inr (Or.inl rfl)
          · exact Or.inr (Or.inr rfl)
        · intro hv
          rintro ⟨ha, hf⟩
          simp only [List.cons.injEq, and_true] at ha
          exact g1 ⟨hv, ha, hf⟩
        · intro hv
          rintro ⟨ha, h0⟩
          simp only [List.cons.injEq, and_true] at ha
          apply g2
          rw [hp]
          exact ⟨hv, ha, by simp [h0]⟩

end CyVerif.C18

namespace CyVerif.C18

theorem intBody_of_fmt (t : Char) (f : Fmt) (h : fmtCOfChar t = some (.num f)) (m : Nat) :
    intBody t m = cps (pyDigits f m) ∧ t ≠ 'c' := by
  unfold fmtCOfChar at h
  by_cases h1 : t = 'o'
  · subst h1; simp at h; subst h; exact ⟨rfl, by decide⟩
  by_cases h2 : t = 'd'
  · subst h2; simp at h; subst h; exact ⟨rfl, by decide⟩
  by_cases h3 : t = 'x'
  · subst h3; simp at h; subst h; exact ⟨rfl, by decide⟩
  by_cases h4 : t = 'X'
  · subst h4; simp at h; subst h; exact ⟨rfl, by decide⟩
  by_cases h5 : t = 'c'
  · subst h5; simp at h
  · simp [h1, h2, h3, h4, h5] at h

theorem fmtCOfChar_chr (t : Char) (h : fmtCOfChar t = some .chr) : t = 'c' := by
  unfold fmtCOfChar at h
  by_cases h1 : t = 'o' <;> by_cases h2 : t = 'd' <;> by_cases h3 : t = 'x' <;> by_cases h4 : t = 'X' <;>
    by_cases h5 : t = 'c' <;> simp_all

/-- number layout for the two (fill, align) combinations the mapped specs produce -/
theorem numberText_mapped (zero : Bool) (sg : Option Char) (hsg : sg = none ∨ sg = some '-')
    (w : Nat) (ty : Char) (neg : Bool) (body : List Nat) :
    numberText ⟨if zero then '0' else ' ', if zero then '=' else '>', sg, false, false, some w, 0, none, ty⟩
      neg [] body =
    (if zero then (if neg then [45] else []) ++ List.replicate (w - ((if neg then 1 else 0) + body.length)) 48 ++ body
     else List.replicate (w - ((if neg then 1 else 0) + body.length)) 32 ++ (if neg then [45] else []) ++ body) := by
  have e1 : sg ≠ some '+' := by rcases hsg with rfl | rfl <;> simp
  have e2 : sg ≠ some ' ' := by rcases hsg with rfl | rfl <;> simp
  unfold numberText
  cases zero <;> cases neg <;> simp [e1, e2] <;> rfl

end CyVerif.C18

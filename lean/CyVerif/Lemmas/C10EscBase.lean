import CyVerif.Model.C10
import CyVerif.Lemmas.C10Utf8
/-! Builder facts, fuel independence of the reference loops, and the generic simulation
argument (one round of Cython's token loop = one or more steps of the reference decoder). -/
namespace CyVerif.C10

/-! ### builders -/

theorem chStr_ok (k : Kind) (chars : List Nat) (lit : Bool) (ch : Chunk) (h : chStr k chars lit = .ok ch) :
    ch.us = (if k.hasText then chars else []) ∧ ch.nonfatal = false ∧
    ch.nonascii = (lit && chars.any (fun c => decide (128 ≤ c))) ∧
    bytesSide k (utf8Encode chars) = .ok ch.bs := by
  unfold chStr at h
  cases hb : bytesSide k (utf8Encode chars) with
  | err e => rw [hb] at h; cases h
  | ok bs => rw [hb] at h; injection h with h; subst h; simp

theorem chVal_ok (P : LexP) (k : Kind) (n : Nat) (ch : Chunk) (h : chVal P k n = .ok ch) :
    ch.us = (if k.hasText then [n] else []) ∧ ch.nonfatal = false ∧ ch.nonascii = false ∧
    bytesSide k (if n < 256 ∨ P.octWrap = true then .ok [n % 256] else .err "UnicodeEncodeError") = .ok ch.bs := by
  unfold chVal at h
  cases hb : bytesSide k (if n < 256 ∨ P.octWrap = true then .ok [n % 256] else .err "UnicodeEncodeError") with
  | err e => rw [hb] at h; cases h
  | ok bs => rw [hb] at h; injection h with h; subst h; simp

theorem chUesc_ok (k : Kind) (n : Nat) (seq : List Nat) (ch : Chunk) (h : chUesc k n seq = .ok ch) :
    ch.us = [n] ∧ ch.nonfatal = false ∧ ch.nonascii = false := by
  unfold chUesc at h
  cases hb : bytesSide k (utf8Encode seq) with
  | err e => rw [hb] at h; cases h
  | ok bs => rw [hb] at h; injection h with h; subst h; simp

theorem chErr_nonfatal (ch : Chunk) (h : chErr = .ok ch) : ch.nonfatal = true := by
  unfold chErr at h; injection h with h; subst h; rfl

@[simp] theorem app_us (a b : Chunk) : (a.app b).us = a.us ++ b.us := rfl
@[simp] theorem app_bs (a b : Chunk) : (a.app b).bs = a.bs ++ b.bs := rfl
@[simp] theorem app_nonfatal (a b : Chunk) : (a.app b).nonfatal = (a.nonfatal || b.nonfatal) := rfl
@[simp] theorem app_nonascii (a b : Chunk) : (a.app b).nonascii = (a.nonascii || b.nonascii) := rfl

/-! ### the reference loop does not depend on the fuel -/

/-- a step never returns more input than it was given minus the first character -/
def Decreasing (S : List Nat → Res (List Nat) × List Nat) : Prop :=
  ∀ c rest, (S (c :: rest)).2.length ≤ rest.length

theorem refLoop_fuel (S : List Nat → Res (List Nat) × List Nat) (hS : Decreasing S) :
    ∀ (f1 f2 : Nat) (body : List Nat), body.length < f1 → body.length < f2 →
      refLoop S f1 body = refLoop S f2 body := by
  intro f1
  induction f1 with
  | zero => intro _ _ h; omega
  | succ f1 ih =>
    intro f2 body h1 h2
    cases f2 with
    | zero => omega
    | succ f2 =>
      cases body with
      | nil => simp [refLoop]
      | cons c rest =>
        simp only [refLoop]
        have hd := hS c rest
        cases hs : S (c :: rest) with
        | mk r rest' =>
          rw [hs] at hd
          simp only [List.length_cons] at h1 h2 hd
          cases r with
          | err e => rfl
          | ok out => simp only []; rw [ih f2 rest' (by omega) (by omega)]

/-- one reference step in front of a decoded rest -/
theorem refLoop_cons (S : List Nat → Res (List Nat) × List Nat) (hS : Decreasing S)
    (c : Nat) (rest rest1 o v : List Nat) (f f' : Nat)
    (hs : S (c :: rest) = (.ok o, rest1)) (hv : refLoop S f rest1 = .ok v)
    (hf : rest1.length < f) (hf' : (c :: rest).length < f') :
    refLoop S f' (c :: rest) = .ok (o ++ v) := by
  have hd := hS c rest
  rw [hs] at hd
  simp only [List.length_cons] at hf' hd
  cases f' with
  | zero => omega
  | succ f' =>
    simp only [refLoop, hs]
    rw [refLoop_fuel S hS f' f rest1 (by omega) hf, hv]

/-! ### simulation -/

/-- `cyStep` never returns more input than the rest of the body -/
theorem cyStep_decreasing (P : LexP) (lk : Lookup) (k : Kind) (raw : Bool) (c : Nat) (rest : List Nat) :
    (cyStep P lk k raw (c :: rest)).2.length ≤ rest.length := by
  simp only [cyStep]
  by_cases h92 : c = 92
  · simp only [h92, if_true]
    by_cases hr : rest = []
    · simp [hr]
    · simp only [hr, if_false]
      cases raw <;> simp
  · simp only [h92, if_false]
    by_cases hb : k = .f ∧ (c = 123 ∨ c = 125)
    · simp only [hb, and_self, if_true]
      have hrun : 1 ≤ ((c :: rest).takeWhile (· = c)).length := by simp [List.takeWhile]
      have hdrop : ((c :: rest).drop ((c :: rest).takeWhile (· = c)).length).length ≤ rest.length := by
        simp only [List.length_drop, List.length_cons]; omega
      split
      · exact hdrop
      · split
        · exact hdrop
        · split <;> exact hdrop
    · simp only [hb, if_false]; simp

/-- If every successful, "good" round of Cython's loop can be replayed by the reference
decoder (in one or more of its steps), then a good result of the whole loop is the result of
the reference loop. -/
theorem simulate (P : LexP) (lk : Lookup) (k : Kind) (raw : Bool)
    (S : List Nat → Res (List Nat) × List Nat) (out : Chunk → List Nat) (good : Chunk → Prop)
    (hout : ∀ a b, out (a.app b) = out a ++ out b) (hout0 : out {} = [])
    (hgood : ∀ a b, good (a.app b) → good a ∧ good b)
    (H : ∀ c rest ch1 rest1, cyStep P lk k raw (c :: rest) = (.ok ch1, rest1) → good ch1 →
      ∀ f v, rest1.length < f → refLoop S f rest1 = .ok v →
        ∀ f', (c :: rest).length < f' → refLoop S f' (c :: rest) = .ok (out ch1 ++ v)) :
    ∀ (f1 : Nat) (body : List Nat) (ch : Chunk), body.length < f1 →
      cyLoop P lk k raw f1 body = .ok ch → good ch →
      ∀ f2, body.length < f2 → refLoop S f2 body = .ok (out ch) := by
  intro f1
  induction f1 with
  | zero => intro _ _ h; omega
  | succ f1 ih =>
    intro body ch hlen hcy hg f2 hf2
    cases body with
    | nil =>
      simp only [cyLoop] at hcy
      injection hcy with hcy; subst hcy
      cases f2 with
      | zero => simp at hf2
      | succ f2 => simp [refLoop, hout0]
    | cons c rest =>
      simp only [cyLoop] at hcy
      have hd := cyStep_decreasing P lk k raw c rest
      cases hs : cyStep P lk k raw (c :: rest) with
      | mk r rest1 =>
        rw [hs] at hcy hd
        simp only [List.length_cons] at hlen hd
        cases r with
        | err e => simp at hcy
        | ok ch1 =>
          simp only [] at hcy
          cases hl : cyLoop P lk k raw f1 rest1 with
          | err e => rw [hl] at hcy; simp at hcy
          | ok ch2 =>
            rw [hl] at hcy
            injection hcy with hcy; subst hcy
            obtain ⟨g1, g2⟩ := hgood ch1 ch2 hg
            have hv := ih rest1 ch2 (by omega) hl g2 f1 (by omega)
            rw [hout]
            exact H c rest ch1 rest1 hs g1 f1 (out ch2) (by omega) hv f2 hf2

end CyVerif.C10

import CyVerif.Model.C10Utf8
/-! UTF-8: the strict decoder inverts the encoder on scalar values. -/
namespace CyVerif.C10

theorem isScalar_iff (c : Nat) : isScalar c = true ↔ c < 0x110000 ∧ ¬ (0xD800 ≤ c ∧ c ≤ 0xDFFF) := by
  simp [isScalar]; omega

theorem utf8Decode_nil : utf8Decode [] = some [] := by rw [utf8Decode.eq_def]

theorem utf8Enc1_lt (c : Nat) (h : isScalar c = true) : ∀ b ∈ utf8Enc1 c, b < 256 := by
  rw [isScalar_iff] at h
  intro b hb
  unfold utf8Enc1 at hb
  split at hb
  · simp at hb; omega
  · split at hb
    · simp at hb; omega
    · split at hb
      · simp at hb; omega
      · simp at hb; omega

theorem utf8Dec_enc1 (c : Nat) (h : isScalar c = true) (rest : List Nat) :
    utf8Decode (utf8Enc1 c ++ rest) = (utf8Decode rest).map (c :: ·) := by
  rw [isScalar_iff] at h
  unfold utf8Enc1
  by_cases h1 : c < 0x80
  · simp only [h1, if_true, List.cons_append, List.nil_append]
    rw [utf8Decode.eq_def]; simp [h1]
  · by_cases h2 : c < 0x800
    · have e1 : ¬ (0xC0 + c / 64 < 0x80) := by omega
      have e2 : ¬ (0xC0 + c / 64 < 0xC2) := by omega
      have e3 : 0xC0 + c / 64 < 0xE0 := by omega
      have e4 : isCont (0x80 + c % 64) = true := by simp [isCont]; omega
      have e5 : (0xC0 + c / 64 - 0xC0) * 64 + (0x80 + c % 64 - 0x80) = c := by omega
      simp only [h1, h2, if_false, if_true, List.cons_append, List.nil_append]
      rw [utf8Decode]
      simp only [e1, e2, e3, e4, e5, if_false, if_true]
    · by_cases h3 : c < 0x10000
      · have e1 : ¬ (0xE0 + c / 4096 < 0x80) := by omega
        have e2 : ¬ (0xE0 + c / 4096 < 0xC2) := by omega
        have e3 : ¬ (0xE0 + c / 4096 < 0xE0) := by omega
        have e4 : 0xE0 + c / 4096 < 0xF0 := by omega
        have e5 : (isCont (0x80 + c / 64 % 64) && isCont (0x80 + c % 64) &&
            (0xE0 + c / 4096 != 0xE0 || decide (0xA0 ≤ 0x80 + c / 64 % 64)) &&
            (0xE0 + c / 4096 != 0xED || decide (0x80 + c / 64 % 64 ≤ 0x9F))) = true := by
          simp [isCont]; omega
        have e6 : (0xE0 + c / 4096 - 0xE0) * 4096 + (0x80 + c / 64 % 64 - 0x80) * 64 +
            (0x80 + c % 64 - 0x80) = c := by omega
        simp only [h1, h2, h3, if_false, if_true, List.cons_append, List.nil_append]
        rw [utf8Decode]
        simp only [e1, e2, e3, e4, e5, e6, if_false, if_true]
      · have e1 : ¬ (0xF0 + c / 262144 < 0x80) := by omega
        have e2 : ¬ (0xF0 + c / 262144 < 0xC2) := by omega
        have e3 : ¬ (0xF0 + c / 262144 < 0xE0) := by omega
        have e4 : ¬ (0xF0 + c / 262144 < 0xF0) := by omega
        have e4' : 0xF0 + c / 262144 < 0xF5 := by omega
        have e5 : (isCont (0x80 + c / 4096 % 64) && isCont (0x80 + c / 64 % 64) && isCont (0x80 + c % 64) &&
            (0xF0 + c / 262144 != 0xF0 || decide (0x90 ≤ 0x80 + c / 4096 % 64)) &&
            (0xF0 + c / 262144 != 0xF4 || decide (0x80 + c / 4096 % 64 ≤ 0x8F))) = true := by
          simp [isCont]; omega
        have e6 : (0xF0 + c / 262144 - 0xF0) * 262144 + (0x80 + c / 4096 % 64 - 0x80) * 4096 +
            (0x80 + c / 64 % 64 - 0x80) * 64 + (0x80 + c % 64 - 0x80) = c := by omega
        simp only [h1, h2, h3, if_false, List.cons_append, List.nil_append]
        rw [utf8Decode]
        simp only [e1, e2, e3, e4, e4', e5, e6, if_false, if_true]

/-- decoding the encoding of a string of scalar values followed by `rest` -/
theorem utf8Decode_flatMap (s : List Nat) (h : s.all isScalar = true) (rest : List Nat) :
    utf8Decode (s.flatMap utf8Enc1 ++ rest) = (utf8Decode rest).map (s ++ ·) := by
  induction s with
  | nil => simp
  | cons c t ih =>
    simp only [List.all_cons, Bool.and_eq_true] at h
    rw [List.flatMap_cons, List.append_assoc, utf8Dec_enc1 c h.1, ih h.2]
    cases utf8Decode rest <;> simp

theorem utf8_roundtrip (s : List Nat) (h : s.all isScalar = true) :
    utf8Decode (s.flatMap utf8Enc1) = some s := by
  have := utf8Decode_flatMap s h []
  rw [List.append_nil, utf8Decode_nil] at this
  rw [this]; simp

theorem utf8Encode_ok (s : List Nat) (h : s.all isScalar = true) :
    utf8Encode s = .ok (s.flatMap utf8Enc1) := by simp [utf8Encode, h]

theorem utf8Encode_ok_iff (s b : List Nat) :
    utf8Encode s = .ok b ↔ s.all isScalar = true ∧ b = s.flatMap utf8Enc1 := by
  unfold utf8Encode
  by_cases h : s.all isScalar = true
  · rw [if_pos h]
    constructor
    · intro e; injection e with e; exact ⟨h, e.symm⟩
    · intro e; rw [e.2]
  · rw [if_neg h]
    constructor
    · intro e; cases e
    · intro e; exact absurd e.1 h

theorem utf8Encode_bytes (s b : List Nat) (h : utf8Encode s = .ok b) : ∀ x ∈ b, x < 256 := by
  rw [utf8Encode_ok_iff] at h
  obtain ⟨hs, rfl⟩ := h
  intro x hx
  rw [List.mem_flatMap] at hx
  obtain ⟨c, hc, hx⟩ := hx
  exact utf8Enc1_lt c (List.all_eq_true.mp hs c hc) x hx

/-- ASCII text encodes to itself -/
theorem utf8Encode_ascii (s : List Nat) (h : ∀ c ∈ s, c < 128) : utf8Encode s = .ok s := by
  have hs : s.all isScalar = true := by
    rw [List.all_eq_true]; intro c hc; have := h c hc; simp [isScalar]; omega
  rw [utf8Encode_ok s hs]
  congr 1
  induction s with
  | nil => rfl
  | cons c t ih =>
    have hc := h c (by simp)
    simp only [List.flatMap_cons, utf8Enc1, hc, if_true, List.cons_append, List.nil_append]
    rw [ih (fun x hx => h x (by simp [hx]))]
    simp [isScalar] at hs ⊢
    intro x hx; have := h x (by simp [hx]); omega

end CyVerif.C10

import CyVerif.Lemmas.C49Doc
/-!
Ghost structure of the refinement proof: an ordered forest (first-child /
next-sibling encoding, so it is a plain inductive type).  A forest node
carries the heap address of the `StringIOTree` object it stands for, the
buffer name if the object is user-visible (`none` for the anonymous objects
made by `commit`), and the fragments written to its current stream.

* `Forest.doc`  flattens a forest to the flat document of the specification;
* `Cons H F`    says that heap `H` stores exactly this forest;
* the traversals of the model (`chunks`, `allm`, `emp`) compute `textD`,
  `marksD` of the flattened document (`*_forest`).
-/
namespace CyVerif.C49

abbrev Frag := String × List Nat

inductive Forest where
  | nil
  | cons (id : Nat) (name : Option Nat) (fs : List Frag) (kids rest : Forest)

def fragItems (fs : List Frag) : Doc := fs.map fun f => Item.frag f.1 f.2

def wrap : Option Nat → Doc → Doc
  | none, d => d
  | some k, d => Item.op k :: (d ++ [Item.cl k])

namespace Forest

def doc : Forest → Doc
  | nil => []
  | cons _ name fs kids rest => wrap name (kids.doc ++ fragItems fs) ++ rest.doc

def tags : Forest → List (Nat × Option Nat)
  | nil => []
  | cons id name _ kids rest => (id, name) :: (kids.tags ++ rest.tags)

def ids (F : Forest) : List Nat := F.tags.map (·.1)
def names (F : Forest) : List Nat := F.tags.filterMap (·.2)

def rootIds : Forest → List Nat
  | nil => []
  | cons id _ _ _ rest => id :: rest.rootIds

def rootNames : Forest → List Nat
  | nil => []
  | cons _ name _ _ rest => name.toList ++ rest.rootNames

def append : Forest → Forest → Forest
  | nil, G => G
  | cons i n f k r, G => cons i n f k (r.append G)

/-- all fragments stored in the forest have non-empty text -/
def NE : Forest → Prop
  | nil => True
  | cons _ _ fs kids rest => (∀ f ∈ fs, f.1 ≠ "") ∧ kids.NE ∧ rest.NE

/-- apply `g` to the fragments and children of the (first) node with address `b` -/
def modify (b : Nat) (g : List Frag → Forest → List Frag × Forest) : Forest → Forest
  | nil => nil
  | cons id name fs kids rest =>
    if id = b then cons id name (g fs kids).1 (g fs kids).2 rest
    else cons id name fs (modify b g kids) (modify b g rest)

end Forest

/-- the heap stores the forest -/
def Cons (H : Heap) : Forest → Prop
  | .nil => True
  | .cons id _ fs kids rest =>
    (∃ n, H[id]? = some n ∧ n.children = kids.rootIds ∧ n.stream = textD (fragItems fs) ∧
      n.markers = marksD (fragItems fs)) ∧ Cons H kids ∧ Cons H rest

open Forest

@[simp] theorem textD_wrap (nm : Option Nat) (d : Doc) : textD (wrap nm d) = textD d := by
  cases nm <;> simp [wrap, textD, textD_append]

@[simp] theorem marksD_wrap (nm : Option Nat) (d : Doc) : marksD (wrap nm d) = marksD d := by
  cases nm <;> simp [wrap, marksD, marksD_append]

@[simp] theorem fragsD_wrap (nm : Option Nat) (d : Doc) : fragsD (wrap nm d) = fragsD d := by
  cases nm <;> simp [wrap, fragsD, fragsD_append]

@[simp] theorem fragsD_fragItems (fs : List Frag) : fragsD (fragItems fs) = fs := by
  induction fs with
  | nil => rfl
  | cons f r ih => simp [fragItems, fragsD] at ih ⊢; exact ih

theorem Forest.doc_append (F G : Forest) : (F.append G).doc = F.doc ++ G.doc := by
  induction F with
  | nil => rfl
  | cons i n f k r _ ihr => simp [Forest.append, Forest.doc, ihr]

theorem Forest.tags_append (F G : Forest) : (F.append G).tags = F.tags ++ G.tags := by
  induction F with
  | nil => rfl
  | cons i n f k r _ ihr => simp [Forest.append, Forest.tags, ihr]

theorem Forest.rootIds_append (F G : Forest) : (F.append G).rootIds = F.rootIds ++ G.rootIds := by
  induction F with
  | nil => rfl
  | cons i n f k r _ ihr => simp [Forest.append, Forest.rootIds, ihr]

theorem Forest.rootNames_append (F G : Forest) :
    (F.append G).rootNames = F.rootNames ++ G.rootNames := by
  induction F with
  | nil => rfl
  | cons i n f k r _ ihr => simp [Forest.append, Forest.rootNames, ihr]

theorem Forest.NE_append {F G : Forest} (hF : F.NE) (hG : G.NE) : (F.append G).NE := by
  induction F with
  | nil => exact hG
  | cons i n f k r _ ihr => exact ⟨hF.1, hF.2.1, ihr hF.2.2⟩

theorem Cons_append {H : Heap} {F G : Forest} (hF : Cons H F) (hG : Cons H G) :
    Cons H (F.append G) := by
  induction F with
  | nil => exact hG
  | cons i n f k r _ ihr => exact ⟨hF.1, hF.2.1, ihr hF.2.2⟩

/-- every address of the forest is allocated -/
theorem Cons_ids_lt {H : Heap} {F : Forest} (h : Cons H F) : ∀ i ∈ F.ids, i < H.length := by
  induction F with
  | nil => intro i hi; simp [Forest.ids, Forest.tags] at hi
  | cons id n f k r ihk ihr =>
    intro i hi
    simp only [Forest.ids, Forest.tags, List.map_cons, List.map_append, List.mem_cons,
      List.mem_append] at hi
    rcases hi with hi | hi | hi
    · obtain ⟨⟨nd, hn, _⟩, _, _⟩ := h
      subst hi
      exact (List.getElem?_eq_some_iff.1 hn).1
    · exact ihk h.2.1 i hi
    · exact ihr h.2.2 i hi

/-- changing heap cells outside the forest does not disturb it -/
theorem Cons_frame {H H' : Heap} {F : Forest}
    (hfr : ∀ i ∈ F.ids, ∀ n, H[i]? = some n → H'[i]? = some n) (h : Cons H F) : Cons H' F := by
  induction F with
  | nil => trivial
  | cons id nm f k r ihk ihr =>
    obtain ⟨⟨nd, hn, hrest⟩, hk, hr⟩ := h
    have hsub : ∀ {l : List (Nat × Option Nat)}, (∀ t ∈ l, t ∈ (Forest.cons id nm f k r).tags) →
        ∀ i ∈ l.map (·.1), ∀ n, H[i]? = some n → H'[i]? = some n := by
      intro l hl i hi n
      obtain ⟨t, ht, rfl⟩ := List.mem_map.1 hi
      exact hfr _ (List.mem_map.2 ⟨t, hl t ht, rfl⟩) n
    refine ⟨⟨nd, hfr id (by simp [Forest.ids, Forest.tags]) nd hn, hrest⟩, ihk ?_ hk, ihr ?_ hr⟩
    · exact hsub (l := k.tags) (fun t ht => by simp [Forest.tags, ht])
    · exact hsub (l := r.tags) (fun t ht => by simp [Forest.tags, ht])

end CyVerif.C49

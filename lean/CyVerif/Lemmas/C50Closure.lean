import CyVerif.Lemmas.C50TMapG
import CyVerif.Lemmas.C46Graph
/-! Epsilon closure (`DFA.py`): `add_to_epsilon_closure` computes exactly the set of states
reachable by epsilon moves. `C46.Reach n.eps` is the reflexive-transitive closure of the epsilon edges. -/
namespace CyVerif.C50
open CyVerif.C46 (Reach)

/-- what a call `add_to_epsilon_closure(acc, s)` guarantees about the updated set `R` -/
structure ClosPost (n : NFA) (acc : SSet) (s : Nat) (R : SSet) : Prop where
  sorted : Sorted R
  mono : ∀ x ∈ acc, x ∈ R
  self : s ∈ R
  sound : ∀ x ∈ R, x ∈ acc ∨ Reach n.eps s x
  closed : ∀ v ∈ R, v ∉ acc → ∀ w ∈ n.eps v, w ∈ R

/-- the `for state2 in state_set_2` loop -/
theorem foldClosure_spec (n : NFA) (h : SSet → Nat → Option SSet)
    (hh : ∀ acc t R, Sorted acc → h acc t = some R → ClosPost n acc t R)
    (ts : List Nat) (acc R : SSet) (hs : Sorted acc) (hr : foldClosure h ts acc = some R) :
    Sorted R ∧ (∀ x ∈ acc, x ∈ R) ∧ (∀ t ∈ ts, t ∈ R) ∧
    (∀ x ∈ R, x ∈ acc ∨ ∃ t ∈ ts, Reach n.eps t x) ∧
    (∀ v ∈ R, v ∉ acc → ∀ w ∈ n.eps v, w ∈ R) := by
  induction ts generalizing acc with
  | nil =>
    simp only [foldClosure, Option.some.injEq] at hr
    subst hr
    exact ⟨hs, fun _ hx => hx, by simp, fun x hx => .inl hx, fun v hv hnv => absurd hv hnv⟩
  | cons t ts ih =>
    simp only [foldClosure] at hr
    cases h1 : h acc t with
    | none => simp [h1] at hr
    | some acc' =>
      simp only [h1] at hr
      have p := hh acc t acc' hs h1
      obtain ⟨q1, q2, q3, q4, q5⟩ := ih acc' p.sorted hr
      refine ⟨q1, fun x hx => q2 x (p.mono x hx), ?_, ?_, ?_⟩
      · intro t' ht'
        rcases List.mem_cons.1 ht' with e | e
        · subst e; exact q2 _ p.self
        · exact q3 t' e
      · intro x hx
        rcases q4 x hx with hx' | ⟨t', ht', hr'⟩
        · rcases p.sound x hx' with hx'' | hx''
          · exact .inl hx''
          · exact .inr ⟨t, by simp, hx''⟩
        · exact .inr ⟨t', by simp [ht'], hr'⟩
      · intro v hv hnv w hw
        by_cases hv' : v ∈ acc'
        · exact q2 w (p.closed v hv' hnv w hw)
        · exact q5 v hv hv' w hw

theorem addToClosure_spec (n : NFA) (fuel : Nat) (acc : SSet) (s : Nat) (R : SSet)
    (hs : Sorted acc) (hr : addToClosure n fuel acc s = some R) : ClosPost n acc s R := by
  induction fuel generalizing acc s R with
  | zero => simp [addToClosure] at hr
  | succ fuel ih =>
    simp only [addToClosure] at hr
    by_cases hmem : s ∈ acc
    · simp only [hmem, if_true, Option.some.injEq] at hr
      subst hr
      exact ⟨hs, fun _ hx => hx, hmem, fun x hx => .inl hx, fun v hv hnv => absurd hv hnv⟩
    · simp only [hmem, if_false] at hr
      obtain ⟨q1, q2, q3, q4, q5⟩ := foldClosure_spec n (addToClosure n fuel)
        (fun acc t R hs h => ih acc t R hs h) (n.eps s) (sins s acc) R (sins_sorted hs) hr
      refine ⟨q1, fun x hx => q2 x (mem_sins.2 (.inr hx)), q2 s (mem_sins.2 (.inl rfl)), ?_, ?_⟩
      · intro x hx
        rcases q4 x hx with hx' | ⟨t, ht, hr'⟩
        · rcases mem_sins.1 hx' with e | e
          · subst e; exact .inr (.refl _)
          · exact .inl e
        · exact .inr (.step ht hr')
      · intro v hv hnv w hw
        by_cases hvs : v = s
        · subst hvs; exact q3 w hw
        · exact q5 v hv (by rw [mem_sins]; simp [hvs, hnv]) w hw

/-- `epsilon_closure(state)` is the set of states reachable by epsilon moves -/
theorem epsClosure_spec (n : NFA) (s : Nat) (R : SSet) (hr : epsClosure n s = some R) :
    Sorted R ∧ ∀ x, x ∈ R ↔ Reach n.eps s x := by
  have p := addToClosure_spec n _ [] s R sorted_nil hr
  refine ⟨p.sorted, fun x => ⟨fun hx => ?_, fun hx => ?_⟩⟩
  · rcases p.sound x hx with h | h
    · cases h
    · exact h
  · have key : ∀ a x, Reach n.eps a x → a ∈ R → x ∈ R := by
      intro a x hax
      induction hax with
      | refl => exact fun h => h
      | step hab _ ih => exact fun ha => ih (p.closed _ ha (by simp) _ hab)
    exact key s x hx p.self

/-- a set of states closed under epsilon moves -/
def EpsClosed (n : NFA) (S : SSet) : Prop := ∀ v ∈ S, ∀ w ∈ n.eps v, w ∈ S

theorem EpsClosed.reach {n : NFA} {S : SSet} (h : EpsClosed n S) {a x : Nat} (hax : Reach n.eps a x)
    (ha : a ∈ S) : x ∈ S := by
  induction hax with
  | refl => exact ha
  | step hab _ ih => exact ih (h _ ha _ hab)

/-- `set_epsilon_closure(state_set)` is the union of the closures -/
theorem setEpsClosure_spec (n : NFA) (ss : List Nat) (R : SSet) (hr : setEpsClosure n ss = some R) :
    Sorted R ∧ ∀ x, x ∈ R ↔ ∃ s ∈ ss, Reach n.eps s x := by
  induction ss generalizing R with
  | nil =>
    simp only [setEpsClosure, Option.some.injEq] at hr
    subst hr
    exact ⟨sorted_nil, by simp⟩
  | cons s ss ih =>
    simp only [setEpsClosure] at hr
    cases h1 : epsClosure n s with
    | none => simp [h1] at hr
    | some c =>
      cases h2 : setEpsClosure n ss with
      | none => simp [h1, h2] at hr
      | some r =>
        simp only [h1, h2, Option.some.injEq] at hr
        subst hr
        obtain ⟨r1, r2⟩ := ih r h2
        obtain ⟨c1, c2⟩ := epsClosure_spec n s c h1
        refine ⟨sunion_sorted r1, fun x => ?_⟩
        rw [mem_sunion, r2, c2]
        constructor
        · rintro (⟨t, ht, hx⟩ | hx)
          · exact ⟨t, by simp [ht], hx⟩
          · exact ⟨s, by simp, hx⟩
        · rintro ⟨t, ht, hx⟩
          rcases List.mem_cons.1 ht with e | e
          · subst e; exact .inr hx
          · exact .inl ⟨t, e, hx⟩

theorem reach_trans {g : Nat → List Nat} {a b c : Nat} (h1 : Reach g a b) (h2 : Reach g b c) : Reach g a c :=
  CyVerif.C46.Reach.trans h1 h2

/-- closures are epsilon-closed -/
theorem setEpsClosure_closed (n : NFA) (ss : List Nat) (R : SSet) (hr : setEpsClosure n ss = some R) :
    EpsClosed n R := by
  obtain ⟨_, h⟩ := setEpsClosure_spec n ss R hr
  intro v hv w hw
  obtain ⟨s, hs, hsv⟩ := (h v).1 hv
  exact (h w).2 ⟨s, hs, reach_trans hsv (.step hw (.refl _))⟩

theorem epsClosure_closed (n : NFA) (s : Nat) (R : SSet) (hr : epsClosure n s = some R) : EpsClosed n R := by
  obtain ⟨_, h⟩ := epsClosure_spec n s R hr
  intro v hv w hw
  exact (h w).2 (reach_trans ((h v).1 hv) (.step hw (.refl _)))

end CyVerif.C50

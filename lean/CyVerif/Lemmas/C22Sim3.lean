import CyVerif.Lemmas.C22Sim2
/-! C22: the refinement by mutual structural induction over statements and handler lists. -/
set_option linter.unusedSimpArgs false
set_option linter.unusedVariables false
namespace CyVerif.C22

theorem reset_same (t : TS) (x : Option Nat) (sl : Option (Option Nat)) (cs : CS) (c : Option Nat) (h : t.cur = c) :
    excReset (mkCS t x sl cs) c = mkCS t x sl cs := by
  subst h; cases t; rfl

theorem Inv.enter {V m cs} (h : Inv V m cs none) : Inv V m.enterTry cs none :=
  ⟨h.curexc, h.dirty, h.slotv, fun hs => by have := h.slotm hs; cases m <;> simp_all [Mode.enterTry], h.save⟩

theorem callExit_cur (ts : TS) (a : Option Nat) (ex : ExitAct) :
    (callExit ts a ex).2.2.cur = ts.cur ∧ (callExit ts a ex).2.2.prev = ts.prev := by
  cases ex with
  | falsy => exact ⟨rfl, rfl⟩
  | truthy => exact ⟨rfl, rfl⟩
  | raises k => simp only [callExit]; exact doRaise_cur _ _ _

/-- state in which an except clause body starts -/
theorem Inv.handler {V m cs e} (h : Inv V m cs (some e)) (nb : Option Nat) :
    Inv V .free (mkCS { cs.ts with cur := some e, nb := nb } none (some (some e))
      { cs with managed := true, dirty := false }) none := by
  refine ⟨rfl, rfl, ?_, fun _ => by simp, ?_⟩
  · intro v hv; simp [mkCS] at hv ⊢; simp [← hv]
  · intro _; simp [mkCS, TS.top]

def pyHandler (f : TS → Out × TS) (asn : Bool) (e : Nat) (ts : TS) : Out × TS :=
  if asn then
    let r := f { ts with nb := some e }
    (r.1, { r.2 with nb := none })
  else f ts

theorem handler_sim {V : Variant} {m : Mode} (pf : TS → Out × TS) (cf : CS → COut × CS) (asn : Bool) (b : Stmt)
    (cs : CS) (e : Nat) (h : Inv V m cs (some e))
    (hpf : simpleBody b = true → ∀ ts, pf ts = (if simpleRet b then .ret else .norm, ts))
    (hcf : simpleBody b = true → ∀ cs, cs.retCrashes = false → cf cs = (if simpleRet b then .ret else .norm, cs))
    (hb : ∀ cs', Inv V .free cs' none → Post V .free cs' (pf cs'.ts) (cf cs')) :
    cyHandler cf asn (simpleBody b) cs.ts.cur cs =
      (liftOut (pyHandler pf asn e { cs.ts with cur := some e }).1,
        mkCS { (pyHandler pf asn e { cs.ts with cur := some e }).2 with cur := cs.ts.cur }
          (excOf (pyHandler pf asn e { cs.ts with cur := some e }).1) cs.slot cs) ∧
    (pyHandler pf asn e { cs.ts with cur := some e }).2.prev = cs.ts.prev := by
  have hstart : ∀ nb, ((getException cs).2.enterSlot true (getException cs).1).withTS
      { ((getException cs).2.enterSlot true (getException cs).1).ts with nb := nb } =
      mkCS { cs.ts with cur := some e, nb := nb } none (some (some e)) { cs with managed := true, dirty := false } := by
    intro nb
    simp [getException, CS.enterSlot, CS.withTS, mkCS, h.curexc, h.dirty, h.notCleared]
  have hstart2 : (getException cs).2.enterSlot true (getException cs).1 =
      mkCS { cs.ts with cur := some e, nb := cs.ts.nb } none (some (some e)) { cs with managed := true, dirty := false } := by
    simp [getException, CS.enterSlot, mkCS, h.curexc, h.dirty, h.notCleared]
  have finish : ∀ (nb : Option Nat) (p : Out × TS) (c : COut × CS),
      Post V .free (mkCS { cs.ts with cur := some e, nb := nb } none (some (some e))
        { cs with managed := true, dirty := false }) p c →
      (match c.1 with
        | .crash => (COut.crash, c.2.leaveSlot cs)
        | .brk => if (c.2.slot == some none) = true then (.crash, c.2.leaveSlot cs) else (.brk, excReset (c.2.leaveSlot cs) cs.ts.cur)
        | .cont => if (c.2.slot == some none) = true then (.crash, c.2.leaveSlot cs) else (.cont, excReset (c.2.leaveSlot cs) cs.ts.cur)
        | o => (o, excReset (c.2.leaveSlot cs) cs.ts.cur)) =
        (liftOut p.1, mkCS { p.2 with cur := cs.ts.cur } (excOf p.1) cs.slot cs) ∧ p.2.prev = cs.ts.prev := by
    intro nb p c hp
    obtain ⟨sl, hc, hsl, hcur, hprev⟩ := hp
    obtain ⟨o, t⟩ := p
    subst hc
    refine ⟨?_, hprev⟩
    cases o with
    | norm => simp [liftOut, excOf, mkCS, CS.leaveSlot, excReset]
    | exc x => simp [liftOut, excOf, mkCS, CS.leaveSlot, excReset]
    | ret => simp [liftOut, excOf, mkCS, CS.leaveSlot, excReset]
    | brk =>
      have := slot_intact (Or.inr rfl) hsl; subst this
      simp [liftOut, excOf, mkCS, CS.leaveSlot, excReset]
    | cont =>
      have := slot_intact (Or.inr rfl) hsl; subst this
      simp [liftOut, excOf, mkCS, CS.leaveSlot, excReset]
  cases asn with
  | true =>
    simp only [cyHandler, pyHandler, Bool.true_or, if_true]
    rw [hstart (getException cs).1]
    have hg : (getException cs).1 = some e := by simp [getException, h.curexc]
    rw [hg]
    have := finDel_sim pf cf hb _ (h.handler (some e))
    exact finish (some e) _ _ this
  | false =>
    by_cases hsb : simpleBody b = true
    · simp only [cyHandler, pyHandler, hsb, Bool.false_or, Bool.not_true, Bool.false_eq_true, if_false]
      rw [hcf hsb _ (by simpa [CS.retCrashes, errRestore] using h.retOk), hpf hsb]
      refine ⟨?_, rfl⟩
      by_cases hr : simpleRet b = true <;> simp [hr, liftOut, excOf, mkCS, excReset, errRestore]
    · simp only [Bool.not_eq_true] at hsb
      simp only [cyHandler, pyHandler, hsb, Bool.false_or, Bool.not_false, if_true, Bool.false_eq_true, if_false]
      rw [hstart2]
      have := hb _ (h.handler cs.ts.nb)
      exact finish cs.ts.nb _ _ this

def pyWith (f : TS → Out × TS) (er : Option Nat) (ex : ExitAct) (ts : TS) : Out × TS :=
  let ts0 := ts.emit (.enter ts.top)
  match er with
  | some k => (.exc k, doRaise ts0 k .no)
  | none =>
    match f ts0 with
    | (.exc e, ts1) =>
      let r := callExit { ts1 with cur := some e } (some e) ex
      let o := match r.1 with
        | none => r.2.1
        | some true => .norm
        | some false => .exc e
      (o, { r.2.2 with cur := ts1.cur })
    | (o, ts1) =>
      let r := callExit ts1 none ex
      ((match r.1 with | none => r.2.1 | some _ => o), r.2.2)

theorem pyExec_with (env : Env) (er : Option Nat) (ex : ExitAct) (b : Stmt) (ts : TS) :
    pyExec env (.withS er ex b) ts = pyWith (pyExec env b) er ex ts := by
  simp only [pyExec, pyWith]
  cases er with
  | some k => rfl
  | none =>
    simp only []
    generalize pyExec env b _ = r
    obtain ⟨o, t⟩ := r
    cases o <;> rfl

theorem with_sim {V : Variant} {m : Mode} (pf : TS → Out × TS) (cf : CS → COut × CS) (elide : Bool)
    (er : Option Nat) (ex : ExitAct) (cs : CS) (h : Inv V m cs none)
    (hb : ∀ cs', Inv V m.enterTry cs' none → Post V m.enterTry cs' (pf cs'.ts) (cf cs')) :
    Post V m cs (pyWith pf er ex cs.ts) (cyWith V cf elide er ex cs) := by
  have hI0 := h.step (cs.ts.emit (.enter cs.ts.top)) rfl rfl
  simp only [pyWith, cyWith, withTS_eq h]
  cases er with
  | some k =>
    simp only []
    exact ⟨cs.slot, by simp [liftOut, excOf, mkCS], Or.inl rfl, (doRaise_cur _ _ _).1, (doRaise_cur _ _ _).2⟩
  | none =>
    simp only []
    obtain ⟨sl, hc, hsl, hcur, hprev⟩ := hb _ hI0.enter
    have := slot_intact (Or.inl (Mode.enterTry_ne_free m)) hsl; subst this
    rw [hc, hI0.saved]
    simp only [show (mkCS (cs.ts.emit (.enter cs.ts.top)) none cs.slot cs).ts = cs.ts.emit (.enter cs.ts.top) from rfl,
      show (mkCS (cs.ts.emit (.enter cs.ts.top)) none cs.slot cs).slot = cs.slot from rfl,
      show (cs.ts.emit (.enter cs.ts.top)).cur = cs.ts.cur from rfl,
      show (cs.ts.emit (.enter cs.ts.top)).prev = cs.ts.prev from rfl] at hcur hprev ⊢
    generalize pf (cs.ts.emit (.enter cs.ts.top)) = r at hcur hprev ⊢
    obtain ⟨o, t⟩ := r
    simp only [] at hcur hprev
    cases o with
    | exc e =>
      cases ex with
      | falsy =>
        refine ⟨cs.slot, ?_, Or.inl rfl, hcur, hprev⟩
        simp [liftOut, excOf, mkCS, getException, cyCallExit, callExit, excReset, errRestore, TS.emit, hcur]
      | truthy =>
        refine ⟨cs.slot, ?_, Or.inl rfl, hcur, hprev⟩
        simp [liftOut, excOf, mkCS, getException, cyCallExit, callExit, excReset, errRestore, TS.emit, hcur]
      | raises k =>
        refine ⟨cs.slot, ?_, Or.inl rfl, hcur, ?_⟩
        · simp [liftOut, excOf, mkCS, getException, cyCallExit, callExit, excReset, errRestore, TS.emit, hcur]
        · simp only [callExit]; rw [(doRaise_cur _ _ _).2]; exact hprev
    | norm =>
      cases ex with
      | falsy => exact ⟨cs.slot, by simp [liftOut, excOf, mkCS, cyCallExit, callExit, TS.emit], Or.inl rfl, hcur, hprev⟩
      | truthy => exact ⟨cs.slot, by simp [liftOut, excOf, mkCS, cyCallExit, callExit, TS.emit], Or.inl rfl, hcur, hprev⟩
      | raises k =>
        refine ⟨cs.slot, by simp [liftOut, excOf, mkCS, cyCallExit, callExit, TS.emit], Or.inl rfl, ?_, ?_⟩
        · simp only [callExit]; rw [(doRaise_cur _ _ _).1]; exact hcur
        · simp only [callExit]; rw [(doRaise_cur _ _ _).2]; exact hprev
    | ret =>
      have hr := reset_same t none cs.slot cs cs.ts.cur hcur
      simp only [mkCS] at hr
      cases ex with
      | falsy => exact ⟨cs.slot, by cases elide <;> simp [liftOut, excOf, mkCS, hr, cyCallExit, callExit, TS.emit], Or.inl rfl, hcur, hprev⟩
      | truthy => exact ⟨cs.slot, by cases elide <;> simp [liftOut, excOf, mkCS, hr, cyCallExit, callExit, TS.emit], Or.inl rfl, hcur, hprev⟩
      | raises k =>
        refine ⟨cs.slot, by cases elide <;> simp [liftOut, excOf, mkCS, hr, cyCallExit, callExit, TS.emit], Or.inl rfl, ?_, ?_⟩
        · simp only [callExit]; rw [(doRaise_cur _ _ _).1]; exact hcur
        · simp only [callExit]; rw [(doRaise_cur _ _ _).2]; exact hprev
    | brk =>
      have hr := reset_same t none cs.slot cs cs.ts.cur hcur
      simp only [mkCS] at hr
      cases ex with
      | falsy => exact ⟨cs.slot, by cases elide <;> simp [liftOut, excOf, mkCS, hr, cyCallExit, callExit, TS.emit], Or.inl rfl, hcur, hprev⟩
      | truthy => exact ⟨cs.slot, by cases elide <;> simp [liftOut, excOf, mkCS, hr, cyCallExit, callExit, TS.emit], Or.inl rfl, hcur, hprev⟩
      | raises k =>
        refine ⟨cs.slot, by cases elide <;> simp [liftOut, excOf, mkCS, hr, cyCallExit, callExit, TS.emit], Or.inl rfl, ?_, ?_⟩
        · simp only [callExit]; rw [(doRaise_cur _ _ _).1]; exact hcur
        · simp only [callExit]; rw [(doRaise_cur _ _ _).2]; exact hprev
    | cont =>
      have hr := reset_same t none cs.slot cs cs.ts.cur hcur
      simp only [mkCS] at hr
      cases ex with
      | falsy => exact ⟨cs.slot, by cases elide <;> simp [liftOut, excOf, mkCS, hr, cyCallExit, callExit, TS.emit], Or.inl rfl, hcur, hprev⟩
      | truthy => exact ⟨cs.slot, by cases elide <;> simp [liftOut, excOf, mkCS, hr, cyCallExit, callExit, TS.emit], Or.inl rfl, hcur, hprev⟩
      | raises k =>
        refine ⟨cs.slot, by cases elide <;> simp [liftOut, excOf, mkCS, hr, cyCallExit, callExit, TS.emit], Or.inl rfl, ?_, ?_⟩
        · simp only [callExit]; rw [(doRaise_cur _ _ _).1]; exact hcur
        · simp only [callExit]; rw [(doRaise_cur _ _ _).2]; exact hprev

mutual
theorem sim (V : Variant) (env : Env) : ∀ (s : Stmt) (m : Mode) (cs : CS), NG V.reraiseClears m s = true → Inv V m cs none →
    Post V m cs (pyExec env s cs.ts) (cyExec V env s cs)
  | .skip, m, cs, _, h => by simp only [pyExec, cyExec]; exact post_same h _ _ _ _ rfl h.cs_eq rfl rfl
  | .delN, m, cs, _, h => by
    simp only [pyExec, cyExec, cyDelN]; exact post_same h _ _ _ _ rfl (withTS_eq h _) rfl rfl
  | .log k, m, cs, _, h => by
    simp only [pyExec, cyExec]; exact post_same h _ _ _ _ rfl (withTS_eq h _) rfl rfl
  | .probe, m, cs, _, h => by
    simp only [pyExec, cyExec]; exact post_same h _ _ _ _ rfl (withTS_eq h _) rfl rfl
  | .raiseI c k cause, m, cs, _, h => by
    simp only [pyExec, cyExec]
    by_cases hf : env.fires c = true
    · simp only [hf, if_true]
      exact post_same h _ _ _ _ rfl (pyxRaise_eq cs k cause) (doRaise_cur _ _ _).1 (doRaise_cur _ _ _).2
    · simp only [hf, if_false]; exact post_same h _ _ _ _ rfl h.cs_eq rfl rfl
  | .raiseNew c cls, m, cs, _, h => by
    simp only [pyExec, cyExec]
    by_cases hf : env.fires c = true
    · simp only [hf, if_true]
      exact post_same h _ _ _ _ rfl rfl (raiseFresh_cur _ _).1 (raiseFresh_cur _ _).2
    · simp only [hf, if_false]; exact post_same h _ _ _ _ rfl h.cs_eq rfl rfl
  | .ret c, m, cs, _, h => by
    simp only [pyExec, cyExec]
    by_cases hf : env.fires c = true
    · simp only [hf, if_true, h.retOk]; exact post_same h _ _ _ _ rfl h.cs_eq rfl rfl
    · simp only [hf, if_false]; exact post_same h _ _ _ _ rfl h.cs_eq rfl rfl
  | .brk c, m, cs, _, h => by
    simp only [pyExec, cyExec]
    by_cases hf : env.fires c = true
    · simp only [hf, if_true]; exact post_same h _ _ _ _ rfl h.cs_eq rfl rfl
    · simp only [hf, if_false]; exact post_same h _ _ _ _ rfl h.cs_eq rfl rfl
  | .cont c, m, cs, _, h => by
    simp only [pyExec, cyExec]
    by_cases hf : env.fires c = true
    · simp only [hf, if_true]; exact post_same h _ _ _ _ rfl h.cs_eq rfl rfl
    · simp only [hf, if_false]; exact post_same h _ _ _ _ rfl h.cs_eq rfl rfl
  | .reraise c, m, cs, hn, h => by
    simp only [pyExec, cyExec]
    by_cases hf : env.fires c = true
    · simp only [hf, if_true, cyReraise]
      cases hs : cs.slot with
      | none =>
        simp only []
        cases ht : cs.ts.top with
        | some e =>
          simp only []
          refine post_same h _ _ _ _ rfl ?_ rfl rfl
          rw [hs]; have := h.cs_eq; simp only [errRestore, mkCS, excOf] at this ⊢; rw [this]; simp [hs]
        | none =>
          simp only []
          refine post_same h _ _ _ _ rfl ?_ (raiseFresh_cur _ _).1 (raiseFresh_cur _ _).2
          rw [hs]; simp [pyxRaiseFresh, mkCS, excOf, hs]
      | some v =>
        obtain ⟨hv, hne⟩ := h.slotv v hs
        obtain ⟨e, rfl⟩ : ∃ e, v = some e := by cases v with | none => exact absurd rfl hne | some e => exact ⟨e, rfl⟩
        have ht : cs.ts.top = some e := by simp [TS.top, ← hv]
        simp only [ht]
        refine ⟨if V.reraiseClears then some none else some (some e), ?_, ?_, rfl, rfl⟩
        · have := h.cs_eq; simp only [errRestore, mkCS, excOf, liftOut] at this ⊢ <;> (try rw [this])
        · by_cases hc : V.reraiseClears = true
          · right
            have hm1 : m ≠ .top := h.slotm (by simp [hs])
            have hm2 : m ≠ .guarded := by simpa [NG, hc] using hn
            refine ⟨hc, ?_, rfl, by simp [hc]⟩
            cases m <;> simp_all
          · left; simp [hc, hs]
    · simp only [hf, if_false]; exact post_same h _ _ _ _ rfl h.cs_eq rfl rfl
  | .seq a b, m, cs, hn, h => by
    simp only [NG, Bool.and_eq_true] at hn
    obtain ⟨sl, hc, hsl, hcur, hprev⟩ := sim V env a m cs hn.1 h
    simp only [pyExec, cyExec]
    rw [hc]
    generalize pyExec env a cs.ts = r at hsl hcur hprev ⊢
    obtain ⟨o, t⟩ := r
    cases o with
    | norm =>
      have := slot_intact (Or.inr rfl) hsl; subst this
      obtain ⟨sl2, hc2, hsl2, hcur2, hprev2⟩ := sim V env b m _ hn.2 (h.step t hcur hprev)
      exact ⟨sl2, hc2, hsl2, hcur2.trans hcur, hprev2.trans hprev⟩
    | exc e => exact ⟨sl, rfl, hsl, hcur, hprev⟩
    | ret => exact ⟨sl, rfl, hsl, hcur, hprev⟩
    | brk => exact ⟨sl, rfl, hsl, hcur, hprev⟩
    | cont => exact ⟨sl, rfl, hsl, hcur, hprev⟩
  | .loop n b, m, cs, hn, h => by
    simp only [NG] at hn
    simp only [pyExec, cyExec]
    exact iter_sim _ _ (fun cs' h' => sim V env b m cs' hn h') n cs h
  | .tryFin b f, m, cs, hn, h => by
    simp only [NG, Bool.and_eq_true] at hn
    rw [pyExec_tryFin]
    simp only [cyExec]
    exact fin_sim _ _ _ _ (fun cs' h' => sim V env b _ cs' hn.1.1 h') (fun cs' h' => sim V env f m cs' hn.1.2 h')
      (fun cs' h' => sim V env f .free cs' hn.2 h') cs h
  | .tryEx b hs e, m, cs, hn, h => by
    simp only [NG, Bool.and_eq_true] at hn
    obtain ⟨sl, hc, hsl, hcur, hprev⟩ := sim V env b _ cs hn.1.1 h.enter
    have := slot_intact (Or.inl (Mode.enterTry_ne_free m)) hsl; subst this
    have hnx := fun hu => noExc env b cs.ts hu
    simp only [pyExec, cyExec]
    rw [hc, h.saved]
    generalize pyExec env b cs.ts = r at hcur hprev hnx ⊢
    obtain ⟨o, t⟩ := r
    by_cases hu : usesErr b = true
    · simp only [hu, Bool.not_true, Bool.false_eq_true, if_false]
      cases o with
      | norm =>
        simp only [liftOut, excOf]
        obtain ⟨sl2, hc2, hsl2, hcur2, hprev2⟩ := sim V env e m _ hn.2 (h.step t hcur hprev)
        rw [hc2]
        simp only [show (mkCS t none cs.slot cs).ts = t from rfl,
          show (mkCS t none cs.slot cs).slot = cs.slot from rfl] at hsl2 hcur2 hprev2 ⊢
        generalize pyExec env e t = r2 at hsl2 hcur2 hprev2 ⊢
        obtain ⟨o2, t2⟩ := r2
        refine ⟨sl2, ?_, hsl2, hcur2.trans hcur, hprev2.trans hprev⟩
        have hr := reset_same t2 (excOf o2) sl2 cs cs.ts.cur (hcur2.trans hcur)
        cases o2 <;> simp [liftOut, excOf, mkCS] at hr ⊢ <;> (try exact hr)
      | exc x =>
        simp only [liftOut, excOf]
        have hI : Inv V m (mkCS t (some x) cs.slot cs) (some x) :=
          ⟨rfl, h.dirty, fun v hv => by simp only [mkCS] at hv ⊢; rw [hcur]; exact h.slotv v hv, h.slotm,
            fun hs' => by have := h.save hs'; simp only [mkCS, TS.top] at this ⊢; rw [hcur, hprev]; exact this⟩
        obtain ⟨hd, hdp⟩ := simD V env hs m _ x hn.1.2 hI
        simp only [show (mkCS t (some x) cs.slot cs).ts = t from rfl] at hd hdp
        rw [← hcur, hd]
        exact ⟨cs.slot, rfl, Or.inl rfl, hcur, hdp.trans hprev⟩
      | ret =>
        exact ⟨cs.slot, by simp [liftOut, excOf, reset_same t none cs.slot cs cs.ts.cur hcur], Or.inl rfl, hcur, hprev⟩
      | brk =>
        exact ⟨cs.slot, by simp [liftOut, excOf, reset_same t none cs.slot cs cs.ts.cur hcur], Or.inl rfl, hcur, hprev⟩
      | cont =>
        exact ⟨cs.slot, by simp [liftOut, excOf, reset_same t none cs.slot cs cs.ts.cur hcur], Or.inl rfl, hcur, hprev⟩
    · simp only [Bool.not_eq_true] at hu
      simp only [hu, Bool.not_false, if_true]
      cases o with
      | norm =>
        simp only [liftOut, excOf]
        obtain ⟨sl2, hc2, hsl2, hcur2, hprev2⟩ := sim V env e m _ hn.2 (h.step t hcur hprev)
        exact ⟨sl2, hc2, hsl2, hcur2.trans hcur, hprev2.trans hprev⟩
      | exc x => have := hnx hu; simp [Out.isExc] at this
      | ret => exact ⟨cs.slot, rfl, Or.inl rfl, hcur, hprev⟩
      | brk => exact ⟨cs.slot, rfl, Or.inl rfl, hcur, hprev⟩
      | cont => exact ⟨cs.slot, rfl, Or.inl rfl, hcur, hprev⟩
  | .withS er ex b, m, cs, hn, h => by
    rw [pyExec_with]
    simp only [cyExec]
    exact with_sim _ _ _ er ex cs h (fun cs' h' => sim V env b _ cs' (by simpa [NG] using hn) h')
theorem simD (V : Variant) (env : Env) : ∀ (hs : Handlers) (m : Mode) (cs : CS) (e : Nat), NGH V.reraiseClears hs = true →
    Inv V m cs (some e) →
    cyDispatch V env hs cs.ts.cur cs =
      (liftOut (pyDispatch env hs e { cs.ts with cur := some e }).1,
        mkCS { (pyDispatch env hs e { cs.ts with cur := some e }).2 with cur := cs.ts.cur }
          (excOf (pyDispatch env hs e { cs.ts with cur := some e }).1) cs.slot cs) ∧
    (pyDispatch env hs e { cs.ts with cur := some e }).2.prev = cs.ts.prev
  | .nil, m, cs, e, _, h => by
    simp only [pyDispatch, cyDispatch, liftOut, excOf]
    refine ⟨?_, trivial⟩
    have := h.cs_eq; simp only [excReset, mkCS] at this ⊢; rw [this]
  | .cons pat asn b rest, m, cs, e, hn, h => by
    simp only [NGH, Bool.and_eq_true] at hn
    have hpd : pyDispatch env (.cons pat asn b rest) e { cs.ts with cur := some e } =
        if matchesPat env cs.ts.heap e pat then pyHandler (pyExec env b) asn e { cs.ts with cur := some e }
        else pyDispatch env rest e { cs.ts with cur := some e } := by
      simp only [pyDispatch, pyHandler] <;> (cases asn <;> rfl)
    rw [hpd]
    simp only [cyDispatch, h.curexc]
    by_cases hm : matchesPat env cs.ts.heap e pat = true
    · simp only [hm, if_true]
      exact handler_sim (pyExec env b) (cyExec V env b) asn b cs e h (fun hs ts => simple_py env b ts hs)
        (fun hs cs' hc => simple_cy2 V env b cs' hs hc) (fun cs' h' => sim V env b .free cs' hn.1 h')
    · simp only [hm, if_false, Bool.false_eq_true]
      exact simD V env rest m cs e hn.2 h
end

end CyVerif.C22

import CyVerif.Model.C04
/-!
Arithmetic facts about two's-complement ranges, `wrap`, `toU` and the sign-bit
extraction used by the portable branch of `Overflow.c`.
-/
namespace CyVerif.C04

theorem two_pow_pos' (n : Nat) : 0 < (2 : Int) ^ n := Int.pow_pos (by omega)

theorem two_pow_split {w : Nat} (hw : 1 ≤ w) : (2 : Int) ^ w = 2 * (2 : Int) ^ (w - 1) := by
  have : w = (w - 1) + 1 := by omega
  conv => lhs; rw [this, Int.pow_succ]
  omega

theorem two_pow_split_nat {w : Nat} (hw : 1 ≤ w) : 2 ^ w = 2 * 2 ^ (w - 1) := by
  have : w = (w - 1) + 1 := by omega
  conv => lhs; rw [this, Nat.pow_succ]
  omega

theorem two_pow_cast (n : Nat) : ((2 ^ n : Nat) : Int) = (2 : Int) ^ n := by
  rw [Int.natCast_pow]; rfl

theorem two_pow_mono {i j : Nat} (h : i ≤ j) : (2 : Int) ^ i ≤ (2 : Int) ^ j := by
  have := Nat.pow_le_pow_right (n := 2) (by omega) h
  rw [← two_pow_cast, ← two_pow_cast]
  exact Int.ofNat_le.2 this

theorem two_pow_add (i j : Nat) : (2 : Int) ^ (i + j) = (2 : Int) ^ i * (2 : Int) ^ j := Int.pow_add 2 i j

/-- unfold the range of a signed type into linear facts about `p = 2^(w-1)` -/
theorem inR_signed {w : Nat} {x : Int} : InR true w x ↔ -(2 : Int) ^ (w - 1) ≤ x ∧ x ≤ (2 : Int) ^ (w - 1) - 1 := by
  simp [InR, tmin, tmax]

theorem inR_unsigned {w : Nat} {x : Int} : InR false w x ↔ 0 ≤ x ∧ x ≤ (2 : Int) ^ w - 1 := by
  simp [InR, tmin, tmax]

/-! ### wrap -/

theorem wrap_inR {sg : Bool} {w : Nat} (hw : 1 ≤ w) (x : Int) : InR sg w (wrap sg w x) := by
  have hm := two_pow_split hw
  have hp := two_pow_pos' (w - 1)
  cases sg
  · simp only [wrap, Bool.false_eq_true, if_false]
    rw [inR_unsigned]
    have h1 := Int.emod_nonneg x (b := (2 : Int) ^ w) (by omega)
    have h2 := Int.emod_lt_of_pos x (b := (2 : Int) ^ w) (by omega)
    omega
  · simp only [wrap, if_true]
    rw [inR_signed]
    have h1 := Int.emod_nonneg (x + (2 : Int) ^ (w - 1)) (b := (2 : Int) ^ w) (by omega)
    have h2 := Int.emod_lt_of_pos (x + (2 : Int) ^ (w - 1)) (b := (2 : Int) ^ w) (by omega)
    omega

/-- `wrap` only adds a multiple of `2^w` -/
theorem wrap_eq_add_mul (sg : Bool) (w : Nat) (x : Int) : ∃ k : Int, wrap sg w x = x + k * (2 : Int) ^ w := by
  cases sg
  · refine ⟨-(x / (2 : Int) ^ w), ?_⟩
    simp only [wrap, Bool.false_eq_true, if_false]
    have := Int.emod_add_mul_ediv x ((2 : Int) ^ w)
    rw [Int.neg_mul, Int.mul_comm]; omega
  · refine ⟨-((x + (2 : Int) ^ (w - 1)) / (2 : Int) ^ w), ?_⟩
    simp only [wrap, if_true]
    have := Int.emod_add_mul_ediv (x + (2 : Int) ^ (w - 1)) ((2 : Int) ^ w)
    rw [Int.neg_mul, Int.mul_comm]; omega

/-- two values of the same type that differ by a multiple of `2^w` are equal -/
theorem inR_congr_eq {sg : Bool} {w : Nat} (hw : 1 ≤ w) {x y k : Int} (hx : InR sg w x) (hy : InR sg w y)
    (h : y = x + k * (2 : Int) ^ w) : y = x := by
  have hm := two_pow_split hw
  have hp := two_pow_pos' (w - 1)
  have hk : k = 0 := by
    by_cases h1 : 1 ≤ k
    · have := Int.mul_le_mul_of_nonneg_right h1 (show 0 ≤ (2 : Int) ^ w by omega)
      cases sg
      · rw [inR_unsigned] at hx hy; omega
      · rw [inR_signed] at hx hy; omega
    · by_cases h2 : k ≤ -1
      · have := Int.mul_le_mul_of_nonneg_right h2 (show 0 ≤ (2 : Int) ^ w by omega)
        cases sg
        · rw [inR_unsigned] at hx hy; omega
        · rw [inR_signed] at hx hy; omega
      · omega
  subst hk; omega

theorem wrap_of_inR {sg : Bool} {w : Nat} (hw : 1 ≤ w) {x : Int} (hx : InR sg w x) : wrap sg w x = x := by
  obtain ⟨k, hk⟩ := wrap_eq_add_mul sg w x
  exact inR_congr_eq hw hx (wrap_inR hw x) hk

theorem wrap_eq_self_iff {sg : Bool} {w : Nat} (hw : 1 ≤ w) (x : Int) : wrap sg w x = x ↔ InR sg w x :=
  ⟨fun h => h ▸ wrap_inR hw x, wrap_of_inR hw⟩

/-- the value in range congruent to `x` is `wrap x` -/
theorem wrap_unique {sg : Bool} {w : Nat} (hw : 1 ≤ w) {x y k : Int} (hy : InR sg w y)
    (h : y = x + k * (2 : Int) ^ w) : wrap sg w x = y := by
  obtain ⟨k', hk'⟩ := wrap_eq_add_mul sg w x
  have : wrap sg w x = y + (k' - k) * (2 : Int) ^ w := by
    rw [Int.sub_mul]; omega
  exact inR_congr_eq hw hy (wrap_inR hw x) this

theorem wrap_add_mul {sg : Bool} {w : Nat} (hw : 1 ≤ w) (x k : Int) :
    wrap sg w (x + k * (2 : Int) ^ w) = wrap sg w x := by
  obtain ⟨k', hk'⟩ := wrap_eq_add_mul sg w x
  refine wrap_unique hw (wrap_inR hw x) (k := k' - k) ?_
  rw [Int.sub_mul]; omega

theorem builtinOvf_eq {sg : Bool} {w : Nat} (hw : 1 ≤ w) (e : Int) :
    builtinOvf sg w e = (wrap sg w e, decide (¬ InR sg w e)) := by
  simp only [builtinOvf, ne_eq, wrap_eq_self_iff hw]

/-! ### `(unsigned T) x` -/

theorem toU_lt (w : Nat) (x : Int) : toU w x < 2 ^ w := by
  have hp := two_pow_pos' w
  have h1 := Int.emod_nonneg x (b := (2 : Int) ^ w) (by omega)
  have h2 := Int.emod_lt_of_pos x (b := (2 : Int) ^ w) (by omega)
  unfold toU
  rw [Int.toNat_lt h1, two_pow_cast]; exact h2

theorem toU_cast (w : Nat) (x : Int) : ((toU w x : Nat) : Int) = x % (2 : Int) ^ w := by
  have hp := two_pow_pos' w
  have h1 := Int.emod_nonneg x (b := (2 : Int) ^ w) (by omega)
  unfold toU; exact Int.toNat_of_nonneg h1

theorem toU_signed {w : Nat} (hw : 1 ≤ w) {x : Int} (hx : InR true w x) :
    ((toU w x : Nat) : Int) = if x < 0 then x + (2 : Int) ^ w else x := by
  have hm := two_pow_split hw
  have hp := two_pow_pos' (w - 1)
  rw [inR_signed] at hx
  rw [toU_cast]
  split
  · have : x % (2 : Int) ^ w = (x + (2 : Int) ^ w) % (2 : Int) ^ w := by
      have := Int.add_mul_emod_self_right x 1 ((2 : Int) ^ w)
      rw [Int.one_mul] at this; exact this.symm
    rw [this]; exact Int.emod_eq_of_lt (by omega) (by omega)
  · exact Int.emod_eq_of_lt (by omega) (by omega)

theorem toU_unsigned {w : Nat} {x : Int} (hx : InR false w x) : ((toU w x : Nat) : Int) = x := by
  rw [inR_unsigned] at hx
  rw [toU_cast]; exact Int.emod_eq_of_lt (by omega) (by omega)

/-! ### sign bit -/

theorem mod_small2 {s M : Nat} (h : s < 2 * M) : s % M = if s < M then s else s - M := by
  split
  · rename_i h1; exact Nat.mod_eq_of_lt h1
  · rename_i h1
    rw [Nat.mod_eq_sub_mod (by omega)]; exact Nat.mod_eq_of_lt (by omega)

theorem testBit_top {w x : Nat} (hw : 1 ≤ w) (hx : x < 2 ^ w) :
    x.testBit (w - 1) = decide (2 ^ (w - 1) ≤ x) := by
  have hm := two_pow_split_nat hw
  have hp := Nat.two_pow_pos (w - 1)
  rw [Nat.testBit_eq_decide_div_mod_eq]
  by_cases h : 2 ^ (w - 1) ≤ x
  · have h1 : x / 2 ^ (w - 1) = 1 := by
      apply Nat.div_eq_of_lt_le <;> omega
    simp [h1, h]
  · have h1 : x / 2 ^ (w - 1) = 0 := Nat.div_eq_of_lt (by omega)
    simp [h1, h]

theorem topBit_eq {w x : Nat} (hw : 1 ≤ w) (hx : x < 2 ^ w) :
    topBit w x = if 2 ^ (w - 1) ≤ x then 1 else 0 := by
  have hm := two_pow_split_nat hw
  have hp := Nat.two_pow_pos (w - 1)
  unfold topBit
  rw [Nat.shiftRight_eq_div_pow]
  split
  · apply Nat.div_eq_of_lt_le <;> omega
  · exact Nat.div_eq_of_lt (by omega)

theorem flagOf_topBit {P : Plat} (hP : 1 ≤ P.wint) {w x : Nat} (hw : 1 ≤ w) (hx : x < 2 ^ w) :
    flagOf P (topBit w x) = x.testBit (w - 1) := by
  have h2 : 2 ≤ 2 ^ P.wint := by
    have := Nat.pow_le_pow_right (n := 2) (by omega) hP
    simpa using this
  rw [testBit_top hw hx, topBit_eq hw hx]
  unfold flagOf
  split
  · rename_i h; simp [h, Nat.mod_eq_of_lt (show 1 < 2 ^ P.wint by omega)]
  · rename_i h; simp [h]

/-- sign bit of `(x ^ r) & (y ^ r)` for `w`-bit values -/
theorem signTrick {P : Plat} (hP : 1 ≤ P.wint) {w x y z r : Nat} (hw : 1 ≤ w)
    (hx : x < 2 ^ w) (hy : y < 2 ^ w) (hz : z < 2 ^ w) (hr : r < 2 ^ w) :
    flagOf P (topBit w ((x ^^^ y) &&& (z ^^^ r))) =
      ((decide (2 ^ (w - 1) ≤ x) ^^ decide (2 ^ (w - 1) ≤ y)) &&
       (decide (2 ^ (w - 1) ≤ z) ^^ decide (2 ^ (w - 1) ≤ r))) := by
  rw [flagOf_topBit hP hw (Nat.and_lt_two_pow _ (Nat.xor_lt_two_pow hz hr))]
  rw [Nat.testBit_and, Nat.testBit_xor, Nat.testBit_xor,
    testBit_top hw hx, testBit_top hw hy, testBit_top hw hz, testBit_top hw hr]

end CyVerif.C04

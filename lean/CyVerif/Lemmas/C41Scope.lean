import CyVerif.Model.C41Scope
/-! Lemmas for the directive-scoping model (C41). -/
set_option linter.unusedSectionVars false
set_option linter.unusedSimpArgs false
namespace CyVerif.C41

variable {V : Type} [DecidableEq V]

/-- last setting of `n` in a list (processing order) -/
def lastOf (n : Name) : List (Name × V) → Option V
  | [] => none
  | (m, v) :: r => (lastOf n r).or (if m = n then some v else none)

theorem lastOf_append_single (n : Name) (l : List (Name × V)) (x : Name × V) :
    lastOf n (l ++ [x]) = (if x.1 = n then some x.2 else none).or (lastOf n l) := by
  induction l with
  | nil => obtain ⟨m, v⟩ := x; simp [lastOf]
  | cons y r ih =>
    obtain ⟨m, v⟩ := y
    simp only [List.cons_append, lastOf, ih]
    by_cases h : x.1 = n <;> simp [h]

theorem lastOf_reverse (n : Name) (l : List (Name × V)) : lastOf n l.reverse = lk n l := by
  induction l with
  | nil => rfl
  | cons y r ih =>
    obtain ⟨m, v⟩ := y
    rw [List.reverse_cons, lastOf_append_single, ih]
    by_cases h : m = n <;> simp [lk, h]

theorem optOf_get (T : STable) (merge : V → V → V) (n : Name) (hn : T.mergeable n = false)
    (l : List (Name × V)) (acc : Env V) :
    optOf T merge acc l n = (lastOf n l).or (acc n) := by
  induction l generalizing acc with
  | nil => simp [optOf, lastOf]
  | cons y r ih =>
    obtain ⟨m, v⟩ := y
    rw [optOf, ih]
    by_cases h : m = n
    · subst h
      cases hl : lastOf m r <;> cases ha : acc m <;> simp [lastOf, Env.set, hl, ha, hn]
    · have h' : ¬ n = m := fun e => h e.symm
      cases hl : lastOf n r <;> simp [lastOf, Env.set, hl, h, h']

theorem contOf_get (T : STable) (n : Name) (l : List (Name × V)) (acc : Env V) :
    contOf T acc l n = if T.immediate n then acc n else (lastOf n l).or (acc n) := by
  induction l generalizing acc with
  | nil => simp [contOf, lastOf]
  | cons y r ih =>
    obtain ⟨m, v⟩ := y
    rw [contOf, ih]
    by_cases hi : T.immediate n = true
    · simp only [hi, if_true]
      by_cases hm : T.immediate m = true
      · simp [hm]
      · by_cases h : n = m
        · subst h; exact absurd hi hm
        · simp [hm, Env.set, h]
    · simp only [hi]
      by_cases h : m = n
      · subst h
        cases hl : lastOf m r <;> simp [lastOf, Env.set, hl, hi]
      · have h' : ¬ n = m := fun e => h e.symm
        by_cases hm : T.immediate m = true <;>
          cases hl : lastOf n r <;> simp [lastOf, Env.set, hl, h, h', hm]

/-- dropping the decorators that repeat the value seen so far does not change the outcome -/
theorem keep_get (n : Name) (l : List (Name × V)) (cur : Env V) :
    (lastOf n (keep cur l)).or (cur n) = (lastOf n l).or (cur n) := by
  induction l generalizing cur with
  | nil => rfl
  | cons y r ih =>
    obtain ⟨m, v⟩ := y
    by_cases hc : cur m = some v
    · rw [keep, if_pos hc, ih]
      by_cases h : m = n
      · subst h; cases hl : lastOf m r <;> simp [lastOf, hl, hc]
      · cases hl : lastOf n r <;> simp [lastOf, hl, h]
    · rw [keep, if_neg hc]
      have := ih (cur.set m v)
      by_cases h : m = n
      · subst h
        cases hl : lastOf m r <;> cases hk : lastOf m (keep (cur.set m v) r) <;>
          simp_all [lastOf, Env.set]
      · have h' : ¬ n = m := fun e => h e.symm
        cases hl : lastOf n r <;> cases hk : lastOf n (keep (cur.set m v) r) <;>
          simp_all [lastOf, Env.set]

theorem keep_nil_get (n : Name) (l : List (Name × V)) (cur : Env V) (h : keep cur l = []) :
    cur n = (lastOf n l).or (cur n) := by
  have := keep_get n l cur
  rw [h] at this
  simpa [lastOf] using this

/-- dictionaries computed for a definition with decorators, for names that are neither dropped by
`copy_inherited_directives` nor merged -/
theorem defEnvs_spec (T : STable) (merge : V → V → V) (dflt : Name → V) (env : Env V)
    (decs : List (Name × Arg V)) (n : Name) (hn : T.regular n) :
    (defEnvs T merge dflt env decs).1 n = (lk n (decs.map (resolve dflt))).or (env n) ∧
    (defEnvs T merge dflt env decs).2 n =
      if T.immediate n then env n else (lk n (decs.map (resolve dflt))).or (env n) := by
  obtain ⟨hni, hnm⟩ := hn
  have hrev : lastOf n (decs.reverse.map (resolve dflt)) = lk n (decs.map (resolve dflt)) := by
    rw [List.map_reverse, lastOf_reverse]
  unfold defEnvs
  by_cases hk : (keep env (decs.reverse.map (resolve dflt))).isEmpty = true
  · have hk' : keep env (decs.reverse.map (resolve dflt)) = [] := by simpa using hk
    have := keep_nil_get n _ env hk'
    rw [hrev] at this
    simp only [hk, if_true]
    refine ⟨this, ?_⟩
    split
    · rfl
    · exact this
  · simp only [hk]
    have hg := keep_get n (decs.reverse.map (resolve dflt)) env
    rw [hrev] at hg
    constructor
    · show copyInh T env (optOf T merge emptyEnv _) n = _
      unfold copyInh
      rw [optOf_get T merge n hnm]
      simp only [emptyEnv, Option.or_none, hni]
      rw [← hg]
      cases lastOf n (keep env (decs.reverse.map (resolve dflt))) <;> simp
    · show copyInh T env (contOf T emptyEnv _) n = _
      unfold copyInh
      rw [contOf_get]
      by_cases hi : T.immediate n = true
      · simp [hi, emptyEnv, hni]
      · simp only [hi, emptyEnv, Option.or_none, hni]
        rw [← hg]
        cases lastOf n (keep env (decs.reverse.map (resolve dflt))) <;> simp

theorem withEnv_spec (T : STable) (dflt : Name → V) (env : Env V) (m : Name) (a : Arg V) (n : Name)
    (hn : T.nonInherited n = false) :
    withEnv T dflt env m a n = (lk n [(m, a.getD (dflt m))]).or (env n) := by
  unfold withEnv copyInh
  by_cases h : m = n
  · subst h; simp [Env.set, lk]
  · have h' : ¬ n = m := fun e => h e.symm
    simp [Env.set, lk, h, h', emptyEnv, hn]

theorem Agree.append {α β} {R : α → β → Prop} : ∀ {a₁ a₂ : List α} {b₁ b₂ : List β},
    Agree R a₁ b₁ → Agree R a₂ b₂ → Agree R (a₁ ++ a₂) (b₁ ++ b₂)
  | [], _, [], _, _, h => h
  | _ :: _, _, _ :: _, _, ⟨h, t⟩, h2 => ⟨h, Agree.append t h2⟩
  | [], _, _ :: _, _, h, _ => h.elim
  | _ :: _, _, [], _, h, _ => h.elim

theorem Agree.length {α β} {R : α → β → Prop} : ∀ {a : List α} {b : List β}, Agree R a b → a.length = b.length
  | [], [], _ => rfl
  | _ :: _, _ :: _, ⟨_, t⟩ => by simp [Agree.length t]
  | [], _ :: _, h => h.elim
  | _ :: _, [], h => h.elim

/-- the relation the main theorem states between an observation and its specification point -/
def ObsOK (T : STable) (base : Env V) (o : Nat × Env V) (s : Nat × List (Frame V)) : Prop :=
  o.1 = s.1 ∧ ∀ n, T.regular n → o.2 n = eff T base s.2 n

theorem run_agree (T : STable) (merge : V → V → V) (dflt : Name → V) (base : Env V) (p : Prog V) :
    ∀ (env : Env V) (fs : List (Frame V)), (∀ n, T.regular n → env n = eff T base fs n) →
      Agree (ObsOK T base) (run T merge dflt env p) (points dflt fs p) := by
  induction p with
  | done => intro env fs _; exact True.intro
  | mark id r ih =>
    intro env fs h
    exact ⟨⟨rfl, h⟩, ih env fs h⟩
  | withB m a b r ihb ihr =>
    intro env fs h
    refine Agree.append (ihb _ _ ?_) (ihr env fs h)
    intro n hn
    rw [withEnv_spec T dflt env m a n hn.1, h n hn]
    simp [eff, Frame.lookup]
  | defB k id ds b r ihb ihr =>
    intro env fs h
    refine ⟨⟨rfl, ?_⟩, Agree.append (ihb _ _ ?_) (ihr env fs h)⟩
    · intro n hn
      show (defEnvs T merge dflt env ds).1 n = _
      rw [(defEnvs_spec T merge dflt env ds n hn).1, h n hn]
      simp [eff, Frame.lookup]
    · intro n hn
      rw [(defEnvs_spec T merge dflt env ds n hn).2, h n hn]
      by_cases hi : T.immediate n = true <;> simp [eff, Frame.lookup, hi]

end CyVerif.C41

import CyVerif.Lemmas.IntDiv
/-!
Arithmetic behind C16: the C "ceil division" of `slice_memviewslice`
(`q = d / step; if (d - step*q) ++q;`) against CPython's slice-length formula
`(d - 1) / step + 1`, and the counting property of the latter.
-/
namespace CyVerif.C16

/-- `q = d / step; if (d - step * q) ++q;` with C (truncating) division. -/
def ceilRaw (d st : Int) : Int :=
  let q := d.tdiv st
  if d - st * q ≠ 0 then q + 1 else q

theorem ceilRaw_neg (d st : Int) : ceilRaw (-d) (-st) = ceilRaw d st := by
  unfold ceilRaw
  have h : (-d).tdiv (-st) = d.tdiv st := by rw [Int.tdiv_neg, Int.neg_tdiv]; omega
  simp only [h]
  have h2 : -d - -st * d.tdiv st = -(d - st * d.tdiv st) := by rw [Int.neg_mul]; omega
  rw [h2]
  by_cases h0 : d - st * d.tdiv st = 0
  · simp [h0]
  · have : -(d - st * d.tdiv st) ≠ 0 := by omega
    simp [h0, this]

/-- same sign, positive: C's rounded-up quotient is CPython's `(d-1)/step + 1`. -/
theorem ceilRaw_pos {d st : Int} (hd : 0 < d) (hs : 0 < st) :
    ceilRaw d st = (d - 1).tdiv st + 1 := by
  have hb : st ≠ 0 := by omega
  obtain ⟨h1, h2, h3, _⟩ := tdiv_tmod_spec d hb
  have hr0 := h3 (by omega)
  unfold ceilRaw
  have hrem : d - st * d.tdiv st = d.tmod st := by omega
  simp only [hrem]
  have hq0 : 0 ≤ d.tdiv st := Int.tdiv_nonneg (by omega) (by omega)
  have hm0 : 0 ≤ st * d.tdiv st := Int.mul_nonneg (by omega) hq0
  by_cases hr : d.tmod st = 0
  · simp only [hr, ne_eq, not_true_eq_false, if_false]
    have hq1 : 1 ≤ d.tdiv st := by
      apply Classical.byContradiction
      intro hc
      have : d.tdiv st = 0 := by omega
      rw [this, Int.mul_zero] at h1
      omega
    have hm1 := Int.mul_le_mul_of_nonneg_left hq1 (show 0 ≤ st by omega)
    rw [Int.mul_one] at hm1
    have := (tdiv_tmod_unique (a := d - 1) (q := d.tdiv st - 1) (r := st - 1) hb
      (by rw [Int.mul_sub]; omega) (by omega) (by omega) (by omega)).1
    omega
  · simp only [ne_eq, hr, not_false_eq_true, if_true]
    have := (tdiv_tmod_unique (a := d - 1) (q := d.tdiv st) (r := d.tmod st - 1) hb
      (by omega) (by omega) (by omega) (by omega)).1
    omega

/-- opposite signs: the rounded-up quotient is `1` exactly when `|d| < |step|`
(this is the defect: the slice is empty), otherwise it is `≤ 0`. -/
theorem ceilRaw_pos_neg {d st : Int} (hd : 0 < d) (hs : st < 0) :
    (d < -st → ceilRaw d st = 1) ∧ (-st ≤ d → ceilRaw d st ≤ 0) := by
  have hb : st ≠ 0 := by omega
  obtain ⟨h1, h2, h3, _⟩ := tdiv_tmod_spec d hb
  have hr0 := h3 (by omega)
  have hrem : d - st * d.tdiv st = d.tmod st := by omega
  constructor
  · intro hlt
    have := tdiv_tmod_unique (a := d) (q := 0) (r := d) hb (by omega) (by omega) (by omega) (by omega)
    unfold ceilRaw
    simp only [this.1]
    have : d ≠ 0 := by omega
    simp [this]
  · intro hge
    unfold ceilRaw
    simp only [hrem]
    -- st * q = d - r > 0 with st < 0, hence q ≤ -1
    have hq : d.tdiv st ≤ -1 := by
      apply Classical.byContradiction
      intro hc
      have hq0 : 0 ≤ d.tdiv st := by omega
      have := Int.mul_le_mul_of_nonneg_right (show st ≤ 0 by omega) hq0
      rw [Int.zero_mul] at this
      omega
    split <;> omega

theorem ceilRaw_zero (st : Int) : ceilRaw 0 st = 0 := by
  unfold ceilRaw; simp

theorem ceilRaw_neg_pos {d st : Int} (hd : d < 0) (hs : 0 < st) :
    (-d < st → ceilRaw d st = 1) ∧ (st ≤ -d → ceilRaw d st ≤ 0) := by
  have := ceilRaw_pos_neg (d := -d) (st := -st) (by omega) (by omega)
  rw [ceilRaw_neg, Int.neg_neg] at this
  exact this

theorem ceilRaw_neg_neg {d st : Int} (hd : d < 0) (hs : st < 0) :
    ceilRaw d st = (-d - 1).tdiv (-st) + 1 := by
  rw [← ceilRaw_neg]; exact ceilRaw_pos (by omega) (by omega)

/-- CPython's `(d-1)/step + 1` counts the multiples of `step` below `d`. -/
theorem count_below {d st : Int} (hd : 0 < d) (hs : 0 < st) (k : Int) :
    k < (d - 1).tdiv st + 1 ↔ k * st < d := by
  have hb : st ≠ 0 := by omega
  obtain ⟨h1, h2, h3, _⟩ := tdiv_tmod_spec (d - 1) hb
  have hr0 := h3 (by omega)
  have hc : st * (d - 1).tdiv st = (d - 1).tdiv st * st := Int.mul_comm _ _
  constructor
  · intro hk
    have := Int.mul_le_mul_of_nonneg_right (show k ≤ (d - 1).tdiv st by omega) (show 0 ≤ st by omega)
    omega
  · intro hk
    apply Classical.byContradiction
    intro hc2
    have := Int.mul_le_mul_of_nonneg_right (show (d - 1).tdiv st + 1 ≤ k by omega) (show 0 ≤ st by omega)
    rw [Int.add_mul] at this
    omega

theorem count_pos {d st : Int} (hd : 0 < d) (hs : 0 < st) : 0 < (d - 1).tdiv st + 1 := by
  have := (count_below hd hs 0).2 (by omega)
  exact this

end CyVerif.C16

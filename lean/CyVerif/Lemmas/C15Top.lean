import CyVerif.Lemmas.C15Assign
/-! # C15 — macro-level lemmas (fits-check + fast path + fallback) -/
namespace CyVerif.C15

variable {α : Type}

theorem wrapFlag_false_nonneg {w : Nat} {s cn : Bool} {v : Int} {d : Dirs} (hv : inT w s v = true)
    (hcn : cn = true → 0 ≤ v) (hd : d.wraparound = true) (h : wrapFlag d s cn = false) : 0 ≤ v := by
  rw [inT_iff] at hv
  cases s
  · simp [tMin] at hv; exact hv.1
  · cases cn
    · simp [wrapFlag, hd] at h
    · exact hcn rfl

theorem pySet_not_ub (l : List α) (i : Int) (v : α) : (pySet l i v).isUB = false := by
  unfold pySet; split <;> rfl

theorem pyDel_not_ub (l : List α) (i : Int) : (pyDel l i).isUB = false := by
  unfold pyDel; split <;> rfl

theorem pyAssK_not_ub (sw : Nat) (k : Kind) (l : List α) (i : Int) (v : Option α) :
    (pyAssK sw k l i v).isUB = false := by
  unfold pyAssK
  split
  · cases v
    · exact pyDel_not_ub l i
    · exact pySet_not_ub l i _
  · split <;> rfl

theorem pyAssK_list (sw : Nat) (l : List α) (i : Int) (v : α) : pyAssK sw .list l i (some v) = pySet l i v := by
  simp [pyAssK, Kind.mutable]

theorem objGetFast_bc {sw : Nat} (hsw : 0 < sw) {l : List α} (hn : (l.length : Int) ≤ ssMax sw) {i : Int}
    (hi : inSS sw i = true) (wrap : Bool) (k : Kind)
    (hsub : (k = .listSub ∨ k = .tupleSub) → ¬ dblWrap l.length i) :
    objGetFast sw k l i wrap true = pyGet l i := by
  cases k
  case list => exact seqFast_bc hsw hn hi wrap
  case tuple => exact seqFast_bc hsw hn hi wrap
  case listSub => simp only [objGetFast, Kind.seqFlag]; exact pyGet_sqWrap (hsub (Or.inl rfl))
  case tupleSub => simp only [objGetFast, Kind.seqFlag]; exact pyGet_sqWrap (hsub (Or.inr rfl))
  all_goals simp [objGetFast, Kind.seqFlag]

theorem setFast_bc {sw : Nat} (hsw : 0 < sw) {l : List α} (hn : (l.length : Int) ≤ ssMax sw) {i : Int}
    (hi : inSS sw i = true) (wrap : Bool) (k : Kind) (v : α)
    (hsub : k = .listSub → ¬ dblWrap l.length i) :
    setFast sw k l i v wrap true = pyAssK sw k l i (some v) := by
  cases k
  case list => rw [setFast_list_bc hsw hn hi wrap v, pyAssK_list]
  case listSub =>
    simp only [setFast, Kind.seqFlag, Kind.mutable]
    simpa using pyAssK_sqWrap (sw := sw) (k := .listSub) (wrap := wrap) rfl (hsub rfl) (some v)
  all_goals simp [setFast, Kind.seqFlag, Kind.mutable]

theorem delFast_eq {sw : Nat} {l : List α} {i : Int} {wrap : Bool} (hwr : wrap = false → 0 ≤ i) (k : Kind)
    (hsub : k = .listSub → ¬ dblWrap l.length i) :
    delFast sw k l i wrap = pyAssK sw k l i none := by
  cases k
  case list =>
    simp only [delFast, Kind.seqFlag, Kind.mutable]
    simp [sqAssItem_del_eq hwr, pyAssK, Kind.mutable]
  case listSub =>
    simp only [delFast, Kind.seqFlag, Kind.mutable]
    simpa using pyAssK_sqWrap (sw := sw) (k := .listSub) (wrap := wrap) rfl (hsub rfl) (none : Option α)
  all_goals simp [delFast, Kind.seqFlag, Kind.mutable]

end CyVerif.C15

import CyVerif.Model.C35
/-! Association-list facts used by the C35 proofs (`aget` / `aset` = dict lookup / assignment). -/
namespace CyVerif.C35

variable {α β : Type} [DecidableEq α]

theorem mem_of_aget {l : List (α × β)} {k : α} {v : β} (h : aget l k = some v) : (k, v) ∈ l := by
  induction l with
  | nil => simp [aget] at h
  | cons p l ih =>
    simp only [aget] at h
    by_cases hp : p.1 = k
    · simp [hp] at h
      have : p = (k, v) := by cases p; simp_all
      simp [this]
    · simp [hp] at h
      exact List.mem_cons_of_mem _ (ih h)

theorem aget_none_iff {l : List (α × β)} {k : α} : aget l k = none ↔ k ∉ l.map (·.1) := by
  induction l with
  | nil => simp [aget]
  | cons p l ih =>
    simp only [aget]
    by_cases hp : p.1 = k
    · simp [hp]
    · have hp' : ¬ k = p.1 := fun e => hp e.symm
      simp [hp, hp', ih]

theorem aget_of_mem {l : List (α × β)} {k : α} {v : β} (nd : (l.map (·.1)).Nodup) (h : (k, v) ∈ l) :
    aget l k = some v := by
  induction l with
  | nil => simp at h
  | cons p l ih =>
    simp only [aget]
    simp only [List.map_cons, List.nodup_cons] at nd
    rcases List.mem_cons.mp h with h | h
    · subst h; simp
    · have : p.1 ≠ k := by
        intro e; apply nd.1; rw [e]; exact List.mem_map.mpr ⟨(k, v), h, rfl⟩
      simp [this, ih nd.2 h]

theorem aget_aset_self (l : List (α × β)) (k : α) (v : β) : aget (aset l k v) k = some v := by
  induction l with
  | nil => simp [aset, aget]
  | cons p l ih =>
    by_cases hp : p.1 = k <;> simp [aset, aget, hp, ih]

theorem aget_aset_ne (l : List (α × β)) {k k' : α} (v : β) (hne : k' ≠ k) :
    aget (aset l k v) k' = aget l k' := by
  induction l with
  | nil => simp [aset, aget, hne.symm]
  | cons p l ih =>
    by_cases hp : p.1 = k
    · have : p.1 ≠ k' := by rw [hp]; exact fun e => hne e.symm
      simp [aset, aget, hp, hne.symm]
    · simp [aset, aget, hp, ih]

theorem keys_aset (l : List (α × β)) (k : α) (v : β) :
    (aset l k v).map (·.1) = if k ∈ l.map (·.1) then l.map (·.1) else l.map (·.1) ++ [k] := by
  induction l with
  | nil => simp [aset]
  | cons p l ih =>
    by_cases hp : p.1 = k
    · simp [aset, hp]
    · have hp' : ¬ k = p.1 := fun e => hp e.symm
      simp only [aset, hp, if_false, List.map_cons, ih, List.mem_cons, hp', false_or]
      split <;> simp

theorem keys_aset_nodup {l : List (α × β)} (k : α) (v : β) (nd : (l.map (·.1)).Nodup) :
    ((aset l k v).map (·.1)).Nodup := by
  rw [keys_aset]
  split
  · exact nd
  · rename_i h
    exact List.nodup_append.mpr ⟨nd, by simp, by
      intro a ha b hb; simp at hb; subst hb; exact fun e => h (e ▸ ha)⟩

/-- entries after `d[k] = v` (keys unique): the new one, and the old ones under other keys -/
theorem mem_aset {l : List (α × β)} {k : α} {v : β} {p : α × β} (nd : (l.map (·.1)).Nodup) :
    p ∈ aset l k v ↔ p = (k, v) ∨ (p ∈ l ∧ p.1 ≠ k) := by
  induction l with
  | nil => simp [aset]
  | cons q l ih =>
    simp only [List.map_cons, List.nodup_cons] at nd
    by_cases hq : q.1 = k
    · simp only [aset, hq, if_true, List.mem_cons]
      constructor
      · rintro (h | h)
        · exact Or.inl h
        · right; refine ⟨Or.inr h, fun e => nd.1 ?_⟩
          rw [hq, ← e]; exact List.mem_map.mpr ⟨p, h, rfl⟩
      · rintro (h | ⟨h | h, hne⟩)
        · exact Or.inl h
        · exact absurd (h ▸ hq) hne
        · exact Or.inr h
    · simp only [aset, hq, if_false, List.mem_cons, ih nd.2]
      constructor
      · rintro (h | h | ⟨h, hne⟩)
        · right; exact ⟨Or.inl h, h ▸ hq⟩
        · exact Or.inl h
        · right; exact ⟨Or.inr h, hne⟩
      · rintro (h | ⟨h | h, hne⟩)
        · exact Or.inr (Or.inl h)
        · exact Or.inl h
        · exact Or.inr (Or.inr ⟨h, hne⟩)

end CyVerif.C35

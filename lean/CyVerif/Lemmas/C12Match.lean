import CyVerif.Model.C12
/-!
Compressor validity, part 1: whatever `find_longest_match` returns is either "no match"
or a genuine earlier occurrence of the bytes at `pos` (and no subscript is out of range).
-/
namespace CyVerif.C12

/-- What the main loop may rely on about `(best_offset, best_len) = (bo, bl)`. -/
def Good (P : Params) (d : Array Nat) (pos bl bo : Nat) : Prop :=
  bl = 0 ∨ (3 ≤ bl ∧ bl ≤ 258 ∧ pos + bl ≤ d.size ∧ 1 ≤ bo ∧ bo ≤ pos ∧
    (bo : Int) - bl < P.window ∧
    ∀ i, i < bl → d[pos - bo + i]? = d[pos + i]?)

theorem ext_spec (d : Array Nat) (a b : Nat) : ∀ (k m : Nat),
    (∀ i, m ≤ i → i < m + k → a + i < d.size ∧ b + i < d.size) →
    ∃ m', ext d a b k m = .ok m' ∧ m ≤ m' ∧ m' ≤ m + k ∧
      ∀ i, m ≤ i → i < m' → d[a + i]? = d[b + i]? := by
  intro k
  induction k with
  | zero => intro m _; exact ⟨m, rfl, Nat.le_refl _, Nat.le_refl _, fun i h1 h2 => by omega⟩
  | succ k ih =>
    intro m hin
    obtain ⟨ha, hb⟩ := hin m (Nat.le_refl _) (by omega)
    have ea : d[a + m]? = some d[a + m] := Array.getElem?_eq_getElem ha
    have eb : d[b + m]? = some d[b + m] := Array.getElem?_eq_getElem hb
    unfold ext
    rw [ea, eb]
    simp only
    by_cases heq : d[a + m] = d[b + m]
    · rw [if_pos heq]
      obtain ⟨m', h1, h2, h3, h4⟩ := ih (m + 1) (fun i h1 h2 => hin i (by omega) (by omega))
      refine ⟨m', h1, by omega, by omega, ?_⟩
      intro i hi1 hi2
      by_cases him : i = m
      · subst him; rw [ea, eb, heq]
      · exact h4 i (by omega) hi2
    · rw [if_neg heq]
      exact ⟨m, rfl, Nat.le_refl _, by omega, fun i h1 h2 => by omega⟩

theorem key3_eq {d : Array Nat} {p q : Nat} (h : key3 d p = key3 d q) :
    ∀ i, i < 3 → d[p + i]? = d[q + i]? := by
  intro i hi
  simp only [key3, Prod.mk.injEq] at h
  obtain ⟨h0, h1, h2⟩ := h
  match i, hi with
  | 0, _ => simpa using h0
  | 1, _ => exact h1
  | 2, _ => exact h2

theorem scan1_spec (P : Params) (d : Array Nat) (pos maxMatch wstart : Nat)
    (hmm : maxMatch ≤ 258) (hmm2 : pos + maxMatch ≤ d.size) (hp3 : pos + 3 ≤ d.size) :
    ∀ (l : List Nat) (st : Nat × Nat), (∀ p ∈ l, key3 d p = key3 d pos) → Good P d pos st.1 st.2 →
    ∃ st', scan1 P d pos maxMatch wstart l st = .ok st' ∧ Good P d pos st'.1 st'.2 := by
  intro l
  induction l with
  | nil => intro st _ hg; exact ⟨st, rfl, hg⟩
  | cons p ps ih =>
    intro st hkeys hg
    obtain ⟨bl, bo⟩ := st
    have hps : ∀ q ∈ ps, key3 d q = key3 d pos := fun q hq => hkeys q (List.mem_cons_of_mem _ hq)
    unfold scan1
    by_cases hskip : p < wstart ∨ p ≥ pos
    · rw [if_pos hskip]; exact ih (bl, bo) hps hg
    · rw [if_neg hskip]
      have hlt : p < pos := by omega
      obtain ⟨m, hm1, hm2, hm3, hm4⟩ := ext_spec d p pos (min maxMatch (pos - p) - 3) 3
        (fun i h1 h2 => by omega)
      rw [hm1]
      simp only
      by_cases hbetter : m > bl ∧ (pos : Int) - p - m < P.window
      · rw [if_pos hbetter]
        refine ih (m, pos - p) hps (Or.inr ⟨hm2, by omega, by omega, by omega, by omega, by omega, ?_⟩)
        intro i hi
        have e : pos - (pos - p) + i = p + i := by omega
        rw [e]
        by_cases h3 : i < 3
        · exact key3_eq (hkeys p (List.mem_cons_self ..)) i h3
        · exact hm4 i (by omega) hi
      · rw [if_neg hbetter]; exact ih (bl, bo) hps hg

theorem scan2_ok (P : Params) (d : Array Nat) (pos maxMatch wstart : Nat) (hpos : pos < d.size) :
    ∀ (l : List Nat) (nb : Nat), ∃ nb', scan2 P d pos maxMatch wstart l nb = .ok nb' := by
  intro l
  induction l with
  | nil => intro nb; exact ⟨nb, rfl⟩
  | cons p ps ih =>
    intro nb
    unfold scan2
    by_cases hskip : p < wstart
    · rw [if_pos hskip]; exact ih nb
    · rw [if_neg hskip]
      simp only
      obtain ⟨m, hm1, _⟩ := ext_spec d p (pos + 1)
        (min (min maxMatch (pos - p)) (d.size - pos - 1) - 3) 3 (fun i h1 h2 => by omega)
      rw [hm1]
      simp only
      split
      · exact ih m
      · exact ih nb

/-- `find_longest_match` raises nothing and returns "no match" or a genuine match. -/
theorem flm_spec (P : Params) (hP : WF P) (d : Array Nat) (tbl : Table) (pos : Nat)
    (hpos : pos < d.size)
    (htbl : ∀ k l, tbl[k]? = some l → ∀ p ∈ l, key3 d p = k) :
    ∃ bo bl, flm P d tbl pos = .ok (bo, bl) ∧ Good P d pos bl bo := by
  have hzero : Good P d pos 0 0 := Or.inl rfl
  unfold flm
  simp only
  by_cases h3 : pos + 3 > d.size
  · rw [if_pos h3]; exact ⟨0, 0, rfl, hzero⟩
  · rw [if_neg h3]
    cases hk : tbl[key3 d pos]? with
    | none => exact ⟨0, 0, rfl, hzero⟩
    | some l =>
      simp only
      obtain ⟨hmm, _⟩ := hP
      obtain ⟨⟨bl, bo⟩, hs1, hg⟩ := scan1_spec P d pos (min P.maxMatch (d.size - pos))
        (pos - P.window - min P.maxMatch (d.size - pos)) (by omega) (by omega) (by omega)
        l (0, 0) (htbl _ l hk) hzero
      rw [hs1]
      simp only
      split
      · cases hk2 : tbl[key3 d (pos + 1)]? with
        | none => exact ⟨bo, bl, rfl, hg⟩
        | some l2 =>
          simp only
          split
          · obtain ⟨nb, hs2⟩ := scan2_ok P d pos (min P.maxMatch (d.size - pos))
              (pos + 1 - P.window - min P.maxMatch (d.size - pos)) hpos l2 0
            rw [hs2]
            simp only
            split
            · exact ⟨0, 0, rfl, hzero⟩
            · exact ⟨bo, bl, rfl, hg⟩
          · exact ⟨bo, bl, rfl, hg⟩
      · exact ⟨bo, bl, rfl, hg⟩

end CyVerif.C12

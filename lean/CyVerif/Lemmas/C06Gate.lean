import CyVerif.Model.C06
import CyVerif.Lemmas.C06Strtod
/-! The `inf` / `nan` recogniser (`gate`). -/
namespace CyVerif.C06

theorem ciMatch_split (s w1 w2 : List Nat) :
    ciMatch s (w1 ++ w2) = (ciMatch s w1 && ciMatch (s.drop w1.length) w2) := by
  induction w1 generalizing s with
  | nil => simp [ciMatch]
  | cons d ds ih =>
    cases s with
    | nil => simp [ciMatch]
    | cons a as => simp only [List.cons_append, ciMatch, ih, List.length_cons, List.drop_succ_cons, Bool.and_assoc]

/-- a text whose first character after the sign is neither a digit nor `.` is not a decimal literal -/
theorem decLen_zero_of_head {r : List Nat} {a : Nat} {as : List Nat}
    (hs : r.drop (signLen r) = a :: as) (h1 : isDigit a = false) (h2 : a ≠ 46) : decLen r = 0 := by
  rw [decLen_eq, hs]
  have : countDigits (a :: as) = 0 := by simp [countDigits, h1]
  rw [this]
  simp [fracLen, cDot, h2]

theorem lower_eq_cases {c d : Nat} (h : lower c = d) (_hd : 97 ≤ d ∧ d ≤ 122) : c = d ∨ c + 32 = d := by
  unfold lower at h
  split at h
  · right; exact h
  · left; exact h

theorem letter_not_digit {c : Nat} (h : lower c = 110 ∨ lower c = 105) : isDigit c = false ∧ c ≠ 46 := by
  have : c = 110 ∨ c = 78 ∨ c = 105 ∨ c = 73 := by
    rcases h with h | h
    · rcases lower_eq_cases h (by omega) with e | e <;> omega
    · rcases lower_eq_cases h (by omega) with e | e <;> omega
  rcases this with e | e | e | e <;> subst e <;> simp [isDigit]

/-- **the recogniser is exact**: when it returns a special value, `PyOS_string_to_double` consumes the
whole region and returns the same special value -/
theorem gate_special {r tl : List Nat} {v : Num} (h : gate r tl = .special v) :
    strtod r = some (r.length, v) := by
  have hlen : r.length = signLen r + (r.drop (signLen r)).length := by
    have := signLen_le r
    simp only [List.length_drop]; omega
  simp only [gate] at h
  cases hs : r.drop (signLen r) with
  | nil =>
    rw [hs] at h
    simp only [List.nil_append, List.length_nil] at h
    split at h
    · simp at h
    · split at h
      · simp at h
      · split at h
        · simp at h
        · split at h <;> simp at h
  | cons a as =>
    rw [hs] at h hlen
    simp only [List.cons_append] at h
    split at h
    · -- nan
      rename_i hn
      split at h
      · simp at h
      · rename_i hl
        split at h
        · rename_i hm
          simp only [Gate.special.injEq] at h
          have hla : lower a = 110 := by
            simp only [sNAN, ciMatch, Bool.and_eq_true, beq_iff_eq] at hm; exact hm.1
          have hd := letter_not_digit (Or.inl hla)
          have hdec := decLen_zero_of_head hs hd.1 hd.2
          have hinf : ciMatch (a :: as) sINF = false := by simp [sINF, ciMatch, hla]
          simp only [strtod, hdec, parseInfNan, hs, hinf, hm, if_true]
          simp only [bne_iff_ne, ne_eq, Decidable.not_not] at hl
          simp [← h, hlen, hl]
        · simp at h
    · split at h
      · -- inf
        rename_i hn
        split at h
        · simp at h
        · split at h
          · rename_i hl
            simp only [Bool.and_eq_true, beq_iff_eq] at hl
            simp only [Gate.special.injEq] at h
            have hla : lower a = 105 := by
              have := hl.2
              simp only [sINF, ciMatch, Bool.and_eq_true, beq_iff_eq] at this; exact this.1
            have hd := letter_not_digit (Or.inr hla)
            have hdec := decLen_zero_of_head hs hd.1 hd.2
            have hdrop : (a :: as).drop 3 = [] := by
              apply List.drop_eq_nil_iff.2; omega
            simp only [strtod, hdec, parseInfNan, hs, hl.2, hdrop, if_true]
            simp [ciMatch, sINITY, ← h, hlen, hl.1]
          · split at h
            · simp at h
            · rename_i hl
              split at h
              · rename_i hm
                simp only [Gate.special.injEq] at h
                rw [ciMatch_split] at hm
                simp only [Bool.and_eq_true, show sINF.length = 3 from rfl] at hm
                have hla : lower a = 105 := by
                  have := hm.1
                  simp only [sINF, ciMatch, Bool.and_eq_true, beq_iff_eq] at this; exact this.1
                have hd := letter_not_digit (Or.inr hla)
                have hdec := decLen_zero_of_head hs hd.1 hd.2
                simp only [strtod, hdec, parseInfNan, hs, hm.1, hm.2, if_true]
                simp only [bne_iff_ne, ne_eq, Decidable.not_not] at hl
                simp [← h, hlen, hl]
              · simp at h
      · split at h <;> simp at h

/-- on the numeric path the region starts, after an optional sign, with a digit or `.` -/
theorem gate_numeric {r tl : List Nat} (h : gate r tl = .numeric) (ht : StopHead tl) :
    ∃ a as, r.drop (signLen r) = a :: as ∧ (a = 46 ∨ isDigit a = true) := by
  simp only [gate] at h
  cases hs : r.drop (signLen r) with
  | nil =>
    rw [hs] at h
    simp only [List.nil_append, List.length_nil] at h
    cases tl with
    | nil => simp at h
    | cons c rest =>
      have hc := gchar_false (ht c (by simp))
      simp only at h
      split at h
      · simp at h
      · split at h
        · simp at h
        · split at h
          · rename_i hx
            simp only [Bool.or_eq_true, cDot] at hx
            rcases hx with hx | hx
            · rw [hc.2.1] at hx; exact absurd hx (by simp)
            · rw [hc.1] at hx; exact absurd hx (by simp)
          · simp at h
  | cons a as =>
    refine ⟨a, as, rfl, ?_⟩
    rw [hs] at h
    simp only [List.cons_append] at h
    split at h
    · split at h
      · simp at h
      · split at h <;> simp at h
    · split at h
      · split at h
        · simp at h
        · split at h
          · simp at h
          · split at h
            · simp at h
            · split at h <;> simp at h
      · split at h
        · rename_i hx
          simp only [Bool.or_eq_true, cDot, beq_iff_eq] at hx
          exact hx
        · simp at h

/-- consequences for the first character of the region -/
theorem gate_numeric_head {r tl : List Nat} (h : gate r tl = .numeric) (ht : StopHead tl) :
    ∃ c cs, r = c :: cs ∧ c ≠ cUS ∧ (isSign c = true ∨ c = 46 ∨ isDigit c = true) := by
  obtain ⟨a, as, hs, ha⟩ := gate_numeric h ht
  cases r with
  | nil => simp at hs
  | cons c cs =>
    refine ⟨c, cs, rfl, ?_⟩
    simp only [signLen] at hs
    split at hs
    · rename_i hc
      refine ⟨?_, Or.inl hc⟩
      intro e; subst e; simp [isSign, cUS] at hc
    · simp only [List.drop_zero, List.cons.injEq] at hs
      obtain ⟨rfl, _⟩ := hs
      refine ⟨?_, Or.inr ha⟩
      intro e; subst e
      rcases ha with e | e
      · simp [cUS] at e
      · simp [isDigit, cUS] at e

import CyVerif.Lemmas.C37Inv
/-! C37 leg 2: preservation of the ownership accounting and of the remaining part-A invariants. -/
namespace CyVerif.C37

theorem cur_upd_sum {n t : Nat} (cur : Nat → Option Nat) (v : Option Nat) (e : Nat) (ht : t < n) :
    sumN n (fun x => ind (upd cur t v x = some e)) + ind (cur t = some e)
      = sumN n (fun x => ind (cur x = some e)) + ind (v = some e) :=
  sumN_comp_upd (fun o : Option Nat => ind (o = some e)) cur v ht

theorem invA_own {c : Cfg} {total : Nat → Nat} {st st' : St} {t : Nat} (ht : t < c.n) (hg : c.guarded = true)
    (htot : ∀ x, total x ≤ 1) (inv : InvA c total st) (h : Step c st t st') :
    ∀ e, owners c.n st' e = ind (e ∈ st'.ran ∧ c.kinds e = .raise) := by
  intro e
  have ho := inv.own e
  unfold owners at ho ⊢
  cases h with
  | skip k rest hpc htodo hw => exact ho
  | runCont k rest hpc htodo hk | runBrk k rest hpc htodo hk | runRet k rest hpc htodo hk =>
    have := @ind_raised_cons_other c st.ran k (by simp [hk]) e
    simp only [] at *; omega
  | runRaise k rest hpc htodo hk =>
    have h1 := cur_upd_sum st.cur (some k) e ht
    have h2 := ind_raised_cons (head_not_ran htot inv ht htodo) hk e
    have h3 : ind (some k = some e) = ind (k = e) := by simp [ind]
    simp only [List.count_append, count_toList] at *; omega
  | finMaster | setWhy | writeRet | fetchFull => exact ho
  | finWorker hpc htodo h0 =>
    have h1 := cur_upd_sum st.cur none e ht
    have h3 : ind ((none : Option Nat) = some e) = 0 := by simp [ind]
    simp only [List.count_append, count_toList] at *; omega
  | fetchTake hpc hs =>
    have hs' : st.slot = none := by
      rcases hs with hs | hs
      · rw [hg] at hs; cases hs
      · exact hs
    have h1 := cur_upd_sum st.cur none e ht
    have h3 : ind ((none : Option Nat) = some e) = 0 := by simp [ind]
    simp only [hs'] at *; omega

theorem invA_fetchCur {c : Cfg} {total : Nat → Nat} {st st' : St} {t : Nat}
    (inv : InvA c total st) (h : Step c st t st') : ∀ u < c.n, st'.pc u = .fetch → (st'.cur u).isSome = true := by
  intro u hu hpcu
  have ih := inv.fetchCur u hu
  by_cases hut : u = t
  · subst hut
    cases h <;> simp_all [upd_same]
  · cases h <;> simp_all [upd]

theorem invA_finTodo {c : Cfg} {total : Nat → Nat} {st st' : St} {t : Nat}
    (inv : InvA c total st) (h : Step c st t st') : ∀ u < c.n, st'.pc u = .finished → st'.todo u = [] := by
  intro u hu hpcu
  have ih := inv.finTodo u hu
  by_cases hut : u = t
  · subst hut
    cases h <;> simp_all [upd_same]
  · cases h <;> simp_all [upd]

theorem invA_finCur {c : Cfg} {total : Nat → Nat} {st st' : St} {t : Nat}
    (inv : InvA c total st) (h : Step c st t st') : ∀ u < c.n, u ≠ 0 → st'.pc u = .finished → st'.cur u = none := by
  intro u hu hu0 hpcu
  have ih := inv.finCur u hu hu0
  by_cases hut : u = t
  · subst hut
    cases h <;> simp_all [upd_same]
  · cases h <;> simp_all [upd]

end CyVerif.C37

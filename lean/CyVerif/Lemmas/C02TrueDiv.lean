import CyVerif.Lemmas.C02Arith
/-!
C02: true division of `__Pyx_Unpacked_…`: the C `double` division is only used when both operands convert to
`double` exactly (`|v| ≤ 2^53`), so `(double)a / (double)b` is the correctly rounded quotient of the integers —
which is how CPython defines `int / int`.
-/
namespace CyVerif.C02
open CyVerif.C05

def TDivRight (a b : Int) (o : Out) : Prop :=
  IsFallback o ∨ (b ≠ 0 ∧ o = .quot a b ∧ a.natAbs ≤ 2 ^ 53 ∧ b.natAbs ≤ 2 ^ 53) ∨ (b = 0 ∧ o = .err "ZeroDivisionError")

theorem cbnd_53 {c : Int} (hc : CBnd c) : c.natAbs ≤ 2 ^ 53 := by
  have := natAbs_le_of_cbnd hc; omega

theorem calcLong_tdiv (P : Plat) (hP : PlatOK P) (cfg : Cfg) (a b xv : Int) (size n : Nat) (hn : n = size * P.shift)
    (hb : Bnd n xv) (h1 : n + 2 ≤ 8 * P.longBytes) :
    ofE (calcLong P cfg .tdiv a b xv size) = .fallback "slot" ∨
      (ofE (calcLong P cfg .tdiv a b xv size) = .quot a b ∧ xv.natAbs ≤ 2 ^ 53) := by
  obtain ⟨hS, hi0, hiL, hL4, hLLL, hLL8, hSL, hSLL⟩ := hP
  have hlabs : clabs P.tLong xv = .ok (if xv < 0 then -xv else xv) := by
    unfold clabs; rw [if_pos (inRange_of_bnd rfl (bnd_neg hb) (by rw [tLong_bits]; omega))]
  have hlim : C05.shl P.tLL 1 53 = .ok (two 53) := by
    unfold C05.shl
    rw [if_neg (by rw [tLL_bits]; omega)]
    simp only [show P.tLL.signed = true from rfl, if_true]
    rw [if_neg (by omega), if_pos (by rw [Int.one_mul]; exact two_lt_two (by rw [tLL_bits]; omega)), Int.one_mul]
  simp only [calcLong]
  by_cases h8 : 8 * P.longBytes ≤ 53
  · simp only [if_pos h8, bind, Except.bind, pure, Except.pure, true_or, if_true]
    right
    refine ⟨rfl, ?_⟩
    have := natAbs_lt_of_bnd (bnd_mono hb (show n ≤ 53 by omega)); omega
  · simp only [if_neg h8, bind, Except.bind, pure, Except.pure, hlabs, hlim]
    by_cases hsmall : (if xv < 0 then -xv else xv) ≤ two 53
    · simp only [decide_eq_true hsmall, true_or, if_true]
      right
      refine ⟨rfl, ?_⟩
      unfold two at hsmall; split at hsmall <;> omega
    · simp only [decide_eq_false hsmall, Bool.false_eq_true, false_or]
      by_cases hsz : size ≤ 52 / P.shift
      · rw [if_pos hsz]
        right
        refine ⟨rfl, ?_⟩
        have : size * P.shift ≤ 52 := (Nat.le_div_iff_mul_le hS).mp hsz
        have := natAbs_lt_of_bnd (bnd_mono hb (show n ≤ 53 by omega)); omega
      · rw [if_neg hsz]; left; rfl

theorem tdiv_raw (P : Plat) (hP : PlatOK P) (cfg : Cfg) (ord : Order) (p : PyLong) (hwf : p.WF P.shift)
    (c : Int) (hc : CBnd c) (zc : Bool) (hadm : ord = .objC → c ≠ 0) :
    TDivRight (opA ord (p.value P.shift) c) (opB ord (p.value P.shift) c) (unpacked P cfg .tdiv ord p c zc) := by
  apply unpacked_frame P hP cfg .tdiv ord p hwf c zc
    (fun o => TDivRight (opA ord (p.value P.shift) c) (opB ord (p.value P.shift) c) o)
  · intro hz o ho
    rw [value_zero hz]
    cases ord
    · simp [zeroCase] at ho
    · simp [zeroCase] at ho; obtain ⟨_, ho⟩ := ho; subst ho
      exact .inr (.inr ⟨by simp [opB], rfl⟩)
  · exact .inl ⟨_, rfl⟩
  · intro h; cases h
  · intro v n hv hn hv0 hb h1 _
    subst hv
    rcases calcLong_tdiv P hP cfg (opA ord (p.value P.shift) c) (opB ord (p.value P.shift) c) (p.value P.shift)
      p.digits.length n hn hb h1 with h | ⟨h, h53⟩
    · rw [h]; exact .inl ⟨_, rfl⟩
    · rw [h]
      refine .inr (.inl ?_)
      cases ord
      · exact ⟨hadm rfl, rfl, h53, cbnd_53 hc⟩
      · exact ⟨hv0, rfl, cbnd_53 hc, h53⟩
  · intro v n _ _ _ _ _ hop; exact absurd rfl hop

end CyVerif.C02

import CyVerif.Lemmas.C35FuncInv
/-! The two exits of the abstract generated function are balanced. -/
namespace CyVerif.C35

/-- releasing (`mk`) the value of every temp of a duplicate-free list that contains all non-empty temps -/
theorem cleanup_balanced (mk : Option Nat → NEv)
    (hk : ∀ o, (mk (some o)).kind = .del (some o) true) :
    ∀ (C : List Nat) (owned : List (Nat × Nat)), C.Nodup → (owned.map (·.1)).Nodup →
      (∀ t o, (t, o) ∈ owned → t ∈ C) →
      (∀ t ∈ C, aget owned t = none → (mk none).kind = .nop) →
      balFrom (ownedCount owned) (C.map (fun t => mk (aget owned t))) := by
  intro C
  induction C with
  | nil =>
    intro owned _ _ hsub _
    have : owned = [] := by
      cases owned with
      | nil => rfl
      | cons p l => exact absurd (hsub p.1 p.2 (by simp)) (by simp)
    subst this
    simp [balFrom, ownedCount]
  | cons t C ih =>
    intro owned hC hnd hsub hnone
    simp only [List.nodup_cons] at hC
    simp only [List.map_cons, balFrom]
    cases ho : aget owned t with
    | none =>
      rw [hnone t (by simp) ho]
      simp only
      apply ih owned hC.2 hnd
      · intro t' o hm
        rcases List.mem_cons.mp (hsub t' o hm) with e | h'
        · exact absurd e (key_not_mem_of_aget_none ho hm)
        · exact h'
      · intro t' ht' h'; exact hnone t' (List.mem_cons_of_mem _ ht') h'
    | some o =>
      rw [hk o]
      simp only
      refine ⟨ownedCount_pos ho, ?_⟩
      rw [← ownedCount_remove hnd ho]
      have hcongr : C.map (fun t' => mk (aget owned t')) =
          C.map (fun t' => mk (aget (owned.filter (fun e => e.1 != t)) t')) := by
        apply List.map_congr_left
        intro t' ht'
        have : t' ≠ t := fun e => hC.1 (e ▸ ht')
        rw [aget_filter_ne]; simp [this]
      rw [hcongr]
      apply ih _ hC.2 (List.Nodup.sublist (List.Sublist.map _ List.filter_sublist) hnd)
      · intro t' o' hm
        have hm' := List.mem_filter.mp hm
        have hne : t' ≠ t := by simpa using hm'.2
        rcases List.mem_cons.mp (hsub t' o' hm'.1) with e | h'
        · exact absurd e hne
        · exact h'
      · intro t' ht' h'
        have : t' ≠ t := fun e => hC.1 (e ▸ ht')
        rw [aget_filter_ne] at h'; simp [this] at h'
        exact hnone t' (List.mem_cons_of_mem _ ht') h'

theorem map_kind_counts (mk : Option Nat → NEv) (hacq : ∀ p o, (mk p).acqOf o = 0)
    (hgot : ∀ p o, (mk p).gotOf o = 0) (hgive : ∀ p o, (mk p).giveOf o = 0)
    (ps : List (Option Nat)) (o : Nat) :
    acquires (ps.map mk) o = 0 ∧ gotrefs (ps.map mk) o = 0 ∧ giverefs (ps.map mk) o = 0 := by
  induction ps with
  | nil => simp [acquires, gotrefs, giverefs]
  | cons p ps ih =>
    simp only [acquires, gotrefs, giverefs, List.map_cons, List.sum_cons] at ih ⊢
    rw [ih.1, ih.2.1, ih.2.2, hacq, hgot, hgive]
    simp

/-- the jump to an error label whose cleanup list is duplicate-free and contains every managed temp
in use: clean report, net refcount change = references given away before the jump -/
theorem errorExit_clean {st : FSt} (inv : FInv st) {C : List Nat} (hC : C.Nodup)
    (hsub : ∀ n ∈ holdingRef st.fs, n ∈ C) :
    report (errorExit st C) = [] ∧
    ∀ o, delta (errorExit st C) o = giverefs st.evs o := by
  have hb : Balanced (errorExit st C) := by
    unfold Balanced errorExit cleanupEvents
    rw [balFrom_append]
    refine ⟨_, inv.bal, ?_⟩
    exact cleanup_balanced (fun p => .xdecref p st.evs.length)
      (by intro o; simp [NEv.kind]) C st.owned hC inv.keysNodup
      (fun t o hm => hsub t (inv.held t o hm)) (by intro t _ _; simp [NEv.kind])
  refine ⟨(report_nil_iff _).mpr hb, fun o => ?_⟩
  have hc := map_kind_counts (fun p => NEv.xdecref p st.evs.length)
    (by intro p o; cases p <;> simp [NEv.acqOf]) (by intro p o; cases p <;> simp [NEv.gotOf])
    (by intro p o; cases p <;> simp [NEv.giveOf]) (C.map (fun t => aget st.owned t)) o
  simp only [List.map_map] at hc
  have e1 : errorExit st C = st.evs ++ C.map ((fun p => NEv.xdecref p st.evs.length) ∘ fun t => aget st.owned t) := rfl
  rw [delta_eq_given hb o]
  · rw [e1, giverefs_append, hc.2.2]; simp
  · rw [e1, acquires_append, gotrefs_append, hc.1, hc.2.1, inv.acq o]

/-- `return`: every managed temp in use holds an object and is `DECREF`ed -/
theorem returnExit_clean {st : FSt} (inv : FInv st)
    (hfull : ∀ t ∈ holdingRef st.fs, aget st.owned t ≠ none) :
    report (returnExit st) = [] ∧ ∀ o, delta (returnExit st) o = giverefs st.evs o := by
  have hb : Balanced (returnExit st) := by
    unfold Balanced returnExit
    rw [balFrom_append]
    refine ⟨_, inv.bal, ?_⟩
    exact cleanup_balanced (fun p => .decref p st.evs.length)
      (by intro o; simp [NEv.kind]) (holdingRef st.fs) st.owned (holdingRef_nodup inv.wf) inv.keysNodup
      (fun t o hm => inv.held t o hm) (by intro t ht h; exact absurd h (hfull t ht))
  refine ⟨(report_nil_iff _).mpr hb, fun o => ?_⟩
  have hc := map_kind_counts (fun p => NEv.decref p st.evs.length)
    (by intro p o; cases p <;> simp [NEv.acqOf]) (by intro p o; cases p <;> simp [NEv.gotOf])
    (by intro p o; cases p <;> simp [NEv.giveOf]) ((holdingRef st.fs).map (fun t => aget st.owned t)) o
  simp only [List.map_map] at hc
  have e1 : returnExit st = st.evs ++ (holdingRef st.fs).map ((fun p => NEv.decref p st.evs.length) ∘ fun t => aget st.owned t) := rfl
  rw [delta_eq_given hb o]
  · rw [e1, giverefs_append, hc.2.2]; simp
  · rw [e1, acquires_append, gotrefs_append, hc.1, hc.2.1, inv.acq o]

end CyVerif.C35

import CyVerif.Model.C37Exit
import CyVerif.Lemmas.C37Seq
/-! C37 leg 2: finite sums over the threads of a team, indicator arithmetic. -/
namespace CyVerif.C37

def sumN : Nat → (Nat → Nat) → Nat
  | 0, _ => 0
  | n + 1, F => sumN n F + F n

def ind (p : Prop) [Decidable p] : Nat := if p then 1 else 0

theorem ind_le (p : Prop) [Decidable p] : ind p ≤ 1 := by unfold ind; split <;> omega
theorem ind_true {p : Prop} [Decidable p] (h : p) : ind p = 1 := by simp [ind, h]
theorem ind_false {p : Prop} [Decidable p] (h : ¬p) : ind p = 0 := by simp [ind, h]
theorem ind_pos {p : Prop} [Decidable p] : 0 < ind p ↔ p := by unfold ind; split <;> simp_all

theorem sumN_congr {n : Nat} {F G : Nat → Nat} (h : ∀ t < n, F t = G t) : sumN n F = sumN n G := by
  induction n with
  | zero => rfl
  | succ n ih =>
    simp only [sumN]
    rw [ih (fun t ht => h t (by omega)), h n (by omega)]

theorem sumN_upd_ge {n t : Nat} (F : Nat → Nat) (v : Nat) (h : n ≤ t) : sumN n (upd F t v) = sumN n F :=
  sumN_congr (fun x hx => upd_other F t v x (by omega))

/-- changing the summand of one thread -/
theorem sumN_upd {n t : Nat} (F : Nat → Nat) (v : Nat) (h : t < n) : sumN n (upd F t v) + F t = sumN n F + v := by
  induction n with
  | zero => omega
  | succ n ih =>
    simp only [sumN]
    by_cases ht : t = n
    · subst ht
      rw [sumN_upd_ge F v (Nat.le_refl _), upd_same]; omega
    · have := ih (by omega)
      rw [upd_other F t v n (fun e => ht e.symm)]; omega

theorem sumN_ge {n t : Nat} (F : Nat → Nat) (h : t < n) : F t ≤ sumN n F := by
  induction n with
  | zero => omega
  | succ n ih =>
    simp only [sumN]
    by_cases ht : t = n
    · subst ht; omega
    · have := ih (by omega); omega

theorem sumN_eq_zero {n : Nat} {F : Nat → Nat} (h : ∀ t < n, F t = 0) : sumN n F = 0 := by
  induction n with
  | zero => rfl
  | succ n ih => simp only [sumN]; rw [ih (fun t ht => h t (by omega)), h n (by omega)]

theorem sumN_single {n : Nat} {F : Nat → Nat} (hn : 0 < n) (h : ∀ t < n, t ≠ 0 → F t = 0) : sumN n F = F 0 := by
  induction n with
  | zero => omega
  | succ n ih =>
    simp only [sumN]
    by_cases h0 : n = 0
    · subst h0; simp [sumN]
    · rw [ih (by omega) (fun t ht => h t (by omega)), h n (by omega) h0]; omega

theorem comp_upd {α β} (f : α → β) (g : Nat → α) (t : Nat) (v : α) :
    (fun x => f (upd g t v x)) = upd (fun x => f (g x)) t (f v) := by
  funext x; by_cases h : x = t <;> simp [upd, h]

/-- the summand of thread `t` goes from `F (g t)` to `F v` -/
theorem sumN_comp_upd {α} {n t : Nat} (f : α → Nat) (g : Nat → α) (v : α) (h : t < n) :
    sumN n (fun x => f (upd g t v x)) + f (g t) = sumN n (fun x => f (g x)) + f v := by
  rw [comp_upd]; exact sumN_upd (fun x => f (g x)) (f v) h

end CyVerif.C37

import CyVerif.Model.C19Cmp
/-! Cascaded comparisons: Cython's evaluation scheme against the language reference. -/
namespace CyVerif.C19

theorem cascade_value (W : World) : ∀ (rest : List (Nat × Nat)) (a op leaf : Nat) (log : Log),
    pyLinks W a ((op, leaf) :: rest) log =
      match W.ev leaf with
      | .raise e => (log ++ [.E leaf], .raise e)
      | .ok b => cyCascade true true W false (cyOper W false op a b (log ++ [.E leaf])) b rest := by
  intro rest
  induction rest with
  | nil =>
    intro a op leaf log
    cases hev : W.ev leaf with
    | raise e => simp [pyLinks, hev]
    | ok b =>
      cases hc : W.cmp op a b with
      | raise e => simp [pyLinks, hev, hc, cyOper, cyCascade]
      | ok r => simp [pyLinks, hev, hc, cyOper, cyCascade]
  | cons p rest2 ih =>
    intro a op leaf log
    obtain ⟨op2, leaf2⟩ := p
    cases hev : W.ev leaf with
    | raise e => simp [pyLinks, hev]
    | ok b =>
      cases hc : W.cmp op a b with
      | raise e => simp [pyLinks, hev, hc, cyOper, cyCascade]
      | ok r =>
        cases ht : W.truth r with
        | raise e => simp [pyLinks, hev, hc, ht, cyOper, cyCascade]
        | ok t =>
          cases t with
          | false => simp [pyLinks, hev, hc, ht, cyOper, cyCascade]
          | true =>
            conv => lhs; unfold pyLinks
            simp only [hev, hc, ht, cyOper, cyCascade, Bool.false_eq_true, ↓reduceIte]
            rw [ih]
            cases hev2 : W.ev leaf2 with
            | raise e => simp
            | ok b2 => simp [cyOper]

theorem cascade_bool (W : World) : ∀ (rest : List (Nat × Nat)) (a op leaf : Nat) (log : Log),
    pyLinksB W a ((op, leaf) :: rest) log =
      match W.ev leaf with
      | .raise e => (log ++ [.E leaf], .raise e)
      | .ok b => cyCascade true true W true (cyOper W true op a b (log ++ [.E leaf])) b rest := by
  intro rest
  induction rest with
  | nil =>
    intro a op leaf log
    cases hev : W.ev leaf with
    | raise e => simp [pyLinksB, hev]
    | ok b =>
      cases hc : W.cmp op a b with
      | raise e => simp [pyLinksB, hev, hc, cyOper, cyCascade]
      | ok r =>
        cases ht : W.truth r with
        | raise e => simp [pyLinksB, hev, hc, ht, cyOper, cyCascade]
        | ok t => cases t <;> simp [pyLinksB, hev, hc, ht, cyOper, cyCascade]
  | cons p rest2 ih =>
    intro a op leaf log
    obtain ⟨op2, leaf2⟩ := p
    cases hev : W.ev leaf with
    | raise e => simp [pyLinksB, hev]
    | ok b =>
      cases hc : W.cmp op a b with
      | raise e => simp [pyLinksB, hev, hc, cyOper, cyCascade]
      | ok r =>
        cases ht : W.truth r with
        | raise e => simp [pyLinksB, hev, hc, ht, cyOper, cyCascade]
        | ok t =>
          cases t with
          | false => simp [pyLinksB, hev, hc, ht, cyOper, cyCascade]
          | true =>
            conv => lhs; unfold pyLinksB
            simp only [hev, hc, ht, cyOper, cyCascade, ↓reduceIte]
            rw [ih]
            cases hev2 : W.ev leaf2 with
            | raise e => simp
            | ok b2 => simp [cyOper]

end CyVerif.C19

import CyVerif.Model.C18Ord
import CyVerif.Model.C18Spec
import CyVerif.Lemmas.C18Build
/-! C18 lemmas: the UTF-8 ladder of `__Pyx_PyUnicode_FromOrdinal_Padded` round-trips through a strict decoder. -/
namespace CyVerif.C18

theorem or80 (x : Nat) : 0x80 ||| (x &&& 0x3f) = 0x80 + x % 64 := by
  have h1 : x &&& 0x3f = x % 64 := Nat.and_two_pow_sub_one_eq_mod x 6
  have h2 := Nat.shiftLeft_add_eq_or_of_lt (i := 6) (b := x % 64) (Nat.mod_lt _ (by omega)) 2
  rw [h1]; exact h2.symm

theorem orC0 (x : Nat) : 0xc0 ||| (x &&& 0x1f) = 0xc0 + x % 32 := by
  have h1 : x &&& 0x1f = x % 32 := Nat.and_two_pow_sub_one_eq_mod x 5
  have h2 := Nat.shiftLeft_add_eq_or_of_lt (i := 5) (b := x % 32) (Nat.mod_lt _ (by omega)) 6
  rw [h1]; exact h2.symm

theorem orE0 (x : Nat) : 0xe0 ||| (x &&& 0x0f) = 0xe0 + x % 16 := by
  have h1 : x &&& 0x0f = x % 16 := Nat.and_two_pow_sub_one_eq_mod x 4
  have h2 := Nat.shiftLeft_add_eq_or_of_lt (i := 4) (b := x % 16) (Nat.mod_lt _ (by omega)) 14
  rw [h1]; exact h2.symm

theorem orF0 (x : Nat) : 0xf0 ||| (x &&& 0x07) = 0xf0 + x % 8 := by
  have h1 : x &&& 0x07 = x % 8 := Nat.and_two_pow_sub_one_eq_mod x 3
  have h2 := Nat.shiftLeft_add_eq_or_of_lt (i := 3) (b := x % 8) (Nat.mod_lt _ (by omega)) 30
  rw [h1]; exact h2.symm

theorem shr6 (x : Nat) : x >>> 6 = x / 64 := Nat.shiftRight_eq_div_pow x 6

/-- the ladder in arithmetic form -/
theorem utf8Ladder_eq (v : Nat) : utf8Ladder v =
    if v < 0x800 then [0xc0 + v / 64 % 32, 0x80 + v % 64]
    else if v < 0x10000 then [0xe0 + v / 64 / 64 % 16, 0x80 + v / 64 % 64, 0x80 + v % 64]
    else [0xf0 + v / 64 / 64 / 64 % 8, 0x80 + v / 64 / 64 % 64, 0x80 + v / 64 % 64, 0x80 + v % 64] := by
  unfold utf8Ladder
  simp only [or80, orC0, orE0, orF0, shr6]

end CyVerif.C18

namespace CyVerif.C18

theorem utf8Decode_ascii (b : Nat) (hb : b < 0x80) (l : List Nat) :
    utf8Decode (b :: l) = (utf8Decode l).map (b :: ·) := by
  conv => lhs; unfold utf8Decode
  simp only [hb, if_true]

theorem utf8Decode_pads (b : Nat) (hb : b < 0x80) (k : Nat) (l : List Nat) :
    utf8Decode (List.replicate k b ++ l) = (utf8Decode l).map (List.replicate k b ++ ·) := by
  induction k with
  | zero => simp
  | succ k ih =>
    rw [List.replicate_succ, List.cons_append, utf8Decode_ascii b hb, ih]
    cases utf8Decode l <;> simp

/-- strict decoding of the ladder's bytes gives the code point back -/
theorem utf8Decode_ladder (v : Nat) (h1 : 256 ≤ v) (h2 : v ≤ 0x10FFFF)
    (h3 : ¬ (0xD800 ≤ v ∧ v ≤ 0xDFFF)) : utf8Decode (utf8Ladder v) = some [v] := by
  rw [utf8Ladder_eq]
  by_cases c1 : v < 0x800
  · simp only [c1, if_true]
    rw [utf8Decode]
    have a1 : ¬ (0xc0 + v / 64 % 32 < 0x80) := by omega
    have a2 : 0xC2 ≤ 0xc0 + v / 64 % 32 ∧ 0xc0 + v / 64 % 32 < 0xE0 := by omega
    have a3 : isCont (0x80 + v % 64) = true := by simp [isCont]; omega
    have a4 : (0xc0 + v / 64 % 32 - 0xC0) * 64 + (0x80 + v % 64 - 0x80) = v := by omega
    simp only [a1, if_false, a2, and_self, if_true, a3, a4]
    rw [utf8Decode]; rfl
  · by_cases c2 : v < 0x10000
    · simp only [c1, if_false, c2, if_true]
      rw [utf8Decode]
      have a1 : ¬ (0xe0 + v / 64 / 64 % 16 < 0x80) := by omega
      have a2 : ¬ (0xC2 ≤ 0xe0 + v / 64 / 64 % 16 ∧ 0xe0 + v / 64 / 64 % 16 < 0xE0) := by omega
      have a2' : 0xE0 ≤ 0xe0 + v / 64 / 64 % 16 ∧ 0xe0 + v / 64 / 64 % 16 < 0xF0 := by omega
      have a3 : isCont (0x80 + v / 64 % 64) = true := by simp [isCont]; omega
      have a3' : isCont (0x80 + v % 64) = true := by simp [isCont]; omega
      have a4 : (0xe0 + v / 64 / 64 % 16 - 0xE0) * 4096 + (0x80 + v / 64 % 64 - 0x80) * 64 +
          (0x80 + v % 64 - 0x80) = v := by omega
      have a5 : 0x800 ≤ v := by omega
      simp only [a1, if_false, a2, a2', and_self, if_true, a3, a3', a4, a5, h3, not_false_eq_true]
      rw [utf8Decode]; rfl
    · simp only [c1, if_false, c2]
      rw [utf8Decode]
      have a1 : ¬ (0xf0 + v / 64 / 64 / 64 % 8 < 0x80) := by omega
      have a2 : ¬ (0xC2 ≤ 0xf0 + v / 64 / 64 / 64 % 8 ∧ 0xf0 + v / 64 / 64 / 64 % 8 < 0xE0) := by omega
      have a2' : ¬ (0xE0 ≤ 0xf0 + v / 64 / 64 / 64 % 8 ∧ 0xf0 + v / 64 / 64 / 64 % 8 < 0xF0) := by omega
      have a2'' : 0xF0 ≤ 0xf0 + v / 64 / 64 / 64 % 8 ∧ 0xf0 + v / 64 / 64 / 64 % 8 < 0xF5 := by omega
      have a3 : isCont (0x80 + v / 64 / 64 % 64) = true := by simp [isCont]; omega
      have a3' : isCont (0x80 + v / 64 % 64) = true := by simp [isCont]; omega
      have a3'' : isCont (0x80 + v % 64) = true := by simp [isCont]; omega
      have a4 : (0xf0 + v / 64 / 64 / 64 % 8 - 0xF0) * 262144 + (0x80 + v / 64 / 64 % 64 - 0x80) * 4096 +
          (0x80 + v / 64 % 64 - 0x80) * 64 + (0x80 + v % 64 - 0x80) = v := by omega
      have a5 : 0x10000 ≤ v := by omega
      simp only [a1, if_false, a2, a2', a2'', and_self, if_true, a3, a3', a3'', a4, a5, h2, true_and]
      rw [utf8Decode]; rfl

theorem utf8Ladder_length_le (v : Nat) : (utf8Ladder v).length ≤ 4 := by
  rw [utf8Ladder_eq]; split
  · simp
  · split <;> simp

end CyVerif.C18

namespace CyVerif.C18

theorem pad_toNat_lt (pad : Char) (hpad : pad = ' ' ∨ pad = '0') : pad.toNat < 0x80 := by
  rcases hpad with rfl | rfl <;> decide

theorem ordinalPadded_spec (v : Nat) (hv : v ≤ 0x10FFFF) (width : Int) (hw : 1 < width) (pad : Char)
    (hpad : pad = ' ' ∨ pad = '0') :
    ordinalPadded (v : Int) width pad =
      .text (List.replicate (width.toNat - 1) pad.toNat ++ [v]) := by
  have hpl : (width - 1).toNat = width.toNat - 1 := by omega
  have hpn : ¬ (width - 1 < 0) := by omega
  unfold ordinalPadded
  by_cases hfast : width - 1 ≤ 250 ∧ ((v : Int) < 0xD800 ∨ (v : Int) > 0xDFFF)
  · simp only [hfast, and_self, if_true, hpn, if_false, hpl]
    by_cases h255 : (v : Int) ≤ 255
    · have : ((v : Int) % 256).toNat = v := by omega
      simp only [h255, if_true, this]
    · simp only [h255, if_false, Int.toNat_natCast]
      have hlen := utf8Ladder_length_le v
      have hfit : ¬ ((utf8Ladder v).length + (width.toNat - 1) > 256) := by omega
      have hsur : ¬ (0xD800 ≤ v ∧ v ≤ 0xDFFF) := by omega
      simp only [hfit, if_false]
      rw [utf8Decode_pads _ (pad_toNat_lt pad hpad), utf8Decode_ladder v (by omega) hv hsur]
      rfl
  · simp only [hfast, if_false]
    by_cases h127 : (v : Int) ≤ 127
    · have hneg : ¬ ((v : Int) < 0) := by omega
      simp only [h127, if_true, hneg, if_false, Int.toNat_natCast]
      obtain ⟨w, rfl⟩ : ∃ w : Nat, width = (w : Int) := ⟨width.toNat, by omega⟩
      have := buildFromAscii_spec w [Char.ofNat v] false pad (by simp; omega)
      simp only [List.length_singleton, Int.natCast_one] at this
      rw [this]
      have hc : (Char.ofNat v).toNat = v := by
        have : v.isValidChar := by left; omega
        simp [Char.ofNat, this, Char.ofNatAux, Char.toNat]
      have hz : ¬ (w - 1 = 0) := by omega
      simp [Out.toU, buildPrefix, hz, hc]
    · have hr : ¬ ((v : Int) < 0 ∨ (v : Int) > 0x10ffff) := by omega
      simp only [h127, if_false, fromOrdinal, hr, Int.toNat_natCast, hpl]

end CyVerif.C18

namespace CyVerif.C18

theorem toCInt_small (v : Int) (h0 : 0 ≤ v) (h1 : v < 2147483648) : toCInt v = v := by
  unfold toCInt
  have : v % 4294967296 = v := Int.emod_eq_of_lt h0 (by omega)
  simp only [this]
  split <;> omega

/-- values of 1- and 2-byte types are below 2^16 -/
theorem small_type_bound (n : Nat) (hn : n ≤ 2) (signed : Bool) (v : Int) (hv : InRange n signed v) :
    v < 65536 := by
  have hp : (2 : Nat) ^ (8 * n) ≤ 2 ^ 16 := Nat.pow_le_pow_right (by omega) (by omega)
  have hp' : (2 : Nat) ^ (8 * n - 1) ≤ 2 ^ 16 := Nat.pow_le_pow_right (by omega) (by omega)
  unfold InRange at hv
  cases signed with
  | true =>
    simp only [if_true] at hv
    have : ((2 : Int) ^ (8 * n - 1)) = (((2 : Nat) ^ (8 * n - 1) : Nat) : Int) := by simp
    rw [this] at hv
    omega
  | false =>
    simp only [Bool.false_eq_true, if_false] at hv
    have : ((2 : Int) ^ (8 * n)) = (((2 : Nat) ^ (8 * n) : Nat) : Int) := by simp
    rw [this] at hv
    omega

/-- after a correct range check the function formats the character -/
theorem uchar_tail (v : Int) (h0 : 0 ≤ v) (h1 : v ≤ 0x10FFFF) (width : Int) (pad : Char)
    (hpad : pad = ' ' ∨ pad = '0') :
    (if width ≤ 1 then fromOrdinal (toCInt v) else ordinalPadded (toCInt v) width pad) =
      pyFormatChr pad width.toNat v := by
  have hc := toCInt_small v h0 (by omega)
  have hr : ¬ (v < 0 ∨ v > 0x10ffff) := by omega
  rw [hc]
  unfold pyFormatChr
  simp only [hr, if_false]
  by_cases hw : width ≤ 1
  · have : width.toNat - 1 = 0 := by omega
    simp [hw, fromOrdinal, hr, this]
  · obtain ⟨m, rfl⟩ : ∃ m : Nat, v = (m : Int) := ⟨v.toNat, by omega⟩
    simp only [hw, if_false, Int.toNat_natCast]
    exact ordinalPadded_spec m (by omega) width (by omega) pad hpad

end CyVerif.C18

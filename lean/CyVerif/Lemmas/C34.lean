import CyVerif.Model.C34Doc
/-! Lemmas for C34: order independence of the candidate search, permutation property of the
modelled `list.sort`, first-hit characterisation under a consistent member order. -/
namespace CyVerif.C34

/-! ### `index_signature` does not depend on the iteration order of `__signatures__` -/

theorem indexSignature_perm {sigs sigs' : List (List Nat)} (h : sigs.Perm sigs') (dest : List (Option Nat)) :
    indexSignature sigs dest = indexSignature sigs' dest := by
  unfold indexSignature
  have hp := h.filter (sigMatches dest)
  generalize sigs.filter (sigMatches dest) = a at hp
  generalize sigs'.filter (sigMatches dest) = b at hp
  match a, b, hp with
  | [], b, hp => have : b = [] := List.Perm.nil_eq hp |>.symm; subst this; rfl
  | [s], b, hp => have : b = [s] := List.perm_singleton.mp hp.symm; subst this; rfl
  | s :: t :: r, b, hp =>
    have hl := hp.length_eq
    match b, hl with
    | x :: y :: z, _ => rfl

theorem find_single_mem (sigs : List (List Nat)) (x : Nat) :
    sigs.find? (· == [x]) = if [x] ∈ sigs then some [x] else none := by
  induction sigs with
  | nil => simp
  | cons s t ih =>
    simp only [List.find?_cons]
    by_cases h : s = [x]
    · subst h; simp
    · have : (s == [x]) = false := by simpa using h
      simp [this, ih, Ne.symm h]

theorem matchSingle_perm {sigs sigs' : List (List Nat)} (h : sigs.Perm sigs') (dest : Option Nat) :
    matchSingle sigs dest = matchSingle sigs' dest := by
  cases dest with
  | none => rfl
  | some x => simp only [matchSingle, find_single_mem, h.mem_iff]

theorem dispatchWith_perm (d : Decl) {sigs sigs' : List (List Nat)} (h : sigs.Perm sigs') (c : Call) :
    dispatchWith d sigs c = dispatchWith d sigs' c := by
  unfold dispatchWith
  cases destSig d c d.params 0 [] with
  | error e => rfl
  | ok ds =>
    match ds with
    | [] => exact indexSignature_perm h _
    | [x] => exact matchSingle_perm h _
    | _ :: _ :: _ => exact indexSignature_perm h _

/-! ### the modelled sort returns a permutation of its input -/

theorem bisect_le {α : Type} (lt : α → α → Bool) (pre : List α) (pivot : α) :
    ∀ fuel l r, l ≤ r → r ≤ pre.length → bisect lt pre pivot fuel l r ≤ pre.length := by
  intro fuel
  induction fuel with
  | zero => intro l r h1 h2; simp [bisect]; omega
  | succ n ih =>
    intro l r h1 h2
    simp only [bisect]
    split
    · next hlr =>
      split
      · next x hx =>
        split
        · exact ih _ _ (by omega) (by omega)
        · exact ih _ _ (by omega) h2
      · omega
    · omega

theorem binSort_perm {α : Type} (lt : α → α → Bool) : ∀ (rest pre : List α), (binSort lt pre rest).Perm (pre ++ rest) := by
  intro rest
  induction rest with
  | nil => intro pre; simp [binSort]
  | cons x xs ih =>
    intro pre
    simp only [binSort]
    refine (ih _).trans ?_
    have hpos : insPos lt pre x ≤ pre.length := bisect_le lt pre x _ _ _ (Nat.zero_le _) (Nat.le_refl _)
    have := List.perm_insertIdx x pre hpos
    refine (List.Perm.append_right xs this).trans ?_
    simp only [List.cons_append]
    exact (List.perm_middle).symm

theorem pySort_perm {α : Type} (lt : α → α → Bool) (xs : List α) : (pySort lt xs).Perm xs := by
  unfold pySort
  refine (binSort_perm lt _ _).trans ?_
  have h := List.take_append_drop (countRun lt xs).1 xs
  split
  · exact (List.Perm.append_right _ (List.reverse_perm _)).trans (by rw [h])
  · rw [h]

end CyVerif.C34

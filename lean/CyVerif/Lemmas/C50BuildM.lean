import CyVerif.Lemmas.C50BuildL
/-! RE → NFA, part M: `build_machine` of an RE with finite code ranges preserves `EndsAgree`. -/
namespace CyVerif.C50

mutual
theorem RE.build_ends : (r : RE) → r.Finite → ∀ (m : NFA) (i f : Nat) (mb nc : Bool), Pre m i f → m.EndsAgree →
    (r.build m i f mb nc).EndsAgree
  | .raw c0 c1, hfin, m, i, f, mb, nc, hp, he => by
    have hp' := optBol_pre mb hp
    have he' := optBol_ends mb hp he
    obtain ⟨w1, l1, _, _, _⟩ := addTrans_spec _ hp'.wf (optBol m i mb).2 (.range c0 c1) f hp'.hi hfin.inBounds
    have e1 := addTrans_ends _ hp'.wf he' (optBol m i mb).2 (.range c0 c1) f hp'.hi hfin
    simp only [RE.build]
    cases nc with
    | false => simpa using e1
    | true =>
      simp only [if_true]
      obtain ⟨w2, e2, l2⟩ := addOptRange_ends _ w1 e1 (optBol m i mb).2 (uppercaseRange c0 c1) f
        (by rw [l1]; exact hp'.hi) (fun a b h => caseRange_finite (.inl h))
      exact (addOptRange_ends _ w2 e2 (optBol m i mb).2 (lowercaseRange c0 c1) f
        (by rw [l2, l1]; exact hp'.hi) (fun a b h => caseRange_finite (.inr h))).2.1
  | .nl, _, m, i, f, mb, nc, hp, he => by
    have hp' := optBol_pre mb hp
    have he' := optBol_ends mb hp he
    have hp'' := buildOpt_pre .eol hp'
    have he'' := buildOpt_ends .eol hp' he'
    simp only [RE.build]
    exact addTrans_ends _ hp''.wf he'' _ (.range 10 11) f hp''.hi (by simp [Ev.Finite, maxint])
  | .sym k, _, m, i, f, mb, nc, hp, he => by
    have hp' := optBol_pre (mb && k == .eol) hp
    have he' := optBol_ends (mb && k == .eol) hp he
    simp only [RE.build]
    exact addTrans_ends _ hp'.wf he' _ (.sp k) f hp'.hi trivial
  | .seq rs, hfin, m, i, f, mb, nc, hp, he => by
    simp only [RE.build]
    cases hnil : rs.isNil with
    | true =>
      simp only [if_true]
      exact addTrans_ends m hp.wf he i (.sp .eps) f hp.hi trivial
    | false =>
      simp only [Bool.false_eq_true, if_false]
      exact REs.buildSeq_ends rs hfin hnil m i f mb nc hp he
  | .alt rs, hfin, m, i, f, mb, nc, hp, he => by
    simp only [RE.build]
    obtain ⟨cN⟩ := REs.buildAltN_cert rs (REs.finite_inBounds rs hfin) m i f mb nc hp
    have eN := REs.buildAltN_ends rs hfin m i f mb nc hp he
    cases hall : rs.allNullable with
    | true => simpa using eN
    | false =>
      simp only [Bool.false_eq_true, if_false]
      have hp1 := hp.after cN
      exact REs.buildAltNon_ends rs hfin _ _ f nc (optBol_pre mb hp1) (optBol_ends mb hp1 eN)
  | .rep1 r, hfin, m, i, f, mb, nc, hp, he => by
    have hlen2 : (m.newState.1.newState.1).nodes.length = m.nodes.length + 2 := by simp [NFA.newState]
    have hb2 : (m.newState.1.newState).2 = m.nodes.length + 1 := by simp [NFA.newState]
    have ha2 : (m.newState).2 = m.nodes.length := rfl
    have hwf2 : (m.newState.1.newState.1).WF := newState_wf _ (newState_wf _ hp.wf)
    have hi := hp.hi
    have hf := hp.hf
    obtain ⟨l1a, l1b, _, _, _⟩ := linkEdge (m.newState.1.newState.1) hwf2 i m.nodes.length (by omega)
    have e1 : ((m.newState.1.newState.1).link i m.nodes.length).EndsAgree :=
      addTrans_ends _ hwf2 (newState_ends _ (newState_ends _ he)) i (.sp .eps) _ (by omega) trivial
    have hpin : Pre ((m.newState.1.newState.1).link i m.nodes.length) m.nodes.length (m.nodes.length + 1) :=
      ⟨l1a, by omega, by rw [l1b, hlen2]; omega, by rw [l1b, hlen2]; omega⟩
    obtain ⟨c⟩ := RE.build_cert r (RE.finite_inBounds r hfin) _ _ _ (mb || r.matchNl) nc hpin
    have e2 := RE.build_ends r hfin _ _ _ (mb || r.matchNl) nc hpin e1
    have hg := c.grow
    rw [l1b, hlen2] at hg
    obtain ⟨l4a, l4b, _, _, _⟩ := linkEdge _ c.wf (m.nodes.length + 1) m.nodes.length (by omega)
    have e3 := addTrans_ends _ c.wf e2 (m.nodes.length + 1) (.sp .eps) m.nodes.length (by omega) trivial
    have e4 := addTrans_ends _ l4a e3 (m.nodes.length + 1) (.sp .eps) f (by rw [l4b]; omega) trivial
    simp only [RE.build, hb2, ha2]
    exact e4
  | .sw r nocase, hfin, m, i, f, mb, nc, hp, he => by
    simp only [RE.build]
    exact RE.build_ends r hfin m i f mb nocase hp he
theorem REs.buildSeq_ends : (rs : REs) → rs.Finite → rs.isNil = false → ∀ (m : NFA) (i f : Nat) (mb nc : Bool),
    Pre m i f → m.EndsAgree → (rs.buildSeq m i f mb nc).EndsAgree
  | .nil, _, hnil, _, _, _, _, _, _, _ => by simp [REs.isNil] at hnil
  | .cons r rs, hfin, _, m, i, f, mb, nc, hp, he => by
    simp only [REs.buildSeq]
    cases hnil : rs.isNil with
    | true =>
      simp only [if_true]
      exact RE.build_ends r hfin.1 m i f mb nc hp he
    | false =>
      simp only [Bool.false_eq_true, if_false]
      have hi := hp.hi
      have hf := hp.hf
      have hlen' : m.newState.1.nodes.length = m.nodes.length + 1 := by simp [NFA.newState]
      have hp1 : Pre m.newState.1 i m.nodes.length := ⟨newState_wf m hp.wf, by omega, by omega, by omega⟩
      obtain ⟨c1⟩ := RE.build_cert r (RE.finite_inBounds r hfin.1) _ _ _ mb nc hp1
      have e1 := RE.build_ends r hfin.1 _ _ _ mb nc hp1 (newState_ends m he)
      have hg := c1.grow
      have hp2 : Pre (r.build m.newState.1 i m.nodes.length mb nc) m.nodes.length f :=
        ⟨c1.wf, by omega, by omega, by omega⟩
      exact REs.buildSeq_ends rs hfin.2 hnil _ _ _ (r.matchNl || (mb && r.nullable)) nc hp2 e1
theorem REs.buildAltN_ends : (rs : REs) → rs.Finite → ∀ (m : NFA) (i f : Nat) (mb nc : Bool),
    Pre m i f → m.EndsAgree → (rs.buildAltNullable m i f mb nc).EndsAgree
  | .nil, _, m, i, f, _, _, _, he => by simpa [REs.buildAltNullable] using he
  | .cons r rs, hfin, m, i, f, mb, nc, hp, he => by
    simp only [REs.buildAltNullable]
    cases hn : r.nullable with
    | true =>
      simp only [if_true]
      obtain ⟨c1⟩ := RE.build_cert r (RE.finite_inBounds r hfin.1) m i f mb nc hp
      exact REs.buildAltN_ends rs hfin.2 _ i f mb nc (hp.after c1) (RE.build_ends r hfin.1 m i f mb nc hp he)
    | false =>
      simp only [Bool.false_eq_true, if_false]
      exact REs.buildAltN_ends rs hfin.2 m i f mb nc hp he
theorem REs.buildAltNon_ends : (rs : REs) → rs.Finite → ∀ (m : NFA) (i f : Nat) (nc : Bool),
    Pre m i f → m.EndsAgree → (rs.buildAltNon m i f nc).EndsAgree
  | .nil, _, m, i, f, _, _, he => by simpa [REs.buildAltNon] using he
  | .cons r rs, hfin, m, i, f, nc, hp, he => by
    simp only [REs.buildAltNon]
    cases hn : r.nullable with
    | true =>
      simp only [if_true]
      exact REs.buildAltNon_ends rs hfin.2 m i f nc hp he
    | false =>
      simp only [Bool.false_eq_true, if_false]
      obtain ⟨c1⟩ := RE.build_cert r (RE.finite_inBounds r hfin.1) m i f false nc hp
      exact REs.buildAltNon_ends rs hfin.2 _ i f nc (hp.after c1) (RE.build_ends r hfin.1 m i f false nc hp he)
end

/-- the NFA of a lexicon whose rules only use finite code ranges satisfies `EndsAgree` -/
theorem addRules_ends (rules : List Rule) : ∀ (n : NFA) (Fs : List (Nat × (List CurChar → Prop)))
    (cur : Option (String × Nat)) (t : Nat), (∀ r ∈ rules, r.state = "" ∧ r.re.Finite) → LexCert n Fs → n.EndsAgree →
    (addRules rules n 0 cur t).EndsAgree := by
  induction rules with
  | nil => intro n Fs cur t _ _ he; simpa [addRules] using he
  | cons r rs ih =>
    intro n Fs cur t hok lc he
    obtain ⟨hst, hfin⟩ := hok r (by simp)
    have hpos := lc.pos
    have hpre : Pre n.newState.1 0 n.nodes.length :=
      ⟨newState_wf n lc.wf, by omega, by simp [NFA.newState], by simp [NFA.newState]⟩
    obtain ⟨c⟩ := RE.build_cert r.re (RE.finite_inBounds r.re hfin) _ _ _ true false hpre
    have e1 := RE.build_ends r.re hfin _ _ _ true false hpre (newState_ends n he)
    have hg := c.grow
    have hlen' : n.newState.1.nodes.length = n.nodes.length + 1 := by simp [NFA.newState]
    rw [hlen'] at hg
    have e2 := setAction_ends _ e1 n.nodes.length (t - 1) (-(t : Int)) (by omega)
    have lc' := lexCertStep lc r.re (t - 1) (-(t : Int)) c
    have hunf : addRules (r :: rs) n 0 cur t =
        addRules rs ((r.re.build n.newState.1 0 n.nodes.length true false).setAction n.nodes.length (t - 1) (-(t : Int))) 0 none (t + 1) := by
      conv => lhs; unfold addRules
      rw [if_pos hst]
      rfl
    rw [hunf]
    exact ih _ _ none (t + 1) (fun r' hr' => hok r' (by simp [hr'])) lc' e2

end CyVerif.C50

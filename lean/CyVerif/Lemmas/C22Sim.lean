import CyVerif.Lemmas.C22Basic
/-! C22: the simulation invariant and the per-construct steps of the refinement proof. -/
set_option linter.unusedSimpArgs false
namespace CyVerif.C22

/-- invariant of the protocol state before a statement (`x` = expected content of `tstate->current_exception`) -/
structure Inv (V : Variant) (m : Mode) (cs : CS) (x : Option Nat) : Prop where
  curexc : cs.curexc = x
  dirty : cs.dirty = false
  slotv : ∀ v, cs.slot = some v → v = cs.ts.cur ∧ v ≠ none
  slotm : cs.slot ≠ none → m ≠ .top
  save : V.saveTopmost = true → cs.ts.top = cs.ts.cur

def mkCS (ts : TS) (x : Option Nat) (sl : Option (Option Nat)) (cs : CS) : CS :=
  { ts := ts, curexc := x, slot := sl, managed := cs.managed, dirty := cs.dirty }

/-- the protocol result `c` is the image of the reference result `p` -/
def Post (V : Variant) (m : Mode) (cs : CS) (p : Out × TS) (c : COut × CS) : Prop :=
  ∃ sl, c = (liftOut p.1, mkCS p.2 (excOf p.1) sl cs) ∧
    (sl = cs.slot ∨ (V.reraiseClears = true ∧ m = .free ∧ p.1.isExc = true ∧ sl = some none)) ∧
    p.2.cur = cs.ts.cur ∧ p.2.prev = cs.ts.prev

theorem cs_eq (cs : CS) : cs = mkCS cs.ts cs.curexc cs.slot cs := by cases cs; rfl

theorem Inv.step {V m cs} (h : Inv V m cs none) (t : TS) (hc : t.cur = cs.ts.cur) (hp : t.prev = cs.ts.prev) :
    Inv V m (mkCS t none cs.slot cs) none := by
  refine ⟨rfl, h.dirty, ?_, h.slotm, ?_⟩
  · intro v hv; simp only [mkCS] at hv ⊢; rw [hc]; exact h.slotv v hv
  · intro hs; have := h.save hs; simp only [mkCS, TS.top] at this ⊢; rw [hc, hp]; exact this

theorem Inv.notCleared {V m cs x} (h : Inv V m cs x) : (cs.slot == some none) = false := by
  cases hs : cs.slot with
  | none => rfl
  | some v => have := (h.slotv v hs).2; cases v <;> simp_all

theorem Inv.retOk {V m cs x} (h : Inv V m cs x) : cs.retCrashes = false := by
  simp [CS.retCrashes, h.dirty, h.notCleared]

theorem Inv.saved {V m cs x} (h : Inv V m cs x) : excSave V cs = cs.ts.cur := by
  unfold excSave; split
  · next hs => exact h.save hs
  · rfl

theorem post_same {V m cs} (_h : Inv V m cs none) (o : Out) (t : TS) (co : COut) (c : CS)
    (h1 : co = liftOut o) (h2 : c = mkCS t (excOf o) cs.slot cs) (hc : t.cur = cs.ts.cur) (hp : t.prev = cs.ts.prev) :
    Post V m cs (o, t) (co, c) := ⟨cs.slot, by rw [h1, h2], Or.inl rfl, hc, hp⟩

theorem Inv.cs_eq {V m cs x} (h : Inv V m cs x) : cs = mkCS cs.ts x cs.slot cs := by
  have := h.curexc; subst this; exact C22.cs_eq cs

theorem withTS_eq {V m cs} (h : Inv V m cs none) (t : TS) : cs.withTS t = mkCS t none cs.slot cs := by
  have := h.curexc; cases cs; simp_all [CS.withTS, mkCS]

theorem setObject_cur (ts : TS) (k : Nat) : (setObject ts k).cur = ts.cur ∧ (setObject ts k).prev = ts.prev := by
  unfold setObject; split
  · exact ⟨rfl, rfl⟩
  · split <;> exact ⟨rfl, rfl⟩

theorem doRaise_cur (ts : TS) (k : Nat) (c : Cause) : (doRaise ts k c).cur = ts.cur ∧ (doRaise ts k c).prev = ts.prev := by
  cases c <;> simp only [doRaise] <;> exact setObject_cur _ _

theorem raiseFresh_cur (ts : TS) (c : Nat) : (raiseFresh ts c).2.cur = ts.cur ∧ (raiseFresh ts c).2.prev = ts.prev := by
  simp only [raiseFresh]; exact setObject_cur _ _

theorem pyxRaise_eq (cs : CS) (k : Nat) (c : Cause) :
    pyxRaise cs k c = mkCS (doRaise cs.ts k c) (some k) cs.slot cs := by
  cases c <;> simp only [pyxRaise, doRaise, mkCS] <;> (try rw [ts_heap_eta])
where
  ts_heap_eta : ({ cs.ts with heap := cs.ts.heap } : TS) = cs.ts := by cases cs.ts; rfl

/-- loops: the same iteration on both sides -/
theorem iter_sim {V m} (f : TS → Out × TS) (g : CS → COut × CS)
    (hfg : ∀ cs, Inv V m cs none → Post V m cs (f cs.ts) (g cs)) :
    ∀ (n : Nat) (cs : CS), Inv V m cs none → Post V m cs (pyIter f n cs.ts) (cyIter g n cs)
  | 0, cs, h => by
    simp only [pyIter, cyIter]
    exact post_same h _ _ _ _ rfl h.cs_eq rfl rfl
  | n + 1, cs, h => by
    obtain ⟨sl, hc, hsl, hcur, hprev⟩ := hfg cs h
    simp only [pyIter, cyIter]
    rw [hc]
    generalize f cs.ts = r at hsl hcur hprev ⊢
    obtain ⟨o, t⟩ := r
    cases o with
    | norm =>
      simp only [Out.isExc, liftOut, excOf] at hsl ⊢
      have hsl' : sl = cs.slot := by rcases hsl with h1 | h1; exact h1; simp at h1
      subst hsl'
      have := iter_sim f g hfg n _ (h.step t hcur hprev)
      obtain ⟨sl2, hc2, hsl2, hcur2, hprev2⟩ := this
      exact ⟨sl2, hc2, hsl2, hcur2.trans hcur, hprev2.trans hprev⟩
    | cont =>
      simp only [Out.isExc, liftOut, excOf] at hsl ⊢
      have hsl' : sl = cs.slot := by rcases hsl with h1 | h1; exact h1; simp at h1
      subst hsl'
      have := iter_sim f g hfg n _ (h.step t hcur hprev)
      obtain ⟨sl2, hc2, hsl2, hcur2, hprev2⟩ := this
      exact ⟨sl2, hc2, hsl2, hcur2.trans hcur, hprev2.trans hprev⟩
    | brk =>
      simp only [Out.isExc, liftOut, excOf] at hsl ⊢
      have hsl' : sl = cs.slot := by rcases hsl with h1 | h1; exact h1; simp at h1
      subst hsl'
      exact ⟨cs.slot, rfl, Or.inl rfl, hcur, hprev⟩
    | ret => exact ⟨sl, rfl, hsl, hcur, hprev⟩
    | exc e => exact ⟨sl, rfl, hsl, hcur, hprev⟩

/-- the reference `try/finally` as a combinator (definitionally the `tryFin` case of `pyExec`) -/
def pyFin (f g : TS → Out × TS) (ts : TS) : Out × TS :=
  match f ts with
  | (.norm, ts1) => g ts1
  | (.exc e, ts1) =>
    let r := g { ts1 with cur := some e }
    ((match r.1 with | .norm => .exc e | o => o), { r.2 with cur := ts1.cur })
  | (o, ts1) =>
    let r := g ts1
    ((match r.1 with | .norm => o | o' => o'), r.2)

theorem pyExec_tryFin (env : Env) (b f : Stmt) (ts : TS) :
    pyExec env (.tryFin b f) ts = pyFin (pyExec env b) (pyExec env f) ts := by
  simp only [pyExec, pyFin]
  generalize pyExec env b ts = r
  obtain ⟨o, t⟩ := r
  cases o <;> rfl

theorem Mode.enterTry_ne_free (m : Mode) : m.enterTry ≠ .free := by cases m <;> simp [Mode.enterTry]

theorem slot_intact {V : Variant} {m : Mode} {cs : CS} {sl : Option (Option Nat)} {o : Out} (hm : m ≠ .free ∨ o.isExc = false)
    (h : sl = cs.slot ∨ (V.reraiseClears = true ∧ m = .free ∧ o.isExc = true ∧ sl = some none)) : sl = cs.slot := by
  rcases h with h | ⟨_, h2, h3, _⟩
  · exact h
  · rcases hm with hm | hm
    · exact absurd h2 hm
    · rw [hm] at h3; cases h3

theorem fin_sim {V m} (pf pg : TS → Out × TS) (cf cg : CS → COut × CS)
    (hf : ∀ cs, Inv V m.enterTry cs none → Post V m.enterTry cs (pf cs.ts) (cf cs))
    (hg : ∀ cs, Inv V m cs none → Post V m cs (pg cs.ts) (cg cs))
    (hgf : ∀ cs, Inv V .free cs none → Post V .free cs (pg cs.ts) (cg cs))
    (cs : CS) (h : Inv V m cs none) : Post V m cs (pyFin pf pg cs.ts) (cyFin cf cg cs) := by
  have hE : Inv V m.enterTry cs none := ⟨h.curexc, h.dirty, h.slotv, fun hs => by
    have := h.slotm hs; cases m <;> simp_all [Mode.enterTry], h.save⟩
  obtain ⟨sl, hc, hsl, hcur, hprev⟩ := hf cs hE
  have hsl := slot_intact (Or.inl (Mode.enterTry_ne_free m)) hsl
  subst hsl
  simp only [pyFin, cyFin]
  rw [hc]
  generalize pf cs.ts = r at hcur hprev ⊢
  obtain ⟨o, t⟩ := r
  cases o with
  | norm =>
    simp only [liftOut, excOf]
    obtain ⟨sl2, hc2, hsl2, hcur2, hprev2⟩ := hg _ (h.step t hcur hprev)
    exact ⟨sl2, hc2, hsl2, hcur2.trans hcur, hprev2.trans hprev⟩
  | exc e =>
    simp only [liftOut, excOf]
    have hI : Inv V .free ((getException (excSwapNull (mkCS t (some e) cs.slot cs)).2).2.enterSlot false
        (getException (excSwapNull (mkCS t (some e) cs.slot cs)).2).1) none := by
      refine ⟨rfl, ?_, ?_, fun _ => by simp, ?_⟩
      · simp [CS.enterSlot, getException, excSwapNull, mkCS, h.dirty, h.notCleared]
      · intro v hv; simp [CS.enterSlot, getException, excSwapNull, mkCS] at hv ⊢; simp [← hv]
      · intro _; simp [CS.enterSlot, getException, excSwapNull, mkCS, TS.top]
    obtain ⟨sl2, hc2, hsl2, hcur2, hprev2⟩ := hgf _ hI
    rw [hc2]
    simp only [CS.enterSlot, getException, excSwapNull, mkCS] at hsl2 hcur2 hprev2 ⊢
    generalize pg { t with cur := some e } = r2 at hsl2 hcur2 hprev2 ⊢
    obtain ⟨o2, t2⟩ := r2
    cases o2 with
    | norm =>
      have : sl2 = some (some e) := by rcases hsl2 with h1 | ⟨_, _, h3, _⟩; exact h1; simp [Out.isExc] at h3
      subst this
      refine ⟨cs.slot, ?_, Or.inl rfl, hcur, hprev2.trans hprev⟩
      simp [liftOut, excOf, CS.leaveSlot, errRestore, excReset, mkCS]
    | exc e2 =>
      refine ⟨cs.slot, ?_, Or.inl rfl, hcur, hprev2.trans hprev⟩
      simp [liftOut, excOf, CS.leaveSlot, errRestore, excReset, mkCS]
    | ret =>
      refine ⟨cs.slot, ?_, Or.inl rfl, hcur, hprev2.trans hprev⟩
      simp [liftOut, excOf, CS.leaveSlot, errRestore, excReset, mkCS]
    | brk =>
      refine ⟨cs.slot, ?_, Or.inl rfl, hcur, hprev2.trans hprev⟩
      simp [liftOut, excOf, CS.leaveSlot, errRestore, excReset, mkCS]
    | cont =>
      refine ⟨cs.slot, ?_, Or.inl rfl, hcur, hprev2.trans hprev⟩
      simp [liftOut, excOf, CS.leaveSlot, errRestore, excReset, mkCS]
  | ret =>
    simp only [liftOut, excOf]
    obtain ⟨sl2, hc2, hsl2, hcur2, hprev2⟩ := hg _ (h.step t hcur hprev)
    rw [hc2]
    simp only [show (mkCS t none cs.slot cs).ts = t from rfl,
      show (mkCS t none cs.slot cs).slot = cs.slot from rfl] at hsl2 hcur2 hprev2 ⊢
    generalize pg t = r2 at hsl2 hcur2 hprev2 ⊢
    obtain ⟨o2, t2⟩ := r2
    refine ⟨sl2, ?_, ?_, hcur2.trans hcur, hprev2.trans hprev⟩
    · cases o2 <;> simp [liftOut, excOf, mkCS]
    · cases o2 <;> simp_all [Out.isExc]
  | brk =>
    simp only [liftOut, excOf]
    obtain ⟨sl2, hc2, hsl2, hcur2, hprev2⟩ := hg _ (h.step t hcur hprev)
    rw [hc2]
    simp only [show (mkCS t none cs.slot cs).ts = t from rfl,
      show (mkCS t none cs.slot cs).slot = cs.slot from rfl] at hsl2 hcur2 hprev2 ⊢
    generalize pg t = r2 at hsl2 hcur2 hprev2 ⊢
    obtain ⟨o2, t2⟩ := r2
    refine ⟨sl2, ?_, ?_, hcur2.trans hcur, hprev2.trans hprev⟩
    · cases o2 <;> simp [liftOut, excOf, mkCS]
    · cases o2 <;> simp_all [Out.isExc]
  | cont =>
    simp only [liftOut, excOf]
    obtain ⟨sl2, hc2, hsl2, hcur2, hprev2⟩ := hg _ (h.step t hcur hprev)
    rw [hc2]
    simp only [show (mkCS t none cs.slot cs).ts = t from rfl,
      show (mkCS t none cs.slot cs).slot = cs.slot from rfl] at hsl2 hcur2 hprev2 ⊢
    generalize pg t = r2 at hsl2 hcur2 hprev2 ⊢
    obtain ⟨o2, t2⟩ := r2
    refine ⟨sl2, ?_, ?_, hcur2.trans hcur, hprev2.trans hprev⟩
    · cases o2 <;> simp [liftOut, excOf, mkCS]
    · cases o2 <;> simp_all [Out.isExc]

end CyVerif.C22

import CyVerif.Lemmas.C33Err
/-! # C33 — `FirstBad m t p e → fromPy m t p = error e` -/
namespace CyVerif.C33

theorem immediate_err (m : Mode) (t : Ty) (p : PyVal) (e : String) (h : immediate m t p = some e) :
    fromPy m t p = .error e := by
  cases t with
  | int w sg => simp [immediate] at h; simp [fromPy, errOf_some _ _ h, bind, Except.bind]
  | dbl => simp [immediate] at h; simp [fromPy, errOf_some _ _ h, bind, Except.bind]
  | bool => simp [immediate] at h
  | str => simp [immediate] at h; simp [fromPy, errOf_some _ _ h, bind, Except.bind]
  | cstr => simp [immediate] at h; simp [fromPy, errOf_some _ _ h, bind, Except.bind]
  | cplx => simp [immediate] at h; simp [fromPy, errOf_some _ _ h, bind, Except.bind]
  | pair a b =>
    simp only [immediate] at h
    cases hi : iterate p with
    | error e' => rw [hi] at h; simp at h; subst h; simp [fromPy, hi, bind, Except.bind]
    | ok xs =>
      rw [hi] at h
      simp only at h
      split at h
      · cases h
      · rename_i hne
        injection h with h; subst h
        match xs, hne with
        | [], _ => simp [fromPy, hi, bind, Except.bind]
        | [_], _ => simp [fromPy, hi, bind, Except.bind]
        | [_, _], hne => simp at hne
        | _ :: _ :: _ :: _, _ => simp [fromPy, hi, bind, Except.bind]
  | vec t => simp [immediate] at h; simp [fromPy, errOf_some _ _ h, bind, Except.bind]
  | lst t => simp [immediate] at h; simp [fromPy, errOf_some _ _ h, bind, Except.bind]
  | set t => simp [immediate] at h; simp [fromPy, errOf_some _ _ h, bind, Except.bind]
  | uset t => simp [immediate] at h; simp [fromPy, errOf_some _ _ h, bind, Except.bind]
  | map k v => simp [immediate] at h; simp [fromPy, errOf_some _ _ h, bind, Except.bind]
  | umap k v => simp [immediate] at h; simp [fromPy, errOf_some _ _ h, bind, Except.bind]
  | struct ns ts =>
    simp only [immediate] at h
    split at h
    · rename_i hm; simp [fromPy, hm, errOf_some _ _ h, bind, Except.bind]
    · rename_i hm; injection h with h; subst h; simp [fromPy, hm]
  | union ns ts => simp [immediate] at h
  | carray t n =>
    simp only [immediate] at h
    cases hl : pyLen p with
    | some l =>
      rw [hl] at h; simp only at h
      split at h
      · rename_i hn; simp [fromPy, carrayFrom, hl, hn, errOf_some _ _ h, bind, Except.bind]
      · rename_i hn; injection h with h; subst h; simp [fromPy, carrayFrom, hl, hn]
    | none =>
      rw [hl] at h; simp only at h
      simp [fromPy, carrayFrom, hl, errOf_some _ _ h, bind, Except.bind]
  | ctuple ts =>
    cases p <;> simp only [immediate, isSequence] at h <;>
      first
      | (simp at h; done)
      | (simp at h; subst h; simp [fromPy, isSequence]; done)
      | (split at h
         · cases h
         · rename_i hn; injection h with h; subst h; simp [fromPy, hn]; done)
      | (simp only [if_true] at h
         split at h
         · rename_i e' hi; injection h with h; subst h; simp [fromPy, isSequence, hi, bind, Except.bind]
         · rename_i xs hi
           split at h
           · cases h
           · rename_i hn; injection h with h; subst h; simp [fromPy, isSequence, hi, hn, bind, Except.bind])

theorem elems_err (m : Mode) (t : Ty) (p : PyVal) (t' : Ty) (xs : List PyVal) (e : String)
    (h : elems t p = some (t', xs)) (he : mapR (fromPy m t') xs = .error e) : fromPy m t p = .error e := by
  cases t with
  | vec t =>
    simp only [elems] at h; split at h <;> simp at h
    rename_i ys hi; obtain ⟨rfl, rfl⟩ := h; simp [fromPy, hi, he, bind, Except.bind]
  | lst t =>
    simp only [elems] at h; split at h <;> simp at h
    rename_i ys hi; obtain ⟨rfl, rfl⟩ := h; simp [fromPy, hi, he, bind, Except.bind]
  | set t =>
    simp only [elems] at h; split at h <;> simp at h
    rename_i ys hi; obtain ⟨rfl, rfl⟩ := h; simp [fromPy, hi, he, bind, Except.bind]
  | uset t =>
    simp only [elems] at h; split at h <;> simp at h
    rename_i ys hi; obtain ⟨rfl, rfl⟩ := h; simp [fromPy, hi, he, bind, Except.bind]
  | carray t n =>
    simp only [elems] at h
    split at h
    · rename_i l ys hl hi
      split at h <;> simp at h
      rename_i hn; obtain ⟨rfl, rfl⟩ := h
      simp [fromPy, carrayFrom, hl, hn, hi, he, bind, Except.bind]
    · rename_i ys hl hi
      simp at h; obtain ⟨rfl, rfl⟩ := h
      simp [fromPy, carrayFrom, hl, hi, he, bind, Except.bind]
    · simp at h
  | _ => simp [elems] at h

theorem comps_err (m : Mode) (t : Ty) (p : PyVal) (ts : List Ty) (xs : List PyVal) (e : String)
    (h : comps t p = some (ts, xs)) (he : fromPyL m ts xs = .error e) : fromPy m t p = .error e := by
  cases t with
  | pair a b =>
    simp only [comps] at h; split at h <;> simp at h
    rename_i x y hi; obtain ⟨rfl, rfl⟩ := h
    simp only [fromPyL, bind, Except.bind] at he
    cases hx : fromPy m a x with
    | error e' => rw [hx] at he; simp at he; subst he; simp [fromPy, hi, hx, bind, Except.bind]
    | ok ca =>
      rw [hx] at he
      cases hy : fromPy m b y with
      | error e' => rw [hy] at he; simp at he; subst he; simp [fromPy, hi, hx, hy, bind, Except.bind]
      | ok cb => rw [hy] at he; simp at he
  | struct ns ts' =>
    simp only [comps] at h
    split at h
    · rename_i hm
      split at h <;> simp at h
      rename_i vs hlk; obtain ⟨rfl, rfl⟩ := h
      simp [fromPy, hm, hlk, he, bind, Except.bind]
    · simp at h
  | ctuple ts' =>
    cases p <;> simp only [comps, isSequence] at h <;>
      first
      | (simp at h; done)
      | (split at h <;> simp at h
         rename_i hn; obtain ⟨rfl, rfl⟩ := h; simp [fromPy, hn, he, bind, Except.bind]; done)
      | (simp only [if_true] at h
         split at h
         · rename_i ys hi
           split at h <;> simp at h
           rename_i hn; obtain ⟨rfl, rfl⟩ := h
           simp [fromPy, isSequence, hi, hn, he, bind, Except.bind]
         · simp at h)
  | _ => simp [comps] at h

theorem map_err (m : Mode) (t : Ty) (p : PyVal) (k v : Ty) (kvs : List (PyVal × PyVal)) (e : String)
    (ht : mapTys t = some (k, v)) (hi : items p = .ok kvs)
    (he : mapR (fun kv => do let ck ← fromPy m k kv.1; let cv ← fromPy m v kv.2; .ok (ck, cv)) kvs = .error e) :
    fromPy m t p = .error e := by
  simp only [bind, Except.bind] at he
  cases t <;> simp [mapTys] at ht <;> obtain ⟨rfl, rfl⟩ := ht <;> simp [fromPy, hi, he, bind, Except.bind]

/-- **First error wins, at any depth.** -/
theorem firstBad_err (m : Mode) (t : Ty) (p : PyVal) (e : String) (h : FirstBad m t p e) :
    fromPy m t p = .error e := by
  induction h with
  | node h => exact immediate_err m _ _ _ h
  | elem hel hpre _ ih => exact elems_err m _ _ _ _ _ hel (mapR_first_err _ _ _ _ _ hpre ih)
  | comp hc hts hxs hlen hpre _ ih =>
    subst hts; subst hxs
    exact comps_err m _ _ _ _ _ hc (fromPyL_append_err m _ _ _ _ _ _ _ hlen hpre ih)
  | mapKey ht hi hkvs hpre _ ih =>
    subst hkvs
    apply map_err m _ _ _ _ _ _ ht hi
    apply mapR_first_err
    · intro kv hkv
      obtain ⟨ck, cv, h1, h2⟩ := hpre kv hkv
      exact ⟨(ck, cv), by simp [h1, h2, bind, Except.bind]⟩
    · simp [ih, bind, Except.bind]
  | mapVal ht hi hkvs hpre hk _ ih =>
    subst hkvs
    apply map_err m _ _ _ _ _ _ ht hi
    apply mapR_first_err
    · intro kv hkv
      obtain ⟨ck, cv, h1, h2⟩ := hpre kv hkv
      exact ⟨(ck, cv), by simp [h1, h2, bind, Except.bind]⟩
    · simp [hk, ih, bind, Except.bind]
  | carrayLate hl hi hn hpre =>
    obtain ⟨cs, hcs⟩ := mapR_all_ok _ _ hpre
    simp [fromPy, carrayFrom, hl, hi, hcs, hn, bind, Except.bind]

end CyVerif.C33

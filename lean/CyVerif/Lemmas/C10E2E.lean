import CyVerif.Lemmas.C10Round
import CyVerif.Props.C11
import CyVerif.Props.C12
/-! From the blob to the bytes the run-time loops see: C literal (C11), LZSS (C12), `#if` chain. -/
namespace CyVerif.C10

theorem lzssWrapper_ok (P12 : C12.Params) (hP : C12.WF P12) (blob : List Nat) (hb : ∀ x ∈ blob, x < 256)
    (c : Array Nat) (hc : C12.compress P12 blob.toArray = .ok c) (hsel : C12.selected P12 blob.length c.size) :
    lzssWrapper c.toList c.size blob.length = .ok blob := by
  have := C12.shipped_roundtrip P12 hP blob.toArray (by simpa using hb) c hc (by simpa using hsel)
  simp only [List.size_toArray] at this
  simp [lzssWrapper, this]

theorem selectBranch_mem (chain : List AlgoEnt) (mval : Int) (py314 : Bool) (e : AlgoEnt)
    (h : selectBranch chain mval py314 = some e) : e ∈ chain := List.mem_of_find?_eq_some h

/-- **Every branch of the `#if` chain delivers the blob.**  For every value of
`CYTHON_COMPRESS_STRINGS` (any integer), whichever subset of algorithms was emitted in
whichever order: the selected branch decompresses to the blob — LZSS by theorem (C12), the
others given that CPython's decompressors invert CPython's compressors. -/
theorem runtimeData_ok (P12 : C12.Params) (hP : C12.WF P12) (cd : Codec) (hcd : cd.Inverse)
    (chain : List AlgoEnt) (hwf : chainWF chain = true) (blob : List Nat) (hb : ∀ x ∈ blob, x < 256)
    (hl : ∀ e ∈ chain, e.algo = .lzss →
      ∃ c, C12.compress P12 blob.toArray = .ok c ∧ C12.selected P12 blob.length c.size)
    (mval : Int) (py314 : Bool) :
    runtimeData P12 cd chain mval py314 blob = .ok blob := by
  unfold runtimeData
  cases hs : selectBranch chain mval py314 with
  | none => rfl
  | some e =>
    have hmem := selectBranch_mem chain mval py314 e hs
    have hw := List.all_eq_true.mp hwf e hmem
    simp only []
    unfold branchData
    cases ha : e.algo with
    | lzss =>
      obtain ⟨c, hc, hsel⟩ := hl e hmem ha
      simp only [hc]
      exact lzssWrapper_ok P12 hP blob hb c hc hsel
    | zlib =>
      simp only [ha, Bool.or_eq_true, beq_iff_eq] at hw
      rcases hw with hw | hw
      · cases hw
      · simp only [hw, hcd .zlib blob]
    | bz2 =>
      simp only [ha, Bool.or_eq_true, beq_iff_eq] at hw
      rcases hw with hw | hw
      · cases hw
      · simp only [hw, hcd .bz2 blob]
    | zstd =>
      simp only [ha, Bool.or_eq_true, beq_iff_eq] at hw
      rcases hw with hw | hw
      · cases hw
      · simp only [hw, hcd .zstd blob]

/-- the blob of a layout consists of bytes -/
theorem blob_bytes (ts : List TextEntry) (bs : List BytesEntry)
    (hsc : ∀ e ∈ ts, e.text.all isScalar = true) (hbb : ∀ e ∈ bs, ∀ x ∈ e.data, x < 256) :
    ∀ x ∈ ((ts.map (·.text)).map (·.flatMap utf8Enc1)).flatten ++ (bs.map (·.data)).flatten, x < 256 := by
  intro x hx
  rw [List.mem_append] at hx
  rcases hx with hx | hx
  · simp only [List.mem_flatten, List.mem_map] at hx
    obtain ⟨l, ⟨t, ⟨e, he, rfl⟩, rfl⟩, hx⟩ := hx
    rw [List.mem_flatMap] at hx
    obtain ⟨c, hc, hx⟩ := hx
    exact utf8Enc1_lt c (List.all_eq_true.mp (hsc e he) c hc) x hx
  · simp only [List.mem_flatten, List.mem_map] at hx
    obtain ⟨l, ⟨e, he, rfl⟩, hx⟩ := hx
    exact hbb e he x hx

end CyVerif.C10

import CyVerif.Model.C19Str
/-! bytes / bytearray comparison helpers against Python's sequence comparison. -/
namespace CyVerif.C19

theorem memcmp_eq_zero_iff : ∀ (s1 s2 : List Nat), s1.length = s2.length → (memcmp s1 s2 = 0 ↔ s1 = s2) := by
  intro s1
  induction s1 with
  | nil => intro s2 h; cases s2 <;> simp_all [memcmp]
  | cons a as ih =>
    intro s2 h
    cases s2 with
    | nil => simp at h
    | cons b bs =>
      simp only [List.length_cons, Nat.add_right_cancel_iff] at h
      unfold memcmp
      by_cases h1 : a < b
      · simp [h1]; omega
      · by_cases h2 : b < a
        · simp [h1, h2]; omega
        · have : a = b := by omega
          subst this
          simp [ih bs h]

/-- `==` / `!=` of bytes-like objects -/
theorem bytesEqNe_spec (ba1 : Bool) (s1 s2 : List Nat) (ne : Bool) :
    bytesEqNe ba1 s1 s2 ne = if s1 = s2 then !ne else ne := by
  unfold bytesEqNe
  by_cases hl : s1.length = s2.length
  · simp only [hl, ne_eq, not_true_eq_false, ↓reduceIte]
    have hm := memcmp_eq_zero_iff s1 s2 hl
    cases s1 with
    | nil =>
      cases s2 with
      | nil => cases ba1 <;> simp [memcmp]
      | cons b bs => simp at hl
    | cons a as =>
      cases s2 with
      | nil => simp at hl
      | cons b bs =>
        simp only [List.length_cons, Nat.add_right_cancel_iff] at hl
        by_cases hab : a = b
        · subst hab
          cases as with
          | nil =>
            cases bs with
            | nil => simp
            | cons c cs => simp at hl
          | cons a2 as2 =>
            cases bs with
            | nil => simp at hl
            | cons b2 bs2 =>
              by_cases hm0 : memcmp (a :: a2 :: as2) (a :: b2 :: bs2) = 0
              · have heq := hm.mp hm0
                simp only [List.cons.injEq, true_and] at heq
                obtain ⟨rfl, rfl⟩ := heq
                simp [hm0]
              · have : ¬ (a :: a2 :: as2 = a :: b2 :: bs2) := fun h => hm0 (hm.mpr h)
                simp only [List.cons.injEq, true_and] at this
                simp [hm0, this]
        · simp [hab]
  · have : s1 ≠ s2 := fun h => hl (by rw [h])
    simp [hl, this]

def SameSign (a b : Int) : Prop := (a < 0 ↔ b < 0) ∧ (0 < a ↔ 0 < b)

theorem holds_congr (op : OrdOp) (a b : Int) (h : SameSign a b) : op.holds a = op.holds b := by
  obtain ⟨h1, h2⟩ := h
  cases op <;> simp only [OrdOp.holds] <;> rw [Bool.eq_iff_iff] <;> simp only [decide_eq_true_eq] <;> omega

theorem memcmp_range (s1 s2 : List Nat) : memcmp s1 s2 = -1 ∨ memcmp s1 s2 = 0 ∨ memcmp s1 s2 = 1 := by
  induction s1 generalizing s2 with
  | nil => simp [memcmp]
  | cons a as ih =>
    cases s2 with
    | nil => simp [memcmp]
    | cons b bs =>
      unfold memcmp
      split
      · simp
      · split
        · simp
        · exact ih bs

/-- the helper's recipe (memcmp over the common prefix, then the lengths) is lexicographic order -/
theorem prefix_then_length : ∀ (s1 s2 : List Nat),
    SameSign (if memcmp (s1.take (min s1.length s2.length)) (s2.take (min s1.length s2.length)) = 0
              then (s1.length : Int) - (s2.length : Int)
              else memcmp (s1.take (min s1.length s2.length)) (s2.take (min s1.length s2.length)))
             (lexCmp s1 s2) := by
  intro s1
  induction s1 with
  | nil =>
    intro s2
    cases s2 with
    | nil => simp [memcmp, lexCmp, SameSign]
    | cons b bs => simp [memcmp, lexCmp, SameSign]; omega
  | cons a as ih =>
    intro s2
    cases s2 with
    | nil => simp [memcmp, lexCmp, SameSign]; omega
    | cons b bs =>
      have hmin : min (a :: as).length (b :: bs).length = min as.length bs.length + 1 := by
        simp only [List.length_cons]; omega
      rw [hmin]
      simp only [List.take_succ_cons, List.length_cons]
      unfold memcmp lexCmp
      by_cases h1 : a < b
      · simp [h1, SameSign]
      · by_cases h2 : b < a
        · simp [h1, h2, SameSign]
        · simp only [h1, h2, ↓reduceIte]
          have := ih bs
          simp only [Int.natCast_add, Int.cast_ofNat_Int] at this ⊢
          have e : ((as.length : Int) + 1 - ((bs.length : Int) + 1)) = (as.length : Int) - (bs.length : Int) := by omega
          rw [e]
          exact this

/-- `<`, `<=`, `>`, `>=` of bytes-like objects (repaired helper) -/
theorem bytesOrd_spec (fix : Bool) (op : OrdOp) (s1 s2 : List Nat)
    (h : fix = true ∨ ¬(s1 = [] ∧ s2 = [])) :
    bytesOrd fix op s1 s2 = op.holds (lexCmp s1 s2) := by
  unfold bytesOrd
  simp only
  by_cases hshort : min s1.length s2.length = 0
  · simp only [hshort, beq_self_eq_true, ↓reduceIte]
    cases s1 with
    | nil =>
      cases s2 with
      | nil =>
        rcases h with h | h
        · subst h; simp [lexCmp]
        · exact absurd ⟨rfl, rfl⟩ h
      | cons b bs =>
        cases fix
        · cases op <;> simp [lexCmp, OrdOp.isLtLe, OrdOp.holds]
        · cases op <;> simp [lexCmp, OrdOp.holds] <;> (try omega)
    | cons a as =>
      cases s2 with
      | nil =>
        cases fix
        · cases op <;> simp [lexCmp, OrdOp.isLtLe, OrdOp.holds]
        · cases op <;> simp [lexCmp, OrdOp.holds] <;> (try omega)
      | cons b bs => simp at hshort
  · have hne : (min s1.length s2.length == 0) = false := by simpa using hshort
    simp only [hne, Bool.false_eq_true, ↓reduceIte]
    apply holds_congr
    cases s1 with
    | nil => simp at hshort
    | cons a as =>
      cases s2 with
      | nil => simp at hshort
      | cons b bs =>
        have hps := prefix_then_length (a :: as) (b :: bs)
        have hmin : min (a :: as).length (b :: bs).length = min as.length bs.length + 1 := by
          simp only [List.length_cons]; omega
        rw [hmin] at hps ⊢
        simp only [List.take_succ_cons, List.headD_cons] at hps ⊢
        have hr := memcmp_range (as.take (min as.length bs.length)) (bs.take (min as.length bs.length))
        unfold memcmp at hps ⊢
        by_cases h1 : a < b
        · simp only [h1, ↓reduceIte] at hps ⊢
          have hc0 : ((a : Int) - (b : Int) == 0) = false := by
            rw [beq_eq_false_iff_ne]; omega
          simp only [hc0, Bool.false_and, Bool.false_eq_true, ↓reduceIte]
          obtain ⟨p1, p2⟩ := hps
          constructor <;> constructor <;> intro hh <;> simp_all <;> omega
        · by_cases h2 : b < a
          · simp only [h1, h2, ↓reduceIte] at hps ⊢
            have hc0 : ((a : Int) - (b : Int) == 0) = false := by
              rw [beq_eq_false_iff_ne]; omega
            simp only [hc0, Bool.false_and, Bool.false_eq_true, ↓reduceIte]
            obtain ⟨p1, p2⟩ := hps
            constructor <;> constructor <;> intro hh <;> simp_all <;> omega
          · have hab : a = b := by omega
            subst hab
            simp only [Nat.lt_irrefl, ↓reduceIte] at hps ⊢
            simp only [Int.sub_self, beq_self_eq_true, Bool.true_and]
            by_cases hgt : min as.length bs.length + 1 > 1
            · simp only [hgt, decide_true, ↓reduceIte]
              by_cases hm : memcmp (as.take (min as.length bs.length)) (bs.take (min as.length bs.length)) = 0
              · simp only [hm, beq_self_eq_true, ↓reduceIte] at hps ⊢
                exact hps
              · have hmb : (memcmp (as.take (min as.length bs.length)) (bs.take (min as.length bs.length)) == 0) = false := by
                  rw [beq_eq_false_iff_ne]; exact hm
                simp only [hm, hmb, Bool.false_eq_true, ↓reduceIte] at hps ⊢
                exact hps
            · have hz : min as.length bs.length = 0 := by omega
              simp only [hgt, decide_false, Bool.false_eq_true, ↓reduceIte, beq_self_eq_true]
              rw [hz] at hps
              simp only [List.take_zero, memcmp, ↓reduceIte] at hps
              exact hps

end CyVerif.C19

import CyVerif.Lemmas.C49Modify
namespace CyVerif.C49
open Forest

/-- Stage B, the key lemma: if the change at node `b` appends the items `x`
at the end of the node's content, then on the flat document this is "insert
`x` immediately before the node's `cl`". -/
theorem Forest.doc_modify {b k : Nat} {g : List Frag → Forest → List Frag × Forest} {x : Doc}
    {fs0 : List Frag} {kids0 : Forest}
    (hg : (g fs0 kids0).2.doc ++ fragItems (g fs0 kids0).1 = kids0.doc ++ fragItems fs0 ++ x) :
    ∀ F : Forest, F.find b = some (fs0, kids0) → (b, some k) ∈ F.tags → F.ids.Nodup → F.names.Nodup →
      (F.modify b g).doc = insBefore (Item.cl k) x F.doc := by
  intro F
  induction F with
  | nil => intro h; simp [Forest.find] at h
  | cons id nm fs kd r ihk ihr =>
    intro hf ht hid hnm
    obtain ⟨i1, i2, i3, i4, i5⟩ := Forest.nodup_ids_cons hid
    obtain ⟨n1, n2, n3, n4⟩ := Forest.nodup_names_cons hnm
    simp only [Forest.tags, List.mem_cons, List.mem_append, Prod.mk.injEq] at ht
    rcases Forest.find_cons_cases hid hf with ⟨e, hp⟩ | ⟨e, hbk, hbr, hfk⟩ | ⟨e, hbk, hbr, hfr⟩
    · -- the node itself
      subst e
      simp only [Prod.mk.injEq] at hp
      obtain ⟨rfl, rfl⟩ := hp
      have hname : nm = some k := by
        rcases ht with h | h | h
        · exact h.2.symm
        · exact absurd (Forest.mem_ids_of_tag h) i1
        · exact absurd (Forest.mem_ids_of_tag h) i2
      subst hname
      have hk := (n1 k rfl).1
      have hnot : Item.cl k ∉ kids0.doc ++ fragItems fs0 := by
        simp only [List.mem_append, not_or]
        exact ⟨fun h => hk (Forest.cl_mem_doc h), not_mem_fragItems_cl _ _⟩
      simp only [Forest.modify, if_true, Forest.doc, wrap, hg]
      have e1 : Item.op k :: (kids0.doc ++ fragItems fs0 ++ [Item.cl k]) ++ r.doc
          = Item.op k :: ((kids0.doc ++ fragItems fs0) ++ Item.cl k :: r.doc) := by simp
      rw [e1, insBefore_cons_ne (by simp), insBefore_append_of_not_mem hnot, insBefore_cons_self]
      simp
    · -- inside the children
      simp only [Forest.modify, e, if_false, Forest.doc]
      have h : (b, some k) ∈ kd.tags := by
        rcases ht with h | h | h
        · exact absurd h.1.symm e
        · exact h
        · exact absurd (Forest.mem_ids_of_tag h) hbr
      rw [Forest.modify_of_not_mem hbr, ihk hfk h i3 n2]
      have hmem : Item.cl k ∈ kd.doc := Forest.cl_mem_doc_of_tag h
      have hw : Item.cl k ∈ wrap nm (kd.doc ++ fragItems fs) :=
        mem_wrap_cl.2 (Or.inr (List.mem_append_left _ hmem))
      rw [insBefore_append_of_mem hw]
      congr 1
      cases nm with
      | none => simp only [wrap]; rw [insBefore_append_of_mem hmem]
      | some j =>
        simp only [wrap]
        rw [insBefore_cons_ne (by simp), insBefore_append_of_mem (List.mem_append_left _ hmem),
          insBefore_append_of_mem hmem]
    · -- inside the later siblings
      simp only [Forest.modify, e, if_false, Forest.doc]
      have h : (b, some k) ∈ r.tags := by
        rcases ht with h | h | h
        · exact absurd h.1.symm e
        · exact absurd (Forest.mem_ids_of_tag h) hbk
        · exact h
      rw [Forest.modify_of_not_mem hbk, ihr hfr h i4 n3]
      have hkr : k ∈ r.names := Forest.mem_names_of_tag h
      have hw : Item.cl k ∉ wrap nm (kd.doc ++ fragItems fs) := by
        rw [mem_wrap_cl]
        rintro (h1 | h1)
        · exact (n1 k h1).2 hkr
        · rcases List.mem_append.1 h1 with h2 | h2
          · exact n4 k (Forest.cl_mem_doc h2) hkr
          · exact not_mem_fragItems_cl _ _ h2
      rw [insBefore_append_of_not_mem hw]

end CyVerif.C49

import CyVerif.Lemmas.C49Modify2
namespace CyVerif.C49
open Forest

/-- effect on the tag list when the change at node `b` appends the nodes `new` to its children -/
theorem Forest.tags_modify {b : Nat} {g : List Frag → Forest → List Frag × Forest}
    {fs0 : List Frag} {kids0 : Forest} {new : List (Nat × Option Nat)}
    (hg : (g fs0 kids0).2.tags = kids0.tags ++ new) :
    ∀ F : Forest, F.find b = some (fs0, kids0) → F.ids.Nodup →
      (F.modify b g).tags.Perm (F.tags ++ new) := by
  intro F
  induction F with
  | nil => intro h; simp [Forest.find] at h
  | cons id nm fs kd r ihk ihr =>
    intro hf hid
    obtain ⟨i1, i2, i3, i4, i5⟩ := Forest.nodup_ids_cons hid
    rcases Forest.find_cons_cases hid hf with ⟨e, hp⟩ | ⟨e, hbk, hbr, hfk⟩ | ⟨e, hbk, hbr, hfr⟩
    · simp only [Prod.mk.injEq] at hp
      obtain ⟨rfl, rfl⟩ := hp
      simp only [Forest.modify, e, if_true, Forest.tags, hg, List.cons_append]
      refine List.Perm.cons _ ?_
      rw [List.append_assoc, List.append_assoc]
      exact List.Perm.append_left _ List.perm_append_comm
    · simp only [Forest.modify, e, if_false, Forest.tags, List.cons_append]
      refine List.Perm.cons _ ?_
      rw [Forest.modify_of_not_mem hbr]
      have := ihk hfk i3
      refine (List.Perm.append_right _ this).trans ?_
      rw [List.append_assoc, List.append_assoc]
      exact List.Perm.append_left _ List.perm_append_comm
    · simp only [Forest.modify, e, if_false, Forest.tags, List.cons_append]
      refine List.Perm.cons _ ?_
      rw [Forest.modify_of_not_mem hbk]
      have := ihr hfr i4
      rw [List.append_assoc]
      exact List.Perm.append_left _ this

/-- what the heap says about the node found at `b` -/
theorem Cons_find {H : Heap} {b : Nat} {fs0 : List Frag} {kids0 : Forest} :
    ∀ F : Forest, Cons H F → F.find b = some (fs0, kids0) → F.ids.Nodup →
      ∃ n, H[b]? = some n ∧ n.children = kids0.rootIds ∧ n.stream = textD (fragItems fs0) ∧
        n.markers = marksD (fragItems fs0) ∧ Cons H kids0 ∧ b ∉ kids0.ids ∧ kids0.ids.Nodup := by
  intro F
  induction F with
  | nil => intro _ h; simp [Forest.find] at h
  | cons id nm fs kd r ihk ihr =>
    intro hc hf hid
    obtain ⟨i1, i2, i3, i4, i5⟩ := Forest.nodup_ids_cons hid
    obtain ⟨⟨nd, hn, hch, hst, hmk⟩, hk, hr⟩ := hc
    rcases Forest.find_cons_cases hid hf with ⟨e, hp⟩ | ⟨e, hbk, hbr, hfk⟩ | ⟨e, hbk, hbr, hfr⟩
    · simp only [Prod.mk.injEq] at hp
      obtain ⟨rfl, rfl⟩ := hp
      subst e
      exact ⟨nd, hn, hch, hst, hmk, hk, i1, i3⟩
    · exact ihk hk hfk i3
    · exact ihr hr hfr i4

/-- Stage A, the key lemma: the heap `H'` stores the modified forest if it
agrees with `H` away from `b` and its cell `b` stores the modified node. -/
theorem Cons_modify {H H' : Heap} {b : Nat} {g : List Frag → Forest → List Frag × Forest}
    {fs0 : List Frag} {kids0 : Forest}
    (hfr : ∀ i, i ≠ b → ∀ n, H[i]? = some n → H'[i]? = some n)
    (hnode : ∃ n', H'[b]? = some n' ∧ n'.children = (g fs0 kids0).2.rootIds ∧
        n'.stream = textD (fragItems (g fs0 kids0).1) ∧ n'.markers = marksD (fragItems (g fs0 kids0).1))
    (hkids : Cons H' (g fs0 kids0).2) :
    ∀ F : Forest, Cons H F → F.find b = some (fs0, kids0) → F.ids.Nodup → Cons H' (F.modify b g) := by
  intro F
  induction F with
  | nil => intro _ _ _; trivial
  | cons id nm fs kd r ihk ihr =>
    intro hc hf hid
    obtain ⟨i1, i2, i3, i4, i5⟩ := Forest.nodup_ids_cons hid
    obtain ⟨⟨nd, hn, hch, hst, hmk⟩, hk, hr⟩ := hc
    have frame : ∀ {G : Forest}, b ∉ G.ids → Cons H G → Cons H' G := fun hb hG =>
      Cons_frame (fun i hi n hin => hfr i (fun e => hb (e ▸ hi)) n hin) hG
    rcases Forest.find_cons_cases hid hf with ⟨e, hp⟩ | ⟨e, hbk, hbr, hfk⟩ | ⟨e, hbk, hbr, hfr'⟩
    · simp only [Prod.mk.injEq] at hp
      obtain ⟨rfl, rfl⟩ := hp
      subst e
      simp only [Forest.modify, if_true]
      exact ⟨hnode, hkids, frame i2 hr⟩
    · simp only [Forest.modify, e, if_false]
      refine ⟨⟨nd, hfr id e nd hn, ?_, hst, hmk⟩, ihk hk hfk i3, ?_⟩
      · rw [Forest.rootIds_modify]; exact hch
      · rw [Forest.modify_of_not_mem hbr]; exact frame hbr hr
    · simp only [Forest.modify, e, if_false]
      refine ⟨⟨nd, hfr id e nd hn, ?_, hst, hmk⟩, ?_, ihr hr hfr' i4⟩
      · rw [Forest.rootIds_modify]; exact hch
      · rw [Forest.modify_of_not_mem hbk]; exact frame hbk hk

theorem Forest.NE_find {b : Nat} {fs0 : List Frag} {kids0 : Forest} :
    ∀ F : Forest, F.NE → F.find b = some (fs0, kids0) → (∀ f ∈ fs0, f.1 ≠ "") ∧ kids0.NE := by
  intro F
  induction F with
  | nil => intro _ h; simp [Forest.find] at h
  | cons id nm fs kd r ihk ihr =>
    intro h hf
    simp only [Forest.find] at hf
    by_cases e : id = b
    · simp only [e, if_true, Option.some.injEq, Prod.mk.injEq] at hf
      obtain ⟨rfl, rfl⟩ := hf
      exact ⟨h.1, h.2.1⟩
    · simp only [e, if_false] at hf
      cases hk : Forest.find b kd with
      | some p => rw [hk] at hf; simp only [Option.some.injEq] at hf; subst hf; exact ihk h.2.1 hk
      | none => rw [hk] at hf; exact ihr h.2.2 hf

theorem Forest.NE_modify {b : Nat} {g : List Frag → Forest → List Frag × Forest}
    (hg : ∀ fs kids, (∀ f ∈ fs, f.1 ≠ "") → kids.NE →
      (∀ f ∈ (g fs kids).1, f.1 ≠ "") ∧ (g fs kids).2.NE) :
    ∀ F : Forest, F.NE → (F.modify b g).NE := by
  intro F
  induction F with
  | nil => intro _; trivial
  | cons id nm fs kd r ihk ihr =>
    intro h
    by_cases e : id = b
    · simp only [Forest.modify, e, if_true]
      exact ⟨(hg fs kd h.1 h.2.1).1, (hg fs kd h.1 h.2.1).2, h.2.2⟩
    · simp only [Forest.modify, e, if_false]
      exact ⟨h.1, ihk h.2.1, ihr h.2.2⟩

end CyVerif.C49

import CyVerif.Model.C28Rich
/-!
# C28 — structural proof: rich comparison of plain (no total_ordering) hierarchies of any depth
-/
namespace CyVerif.C28

/-- `__ne__` derived from `__eq__`: the call with inverted answers -/
def askInv (d : Nat) (s : Side) : RTree CRes :=
  .ask ⟨d, .cmp .eq, s⟩ (.leaf (.b false)) (.leaf (.b true)) (.leaf .ni)

/-- `tp_richcompare` of a Python class in terms of its method resolution `ρ` -/
def pySpec (ρ : Cmp → Option Nat) (ident : Bool) (side : Side) (op : Cmp) : RTree CRes :=
  match ρ op with
  | some d => askUser d op side
  | none =>
    match op with
    | .eq => .leaf (if ident then .b true else .ni)
    | .ne => (match ρ .eq with
        | some de => askInv de side
        | none => .leaf (if ident then .b false else .ni))
    | _ => .leaf .ni

/-- `tp_richcompare` of a cdef class (`prov`: some class of the hierarchy defines a comparison method,
i.e. a generated function exists) -/
def cySpec (ρ : Cmp → Option Nat) (prov : Bool) (ident : Bool) (side : Side) (op : Cmp) : RTree CRes :=
  match ρ op with
  | some d => askUser d op side
  | none =>
    match op with
    | .eq => .leaf (if prov then .ni else if ident then .b true else .ni)
    | .ne => (match ρ .eq with
        | some de => askInv de side
        | none => .leaf (if prov then .ni else if ident then .b false else .ni))
    | _ => .leaf .ni

theorem cySpec_eq_pySpec (ρ : Cmp → Option Nat) (prov : Bool) (side : Side) (op : Cmp) :
    cySpec ρ prov false side op = pySpec ρ false side op := by
  unfold cySpec pySpec
  cases ρ op <;> cases op <;> cases prov <;> simp <;> cases ρ .eq <;> simp

def NoTO (ch : Chain) : Prop := ∀ c ∈ ch, c.tord = false
def AllCdef (ch : Chain) : Prop := ∀ c ∈ ch, c.kind = .cdef
def AllPy (ch : Chain) : Prop := ∀ c ∈ ch, c.kind = .py

theorem has_of_any_false {c : CC} (h : c.any = false) (m : Cmp) : c.has m = false := by
  simp only [CC.any, Bool.or_eq_false_iff] at h
  cases m <;> simp [CC.has, h]

theorem any_of_has {c : CC} {m : Cmp} (h : c.has m = true) : c.any = true := by
  cases m <;> simp_all [CC.has, CC.any]

theorem cyProviderC_none : ∀ {ch : Chain}, cyProviderC ch = none → ∀ m, resolveC ch m = none
  | [], _, m => rfl
  | c :: rest, h, m => by
    simp only [cyProviderC] at h
    split at h
    · cases h
    · rename_i hc
      have hc' : c.any = false := by simpa using hc
      simp [resolveC, has_of_any_false hc' m, cyProviderC_none h m]

theorem cyProviderC_some : ∀ {ch chp : Chain}, cyProviderC ch = some chp →
    (∀ m, resolveC chp m = resolveC ch m) ∧ (∀ x ∈ chp, x ∈ ch)
  | [], _, h => by simp [cyProviderC] at h
  | c :: rest, chp, h => by
    simp only [cyProviderC] at h
    split at h
    · cases h; exact ⟨fun _ => rfl, fun _ hx => hx⟩
    · rename_i hc
      have hc' : c.any = false := by simpa using hc
      obtain ⟨h1, h2⟩ := cyProviderC_some h
      refine ⟨fun m => ?_, fun x hx => List.mem_cons_of_mem _ (h2 x hx)⟩
      simp [resolveC, has_of_any_false hc' m, h1 m]

theorem genC_noTO (chp : Chain) (h : NoTO chp) (ident : Bool) (side : Side) (op : Cmp) :
    genC chp side op = cySpec (resolveC chp) true ident side op := by
  have ht : headTord chp = false := by
    cases chp with
    | nil => rfl
    | cons c rest => exact h c (List.mem_cons_self)
  unfold genC cySpec
  cases h1 : resolveC chp op with
  | some d => simp
  | none =>
    simp only [ht, Bool.false_and, Bool.false_eq_true, ↓reduceIte]
    cases op <;> simp <;> cases resolveC chp .eq <;> simp [askUser, RTree.bind, askInv]

theorem bind_leaf_ident (ident : Bool) :
    (RTree.leaf (if ident then CRes.b true else CRes.ni)).bind
      (fun r => match r with | .ni => RTree.leaf CRes.ni | .b v => RTree.leaf (CRes.b (!v)))
    = RTree.leaf (if ident then CRes.b false else CRes.ni) := by
  cases ident <;> rfl

/-- `tp_richcompare` of a cdef class of a plain hierarchy -/
theorem callRich_cdef (ch o : Chain) (hk : AllCdef ch) (ht : NoTO ch) (ident : Bool) (side : Side) (op : Cmp) :
    callRich ch o ident side op = cySpec (resolveC ch) (cyProviderC ch).isSome ident side op := by
  have hty : typeRichC ch = (match cyProviderC ch with | none => RichFn.object | some chp => .gen chp) := by
    cases ch with
    | nil => rfl
    | cons c rest =>
      simp only [typeRichC, hk c (List.mem_cons_self)]
      cases cyProviderC (c :: rest) <;> rfl
  cases hp : cyProviderC ch with
  | none =>
    have hn := cyProviderC_none hp
    rw [hp] at hty
    unfold callRich richEN cySpec
    simp only [hty, hn, Option.isSome_none]
    cases op <;> simp [Cmp.isEqNe, objectRich, richEq, hty] <;> cases ident <;> rfl
  | some chp =>
    obtain ⟨h1, h2⟩ := cyProviderC_some hp
    rw [hp] at hty
    have hg := genC_noTO chp (fun c hc => ht c (h2 c hc)) ident side op
    have hfun : resolveC chp = resolveC ch := funext h1
    rw [hfun] at hg
    unfold callRich richEN
    simp only [hty, Option.isSome_some]
    rw [← hg]
    cases op <;> simp [Cmp.isEqNe]

theorem lookupC_py : ∀ (x : Chain), AllPy x → NoTO x → ∀ m, lookupC x m = (resolveC x m).map AttrC.func
  | [], _, _, _ => rfl
  | c :: rest, hk, ht, m => by
    have ih := lookupC_py rest (fun y hy => hk y (List.mem_cons_of_mem _ hy)) (fun y hy => ht y (List.mem_cons_of_mem _ hy)) m
    have hc : c.kind = .py := hk c (List.mem_cons_self)
    have hto : c.tord = false := ht c (List.mem_cons_self)
    simp only [lookupC, hc, hto, resolveC, Bool.false_and, Bool.false_eq_true, ↓reduceIte]
    split <;> simp [ih]

theorem candOf_func (o : Option Nat) : candOf (o.map AttrC.func) = if o.isSome then RichFn.slot else .object := by
  cases o <;> rfl

/-- `tp_richcompare` of a Python class of a plain hierarchy (whatever `update_one_slot` chose) -/
theorem callRich_py (x o : Chain) (hk : AllPy x) (ht : NoTO x) (ident : Bool) (side : Side) (op : Cmp) :
    callRich x o ident side op = pySpec (resolveC x) ident side op := by
  have hl := lookupC_py x hk ht
  have hty : typeRichC x = .slot ∨ (typeRichC x = .object ∧ ∀ m, resolveC x m = none) := by
    cases x with
    | nil => right; exact ⟨rfl, fun _ => rfl⟩
    | cons c rest =>
      have hc : c.kind = .py := hk c (List.mem_cons_self)
      simp only [typeRichC, hc, pyRichFn, hl, candOf_func]
      cases h1 : resolveC (c :: rest) .eq <;> cases h2 : resolveC (c :: rest) .ne <;>
        cases h3 : resolveC (c :: rest) .lt <;> cases h4 : resolveC (c :: rest) .gt <;>
        cases h5 : resolveC (c :: rest) .le <;> cases h6 : resolveC (c :: rest) .ge <;>
        simp [mergeFn] <;> (intro m; cases m <;> assumption)
  rcases hty with hty | ⟨hty, hn⟩
  · unfold callRich richEN pySpec
    simp only [hty, hl]
    cases h1 : resolveC x op with
    | some d => cases op <;> simp [Cmp.isEqNe]
    | none =>
      cases op <;> simp [Cmp.isEqNe, objectRich, richEq, hty, hl] <;>
        cases h2 : resolveC x .eq <;> simp [askUser, RTree.bind, askInv] <;> cases ident <;> rfl
  · unfold callRich richEN pySpec
    simp only [hty, hn]
    cases op <;> simp [Cmp.isEqNe, objectRich, richEq, hty] <;> cases ident <;> rfl

theorem pyCC_kind_of_cdef {c : CC} (h : c.kind = .cdef) : (pyCC c).kind = .py := by simp [pyCC, h]

theorem pyChain_allPy : ∀ (ch : Chain), AllCdef ch → AllPy (pyChain ch)
  | [], _ => fun _ h => by cases h
  | c :: rest, hk => by
    intro x hx
    simp only [pyChain, List.mem_cons] at hx
    rcases hx with hx | hx
    · rw [hx]; exact pyCC_kind_of_cdef (hk c (List.mem_cons_self))
    · exact pyChain_allPy rest (fun y hy => hk y (List.mem_cons_of_mem _ hy)) x hx

theorem pyChain_noTO : ∀ (ch : Chain), NoTO ch → NoTO (pyChain ch)
  | [], _ => fun _ h => by cases h
  | c :: rest, ht => by
    intro x hx
    simp only [pyChain, List.mem_cons] at hx
    rcases hx with hx | hx
    · rw [hx]; exact ht c (List.mem_cons_self)
    · exact pyChain_noTO rest (fun y hy => ht y (List.mem_cons_of_mem _ hy)) x hx

theorem resolveC_pyChain : ∀ (ch : Chain) (m : Cmp), resolveC (pyChain ch) m = resolveC ch m
  | [], _ => rfl
  | c :: rest, m => by
    have hh : (pyCC c).has m = c.has m := by cases m <;> rfl
    simp only [pyChain, resolveC, hh, resolveC_pyChain rest m]
    rfl

theorem sameChain_py (a b : Chain) : sameChain (pyChain a) (pyChain b) = sameChain a b := by
  cases a <;> cases b <;> rfl

theorem any_py : ∀ (w : Chain) (i : Nat), (pyChain w).any (fun c => Nat.beq c.id i) = w.any (fun c => Nat.beq c.id i)
  | [], _ => rfl
  | c :: rest, i => by
    simp only [pyChain, List.any_cons, any_py rest i]
    rfl

theorem isSubC_py (w v : Chain) : isSubC (pyChain w) (pyChain v) = isSubC w v := by
  cases v with
  | nil => rfl
  | cons s rest => simp only [pyChain, isSubC]; exact any_py w s.id

theorem pyChain_id : ∀ (x : Chain), (∀ c ∈ x, c.kind ≠ .cdef) → pyChain x = x
  | [], _ => rfl
  | c :: rest, h => by
    have hc : pyCC c = c := by
      have := h c (List.mem_cons_self)
      cases c with | mk id kind eq ne lt gt le ge tord => cases kind <;> simp_all [pyCC]
    simp only [pyChain, hc, pyChain_id rest (fun y hy => h y (List.mem_cons_of_mem _ hy))]

/-- hierarchies without `total_ordering`: cdef classes only, Python classes only, or `int` -/
inductive PlainChain : Chain → Prop
  | cdef (ch : Chain) : AllCdef ch → NoTO ch → PlainChain ch
  | py (ch : Chain) : AllPy ch → NoTO ch → PlainChain ch
  | int (c : CC) : c.kind = .int → PlainChain [c]

theorem callRich_int (c : CC) (h : c.kind = .int) (o : Chain) (ident : Bool) (side : Side) (op : Cmp) :
    callRich [c] o ident side op = .leaf .ni := by
  unfold callRich richEN
  simp only [typeRichC, h]
  cases op <;> simp [Cmp.isEqNe]

/-- the slot functions agree for distinct operand objects -/
theorem slot_agree (x : Chain) (hx : PlainChain x) (o o' : Chain) (side : Side) (op : Cmp) :
    callRich x o false side op = callRich (pyChain x) o' false side op := by
  cases hx with
  | cdef _ hk ht =>
    rw [callRich_cdef x o hk ht, callRich_py (pyChain x) o' (pyChain_allPy x hk) (pyChain_noTO x ht),
      cySpec_eq_pySpec, funext (resolveC_pyChain x)]
  | py _ hk ht =>
    rw [pyChain_id x (fun c hc => by rw [hk c hc]; decide), callRich_py x o hk ht, callRich_py x o' hk ht]
  | int c h =>
    rw [pyChain_id [c] (fun d hd => by simp only [List.mem_singleton] at hd; rw [hd, h]; decide),
      callRich_int c h, callRich_int c h]

/-- Distinct operand objects of plain hierarchies of ANY depth (cdef chain, Python chain or int on each
side; same type, subclass either way, or unrelated): all six comparisons dispatch like the Python classes. -/
theorem richcmp_plain (l r : Chain) (op : Cmp) (hl : PlainChain l) (hr : PlainChain r) :
    doRich l r false op = doRich (pyChain l) (pyChain r) false op := by
  unfold doRich doRichG
  rw [sameChain_py, isSubC_py, slot_agree l hl r (pyChain r) .L op, slot_agree r hr l (pyChain l) .R op.swap]

theorem sameChain_self (ch : Chain) : sameChain ch ch = true := by
  cases ch <;> simp [sameChain]

/-- comparing an object with itself: the generated function answers NotImplemented where
`object_richcompare` answers by identity, but `do_richcompare`'s identity fallback gives the same result -/
theorem ident_core (ρ : Cmp → Option Nat) (p : Bool) (hp : p = false → ∀ m, ρ m = none) (a b : Chain)
    (ha : sameChain a a = true) (hb : sameChain b b = true) (op : Cmp) :
    doRichG a a true op (cySpec ρ p true .L op) (cySpec ρ p true .R op.swap)
    = doRichG b b true op (pySpec ρ true .L op) (pySpec ρ true .R op.swap) := by
  unfold doRichG
  simp only [ha, hb, Bool.not_true, Bool.false_and, Bool.false_eq_true, ↓reduceIte]
  cases p with
  | false =>
    have hn := hp rfl
    cases op <;> simp [cySpec, pySpec, hn, Cmp.swap, RTree.bind]
  | true =>
    cases op <;> simp only [cySpec, pySpec, Cmp.swap] <;>
      cases ρ .eq <;> cases ρ .ne <;> cases ρ .lt <;> cases ρ .gt <;> cases ρ .le <;> cases ρ .ge <;>
      simp [RTree.bind, askUser, askInv]

/-- An object compared with itself (plain hierarchy of any depth). -/
theorem richcmp_plain_ident (ch : Chain) (op : Cmp) (h : PlainChain ch) :
    doRich ch ch true op = doRich (pyChain ch) (pyChain ch) true op := by
  cases h with
  | cdef _ hk ht =>
    unfold doRich
    rw [callRich_cdef ch ch hk ht, callRich_cdef ch ch hk ht,
      callRich_py (pyChain ch) (pyChain ch) (pyChain_allPy ch hk) (pyChain_noTO ch ht),
      callRich_py (pyChain ch) (pyChain ch) (pyChain_allPy ch hk) (pyChain_noTO ch ht),
      funext (resolveC_pyChain ch)]
    apply ident_core _ _ _ _ _ (sameChain_self ch) (sameChain_self _)
    intro hp m
    have : cyProviderC ch = none := by
      cases hq : cyProviderC ch with
      | none => rfl
      | some x => rw [hq] at hp; simp at hp
    exact cyProviderC_none this m
  | py _ hk _ => rw [pyChain_id ch (fun c hc => by rw [hk c hc]; decide)]
  | int c h => rw [pyChain_id [c] (fun d hd => by simp only [List.mem_singleton] at hd; rw [hd, h]; decide)]

end CyVerif.C28

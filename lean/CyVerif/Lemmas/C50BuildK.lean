import CyVerif.Lemmas.C50BuildJ
import CyVerif.Lemmas.C50ScanE
/-! RE → NFA, part K: the lexicon machine — finals, priorities, languages; valid symbols of a text. -/
namespace CyVerif.C50

theorem lexiconNfa_cert (rules : List Rule) (hok : RulesOK rules) (hsmall : (rules.length : Int) + 1 < maxint) :
    ∃ Fs, Nonempty (LexCert (lexiconNfa rules) Fs) ∧ LexActs (lexiconNfa rules) Fs ∧
      Fs.map (·.2) = rules.map (fun r => r.re.Sem true false) := by
  have la0 : LexActs (NFA.empty.newInitialState "").1 [] := by
    refine ⟨fun k h => by simp at h, fun s _ => ?_, fun j k hj => by simp at hj, rfl⟩
    have : ((NFA.empty.newInitialState "").1).node s = Node.new := by
      show (NFA.empty.newState.1).node s = Node.new
      rw [newState_node, nfaEmpty_node]
    rw [this]; exact ⟨rfl, rfl⟩
  obtain ⟨Fs', h1, h2, h3⟩ := addRules_cert rules _ [] none hok lexCertInit la0 (by simpa using hsmall)
  have e : lexiconNfa rules = addRules rules (NFA.empty.newInitialState "").1 0 none (([] : List (Nat × (List CurChar → Prop))).length + 1) := rfl
  rw [e]
  exact ⟨Fs', by simpa using h1, by simpa using h2, h3⟩

theorem mem_evGo {t : List Nat} {x : CurChar} (h : x ∈ evGo t) :
    x = .bol ∨ x = .eol ∨ x = .eof ∨ ∃ ch ∈ t, x = .chr ch := by
  induction t with
  | nil => simp [evGo] at h; rcases h with h | h <;> simp [h]
  | cons c r ih =>
    simp only [evGo] at h
    split at h
    · rename_i hc
      simp only [List.mem_cons] at h
      rcases h with h | h | h | h
      · simp [h]
      · exact .inr (.inr (.inr ⟨c, by simp, by rw [h, hc]⟩))
      · simp [h]
      · rcases ih h with e | e | e | ⟨ch, hch, e⟩
        · exact .inl e
        · exact .inr (.inl e)
        · exact .inr (.inr (.inl e))
        · exact .inr (.inr (.inr ⟨ch, by simp [hch], e⟩))
    · simp only [List.mem_cons] at h
      rcases h with h | h
      · exact .inr (.inr (.inr ⟨c, by simp, h⟩))
      · rcases ih h with e | e | e | ⟨ch, hch, e⟩
        · exact .inl e
        · exact .inr (.inl e)
        · exact .inr (.inr (.inl e))
        · exact .inr (.inr (.inr ⟨ch, by simp [hch], e⟩))

/-- every symbol the scanner presents is valid when the character codes are below the sentinel -/
theorem evStream_valid (text : List Nat) (ht : ∀ ch ∈ text, (ch : Int) < maxint) (c : Cursor) (hc : CursorOK text c) :
    ∀ x ∈ evStream text c, ValidSym x := by
  rw [evStream_streamOf text _ c rfl hc]
  have key : ∀ p x, x ∈ evGo (text.drop p) → ValidSym x := by
    intro p x hx
    rcases mem_evGo hx with e | e | e | ⟨ch, hch, e⟩
    · rw [e]; trivial
    · rw [e]; trivial
    · rw [e]; trivial
    · rw [e]; exact ht ch (List.mem_of_mem_drop hch)
  intro x hx
  unfold streamOf at hx
  split at hx
  · split at hx
    · rcases List.mem_cons.1 hx with e | e
      · rw [e]; trivial
      · exact key _ x e
    · exact key _ x hx
  · split at hx
    · exact key _ x hx
    · split at hx
      · simp only [List.mem_cons] at hx
        rcases hx with e | e | e
        · rw [e]; show ((10 : Nat) : Int) < maxint; unfold maxint; omega
        · rw [e]; trivial
        · exact key _ x e
      · split at hx
        · simp only [List.mem_cons, List.not_mem_nil, or_false] at hx
          rcases hx with e | e <;> (rw [e]; trivial)
        · split at hx
          · simp only [List.mem_singleton] at hx; rw [hx]; trivial
          · cases hx

end CyVerif.C50

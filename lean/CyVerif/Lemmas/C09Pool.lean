import CyVerif.Model.C09Pool
/-! C09 part B: helper lemmas for the soundness of the dedup key. -/
namespace CyVerif.C09

/-! ### hypotheses of the partial theorem -/

def Atom.noZeroFloat : Atom → Bool
  | .float b => !fIsZero b
  | _ => true

mutual
/-- no float constant `0.0` / `-0.0` below this node -/
def Node.noZeroFloat : Node → Bool
  | .leaf _ a => a.noZeroFloat
  | .opq => true
  | .seq _ _ args => Node.noZeroFloats args
  | .slice a b c => a.noZeroFloat && b.noZeroFloat && c.noZeroFloat
termination_by structural n => n
def Node.noZeroFloats : List Node → Bool
  | [] => true
  | n :: ns => n.noZeroFloat && Node.noZeroFloats ns
termination_by structural ns => ns
end

def Const.noZeroFloat : Const → Bool
  | .tuple n => n.noZeroFloat
  | .slice n => n.noZeroFloat
  | .fset args => Node.noZeroFloats args

/-- the items of a frozenset constant are pairwise `!=` (so the set keeps all of them) -/
def Const.itemsDistinct : Const → Bool
  | .fset args => match evalNodes args with
    | some xs => distinctAux [] xs
    | none => true
  | _ => true

/-! ### list views of the mutual helper functions -/

theorem keyAny_iff (xs : List Key) (y : Key) : keyAny xs y = true ↔ ∃ x ∈ xs, keyEq x y = true := by
  induction xs with
  | nil => simp [keyAny]
  | cons x xs ih => simp [keyAny, ih]

theorem keySub_iff (xs ys : List Key) :
    keySub xs ys = true ↔ ∀ x ∈ xs, ∃ y ∈ ys, keyEq x y = true := by
  induction xs with
  | nil => simp [keySub]
  | cons x xs ih => simp [keySub, ih]

theorem sameAny_iff (xs : List Val) (y : Val) : sameAny xs y = true ↔ ∃ x ∈ xs, same x y = true := by
  induction xs with
  | nil => simp [sameAny]
  | cons x xs ih => simp [sameAny, ih]

theorem sameSub_iff (xs ys : List Val) :
    sameSub xs ys = true ↔ ∀ x ∈ xs, ∃ y ∈ ys, same x y = true := by
  induction xs with
  | nil => simp [sameSub]
  | cons x xs ih => simp [sameSub, ih]

theorem sameL_append : ∀ (a b c d : List Val), sameL a b = true → sameL c d = true →
    sameL (a ++ c) (b ++ d) = true := by
  intro a
  induction a with
  | nil => intro b c d h1 h2; cases b with
    | nil => simpa using h2
    | cons y ys => simp [sameL] at h1
  | cons x xs ih => intro b c d h1 h2; cases b with
    | nil => simp [sameL] at h1
    | cons y ys =>
      simp only [sameL, Bool.and_eq_true] at h1
      simp only [List.cons_append, sameL, Bool.and_eq_true]
      exact ⟨h1.1, ih ys c d h1.2 h2⟩

theorem sameL_repeat (a b : List Val) (h : sameL a b = true) : ∀ n, sameL (repeatList a n) (repeatList b n) = true := by
  intro n
  induction n with
  | zero => simp [repeatList, sameL]
  | succ n ih => simp only [repeatList]; exact sameL_append _ _ _ _ h ih

/-! ### leaves -/

theorem floatRep_eq {a b : Nat} (ha : fIsNaN a = false) (hb : fIsNaN b = false)
    (h : floatRep (.float a) = floatRep (.float b)) : a = b := by
  simpa [floatRep, ha, hb] using h

/-- equal leaf keys ⇒ indistinguishable leaf constants (with a sign-aware key, or without zero floats) -/
theorem leaf_sound (v : Variant) (t1 t2 : LTag) (a1 a2 : Atom)
    (hw1 : tagOK t1 a1 = true) (hw2 : tagOK t2 a2 = true)
    (hz1 : v.floatSign = true ∨ a1.noZeroFloat = true)
    (h : keyEq (leafKey v t1 a1) (leafKey v t2 a2) = true) : sameAtom a1 a2 = true := by
  simp only [leafKey, keyEq, Bool.and_eq_true, beq_iff_eq] at h
  obtain ⟨⟨⟨ht, heq⟩, hpt⟩, hrep⟩ := h
  subst ht
  have hkind : a1.kind = a2.kind := by
    by_cases hobj : t1 = .obj
    · simpa [hobj] using hpt
    · simp only [tagOK, Bool.or_eq_true, beq_iff_eq, hobj, false_or] at hw1 hw2
      rw [hw1] at hw2; exact Option.some.inj hw2
  cases a1 <;> cases a2 <;> simp [Atom.kind] at hkind <;> simp [pyEqAtom] at heq <;>
    try (simp [sameAtom, heq]; done)
  -- float / float
  rename_i a b
  simp only [floatEq, Bool.and_eq_true, Bool.not_eq_true', Bool.or_eq_true, beq_iff_eq] at heq
  obtain ⟨⟨hna, hnb⟩, hzb⟩ := heq
  have : a = b := by
    rcases hz1 with hfs | hnz
    · simp only [hfs, if_true] at hrep
      exact floatRep_eq hna hnb hrep
    · rcases hzb with hz | hab
      · simp [Atom.noZeroFloat, hz.1] at hnz
      · exact hab
  subst this
  simp [sameAtom]

end CyVerif.C09

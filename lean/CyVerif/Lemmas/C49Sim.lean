import CyVerif.Lemmas.C49Modify3
/-!
The simulation relation between the heap model and the flat-document
specification, and a generic lemma that rebuilds it after a change at one node.
-/
namespace CyVerif.C49
open Forest

/-- `Sim σ sp F`: the ghost forest `F` is stored in the heap of `σ`, flattens
to the document of `sp`, and the buffer handles of `σ` are the named nodes. -/
structure Sim (σ : St) (sp : Spec) (F : Forest) : Prop where
  cons : Cons σ.heap F
  doc : F.doc = sp.doc
  ids : F.ids.Nodup
  names : F.names.Nodup
  ne : F.NE
  n : sp.n = σ.handles.length
  h2t : ∀ k b, σ.handles[k]? = some b → (b, some k) ∈ F.tags
  t2h : ∀ k b, (b, some k) ∈ F.tags → σ.handles[k]? = some b
  roots : F.rootNames = sp.roots

theorem Sim.init : Sim St.init Spec.init Forest.nil :=
  { cons := trivial, doc := rfl, ids := List.nodup_nil, names := List.nodup_nil, ne := trivial,
    n := rfl, h2t := by intro k b h; simp [St.init] at h, t2h := by intro k b h; simp [Forest.tags] at h,
    roots := rfl }

/-- Rebuild `Sim` after a change at the node of handle `k` that appends the
items `x` to its content and the nodes `new` to its children. -/
theorem Sim_modify {H H' : Heap} {hs' : List Nat} {F : Forest} {b k : Nat}
    {g : List Frag → Forest → List Frag × Forest} {fs0 : List Frag} {kids0 : Forest}
    {x : Doc} {new : List (Nat × Option Nat)} {n' : Nat} {roots : List Nat}
    (hc : Cons H F) (hids : F.ids.Nodup) (hnames : F.names.Nodup) (hne : F.NE)
    (hroots : F.rootNames = roots)
    (hfind : F.find b = some (fs0, kids0)) (htag : (b, some k) ∈ F.tags)
    (hdoc : (g fs0 kids0).2.doc ++ fragItems (g fs0 kids0).1 = kids0.doc ++ fragItems fs0 ++ x)
    (htags : (g fs0 kids0).2.tags = kids0.tags ++ new)
    (hgne : ∀ fs kids, (∀ f ∈ fs, f.1 ≠ "") → kids.NE →
      (∀ f ∈ (g fs kids).1, f.1 ≠ "") ∧ (g fs kids).2.NE)
    (hfr : ∀ i, i ≠ b → ∀ n, H[i]? = some n → H'[i]? = some n)
    (hnode : ∃ nd, H'[b]? = some nd ∧ nd.children = (g fs0 kids0).2.rootIds ∧
        nd.stream = textD (fragItems (g fs0 kids0).1) ∧ nd.markers = marksD (fragItems (g fs0 kids0).1))
    (hkids : Cons H' (g fs0 kids0).2)
    (hidsnew : ((F.tags ++ new).map (·.1)).Nodup)
    (hnamesnew : ((F.tags ++ new).filterMap (·.2)).Nodup)
    (hn' : n' = hs'.length)
    (h2t' : ∀ k b, hs'[k]? = some b → (b, some k) ∈ F.tags ++ new)
    (t2h' : ∀ k b, (b, some k) ∈ F.tags ++ new → hs'[k]? = some b) :
    Sim ⟨H', hs'⟩ ⟨insBefore (Item.cl k) x F.doc, n', roots⟩ (F.modify b g) := by
  have hperm := Forest.tags_modify (g := g) htags F hfind hids
  exact
    { cons := Cons_modify hfr hnode hkids F hc hfind hids
      doc := Forest.doc_modify hdoc F hfind htag hids hnames
      ids := by
        show ((F.modify b g).tags.map (·.1)).Nodup
        exact ((hperm.map (·.1)).nodup_iff).2 hidsnew
      names := by
        show ((F.modify b g).tags.filterMap (·.2)).Nodup
        exact ((hperm.filterMap (·.2)).nodup_iff).2 hnamesnew
      ne := Forest.NE_modify hgne F hne
      n := hn'
      h2t := fun k b h => hperm.mem_iff.2 (h2t' k b h)
      t2h := fun k b h => t2h' k b (hperm.mem_iff.1 h)
      roots := by rw [Forest.rootNames_modify]; exact hroots }

/-- a handle of a `Sim` state designates a node of the forest -/
theorem Sim.find {σ : St} {sp : Spec} {F : Forest} (h : Sim σ sp F) {k b : Nat}
    (hk : σ.handles[k]? = some b) :
    (b, some k) ∈ F.tags ∧ ∃ fs0 kids0, F.find b = some (fs0, kids0) := by
  have ht := h.h2t k b hk
  obtain ⟨p, hp⟩ := Forest.find_of_mem (Forest.mem_ids_of_tag ht)
  exact ⟨ht, p.1, p.2, hp⟩

theorem Sim.handle_of_lt {σ : St} {sp : Spec} {F : Forest} (h : Sim σ sp F) {k : Nat}
    (hk : k < sp.n) : ∃ b, σ.handles[k]? = some b := by
  rw [h.n] at hk
  exact ⟨σ.handles[k], List.getElem?_eq_getElem hk⟩

/-- under `NE`, an empty stream means no fragments -/
theorem frags_nil_of_text {fs : List Frag} (hne : ∀ f ∈ fs, f.1 ≠ "")
    (h : textD (fragItems fs) = "") : fs = [] := by
  cases fs with
  | nil => rfl
  | cons f r =>
    simp only [fragItems, List.map_cons, textD, String.append_eq_empty_iff] at h
    exact absurd h.1 (hne f (by simp))

end CyVerif.C49

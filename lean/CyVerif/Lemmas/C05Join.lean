import CyVerif.Lemmas.C05Arith
/-!
Digit lists: bounds of `natVal`, the digits of an integer, and `pylong_join` computes `natVal`
without overflow / undefined shift whenever the digits fit the join type.
-/
namespace CyVerif.C05

theorem lt_pow_step {a d x y : Nat} (ha : a < 2 ^ x) (hd : d < 2 ^ y) : a * 2 ^ y + d < 2 ^ (x + y) := by
  have h1 : a * 2 ^ y + d < (a + 1) * 2 ^ y := by rw [Nat.add_mul]; omega
  have h2 : (a + 1) * 2 ^ y ≤ 2 ^ x * 2 ^ y := Nat.mul_le_mul_right _ ha
  rw [Nat.pow_add]; omega

theorem natVal_lt (S : Nat) (ds : List Nat) (h : ∀ d ∈ ds, d < 2 ^ S) : natVal S ds < 2 ^ (ds.length * S) := by
  induction ds with
  | nil => simp [natVal]
  | cons d ds ih =>
    have hd : d < 2 ^ S := h d (by simp)
    have := ih (fun x hx => h x (by simp [hx]))
    have h3 := lt_pow_step this hd
    simp only [natVal, List.length_cons]
    have e : (ds.length + 1) * S = ds.length * S + S := by rw [Nat.add_mul]; omega
    rw [e, Nat.mul_comm (2 ^ S)]; omega

theorem natVal_ge (S : Nat) (ds : List Nat) (hne : ds ≠ []) (hl : ds.getLast? ≠ some 0) :
    2 ^ ((ds.length - 1) * S) ≤ natVal S ds := by
  induction ds with
  | nil => exact absurd rfl hne
  | cons d ds ih =>
    cases ds with
    | nil =>
      simp only [List.getLast?_singleton, ne_eq, Option.some.injEq] at hl
      simp [natVal]; omega
    | cons d' ds' =>
      have hl' : (d' :: ds').getLast? ≠ some 0 := by simpa [List.getLast?_cons_cons] using hl
      have := ih (by simp) hl'
      simp only [List.length_cons, Nat.add_sub_cancel] at this ⊢
      have e : (ds'.length + 1) * S = S + ds'.length * S := by rw [Nat.add_mul]; omega
      rw [e, Nat.pow_add]
      show _ ≤ d + 2 ^ S * natVal S (d' :: ds')
      have := Nat.mul_le_mul_left (2 ^ S) this
      omega

/-- Horner step of `pylong_join` -/
def hstep (S : Nat) (a d : Nat) : Nat := a * 2 ^ S + d

theorem natVal_eq_foldl (S : Nat) (ds : List Nat) : natVal S ds = ds.reverse.foldl (hstep S) 0 := by
  induction ds with
  | nil => rfl
  | cons d ds ih =>
    simp only [natVal, List.reverse_cons, List.foldl_append, List.foldl_cons, List.foldl_nil]
    rw [ih]; simp only [hstep]; rw [Nat.mul_comm]; omega

/-- "capacity" of a type for non-negative values: number of value bits -/
def CTy.cap (t : CTy) : Nat := if t.signed then t.bits - 1 else t.bits

theorem inRange_of_lt_cap {t : CTy} {x : Int} (h0 : 0 ≤ x) (h : x < two t.cap) : t.inRange x := by
  have hp := two_pos (t.bits - 1)
  unfold CTy.cap at h
  cases hs : t.signed with
  | true => simp only [hs, if_true] at h; rw [inRange_signed hs]; omega
  | false => simp only [hs, Bool.false_eq_true, if_false] at h; rw [inRange_unsigned hs]; omega

theorem cap_le_bits (t : CTy) : t.cap ≤ t.bits := by unfold CTy.cap; split <;> omega

theorem natCast_lt_two {a k : Nat} (h : a < 2 ^ k) : (a : Int) < two k := by
  unfold two; exact Int.ofNat_lt.mpr h

theorem shl_ok {t : CTy} {a : Nat} {k s : Nat} (ha : a < 2 ^ k) (hk : k + s ≤ t.cap) (hs : s < t.bits) :
    shl t (a : Int) s = .ok ((a * 2 ^ s : Nat) : Int) := by
  have hlt : a * 2 ^ s < 2 ^ (k + s) := by
    have := lt_pow_step (d := 0) ha (Nat.two_pow_pos s); omega
  have hlt' : ((a * 2 ^ s : Nat) : Int) < two t.cap :=
    Int.lt_of_lt_of_le (natCast_lt_two hlt) (two_le_two hk)
  have e : (a : Int) * two s = ((a * 2 ^ s : Nat) : Int) := by unfold two; push_cast; rfl
  unfold shl
  rw [if_neg (by omega)]
  unfold CTy.cap at hlt'
  cases hsg : t.signed with
  | true =>
    simp only [hsg, if_true] at hlt' ⊢
    rw [if_neg (by omega), e, if_pos hlt']
  | false =>
    simp only [hsg, Bool.false_eq_true, if_false] at hlt' ⊢
    rw [e, Int.emod_eq_of_lt (by omega) hlt']

theorem bor_ok {a d S : Nat} (hd : d < 2 ^ S) :
    bor ((a * 2 ^ S : Nat) : Int) (d : Int) = .ok ((hstep S a d : Nat) : Int) := by
  unfold bor
  rw [if_pos ⟨by omega, by omega⟩]
  simp only [Int.toNat_natCast, hstep]
  rw [Nat.mul_comm a, ← Nat.two_pow_add_eq_or_of_lt hd a]

theorem joinGo_spec (ta tc : CTy) (S : Nat) (hS : 0 < S) (ds : List Nat) :
    ∀ (a k : Nat), 0 < k → a < 2 ^ (k * S) → (k + ds.length) * S ≤ ta.cap →
      (∀ d ∈ ds, d < 2 ^ S) → (∀ d ∈ ds, cast tc (d : Int) = (d : Int)) →
      joinGo ta tc S (a : Int) ds = .ok ((ds.foldl (hstep S) a : Nat) : Int) := by
  induction ds with
  | nil => intro a k _ _ _ _ _; rfl
  | cons d ds ih =>
    intro a k hk ha hcap hd hc
    have hd0 : d < 2 ^ S := hd d (by simp)
    have hlen : (k + (ds.length + 1)) * S = k * S + S + ds.length * S := by
      simp only [Nat.add_mul]; omega
    simp only [List.length_cons] at hcap
    have hkS : S ≤ k * S := Nat.le_mul_of_pos_left S hk
    have h1 : shl ta (a : Int) S = .ok ((a * 2 ^ S : Nat) : Int) :=
      shl_ok ha (by omega) (by have := cap_le_bits ta; omega)
    have h2 := bor_ok (a := a) hd0
    simp only [joinGo, h1, hc d (by simp), h2, bind, Except.bind, List.foldl_cons]
    refine ih (hstep S a d) (k + 1) (by omega) ?_ (by rw [hlen] at hcap; simp only [Nat.add_mul]; omega)
      (fun x hx => hd x (by simp [hx])) (fun x hx => hc x (by simp [hx]))
    have := lt_pow_step ha hd0
    simp only [hstep, Nat.add_mul]; simpa using this

theorem promote_of_ge {P : Plat} {t : CTy} (h : P.intBytes ≤ t.bytes) : P.promote t = t := by
  unfold Plat.promote; rw [if_neg (by omega)]

/-- `pylong_join(n, digits, T)` is the value of the digits when they fit `T`'s value bits. -/
theorem pylongJoin_spec (P : Plat) (t : CTy) (ds : List Nat) (hS : 0 < P.shift) (hne : ds ≠ [])
    (hd : ∀ d ∈ ds, d < 2 ^ P.shift) (hcap : ds.length * P.shift ≤ t.cap) (hpr : P.intBytes ≤ t.bytes)
    (hb : 0 < t.bytes) :
    pylongJoin P t ds = .ok ((natVal P.shift ds : Nat) : Int) := by
  have hcast : ∀ d ∈ ds, cast t (d : Int) = (d : Int) := by
    intro d hmem
    apply cast_of_inRange hb
    apply inRange_of_lt_cap (by omega)
    have h1 : (d : Int) < two P.shift := natCast_lt_two (hd d hmem)
    have h2 : P.shift ≤ ds.length * P.shift := by
      have : 0 < ds.length := List.length_pos_iff.mpr hne
      exact Nat.le_mul_of_pos_left _ this
    exact Int.lt_of_lt_of_le h1 (two_le_two (by omega))
  unfold pylongJoin
  rw [promote_of_ge hpr, natVal_eq_foldl]
  have hrev : ds.reverse ≠ [] := by simpa using hne
  match hr : ds.reverse, hrev with
  | d :: rest, _ =>
    have hmem : ∀ x ∈ d :: rest, x ∈ ds := by
      intro x hx; rw [← hr] at hx; exact List.mem_reverse.mp hx
    have hlen : ds.length = rest.length + 1 := by
      have := congrArg List.length hr; simpa using this
    simp only
    rw [hcast d (hmem d (by simp))]
    have := joinGo_spec t t P.shift hS rest d 1 (by omega) (by simpa using hd d (hmem d (by simp)))
      (by rw [hlen] at hcap; rw [Nat.add_comm]; exact hcap)
      (fun x hx => hd x (hmem x (by simp [hx]))) (fun x hx => hcast x (hmem x (by simp [hx])))
    rw [this]
    simp [List.foldl_cons, hstep]

/-! ### digits of an integer -/

theorem natDigits_spec (S : Nat) (hS : 0 < S) : ∀ (fuel n : Nat), n ≤ fuel →
    natVal S (natDigits S fuel n) = n ∧ (∀ d ∈ natDigits S fuel n, d < 2 ^ S) ∧
    (natDigits S fuel n).getLast? ≠ some 0 ∧ (n ≠ 0 → natDigits S fuel n ≠ []) := by
  intro fuel
  induction fuel with
  | zero => intro n hn; have : n = 0 := by omega
            subst this; simp [natDigits, natVal]
  | succ fuel ih =>
    intro n hn
    by_cases h0 : n = 0
    · subst h0; simp [natDigits, natVal]
    · have hpos : 1 < 2 ^ S := Nat.one_lt_two_pow (by omega)
      have hdiv : n / 2 ^ S < n := Nat.div_lt_self (by omega) hpos
      obtain ⟨h1, h2, h3, h4⟩ := ih (n / 2 ^ S) (by omega)
      simp only [natDigits, if_neg h0]
      refine ⟨?_, ?_, ?_, by simp⟩
      · simp only [natVal, h1]; exact Nat.mod_add_div n (2 ^ S)
      · intro d hd
        rcases List.mem_cons.mp hd with rfl | hd
        · exact Nat.mod_lt _ (by omega)
        · exact h2 d hd
      · by_cases hq : n / 2 ^ S = 0
        · have : natDigits S fuel (n / 2 ^ S) = [] := by
            rw [hq]; cases fuel <;> simp [natDigits]
          rw [this]; simp only [List.getLast?_singleton, ne_eq, Option.some.injEq]
          have : n < 2 ^ S := by
            rcases Nat.lt_or_ge n (2 ^ S) with h | h
            · exact h
            · have := Nat.div_pos h (by omega); omega
          rw [Nat.mod_eq_of_lt this]; exact h0
        · have hne := h4 hq
          match hq' : natDigits S fuel (n / 2 ^ S), hne with
          | x :: xs, _ =>
            rw [List.getLast?_cons_cons]; rw [hq'] at h3; exact h3

theorem ofInt_wf (S : Nat) (hS : 0 < S) (x : Int) : (PyLong.ofInt S x).WF S := by
  obtain ⟨_, h2, h3, h4⟩ := natDigits_spec S hS x.natAbs x.natAbs (Nat.le_refl _)
  refine ⟨h2, h3, ?_⟩
  intro hneg
  simp only [PyLong.ofInt, decide_eq_true_eq] at hneg
  exact h4 (by omega)

theorem ofInt_value (S : Nat) (hS : 0 < S) (x : Int) : (PyLong.ofInt S x).value S = x := by
  obtain ⟨h1, _, _, _⟩ := natDigits_spec S hS x.natAbs x.natAbs (Nat.le_refl _)
  unfold PyLong.value PyLong.ofInt
  simp only [h1]
  by_cases hx : x < 0
  · simp only [hx, decide_true, if_true]; omega
  · simp only [hx, decide_false, Bool.false_eq_true, if_false]; omega

end CyVerif.C05

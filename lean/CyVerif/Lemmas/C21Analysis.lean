import CyVerif.Lemmas.C21Solve
/-! The flag rules of the analysis model satisfy the checker's flag obligations, and the whole
analysis model produces artefacts that `validate` accepts. -/
namespace CyVerif.C21

theorem flagsOk_of_pre {g : Graph} {fl : Flags} (evs : List Ev) (s : List Nat)
    (h : ∀ p ∈ preStates g s evs, evOk g fl p.1 p.2 = true) : flagsOk g fl s evs = true := by
  induction evs generalizing s with
  | nil => rfl
  | cons e es ih =>
    simp only [flagsOk, Bool.and_eq_true]
    refine ⟨h (s, e) (by simp [preStates]), ih _ (fun p hp => h p ?_)⟩
    simp only [preStates, List.mem_cons]
    exact Or.inr hp

theorem preStates_snd_mem {g : Graph} {evs : List Ev} {s : List Nat} {p : List Nat × Ev}
    (h : p ∈ preStates g s evs) : p.2 ∈ evs := by
  induction evs generalizing s with
  | nil => simp [preStates] at h
  | cons e es ih =>
    simp only [preStates, List.mem_cons] at h
    rcases h with rfl | h
    · exact List.mem_cons_self
    · exact List.mem_cons_of_mem _ (ih h)

theorem flagsOf_get {g : Graph} {sol : Sol} {nn n : Nat} (h : n < nn) :
    (flagsOf g sol nn).maybe n = (flagOf g sol n).1 ∧ (flagsOf g sol nn).isNull n = (flagOf g sol n).2 := by
  simp only [Flags.maybe, Flags.isNull, flagsOf]
  rw [List.getD_eq_getElem?_getD, List.getElem?_map, List.getElem?_range h]
  simp

theorem evOk_flagsOf {g : Graph} {sol : Sol} {nn b : Nat} (hb : b < g.blocks.length) (hne : b ≠ g.entry)
    {p : List Nat × Ev} (hp : p ∈ preStates g (sol.i b) (g.ev b)) (hn : p.2.node < nn) :
    evOk g (flagsOf g sol nn) p.1 p.2 = true := by
  have hall : p ∈ allPre g sol := by
    simp only [allPre, List.mem_flatMap, List.mem_range]
    exact ⟨b, hb, by simp [hne, hp]⟩
  have hmine : p ∈ (allPre g sol).filter (fun q => q.2.node == p.2.node) := by
    simp [List.mem_filter, hall]
  obtain ⟨hm, hi⟩ := flagsOf_get (g := g) (sol := sol) hn
  simp only [evOk, hm, hi, flagOf, Bool.and_eq_true, Bool.or_eq_true, Bool.not_eq_true']
  constructor
  · by_cases hc : p.1.contains (g.ub p.2.var) = true
    · right
      exact List.any_eq_true.mpr ⟨p, hmine, hc⟩
    · left; simpa using hc
  · by_cases hnull : ((List.filter (fun q => q.2.node == p.2.node) (allPre g sol)).any
        (fun q => q.1.contains (g.ub q.2.var)) &&
        (List.filter (fun q => q.2.node == p.2.node) (allPre g sol)).all fun q =>
          !g.isClo q.2.var && q.1.all fun x => !(g.mask q.2.var).contains x || x == g.ub q.2.var) = true
    · right
      simp only [Bool.and_eq_true, List.all_eq_true] at hnull
      have := hnull.2 p hmine
      simpa [Bool.and_eq_true] using this
    · left; simpa using hnull

end CyVerif.C21

import CyVerif.Lemmas.C15Index
/-! # C15 — SetItemInt / DelItemInt helpers against `pySet` / `pyDel`; the subclass double wrap -/
namespace CyVerif.C15

variable {α : Type}

theorem writeArr_eq_pySet {l : List α} {k : Int} (v : α) (h0 : 0 ≤ k) (h1 : k < l.length) :
    writeArr l k v = pySet l k v := by
  simp [writeArr, pySet, pyNorm_nonneg h0 h1, h0, h1]

theorem writeArr_wrap_eq_pySet {l : List α} {i : Int} (v : α) (hneg : i < 0) (h0 : 0 ≤ i + l.length) :
    writeArr l (i + l.length) v = pySet l i v := by
  have : i + (l.length : Int) < l.length := by omega
  simp [writeArr, pySet, pyNorm_neg hneg h0, h0, this]

theorem pySet_oob_nonneg {l : List α} {i : Int} (v : α) (h : (l.length : Int) ≤ i) :
    pySet l i v = .err "IndexError" := by simp [pySet, pyNorm_oob_nonneg h]

theorem pySet_oob_neg {l : List α} {i : Int} (v : α) (h : i + l.length < 0) :
    pySet l i v = .err "IndexError" := by simp [pySet, pyNorm_oob_neg h]

theorem pyDel_oob_nonneg {l : List α} {i : Int} (h : (l.length : Int) ≤ i) :
    pyDel l i = .err "IndexError" := by simp [pyDel, pyNorm_oob_nonneg h]

theorem pyDel_oob_neg {l : List α} {i : Int} (h : i + l.length < 0) :
    pyDel l i = .err "IndexError" := by simp [pyDel, pyNorm_oob_neg h]

/-- `__Pyx_SetItemInt_ByteArray_Fast` with boundscheck on -/
theorem byteArraySetFast_bc {sw : Nat} (hsw : 0 < sw) {l : List α} (hn : (l.length : Int) ≤ ssMax sw) {i : Int}
    (hi : inSS sw i = true) {wrap : Bool} (hwr : wrap = false → 0 ≤ i) (v : α) :
    byteArraySetFast sw l i v wrap true = pySet l i v := by
  have hlen0 : (0 : Int) ≤ l.length := by omega
  unfold byteArraySetFast
  simp only [Bool.or_true, if_true, Bool.not_true, Bool.false_or]
  by_cases hw : (wrap && decide (i < 0)) = true
  · simp only [hw, if_true]
    have hneg : i < 0 := by simp at hw; exact hw.2
    obtain ⟨ha, hin⟩ := addSS_wrap hn hi hneg
    rw [ha]; simp only [Out.bind]
    by_cases hv : isValidIndex sw (i + l.length) l.length = true
    · rw [if_pos hv]
      rw [isValidIndex_iff hsw hlen0 hn hin] at hv
      exact writeArr_wrap_eq_pySet v hneg hv.1
    · rw [if_neg hv]
      rw [isValidIndex_iff hsw hlen0 hn hin] at hv
      exact (pySet_oob_neg v (by omega)).symm
  · have h0 : 0 ≤ i := by
      cases wrap
      · exact hwr rfl
      · simp at hw; exact hw
    simp only [hw, Bool.false_eq_true, if_false, Out.bind]
    by_cases hv : isValidIndex sw i l.length = true
    · rw [if_pos hv]
      rw [isValidIndex_iff hsw hlen0 hn hi] at hv
      exact writeArr_eq_pySet v hv.1 hv.2
    · rw [if_neg hv]
      rw [isValidIndex_iff hsw hlen0 hn hi] at hv
      exact (pySet_oob_nonneg v (by omega)).symm

/-- the exact-list branch of `__Pyx_SetItemInt_Fast` with boundscheck on (any wraparound flag) -/
theorem setFast_list_bc {sw : Nat} (hsw : 0 < sw) {l : List α} (hn : (l.length : Int) ≤ ssMax sw) {i : Int}
    (hi : inSS sw i = true) (wrap : Bool) (v : α) :
    setFast sw .list l i v wrap true = pySet l i v := by
  have hlen0 : (0 : Int) ≤ l.length := by omega
  have hgen : pyAssK sw .list l i (some v) = pySet l i v := by simp [pyAssK, Kind.mutable]
  unfold setFast
  simp only [Bool.not_true, Bool.false_or]
  by_cases hw : wrap = true ∧ i < 0
  · obtain ⟨hwt, hneg⟩ := hw
    obtain ⟨ha, hin⟩ := addSS_wrap hn hi hneg
    have h0 : ¬ 0 ≤ i := by omega
    simp only [hwt, Bool.not_true, Bool.false_eq_true, if_false, h0, ha, Out.bind]
    by_cases hv : isValidIndex sw (i + l.length) l.length = true
    · rw [if_pos hv]
      rw [isValidIndex_iff hsw hlen0 hn hin] at hv
      exact writeArr_wrap_eq_pySet v hneg hv.1
    · rw [if_neg hv]; exact hgen
  · have hn' : (if (!wrap) = true then Out.ok i else if 0 ≤ i then Out.ok i else addSS sw i l.length) = Out.ok i := by
      cases wrap
      · simp
      · have : 0 ≤ i := by
          have := hw; simp at this; exact this
        simp [this]
    rw [hn']; simp only [Out.bind]
    by_cases hv : isValidIndex sw i l.length = true
    · rw [if_pos hv]
      rw [isValidIndex_iff hsw hlen0 hn hi] at hv
      exact writeArr_eq_pySet v hv.1 hv.2
    · rw [if_neg hv]; exact hgen

/-- the index at which CPython's second wrap-around turns an out-of-range index into a valid one -/
def dblWrap (n : Nat) (i : Int) : Prop := i + n < 0 ∧ 0 ≤ i + 2 * n

instance (n : Nat) (i : Int) : Decidable (dblWrap n i) := by unfold dblWrap; infer_instance

theorem pyNorm_sqWrap {l : List α} {i : Int} {wrap : Bool}
    (hd : ¬ dblWrap l.length i) : pyNorm l.length (sqWrap l i wrap) = pyNorm l.length i := by
  unfold sqWrap
  by_cases hw : (wrap && decide (i < 0)) = true
  · rw [if_pos hw]
    have hneg : i < 0 := by simp at hw; exact hw.2
    by_cases h0 : 0 ≤ i + (l.length : Int)
    · rw [pyNorm_neg hneg h0, pyNorm_nonneg h0 (by omega)]
    · unfold dblWrap at hd
      rw [pyNorm_oob_neg (by omega), pyNorm_oob_neg (by omega)]
  · rw [if_neg hw]

/-- `sq_ass_item(o, i, NULL)` of an exact list after the `sq_length` wrap = `del o[i]` -/
theorem sqAssItem_del_eq {l : List α} {i : Int} {wrap : Bool} (hwr : wrap = false → 0 ≤ i) :
    sqAssItem l (sqWrap l i wrap) none = pyDel l i := by
  unfold sqWrap sqAssItem
  by_cases hw : (wrap && decide (i < 0)) = true
  · rw [if_pos hw]
    have hneg : i < 0 := by simp at hw; exact hw.2
    by_cases h0 : 0 ≤ i + (l.length : Int)
    · have : i + (l.length : Int) < l.length := by omega
      simp [pyDel, pyNorm_neg hneg h0, h0, this]
    · have : ¬ (0 ≤ i + (l.length : Int) ∧ i + (l.length : Int) < l.length) := by omega
      rw [if_neg this, pyDel_oob_neg (by omega)]
  · rw [if_neg hw]
    have h0 : 0 ≤ i := by
      cases wrap
      · exact hwr rfl
      · simp at hw; exact hw
    by_cases h1 : i < l.length
    · simp [pyDel, pyNorm_nonneg h0 h1, h0, h1]
    · have : ¬ (0 ≤ i ∧ i < l.length) := by omega
      rw [if_neg this, pyDel_oob_nonneg (by omega)]

theorem pyAssK_sqWrap {sw : Nat} {k : Kind} {l : List α} {i : Int} {wrap : Bool} (hm : k.mutable = true)
    (hd : ¬ dblWrap l.length i) (v : Option α) :
    pyAssK sw k l (sqWrap l i wrap) v = pyAssK sw k l i v := by
  simp only [pyAssK, hm, if_true, pySet, pyDel, pyNorm_sqWrap hd]

theorem pyGet_sqWrap {l : List α} {i : Int} {wrap : Bool}
    (hd : ¬ dblWrap l.length i) :
    pyGet l (sqWrap l i wrap) = pyGet l i := by
  simp only [pyGet, pyNorm_sqWrap hd]

end CyVerif.C15

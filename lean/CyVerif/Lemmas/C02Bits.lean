import CyVerif.Lemmas.C02Basic
/-!
C02: bits of unbounded integers (infinite two's complement) and the C bitwise operators on a signed type.
-/
namespace CyVerif.C02
open CyVerif.C05

/-- bit `k` of the infinite two's complement representation of `x` (Python's view of an `int` in `& | ^`). -/
def bit (x : Int) (k : Nat) : Bool := decide ((x / two k) % 2 = 1)

theorem two_ne_zero (k : Nat) : two k ≠ 0 := by have := two_pos k; omega

theorem toU_lt (w : Nat) (a : Int) : toU w a < 2 ^ w := by
  unfold toU
  have h1 := Int.emod_nonneg a (two_ne_zero w)
  have h2 := Int.emod_lt_of_pos a (two_pos w)
  have : ((a % two w).toNat : Int) < ((2 ^ w : Nat) : Int) := by
    rw [Int.toNat_of_nonneg h1]; exact h2
  exact Int.ofNat_lt.mp this

theorem toU_cast (w : Nat) (a : Int) : ((toU w a : Nat) : Int) = a % two w := by
  unfold toU; exact Int.toNat_of_nonneg (Int.emod_nonneg a (two_ne_zero w))

/-- below the width, the bits of `x` are the bits of its `w`-bit pattern -/
theorem bit_eq_testBit {w k : Nat} (hk : k < w) (x : Int) : bit x k = (toU w x).testBit k := by
  rw [Nat.testBit_eq_decide_div_mod_eq]
  unfold bit
  congr 1
  have hsplit : two w = two k * two (w - k) := by rw [← two_add]; congr 1; omega
  have heven : two (w - k) = 2 * two (w - k - 1) := two_pred (by omega)
  have hx : x = x % two w + two k * (two (w - k) * (x / two w)) := by
    have := Int.emod_add_mul_ediv x (two w)
    rw [hsplit, Int.mul_assoc] at this
    rw [hsplit]; omega
  have hdiv : x / two k = (x % two w) / two k + two (w - k) * (x / two w) := by
    conv => lhs; rw [hx]
    rw [Int.add_mul_ediv_left _ _ (two_ne_zero k)]
  have hcast : (((toU w x / 2 ^ k % 2 : Nat)) : Int) = (x % two w) / two k % 2 := by
    rw [Int.natCast_emod, Int.natCast_ediv, toU_cast]; rfl
  have hmod : (x / two k) % 2 = (x % two w) / two k % 2 := by
    rw [hdiv, heven, Int.mul_assoc, Int.add_mul_emod_self_left]
  rw [hmod, ← hcast]
  apply propext
  constructor
  · intro h; exact Int.ofNat_inj.mp (by simpa using h)
  · intro h; rw [h]; rfl

/-- at and above the sign position all bits of a `w`-bit value equal the sign -/
theorem bit_eq_sign {w k : Nat} (_hw : 0 < w) (hk : w - 1 ≤ k) {x : Int}
    (hx : - two (w - 1) ≤ x ∧ x < two (w - 1)) : bit x k = decide (x < 0) := by
  have hmono := two_le_two hk
  have hp := two_pos k
  unfold bit
  by_cases hneg : x < 0
  · have : x / two k = -1 := by
      apply Int.ediv_eq_neg_one_of_neg_of_le hneg; omega
    simp [this, hneg]
  · have : x / two k = 0 := Int.ediv_eq_zero_of_lt (by omega) (by omega)
    simp [this, hneg]

theorem cast_emod {t : CTy} (hs : t.signed = true) (hb : 0 < t.bits) (y : Int) : C05.cast t y % two t.bits = y % two t.bits := by
  unfold C05.cast; rw [if_pos hs]
  have h2 : two t.bits = 2 * two (t.bits - 1) := two_pred hb
  have : ((y + two (t.bits - 1)) % two t.bits - two (t.bits - 1)) % two t.bits
      = ((y + two (t.bits - 1)) - two (t.bits - 1)) % two t.bits := by
    rw [Int.sub_emod, Int.emod_emod_of_dvd _ (Int.dvd_refl _), ← Int.sub_emod]
  rw [this]; congr 1; omega

theorem toU_cast_eq {t : CTy} (hs : t.signed = true) (hb : 0 < t.bits) (y : Int) : toU t.bits (C05.cast t y) = toU t.bits y := by
  unfold toU; rw [cast_emod hs hb]

theorem toU_natCast {w u : Nat} (h : u < 2 ^ w) : toU w (u : Int) = u := by
  unfold toU
  have : ((u : Int) % two w) = u := Int.emod_eq_of_lt (by omega) (natCast_lt_two h)
  rw [this]; rfl

theorem bitop_lt {w : Nat} (o : BitOp) {m n : Nat} (hm : m < 2 ^ w) (hn : n < 2 ^ w) : o.nat m n < 2 ^ w := by
  cases o
  · exact Nat.and_lt_two_pow _ hn
  · exact Nat.or_lt_two_pow hm hn
  · exact Nat.xor_lt_two_pow hm hn

theorem bitop_testBit (o : BitOp) (m n k : Nat) : (o.nat m n).testBit k = o.bool (m.testBit k) (n.testBit k) := by
  cases o <;> simp [BitOp.nat, BitOp.bool]

theorem inRange_bounds {t : CTy} (hs : t.signed = true) {x : Int} (h : t.inRange x) :
    - two (t.bits - 1) ≤ x ∧ x < two (t.bits - 1) := (inRange_signed hs x).mp h

/-- C's `& | ^` on a signed two's complement type act bitwise on the infinite two's complement representations. -/
theorem cbit_bit {t : CTy} (hs : t.signed = true) (hb : 0 < t.bytes) (o : BitOp) {a b : Int}
    (ha : t.inRange a) (hbr : t.inRange b) (k : Nat) :
    bit (cbit t o a b) k = o.bool (bit a k) (bit b k) := by
  have hbits : 0 < t.bits := bits_pos hb
  have hr : t.inRange (cbit t o a b) := cast_inRange hb _
  have hU : toU t.bits (cbit t o a b) = o.nat (toU t.bits a) (toU t.bits b) := by
    unfold cbit; rw [toU_cast_eq hs hbits]
    exact toU_natCast (bitop_lt o (toU_lt _ a) (toU_lt _ b))
  have low : ∀ j, j < t.bits → bit (cbit t o a b) j = o.bool (bit a j) (bit b j) := by
    intro j hj
    rw [bit_eq_testBit hj, hU, bitop_testBit, ← bit_eq_testBit hj, ← bit_eq_testBit hj]
  by_cases hk : k < t.bits
  · exact low k hk
  · have hk' : t.bits - 1 ≤ k := by omega
    rw [bit_eq_sign hbits hk' (inRange_bounds hs hr), bit_eq_sign hbits hk' (inRange_bounds hs ha),
      bit_eq_sign hbits hk' (inRange_bounds hs hbr)]
    have := low (t.bits - 1) (by omega)
    rw [bit_eq_sign hbits (Nat.le_refl _) (inRange_bounds hs hr), bit_eq_sign hbits (Nat.le_refl _) (inRange_bounds hs ha),
      bit_eq_sign hbits (Nat.le_refl _) (inRange_bounds hs hbr)] at this
    exact this

theorem cbit_inRange {t : CTy} (hb : 0 < t.bytes) (o : BitOp) (a b : Int) : t.inRange (cbit t o a b) :=
  cast_inRange hb _

/-- `(x ^ b) < 0` tests "signs differ". -/
theorem xor_neg_iff {t : CTy} (hs : t.signed = true) (hb : 0 < t.bytes) {a b : Int}
    (ha : t.inRange a) (hbr : t.inRange b) : cbit t .xor a b < 0 ↔ ((a < 0) ≠ (b < 0)) := by
  have hbits : 0 < t.bits := bits_pos hb
  have h := cbit_bit hs hb .xor ha hbr (t.bits - 1)
  rw [bit_eq_sign hbits (Nat.le_refl _) (inRange_bounds hs (cbit_inRange hb .xor a b)),
    bit_eq_sign hbits (Nat.le_refl _) (inRange_bounds hs ha), bit_eq_sign hbits (Nat.le_refl _) (inRange_bounds hs hbr)] at h
  simp only [BitOp.bool] at h
  by_cases h1 : a < 0 <;> by_cases h2 : b < 0 <;> simp [h1, h2] at h ⊢ <;> omega

end CyVerif.C02

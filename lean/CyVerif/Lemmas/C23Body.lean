import CyVerif.Lemmas.C23Rel
namespace CyVerif.C23
variable {σ ι : Type}

theorem relN_mkSub (d : Desc σ ι) : RelN (cyMkSub d) (pyMkSub d) := by
  cases d with
  | gen s0 => exact .created s0
  | opq o => exact .deleg (.opq o)

theorem reqOk_mkSub_next (d : Desc σ ι) : ReqOk (cyMkSub d) .next := by
  cases d <;> trivial

theorem relO_null (o : Res) : RelO o (.null : CyObj σ ι) .null := ⟨RelN.null, fun _ _ => .null⟩

theorem relU_null (o : Res) : RelU o (.null : CyObj σ ι) .null := relO_null o

theorem reqOk_del (c : CyObj σ ι) : ReqOk c .del := trivial

theorem relO_statusFromResult (o : Res) (c : CyObj σ ι) (p : PyObj σ ι) (h : RelO o c p) :
    RelO (statusFromResult o) c p := by
  refine ⟨h.1, ?_⟩
  intro v hv
  cases o with
  | next w => exact h.2 w rfl
  | ret w => simp [statusFromResult] at hv
  | div => simp [statusFromResult] at hv
  | err e => cases e <;> simp [statusFromResult] at hv

theorem relU_suspended {o : Res} {s : σ} {ca : CyObj σ ι} {pa : PyObj σ ι} (hd : RelD ca pa) :
    RelU o (.gen .suspended true s ca) (.gen .suspended s pa) :=
  ⟨.deleg (.gen s hd), fun _ _ => .gen s hd⟩

theorem relU_finished {o : Res} (hne : ∀ v, o ≠ .next v) (s s' : σ) :
    RelU o (.gen .finished true s .null : CyObj σ ι) (.gen .cleared s' .null) :=
  ⟨.finished s s', fun v hv => absurd hv (hne v)⟩

theorem sim_body (fl : Flags) (B : Body σ ι) (rc : CyRec σ ι) (rp : PyRec σ ι) (H : SimAll fl rc rp)
    (l : Label) (hl : l ≠ .finished) (st : σ) (inp : Input) :
    RSim fl RelU (cyBody B rc l st inp) (pyBody B rp st inp) := by
  unfold cyBody pyBody
  generalize B.resume st inp = ts
  rcases ts with ⟨tg, step⟩
  apply RSim.pre
  cases step with
  | yield v s => exact RSim.pure rfl rfl (relU_suspended .null)
  | ret v => exact RSim.pure rfl rfl (relU_finished (by simp) st st)
  | raise e => exact RSim.pure rfl rfl (relU_finished (by simp) st st)
  | delegate d s =>
    apply RSim.bind (Q0 := RelO)
    · exact RSim.mapOut _ (H.nonrun _ _ .next (relN_mkSub d) (reqOk_mkSub_next d)) relO_statusFromResult
    · exact relU_null _
    · intro o ca pa hne hq
      cases o with
      | div => exact absurd rfl hne
      | next v => exact RSim.pure rfl rfl (relU_suspended (hq.2 v rfl))
      | ret v =>
        apply RSim.bind (Q0 := RelO) (H.nonrun _ _ .del hq.1 (reqOk_del _)) (relU_null _)
        intro _ _ _ _ _
        exact H.cont l s _ hl
      | err e =>
        apply RSim.bind (Q0 := RelO) (H.nonrun _ _ .del hq.1 (reqOk_del _)) (relU_null _)
        intro _ _ _ _ _
        exact H.cont l s _ hl
  | reenter op s =>
    have hp : cyProbe (.gen l true st .null : CyObj σ ι) = pyProbe (.gen .executing st .null : PyObj σ ι) := by
      cases l <;> simp_all [cyProbe, pyProbe, pyYf]
    cases op with
    | probe =>
      simp only [hp]
      exact H.cont l s _ hl
    | next =>
      obtain ⟨h1, h2, h3⟩ := H.running l st .next (by simp) (by simp)
      apply RSim.bind (Q0 := fun _ _ _ => True) (RSim.pure h1 h2 trivial) (relU_null _)
      intro _ _ _ _ _
      exact H.cont l s _ hl
    | send v =>
      obtain ⟨h1, h2, h3⟩ := H.running l st (.send v) (by simp) (by simp)
      apply RSim.bind (Q0 := fun _ _ _ => True) (RSim.pure h1 h2 trivial) (relU_null _)
      intro _ _ _ _ _
      exact H.cont l s _ hl
    | throw e =>
      obtain ⟨h1, h2, h3⟩ := H.running l st (.throw e) (by simp) (by simp)
      apply RSim.bind (Q0 := fun _ _ _ => True) (RSim.pure h1 h2 trivial) (relU_null _)
      intro _ _ _ _ _
      exact H.cont l s _ hl
    | close =>
      obtain ⟨h1, h2, h3⟩ := H.running l st .close (by simp) (by simp)
      apply RSim.bind (Q0 := fun _ _ _ => True) (RSim.pure h1 h2 trivial) (relU_null _)
      intro _ _ _ _ _
      exact H.cont l s _ hl
end CyVerif.C23

import CyVerif.Lemmas.C50BuildC
/-! RE → NFA, part D: the `Rep1` machine. -/
namespace CyVerif.C50

/-- zero or more words of `L` -/
inductive Star (L : List CurChar → Prop) : List CurChar → Prop
  | nil : Star L []
  | cons {x rest : List CurChar} : L x → Star L rest → Star L (x ++ rest)

/-- one or more words of `L` -/
def Plus (L : List CurChar → Prop) (w : List CurChar) : Prop := ∃ w1 w2, w = w1 ++ w2 ∧ Star L w1 ∧ L w2

theorem Star.snoc {L : List CurChar → Prop} {w1 w2 : List CurChar} (h1 : Star L w1) (h2 : L w2) : Star L (w1 ++ w2) := by
  induction h1 with
  | nil => simpa using Star.cons h2 .nil
  | cons hx _ ih => rw [List.append_assoc]; exact .cons hx ih

theorem Star.congr {L L' : List CurChar → Prop} (h : ∀ w, L w → L' w) {w : List CurChar} (hs : Star L w) : Star L' w := by
  induction hs with
  | nil => exact .nil
  | cons hx _ ih => exact .cons (h _ hx) ih

theorem linkEdge (m : NFA) (hm : m.WF) (s t : Nat) (hs : s < m.nodes.length) :
    (m.link s t).WF ∧ (m.link s t).nodes.length = m.nodes.length ∧ (m.link s t).inits = m.inits ∧
    (∀ s', ((m.link s t).node s').action = (m.node s').action ∧ ((m.link s t).node s').prio = (m.node s').prio) ∧
    (∀ s' l u, NEdge (m.link s t) s' l u ↔ NEdge m s' l u ∨ (s' = s ∧ u = t ∧ l = none)) := by
  obtain ⟨a, b, c, d, e⟩ := addTrans_spec m hm s (.sp .eps) t hs trivial
  refine ⟨a, b, c, d, fun s' l u => ?_⟩
  unfold NFA.link
  rw [e]
  constructor
  · rintro (h | ⟨h1, h2, _, h4⟩)
    · exact .inl h
    · exact .inr ⟨h1, h2, h4⟩
  · rintro (h | ⟨h1, h2, h3⟩)
    · exact .inl h
    · subst h3; exact .inr ⟨h1, h2, trivial, rfl⟩

/-- `Rep1.build_machine`: `i -ε-> a`, the inner machine from `a` to `b`, `b -ε-> a`, `b -ε-> f` -/
def certRep1 {m0 n3 : NFA} {i f : Nat} {L : List CurChar → Prop} (hif : i ≠ f)
    (hi : i < m0.nodes.length) (hf : f < m0.nodes.length) (hm : m0.WF)
    (c : BuildCert ((m0.newState.1.newState.1).link i m0.nodes.length) n3 m0.nodes.length (m0.nodes.length + 1) L) :
    BuildCert m0 ((n3.link (m0.nodes.length + 1) m0.nodes.length).link (m0.nodes.length + 1) f) i f (Plus L) := by
  have hlen2 : (m0.newState.1.newState.1).nodes.length = m0.nodes.length + 2 := by simp [NFA.newState]
  have hwf2 : (m0.newState.1.newState.1).WF := newState_wf _ (newState_wf _ hm)
  obtain ⟨l1a, l1b, l1c, l1d, l1e⟩ := linkEdge (m0.newState.1.newState.1) hwf2 i m0.nodes.length (by omega)
  have hg := c.grow
  rw [l1b, hlen2] at hg
  obtain ⟨l4a, l4b, l4c, l4d, l4e⟩ := linkEdge n3 c.wf (m0.nodes.length + 1) m0.nodes.length (by omega)
  obtain ⟨l5a, l5b, l5c, l5d, l5e⟩ := linkEdge (n3.link (m0.nodes.length + 1) m0.nodes.length) l4a
    (m0.nodes.length + 1) f (by omega)
  have hsrc := c.src
  have hdst := c.dst
  have hsupp := c.labSupp
  simp only [l1b, hlen2] at hsrc hdst hsupp
  exact {
    added := fun s l u => (s = i ∧ u = m0.nodes.length ∧ l = none) ∨ c.added s l u ∨
      (s = m0.nodes.length + 1 ∧ u = m0.nodes.length ∧ l = none) ∨ (s = m0.nodes.length + 1 ∧ u = f ∧ l = none)
    lab := fun s w => (s = i ∧ w = []) ∨ (∃ w1 w2, w = w1 ++ w2 ∧ Star L w1 ∧ c.lab s w2) ∨ (s = f ∧ Plus L w)
    wf := l5a
    grow := by rw [l5b, l4b]; omega
    inits := by rw [l5c, l4c, c.inits, l1c]; rfl
    acts := fun s => by
      rw [(l5d s).1, (l4d s).1, (c.acts s).1, (l1d s).1, (l5d s).2, (l4d s).2, (c.acts s).2, (l1d s).2,
        newState_node, newState_node]
      exact ⟨rfl, rfl⟩
    edges := fun s l u => by
      rw [l5e, l4e, c.edges, l1e, newState_edge, newState_edge]
      constructor
      · rintro ((((h | h) | h) | h) | h)
        · exact .inl h
        · exact .inr (.inl h)
        · exact .inr (.inr (.inl h))
        · exact .inr (.inr (.inr (.inl h)))
        · exact .inr (.inr (.inr (.inr h)))
      · rintro (h | h | h | h | h)
        · exact .inl (.inl (.inl (.inl h)))
        · exact .inl (.inl (.inl (.inr h)))
        · exact .inl (.inl (.inr h))
        · exact .inl (.inr h)
        · exact .inr h
    src := by
      rw [l5b, l4b]
      rintro s l u (h | h | h | h)
      · exact .inl h.1
      · rcases hsrc s l u h with e | e
        · exact .inr ⟨by omega, by omega⟩
        · exact .inr ⟨by omega, e.2⟩
      · exact .inr ⟨by omega, by omega⟩
      · exact .inr ⟨by omega, by omega⟩
    dst := by
      rw [l5b, l4b]
      rintro s l u (h | h | h | h)
      · exact .inr ⟨by omega, by omega⟩
      · rcases hdst s l u h with e | e
        · exact .inr ⟨by omega, by omega⟩
        · exact .inr ⟨by omega, e.2⟩
      · exact .inr ⟨by omega, by omega⟩
      · exact .inl h.2.1
    labInit := .inl ⟨rfl, rfl⟩
    labEdge := by
      rintro s l u w (⟨rfl, rfl, rfl⟩ | h | ⟨rfl, rfl, rfl⟩ | ⟨rfl, rfl, rfl⟩) hl
      · -- i -ε-> a
        rcases hl with ⟨_, rfl⟩ | ⟨w1, w2, _, _, hl⟩ | ⟨e, _⟩
        · exact .inr (.inl ⟨[], [], rfl, .nil, c.labInit⟩)
        · rcases hsupp _ w2 hl with e | e | e <;> omega
        · exact absurd e hif
      · -- an edge of the inner machine
        rcases hl with ⟨e, _⟩ | ⟨w1, w2, rfl, hs1, hl⟩ | ⟨e, _⟩
        · rcases hsrc s l u h with e' | e' <;> omega
        · exact .inr (.inl ⟨w1, w2 ++ l.toList, by simp, hs1, c.labEdge s l u w2 h hl⟩)
        · rcases hsrc s l u h with e' | e' <;> omega
      · -- b -ε-> a
        rcases hl with ⟨e, _⟩ | ⟨w1, w2, rfl, hs1, hl⟩ | ⟨e, _⟩
        · omega
        · exact .inr (.inl ⟨w1 ++ w2, [], by simp, hs1.snoc (c.labF w2 hl), c.labInit⟩)
        · omega
      · -- b -ε-> f
        rcases hl with ⟨e, _⟩ | ⟨w1, w2, rfl, hs1, hl⟩ | ⟨e, _⟩
        · omega
        · exact .inr (.inr ⟨rfl, w1, w2, by simp, hs1, c.labF w2 hl⟩)
        · omega
    labSupp := by
      rw [l5b, l4b]
      rintro s w (⟨e, _⟩ | ⟨w1, w2, _, _, hl⟩ | ⟨e, _⟩)
      · exact .inl e
      · rcases hsupp s w2 hl with e | e | e
        · exact .inr (.inr ⟨by omega, by omega⟩)
        · exact .inr (.inr ⟨by omega, by omega⟩)
        · exact .inr (.inr ⟨by omega, e.2⟩)
      · exact .inr (.inl e)
    labI := by
      rintro w (⟨_, e⟩ | ⟨w1, w2, _, _, hl⟩ | ⟨e, _⟩)
      · exact e
      · rcases hsupp i w2 hl with e | e | e <;> omega
      · exact absurd e hif
    labF := by
      rintro w (⟨e, _⟩ | ⟨w1, w2, _, _, hl⟩ | ⟨_, h⟩)
      · exact absurd e.symm hif
      · rcases hsupp f w2 hl with e | e | e <;> omega
      · exact h
    complete := by
      rintro w ⟨w1, w2, rfl, hs1, h2⟩
      let A := fun (s : Nat) (l : Option CurChar) (u : Nat) =>
        (s = i ∧ u = m0.nodes.length ∧ l = none) ∨ c.added s l u ∨
        (s = m0.nodes.length + 1 ∧ u = m0.nodes.length ∧ l = none) ∨ (s = m0.nodes.length + 1 ∧ u = f ∧ l = none)
      have inner : ∀ x, L x → APath A m0.nodes.length x (m0.nodes.length + 1) :=
        fun x hx => (c.complete x hx).mono (fun _ _ _ e => .inr (.inl e))
      have loop : ∀ x, Star L x → APath A m0.nodes.length x m0.nodes.length := by
        intro x hx
        induction hx with
        | nil => exact .refl _
        | cons hx0 _ ih =>
          refine (inner _ hx0).append ?_
          have := APath.step (A := A) (lab := none) (.inr (.inr (.inl ⟨rfl, rfl, rfl⟩))) ih
          simpa using this
      have fin : APath A (m0.nodes.length + 1) [] f := by
        have := APath.step (A := A) (lab := none) (w := []) (.inr (.inr (.inr ⟨rfl, rfl, rfl⟩))) (.refl f)
        simpa using this
      have start := APath.step (A := A) (lab := none) (.inl ⟨rfl, rfl, rfl⟩)
        ((loop w1 hs1).append ((inner w2 h2).append fin))
      simpa using start }

end CyVerif.C50

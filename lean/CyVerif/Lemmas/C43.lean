import CyVerif.Model.C43Py
/-! Helper lemmas for C43: stack well-formedness, token counters, invariants of the Cython layout scanner. -/
namespace CyVerif.C43

/-- `indentation_stack` invariant: strictly increasing towards the top, bottom element 0 (top first here) -/
def wfStack : List Nat → Prop
  | [] => False
  | [x] => x = 0
  | x :: y :: r => y < x ∧ wfStack (y :: r)

def nInd : List Out → Nat
  | [] => 0
  | .indent :: r => nInd r + 1
  | _ :: r => nInd r

def nDed : List Out → Nat
  | [] => 0
  | .dedent :: r => nDed r + 1
  | _ :: r => nDed r

theorem nInd_append (a b : List Out) : nInd (a ++ b) = nInd a + nInd b := by
  induction a with
  | nil => simp [nInd]
  | cons x r ih => cases x <;> simp [nInd, ih] <;> omega

theorem nDed_append (a b : List Out) : nDed (a ++ b) = nDed a + nDed b := by
  induction a with
  | nil => simp [nDed]
  | cons x r ih => cases x <;> simp [nDed, ih] <;> omega

theorem nInd_replicate_dedent (k : Nat) : nInd (List.replicate k Out.dedent) = 0 := by
  induction k with
  | zero => rfl
  | succ k ih => simp [List.replicate_succ, nInd, ih]

theorem nDed_replicate_dedent (k : Nat) : nDed (List.replicate k Out.dedent) = k := by
  induction k with
  | zero => rfl
  | succ k ih => simp [List.replicate_succ, nDed, ih]

theorem nInd_map_tok (b : List Tok) : nInd (b.map Out.tok) = 0 := by
  induction b with
  | nil => rfl
  | cons x r ih => simp [nInd, ih]

theorem nDed_map_tok (b : List Tok) : nDed (b.map Out.tok) = 0 := by
  induction b with
  | nil => rfl
  | cons x r ih => simp [nDed, ih]

theorem wfStack_ne_nil {s : List Nat} (h : wfStack s) : s ≠ [] := by
  cases s with
  | nil => exact absurd h (by simp [wfStack])
  | cons _ _ => simp

theorem wfStack_tail {x y : Nat} {r : List Nat} (h : wfStack (x :: y :: r)) : wfStack (y :: r) := h.2

/-- the DEDENT loop on a well-formed stack never runs off the stack (no `IndexError`), keeps it well-formed,
pops exactly `k` entries and stops at an entry `≤ new` -/
theorem cyPop_wf (new : Nat) : ∀ (s : List Nat), wfStack s →
    ∃ k top r, cyPop new s = some (k, top :: r) ∧ wfStack (top :: r) ∧ (top :: r).length + k = s.length ∧ top ≤ new
  | [], h => absurd h (by simp [wfStack])
  | [x], h => by
    have hx : x = 0 := h
    subst hx
    exact ⟨0, 0, [], by simp [cyPop], by simp [wfStack], by simp, Nat.zero_le _⟩
  | x :: y :: r, h => by
    by_cases hlt : new < x
    · obtain ⟨k, top, r', hp, hw, hl, hle⟩ := cyPop_wf new (y :: r) h.2
      refine ⟨k + 1, top, r', ?_, hw, ?_, hle⟩
      · rw [cyPop, if_pos hlt, hp]; rfl
      · simp at hl ⊢; omega
    · exact ⟨0, x, y :: r, by rw [cyPop, if_neg hlt], h, by simp, by omega⟩

/-- effect of one successful step on the counters and the state -/
structure StepOk (st : CySt) (t : List Out) (st' : CySt) : Prop where
  wf : wfStack st'.stack
  bal : nInd t + st.stack.length = nDed t + st'.stack.length

/-- `indentation_action` on a well-formed stack: a positioned user error or a well-formed successor; never
the model's `internal` state (no `IndexError` from `current_level()`/`pop()` on an empty stack) -/
theorem cyIndent_wf (st : CySt) (text : List Ws) (h : wfStack st.stack) :
    (∃ m, cyIndent st text = .error m ∧ (m = .mixed ∨ m = .inconsistent)) ∨
    (∃ t st', cyIndent st text = .ok (t, st') ∧ StepOk st t st' ∧ st'.mode = st.mode ∧ st'.nest = st.nest) := by
  obtain ⟨cur, rest, hs⟩ : ∃ cur rest, st.stack = cur :: rest := by
    cases hst : st.stack with
    | nil => rw [hst] at h; exact absurd h (by simp [wfStack])
    | cons a b => exact ⟨a, b, rfl⟩
  unfold cyIndent
  cases hc : cyCheck st.ichar text with
  | none => exact Or.inl ⟨.mixed, rfl, Or.inl rfl⟩
  | some ic =>
    simp only [hs]
    by_cases h1 : text.length = cur
    · refine Or.inr ⟨[], { st with ichar := ic }, by simp [h1, hs], ⟨by simpa [hs] using h, by simp [nInd, nDed]⟩, rfl, rfl⟩
    · by_cases h2 : text.length > cur
      · refine Or.inr ⟨[.indent], { st with ichar := ic, stack := text.length :: st.stack }, by simp [h1, h2, hs], ⟨?_, ?_⟩, rfl, rfl⟩
        · rw [hs] at h ⊢
          exact ⟨h2, h⟩
        · simp [nInd, nDed]; omega
      · obtain ⟨k, top, r, hp, hw, hl, hle⟩ := cyPop_wf text.length (cur :: rest) (hs ▸ h)
        simp only [h1, h2, if_false, hp]
        by_cases h3 : text.length ≠ top
        · exact Or.inl ⟨.inconsistent, by simp [h3], Or.inr rfl⟩
        · refine Or.inr ⟨List.replicate k .dedent, { st with ichar := ic, stack := top :: r }, by simp [h3], ⟨hw, ?_⟩, rfl, rfl⟩
          rw [nInd_replicate_dedent, nDed_replicate_dedent, hs]
          simp at hl ⊢; omega

theorem cyFin_ok (st : CySt) (toks : List Out) (f : Fin) :
    (cyFin st toks f = .error .unrecognized) ∨
    (∃ t st', cyFin st toks f = .ok (t, st') ∧ st'.stack = st.stack ∧ nInd t = nInd toks ∧ nDed t = nDed toks) := by
  cases f <;> simp only [cyFin]
  · by_cases h : st.nest = 0
    · rw [if_pos h]; exact Or.inr ⟨_, _, rfl, rfl, by simp [nInd_append, nInd], by simp [nDed_append, nDed]⟩
    · rw [if_neg h]; exact Or.inr ⟨_, _, rfl, rfl, rfl, rfl⟩
  · by_cases h : st.nest = 0
    · rw [if_pos h]; exact Or.inr ⟨_, _, rfl, rfl, by simp [nInd_append, nInd], by simp [nDed_append, nDed]⟩
    · rw [if_neg h]; exact Or.inr ⟨_, _, rfl, rfl, rfl, rfl⟩
  · exact Or.inr ⟨_, _, rfl, rfl, rfl, rfl⟩
  · exact Or.inl trivial

/-- one physical line: error is one of the three user errors, otherwise the invariant is kept -/
theorem cyLine_wf (st : CySt) (l : PLine) (h : wfStack st.stack) :
    (∃ m, cyLine st l = .error m ∧ (m = .mixed ∨ m = .inconsistent ∨ m = .unrecognized)) ∨
    (∃ t st', cyLine st l = .ok (t, st') ∧ StepOk st t st') := by
  unfold cyLine
  by_cases hb : st.mode = .bol ∧ isBlank l = true
  · exact Or.inr ⟨[], st, by simp [hb], h, rfl⟩
  · simp only [hb, if_false]
    by_cases hm : st.mode = .bol
    · simp only [hm, if_true]
      rcases cyIndent_wf st (indentText l.ws) h with ⟨m, he, hm'⟩ | ⟨t, st1, ho, hs, _, _⟩
      · rw [he]; exact Or.inl ⟨m, rfl, by rcases hm' with h | h <;> simp [h]⟩
      · rw [ho]
        simp only []
        rcases cyFin_ok { st1 with nest := st1.nest + bodyDelta l.body, mode := .mid } (t ++ l.body.map .tok) l.fin with he | ⟨t2, st2, ho2, hst, hi, hd⟩
        · rw [he]; exact Or.inl ⟨_, rfl, by simp⟩
        · rw [ho2]
          refine Or.inr ⟨t2, st2, rfl, ?_, ?_⟩
          · rw [hst]; exact hs.wf
          · rw [hi, hd, hst, nInd_append, nDed_append, nInd_map_tok, nDed_map_tok]
            have := hs.bal
            simp at this ⊢; omega
    · simp only [hm, if_false]
      rcases cyFin_ok { st with nest := st.nest + bodyDelta l.body, mode := .mid } ([] ++ l.body.map .tok) l.fin with he | ⟨t2, st2, ho2, hst, hi, hd⟩
      · rw [he]; exact Or.inl ⟨_, rfl, by simp⟩
      · rw [ho2]
        refine Or.inr ⟨t2, st2, rfl, ?_, ?_⟩
        · rw [hst]; exact h
        · rw [hi, hd, hst, nInd_append, nDed_append, nInd_map_tok, nDed_map_tok]
          simp [nInd, nDed]

/-- the whole run: ONE positioned user error (line inside the input) or a result satisfying the invariant -/
theorem cyRun_wf : ∀ (ls : List PLine) (st : CySt) (n : Nat), wfStack st.stack →
    (∃ k m, cyRun st n ls = .error (k, m) ∧ (m = .mixed ∨ m = .inconsistent ∨ m = .unrecognized)
        ∧ n ≤ k ∧ k < n + ls.length) ∨
    (∃ t st', cyRun st n ls = .ok (t, st') ∧ StepOk st t st')
  | [], st, n, h => Or.inr ⟨[], st, rfl, h, rfl⟩
  | l :: ls, st, n, h => by
    unfold cyRun
    rcases cyLine_wf st l h with ⟨m, he, hm⟩ | ⟨t, st1, ho, hs⟩
    · rw [he]
      exact Or.inl ⟨n, m, rfl, hm, Nat.le_refl _, by simp⟩
    · rw [ho]
      simp only []
      rcases cyRun_wf ls st1 (n + 1) hs.wf with ⟨k, m, he, hm, h1, h2⟩ | ⟨t2, st2, ho2, hs2⟩
      · rw [he]
        exact Or.inl ⟨k, m, rfl, hm, by omega, by simp; omega⟩
      · rw [ho2]
        refine Or.inr ⟨t ++ t2, st2, rfl, hs2.wf, ?_⟩
        rw [nInd_append, nDed_append]
        have := hs.bal
        have := hs2.bal
        omega

end CyVerif.C43

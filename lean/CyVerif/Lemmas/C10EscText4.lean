import CyVerif.Lemmas.C10EscText3
/-! `\N{…}` and unrecognised escapes in a text literal. -/
namespace CyVerif.C10

theorem appendEsc_N (lk : Lookup) (k : Kind) (hk : k.isText = true) (tl : List Nat) :
    appendEsc P lk k (92 :: 78 :: tl) =
      match lk (tl.drop 1).dropLast with
      | .code n => chUesc k n (92 :: 78 :: tl)
      | .multi => .err "TypeError"
      | .missing => chErr := by
  rw [appendEsc_two]; simp [isOct, hk] <;> rfl

/-- the scanner found no complete `N{…}`: the parser reports an unknown character name -/
theorem text_name_short (P : LexP) (lk : Lookup) (hlk : lk [] = .missing) (k : Kind) (hk : k.isText = true)
    (t : List Nat) (ch1 : Chunk) (h1 : escLen P (78 :: t) = 1)
    (hs : appendEsc P lk k (92 :: (78 :: t).take (escLen P (78 :: t))) = .ok ch1) : ch1.nonfatal = true := by
  rw [h1] at hs
  simp only [List.take_succ_cons, List.take_zero] at hs
  rw [appendEsc_N lk k hk] at hs
  simp only [List.drop_nil, List.dropLast_nil, hlk] at hs
  exact chErr_nonfatal ch1 hs

/-- B: `\N{name}` -/
theorem text_name (P : LexP) (hP : P.WF) (lk : Lookup) (hlk : lk [] = .missing) (k : Kind)
    (hk : k.isText = true) (fstr : Bool) (t : List Nat) (ch1 : Chunk)
    (hs : appendEsc P lk k (92 :: (78 :: t).take (escLen P (78 :: t))) = .ok ch1) (hg : ch1.nonfatal = false) :
    refStep lk fstr (92 :: 78 :: t) = (.ok ch1.us, (78 :: t).drop (escLen P (78 :: t))) := by
  have short : escLen P (78 :: t) = 1 → False := by
    intro h1
    have := text_name_short P lk hlk k hk t ch1 h1 hs
    rw [this] at hg; cases hg
  cases t with
  | nil => exact (short (by simp [escLen, isOct])).elim
  | cons e t2 =>
    by_cases he : e = 123
    · subst he
      cases hdw : t2.dropWhile P.nameOk with
      | nil => exact (short (by simp [escLen, isOct, hdw])).elim
      | cons x r =>
        by_cases hx : x = 125
        · subst hx
          have hlen : escLen P (78 :: 123 :: t2) = (t2.takeWhile P.nameOk).length + 3 := by
            simp [escLen, isOct, hdw]
          obtain ⟨htake, hdrop⟩ := take_takeWhile_succ P.nameOk 125 t2 r hdw
          have hq : (fun x : Nat => decide (x ≠ 125)) 125 = false := by simp
          have hpq : ∀ x, P.nameOk x = true → (fun x : Nat => decide (x ≠ 125)) x = true := by
            intro x hx
            by_cases h125 : x = 125
            · subst h125; rw [hP.1] at hx; cases hx
            · simp [h125]
          obtain ⟨hT, hD⟩ := takeWhile_dropWhile_agree P.nameOk _ hpq 125 hq t2 r hdw
          rw [hlen] at hs ⊢
          simp only [List.take_succ_cons, List.drop_succ_cons, htake, hdrop] at hs ⊢
          rw [appendEsc_N lk k hk] at hs
          simp only [List.drop_succ_cons, List.drop_zero, List.dropLast_concat] at hs
          rw [refStep_bs]
          simp only [show ¬ (78 : Nat) = 10 by decide, if_false, refSimple, isOct]
          simp only [show ¬ (78 : Nat) = 92 by decide, show ¬ (78 : Nat) = 39 by decide,
            show ¬ (78 : Nat) = 34 by decide, show ¬ (78 : Nat) = 98 by decide, show ¬ (78 : Nat) = 102 by decide,
            show ¬ (78 : Nat) = 116 by decide, show ¬ (78 : Nat) = 110 by decide, show ¬ (78 : Nat) = 114 by decide,
            show ¬ (78 : Nat) = 118 by decide, show ¬ (78 : Nat) = 97 by decide, show ¬ (78 : Nat) = 120 by decide,
            show ¬ (78 : Nat) = 117 by decide, show ¬ (78 : Nat) = 85 by decide, if_false, if_true]
          simp only [show ((48 : Nat) ≤ 78 && decide ((78 : Nat) ≤ 55)) = false by decide, Bool.false_eq_true,
            if_false, hD, hT]
          cases hl : lk (t2.takeWhile P.nameOk) with
          | missing =>
            rw [hl] at hs
            have := chErr_nonfatal ch1 hs
            rw [this] at hg; cases hg
          | multi => rw [hl] at hs; cases hs
          | code n =>
            rw [hl] at hs
            have hus := (chUesc_ok k n _ ch1 hs).1
            have hne : t2.takeWhile P.nameOk ≠ [] := by
              intro h0; rw [h0, hlk] at hl; cases hl
            simp only [hne, if_false, hus]
        · exact (short (by simp [escLen, isOct, hdw, hx])).elim
    · exact (short (by simp [escLen, isOct, he])).elim

end CyVerif.C10

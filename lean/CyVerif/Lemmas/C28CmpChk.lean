import CyVerif.Lemmas.C28Enum
import CyVerif.Model.C28Rich
/-!
# C28 — exhaustive kernel checks for `total_ordering`

A class decorated with `total_ordering` that has `__eq__` and no `__ne__` visible.  The trees are
compared after cutting the branch in which `__eq__` answers NotImplemented (there the synthesised
comparison returns NotImplemented where `functools` falls back to the reflected `__eq__` / identity).
-/
namespace CyVerif.C28

def COut.beq : COut → COut → Bool
  | .b x, .b y => x == y
  | .typeError, .typeError => true
  | _, _ => false

theorem COut.beq_eq {a b : COut} (h : COut.beq a b = true) : a = b := by
  cases a <;> cases b <;> simp_all [COut.beq]

def optBeq : Option COut → Option COut → Bool
  | none, none => true
  | some a, some b => COut.beq a b
  | _, _ => false

theorem optBeq_eq {a b : Option COut} (h : optBeq a b = true) : a = b := by
  cases a <;> cases b <;> simp_all [optBeq]
  exact COut.beq_eq h

def RTree.beqO : RTree (Option COut) → RTree (Option COut) → Bool
  | .leaf a, .leaf b => optBeq a b
  | .ask c t f n, .ask d t' f' n' => Call.beq c d && RTree.beqO t t' && RTree.beqO f f' && RTree.beqO n n'
  | _, _ => false

theorem RTree.beqO_eq : ∀ {a b : RTree (Option COut)}, RTree.beqO a b = true → a = b
  | .leaf a, .leaf b, h => by simp only [RTree.beqO] at h; rw [optBeq_eq h]
  | .ask c t f n, .ask d t' f' n', h => by
    simp only [RTree.beqO, Bool.and_eq_true] at h
    obtain ⟨⟨⟨h1, h2⟩, h3⟩, h4⟩ := h
    rw [Call.beq_eq h1, RTree.beqO_eq h2, RTree.beqO_eq h3, RTree.beqO_eq h4]
  | .leaf _, .ask _ _ _ _, h => by simp [RTree.beqO] at h
  | .ask _ _ _ _, .leaf _, h => by simp [RTree.beqO] at h

/-- cut the NotImplemented branch of every `__eq__` call (`none` marks the cut) -/
def pruneEq : RTree COut → RTree (Option COut)
  | .leaf r => .leaf (some r)
  | .ask c t f n => .ask c (pruneEq t) (pruneEq f) (match c.m with | .cmp .eq => .leaf none | _ => pruneEq n)

/-- which comparison methods a class body defines -/
structure Sub6 where
  eq : Bool
  ne : Bool
  lt : Bool
  gt : Bool
  le : Bool
  ge : Bool
  deriving DecidableEq, Repr

def allSub6 : List Sub6 :=
  allBool.flatMap fun a => allBool.flatMap fun b => allBool.flatMap fun c =>
    allBool.flatMap fun d => allBool.flatMap fun e => allBool.map fun f => ⟨a, b, c, d, e, f⟩

theorem mem_allSub6 (s : Sub6) : s ∈ allSub6 := by
  obtain ⟨a, b, c, d, e, f⟩ := s
  simp only [allSub6, List.mem_flatMap, List.mem_map]
  exact ⟨a, mem_allBool a, b, mem_allBool b, c, mem_allBool c, d, mem_allBool d, e, mem_allBool e, f, mem_allBool f, rfl⟩

def allCmpL : List Cmp := [.eq, .ne, .lt, .gt, .le, .ge]

theorem mem_allCmpL (c : Cmp) : c ∈ allCmpL := by cases c <;> simp [allCmpL]

def mkCC (id : Nat) (k : Kind) (s : Sub6) (t : Bool) : CC := ⟨id, k, s.eq, s.ne, s.lt, s.gt, s.le, s.ge, t⟩

def agreeP (l r : Chain) (ident : Bool) (op : Cmp) : Bool :=
  RTree.beqO (pruneEq (doRich l r ident op)) (pruneEq (doRich (pyChain l) (pyChain r) ident op))

theorem agreeP_eq {l r : Chain} {ident : Bool} {op : Cmp} (h : agreeP l r ident op = true) :
    pruneEq (doRich l r ident op) = pruneEq (doRich (pyChain l) (pyChain r) ident op) := RTree.beqO_eq h

/-- the `total_ordering` class: `__eq__`, no `__ne__`, ordering methods `(lt, gt, le, ge)` -/
def toCls (lt gt le ge : Bool) : Chain := [mkCC 0 .cdef ⟨true, false, lt, gt, le, ge⟩ true]

def noCmp : Sub6 := ⟨false, false, false, false, false, false⟩

/-- against an unrelated class of kind `kx` with any comparison methods, both operand orders -/
def toUnrelChk (kx : Kind) (lt gt : Bool) : Bool :=
  allBool.all fun le => allBool.all fun ge => allSub6.all fun x => allCmpL.all fun op =>
    agreeP (toCls lt gt le ge) [mkCC 1 kx x false] false op && agreeP [mkCC 1 kx x false] (toCls lt gt le ge) false op

/-- same type (distinct objects / the same object) and `int` on either side -/
def toSameChk : Bool :=
  allBool.all fun lt => allBool.all fun gt => allBool.all fun le => allBool.all fun ge => allCmpL.all fun op =>
    agreeP (toCls lt gt le ge) (toCls lt gt le ge) false op && agreeP (toCls lt gt le ge) (toCls lt gt le ge) true op
    && agreeP (toCls lt gt le ge) [mkCC 1 .int noCmp false] false op && agreeP [mkCC 1 .int noCmp false] (toCls lt gt le ge) false op

theorem toSameChk_ok : toSameChk = true := by decide +kernel

end CyVerif.C28

import CyVerif.Lemmas.C50DfaJ
/-! Subset construction, part K: one iteration of the work-list loop keeps the invariant. -/
namespace CyVerif.C50
open CyVerif.C46 (Reach)

theorem dstate_of_get {states : List DState} {p : Nat} {st : DState} (h : states[p]? = some st) :
    dstate states p = st := by
  unfold dstate; rw [h]; rfl

theorem dstate_eq_of_get {s1 s2 : List DState} {p : Nat} (h : s1[p]? = s2[p]?) : dstate s1 p = dstate s2 p := by
  unfold dstate; rw [h]

/-- what an extension preserves for an already finished state -/
theorem TransOK.ext {n : NFA} {q k : Nat} {its : List (Ev × SSet)} {sm sm' : SMap}
    (hlen : sm.keys.length = sm.states.length)
    (he : Ext n k its sm sm') (hq : q < sm.states.length) (hqk : q ≠ k) (h : TransOK n sm q) : TransOK n sm' q := by
  intro x hx
  obtain ⟨a, b⟩ := h x hx
  have hd : dstate sm'.states q = dstate sm.states q := dstate_eq_of_get (he.same q hq hqk)
  rw [hd, he.key_eq (by rw [hlen]; exact hq)]
  refine ⟨fun t ht => Nat.lt_of_lt_of_le (a t ht) he.grow, fun u => ?_⟩
  rw [← b u]
  cases hs : (dstate sm.states q).step x with
  | none => rfl
  | some t =>
    simp only [SMap.keyOf]
    rw [he.key_eq (by rw [hlen]; exact a t hs)]

theorem processState_spec (n : NFA) (hn : n.WF) (he : n.EndsAgree) (sm sm' : SMap) (k : Nat)
    (inv : SMInv n sm k) (hk : k < sm.states.length) (hr : processState n sm k = .ok sm') :
    SMInv n sm' (k + 1) ∧ sm.states.length ≤ sm'.states.length ∧ sm'.inits = sm.inits ∧
    (∀ p, p < sm.keys.length → sm'.key p = sm.key p) := by
  unfold processState at hr
  cases hm : mergeStates n ((sm.keys[k]?).getD []) TMap.empty with
  | none => simp [hm] at hr
  | some tm =>
    simp only [hm] at hr
    have hfresh := inv.fresh k (Nat.le_refl _) hk
    obtain ⟨ext, hf, hc⟩ := emitItems_spec n k tm.items [] sm sm' inv.len hk
      (by rw [hfresh]; exact fresh_from _ _) (by rw [hfresh]; exact fresh_covers _) hr
    simp only [List.nil_append] at hf hc
    obtain ⟨extra, hkeys, hextra⟩ := ext.keys
    have hkk : sm'.key k = (sm.keys[k]?).getD [] := ext.key_eq (by rw [inv.len]; exact hk)
    refine ⟨⟨ext.len, ?_, ?_, ?_, ?_, ?_⟩, ext.grow, ext.inits, fun p hp => ext.key_eq hp⟩
    · intro K hK
      rw [hkeys] at hK
      rcases List.mem_append.1 hK with hK | hK
      · exact inv.sorted K hK
      · obtain ⟨ev, hev⟩ := hextra K hK
        exact (merged_items n hn _ tm hm hev).1
    · intro K hK
      rw [hkeys] at hK
      rcases List.mem_append.1 hK with hK | hK
      · exact inv.closed K hK
      · obtain ⟨ev, hev⟩ := hextra K hK
        exact (merged_items n hn _ tm hm hev).2
    · intro q hq
      by_cases hq0 : q < sm.states.length
      · rw [ext.key_eq (by rw [inv.len]; exact hq0)]
        by_cases hqk : q = k
        · subst hqk; rw [ext.act]; exact inv.action q hq0
        · rw [dstate_eq_of_get (ext.same q hq0 hqk)]; exact inv.action q hq0
      · rw [dstate_of_get (ext.fresh q (by omega) hq)]; rfl
    · intro q hq1 hq2
      by_cases hq0 : q < sm.states.length
      · rw [dstate_eq_of_get (ext.same q hq0 (by omega))]
        exact inv.fresh q (by omega) hq0
      · rw [dstate_of_get (ext.fresh q (by omega) hq2)]; rfl
    · intro q hq1 hq2
      by_cases hqk : q = k
      · subst hqk
        exact transOK_of_items n hn he sm' q _ tm hm ext.len hkk hf hc
      · have hq0 : q < sm.states.length := by omega
        exact TransOK.ext inv.len ext hq0 hqk (inv.done q (by omega) hq0)

/-- the list iteration: when it stops, every state is finished -/
theorem dfaLoop_spec (n : NFA) (hn : n.WF) (he : n.EndsAgree) (fuel : Nat) :
    ∀ (k : Nat) (sm sm' : SMap), SMInv n sm k → k ≤ sm.states.length → dfaLoop n fuel k sm = .ok sm' →
      SMInv n sm' sm'.states.length ∧ sm.states.length ≤ sm'.states.length ∧ sm'.inits = sm.inits ∧
      (∀ p, p < sm.keys.length → sm'.key p = sm.key p) := by
  induction fuel with
  | zero => intro k sm sm' _ _ hr; simp [dfaLoop] at hr
  | succ fuel ih =>
    intro k sm sm' inv hk hr
    simp only [dfaLoop] at hr
    by_cases hlt : k < sm.states.length
    · simp only [hlt, if_true] at hr
      cases hp : processState n sm k with
      | error e => simp [hp] at hr
      | ok sm1 =>
        simp only [hp] at hr
        obtain ⟨inv1, g1, i1, k1⟩ := processState_spec n hn he sm sm1 k inv hlt hp
        obtain ⟨inv2, g2, i2, k2⟩ := ih (k + 1) sm1 sm' inv1 (by omega) hr
        refine ⟨inv2, by omega, by rw [i2, i1], fun p hp' => ?_⟩
        rw [k2 p (by rw [inv1.len, ← inv.len] at *; omega), k1 p hp']
    · simp only [hlt, if_false, Except.ok.injEq] at hr
      subst hr
      have : k = sm.states.length := by omega
      subst this
      exact ⟨inv, Nat.le_refl _, rfl, fun _ _ => rfl⟩

end CyVerif.C50

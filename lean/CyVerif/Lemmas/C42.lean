import CyVerif.Model.C42
/-! Lemmas for C42: a stable sort by an injective key is a function of the multiset. -/
namespace CyVerif.C42

theorem keyLe_trans (a b c : Key) : keyLe a b = true → keyLe b c = true → keyLe a c = true := by
  simp only [keyLe, decide_eq_true_eq]
  exact fun h1 h2 => List.le_trans h1 h2

theorem keyLe_total (a b : Key) : (keyLe a b || keyLe b a) = true := by
  simp only [keyLe, Bool.or_eq_true, decide_eq_true_eq]
  exact List.le_total a b

theorem keyLe_antisymm (a b : Key) : keyLe a b = true → keyLe b a = true → a = b := by
  simp only [keyLe, decide_eq_true_eq]
  exact fun h1 h2 => List.le_antisymm h1 h2

theorem sortBy_perm_self {α : Type} (key : α → Key) (l : List α) : (sortBy key l).Perm l :=
  List.mergeSort_perm l _

theorem mem_sortBy {α : Type} (key : α → Key) (l : List α) (a : α) : a ∈ sortBy key l ↔ a ∈ l :=
  (sortBy_perm_self key l).mem_iff

theorem sortBy_pairwise {α : Type} (key : α → Key) (l : List α) :
    (sortBy key l).Pairwise (fun a b => keyLe (key a) (key b) = true) :=
  List.pairwise_mergeSort (le := fun a b => keyLe (key a) (key b))
    (fun a b c => keyLe_trans (key a) (key b) (key c)) (fun a b => keyLe_total (key a) (key b)) l

/-- **Sorting by a key that is injective on the list gives the same list for every permutation of the input.** -/
theorem sortBy_perm {α : Type} (key : α → Key) {l₁ l₂ : List α}
    (hinj : ∀ a, a ∈ l₁ → ∀ b, b ∈ l₁ → key a = key b → a = b) (h : l₁.Perm l₂) :
    sortBy key l₁ = sortBy key l₂ := by
  apply List.Perm.eq_of_pairwise (le := fun a b => keyLe (key a) (key b) = true)
  · intro a b ha hb hab hba
    have ha' : a ∈ l₁ := (mem_sortBy key l₁ a).1 ha
    have hb' : b ∈ l₁ := h.mem_iff.2 ((mem_sortBy key l₂ b).1 hb)
    exact hinj a ha' b hb' (keyLe_antisymm _ _ hab hba)
  · exact sortBy_pairwise key l₁
  · exact sortBy_pairwise key l₂
  · exact (sortBy_perm_self key l₁).trans (h.trans (sortBy_perm_self key l₂).symm)

/-! ### string table -/

theorem scKey_inj (a b : SC) (h : scKey a = scKey b) : a.suffix = b.suffix := by
  simp [scKey] at h; exact h.2

/-- **`generate_string_constants` does not depend on the iteration order of `string_const_index`**
(cnames pairwise distinct, which `unique_const_cname` guarantees: `run_suffix_distinct`). -/
theorem emitStrings_perm_index {xs ys : List SC}
    (hd : ∀ a, a ∈ xs → ∀ b, b ∈ xs → a.suffix = b.suffix → a = b) (h : xs.Perm ys) :
    emitStrings xs = emitStrings ys := by
  have hs : sortBy scKey xs = sortBy scKey ys :=
    sortBy_perm scKey (fun a ha b hb hk => hd a ha b hb (scKey_inj a b hk)) h
  simp only [emitStrings, hs]

/-! ### numeric table -/

theorem code_inj (a b : NumType) (h : a.code = b.code) : a = b := by
  cases a <;> cases b <;> first | rfl | (exfalso; revert h; decide)

theorem numKey_inj (a b : NumC) (h : numKey a = numKey b) : a.value = b.value ∧ a.ty = b.ty := by
  simp only [numKey, List.cons.injEq, and_true] at h
  exact ⟨h.2.2.2, code_inj _ _ h.1⟩

/-- **`generate_num_constants` does not depend on the iteration order of `num_const_index`**
(the dict key `(value, py_type)` makes the entries pairwise distinct in it). -/
theorem emitNums_perm {xs ys : List NumC}
    (hd : ∀ a, a ∈ xs → ∀ b, b ∈ xs → a.value = b.value → a.ty = b.ty → a = b) (h : xs.Perm ys) :
    emitNums xs = emitNums ys := by
  have hs : sortBy numKey xs = sortBy numKey ys :=
    sortBy_perm numKey (fun a ha b hb hk => hd a ha b hb (numKey_inj a b hk).1 (numKey_inj a b hk).2) h
  simp only [emitNums, hs]

/-! ### `unique_const_cname` hands out fresh names -/

theorem get_isSome_iff (u : Used) (k : Bytes) : (u.get k).isSome = true ↔ k ∈ u.keys := by
  induction u with
  | nil => simp [Used.get, Used.keys]
  | cons p u ih =>
    obtain ⟨a, b⟩ := p
    simp only [Used.get, Used.keys, List.lookup, List.map_cons, List.mem_cons] at ih ⊢
    by_cases h : k = a
    · subst h; simp
    · have : (k == a) = false := by simpa using h
      simp [this, h, ih]

theorem keys_set (u : Used) (k : Bytes) (v : Nat) :
    (u.set k v).keys = if k ∈ u.keys then u.keys else u.keys ++ [k] := by
  unfold Used.set
  by_cases h : k ∈ u.keys
  · have h' := (get_isSome_iff u k).2 h
    simp only [Used.get] at h'
    rw [if_pos h, if_pos h']
    simp only [Used.keys, List.map_map]
    apply List.map_congr_left
    intro p _
    by_cases hp : p.1 = k <;> simp [hp]
  · have h' : ¬ ((u.lookup k).isSome = true) := fun hh => h ((get_isSome_iff u k).1 hh)
    rw [if_neg h, if_neg h']
    simp [Used.keys]

theorem mem_keys_set (u : Used) (k : Bytes) (v : Nat) (x : Bytes) :
    x ∈ (u.set k v).keys ↔ x ∈ u.keys ∨ x = k := by
  rw [keys_set]
  by_cases h : k ∈ u.keys
  · simp only [h, if_true]
    constructor
    · exact Or.inl
    · rintro (h1 | h1)
      · exact h1
      · exact h1 ▸ h
  · simp [h]

theorem uniqLoop_fresh (f : Fmt) (value : Bytes) :
    ∀ (fuel : Nat) (used : Used) (cname c : Bytes) (used' : Used),
      uniqLoop f value fuel used cname = some (c, used') →
      c ∉ used.keys ∧ c ∈ used'.keys ∧ ∀ x, x ∈ used.keys → x ∈ used'.keys := by
  intro fuel
  induction fuel with
  | zero => intro used cname c used' h; simp [uniqLoop] at h
  | succ n ih =>
    intro used cname c used' h
    unfold uniqLoop at h
    by_cases hc : (used.get cname).isSome = true
    · simp only [hc, if_true] at h
      cases hv : used.get value with
      | none => simp [hv] at h
      | some cnt =>
        simp only [hv] at h
        have := ih _ _ _ _ h
        have hsub : ∀ x, x ∈ used.keys → x ∈ (used.set value (cnt + 1)).keys :=
          fun x hx => (mem_keys_set used value (cnt + 1) x).2 (Or.inl hx)
        exact ⟨fun hx => this.1 (hsub c hx), this.2.1, fun x hx => this.2.2 x (hsub x hx)⟩
    · simp only [hc] at h
      simp only [Bool.false_eq_true, if_false, Option.some.injEq, Prod.mk.injEq] at h
      obtain ⟨h1, h2⟩ := h
      subst h1; subst h2
      refine ⟨fun hx => hc ((get_isSome_iff used cname).2 hx), (mem_keys_set used cname 1 cname).2 (Or.inr rfl), ?_⟩
      exact fun x hx => (mem_keys_set used cname 1 x).2 (Or.inl hx)

/-- the name handed out is not in the map before, is in it afterwards, and nothing is forgotten -/
theorem uniq_fresh (f : Fmt) (used : Used) (c : Bytes) (used' : Used) (h : uniq f used = some (c, used')) :
    c ∉ used.keys ∧ c ∈ used'.keys ∧ ∀ x, x ∈ used.keys → x ∈ used'.keys :=
  uniqLoop_fresh f _ _ used _ c used' h

/-! ### every reachable pool has pairwise distinct cnames -/

def PoolInv (pool : Pool) : Prop :=
  (∀ x, x ∈ pool.strs.map (·.suffix) → x ∈ pool.used.keys) ∧ (pool.strs.map (·.suffix)).Nodup

theorem updateAt_suffix (l : List SC) (b : Bytes) (f : SC → SC) (hf : ∀ s, (f s).suffix = s.suffix) :
    (updateAt l b f).map (·.suffix) = l.map (·.suffix) := by
  simp only [updateAt, List.map_map]
  apply List.map_congr_left
  intro s _
  by_cases h : s.bytes = b
  · simp [h, hf]
  · simp [h]

theorem getStr_inv (pool pool' : Pool) (r : Req) (sc : SC) (hi : PoolInv pool)
    (h : pool.getStr r = some (sc, pool')) : PoolInv pool' := by
  unfold Pool.getStr at h
  cases hf : pool.strs.find? (·.bytes == r.bytes) with
  | some s => simp [hf] at h; rw [← h.2]; exact hi
  | none =>
    simp only [hf] at h
    cases hn : newStrSuffix pool.used r.bytes with
    | none => simp [hn] at h
    | some pr =>
      obtain ⟨suffix, used⟩ := pr
      simp only [hn, Option.some.injEq, Prod.mk.injEq] at h
      obtain ⟨_, h2⟩ := h
      subst h2
      have fr := uniq_fresh _ _ _ _ hn
      constructor
      · intro x hx
        simp only [List.map_append, List.map_cons, List.map_nil, List.mem_append, List.mem_singleton] at hx
        rcases hx with hx | hx
        · exact fr.2.2 x (hi.1 x hx)
        · exact hx ▸ fr.2.1
      · simp only [List.map_append, List.map_cons, List.map_nil]
        apply List.nodup_append.2
        refine ⟨hi.2, by simp, ?_⟩
        intro a ha b hb
        simp only [List.mem_singleton] at hb
        intro hab
        exact fr.1 (hb ▸ hab ▸ hi.1 a ha)

theorem step_inv (p : Prefixes) (pool pool' : Pool) (r : Req) (c : Bytes) (hi : PoolInv pool)
    (h : pool.step p r = some (c, pool')) : PoolInv pool' := by
  unfold Pool.step at h
  cases hg : pool.getStr r with
  | none => simp [hg] at h
  | some pr =>
    obtain ⟨sc, pool1⟩ := pr
    have hi1 := getStr_inv pool pool1 r sc hi hg
    simp only [hg] at h
    cases hp : r.py with
    | none =>
      simp only [hp, Option.some.injEq, Prod.mk.injEq] at h
      rw [← h.2]
      have e := updateAt_suffix pool1.strs r.bytes (fun s => { s with cUsed := true }) (fun _ => rfl)
      exact ⟨fun x hx => hi1.1 x (e ▸ hx), e ▸ hi1.2⟩
    | some ident =>
      simp only [hp, Option.some.injEq, Prod.mk.injEq] at h
      rw [← h.2]
      have e := updateAt_suffix pool1.strs r.bytes (fun s => { s with py := (sc.getPy p r.enc ident).2.py }) (fun _ => rfl)
      exact ⟨fun x hx => hi1.1 x (e ▸ hx), e ▸ hi1.2⟩

theorem run_inv (p : Prefixes) : ∀ (reqs : List Req) (pool pool' : Pool) (cs : List Bytes),
    PoolInv pool → Pool.run p pool reqs = some (cs, pool') → PoolInv pool' := by
  intro reqs
  induction reqs with
  | nil => intro pool pool' cs hi h; simp [Pool.run] at h; rw [← h.2]; exact hi
  | cons r rs ih =>
    intro pool pool' cs hi h
    unfold Pool.run at h
    cases hs : pool.step p r with
    | none => simp [hs] at h
    | some pr =>
      obtain ⟨c, pool1⟩ := pr
      simp only [hs] at h
      cases hr : Pool.run p pool1 rs with
      | none => simp [hr] at h
      | some pr2 =>
        obtain ⟨cs2, pool2⟩ := pr2
        simp only [hr, Option.some.injEq, Prod.mk.injEq] at h
        rw [← h.2]
        exact ih pool1 pool2 cs2 (step_inv p pool pool1 r c hi hs) hr

theorem inj_of_nodup_map {α β : Type} (f : α → β) : ∀ (l : List α), (l.map f).Nodup →
    ∀ a, a ∈ l → ∀ b, b ∈ l → f a = f b → a = b := by
  intro l
  induction l with
  | nil => intro _ a ha; simp at ha
  | cons x xs ih =>
    intro hn a ha b hb hab
    simp only [List.map_cons, List.nodup_cons, List.mem_map, not_exists, not_and] at hn
    simp only [List.mem_cons] at ha hb
    rcases ha with ha | ha <;> rcases hb with hb | hb
    · rw [ha, hb]
    · subst ha; exact absurd hab.symm (hn.1 b hb)
    · subst hb; exact absurd hab (hn.1 a ha)
    · exact ih hn.2 a ha b hb hab

/-- after ANY request sequence the cnames in `string_const_index` are pairwise distinct -/
theorem run_suffix_distinct (p : Prefixes) (reqs : List Req) (cs : List Bytes) (pool : Pool)
    (h : Pool.run p { used := [], strs := [] } reqs = some (cs, pool)) :
    ∀ a, a ∈ pool.strs → ∀ b, b ∈ pool.strs → a.suffix = b.suffix → a = b :=
  inj_of_nodup_map (·.suffix) pool.strs
    (run_inv p reqs _ pool cs ⟨by simp, by simp⟩ h).2

/-! ### utility code: emission order = first-use order, whatever the set does internally -/

theorem useAll_eq (front : Bool) : ∀ (reqs seen before out : List Nat), (∀ x, x ∈ seen ↔ x ∈ before) →
    useAll front reqs seen out = out.reverse ++ firstUse reqs before := by
  intro reqs
  induction reqs with
  | nil => intro seen before out _; simp [useAll, firstUse]
  | cons u rest ih =>
    intro seen before out hm
    unfold useAll firstUse
    by_cases hu : u ∈ seen
    · have hb : u ∈ before := (hm u).1 hu
      simp only [List.contains_iff_mem, hu, hb, if_true]
      exact ih seen before out hm
    · have hb : ¬ u ∈ before := fun h => hu ((hm u).2 h)
      simp only [List.contains_iff_mem, hu, hb, if_false]
      rw [ih _ (u :: before) (u :: out)]
      · simp
      · intro x
        cases front <;> simp [hm x, or_comm]

/-! ### `sort_types_by_inheritance` uses `type_dict` for look-ups only -/

theorem lookup_perm {d1 d2 : TypeDict} (h : d1.Perm d2) :
    (d1.map (·.1)).Nodup → ∀ k, d1.lookup k = d2.lookup k := by
  induction h with
  | nil => intro _ k; rfl
  | cons x _ ih =>
    intro hn k
    simp only [List.map_cons, List.nodup_cons] at hn
    obtain ⟨a, b⟩ := x
    simp only [List.lookup]
    cases k == a <;> simp [ih hn.2 k]
  | swap x y l =>
    intro hn k
    obtain ⟨a, b⟩ := x
    obtain ⟨c, e⟩ := y
    simp only [List.map_cons, List.nodup_cons, List.mem_cons, not_or] at hn
    have hne : c ≠ a := hn.1.1
    simp only [List.lookup]
    by_cases h1 : k = a
    · subst h1
      have : (k == c) = false := by simpa using fun h => hne h.symm
      simp [this]
    · have : (k == a) = false := by simpa using h1
      simp [this]
  | trans h1 _ ih1 ih2 =>
    intro hn k
    have hn2 := (List.Perm.nodup_iff (h1.map (·.1))).1 hn
    rw [ih1 hn k, ih2 hn2 k]

/-! ### when the cleaning map is injective on the requested strings, cnames are derived from the content alone -/

def ContentInv (S : List Bytes) (pool : Pool) : Prop :=
  pool.used.keys = pool.strs.map (·.suffix) ∧
  ∀ sc, sc ∈ pool.strs → sc.suffix = clean sc.bytes ∧ sc.bytes ∈ S

theorem mem_updateAt (P : SC → Prop) (l : List SC) (b : Bytes) (f : SC → SC) (hf : ∀ s, P s → P (f s))
    (hl : ∀ s, s ∈ l → P s) : ∀ s, s ∈ updateAt l b f → P s := by
  intro s hs
  simp only [updateAt, List.mem_map] at hs
  obtain ⟨t, ht, rfl⟩ := hs
  by_cases h : t.bytes = b
  · simp [h, hf t (hl t ht)]
  · simp [h, hl t ht]

theorem getStr_content (S : List Bytes) (hS : ∀ a, a ∈ S → ∀ b, b ∈ S → clean a = clean b → a = b)
    (pool pool' : Pool) (r : Req) (sc : SC) (hr : r.bytes ∈ S) (hi : ContentInv S pool)
    (h : pool.getStr r = some (sc, pool')) : ContentInv S pool' ∧ sc.suffix = clean sc.bytes ∧ sc.bytes ∈ S := by
  unfold Pool.getStr at h
  cases hf : pool.strs.find? (·.bytes == r.bytes) with
  | some s =>
    simp [hf] at h
    rw [← h.2, ← h.1]
    exact ⟨hi, hi.2 s (List.mem_of_find?_eq_some hf)⟩
  | none =>
    simp only [hf] at h
    have hnone : ∀ s, s ∈ pool.strs → s.bytes ≠ r.bytes := by
      intro s hs hb
      have := List.find?_eq_none.1 hf s hs
      simp [hb] at this
    have hfresh : ¬ clean r.bytes ∈ pool.used.keys := by
      rw [hi.1]
      simp only [List.mem_map, not_exists, not_and]
      intro s hs hsuf
      have h1 := hi.2 s hs
      exact hnone s hs (hS _ h1.2 _ hr (h1.1 ▸ hsuf))
    have hu : newStrSuffix pool.used r.bytes = some (clean r.bytes, pool.used.set (clean r.bytes) 1) := by
      have hg : ¬ ((pool.used.get (clean r.bytes)).isSome = true) := fun hh => hfresh ((get_isSome_iff _ _).1 hh)
      simp [newStrSuffix, uniq, constFmt, Fmt.name, uniqLoop, hg]
    simp only [hu, Option.some.injEq, Prod.mk.injEq] at h
    obtain ⟨h1, h2⟩ := h
    subst h1; subst h2
    refine ⟨⟨?_, ?_⟩, rfl, hr⟩
    · rw [keys_set, if_neg hfresh, hi.1]; simp
    · intro s hs
      simp only [List.mem_append, List.mem_singleton] at hs
      rcases hs with hs | hs
      · exact hi.2 s hs
      · subst hs; exact ⟨rfl, hr⟩

theorem step_content (S : List Bytes) (hS : ∀ a, a ∈ S → ∀ b, b ∈ S → clean a = clean b → a = b)
    (p : Prefixes) (pool pool' : Pool) (r : Req) (c : Bytes) (hr : r.bytes ∈ S) (hi : ContentInv S pool)
    (h : pool.step p r = some (c, pool')) : ContentInv S pool' := by
  unfold Pool.step at h
  cases hg : pool.getStr r with
  | none => simp [hg] at h
  | some pr =>
    obtain ⟨sc, pool1⟩ := pr
    have hi1 := (getStr_content S hS pool pool1 r sc hr hi hg).1
    simp only [hg] at h
    cases hp : r.py with
    | none =>
      simp only [hp, Option.some.injEq, Prod.mk.injEq] at h
      rw [← h.2]
      have e := updateAt_suffix pool1.strs r.bytes (fun s => { s with cUsed := true }) (fun _ => rfl)
      exact ⟨by rw [e]; exact hi1.1,
        mem_updateAt (fun s => s.suffix = clean s.bytes ∧ s.bytes ∈ S) _ _ _ (fun _ hs => hs) hi1.2⟩
    | some ident =>
      simp only [hp, Option.some.injEq, Prod.mk.injEq] at h
      rw [← h.2]
      have e := updateAt_suffix pool1.strs r.bytes (fun s => { s with py := (sc.getPy p r.enc ident).2.py }) (fun _ => rfl)
      exact ⟨by rw [e]; exact hi1.1,
        mem_updateAt (fun s => s.suffix = clean s.bytes ∧ s.bytes ∈ S) _ _ _ (fun _ hs => hs) hi1.2⟩

theorem run_content (S : List Bytes) (hS : ∀ a, a ∈ S → ∀ b, b ∈ S → clean a = clean b → a = b) (p : Prefixes) :
    ∀ (reqs : List Req) (pool pool' : Pool) (cs : List Bytes), (∀ r, r ∈ reqs → r.bytes ∈ S) →
    ContentInv S pool → Pool.run p pool reqs = some (cs, pool') → ContentInv S pool' := by
  intro reqs
  induction reqs with
  | nil => intro pool pool' cs _ hi h; simp [Pool.run] at h; rw [← h.2]; exact hi
  | cons r rs ih =>
    intro pool pool' cs hr hi h
    unfold Pool.run at h
    cases hs : pool.step p r with
    | none => simp [hs] at h
    | some pr =>
      obtain ⟨c, pool1⟩ := pr
      simp only [hs] at h
      cases hr2 : Pool.run p pool1 rs with
      | none => simp [hr2] at h
      | some pr2 =>
        obtain ⟨cs2, pool2⟩ := pr2
        simp only [hr2, Option.some.injEq, Prod.mk.injEq] at h
        rw [← h.2]
        exact ih pool1 pool2 cs2 (fun r' hr' => hr r' (List.mem_cons_of_mem _ hr'))
          (step_content S hS p pool pool1 r c (hr r List.mem_cons_self) hi hs) hr2

/-! ### every reachable numeric pool has pairwise distinct `(value, py_type)` -/

def NumInv (pool : NumPool) : Prop := (pool.nums.map (fun c => (c.value, c.ty))).Nodup

theorem numStep_inv (p : Prefixes) (pool pool' : NumPool) (v : Bytes) (t : NumType) (c : Bytes)
    (hi : NumInv pool) (h : pool.step p v t = some (c, pool')) : NumInv pool' := by
  unfold NumPool.step at h
  cases hf : pool.nums.find? (fun c => c.value == v && c.ty == t) with
  | some s => simp [hf] at h; rw [← h.2]; exact hi
  | none =>
    simp only [hf] at h
    cases hn : newNumCname p pool.used v t with
    | none => simp [hn] at h
    | some pr =>
      obtain ⟨cname, used⟩ := pr
      simp only [hn, Option.some.injEq, Prod.mk.injEq] at h
      rw [← h.2]
      unfold NumInv
      simp only [List.map_append, List.map_cons, List.map_nil]
      apply List.nodup_append.2
      refine ⟨hi, by simp, ?_⟩
      intro a ha b hb
      simp only [List.mem_singleton] at hb
      simp only [List.mem_map] at ha
      obtain ⟨s, hs, rfl⟩ := ha
      intro hab
      have := List.find?_eq_none.1 hf s hs
      rw [hb] at hab
      simp only [Prod.mk.injEq] at hab
      simp [hab.1, hab.2] at this

theorem numRun_inv (p : Prefixes) : ∀ (reqs : List (Bytes × NumType)) (pool pool' : NumPool) (cs : List Bytes),
    NumInv pool → NumPool.run p pool reqs = some (cs, pool') → NumInv pool' := by
  intro reqs
  induction reqs with
  | nil => intro pool pool' cs hi h; simp [NumPool.run] at h; rw [← h.2]; exact hi
  | cons r rs ih =>
    intro pool pool' cs hi h
    obtain ⟨v, t⟩ := r
    unfold NumPool.run at h
    cases hs : pool.step p v t with
    | none => simp [hs] at h
    | some pr =>
      obtain ⟨c, pool1⟩ := pr
      simp only [hs] at h
      cases hr : NumPool.run p pool1 rs with
      | none => simp [hr] at h
      | some pr2 =>
        obtain ⟨cs2, pool2⟩ := pr2
        simp only [hr, Option.some.injEq, Prod.mk.injEq] at h
        rw [← h.2]
        exact ih pool1 pool2 cs2 (numStep_inv p pool pool1 v t c hi hs) hr

theorem numRun_distinct (p : Prefixes) (reqs : List (Bytes × NumType)) (cs : List Bytes) (pool : NumPool)
    (h : NumPool.run p { used := [], nums := [] } reqs = some (cs, pool)) :
    ∀ a, a ∈ pool.nums → ∀ b, b ∈ pool.nums → a.value = b.value → a.ty = b.ty → a = b := by
  intro a ha b hb hv ht
  have hn : (pool.nums.map (fun c : NumC => (c.value, c.ty))).Nodup :=
    numRun_inv p reqs _ pool cs (by simp [NumInv]) h
  exact inj_of_nodup_map (fun c : NumC => (c.value, c.ty)) pool.nums hn a ha b hb (by simp [hv, ht])

end CyVerif.C42

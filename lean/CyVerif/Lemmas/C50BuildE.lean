import CyVerif.Lemmas.C50BuildD
/-! RE → NFA, part E: the reference semantics of the RE classes over the event alphabet, and the optional
BOL/EOL prefix machine of `build_opt`. -/
namespace CyVerif.C50

/-- optional BOL: present only where a line may start (`match_bol`) -/
def optPre (mb : Bool) (p : List CurChar) : Prop := p = [] ∨ (mb = true ∧ p = [.bol])

/-- one character of a code range; with `nocase` also the other-case twin of its ASCII letters -/
def RawSem (c0 c1 : Int) (nc : Bool) (w : List CurChar) : Prop :=
  EvLang (.range c0 c1) w ∨
  (nc = true ∧ ((∃ a b, uppercaseRange c0 c1 = some (a, b) ∧ EvLang (.range a b) w) ∨
                (∃ a b, lowercaseRange c0 c1 = some (a, b) ∧ EvLang (.range a b) w)))

mutual
/-- **Reference semantics**: the language of an RE over the event alphabet (characters, BOL, EOL, EOF).
`mb` = the RE stands where a line may start, so a BOL event may precede its first symbol; an EOL event may
precede every newline character. -/
def RE.Sem : RE → Bool → Bool → List CurChar → Prop
  | .raw c0 c1, mb, nc => fun w => ∃ p w', optPre mb p ∧ w = p ++ w' ∧ RawSem c0 c1 nc w'
  | .nl, mb, _ => fun w => ∃ p e, optPre mb p ∧ (e = [] ∨ e = [.eol]) ∧ w = p ++ (e ++ [.chr 10])
  | .sym k, mb, _ => fun w => ∃ p, optPre (mb && k == .eol) p ∧ w = p ++ (symOfSp k).toList
  | .seq rs, mb, nc => rs.SemSeq mb nc
  | .alt rs, mb, nc => fun w => rs.SemAltN mb nc w ∨ ∃ p w', optPre mb p ∧ w = p ++ w' ∧ rs.SemAltNon nc w'
  | .rep1 r, mb, nc => Plus (r.Sem (mb || r.matchNl) nc)
  | .sw r nocase, mb, _ => r.Sem mb nocase
def REs.SemSeq : REs → Bool → Bool → List CurChar → Prop
  | .nil, _, _ => fun w => w = []
  | .cons r rs, mb, nc => fun w => ∃ w1 w2, w = w1 ++ w2 ∧ r.Sem mb nc w1 ∧
      rs.SemSeq (r.matchNl || (mb && r.nullable)) nc w2
def REs.SemAltN : REs → Bool → Bool → List CurChar → Prop
  | .nil, _, _ => fun _ => False
  | .cons r rs, mb, nc => fun w => (r.nullable = true ∧ r.Sem mb nc w) ∨ rs.SemAltN mb nc w
def REs.SemAltNon : REs → Bool → List CurChar → Prop
  | .nil, _ => fun _ => False
  | .cons r rs, nc => fun w => (r.nullable = false ∧ r.Sem false nc w) ∨ rs.SemAltNon nc w
end

mutual
/-- every code range lies between the sentinels -/
def RE.InBounds : RE → Prop
  | .raw c0 c1 => (Ev.range c0 c1).InBounds
  | .nl => True
  | .sym _ => True
  | .seq rs => rs.InBounds
  | .alt rs => rs.InBounds
  | .rep1 r => r.InBounds
  | .sw r _ => r.InBounds
def REs.InBounds : REs → Prop
  | .nil => True
  | .cons r rs => r.InBounds ∧ rs.InBounds
end

/-- the side conditions of a `build_machine` call -/
structure Pre (m : NFA) (i f : Nat) : Prop where
  wf : m.WF
  hif : i ≠ f
  hi : i < m.nodes.length
  hf : f < m.nodes.length

theorem evLang_eps (w : List CurChar) : EvLang (.sp .eps) w ↔ w = [] := by
  unfold EvLang EvMatches
  constructor
  · rintro ⟨l, _, hl, rfl⟩; subst hl; rfl
  · rintro rfl; exact ⟨none, trivial, rfl, rfl⟩

theorem evLang_sp (k : Sp) (w : List CurChar) : EvLang (.sp k) w ↔ w = (symOfSp k).toList := by
  unfold EvLang EvMatches
  constructor
  · rintro ⟨l, _, hl, rfl⟩; subst hl; rfl
  · rintro rfl
    refine ⟨symOfSp k, ?_, rfl, rfl⟩
    cases k <;> simp [symOfSp, ValidLab, ValidSym]

/-- `build_opt(m, i, k)` followed by a machine from the new state -/
theorem certBuildOpt {m n : NFA} {i f : Nat} {L : List CurChar → Prop} (k : Sp) (hp : Pre m i f)
    (c : BuildCert (buildOpt m i k).1 n (buildOpt m i k).2 f L) :
    Nonempty (BuildCert m n i f (fun w => ∃ p w', (p = [] ∨ p = (symOfSp k).toList) ∧ w = p ++ w' ∧ L w')) := by
  have hN : i ≠ m.nodes.length := by have := hp.hi; omega
  have hw' := newState_wf m hp.wf
  have hlen' : m.newState.1.nodes.length = m.nodes.length + 1 := by simp [NFA.newState]
  have c1a := certEdge m.newState.1 hw' i m.nodes.length hN (by rw [hlen']; have := hp.hi; omega) (.sp .eps) trivial
  have c1b := certEdge (m.newState.1.addTrans i (.sp .eps) m.nodes.length) c1a.wf i m.nodes.length hN
    (by have := c1a.grow; rw [hlen'] at this; have := hp.hi; omega) (.sp k) trivial
  have c1 := certAlt hN (by rw [hlen']; have := hp.hi; omega) (by rw [hlen']; omega) c1a c1b
  have c2 := certSeq hp.hif hp.hi hp.hf c1 c
  refine BuildCert.congr ?_ c2
  intro w
  constructor
  · rintro ⟨w1, w2, rfl, h1 | h1, h2⟩
    · exact ⟨w1, w2, .inl ((evLang_eps w1).1 h1), rfl, h2⟩
    · exact ⟨w1, w2, .inr ((evLang_sp k w1).1 h1), rfl, h2⟩
  · rintro ⟨p, w', hp' | hp', rfl, h2⟩
    · exact ⟨p, w', rfl, .inl ((evLang_eps p).2 hp'), h2⟩
    · exact ⟨p, w', rfl, .inr ((evLang_sp k p).2 hp'), h2⟩

theorem buildOpt_pre {m : NFA} {i f : Nat} (k : Sp) (hp : Pre m i f) : Pre (buildOpt m i k).1 (buildOpt m i k).2 f := by
  have hw' := newState_wf m hp.wf
  have hlen' : m.newState.1.nodes.length = m.nodes.length + 1 := by simp [NFA.newState]
  have hi := hp.hi
  have hf := hp.hf
  obtain ⟨a1, a2, _, _, _⟩ := addTrans_spec m.newState.1 hw' i (.sp .eps) m.nodes.length (by omega) trivial
  obtain ⟨b1, b2, _, _, _⟩ := addTrans_spec _ a1 i (.sp k) m.nodes.length (by rw [a2]; omega) trivial
  refine ⟨b1, ?_, ?_, ?_⟩
  · show m.nodes.length ≠ f; omega
  · show m.nodes.length < ((m.newState.1.addTrans i (.sp .eps) m.nodes.length).addTrans i (.sp k) m.nodes.length).nodes.length
    rw [b2, a2]; omega
  · show f < ((m.newState.1.addTrans i (.sp .eps) m.nodes.length).addTrans i (.sp k) m.nodes.length).nodes.length
    rw [b2, a2]; omega

/-- `if match_bol: initial_state = self.build_opt(m, initial_state, BOL)` followed by a machine -/
theorem certOptBol {m n : NFA} {i f : Nat} {L : List CurChar → Prop} (mb : Bool) (hp : Pre m i f)
    (c : BuildCert (optBol m i mb).1 n (optBol m i mb).2 f L) :
    Nonempty (BuildCert m n i f (fun w => ∃ p w', optPre mb p ∧ w = p ++ w' ∧ L w')) := by
  cases mb with
  | false =>
    refine BuildCert.congr ?_ c
    intro w
    constructor
    · intro h; exact ⟨[], w, .inl rfl, rfl, h⟩
    · rintro ⟨p, w', hp' | ⟨hf, _⟩, rfl, h⟩
      · subst hp'; exact h
      · cases hf
  | true =>
    obtain ⟨c'⟩ := certBuildOpt .bol hp c
    refine BuildCert.congr ?_ c'
    intro w
    constructor
    · rintro ⟨p, w', hp' | hp', rfl, h⟩
      · exact ⟨p, w', .inl hp', rfl, h⟩
      · exact ⟨p, w', .inr ⟨rfl, hp'⟩, rfl, h⟩
    · rintro ⟨p, w', hp' | ⟨_, hp'⟩, rfl, h⟩
      · exact ⟨p, w', .inl hp', rfl, h⟩
      · exact ⟨p, w', .inr hp', rfl, h⟩

theorem optBol_pre {m : NFA} {i f : Nat} (mb : Bool) (hp : Pre m i f) : Pre (optBol m i mb).1 (optBol m i mb).2 f := by
  cases mb with
  | false => exact hp
  | true => exact buildOpt_pre .bol hp

end CyVerif.C50

import CyVerif.Lemmas.C40Basic
/-! C40: facts about the Python-level operators needed to discharge builtin-type claims. -/
namespace CyVerif.C40

variable {F : Type}

def IsIntLike (v : Val F) : Prop := (∃ n, v = .int n) ∨ (∃ b, v = .bool b)
def IsNumLike (v : Val F) : Prop := IsIntLike v ∨ ∃ x, v = .flt x
/-- … or `None` (a legal value of a builtin-typed variable; every operator then raises) -/
def IsIntLikeN (v : Val F) : Prop := (∃ n, v = .int n) ∨ (∃ b, v = .bool b) ∨ v = .none
def IsNumLikeN (v : Val F) : Prop := IsIntLikeN v ∨ ∃ x, v = .flt x

theorem IsIntLikeN.cases {v : Val F} (h : IsIntLikeN v) : IsIntLike v ∨ v = .none := by
  rcases h with h | h | h
  · exact Or.inl (Or.inl h)
  · exact Or.inl (Or.inr h)
  · exact Or.inr h

theorem pyBin_none_l {fo : FOps F} {op : BinOp} {b r : Val F} (h : pyBin fo op .none b = .ok r) : False := by
  cases b <;> cases op <;> simp [pyBin, Val.num?, Val.int?] at h

theorem pyBin_none_r {fo : FOps F} {op : BinOp} {a r : Val F} (h : pyBin fo op a .none = .ok r) : False := by
  cases a <;> cases op <;> simp [pyBin, Val.num?, Val.int?] at h

theorem pyBin_intClosed {fo : FOps F} {op : BinOp} {a b r : Val F} (hop : op.intClosed = true)
    (ha : IsIntLike a) (hb : IsIntLike b) (h : pyBin fo op a b = .ok r) : IsIntLike r := by
  rcases ha with ⟨x, rfl⟩ | ⟨x, rfl⟩ <;> rcases hb with ⟨y, rfl⟩ | ⟨y, rfl⟩
  · simp only [pyBin, Val.num?] at h
    obtain ⟨n, rfl⟩ := pyIntBin_int hop h; exact Or.inl ⟨n, rfl⟩
  · simp only [pyBin, Val.num?] at h
    obtain ⟨n, rfl⟩ := pyIntBin_int hop h; exact Or.inl ⟨n, rfl⟩
  · simp only [pyBin, Val.num?] at h
    obtain ⟨n, rfl⟩ := pyIntBin_int hop h; exact Or.inl ⟨n, rfl⟩
  · simp only [pyBin] at h
    cases op <;> simp [BinOp.intClosed] at hop <;> simp only at h
    all_goals first
      | (cases h; exact Or.inr ⟨_, rfl⟩)
      | (obtain ⟨n, rfl⟩ := pyIntBin_int (by rfl) h; exact Or.inl ⟨n, rfl⟩)

theorem pyBin_div_flt {fo : FOps F} {a b r : Val F}
    (ha : IsIntLike a) (hb : IsIntLike b) (h : pyBin fo .div a b = .ok r) : ∃ z, r = .flt z := by
  rcases ha with ⟨x, rfl⟩ | ⟨x, rfl⟩ <;> rcases hb with ⟨y, rfl⟩ | ⟨y, rfl⟩ <;>
    simp only [pyBin, Val.num?] at h <;> exact pyIntBin_div_flt h

theorem pyBin_float {fo : FOps F} {op : BinOp} {a b r : Val F} (hop : op.floatArith = true)
    (ha : IsNumLike a) (hb : IsNumLike b) (hf : (∃ x, a = .flt x) ∨ (∃ x, b = .flt x))
    (h : pyBin fo op a b = .ok r) : ∃ z, r = .flt z := by
  have hio : op.intOnly = false := by cases op <;> simp [BinOp.floatArith] at hop <;> rfl
  rcases ha with (⟨x, rfl⟩ | ⟨x, rfl⟩) | ⟨x, rfl⟩ <;> rcases hb with (⟨y, rfl⟩ | ⟨y, rfl⟩) | ⟨y, rfl⟩
  all_goals first
    | (rcases hf with ⟨z, hz⟩ | ⟨z, hz⟩ <;> cases hz)
    | skip
  all_goals
    simp only [pyBin, Val.num?, hio] at h
    simp only [Bool.false_eq_true, ↓reduceIte] at h
    obtain ⟨fx, _, h⟩ := Out.bind_eq_ok h
    obtain ⟨fy, _, h⟩ := Out.bind_eq_ok h
    exact pyFloatBin_flt h

theorem pyBin_str_add {fo : FOps F} {x y : List Nat} {r : Val F} (h : pyBin fo .add (.str x) (.str y) = .ok r) :
    ∃ cs, r = .str cs := by
  simp only [pyBin] at h
  split at h <;> cases h; exact ⟨_, rfl⟩

theorem pyBin_str_mul_r {fo : FOps F} {x : List Nat} {b r : Val F} (hb : IsIntLike b)
    (h : pyBin fo .mul (.str x) b = .ok r) : ∃ cs, r = .str cs := by
  rcases hb with ⟨y, rfl⟩ | ⟨y, rfl⟩ <;> simp only [pyBin, Val.int?] at h
  all_goals
    repeat' split at h
    all_goals first | (cases h; exact ⟨_, rfl⟩) | cases h

theorem pyBin_str_mul_l {fo : FOps F} {x : List Nat} {a r : Val F} (ha : IsIntLike a)
    (h : pyBin fo .mul a (.str x) = .ok r) : ∃ cs, r = .str cs := by
  rcases ha with ⟨y, rfl⟩ | ⟨y, rfl⟩ <;> simp only [pyBin, Val.int?] at h
  all_goals
    repeat' split at h
    all_goals first | (cases h; exact ⟨_, rfl⟩) | cases h

/-! the same facts with `None` allowed as an operand (the operation then raises) -/

theorem pyBin_intClosedN {fo : FOps F} {op : BinOp} {a b r : Val F} (hop : op.intClosed = true)
    (ha : IsIntLikeN a) (hb : IsIntLikeN b) (h : pyBin fo op a b = .ok r) : IsIntLike r := by
  rcases ha.cases with ha | rfl
  · rcases hb.cases with hb | rfl
    · exact pyBin_intClosed hop ha hb h
    · exact (pyBin_none_r h).elim
  · exact (pyBin_none_l h).elim

theorem pyBin_div_fltN {fo : FOps F} {a b r : Val F}
    (ha : IsIntLikeN a) (hb : IsIntLikeN b) (h : pyBin fo .div a b = .ok r) : ∃ z, r = .flt z := by
  rcases ha.cases with ha | rfl
  · rcases hb.cases with hb | rfl
    · exact pyBin_div_flt ha hb h
    · exact (pyBin_none_r h).elim
  · exact (pyBin_none_l h).elim

theorem pyBin_floatN {fo : FOps F} {op : BinOp} {a b r : Val F} (hop : op.floatArith = true)
    (ha : IsNumLikeN a) (hb : IsNumLikeN b) (hf : (∃ x, a = .flt x) ∨ (∃ x, b = .flt x))
    (h : pyBin fo op a b = .ok r) : ∃ z, r = .flt z := by
  have ha' : IsNumLike a ∨ a = .none := by
    rcases ha with ha | ha
    · rcases ha.cases with ha | ha
      · exact Or.inl (Or.inl ha)
      · exact Or.inr ha
    · exact Or.inl (Or.inr ha)
  have hb' : IsNumLike b ∨ b = .none := by
    rcases hb with hb | hb
    · rcases hb.cases with hb | hb
      · exact Or.inl (Or.inl hb)
      · exact Or.inr hb
    · exact Or.inl (Or.inr hb)
  rcases ha' with ha' | rfl
  · rcases hb' with hb' | rfl
    · exact pyBin_float hop ha' hb' hf h
    · exact (pyBin_none_r h).elim
  · exact (pyBin_none_l h).elim

theorem pyBin_str_mul_rN {fo : FOps F} {x : List Nat} {b r : Val F} (hb : IsIntLikeN b)
    (h : pyBin fo .mul (.str x) b = .ok r) : ∃ cs, r = .str cs := by
  rcases hb.cases with hb | rfl
  · exact pyBin_str_mul_r hb h
  · exact (pyBin_none_r h).elim

theorem pyBin_str_mul_lN {fo : FOps F} {x : List Nat} {a r : Val F} (ha : IsIntLikeN a)
    (h : pyBin fo .mul a (.str x) = .ok r) : ∃ cs, r = .str cs := by
  rcases ha.cases with ha | rfl
  · exact pyBin_str_mul_l ha h
  · exact (pyBin_none_l h).elim

end CyVerif.C40

import CyVerif.Lemmas.C33Basic
/-! # C33 — `from_py` of a `set`/`map` with int, bool or string keys yields a strictly sorted (genuine
`std::set`/`std::map`) value containing exactly the converted elements -/
namespace CyVerif.C33

def SortedL (s : List CVal) : Prop := s.Pairwise (fun a b => CVal.lt a b = true)

/-- `CVal.lt` is a strict total order on the values satisfying `S` -/
structure OrdOn (S : CVal → Prop) : Prop where
  trans : ∀ a b c, S a → S b → S c → CVal.lt a b = true → CVal.lt b c = true → CVal.lt a c = true
  total : ∀ a b, S a → S b → CVal.beq a b = false → CVal.lt a b = false → CVal.lt b a = true
  eq : ∀ a b, S a → S b → CVal.beq a b = true → a = b

theorem setInsert_mem (x y : CVal) : ∀ (s : List CVal), y ∈ setInsert x s → y = x ∨ y ∈ s
  | [], h => by simp [setInsert] at h; exact .inl h
  | z :: zs, h => by
    simp only [setInsert] at h
    split at h
    · exact .inr h
    · split at h
      · cases h with
        | head => exact .inr (by simp)
        | tail _ h =>
          rcases setInsert_mem x y zs h with h | h
          · exact .inl h
          · exact .inr (by simp [h])
      · cases h with
        | head => exact .inl rfl
        | tail _ h => exact .inr h

theorem mem_setInsert_of_mem (x y : CVal) : ∀ (s : List CVal), y ∈ s → y ∈ setInsert x s
  | [], h => by cases h
  | z :: zs, h => by
    simp only [setInsert]
    split
    · exact h
    · split
      · cases h with
        | head => simp
        | tail _ h => exact List.mem_cons_of_mem _ (mem_setInsert_of_mem x y zs h)
      · exact List.mem_cons_of_mem _ h

theorem setInsert_sorted {S : CVal → Prop} (hS : OrdOn S) (x : CVal) (hx : S x) :
    ∀ (s : List CVal), (∀ y ∈ s, S y) → SortedL s → SortedL (setInsert x s)
  | [], _, _ => by simp [setInsert, SortedL]
  | z :: zs, hs, hsorted => by
    have hz : S z := hs z (by simp)
    have hzs : ∀ y ∈ zs, S y := fun y hy => hs y (by simp [hy])
    unfold SortedL at hsorted ⊢
    rw [List.pairwise_cons] at hsorted
    simp only [setInsert]
    split
    · exact List.pairwise_cons.mpr hsorted
    · rename_i hb
      split
      · rename_i hlt
        rw [List.pairwise_cons]
        refine ⟨?_, setInsert_sorted hS x hx zs hzs hsorted.2⟩
        intro w hw
        rcases setInsert_mem x w zs hw with rfl | hw
        · exact hlt
        · exact hsorted.1 w hw
      · rename_i hlt
        have hxz : CVal.lt x z = true := hS.total z x hz hx (by simpa using hb) (by simpa using hlt)
        rw [List.pairwise_cons]
        refine ⟨?_, List.pairwise_cons.mpr hsorted⟩
        intro w hw
        cases hw with
        | head => exact hxz
        | tail _ hw => exact hS.trans x z w hx hz (hzs w hw) hxz (hsorted.1 w hw)

theorem foldSet_sorted_of {S : CVal → Prop} (hS : OrdOn S) (cs : List CVal) (hcs : ∀ c ∈ cs, S c) :
    SortedL (foldSet cs) ∧ (∀ y, y ∈ foldSet cs → y ∈ cs) := by
  unfold foldSet
  suffices h : ∀ (acc : List CVal), (∀ y ∈ acc, S y) → SortedL acc →
      SortedL (cs.foldl (fun s c => setInsert c s) acc) ∧
      (∀ y, y ∈ cs.foldl (fun s c => setInsert c s) acc → y ∈ acc ∨ y ∈ cs) by
    obtain ⟨h1, h2⟩ := h [] (by simp) (by simp [SortedL])
    exact ⟨h1, fun y hy => (h2 y hy).elim (fun h => by cases h) id⟩
  induction cs with
  | nil => intro acc _ hs; exact ⟨hs, fun y hy => .inl hy⟩
  | cons c cs ih =>
    intro acc hacc hs
    have hc : S c := hcs c (by simp)
    obtain ⟨h1, h2⟩ := ih (fun c' hc' => hcs c' (by simp [hc'])) (setInsert c acc)
      (fun y hy => (setInsert_mem c y acc hy).elim (fun h => h ▸ hc) (hacc y))
      (setInsert_sorted hS c hc acc hacc hs)
    refine ⟨h1, fun y hy => ?_⟩
    rcases h2 y hy with h | h
    · rcases setInsert_mem c y acc h with rfl | h
      · exact .inr (by simp)
      · exact .inl h
    · exact .inr (by simp [h])

/-! ## the order on int / bool / string values -/

theorem cmpInt_lt (a b : Int) : cmpInt a b = .lt ↔ a < b := by
  unfold cmpInt; split <;> simp_all; split <;> simp <;> omega
theorem cmpInt_eq (a b : Int) : cmpInt a b = .eq ↔ a = b := by
  unfold cmpInt; split
  · simp; omega
  · split <;> simp <;> omega
theorem cmpNat_lt (a b : Nat) : cmpNat a b = .lt ↔ a < b := by
  unfold cmpNat; split <;> simp_all; split <;> simp <;> omega
theorem cmpNat_eq (a b : Nat) : cmpNat a b = .eq ↔ a = b := by
  unfold cmpNat; split
  · simp; omega
  · split <;> simp <;> omega
theorem cmpNat_gt (a b : Nat) : cmpNat a b = .gt ↔ b < a := by
  unfold cmpNat; split
  · simp; omega
  · split <;> simp_all

theorem cmpBytes_lt_trans : ∀ (a b c : List Nat), cmpBytes a b = .lt → cmpBytes b c = .lt → cmpBytes a c = .lt
  | [], [], _, h, _ => by simp [cmpBytes] at h
  | [], _ :: _, [], _, h => by simp [cmpBytes] at h
  | [], _ :: _, _ :: _, _, _ => by simp [cmpBytes]
  | _ :: _, [], _, h, _ => by simp [cmpBytes] at h
  | _ :: _, _ :: _, [], _, h => by simp [cmpBytes] at h
  | x :: xs, y :: ys, z :: zs, h1, h2 => by
    simp only [cmpBytes, Ordering.andThen] at h1 h2 ⊢
    cases hxy : cmpNat x y <;> rw [hxy] at h1 <;> simp at h1
    · cases hyz : cmpNat y z <;> rw [hyz] at h2 <;> simp at h2
      · have : cmpNat x z = .lt := by rw [cmpNat_lt] at hxy hyz ⊢; omega
        rw [this]
      · have : cmpNat x z = .lt := by rw [cmpNat_lt] at hxy ⊢; rw [cmpNat_eq] at hyz; omega
        rw [this]
    · cases hyz : cmpNat y z <;> rw [hyz] at h2 <;> simp at h2
      · have : cmpNat x z = .lt := by rw [cmpNat_lt] at hyz ⊢; rw [cmpNat_eq] at hxy; omega
        rw [this]
      · have : cmpNat x z = .eq := by rw [cmpNat_eq] at hxy hyz ⊢; omega
        rw [this]; exact cmpBytes_lt_trans xs ys zs h1 h2

theorem cmpBytes_total : ∀ (a b : List Nat), cmpBytes a b ≠ .eq → cmpBytes a b ≠ .lt → cmpBytes b a = .lt
  | [], [], h, _ => by simp [cmpBytes] at h
  | [], _ :: _, _, h => by simp [cmpBytes] at h
  | _ :: _, [], _, _ => by simp [cmpBytes]
  | x :: xs, y :: ys, h1, h2 => by
    simp only [cmpBytes, Ordering.andThen] at h1 h2 ⊢
    cases hxy : cmpNat x y <;> rw [hxy] at h1 h2 <;> simp at h1 h2
    · have : cmpNat y x = .eq := by rw [cmpNat_eq] at hxy ⊢; omega
      rw [this]; exact cmpBytes_total xs ys h1 h2
    · have : cmpNat y x = .lt := by rw [cmpNat_gt] at hxy; rw [cmpNat_lt]; exact hxy
      rw [this]

theorem cmpBytes_eq : ∀ (a b : List Nat), cmpBytes a b = .eq → a = b
  | [], [], _ => rfl
  | [], _ :: _, h => by simp [cmpBytes] at h
  | _ :: _, [], h => by simp [cmpBytes] at h
  | x :: xs, y :: ys, h => by
    simp only [cmpBytes, Ordering.andThen] at h
    cases hxy : cmpNat x y <;> rw [hxy] at h <;> simp at h
    rw [(cmpNat_eq x y).mp hxy, cmpBytes_eq xs ys h]

def IsInt (c : CVal) : Prop := ∃ n, c = .int n
def IsBool (c : CVal) : Prop := ∃ b, c = .bool b
def IsStr (c : CVal) : Prop := ∃ b, c = .str b

theorem ordOn_int : OrdOn IsInt where
  trans := by
    rintro _ _ _ ⟨a, rfl⟩ ⟨b, rfl⟩ ⟨c, rfl⟩ h1 h2
    simp only [CVal.lt, CVal.cmp, beq_iff_eq, cmpInt_lt] at *; omega
  total := by
    rintro _ _ ⟨a, rfl⟩ ⟨b, rfl⟩ h1 h2
    simp only [CVal.lt, CVal.beq, CVal.cmp, beq_iff_eq, beq_eq_false_iff_ne, ne_eq, cmpInt_lt, cmpInt_eq] at *; omega
  eq := by
    rintro _ _ ⟨a, rfl⟩ ⟨b, rfl⟩ h
    simp only [CVal.beq, CVal.cmp, beq_iff_eq, cmpInt_eq] at h; rw [h]

theorem ordOn_bool : OrdOn IsBool where
  trans := by
    rintro _ _ _ ⟨a, rfl⟩ ⟨b, rfl⟩ ⟨c, rfl⟩ h1 h2
    simp only [CVal.lt, CVal.cmp, beq_iff_eq, cmpNat_lt] at *; omega
  total := by
    rintro _ _ ⟨a, rfl⟩ ⟨b, rfl⟩ h1 h2
    simp only [CVal.lt, CVal.beq, CVal.cmp, beq_iff_eq, beq_eq_false_iff_ne, ne_eq, cmpNat_lt, cmpNat_eq] at *; omega
  eq := by
    rintro _ _ ⟨a, rfl⟩ ⟨b, rfl⟩ h
    simp only [CVal.beq, CVal.cmp, beq_iff_eq, cmpNat_eq] at h
    cases a <;> cases b <;> simp_all

theorem ordOn_str : OrdOn IsStr where
  trans := by
    rintro _ _ _ ⟨a, rfl⟩ ⟨b, rfl⟩ ⟨c, rfl⟩ h1 h2
    simp only [CVal.lt, CVal.cmp, beq_iff_eq] at *
    exact cmpBytes_lt_trans a b c h1 h2
  total := by
    rintro _ _ ⟨a, rfl⟩ ⟨b, rfl⟩ h1 h2
    simp only [CVal.lt, CVal.beq, CVal.cmp, beq_iff_eq, beq_eq_false_iff_ne, ne_eq] at *
    exact cmpBytes_total a b h1 h2
  eq := by
    rintro _ _ ⟨a, rfl⟩ ⟨b, rfl⟩ h
    simp only [CVal.beq, CVal.cmp, beq_iff_eq] at h
    rw [cmpBytes_eq a b h]

theorem setInsert_mem_self {S : CVal → Prop} (hS : OrdOn S) (x : CVal) (hx : S x) :
    ∀ (s : List CVal), (∀ y ∈ s, S y) → x ∈ setInsert x s
  | [], _ => by simp [setInsert]
  | z :: zs, hs => by
    simp only [setInsert]
    split
    · rename_i hb; rw [hS.eq z x (hs z (by simp)) hx hb]; simp
    · split
      · exact List.mem_cons_of_mem _ (setInsert_mem_self hS x hx zs (fun y hy => hs y (by simp [hy])))
      · simp

theorem foldSet_complete {S : CVal → Prop} (hS : OrdOn S) (cs : List CVal) (hcs : ∀ c ∈ cs, S c) :
    ∀ y ∈ cs, y ∈ foldSet cs := by
  unfold foldSet
  suffices h : ∀ (acc : List CVal), (∀ y ∈ acc, S y) →
      ∀ y, (y ∈ acc ∨ y ∈ cs) → y ∈ cs.foldl (fun s c => setInsert c s) acc from
    fun y hy => h [] (by simp) y (.inr hy)
  induction cs with
  | nil => intro acc _ y hy; exact hy.elim id (fun h => by cases h)
  | cons c cs ih =>
    intro acc hacc y hy
    have hc : S c := hcs c (by simp)
    apply ih (fun c' hc' => hcs c' (by simp [hc'])) (setInsert c acc)
      (fun y hy => (setInsert_mem c y acc hy).elim (fun h => h ▸ hc) (hacc y))
    rcases hy with h | h
    · exact .inl (mem_setInsert_of_mem c y acc h)
    · cases h with
      | head => exact .inl (setInsert_mem_self hS c hc acc hacc)
      | tail _ h => exact .inr h

theorem mapInsert_keys (k v : CVal) : ∀ (m : List (CVal × CVal)),
    (mapInsert k v m).map (·.1) = setInsert k (m.map (·.1))
  | [] => rfl
  | (k', v') :: m => by
    simp only [mapInsert, setInsert, List.map_cons]
    split
    · rfl
    · split
      · simp [mapInsert_keys k v m]
      · rfl

theorem foldMap_keys (kvs : List (CVal × CVal)) : (foldMap kvs).map (·.1) = foldSet (kvs.map (·.1)) := by
  unfold foldMap foldSet
  suffices h : ∀ (acc : List (CVal × CVal)),
      (kvs.foldl (fun m kv => mapInsert kv.1 kv.2 m) acc).map (·.1) =
      (kvs.map (·.1)).foldl (fun s c => setInsert c s) (acc.map (·.1)) from h []
  induction kvs with
  | nil => intro acc; rfl
  | cons kv kvs ih => intro acc; simp only [List.foldl_cons, List.map_cons]; rw [ih, mapInsert_keys]

/-! ## `from_py` of sets and maps with int / bool / string keys -/

def SimpleKey : Ty → Bool
  | .int _ _ => true | .bool => true | .str => true | _ => false

def KeyS : Ty → CVal → Prop
  | .int _ _ => IsInt | .bool => IsBool | .str => IsStr | _ => fun _ => False

theorem ordOn_keyS (t : Ty) (h : SimpleKey t = true) : OrdOn (KeyS t) := by
  cases t <;> simp [SimpleKey] at h
  · exact ordOn_int
  · exact ordOn_bool
  · exact ordOn_str

theorem fromPy_keyS (m : Mode) (t : Ty) (p : PyVal) (c : CVal) (hk : SimpleKey t = true)
    (h : fromPy m t p = .ok c) : KeyS t c := by
  cases t <;> simp [SimpleKey] at hk <;> simp only [fromPy, bind, Except.bind] at h
  · split at h <;> simp at h; exact ⟨_, h.symm⟩
  · simp at h; exact ⟨_, h.symm⟩
  · split at h <;> simp at h; exact ⟨_, h.symm⟩

theorem mapR_keyS (m : Mode) (t : Ty) (hk : SimpleKey t = true) (xs : List PyVal) (cs : List CVal)
    (h : mapR (fromPy m t) xs = .ok cs) : ∀ c ∈ cs, KeyS t c := by
  induction xs generalizing cs with
  | nil => simp [mapR] at h; subst h; intro c hc; cases hc
  | cons x xs ih =>
    obtain ⟨y, ys, h1, h2, rfl⟩ := mapR_cons_inv _ x xs cs h
    intro c hc
    cases hc with
    | head => exact fromPy_keyS m t x y hk h1
    | tail _ hc => exact ih ys h2 c hc

/-- **`from_py` builds a genuine `std::set`**: for int, bool or string elements the C value is the strictly
sorted duplicate-free list of exactly the converted elements (input order and duplicates are normalised away). -/
theorem fromPy_set_sorted (m : Mode) (t : Ty) (p : PyVal) (c : CVal) (hk : SimpleKey t = true)
    (h : fromPy m (.set t) p = .ok c) :
    ∃ xs cs0 s, iterate p = .ok xs ∧ mapR (fromPy m t) xs = .ok cs0 ∧ c = .seq s ∧ SortedL s ∧
      (∀ y, y ∈ s ↔ y ∈ cs0) := by
  simp only [fromPy, bind, Except.bind] at h
  cases hi : iterate p with
  | error e => rw [hi] at h; simp at h
  | ok xs =>
    rw [hi] at h; simp only at h
    cases hm : mapR (fromPy m t) xs with
    | error e => rw [hm] at h; simp at h
    | ok cs0 =>
      rw [hm] at h; simp at h
      have hS := mapR_keyS m t hk xs cs0 hm
      obtain ⟨h1, h2⟩ := foldSet_sorted_of (ordOn_keyS t hk) cs0 hS
      exact ⟨xs, cs0, foldSet cs0, rfl, hm, h.symm, h1,
        fun y => ⟨h2 y, foldSet_complete (ordOn_keyS t hk) cs0 hS y⟩⟩

/-- **`from_py` builds a genuine `std::map`**: for int, bool or string keys the keys of the C value are strictly
sorted, duplicate-free and are exactly the converted keys of `o.items()`. -/
theorem fromPy_map_sorted (m : Mode) (k v : Ty) (p : PyVal) (c : CVal) (hk : SimpleKey k = true)
    (h : fromPy m (.map k v) p = .ok c) :
    ∃ kvs cs0 mm, items p = .ok kvs ∧
      mapR (fun kv => do let ck ← fromPy m k kv.1; let cv ← fromPy m v kv.2; (.ok (ck, cv) : R (CVal × CVal))) kvs = .ok cs0 ∧
      c = .map mm ∧ SortedL (mm.map (·.1)) ∧ (∀ y, y ∈ mm.map (·.1) ↔ y ∈ cs0.map (·.1)) := by
  simp only [fromPy] at h
  cases hi : items p with
  | error e => rw [hi] at h; simp [bind, Except.bind] at h
  | ok kvs =>
    rw [hi] at h
    cases hm : mapR (fun kv => do let ck ← fromPy m k kv.1; let cv ← fromPy m v kv.2; (.ok (ck, cv) : R (CVal × CVal))) kvs with
    | error e => simp only [bind, Except.bind] at h hm; rw [hm] at h; simp at h
    | ok cs0 =>
      have hc : c = .map (foldMap cs0) := by
        simp only [bind, Except.bind] at h hm; rw [hm] at h; simpa using h.symm
      have hS : ∀ y ∈ cs0.map (·.1), KeyS k y := by
        clear hc h hi
        induction kvs generalizing cs0 with
        | nil => simp [mapR] at hm; subst hm; intro y hy; cases hy
        | cons kv kvs ih =>
          obtain ⟨y, ys, h1, h2, rfl⟩ := mapR_cons_inv _ kv kvs cs0 hm
          intro z hz
          simp only [List.map_cons] at hz
          cases hz with
          | head =>
            simp only [bind, Except.bind] at h1
            cases hk1 : fromPy m k kv.1 with
            | error e => rw [hk1] at h1; simp at h1
            | ok ck =>
              rw [hk1] at h1
              cases hv1 : fromPy m v kv.2 with
              | error e => rw [hv1] at h1; simp at h1
              | ok cv => rw [hv1] at h1; simp at h1; subst h1; exact fromPy_keyS m k kv.1 ck hk hk1
          | tail _ hz => exact ih ys h2 z hz
      obtain ⟨h1, h2⟩ := foldSet_sorted_of (ordOn_keyS k hk) (cs0.map (·.1)) hS
      refine ⟨kvs, cs0, foldMap cs0, rfl, hm, hc, ?_, ?_⟩
      · rw [foldMap_keys]; exact h1
      · intro y; rw [foldMap_keys]
        exact ⟨h2 y, foldSet_complete (ordOn_keyS k hk) _ hS y⟩

end CyVerif.C33

import CyVerif.Model.C17Contig
namespace CyVerif.C17

/-- the F-order loop decides exactly Fortran contiguity (any running product, any number of axes) -/
theorem verifyF_iff (itemsize : Int) (axes : List Axis) (acc : Int) :
    verifyF itemsize acc axes = true ↔ FContigFrom itemsize acc axes := by
  induction axes generalizing acc with
  | nil => simp [verifyF, FContigFrom]
  | cons a as ih =>
    unfold verifyF FContigFrom
    by_cases h : acc * itemsize ≠ a.stride ∧ a.shape > 1
    · rw [if_pos h]
      constructor
      · intro hf; exact absurd hf (by decide)
      · intro ⟨h1, _⟩
        exact absurd (by rw [h1 h.2, Int.mul_comm]) h.1
    · rw [if_neg h, ih]
      constructor
      · intro h2
        refine ⟨fun hs => ?_, h2⟩
        have : ¬ (acc * itemsize ≠ a.stride) := fun hne => h ⟨hne, hs⟩
        have := Classical.not_not.mp this
        rw [← this, Int.mul_comm]
      · intro h2; exact h2.2

/-- an axis with extent ≤ 1 never fails the stride test, whatever its stride -/
theorem checkStrides_extent_le_one (hs hsub : Bool) (itemsize : Int) (isLast : Bool) (a : Axis) (h : a.shape ≤ 1) :
    checkStrides hs hsub itemsize isLast a = none := by
  simp [checkStrides, h]

/-- plain strided direct axes (`:` = DIRECT|STRIDED = 17) with strides given: only the suboffsets matter -/
theorem checkAxes_strided_direct (hsub : Bool) (itemsize : Int) (axes : List Axis) (hspec : ∀ a ∈ axes, a.spec = 17) :
    checkAxes true hsub itemsize axes = none ↔ (hsub = true → ∀ a ∈ axes, a.sub < 0) := by
  induction axes with
  | nil => simp [checkAxes]
  | cons a as ih =>
    have ha : a.spec = 17 := hspec a (List.mem_cons_self ..)
    have ih := ih (fun b hb => hspec b (List.mem_cons_of_mem _ hb))
    have e8 : bit 17 8 = false := by decide
    have e32 : bit 17 32 = false := by decide
    have e1 : bit 17 1 = true := by decide
    have e2 : bit 17 2 = false := by decide
    have cs : checkStrides true hsub itemsize as.isEmpty a = none := by
      unfold checkStrides; rw [ha]; simp [e8, e32]
    unfold checkAxes
    rw [cs]
    cases hsub with
    | false =>
      have : checkSub false a = none := by simp [checkSub, ha, e2]
      rw [this]; simp only []
      rw [ih]; simp
    | true =>
      by_cases hge : a.sub ≥ 0
      · have : checkSub true a = some "not-direct" := by simp [checkSub, ha, e1, hge]
        rw [this]; simp only []
        constructor
        · intro h; cases h
        · intro h; exact absurd (h trivial a (List.mem_cons_self ..)) (Int.not_lt.mpr hge)
      · have : checkSub true a = none := by simp [checkSub, ha, e1, e2, hge]
        rw [this]; simp only []
        rw [ih]
        constructor
        · intro h _ b hb
          rcases List.mem_cons.mp hb with rfl | hb
          · exact Int.not_le.mp hge
          · exact h rfl b hb
        · intro h _ b hb; exact h trivial b (List.mem_cons_of_mem _ hb)

end CyVerif.C17

import CyVerif.Lemmas.C21Transfer
/-! Cardinality of bit sets given as lists, and bounded sums: the termination measure of the
solver model of C21. -/
namespace CyVerif.C21

/-- number of distinct bits -/
def card (l : List Nat) : Nat := (dedup l).length

theorem nodup_dedup (l : List Nat) : (dedup l).Nodup := by
  induction l with
  | nil => exact List.nodup_nil
  | cons a as ih =>
    unfold dedup
    by_cases h : as.contains a = true
    · simp only [h, if_true]; exact ih
    · have h' : as.contains a = false := by simpa using h
      simp only [h', Bool.false_eq_true, if_false]
      refine List.nodup_cons.mpr ⟨fun hm => ?_, ih⟩
      have : a ∈ as := mem_dedup.mp hm
      simp [this] at h'

theorem length_le_of_nodup_sub : ∀ (a : List Nat), a.Nodup → ∀ (b : List Nat), (∀ x ∈ a, x ∈ b) →
    a.length ≤ b.length := by
  intro a
  induction a with
  | nil => intro _ b _; simp
  | cons x a' ih =>
    intro hnd b hsub
    obtain ⟨hx, hnd'⟩ := List.nodup_cons.mp hnd
    have hxb : x ∈ b := hsub x List.mem_cons_self
    have hsub' : ∀ y ∈ a', y ∈ b.erase x := by
      intro y hy
      have hne : y ≠ x := fun h => hx (h ▸ hy)
      exact (List.mem_erase_of_ne hne).mpr (hsub y (List.mem_cons_of_mem _ hy))
    have := ih hnd' (b.erase x) hsub'
    rw [List.length_erase_of_mem hxb] at this
    have hpos : 0 < b.length := List.length_pos_of_mem hxb
    simp only [List.length_cons]
    omega

theorem card_le_of_sub {a b : List Nat} (h : ∀ x ∈ a, x ∈ b) : card a ≤ card b :=
  length_le_of_nodup_sub _ (nodup_dedup a) _ (fun x hx => mem_dedup.mpr (h x (mem_dedup.mp hx)))

theorem card_lt_of_ssub {a b : List Nat} (h : ∀ x ∈ a, x ∈ b) {y : Nat} (hy : y ∈ b) (hya : y ∉ a) :
    card a < card b := by
  have hyd : y ∈ dedup b := mem_dedup.mpr hy
  have hsub : ∀ x ∈ dedup a, x ∈ (dedup b).erase y := by
    intro x hx
    have hxa := mem_dedup.mp hx
    have hne : x ≠ y := fun e => hya (e ▸ hxa)
    exact (List.mem_erase_of_ne hne).mpr (mem_dedup.mpr (h x hxa))
  have := length_le_of_nodup_sub _ (nodup_dedup a) _ hsub
  rw [List.length_erase_of_mem hyd] at this
  have hpos : 0 < (dedup b).length := List.length_pos_of_mem hyd
  unfold card
  omega

theorem card_le_length (l : List Nat) : card l ≤ l.length := by
  unfold card
  induction l with
  | nil => simp [dedup]
  | cons a as ih =>
    unfold dedup
    by_cases h : as.contains a = true
    · simp only [h, if_true, List.length_cons]; omega
    · have h' : as.contains a = false := by simpa using h
      simp only [h', Bool.false_eq_true, if_false, List.length_cons]; omega

/-- `f 0 + … + f (n-1)` -/
def sumTo (f : Nat → Nat) : Nat → Nat
  | 0 => 0
  | n + 1 => sumTo f n + f n

theorem sumTo_le {f f' : Nat → Nat} (n : Nat) (h : ∀ b, b < n → f b ≤ f' b) : sumTo f n ≤ sumTo f' n := by
  induction n with
  | zero => simp [sumTo]
  | succ n ih =>
    simp only [sumTo]
    have := ih (fun b hb => h b (by omega))
    have := h n (by omega)
    omega

theorem sumTo_lt {f f' : Nat → Nat} (n : Nat) (h : ∀ b, b < n → f b ≤ f' b) {b0 : Nat} (hb0 : b0 < n)
    (hlt : f b0 < f' b0) : sumTo f n < sumTo f' n := by
  induction n with
  | zero => omega
  | succ n ih =>
    simp only [sumTo]
    by_cases hb : b0 = n
    · subst hb
      have := sumTo_le b0 (f := f) (f' := f') (fun b hb => h b (by omega))
      omega
    · have := ih (fun b hb => h b (by omega)) (by omega)
      have := h n (by omega)
      omega

theorem sumTo_bound {f : Nat → Nat} (n K : Nat) (h : ∀ b, b < n → f b ≤ K) : sumTo f n ≤ n * K := by
  induction n with
  | zero => simp [sumTo]
  | succ n ih =>
    simp only [sumTo]
    have := ih (fun b hb => h b (by omega))
    have := h n (by omega)
    rw [Nat.succ_mul]
    omega

end CyVerif.C21

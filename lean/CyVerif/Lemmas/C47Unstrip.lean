import CyVerif.Lemmas.C47Occ
import CyVerif.Lemmas.C47Scan
/-! Substituting labels back: `str.replace` model, sequential and single-pass un-stripping (C47). -/
namespace CyVerif.C47

theorem label_eq (p : List Char) (k : Nat) : label p k = p ++ Nat.toDigits 10 k ++ ['_'] := rfl

theorem startsDelim_render (p : List Char) : ∀ (ps : List Piece) (k : Nat), startsDelim ps = true →
    render p k ps = [] ∨ ∃ c r, render p k ps = c :: r ∧ isDelim c = true := by
  intro ps
  induction ps with
  | nil => intro k _; left; rfl
  | cons x xs ih =>
    intro k h
    cases x with
    | lit v => simp [startsDelim] at h
    | kept s =>
      cases s with
      | nil => simpa [render, startsDelim] using ih k (by simpa [startsDelim] using h)
      | cons c s => right; exact ⟨c, s ++ render p k xs, by simp [render], by simpa [startsDelim] using h⟩

theorem infix_of_infix_left {p t x : List Char} (h : p <:+: t) : p <:+: t ++ x :=
  h.trans (List.prefix_append _ _).isInfix

theorem infix_of_infix_right {p t x : List Char} (h : p <:+: x) : p <:+: t ++ x :=
  h.trans (List.suffix_append _ _).isInfix

theorem prefix_infix_label (p : List Char) (j : Nat) : p <:+: label p j :=
  (show p <+: label p j from ⟨Nat.toDigits 10 j ++ ['_'], by simp [label]⟩).isInfix

/-- no label starts inside a non-empty prefix-free text `t` that is followed by rendered pieces -/
theorem no_label_prefix {p : List Char} (hp : WF p) : ∀ (ps : List Piece) (t : List Char) (k j : Nat),
    t ≠ [] → ¬ p <:+: t ++ expand ps → ¬ label p j <+: t ++ render p k ps := by
  intro ps
  induction ps with
  | nil =>
    intro t k j _ hfree h
    simp only [render, expand, List.append_nil] at h hfree
    exact hfree ((prefix_infix_label p j).trans h.isInfix)
  | cons x xs ih =>
    intro t k j ht hfree h
    cases x with
    | kept s =>
      simp only [render, expand, ← List.append_assoc] at h hfree
      exact ih (t ++ s) k j (by simp [ht]) hfree h
    | lit v =>
      simp only [render, expand] at h hfree
      obtain ⟨b, hb⟩ := h
      rw [label_eq, label_eq] at hb
      have hft : ¬ p <:+: t := fun h' => hfree (infix_of_infix_left h')
      exact no_early (d := Nat.toDigits 10 (k + 1)) (X := ['_'] ++ render p (k + 1) xs) hp (digits_toDigits j) ht hft
        (by rw [hb]; simp)

/-- labels with a number `≤ k` do not occur in the rendering (from counter `k`) of pieces whose
labels are each followed by nothing or a delimiter, when the underlying text is prefix-free -/
theorem no_label_infix {p : List Char} (hp : WF p) : ∀ (ps : List Piece) (t : List Char) (k j : Nat),
    j ≤ k → followOK ps = true → ¬ p <:+: t ++ expand ps → ¬ label p j <:+: t ++ render p k ps := by
  intro ps
  induction ps with
  | nil =>
    intro t k j _ _ hfree h
    simp only [render, expand, List.append_nil] at h hfree
    exact hfree ((prefix_infix_label p j).trans h)
  | cons x xs ih =>
    intro t k j hjk hfo hfree h
    cases x with
    | kept s =>
      simp only [render, expand, ← List.append_assoc, followOK] at h hfree hfo
      exact ih (t ++ s) k j hjk hfo hfree h
    | lit v =>
      simp only [render, expand, followOK, Bool.and_eq_true] at h hfree hfo
      have hR := startsDelim_render p xs (k + 1) hfo.1
      have hfx : ¬ p <:+: [] ++ expand xs := fun h' =>
        hfree (infix_of_infix_right (infix_of_infix_right (by simpa using h')))
      have hin : ∀ {a b : List Char}, a ++ (p ++ Nat.toDigits 10 j ++ ['_']) ++ b
          = p ++ Nat.toDigits 10 (k + 1) ++ ['_'] ++ render p (k + 1) xs → False := by
        intro a b hab
        rcases occ_in_label hp (digits_toDigits _) (digits_toDigits _) hR hab with ⟨_, hd⟩ | hinf
        · have := toDigits_inj hd; omega
        · exact ih [] (k + 1) j (by omega) hfo.2 hfx (by simpa [label_eq] using hinf)
      obtain ⟨a, b, hab⟩ := h
      rw [List.append_assoc] at hab
      rcases List.append_eq_append_iff.mp hab with ⟨as, h1, h2⟩ | ⟨bs, h1, h2⟩
      · by_cases has : as = []
        · subst has
          simp only [List.nil_append] at h2
          exact hin (a := []) (b := b) (by simp only [List.nil_append]; rw [← label_eq, h2, label_eq])
        · have hft : ¬ p <:+: as := fun h' =>
            hfree (infix_of_infix_left (by rw [h1]; exact infix_of_infix_right h'))
          rw [label_eq, label_eq] at h2
          exact no_early (d := Nat.toDigits 10 (k + 1)) (X := ['_'] ++ render p (k + 1) xs) hp (digits_toDigits j) has hft
            (by rw [h2]; simp)
      · exact hin (a := bs) (b := b) (by rw [← label_eq, ← label_eq, h2]; simp)


/-! ### `str.replace` and the two substitution procedures -/

theorem replaceGo_skip (old new : List Char) : ∀ (a b : List Char) (n : Nat), a.length = n →
    replaceGo old new n (a ++ b) = replaceGo old new 0 b := by
  intro a
  induction a with
  | nil => intro b n h; simp at h; subst h; rfl
  | cons c cs ih =>
    intro b n h
    cases n with
    | zero => simp at h
    | succ n => simp only [List.cons_append, replaceGo]; exact ih b n (by simpa using h)

theorem replaceGo_none {old new : List Char} : ∀ (s : List Char), ¬ old <:+: s →
    replaceGo old new 0 s = s := by
  intro s
  induction s with
  | nil => intro _; rfl
  | cons c cs ih =>
    intro h
    have h1 : ¬ old.isPrefixOf (c :: cs) = true := fun hp =>
      h (List.isPrefixOf_iff_prefix.mp hp).isInfix
    have h2 : ¬ old <:+: cs := fun h' => h (List.infix_cons_iff.mpr (Or.inr h'))
    simp only [replaceGo, h1, Bool.false_eq_true, if_false, ih h2]

theorem replaceGo_one {old new : List Char} (ho : old ≠ []) : ∀ (a b : List Char),
    (∀ t, t ≠ [] → t <:+ a → ¬ old <+: t ++ (old ++ b)) →
    replaceGo old new 0 (a ++ (old ++ b)) = a ++ (new ++ replaceGo old new 0 b) := by
  intro a
  induction a with
  | nil =>
    intro b _
    cases old with
    | nil => exact absurd rfl ho
    | cons c cs =>
      have : (c :: cs).isPrefixOf (c :: (cs ++ b)) = true :=
        List.isPrefixOf_iff_prefix.mpr ⟨b, by simp⟩
      simp only [List.nil_append, List.cons_append, replaceGo, this, if_true, List.length_cons,
        Nat.add_sub_cancel]
      rw [replaceGo_skip (c :: cs) new cs b cs.length rfl]
  | cons c cs ih =>
    intro b h
    have h1 : ¬ old.isPrefixOf (c :: (cs ++ (old ++ b))) = true := fun hp =>
      h (c :: cs) (by simp) (List.suffix_refl _) (by simpa using List.isPrefixOf_iff_prefix.mp hp)
    simp only [List.cons_append, replaceGo, h1, Bool.false_eq_true, if_false]
    rw [ih b (fun t ht hs => h t ht (hs.trans (List.suffix_cons _ _)))]

theorem label_ne_nil (p : List Char) (k : Nat) : label p k ≠ [] := by simp [label]

/-- **Inline.py substitution.**  Sequential `str.replace` of the labels in counter order restores the text. -/
theorem unstripSeq_render {p : List Char} (hp : WF p) : ∀ (ps : List Piece) (A : List Char) (k : Nat),
    followOK ps = true → ¬ p <:+: A ++ expand ps →
    unstripSeq p k (lits ps) (A ++ render p k ps) = A ++ expand ps := by
  intro ps
  induction ps with
  | nil => intro A k _ _; simp [lits, render, expand, unstripSeq]
  | cons x xs ih =>
    intro A k hfo hfree
    cases x with
    | kept s =>
      simp only [lits, render, expand, followOK, ← List.append_assoc] at hfo hfree ⊢
      exact ih (A ++ s) k hfo hfree
    | lit v =>
      simp only [lits, render, expand, followOK, Bool.and_eq_true, unstripSeq] at hfo hfree ⊢
      have hfx : ¬ p <:+: [] ++ expand xs := fun h' =>
        hfree (infix_of_infix_right (infix_of_infix_right (by simpa using h')))
      have hnoR : ¬ label p (k + 1) <:+: render p (k + 1) xs := by
        have := no_label_infix hp xs [] (k + 1) (k + 1) (Nat.le_refl _) hfo.2 hfx
        simpa using this
      have hpre : ∀ t, t ≠ [] → t <:+ A → ¬ label p (k + 1) <+: t ++ (label p (k + 1) ++ render p (k + 1) xs) := by
        intro t ht hs hpf
        have hft : ¬ p <:+: t ++ expand (Piece.lit v :: xs) := by
          intro h'
          apply hfree
          obtain ⟨u, hu⟩ := hs
          rw [← hu, List.append_assoc]
          exact infix_of_infix_right (by simpa [expand] using h')
        exact no_label_prefix hp (Piece.lit v :: xs) t k (k + 1) ht hft (by simpa [render] using hpf)
      unfold replaceAll
      rw [replaceGo_one (label_ne_nil p (k + 1)) A _ hpre, replaceGo_none _ hnoR]
      have := ih (A ++ v) (k + 1) hfo.2 (by simpa using hfree)
      simpa using this

theorem unstripOne_skip (p : List Char) : ∀ (a b : List Char) (k : Nat) (vs : List (List Char)) (n : Nat),
    a.length = n → unstripOne p k vs n (a ++ b) = unstripOne p k vs 0 b := by
  intro a
  induction a with
  | nil => intro b k vs n h; simp at h; subst h; rfl
  | cons c cs ih =>
    intro b k vs n h
    cases n with
    | zero => simp at h
    | succ n => simp only [List.cons_append, unstripOne]; exact ih b k vs n (by simpa using h)

theorem unstripOne_nil (p : List Char) (k : Nat) (l : List Char) : unstripOne p k [] 0 l = l := by
  cases l <;> simp [unstripOne]

theorem unstripOne_kept (p : List Char) (k : Nat) (vs : List (List Char)) : ∀ (s R : List Char),
    (∀ t, t ≠ [] → t <:+ s → ¬ label p (k + 1) <+: t ++ R) →
    unstripOne p k vs 0 (s ++ R) = s ++ unstripOne p k vs 0 R := by
  intro s
  induction s with
  | nil => intro R _; rfl
  | cons c cs ih =>
    intro R h
    cases vs with
    | nil => simp [unstripOne_nil]
    | cons v vs =>
      have h1 : ¬ (label p (k + 1)).isPrefixOf (c :: (cs ++ R)) = true := fun hp =>
        h (c :: cs) (by simp) (List.suffix_refl _) (by simpa using List.isPrefixOf_iff_prefix.mp hp)
      simp only [List.cons_append, unstripOne, h1, Bool.false_eq_true, if_false]
      rw [ih R (fun t ht hs => h t ht (hs.trans (List.suffix_cons _ _)))]

/-- **Single pass.**  One left-to-right pass that expects the labels in counter order restores the text. -/
theorem unstripOne_render {p : List Char} (hp : WF p) : ∀ (ps : List Piece) (k : Nat),
    ¬ p <:+: expand ps → unstripOne p k (lits ps) 0 (render p k ps) = expand ps := by
  intro ps
  induction ps with
  | nil => intro k _; simp [lits, render, expand, unstripOne]
  | cons x xs ih =>
    intro k hfree
    cases x with
    | kept s =>
      simp only [lits, render, expand] at hfree ⊢
      rw [unstripOne_kept p k (lits xs) s (render p k xs), ih k (fun h => hfree (infix_of_infix_right h))]
      intro t ht hs
      apply no_label_prefix hp xs t k (k + 1) ht
      intro h'
      apply hfree
      obtain ⟨u, hu⟩ := hs
      rw [← hu, List.append_assoc]
      exact infix_of_infix_right h'
    | lit v =>
      simp only [lits, render, expand] at hfree ⊢
      cases hl : label p (k + 1) with
      | nil => exact absurd hl (label_ne_nil p (k + 1))
      | cons c cs =>
        have : (c :: cs).isPrefixOf (c :: (cs ++ render p (k + 1) xs)) = true :=
          List.isPrefixOf_iff_prefix.mpr ⟨render p (k + 1) xs, by simp⟩
        simp only [List.cons_append, unstripOne, hl, this, if_true, List.length_cons, Nat.add_sub_cancel]
        rw [unstripOne_skip p cs _ (k + 1) (lits xs) cs.length rfl,
          ih (k + 1) (fun h => hfree (infix_of_infix_right h))]

end CyVerif.C47

import CyVerif.Lemmas.C15SliceIdx
/-! # C15 — `__Pyx_crop_slice`, `__Pyx_Py{List,Tuple}_GetSlice`, `__Pyx_PyUnicode_Substring` -/
namespace CyVerif.C15

variable {α : Type}

theorem Out.ok_bind {β γ : Type} (v : β) (f : β → Out γ) : (Out.ok v).bind f = f v := rfl

theorem adjBound_one (len b : Int) :
    adjBound len 1 b = if b < 0 then (if b + len < 0 then 0 else b + len) else if b ≥ len then len else b := by
  have : ¬ (1 : Int) < 0 := by omega
  simp only [adjBound, this, if_false]

/-- start as left by `__Pyx_crop_slice` -/
def cropStart (fixed : Bool) (start len : Int) : Int :=
  if start < 0 then (if start + len < 0 then 0 else start + len)
  else if fixed = true ∧ start > len then len else start

/-- stop as left by `__Pyx_crop_slice` -/
def cropStop (fixed : Bool) (stop len : Int) : Int :=
  if stop < 0 then (if fixed = true ∧ stop + len < 0 then 0 else stop + len)
  else if stop > len then len else stop

/-- the excluded inputs of the pinned `__Pyx_crop_slice`: `stop - start` leaves the `Py_ssize_t` range -/
def cropOverflows (sw : Nat) (start stop len : Int) : Prop :=
  stop < 0 ∧ 0 ≤ start ∧ stop + len - start < ssMin sw

instance (sw : Nat) (start stop len : Int) : Decidable (cropOverflows sw start stop len) := by
  unfold cropOverflows; infer_instance

theorem cropSlice_eq {sw : Nat} {len : Int} (hl0 : 0 ≤ len) (hn : len ≤ ssMax sw) {start stop : Int}
    (hs : inSS sw start = true) (he : inSS sw stop = true) (fixed : Bool)
    (hno : fixed = false → ¬ cropOverflows sw start stop len) :
    cropSlice sw fixed start stop len =
      .ok (cropStart fixed start len, cropStop fixed stop len, cropStop fixed stop len - cropStart fixed start len) := by
  rw [inSS_iff] at hs he
  have hp := two_pow_pos (sw - 1)
  have hS : (if start < 0 then (addSS sw start len).bind fun s => Out.ok (if s < 0 then 0 else s)
      else Out.ok (if (fixed && decide (start > len)) = true then len else start)) = Out.ok (cropStart fixed start len) := by
    unfold cropStart
    by_cases h : start < 0
    · have hin : inSS sw (start + len) = true := by rw [inSS_iff]; unfold ssMin ssMax at *; omega
      simp [h, addSS, hin, Out.bind]
    · simp [h]
  have hE : (if stop < 0 then (addSS sw stop len).bind fun s => Out.ok (if (fixed && decide (s < 0)) = true then 0 else s)
      else Out.ok (if stop > len then len else stop)) = Out.ok (cropStop fixed stop len) := by
    unfold cropStop
    by_cases h : stop < 0
    · have hin : inSS sw (stop + len) = true := by rw [inSS_iff]; unfold ssMin ssMax at *; omega
      simp [h, addSS, hin, Out.bind]
    · simp [h]
  have hsub : inSS sw (cropStop fixed stop len - cropStart fixed start len) = true := by
    rw [inSS_iff]
    cases fixed
    · have hno' := hno rfl
      unfold cropOverflows at hno'
      unfold cropStart cropStop ssMin ssMax at *
      simp only [Bool.false_eq_true, false_and, if_false]
      split <;> split <;> (try split) <;> (try split) <;> omega
    · unfold cropStart cropStop ssMin ssMax at *
      simp only [true_and]
      split <;> split <;> (try split) <;> (try split) <;> omega
  unfold cropSlice
  rw [hS, Out.ok_bind, hE, Out.ok_bind]
  simp [subSS, hsub, Out.bind]

/-- either the cropped bounds are the adjusted ones, or both the C length and the Python length are ≤ 0 -/
theorem crop_vs_adj {len start stop : Int} (hl0 : 0 ≤ len) (fixed : Bool) :
    (cropStop fixed stop len - cropStart fixed start len ≤ 0 ∧ adjBound len 1 stop - adjBound len 1 start ≤ 0) ∨
    (cropStart fixed start len = adjBound len 1 start ∧ cropStop fixed stop len = adjBound len 1 stop) := by
  rw [adjBound_one, adjBound_one]
  unfold cropStart cropStop
  cases fixed
  · simp only [Bool.false_eq_true, false_and, if_false]
    split <;> split <;> (try split) <;> (try split) <;> (try split) <;> (try split) <;> omega
  · simp only [true_and]
    split <;> split <;> (try split) <;> (try split) <;> (try split) <;> (try split) <;> omega

/-- `__Pyx_PyList_GetSlice` / `__Pyx_PyTuple_GetSlice` = `o[start:stop]`, unless `stop - start` overflows
in the pinned `__Pyx_crop_slice` -/
theorem seqGetSlice_eq {sw : Nat} {l : List α} (hn : (l.length : Int) ≤ ssMax sw) {start stop : Int}
    (hs : inSS sw start = true) (he : inSS sw stop = true) (fixed : Bool)
    (hno : fixed = false → ¬ cropOverflows sw start stop l.length) :
    seqGetSlice sw fixed l start stop = pySlice l (some start) (some stop) none := by
  have hl0 : (0 : Int) ≤ l.length := by omega
  rw [pySlice_step1]
  simp only [unpackStart, unpackStop]
  unfold seqGetSlice
  rw [cropSlice_eq hl0 hn hs he fixed hno, Out.ok_bind]
  simp only []
  have hA := adjBound_pos_range (len := l.length) (step := 1) (b := start) hl0 (by omega)
  have hB := adjBound_pos_range (len := l.length) (step := 1) (b := stop) hl0 (by omega)
  rcases crop_vs_adj (start := start) (stop := stop) hl0 fixed with ⟨h1, h2⟩ | ⟨h1, h2⟩
  · rw [if_pos h1]
    have : (adjBound l.length 1 stop - adjBound l.length 1 start).toNat = 0 := by omega
    rw [this]; simp
  · rw [h1, h2]
    by_cases hle : adjBound l.length 1 stop - adjBound l.length 1 start ≤ 0
    · rw [if_pos hle]
      have : (adjBound l.length 1 stop - adjBound l.length 1 start).toNat = 0 := by omega
      rw [this]; simp
    · rw [if_neg hle]
      exact readRange_ok hA.1 (by omega)

/-- `__Pyx_PyUnicode_Substring(text, start, stop)` = `text[start:stop]` for all `Py_ssize_t` bounds -/
theorem unicodeSubstring_eq {sw : Nat} {l : List α} (hn : (l.length : Int) ≤ ssMax sw) {start stop : Int}
    (hs : inSS sw start = true) (he : inSS sw stop = true) :
    unicodeSubstring sw l start stop = pySlice l (some start) (some stop) none := by
  have hl0 : (0 : Int) ≤ l.length := by omega
  have hs' := hs
  have he' := he
  rw [inSS_iff] at hs' he'
  have hp := two_pow_pos (sw - 1)
  have hS : (if start < 0 then (addSS sw start l.length).bind fun s => Out.ok (if s < 0 then 0 else s)
      else Out.ok start) = Out.ok (cropStart false start l.length) := by
    unfold cropStart
    by_cases h : start < 0
    · have hin : inSS sw (start + l.length) = true := by rw [inSS_iff]; unfold ssMin ssMax at *; omega
      simp [h, addSS, hin, Out.bind]
    · simp [h]
  have hE : (if stop < 0 then addSS sw stop l.length
      else Out.ok (if stop > l.length then (l.length : Int) else stop)) = Out.ok (cropStop false stop l.length) := by
    unfold cropStop
    by_cases h : stop < 0
    · have hin : inSS sw (stop + l.length) = true := by rw [inSS_iff]; unfold ssMin ssMax at *; omega
      simp [h, addSS, hin]
    · simp [h]
  rw [pySlice_step1]
  simp only [unpackStart, unpackStop]
  unfold unicodeSubstring
  simp only []
  rw [hS, Out.ok_bind, hE, Out.ok_bind]
  have hA := adjBound_pos_range (len := l.length) (step := 1) (b := start) hl0 (by omega)
  have hB := adjBound_pos_range (len := l.length) (step := 1) (b := stop) hl0 (by omega)
  rcases crop_vs_adj (start := start) (stop := stop) hl0 false with ⟨h1, h2⟩ | ⟨h1, h2⟩
  · rw [if_pos (by omega)]
    have : (adjBound l.length 1 stop - adjBound l.length 1 start).toNat = 0 := by omega
    rw [this]; simp
  · rw [h1, h2]
    by_cases hle : adjBound l.length 1 stop ≤ adjBound l.length 1 start
    · rw [if_pos hle]
      have : (adjBound l.length 1 stop - adjBound l.length 1 start).toNat = 0 := by omega
      rw [this]; simp
    · rw [if_neg hle]
      by_cases hall : adjBound l.length 1 start = 0 ∧ adjBound l.length 1 stop = l.length
      · rw [if_pos hall, hall.1, hall.2]
        simp
      · rw [if_neg hall]
        have hin : inSS sw (adjBound l.length 1 stop - adjBound l.length 1 start) = true := by
          rw [inSS_iff]; unfold ssMin ssMax at *; omega
        simp only [subSS, hin, if_true, Out.ok_bind]
        exact readRange_ok hA.1 (by omega)

end CyVerif.C15

import CyVerif.Model.C20Rw
/-! Lemmas for the in-place expansion (`sfr`): the temps, evaluated once and in order, followed by the
re-evaluation of the residual target reproduce the single evaluation of the original expression. -/
namespace CyVerif.C20

/-- the residual expression logs nothing when re-evaluated -/
def RExpr.quiet : RExpr → Bool
  | .ref _ => true
  | .name _ => true
  | .idx py b i => !py && b.quiet && i.quiet
  | .attr py o _ => !py && o.quiet

/-- every LetRefNode index is below `n` -/
def RExpr.refsLt (n : Nat) : RExpr → Bool
  | .ref k => decide (k < n)
  | .name _ => true
  | .idx _ b i => b.refsLt n && i.refsLt n
  | .attr _ o _ => o.refsLt n

theorem evalR_quiet (ρ : List Val) (σ : Store) (e : RExpr) (h : e.quiet = true) : (evalR ρ σ e).1 = [] := by
  induction e with
  | ref n => rfl
  | name x => rfl
  | idx py b i ihb ihi =>
    simp [RExpr.quiet] at h
    obtain ⟨⟨hp, hb⟩, hi⟩ := h
    simp [evalR, ihb hb, ihi hi, getEv, hp]
  | attr py o a iho =>
    simp [RExpr.quiet] at h
    obtain ⟨hp, ho⟩ := h
    simp [evalR, iho ho, getattrEv, hp]

theorem evalR_append (ρ ex : List Val) (σ : Store) (e : RExpr) (h : e.refsLt ρ.length = true) :
    evalR (ρ ++ ex) σ e = evalR ρ σ e := by
  induction e with
  | ref n =>
    simp [RExpr.refsLt] at h
    simp [evalR, List.getD, List.getElem?_append_left h]
  | name x => rfl
  | idx py b i ihb ihi =>
    simp [RExpr.refsLt] at h
    simp [evalR, ihb h.1, ihi h.2]
  | attr py o a iho =>
    simp [RExpr.refsLt] at h
    simp [evalR, iho h]

theorem below_mono {n m : Nat} (e : RExpr) (hnm : n ≤ m) (h : e.refsLt n = true) : e.refsLt m = true := by
  induction e with
  | ref k => simp [RExpr.refsLt] at h ⊢; omega
  | name x => rfl
  | idx py b i ihb ihi => simp [RExpr.refsLt] at h ⊢; exact ⟨ihb h.1, ihi h.2⟩
  | attr py o a iho => simp [RExpr.refsLt] at h ⊢; exact iho h

theorem evalTemps_append (c : Cfg) (τ : Val → Bool) (σ : Store) (a b : List Expr) :
    evalTemps c τ σ (a ++ b) =
      ((evalTemps c τ σ a).1 ++ (evalTemps c τ σ b).1, (evalTemps c τ σ a).2 ++ (evalTemps c τ σ b).2) := by
  induction a with
  | nil => simp [evalTemps]
  | cons e es ih => simp [evalTemps, ih, List.append_assoc]

theorem evalTemps_length (c : Cfg) (τ : Val → Bool) (σ : Store) (a : List Expr) :
    (evalTemps c τ σ a).2.length = a.length := by
  induction a with
  | nil => rfl
  | cons e es ih => simp [evalTemps, ih]

theorem evalTemps_single (c : Cfg) (τ : Val → Bool) (σ : Store) (e : Expr) :
    evalTemps c τ σ [e] = ((eval c τ σ e).1, [(eval c τ σ e).2]) := by
  simp [evalTemps]

end CyVerif.C20

import CyVerif.Lemmas.C47LexStr
/-! The reference lexer on single tokens: backslash runs, quote runs in a literal and in code (C47). -/
namespace CyVerif.C47

abbrev rep (n : Nat) (c : Char) : List Char := List.replicate n c

theorem ff_add (a b : Nat) : ff (a + b) = ff a ++ ff b := by simp [ff, List.replicate_append_replicate]
theorem tt_add (a b : Nat) : tt (a + b) = tt a ++ tt b := by simp [tt, List.replicate_append_replicate]

/-- backslash run followed by a quote character, in a string body -/
theorem refLex_escape {q : Char} {t : Bool} (eq : Char) (post : List Char) : ∀ n : Nat,
    refLex (.str q t) 0 (rep n '\\' ++ eq :: post) =
      if n % 2 = 0 then (refLex (.str q t) 0 (eq :: post)).map (tt n ++ ·)
      else (refLex (.str q t) 0 post).map (tt (n + 1) ++ ·) := by
  intro n
  induction n using Nat.strongRecOn with
  | _ n ih =>
    match n with
    | 0 => simp
    | 1 =>
      simp only [rep, List.replicate_one, List.cons_append, List.nil_append, refLex_str_bs, refLex_esc]
      simp [Option.map_map, tt]; rfl
    | n + 2 =>
      have := ih n (by omega)
      simp only [rep, List.replicate_succ, List.cons_append, refLex_str_bs, refLex_esc] at this ⊢
      rw [this]
      have e : (n + 2) % 2 = n % 2 := by omega
      rw [e]
      split <;> simp [Option.map_map, tt] <;> rfl

theorem refLex_str_otherq {q c : Char} {t : Bool} (hc : isQuote c = true) (hne : c ≠ q) (post : List Char) :
    ∀ n, refLex (.str q t) 0 (rep n c ++ post) = (refLex (.str q t) 0 post).map (tt n ++ ·) := by
  intro n
  induction n with
  | zero => simp
  | succ n ih =>
    simp only [rep, List.replicate_succ, List.cons_append]
    rw [refLex_str_other (isQuote_ne_bs hc) hne]
    simp only [rep] at ih
    rw [ih]; simp [Option.map_map, tt]; rfl

theorem refLex_close1 {q : Char} (hq : isQuote q = true) (r : List Char) :
    refLex (.str q false) 0 (q :: r) = (refLex .code 0 r).map (false :: ·) := by
  simp [refLex, isQuote_ne_bs hq]

theorem refLex_close3 {q : Char} (hq : isQuote q = true) (r : List Char) :
    refLex (.str q true) 0 (q :: q :: q :: r) = (refLex .code 0 r).map (ff 3 ++ ·) := by
  simp [refLex, isQuote_ne_bs hq, Option.map_map, ff, List.replicate_succ]; rfl

theorem refLex_triple_q1 {q : Char} (hq : isQuote q = true) (post : List Char)
    (hp : ∀ x r, post = x :: r → x ≠ q) :
    refLex (.str q true) 0 (q :: post) = (refLex (.str q true) 0 post).map (true :: ·) := by
  simp only [refLex, isQuote_ne_bs hq, if_false, if_true]
  split
  · rename_i c1 c2 r
    have := hp c1 (c2 :: r) rfl
    simp [this]
  · rfl

theorem refLex_triple_q2 {q : Char} (hq : isQuote q = true) (post : List Char)
    (hp : ∀ x r, post = x :: r → x ≠ q) :
    refLex (.str q true) 0 (q :: q :: post) = (refLex (.str q true) 0 post).map (tt 2 ++ ·) := by
  have h1 : refLex (.str q true) 0 (q :: q :: post) = (refLex (.str q true) 0 (q :: post)).map (true :: ·) := by
    simp only [refLex, isQuote_ne_bs hq, if_false, if_true]
    cases post with
    | nil => rfl
    | cons x r =>
      have := hp x r rfl
      simp [this]
  rw [h1, refLex_triple_q1 hq post hp]
  simp [Option.map_map, tt, List.replicate_succ]; rfl


/-! ### a run of quote characters in code -/

theorem refLex_code_q6 {c : Char} (hc : isQuote c = true) (X : List Char) :
    refLex .code 0 (c :: c :: c :: c :: c :: c :: X) = (refLex .code 0 X).map (ff 6 ++ ·) := by
  have h1 : c ≠ '#' := fun h => by subst h; simp [isQuote] at hc
  simp [refLex, h1, hc, isQuote_ne_bs hc, Option.map_map, ff, List.replicate_succ]; rfl

theorem refLex_code_q6k {c : Char} (hc : isQuote c = true) (X : List Char) : ∀ k : Nat,
    refLex .code 0 (rep (6 * k) c ++ X) = (refLex .code 0 X).map (ff (6 * k) ++ ·) := by
  intro k
  induction k with
  | zero => simp
  | succ k ih =>
    have e : rep (6 * (k + 1)) c = c :: c :: c :: c :: c :: c :: rep (6 * k) c := by
      have : 6 * (k + 1) = 6 * k + 6 := by omega
      simp [rep, this, List.replicate_succ]
    have e2 : ff (6 * (k + 1)) = ff 6 ++ ff (6 * k) := by
      have : 6 * (k + 1) = 6 + 6 * k := by omega
      rw [this, ff_add]
    rw [e, e2]
    simp only [List.cons_append]
    rw [refLex_code_q6 hc, ih, Option.map_map]
    congr 1 <;> try (funext x; simp only [Function.comp, List.append_assoc])

theorem refLex_code_q1 {c : Char} (hc : isQuote c = true) (post : List Char) (hp : ∀ x r, post = x :: r → x ≠ c) :
    refLex .code 0 (c :: post) = (refLex (.str c false) 0 post).map (false :: ·) := by
  have h1 : c ≠ '#' := fun h => by subst h; simp [isQuote] at hc
  simp only [refLex, h1, hc, if_false, if_true]
  split
  · rename_i c1 c2 r
    have := hp c1 (c2 :: r) rfl
    simp [this]
  · rename_i c1
    have := hp c1 [] rfl
    simp [this]
  · simp [refLex]

theorem refLex_code_q2 {c : Char} (hc : isQuote c = true) (post : List Char) (hp : ∀ x r, post = x :: r → x ≠ c) :
    refLex .code 0 (c :: c :: post) = (refLex .code 0 post).map (ff 2 ++ ·) := by
  have h1 : c ≠ '#' := fun h => by subst h; simp [isQuote] at hc
  simp only [refLex, h1, hc, if_false, if_true]
  cases post with
  | nil => simp [refLex, ff]
  | cons x r =>
    have := hp x r rfl
    simp [this, refLex, Option.map_map, ff, List.replicate_succ]; rfl

theorem refLex_code_q3 {c : Char} (hc : isQuote c = true) (X : List Char) :
    refLex .code 0 (c :: c :: c :: X) = (refLex (.str c true) 0 X).map (ff 3 ++ ·) := by
  have h1 : c ≠ '#' := fun h => by subst h; simp [isQuote] at hc
  simp [refLex, h1, hc, Option.map_map, ff, List.replicate_succ]; rfl

end CyVerif.C47

import CyVerif.Lemmas.C28CmpChk
/-! # C28 — `total_ordering` against an unrelated cdef class: kernel evaluation -/
namespace CyVerif.C28

theorem toUnrelChk_c00 : toUnrelChk .cdef false false = true := by decide +kernel
theorem toUnrelChk_c01 : toUnrelChk .cdef false true = true := by decide +kernel
theorem toUnrelChk_c10 : toUnrelChk .cdef true false = true := by decide +kernel
theorem toUnrelChk_c11 : toUnrelChk .cdef true true = true := by decide +kernel

end CyVerif.C28

import CyVerif.Lemmas.C10EscLex
/-! One round of Cython's loop on a text literal (`u''`, unprefixed, f-string part) is one
step of CPython's unicode-escape decoder. -/
namespace CyVerif.C10

theorem hasText_of_isText (k : Kind) (h : k.isText = true) : k.hasText = true := by
  cases k <;> simp_all [Kind.isText, Kind.hasText]

/-- `_append_escape_sequence` on a token of at least two characters -/
theorem appendEsc_two (lk : Lookup) (k : Kind) (d : Nat) (tl : List Nat) :
    appendEsc P lk k (92 :: d :: tl) =
      if isOct d then
        (match parseInt 8 isOct (d :: tl) with
         | some n => chVal P k n
         | none => .err "ValueError")
      else if d = 39 ∨ d = 34 ∨ d = 92 then chStr k [d] false
      else if d = 97 ∨ d = 98 ∨ d = 102 ∨ d = 110 ∨ d = 114 ∨ d = 116 ∨ d = 118 then
        (match cyCharFromEscape d with
         | some v => chStr k [v] false
         | none => .err "TypeError")
      else if d = 10 then .ok {}
      else if d = 120 then
        (if tl.length = 2 then
          (match parseInt 16 isHex tl with
           | some n => chVal P k n
           | none => .err "ValueError")
         else chErr)
      else if (d = 78 ∨ d = 85 ∨ d = 117) ∧ k.isText then
        (if d = 78 then
          (match lk (tl.drop 1).dropLast with
           | .code n => chUesc k n (92 :: d :: tl)
           | .multi => .err "TypeError"
           | .missing => chErr)
         else if tl.length = 4 ∨ tl.length = 8 then
          (match parseInt 16 isHex tl with
           | some n => if n > 1114111 then .err "CompileError" else chUesc k n (92 :: d :: tl)
           | none => .err "ValueError")
         else chErr)
      else chStr k (92 :: d :: tl) false := by
  unfold appendEsc
  have h2 : ¬ (tl.length + 1 + 1 < 2) := by omega
  simp only [List.length_cons, h2, if_false, List.getD_cons_succ, List.getD_cons_zero, List.drop_succ_cons,
    List.drop_zero]
  have e4 : (tl.length + 1 + 1 = 4) = (tl.length = 2) := by apply propext; omega
  have e6 : (tl.length + 1 + 1 = 6) = (tl.length = 4) := by apply propext; omega
  have e10 : (tl.length + 1 + 1 = 10) = (tl.length = 8) := by apply propext; omega
  simp only [e4, e6, e10]
  rfl

theorem appendEsc_one (lk : Lookup) (k : Kind) : appendEsc P lk k [92] = chStr k [92] false := by
  simp [appendEsc]

/-- value bound of a successful digit parse -/
theorem parseDigits_lt : ∀ (l : List Nat) (acc v : Nat), parseDigits 16 isHex l acc = some v →
    v < (acc + 1) * 16 ^ l.length
  | [], acc, v => by simp [parseDigits]; intro h; omega
  | c :: t, acc, v => by
    simp only [parseDigits]
    split
    · rename_i hc
      intro h
      have ih := parseDigits_lt t _ v h
      have hv : hexDigVal c < 16 := by
        simp only [isHex, Bool.or_eq_true, Bool.and_eq_true, decide_eq_true_eq] at hc
        unfold hexDigVal
        split
        · omega
        · split <;> omega
      have : (acc * 16 + hexDigVal c + 1) * 16 ^ t.length ≤ (acc + 1) * 16 ^ (c :: t).length := by
        rw [List.length_cons, Nat.pow_succ]
        have : acc * 16 + hexDigVal c + 1 ≤ (acc + 1) * 16 := by omega
        calc (acc * 16 + hexDigVal c + 1) * 16 ^ t.length ≤ ((acc + 1) * 16) * 16 ^ t.length :=
              Nat.mul_le_mul_right _ this
          _ = (acc + 1) * (16 ^ t.length * 16) := by rw [Nat.mul_assoc, Nat.mul_comm 16]
      omega
    · intro h; cases h

theorem parseInt_hex_lt (l : List Nat) (v : Nat) (h : parseInt 16 isHex l = some v) : v < 16 ^ l.length := by
  unfold parseInt at h
  split at h
  · cases h
  · have := parseDigits_lt l 0 v h; simpa using this

end CyVerif.C10

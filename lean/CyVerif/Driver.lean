import CyVerif.Model.C38
/-! Line-protocol dispatcher: `<model> <op> <args…>` → one canonical line. -/
namespace CyVerif

def dispatch (line : String) : String :=
  match (line.splitOn " ").filter (· ≠ "") with
  | "C38" :: rest => C38.handle rest
  | _ => "bad-op"

partial def loop (h : IO.FS.Stream) (out : IO.FS.Stream) : IO Unit := do
  let line ← h.getLine
  if line.isEmpty then return ()
  let l := line.trimAsciiEnd.toString
  out.putStrLn (dispatch l)
  loop h out

end CyVerif

def main : IO Unit := do
  let stdin ← IO.getStdin
  let stdout ← IO.getStdout
  CyVerif.loop stdin stdout

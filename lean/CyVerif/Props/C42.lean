import CyVerif.Lemmas.C42
/-!
# C42 — compilation is deterministic (partial): the emitters of `GlobalState` whose output order could depend
on dict / set iteration order are functions of the *multiset* of constants, and the cnames are functions of the
request *sequence* (which the AST traversal fixes).
-/
namespace CyVerif.C42

def emptyPool : Pool := { used := [], strs := [] }
def emptyNumPool : NumPool := { used := [], nums := [] }

/-- **String table.** After ANY sequence of `get_string_const` / `get_py_string_const` requests, the output of
`generate_string_constants` (+ the ordering of `generate_pystring_constants`) is the same for every iteration order
`ys` of `string_const_index`. -/
theorem string_table_order_free (p : Prefixes) (reqs : List Req) (cs : List Bytes) (pool : Pool)
    (h : Pool.run p emptyPool reqs = some (cs, pool)) (ys : List SC) (hp : pool.strs.Perm ys) :
    emitStrings ys = emitStrings pool.strs :=
  (emitStrings_perm_index (run_suffix_distinct p reqs cs pool h) hp).symm

/-- **Numeric table.** Same for `generate_num_constants` and `num_const_index`. -/
theorem num_table_order_free (p : Prefixes) (reqs : List (Bytes × NumType)) (cs : List Bytes) (pool : NumPool)
    (h : NumPool.run p emptyNumPool reqs = some (cs, pool)) (ys : List NumC) (hp : pool.nums.Perm ys) :
    emitNums ys = emitNums pool.nums :=
  (emitNums_perm (numRun_distinct p reqs cs pool h) hp).symm

/-- **Fresh names.** `unique_const_cname` never hands out a name twice (so two constants never share a cname
through the counter mechanism), for every format and every state of the counter map. -/
theorem unique_cname_fresh (f : Fmt) (used : Used) (c : Bytes) (used' : Used) (h : uniq f used = some (c, used')) :
    c ∉ used.keys ∧ c ∈ used'.keys ∧ ∀ x, x ∈ used.keys → x ∈ used'.keys :=
  uniq_fresh f used c used' h

/-- Stronger statement that the property does NOT need and that is false: the cnames are independent of the
request order. -/
def CnamesRequestOrderFree : Prop :=
  ∀ (p : Prefixes) (r₁ r₂ : Req) (c₁ c₂ d₁ d₂ : Bytes),
    (Pool.run p emptyPool [r₁, r₂]).map (·.1) = some [c₁, c₂] →
    (Pool.run p emptyPool [r₂, r₁]).map (·.1) = some [d₂, d₁] → c₁ = d₁

/-- **Content-keyed case.** If the cleaning map (`[^a-zA-Z0-9_]+ → _`, 32 characters, strip `_`) is injective on the set
`S` of requested byte strings, every cname is `const_prefix + clean(bytes)`: a function of the content, not of
the request order. -/
theorem cname_content_keyed_partial (S : List Bytes)
    (hS : ∀ a, a ∈ S → ∀ b, b ∈ S → clean a = clean b → a = b) (p : Prefixes)
    (reqs : List Req) (hr : ∀ r, r ∈ reqs → r.bytes ∈ S) (cs : List Bytes) (pool : Pool)
    (h : Pool.run p emptyPool reqs = some (cs, pool)) :
    ∀ sc, sc ∈ pool.strs → sc.suffix = clean sc.bytes :=
  fun sc hsc => ((run_content S hS p reqs emptyPool pool cs hr ⟨rfl, by simp [emptyPool]⟩ h).2 sc hsc).1

def reqAB : Req := { bytes := s2b "a b", kind := .uni, enc := none, uniIdent := false, py := some .auto }
def reqAmB : Req := { bytes := s2b "a-b", kind := .uni, enc := none, uniIdent := false, py := some .auto }
def pfx : Prefixes := { k := s2b "__pyx_k_", n := s2b "__pyx_n_", kp := s2b "__pyx_kp_", int := s2b "__pyx_int_", float := s2b "__pyx_float_" }

/-- **Counter-keyed case.** `"a b"` and `"a-b"` both clean to `a_b`: whoever is requested first gets `…a_b`, the other
`…a_b_2`.  The table is a function of the request SEQUENCE. -/
theorem cnames_depend_on_request_order : ¬ CnamesRequestOrderFree := by
  intro h
  have := h pfx reqAB reqAmB (s2b "__pyx_kp_u_a_b") (s2b "__pyx_kp_u_a_b_2") (s2b "__pyx_kp_u_a_b_2") (s2b "__pyx_kp_u_a_b")
    (by decide) (by decide)
  exact absurd this (by decide)

/-- **Utility code.** `use_utility_code` emits at first use; the set `utility_codes` is only asked for membership:
whatever order the set keeps its elements in (`front`), the emission order is the first-use order. -/
theorem utility_order_first_use (front : Bool) (reqs : List Nat) : useAll front reqs [] [] = firstUse reqs [] := by
  have := useAll_eq front reqs [] [] [] (fun _ => Iff.rfl)
  simpa using this

/-- **Type order.** `sort_types_by_inheritance` uses `type_dict` for look-ups only: any iteration order of the dict
gives the same result; the result is a function of the LIST `type_order`. -/
theorem sort_types_dict_order_free (d₁ d₂ : TypeDict) (order : List Nat) (hp : d₁.Perm d₂)
    (hn : (d₁.map (·.1)).Nodup) : sortTypes d₁ order = sortTypes d₂ order := by
  have hl : (fun k => d₁.lookup k) = (fun k => d₂.lookup k) := funext (lookup_perm hp hn)
  simp only [sortTypes, hl, hp.length_eq]

/-! ### non-vacuity -/

def scA : SC := { suffix := s2b "b", bytes := s2b "b", textIsBytes := false, uniIdent := true, cUsed := true,
                  py := [{ cname := s2b "__pyx_n_u_b", intern := true, isUni := true, encKey := none }] }
def scB : SC := { suffix := s2b "a_b", bytes := s2b "a b", textIsBytes := false, uniIdent := false, cUsed := false,
                  py := [{ cname := s2b "__pyx_kp_u_a_b", intern := false, isUni := true, encKey := none }] }

example : emitStrings [scA, scB] = emitStrings [scB, scA] :=
  emitStrings_perm_index (by decide) (List.Perm.swap scB scA [])

example : (Pool.run pfx emptyPool [reqAB, reqAmB]).map (fun r => r.2.strs.length) = some 2 := by decide

example : ∀ a, a ∈ [s2b "a b", s2b "xy"] → ∀ b, b ∈ [s2b "a b", s2b "xy"] → clean a = clean b → a = b := by decide

example : (uniq (constFmt (s2b "a_b")) [(s2b "a_b", 1)]).map (·.1) = some (s2b "a_b_2") := by decide

example : sortTypes [(1, none), (2, some 1), (3, some 1)] [2, 3, 1] = sortTypes [(3, some 1), (1, none), (2, some 1)] [2, 3, 1] :=
  sort_types_dict_order_free _ _ _ (by decide) (by decide)

example : useAll true [3, 1, 3, 2, 1] [] [] = [3, 1, 2] := by decide

end CyVerif.C42

import CyVerif.Lemmas.C07
/-!
# C07 — power operator

* `intpow_exact_signed` / `intpow_exact_unsigned`: for every width `w`, every in-range base and
  every non-negative in-range exponent, `__Pyx_pow_T(b, e)` returns exactly `b ^ e` whenever that
  value fits the type (and `b ^ e` modulo `2^w` otherwise: `intPowPat_spec`).
* `powerOf2_exact`: the `2 ** n` fast path returns exactly `2 ^ n` for every `n ≥ 0`, and defers to
  CPython for `n < 0`.
* `resultType_matches_doc`: the (repaired) result-type decision equals the documented cpow table;
  `resultType_unfixed_differs`: the decision as originally written does not (negative constant
  exponent under `cpow=True`).
-/
namespace CyVerif.C07

theorem intPowPat_spec (w : Nat) (signed : Bool) (b e : Nat) (hb : b < 2 ^ w)
    (hneg : ¬ (signed = true ∧ 2 ^ (w - 1) ≤ e)) :
    intPowPat w signed b e = b ^ e % 2 ^ w := by
  unfold intPowPat
  have hm : 0 < 2 ^ w := Nat.two_pow_pos w
  simp only
  split
  · rename_i h; subst h
    rw [show b ^ 3 = b * b * b by rw [Nat.pow_succ, Nat.pow_two], Nat.mul_mod (b * b % 2 ^ w) b, Nat.mod_mod,
      ← Nat.mul_mod]
  · split
    · rename_i h; subst h; rw [Nat.pow_two]
    · split
      · rename_i h; subst h; simp [Nat.mod_eq_of_lt hb]
      · split
        · rename_i h; subst h; simp
        · split
          · rename_i h
            simp only [Bool.and_eq_true, decide_eq_true_eq] at h
            exact absurd h hneg
          · rw [powLoop_spec _ _ _ _ (Nat.mod_lt _ hm), Nat.mul_mod, Nat.mod_mod, ← Nat.mul_mod, Nat.one_mul]

/-- bit pattern of `b ^ n` -/
theorem cast_pow_pattern (w : Nat) (b : Int) (n : Nat) :
    (((pattern w b) ^ n % 2 ^ w : Nat) : Int) = b ^ n % ((2 ^ w : Nat) : Int) := by
  have h : ((pattern w b : Nat) : Int) % ((2 ^ w : Nat) : Int) = b % ((2 ^ w : Nat) : Int) := by
    rw [pattern_cast, Int.emod_emod_of_dvd _ (Int.dvd_refl _)]
  have := Int.pow_emod_congr h n
  rw [← this]
  push_cast
  rfl

/-- **Signed types.**  In-range base, `0 ≤ e`, result fits ⇒ exact. -/
theorem intpow_exact_signed (w : Nat) (hw : 1 ≤ w) (b e : Int)
    (he0 : 0 ≤ e) (he1 : e < ((2 ^ (w - 1) : Nat) : Int))
    (hfit0 : -((2 ^ (w - 1) : Nat) : Int) ≤ b ^ e.toNat) (hfit1 : b ^ e.toNat < ((2 ^ (w - 1) : Nat) : Int)) :
    intPow w true b e = b ^ e.toNat := by
  have hM : (2 ^ w : Nat) = 2 * 2 ^ (w - 1) := by
    obtain ⟨k, rfl⟩ : ∃ k, w = k + 1 := ⟨w - 1, by omega⟩
    simp [Nat.pow_succ, Nat.mul_comm]
  have hMi : ((2 ^ w : Nat) : Int) = 2 * ((2 ^ (w - 1) : Nat) : Int) := by rw [hM, Int.natCast_mul]; rfl
  have heM : e < ((2 ^ w : Nat) : Int) := by rw [hMi]; omega
  have hpe : pattern w e = e.toNat := pattern_nonneg_small w e he0 heM
  unfold intPow
  simp only [if_true]
  rw [hpe, intPowPat_spec w true _ _ (pattern_lt w b) (by
    intro h
    have := h.2
    have h2 : ((2 ^ (w - 1) : Nat) : Int) ≤ (e.toNat : Int) := by exact_mod_cast this
    rw [Int.toNat_of_nonneg he0] at h2
    omega)]
  unfold toSigned
  have hc := cast_pow_pattern w b e.toNat
  generalize hX : b ^ e.toNat = X at *
  generalize hp : pattern w b ^ e.toNat % 2 ^ w = p at *
  by_cases hx : 0 ≤ X
  · have : X % ((2 ^ w : Nat) : Int) = X := Int.emod_eq_of_lt hx (by omega)
    rw [this] at hc
    have hlt : p < 2 ^ (w - 1) := by
      have : ((p : Nat) : Int) < ((2 ^ (w - 1) : Nat) : Int) := by omega
      exact_mod_cast this
    simp only [hlt, if_true]; exact hc
  · have hadd : X % ((2 ^ w : Nat) : Int) = X + ((2 ^ w : Nat) : Int) := by
      rw [Int.emod_eq_add_self_emod]; exact Int.emod_eq_of_lt (by omega) (by omega)
    rw [hadd] at hc
    have hge : ¬ p < 2 ^ (w - 1) := by
      intro hlt
      have : ((p : Nat) : Int) < ((2 ^ (w - 1) : Nat) : Int) := by exact_mod_cast hlt
      omega
    simp only [hge, if_false]; omega

/-- **Unsigned types.** -/
theorem intpow_exact_unsigned (w : Nat) (b e : Int)
    (hb0 : 0 ≤ b) (he0 : 0 ≤ e) (he1 : e < ((2 ^ w : Nat) : Int))
    (hfit1 : b ^ e.toNat < ((2 ^ w : Nat) : Int)) :
    intPow w false b e = b ^ e.toNat := by
  have hpe : pattern w e = e.toNat := pattern_nonneg_small w e he0 he1
  unfold intPow
  simp only [Bool.false_eq_true, if_false]
  rw [hpe, intPowPat_spec w false _ _ (pattern_lt w b) (by simp), cast_pow_pattern]
  exact Int.emod_eq_of_lt (Int.pow_nonneg hb0) hfit1

/-- negative exponent on a signed type: C-style result 0 (outside the property's "exact" clause) -/
theorem intpow_neg_exponent (w : Nat) (b e : Int)
    (h3 : pattern w e ≠ 3 ∧ pattern w e ≠ 2 ∧ pattern w e ≠ 1 ∧ pattern w e ≠ 0) :
    2 ^ (w - 1) ≤ pattern w e → intPow w true b e = 0 := by
  intro hge
  unfold intPow intPowPat
  simp [h3.1, h3.2.1, h3.2.2.1, h3.2.2.2, hge, toSigned]

theorem powerOf2_exact (n : Int) (h : 0 ≤ n) : powerOf2 n = some (2 ^ n.toNat) := by
  unfold powerOf2
  have hs : ∀ k : Nat, (1 : Int) <<< k = 2 ^ k := by
    intro k; rw [Int.shiftLeft_eq]; simp
  by_cases h0 : n = 0
  · subst h0; simp
  · have hn : ¬ n < 0 := by omega
    simp only [h0, hn, if_false]
    split
    · simp [hs]
    · split <;> simp [hs]

theorem powerOf2_neg (n : Int) (h : n < 0) : powerOf2 n = none := by
  unfold powerOf2
  have : n ≠ 0 := by omega
  simp [this, h]

/-- The repaired decision agrees with every row of the documented table (where the table fixes
the type). -/
theorem resultType_matches_doc :
    ∀ cpow t1 t2, ∀ r, docTable cpow t1 t2 = some r → resultType true cpow t1 t2 = r := by
  intro cpow t1 t2 r
  cases cpow <;> cases t1 <;> cases t2 <;> cases r <;> decide

/-- The decision as written in the pinned source contradicts the table: `int ** <negative
constant>` under `cpow=True` stays a C integer (documented: C double). -/
theorem resultType_unfixed_differs :
    resultType false true .cintSigned .constNegInt = .cint ∧ docTable true .cintSigned .constNegInt = some .cdouble := by
  decide

/-- the two variants differ only in that cell class -/
theorem resultType_fix_only_cpow_negconst :
    ∀ cpow t1 t2, resultType false cpow t1 t2 ≠ resultType true cpow t1 t2 → cpow = true ∧ t2 = .constNegInt := by
  intro cpow t1 t2
  cases cpow <;> cases t1 <;> cases t2 <;> decide

/- Non-vacuity -/
example : intPow 32 true 200 4 = 200 ^ 4 :=
  intpow_exact_signed 32 (by decide) 200 4 (by decide) (by decide) (by decide) (by decide)
example : intPow 8 true (-2) 7 = (-2) ^ 7 :=
  intpow_exact_signed 8 (by decide) (-2) 7 (by decide) (by decide) (by decide) (by decide)
example : intPow 8 false 3 5 = 3 ^ 5 :=
  intpow_exact_unsigned 8 3 5 (by decide) (by decide) (by decide) (by decide)

end CyVerif.C07

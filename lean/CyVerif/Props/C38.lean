import CyVerif.Model.C38
import CyVerif.Lemmas.IntDiv
/-!
# C38 — `Shadow.cdiv` / `Shadow.cmod` equal C truncating division / remainder

C semantics of `/` and `%` on integers (C99 6.5.5): the quotient truncates
toward zero (`Int.tdiv`) and `(a/b)*b + a%b = a` (`Int.tmod`).
The theorems quantify over unbounded integers, so they cover every declared
C range at once.
-/
namespace CyVerif.C38

theorem cdiv_zero (a : Int) : cdiv a 0 = .err "ZeroDivisionError" := by
  unfold cdiv; split <;> simp

theorem cmod_zero (a : Int) : cmod a 0 = .err "ZeroDivisionError" := by
  simp [cmod]

/-- Full strength: for every pair of (unbounded) integers with a non-zero
divisor the shadow `cdiv` is C's truncating quotient. -/
theorem cdiv_eq_tdiv (a b : Int) (hb : b ≠ 0) : cdiv a b = .ok (Int.tdiv a b) := by
  obtain ⟨h1, h2, h3, h4⟩ := tdiv_tmod_spec a hb
  unfold cdiv
  by_cases ha : a < 0
  · simp only [ha, if_true]
    by_cases hb' : -b < 0
    · simp only [hb', if_true]
      congr 1
      refine (fdiv_fmod_unique_ne (r := -(a.tmod b) - b + 1) (by omega) ?_ (by omega) ?_).1
      · rw [Int.neg_mul]; omega
      · intro _; have := h4 (by omega); omega
    · have hb0 : ¬ (-b = 0) := by omega
      simp only [hb', hb0, if_false]
      congr 1
      refine (fdiv_fmod_unique_ne (r := -(a.tmod b)) (by omega) ?_ ?_ (by omega)).1
      · rw [Int.neg_mul]; omega
      · intro _; have := h4 (by omega); omega
  · simp only [ha, if_false]
    by_cases hb' : b < 0
    · simp only [hb', if_true]
      congr 1
      refine (fdiv_fmod_unique_ne (r := a.tmod b + b + 1) (by omega) ?_ (by omega) ?_).1
      · omega
      · intro _; have := h3 (by omega); omega
    · simp only [hb', hb, if_false]
      congr 1
      refine (fdiv_fmod_unique_ne (r := a.tmod b) hb h1 ?_ (by omega)).1
      intro _; have := h3 (by omega); omega

/-- Full strength: the shadow `cmod` is C's remainder (sign of the dividend). -/
theorem cmod_eq_tmod (a b : Int) (hb : b ≠ 0) : cmod a b = .ok (Int.tmod a b) := by
  obtain ⟨h1, h2, h3, h4⟩ := tdiv_tmod_spec a hb
  have hf := Int.fmod_add_mul_fdiv a b
  have hm := mul_neg_iff' a b
  simp only [cmod, hb, if_false]
  by_cases hpos : 0 < b
  · have hr := fmod_range_pos a hpos
    split
    · rename_i hc
      congr 1
      refine (tdiv_tmod_unique (q := a.fdiv b + 1) hb ?_ (by omega) (by omega) (by omega)).2.symm
      rw [Int.mul_add]; omega
    · rename_i hc
      congr 1
      refine (tdiv_tmod_unique (q := a.fdiv b) hb hf (by omega) (by omega) ?_).2.symm
      intro ha
      by_cases ha0 : a = 0
      · subst ha0; simp
      · have : a * b < 0 := hm.2 (Or.inl ⟨by omega, hpos⟩)
        simp only [this, true_and, Decidable.not_not] at hc
        omega
  · have hneg : b < 0 := by omega
    have hr := fmod_range_neg a hneg
    split
    · rename_i hc
      congr 1
      refine (tdiv_tmod_unique (q := a.fdiv b + 1) hb ?_ (by omega) (by omega) (by omega)).2.symm
      rw [Int.mul_add]; omega
    · rename_i hc
      congr 1
      refine (tdiv_tmod_unique (q := a.fdiv b) hb hf (by omega) ?_ (by omega)).2.symm
      intro ha
      by_cases ha0 : a = 0
      · subst ha0; simp
      · have : a * b < 0 := hm.2 (Or.inr ⟨by omega, hneg⟩)
        simp only [this, true_and, Decidable.not_not] at hc
        omega

/-- Non-vacuity: concrete non-trivial operands of every sign combination. -/
example : cdiv (-7) 2 = .ok (-3) ∧ cdiv 7 (-2) = .ok (-3) ∧ cdiv (-7) (-2) = .ok 3 ∧
    cmod (-7) 2 = .ok (-1) ∧ cmod 7 (-2) = .ok 1 ∧ cmod (-7) (-2) = .ok (-1) := by decide

end CyVerif.C38

import CyVerif.Props.C35
/-!
# C35 part 2 — the refnanny checker and the abstract generated function
-/
namespace CyVerif.C35

/-- the checker (`Context.regref/delref/end` driven through `GOTREF/GIVEREF/INCREF/DECREF` and the
`X` macros) prints nothing EXACTLY when: no NULL argument, in every prefix no object was released
more often than registered, and at the end equally often — for every event stream -/
theorem checker_sound_complete (es : List NEv) :
    report es = [] ↔
      NoNull es ∧ (∀ k o, dels (es.take k) o ≤ regs (es.take k) o) ∧ ∀ o, regs es o = dels es o := by
  rw [report_nil_iff, balanced_iff]

/-- if the checker prints nothing and exactly the references received from callees were `GOTREF`ed,
the net refcount change of every object is the number of references given away
(`GIVEREF`: stolen by a container, returned) — zero for everything else -/
theorem clean_report_net_refcount (es : List NEv) (h : report es = []) (o : Nat)
    (ha : acquires es o = gotrefs es o) : delta es o = giverefs es o :=
  delta_eq_given ((report_nil_iff es).mp h) o ha

/-- leak / missing `GOTREF`: dropping ONE registration or release of a non-NULL object from a stream
the checker accepts is always reported -/
theorem leak_reported {xs ys : List NEv} {e : NEv} {o : Nat} (he : e.touches o)
    (h : report (xs ++ e :: ys) = []) : report (xs ++ ys) ≠ [] :=
  dropped_event_reported he ((report_nil_iff _).mp h)

/-- double release / double registration: ONE extra event is always reported -/
theorem double_release_reported {xs ys : List NEv} {e : NEv} {o : Nat} (he : e.touches o)
    (h : report (xs ++ ys) = []) : report (xs ++ e :: ys) ≠ [] :=
  extra_event_reported he ((report_nil_iff _).mp h)

/-- release of an object with no outstanding registration (use after release) is reported -/
theorem unowned_release_reported {xs ys : List NEv} {e : NEv} {o : Nat} {d : Bool}
    (he : e.kind = .del (some o) d) (h : dels xs o = regs xs o) : report (xs ++ e :: ys) ≠ [] :=
  early_release_reported he h

/-- NULL passed to a non-`X` macro is reported -/
theorem null_argument_reported {xs ys : List NEv} {e : NEv}
    (he : e.kind = .reg none ∨ ∃ d, e.kind = .del none d) : report (xs ++ e :: ys) ≠ [] :=
  null_reported he

/-- ERROR PATH.  For every disciplined statement sequence `h1 ++ h2` (any allocator history, any
objects): jumping to the error label after `h1`, with the cleanup list `all_managed_temps()` computed
after the WHOLE function `h1 ++ h2`, gives a stream the checker accepts, and the net refcount change
of every object is exactly the number of references handed away before the jump -/
theorem error_path_balanced (taken : List Nat) (h1 h2 : List Stmt) (st1 st2 : FSt)
    (r1 : (FSt.init taken).run h1 = some st1) (r2 : st1.run h2 = some st2) :
    report (errorExit st1 (allManaged st2.fs)) = [] ∧
    ∀ o, delta (errorExit st1 (allManaged st2.fs)) o = giverefs st1.evs o := by
  obtain ⟨i1, -⟩ := finv_run (finv_init taken) r1
  obtain ⟨i2, p2⟩ := finv_run i1 r2
  apply errorExit_clean i1 (allManaged_nodup i2.wf)
  intro n hn
  obtain ⟨t, ht, e, hm⟩ := mem_allManaged.mp (holdingRef_sub_allManaged hn)
  exact mem_allManaged.mpr ⟨t, p2.subset ht, e, hm⟩

/-- RETURN PATH (`ReturnStatNode`: `DECREF` of `temps_holding_reference()`), when every managed temp
in use holds an object -/
theorem return_path_balanced (taken : List Nat) (h : List Stmt) (st : FSt)
    (r : (FSt.init taken).run h = some st) (hfull : ∀ t ∈ holdingRef st.fs, aget st.owned t ≠ none) :
    report (returnExit st) = [] ∧ ∀ o, delta (returnExit st) o = giverefs st.evs o :=
  returnExit_clean (finv_run (finv_init taken) r).1 hfull

/-- a cleanup list that lacks a temp holding a reference (a dropped `put_xdecref`) is reported, for
every disciplined function and every such temp -/
theorem dropped_cleanup_reported (taken : List Nat) (h : List Stmt) (st : FSt)
    (r : (FSt.init taken).run h = some st) (C1 C2 : List Nat) (t o : Nat)
    (hC : (C1 ++ t :: C2).Nodup) (hsub : ∀ n ∈ holdingRef st.fs, n ∈ C1 ++ t :: C2)
    (ho : aget st.owned t = some o) : report (errorExit st (C1 ++ C2)) ≠ [] := by
  have inv := (finv_run (finv_init taken) r).1
  have hfull := (errorExit_clean inv hC hsub).1
  have e1 : errorExit st (C1 ++ t :: C2) =
      (st.evs ++ cleanupEvents st.owned st.evs.length C1) ++ (NEv.xdecref (some o) st.evs.length) ::
        cleanupEvents st.owned st.evs.length C2 := by
    simp [errorExit, cleanupEvents, ho]
  have e2 : errorExit st (C1 ++ C2) =
      (st.evs ++ cleanupEvents st.owned st.evs.length C1) ++ cleanupEvents st.owned st.evs.length C2 := by
    simp [errorExit, cleanupEvents]
  rw [e1] at hfull
  rw [e2]
  exact leak_reported (o := o) (Or.inl ⟨true, by simp [NEv.kind]⟩) hfull

/-- an `XDECREF` of the same temp twice in a cleanup list (double release) is reported -/
theorem double_cleanup_reported (taken : List Nat) (h : List Stmt) (st : FSt)
    (r : (FSt.init taken).run h = some st) (C1 C2 : List Nat) (t o : Nat)
    (hC : (C1 ++ t :: C2).Nodup) (hsub : ∀ n ∈ holdingRef st.fs, n ∈ C1 ++ t :: C2)
    (ho : aget st.owned t = some o) : report (errorExit st (C1 ++ t :: t :: C2)) ≠ [] := by
  have inv := (finv_run (finv_init taken) r).1
  have hfull := (errorExit_clean inv hC hsub).1
  have e1 : errorExit st (C1 ++ t :: C2) =
      (st.evs ++ cleanupEvents st.owned st.evs.length C1) ++
        cleanupEvents st.owned st.evs.length (t :: C2) := by
    simp [errorExit, cleanupEvents]
  have e2 : errorExit st (C1 ++ t :: t :: C2) =
      (st.evs ++ cleanupEvents st.owned st.evs.length C1) ++ (NEv.xdecref (some o) st.evs.length) ::
        cleanupEvents st.owned st.evs.length (t :: C2) := by
    simp [errorExit, cleanupEvents, ho]
  rw [e1] at hfull
  rw [e2]
  exact double_release_reported (o := o) (Or.inl ⟨true, by simp [NEv.kind]⟩) hfull

-- non-vacuity: a disciplined function with two temps, error after the second acquisition
def demo : List Stmt :=
  [.alloc pyObj true false true, .newref 1 7, .alloc pyObj true false true, .newref 2 8, .steal 2,
   .release 2, .dispose 1, .release 1]

example : ∃ st1 st2, (FSt.init []).run (demo.take 4) = some st1 ∧ st1.run (demo.drop 4) = some st2 ∧
    allManaged st2.fs = [1, 2] ∧ st1.owned = [(1, 7), (2, 8)] := by
  refine ⟨_, _, rfl, rfl, ?_, ?_⟩ <;> decide

example : report [.acquire 0, .gotref (some 0) 1, .decref (some 0) 2] = [] := by decide
example : report [.acquire 0, .gotref (some 0) 1] ≠ [] := by decide
example : report [.acquire 0, .gotref (some 0) 1, .decref (some 0) 2, .decref (some 0) 3] ≠ [] := by decide

end CyVerif.C35

import CyVerif.Lemmas.C20Sfr
import CyVerif.Lemmas.C20Flat
import CyVerif.Model.C20Drv
/-! C20 — property theorems: the compiler's evaluation-restructuring rewrites against the reference
(Python) evaluator on the logging mini-AST.  All statements quantify over every configuration `c`, every
truth oracle `τ`, every store `σ`, every target / expression (no size or depth bound). -/
namespace CyVerif.C20

/-! ## In-place expansion (`ExpandInplaceOperators`) -/

/-- FULL statement: the expanded `t += rhs` logs the same events and leaves the same store as Python's
augmented assignment (target sub-expressions evaluated once). -/
def FullInplace (fx : Bool) : Prop :=
  ∀ (c : Cfg) (τ : Val → Bool) (σ : Store) (t : Tgt) (rhs : Expr), augCy fx c τ σ t rhs = augRef c τ σ t rhs

/-- what `side_effect_free_reference` leaves for re-evaluation in the object expression of an attribute target -/
def residueQuiet (fx : Bool) : Tgt → Bool
  | .attr py o _ => (sfr fx (if fx then !py else true) 0 o).1.quiet
  | _ => true

/-- PARTIAL (code as it is, and the repaired variant): equal whenever the re-evaluated residue of the
target's object expression logs nothing.  Name and subscript targets satisfy the hypothesis by `rfl`. -/
theorem inplace_expand_partial (fx : Bool) (c : Cfg) (τ : Val → Bool) (σ : Store) (t : Tgt) (rhs : Expr)
    (hq : residueQuiet fx t = true) : augCy fx c τ σ t rhs = augRef c τ σ t rhs := by
  cases t with
  | name x => simp [augCy, augRef, Tgt.toExpr, sfr, evalTemps, evalR, writeR]
  | idx py b i =>
    have hd := sfr_decomp fx c τ σ false 0 b [] rfl
    have hq' := sfr_false_quiet fx 0 b
    have hlt := sfr_refsLt fx false 0 b
    generalize hsf : sfr fx false 0 b = r at hd hq' hlt
    obtain ⟨b', ts⟩ := r
    simp only at hd hq' hlt
    have hlen := evalTemps_length c τ σ ts
    have hbelow : b'.refsLt ([] ++ (evalTemps c τ σ ts).2).length = true := by simpa [hlen] using hlt
    have hqe := evalR_quiet (evalTemps c τ σ ts).2 σ b' hq'
    have happ := evalR_append ([] ++ (evalTemps c τ σ ts).2) [(eval c τ σ i).2] σ b' hbelow
    simp only [List.nil_append] at happ hd
    have hget : (((evalTemps c τ σ ts).2 ++ [(eval c τ σ i).2])[ts.length]?).getD (Val.sym "?") = (eval c τ σ i).2 := by
      simp [← hlen]
    simp [augCy, augRef, Tgt.toExpr, sfr, hsf, evalTemps_append, evalTemps_single, evalR, writeR, happ, hget, hd, hqe,
      List.append_assoc]
  | attr py o a =>
    simp only [residueQuiet] at hq
    have hs : (if fx = true then !py else true) = (!fx || !py) := by cases fx <;> simp
    rw [hs] at hq
    have hd := sfr_decomp fx c τ σ (!fx || !py) 0 o [] rfl
    generalize hsf : sfr fx (!fx || !py) 0 o = r at hd hq
    obtain ⟨o', ts⟩ := r
    simp only [List.nil_append] at hd hq
    have hqe := evalR_quiet (evalTemps c τ σ ts).2 σ o' hq
    simp [augCy, augRef, Tgt.toExpr, sfr, hsf, evalR, writeR, hd, hqe, List.append_assoc]

example : residueQuiet false (.idx true (.attr true (.idx true (.name "a") (.ev 1)) "p") (.ev 2)) = true := rfl
example : residueQuiet false (.attr true (.call (.name "a") (.acons (.ev 1) .anil) .anil) "p") = true := rfl
example : residueQuiet false (.attr false (.attr false (.name "s") "u") "w") = true := rfl

/-- Subscript and name targets: unconditional (for every nesting of the base: `a[i][j]`, `f().x[i]`, …). -/
theorem inplace_subscript_full (fx : Bool) (c : Cfg) (τ : Val → Bool) (σ : Store) (py : Bool) (b i rhs : Expr) :
    augCy fx c τ σ (.idx py b i) rhs = augRef c τ σ (.idx py b i) rhs :=
  inplace_expand_partial fx c τ σ _ rhs rfl

/-- REPAIRED variant (`fx = true`): full for every generic-Python target (any object expression). -/
theorem inplace_fixed_python_targets (c : Cfg) (τ : Val → Bool) (σ : Store) (t : Tgt) (rhs : Expr)
    (hpy : (match t with | .attr py _ _ => py | _ => true) = true) :
    augCy true c τ σ t rhs = augRef c τ σ t rhs := by
  apply inplace_expand_partial
  cases t with
  | name x => rfl
  | idx py b i => rfl
  | attr py o a =>
    simp at hpy; subst hpy
    simpa [residueQuiet] using sfr_false_quiet true 0 o

example : (match Tgt.attr true (.attr true (.name "a") "p") "q" with | .attr py _ _ => py | _ => true) = true := rfl

/-- the full statement is FALSE for the code as it is: `a.p.q += E.ev(1)` looks `a.p` up twice -/
def witnessInplace : Tgt := .attr true (.attr true (.name "a") "p") "q"

theorem inplace_current_counterexample : ¬ FullInplace false := by
  intro h
  have h1 : (augCy false {} (fun _ => true) [] witnessInplace (.ev 1)).1.length = 6 := by decide
  have h2 : (augRef {} (fun _ => true) [] witnessInplace (.ev 1)).1.length = 5 := by decide
  rw [h {} (fun _ => true) [] witnessInplace (.ev 1)] at h1
  omega

theorem evalR_noleaf (ρ : List Val) (σ : Store) (e : RExpr) : (evalR ρ σ e).1.filter isLeafEv = [] := by
  induction e with
  | ref n => rfl
  | name x => rfl
  | idx py b i ihb ihi => cases py <;> simp [evalR, ihb, ihi, getEv, isLeafEv, mk2]
  | attr py o a iho => cases py <;> simp [evalR, iho, getattrEv, isLeafEv, mk2]

/-- UNCONDITIONAL (code as it is): the leaf events (`E.ev(k)` calls: every operand, index, argument) of the
expanded statement are those of the reference, in the same order, and the final store is the same —
what the current expansion duplicates are only attribute / item lookups of the target's object expression. -/
theorem inplace_leaf_trace (fx : Bool) (c : Cfg) (τ : Val → Bool) (σ : Store) (t : Tgt) (rhs : Expr) :
    (augCy fx c τ σ t rhs).1.filter isLeafEv = (augRef c τ σ t rhs).1.filter isLeafEv
    ∧ (augCy fx c τ σ t rhs).2 = (augRef c τ σ t rhs).2 := by
  cases t with
  | name x => rw [inplace_expand_partial fx c τ σ _ rhs rfl]; exact ⟨rfl, rfl⟩
  | idx py b i => rw [inplace_expand_partial fx c τ σ _ rhs rfl]; exact ⟨rfl, rfl⟩
  | attr py o a =>
    have hd := sfr_decomp fx c τ σ (!fx || !py) 0 o [] rfl
    have hs : (if fx = true then true && !py else true) = (!fx || !py) := by cases fx <;> simp
    generalize hsf : sfr fx (!fx || !py) 0 o = r at hd
    obtain ⟨o', ts⟩ := r
    simp only [List.nil_append] at hd
    have hn := evalR_noleaf (evalTemps c τ σ ts).2 σ o'
    simp [augCy, augRef, Tgt.toExpr, sfr, hsf, evalR, writeR, hd, hn, List.filter_append, List.append_assoc, isLeafEv, mk2]

/-! ## Parallel-assignment flattening (`PostParse` / `flatten_parallel_assignments`) -/

/-- FULL statement: whenever the compiler flattens `lt = r` into single assignments executed by a
`ParallelAssignmentNode`, trace and store are those of packing `r` and unpacking it into `lt`. -/
def FullFlatten (fs : Bool) : Prop :=
  ∀ (c : Cfg) (τ : Val → Bool) (σ : Store) (lt : LT) (r : Expr) (stats : List (LT × Expr)),
    flat fs lt r = some stats → runPar c τ σ stats = stmtRef c τ σ (.assign [lt] r)

/-- PARTIAL (both variants): every star-free target tree, of any nesting, against any right-hand side
(displays are matched item by item; opaque values are unpacked at run time; swaps are instances). -/
theorem parallel_flatten_nostar_partial (fs : Bool) (c : Cfg) (τ : Val → Bool) (σ : Store) (lt : LT) (r : Expr)
    (stats : List (LT × Expr)) (hf : flat fs lt r = some stats) (hn : lt.noStar = true) :
    runPar c τ σ stats = stmtRef c τ σ (.assign [lt] r) := by
  obtain ⟨e1, a1⟩ := flat_nostar fs c τ lt r stats σ hf hn
  simp [runPar, stmtRef, assignAll, e1, a1]

/-- swap `a[E.ev(1)], a[E.ev(2)] = a[E.ev(3)], a[E.ev(4)]` meets the hypotheses -/
def swapL : LT := .seq (.scons false (.leaf (.idx true (.name "a") (.ev 1))) (.scons false (.leaf (.idx true (.name "a") (.ev 2))) .snil))
def swapR : Expr := .tuple (.acons (.idx true (.name "a") (.ev 3)) (.acons (.idx true (.name "a") (.ev 4)) .anil))
example : (flat false swapL swapR).isSome = true ∧ swapL.noStar = true := by decide

/-- the full statement is FALSE for the code as it is: `*x, a.p = E.ev(1), E.ev(2), E.ev(3)` runs `E.ev(3)` first -/
def starL : LT := .seq (.scons true (.leaf (.name "x")) (.scons false (.leaf (.attr true (.name "a") "p")) .snil))
def starR : Expr := .tuple (.acons (.ev 1) (.acons (.ev 2) (.acons (.ev 3) .anil)))

theorem flatten_current_counterexample : ¬ FullFlatten false := by
  intro h
  have hs : flat false starL starR = some [(.leaf (.attr true (.name "a") "p"), .ev 3),
      (.leaf (.name "x"), .list (.acons (.ev 1) (.acons (.ev 2) .anil)))] := by decide
  have := h {} (fun _ => true) [] starL starR _ hs
  have h1 : (runPar {} (fun _ => true) [] [(.leaf (.attr true (.name "a") "p"), .ev 3),
      (.leaf (.name "x"), .list (.acons (.ev 1) (.acons (.ev 2) .anil)))]).1.head? = some (evLeaf 3) := by decide
  have h2 : (stmtRef {} (fun _ => true) [] (.assign [starL] starR)).1.head? = some (evLeaf 1) := by decide
  rw [this, h2] at h1
  exact absurd h1 (by decide)

/-- the repaired ordering (`fs = true`) emits the starred assignment at its position: same witness, reference trace -/
theorem flatten_fixed_witness :
    (flat true starL starR).map (runPar {} (fun _ => true) []) = some (stmtRef {} (fun _ => true) [] (.assign [starL] starR)) := by
  decide

end CyVerif.C20

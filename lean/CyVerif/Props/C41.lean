import CyVerif.Lemmas.C41Parse
import CyVerif.Lemmas.C41Scope
/-!
# C41 — compiler directives apply exactly within their scope

Part 1 (parsing, `Options.parse_directive_value` / `parse_directive_list`): for EVERY string, type table,
character table and encoding normaliser: the result is a value of the documented kind or `ValueError`
(`parse_value_total`, `parse_list_total`: full strength for the repaired source variant `fixed = true`; for
the variant before the repair the statement is false — `parse_*_counterexample` — and holds for strings
that do not assign a directive of an unparsable kind, `*_partial`); the value of a name is determined by
the items naming it, the last one wins (`last_wins`, `untouched`); `<p>.all` sets exactly the directives
whose name starts with `<p>.` (`all_expansion`); an unknown name is an error unless `ignore_unknown`
(`unknown_name`); parsing `a,b` is parsing `a` then `b` (`parse_list_compositional`).

Part 2 (scoping, `InterpretCompilerDirectives`): for EVERY program tree (any nesting) the dictionary in
force at a node gives, for every directive that is neither list-typed nor excluded from inheritance, the
innermost enclosing setting, else the header comment, else the options, else the default
(`directive_in_force`); a block never changes what the code after it sees (`block_does_not_leak`).
-/
namespace CyVerif.C41

/-! ## Part 1: parsing -/

/-- full-strength statement for one call of `parse_directive_value` -/
def ParseValueTotal (C : Cfg) : Prop :=
  ∀ (relaxed : Bool) (n v : Str),
    match parseValue C relaxed n v with
    | .ok d => (∃ k, lkS n C.T.types = some k ∧ d.hasKind k) ∨ (lkS n C.T.types = none ∧ d = .none)
    | .err e => e = "ValueError"

/-- **Totality** (repaired source): documented kind or ValueError, for all names and all strings. -/
theorem parse_value_total (C : Cfg) (hf : C.fixed = true) : ParseValueTotal C := by
  intro relaxed n v
  cases h : parseValue C relaxed n v with
  | ok d => exact parseValue_ok C relaxed n v d (Or.inl hf) h
  | err e => exact parseValue_err C relaxed n v e (Or.inl hf) h

/-- … for either variant, for the names whose kind can be parsed from a string. -/
theorem parse_value_total_partial (C : Cfg) (relaxed : Bool) (n v : Str)
    (hn : ∀ k, lkS n C.T.types = some k → k.unparsable = false) :
    match parseValue C relaxed n v with
    | .ok d => (∃ k, lkS n C.T.types = some k ∧ d.hasKind k) ∨ (lkS n C.T.types = none ∧ d = .none)
    | .err e => e = "ValueError" := by
  cases h : parseValue C relaxed n v with
  | ok d => exact parseValue_ok C relaxed n v d (Or.inr hn) h
  | err e => exact parseValue_err C relaxed n v e (Or.inr hn) h

def tab0 : CharTab := ⟨fun c => c = ' ', fun _ => none⟩
/-- the three unparsable kinds that occur among the keys of `_directive_defaults` -/
def T0 : Table := ⟨[("warn".toList, .noneType), ("nogil".toList, .defer), ("with_gil".toList, .absent),
  ("boundscheck".toList, .bool)], ["warn".toList, "nogil".toList, "with_gil".toList, "boundscheck".toList]⟩
def C0 (fixed : Bool) : Cfg := ⟨tab0, T0, some, 4300, fixed⟩

/-- before the repair: `warn=True` raises TypeError, `nogil=True` AssertionError, `with_gil=True` gives None -/
theorem parse_value_counterexample :
    parseValue (C0 false) false "warn".toList "True".toList = .err "TypeError" ∧
    parseValue (C0 false) false "nogil".toList "True".toList = .err "AssertionError" ∧
    parseValue (C0 false) false "with_gil".toList "True".toList = .ok .none ∧
    ¬ ParseValueTotal (C0 false) := by
  refine ⟨by decide, by decide, by decide, ?_⟩
  intro h
  have := h false "warn".toList "True".toList
  have e : parseValue (C0 false) false "warn".toList "True".toList = .err "TypeError" := by decide
  rw [e] at this
  exact absurd this (by decide)

example : ∀ k, lkS "boundscheck".toList (C0 false).T.types = some k → k.unparsable = false := by decide
example : parseValue (C0 true) false "warn".toList "True".toList = .err "ValueError" := by decide
example : parseValue (C0 true) true "boundscheck".toList "YES".toList = .ok (.bool true) := by decide

/-- full-strength statement for `parse_directive_list` -/
def ParseListTotal (C : Cfg) : Prop :=
  ∀ (relaxed iu : Bool) (s : Str) (cur : Settings), ListOK C.T cur →
    match parseList C relaxed iu s cur with
    | .ok r => ListOK C.T r
    | .err e => e = "ValueError"

/-- **Totality of the list parser** (repaired source): a dictionary or ValueError, for all strings. -/
theorem parse_list_total (C : Cfg) (hf : C.fixed = true) : ParseListTotal C := by
  intro relaxed iu s cur hc
  exact execItems_total C relaxed iu _ cur hc (fun _ _ _ _ _ _ _ => Or.inl hf)

/-- … for either variant, for strings that never assign a directive of an unparsable kind. -/
theorem parse_list_total_partial (C : Cfg) (relaxed iu : Bool) (s : Str) (cur : Settings)
    (hc : ListOK C.T cur) (hs : GoodItems C iu (splitOn ',' s)) :
    match parseList C relaxed iu s cur with
    | .ok r => ListOK C.T r
    | .err e => e = "ValueError" :=
  execItems_total C relaxed iu _ cur hc hs

theorem parse_list_counterexample :
    parseList (C0 false) false true "boundscheck=False, warn = x".toList [] = .err "TypeError" ∧
    ¬ ParseListTotal (C0 false) := by
  refine ⟨by decide, ?_⟩
  intro h
  have := h false true "boundscheck=False, warn = x".toList [] (fun n _ => Or.inl rfl)
  have e : parseList (C0 false) false true "boundscheck=False, warn = x".toList [] = .err "TypeError" := by
    decide
  rw [e] at this
  exact absurd this (by decide)

example : parseList (C0 true) false true "boundscheck=False, warn = x".toList [] = .err "ValueError" := by decide
example : parseList (C0 false) false true " boundscheck = False ,, zzz=1".toList [] =
    .ok [("boundscheck".toList, .bool false)] := by decide

/-- **Compositionality**: `parse(a + "," + b, cur) = parse(b, parse(a, cur))`, errors propagating. -/
theorem parse_list_compositional (C : Cfg) (relaxed iu : Bool) (a b : Str) (cur : Settings) :
    parseList C relaxed iu (a ++ ',' :: b) cur =
      Res.bind (parseList C relaxed iu a cur) (fun st => parseList C relaxed iu b st) := by
  unfold parseList
  rw [splitOn_append, execItems_append]

/-- A successful parse is the execution of the elementary actions of its items, and the entry of a
name depends only on the actions naming it. -/
theorem value_determined_by_own_items (C : Cfg) (relaxed iu : Bool) (s : Str) (cur r : Settings)
    (h : parseList C relaxed iu s cur = .ok r) :
    ∃ acts, expandAll C iu (splitOn ',' s) = .ok acts ∧
      ∀ n, r.get n = effect C relaxed n acts (cur.get n) := by
  obtain ⟨acts, ha, he⟩ := execItems_acts C relaxed iu _ cur r h
  exact ⟨acts, ha, fun n => execActs_get C relaxed n acts cur r he⟩

/-- **Last occurrence wins.** -/
theorem last_wins (C : Cfg) (relaxed iu : Bool) (s : Str) (cur r : Settings)
    (h : parseList C relaxed iu s cur = .ok r) (pre post : List Act) (n v : Str)
    (ha : expandAll C iu (splitOn ',' s) = .ok (pre ++ Act.set n v :: post))
    (hpost : ∀ a ∈ post, a.name ≠ n) :
    ∃ d, parseValue C relaxed n v = .ok d ∧ r.get n = some d := by
  obtain ⟨acts, ha', he⟩ := value_determined_by_own_items C relaxed iu s cur r h
  rw [ha] at ha'
  simp only [Res.ok.injEq] at ha'
  subst ha'
  have h1 := he n
  rw [effect_append] at h1
  simp only [effect, if_true] at h1
  rw [effect_unnamed C relaxed n post _ hpost] at h1
  -- the parse of the last occurrence succeeded, because the whole call did
  obtain ⟨acts2, _, hx⟩ := execItems_acts C relaxed iu _ cur r h
  cases hp : parseValue C relaxed n v with
  | ok d => exact ⟨d, rfl, by rw [h1, hp]; rfl⟩
  | err e =>
    exfalso
    have hx' := hx
    rw [ha] at *
    rename_i hacts
    simp only [Res.ok.injEq] at hacts
    subst hacts
    rw [execActs_append] at hx'
    cases hq : execActs C relaxed cur pre with
    | err e' => rw [hq] at hx'; simp [Res.bind] at hx'
    | ok st' =>
      rw [hq] at hx'
      simp [Res.bind, execActs, execAct, hp] at hx'

/-- A name that no item assigns keeps its previous entry. -/
theorem untouched (C : Cfg) (relaxed iu : Bool) (s : Str) (cur r : Settings)
    (h : parseList C relaxed iu s cur = .ok r) (acts : List Act) (n : Str)
    (ha : expandAll C iu (splitOn ',' s) = .ok acts) (hn : ∀ a ∈ acts, a.name ≠ n) :
    r.get n = cur.get n := by
  obtain ⟨acts', ha', he⟩ := value_determined_by_own_items C relaxed iu s cur r h
  rw [ha] at ha'
  simp only [Res.ok.injEq] at ha'
  subst ha'
  rw [he n, effect_unnamed C relaxed n acts _ hn]

/-- **`<p>.all=v`** (when `<p>.all` is not itself a directive): the item assigns `v` to exactly the keys of
`_directive_defaults` that start with `<p>.`; if there is none the name is unknown. -/
theorem all_expansion (C : Cfg) (iu : Bool) (pre v : Str) (hnd : pre ++ ".all".toList ∉ C.T.defaults) :
    let ms := C.T.defaults.filter (isPrefix (pre ++ ['.']))
    expandNV C iu (pre ++ ".all".toList) v =
      if ms ≠ [] then .ok (ms.map (Act.set · v)) else if iu then .ok [] else .err "ValueError" := by
  simp only [expandNV, hnd, if_false, allMatches_all]

/-- … and executing those assignments changes exactly those entries. -/
theorem all_sets_exactly_prefix (C : Cfg) (relaxed : Bool) (pre v : Str) (st r : Settings)
    (h : execActs C relaxed st ((C.T.defaults.filter (isPrefix (pre ++ ['.']))).map (Act.set · v)) = .ok r)
    (n : Str) :
    r.get n = if n ∈ C.T.defaults ∧ isPrefix (pre ++ ['.']) n = true
      then Res.toOption (parseValue C relaxed n v) else st.get n := by
  rw [execActs_get C relaxed n _ st r h, effect_map_set]
  simp [List.mem_filter]

/-- **Unknown names** (not a directive, no `.all` expansion): ValueError, or nothing with `ignore_unknown`. -/
theorem unknown_name (C : Cfg) (name v : Str) (hnd : name ∉ C.T.defaults) (hall : allMatches C.T name = []) :
    expandNV C false name v = .err "ValueError" ∧ expandNV C true name v = .ok [] := by
  simp [expandNV, hnd, hall]

example : allMatches T0 "boundschek".toList = [] := by decide
example : "boundschek".toList ∉ T0.defaults := by decide

/-! ## Part 2: scoping -/
set_option linter.unusedSectionVars false

variable {V : Type} [DecidableEq V]

/-- **Precedence of the module-level sources**: header comment, else options (command line / cythonize),
else default. -/
theorem precedence_chain (defaults options header : Env V) (n : Name) :
    baseEnv defaults options header n = (header n).or ((options n).or (defaults n)) := by
  unfold baseEnv Env.over
  cases header n <;> cases options n <;> simp

/-- **Innermost wins**, for all trees: the dictionary at every observation point (definition nodes, statements)
gives every regular directive its innermost enclosing setting (decorators: the topmost one naming it; an
immediate directive does not reach the body of the definition it decorates), else the value in `env`. -/
theorem effective_is_innermost (T : STable) (merge : V → V → V) (dflt : Name → V) (base : Env V) (p : Prog V) :
    Agree (ObsOK T base) (run T merge dflt base p) (points dflt [] p) :=
  run_agree T merge dflt base p base [] (fun _ _ => rfl)

/-- **The directive in force**: a successful run of the transform yields, at the module and at every point,
innermost setting, else header, else options, else default. -/
theorem directive_in_force (T : STable) (merge : V → V → V) (dflt : Name → V) (defaults options header : Env V)
    (hn : List Name) (p : Prog V) (obs : List (Nat × Env V))
    (h : compile T merge dflt defaults options header hn p = .ok obs) :
    Agree (fun o s => o.1 = s.1 ∧ ∀ n, T.regular n →
        o.2 n = eff T (fun m => (header m).or ((options m).or (defaults m))) s.2 n)
      obs ((0, []) :: points dflt [] p) := by
  unfold compile at h
  split at h
  · simp only [Res.ok.injEq] at h
    subst h
    have hb : baseEnv defaults options header = fun m => (header m).or ((options m).or (defaults m)) :=
      funext (precedence_chain defaults options header)
    rw [hb]
    exact ⟨⟨rfl, fun _ _ => rfl⟩, effective_is_innermost T merge dflt _ p⟩
  · simp at h

/-- A directive used in a scope where `directive_scopes` does not allow it is a compile error. -/
theorem illegal_scope_is_error (T : STable) (merge : V → V → V) (dflt : Name → V) (defaults options header : Env V)
    (hn : List Name) (p : Prog V) (h : legalProg T p = false) :
    compile T merge dflt defaults options header hn p = .err "CompileError" := by
  simp [compile, h]

/-- **No leak**: what follows a `with` block or a definition is processed with the dictionary from before it. -/
theorem block_does_not_leak (T : STable) (merge : V → V → V) (dflt : Name → V) (env : Env V)
    (n : Name) (a : Arg V) (k : ScopeK) (id : Nat) (ds : List (Name × Arg V)) (b r : Prog V) :
    (run T merge dflt env (.withB n a b r)).drop (run T merge dflt (withEnv T dflt env n a) b).length
        = run T merge dflt env r ∧
    (run T merge dflt env (.defB k id ds b r)).drop
        (1 + (run T merge dflt (defEnvs T merge dflt env ds).2 b).length) = run T merge dflt env r := by
  constructor
  · simp [run]
  · simp only [run]
    rw [Nat.add_comm, List.drop_succ_cons, List.drop_left]

/-! ### non-vacuity: a concrete table and program -/
/-- names: 1 = boundscheck (regular), 2 = final (immediate, function/cclass only), 3 = test_assert_path_exists -/
def ST0 : STable := ⟨fun n => if n = 2 then some [.cclass, .function] else none, fun n => n = 2 || n = 3,
  fun n => n = 3, fun n => n = 3⟩
/-- `@bc(7) @bc(8) def 10: mark 11; with bc(9): mark 12; mark 13;  mark 14` -/
def P0 : Prog Nat := .defB .function 10 [(1, some 7), (1, some 8), (2, some 1)]
  (.mark 11 (.withB 1 (some 9) (.mark 12 .done) (.mark 13 .done))) (.mark 14 .done)

example : ST0.regular 1 ∧ ST0.regular 2 := ⟨⟨rfl, rfl⟩, ⟨rfl, rfl⟩⟩
example : (run ST0 (· + ·) (fun _ => 0) (fun _ => some 5) P0).map (fun o => (o.1, o.2 1, o.2 2)) =
    [(10, some 7, some 1), (11, some 7, some 5), (12, some 9, some 5), (13, some 7, some 5), (14, some 5, some 5)] := by
  decide
example : legalProg ST0 P0 = true := by decide
example : legalProg ST0 (.withB 2 (some 1) .done .done : Prog Nat) = false := by decide

end CyVerif.C41

import CyVerif.Lemmas.C22Sim3
/-!
C22 — exception handling: the protocol Cython emits (`cyExec`, C22Cy.lean) refines CPython 3.12's semantics
(`pyExec`, C22.lean) for EVERY program of the mini-language (any nesting depth), every selector vector, every class
hierarchy and every initial heap / exc_info stack: same event log (blocks, `sys.exc_info()` probes), same propagating
exception, same `__context__`/`__cause__`/`__suppress_context__` of every object, same exc_info afterwards.
-/
namespace CyVerif.C22

/-- initial protocol state of a compiled function: no pending exception, no enclosing except clause -/
def cs0 (ts : TS) : CS := { ts := ts, curexc := none, slot := none }

/-- what the caller of the compiled function observes, in the vocabulary of the reference interpreter -/
def Agree (p : Out × TS) (c : COut × CS) : Prop :=
  c.1 = liftOut p.1 ∧ c.2.ts = p.2 ∧ c.2.curexc = excOf p.1

/-- FULL-STRENGTH statement for a source variant `V` -/
def FullRefinement (V : Variant) : Prop :=
  ∀ (env : Env) (s : Stmt) (ts : TS), Agree (pyExec env s ts) (cyExec V env s (cs0 ts))

/-- generic form: the two deviations of the pinned tree appear as the two hypotheses -/
theorem refinement_variant (V : Variant) (env : Env) (s : Stmt) (ts : TS)
    (hng : NG V.reraiseClears .top s = true) (hslot : V.saveTopmost = true → ts.top = ts.cur) :
    Agree (pyExec env s ts) (cyExec V env s (cs0 ts)) := by
  have hI : Inv V .top (cs0 ts) none := ⟨rfl, rfl, fun v hv => by simp [cs0] at hv, fun hs => by simp [cs0] at hs, hslot⟩
  obtain ⟨sl, hc, _, _, _⟩ := sim V env s .top (cs0 ts) hng hI
  rw [hc]; exact ⟨rfl, rfl, rfl⟩

/-- with both repairs applied the refinement holds for ALL programs, states and inputs -/
theorem refinement_fixed : FullRefinement ⟨false, false⟩ := fun env s ts =>
  refinement_variant ⟨false, false⟩ env s ts (NG_false s .top) (fun h => by cases h)

/-- the pinned tree: all programs without a bare `raise` inside a try/with body nested in an except/finally clause,
called with the current exc_info slot being the topmost non-empty one (always true outside generator frames) -/
theorem refinement_partial (env : Env) (s : Stmt) (ts : TS)
    (hng : NG true .top s = true) (hslot : ts.top = ts.cur) :
    Agree (pyExec env s ts) (cyExec ⟨true, true⟩ env s (cs0 ts)) :=
  refinement_variant ⟨true, true⟩ env s ts hng (fun _ => hslot)

/-- only the ExceptionSave repair applied: the syntactic restriction alone suffices -/
theorem refinement_partial_slotfixed (env : Env) (s : Stmt) (ts : TS) (hng : NG true .top s = true) :
    Agree (pyExec env s ts) (cyExec ⟨true, false⟩ env s (cs0 ts)) :=
  refinement_variant ⟨true, false⟩ env s ts hng (fun h => by cases h)

/-- only the re-raise repair applied: the slot condition alone suffices -/
theorem refinement_partial_reraisefixed (env : Env) (s : Stmt) (ts : TS) (hslot : ts.top = ts.cur) :
    Agree (pyExec env s ts) (cyExec ⟨false, true⟩ env s (cs0 ts)) :=
  refinement_variant ⟨false, true⟩ env s ts (NG_false s .top) (fun _ => hslot)

/-- reference semantics: every statement leaves exc_info as it found it (PUSH_EXC_INFO / POP_EXCEPT balanced) -/
theorem exc_info_restored (env : Env) (s : Stmt) (ts : TS) :
    (pyExec env s ts).2.cur = ts.cur ∧ (pyExec env s ts).2.prev = ts.prev := by
  have hI : Inv ⟨false, false⟩ .top (cs0 ts) none :=
    ⟨rfl, rfl, fun v hv => by simp [cs0] at hv, fun hs => by simp [cs0] at hs, fun h => by cases h⟩
  obtain ⟨_, _, _, h1, h2⟩ := sim ⟨false, false⟩ env s .top (cs0 ts) (NG_false s .top) hI
  exact ⟨h1, h2⟩

/-- `__Pyx_Raise` (cause by hand + PyErr_SetObject) and `do_raise` build the same exception state -/
theorem raise_same (cs : CS) (k : Nat) (c : Cause) : (pyxRaise cs k c).ts = doRaise cs.ts k c := by
  rw [pyxRaise_eq]; rfl

/-! ### witnesses of the two deviations (pinned variant `⟨true, true⟩`) -/

def envAll : Env := ⟨fun _ => true, fun _ _ => true⟩
def X0 : List ExcObj := [⟨0, none, none, false⟩]
def raise0 : Stmt := .raiseI none 0 .no
def caughtReraise : Stmt := .tryEx (.reraise none) (.cons none false (.log 1) .nil) .skip
/-- `try: raise X[0]` / `except: (try: raise / except: log 1); raise` -/
def wReraiseTwice : Stmt := .tryEx raise0 (.cons none false (.seq caughtReraise (.reraise none)) .nil) .skip
/-- `for _ in range(1): try: raise X[0]` / `except: (try: raise / except: log 1); break` -/
def wBreak : Stmt := .loop 1 (.tryEx raise0 (.cons none false (.seq caughtReraise (.brk none)) .nil) .skip)
/-- `try: raise X[0]` / `except: pass-like log` run from a generator frame (own slot empty, caller handles X[0]) -/
def wStale : Stmt := .tryEx raise0 (.cons none false (.log 1) .nil) .skip
def tsPlain : TS := ⟨[], X0, none, [], none⟩
def tsGen : TS := ⟨[], X0, none, [some 0], none⟩

theorem counterexample_reraise_twice :
    (pyExec envAll wReraiseTwice tsPlain).1 = .exc 0 ∧
    (cyExec ⟨true, true⟩ envAll wReraiseTwice (cs0 tsPlain)).1 = .err ∧
    (cyExec ⟨true, true⟩ envAll wReraiseTwice (cs0 tsPlain)).2.curexc = none := by decide

theorem counterexample_break_crash :
    (pyExec envAll wBreak tsPlain).1 = .norm ∧ (cyExec ⟨true, true⟩ envAll wBreak (cs0 tsPlain)).1 = .crash := by
  decide

theorem counterexample_stale_slot :
    (pyExec envAll wStale tsGen).2.cur = none ∧
    (cyExec ⟨true, true⟩ envAll wStale (cs0 tsGen)).2.ts.cur = some 0 := by decide

/-- the full-strength statement is FALSE for the pinned variant -/
theorem full_refinement_false_pinned : ¬ FullRefinement ⟨true, true⟩ := by
  intro h
  have := (h envAll wReraiseTwice tsPlain).2.2
  rw [counterexample_reraise_twice.2.2, counterexample_reraise_twice.1] at this
  cases this

/-! ### non-vacuity -/
example : NG true .top wStale = true := by decide
example : NG true .top (.tryEx raise0 (.cons (some 0) true (.seq .probe (.reraise none)) .nil) (.log 2)) = true := by decide
example : NG true .top wReraiseTwice = false := by decide
example : tsPlain.top = tsPlain.cur := by decide
example : tsGen.top ≠ tsGen.cur := by decide
example : (pyExec envAll wStale tsPlain).2.log = [.log 1] := by decide

end CyVerif.C22

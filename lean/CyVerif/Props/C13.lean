import CyVerif.Lemmas.C13TailMain
import CyVerif.Lemmas.C13List
/-!
# C13 — property theorems

`fixed = false` is the code as it is in the working tree, `fixed = true` the repaired variant
(handed over as a patch); the harness detects which one the current source is.
-/
namespace CyVerif.C13
open CyVerif.C15 (Out adjBound pyNorm)

/-! ## (1) startswith / endswith -/

/-- FULL (repaired comparison): `__Pyx_PyBytes_Tailmatch` = Python `bytes.startswith/endswith` for ALL byte
strings, ALL integer start/end, both directions, single prefix or tuple (items in order, wrong type →
TypeError), no undefined behaviour, every `memcmp` byte in bounds. -/
theorem bytesTail_fixed_eq (M : Int) (self : List Nat) (a : TArg) (start end_ dir : Int) :
    bytesTail true M self a start end_ dir = pyTail self a start end_ dir := by
  have hf : bytesArg true M self start end_ dir =
      (fun x => match x with | .buf b => Out.ok (pyTail1 self b start end_ dir) | .bad => .err "TypeError") := by
    funext x; cases x <;> simp [bytesArg, bytesSingle_fixed_eq]
  cases a with
  | one x => cases x <;> simp [bytesTail, pyTail, bytesArg, bytesSingle_fixed_eq]
  | tup xs =>
    simp only [bytesTail, pyTail, hf]
    exact tupleLoop_find (fun b => pyTail1 self b start end_ dir) xs

/-- the full-strength statement for the code as it is (`start + sub_len <= end` in `Py_ssize_t`) -/
def FullBytesTailUnfixed : Prop :=
  ∀ (self sub : List Nat) (start end_ dir : Int), (self.length : Int) + sub.length ≤ 2 ^ 63 - 1 →
    -(2 ^ 63) ≤ start → start ≤ 2 ^ 63 - 1 → -(2 ^ 63) ≤ end_ → end_ ≤ 2 ^ 63 - 1 →
    bytesSingle false (2 ^ 63 - 1) self sub start end_ dir = .ok (pyTail1 self sub start end_ dir)

/-- PARTIAL (code as it is): equality holds when `start + |sub|` does not exceed `PY_SSIZE_T_MAX`. -/
theorem bytesSingle_unfixed_partial (M : Int) (self sub : List Nat) (start end_ dir : Int)
    (hlen : (self.length : Int) + sub.length ≤ M) (hst : start + sub.length ≤ M) :
    bytesSingle false M self sub start end_ dir = .ok (pyTail1 self sub start end_ dir) := by
  rw [bytesSingle_unfixed_eq M self sub start end_ dir hlen hst, bytesSingle_fixed_eq]

example : bytesSingle false (2 ^ 63 - 1) [97, 98, 99] [98, 99] (-2) 3 1 = .ok true := by decide

/-- COUNTEREXAMPLE: `b'abc'.startswith(b'x', sys.maxsize)` — signed overflow (observed: SIGSEGV);
Python gives `False`. -/
theorem bytesTail_unfixed_counterexample : ¬ FullBytesTailUnfixed := by
  intro h
  have := h [97, 98, 99] [120] (2 ^ 63 - 1) (2 ^ 63 - 1) (-1) (by decide) (by decide) (by decide) (by decide) (by decide)
  revert this; decide

/-- FULL: the `str` path (`__Pyx_PyUnicode_Tailmatch` over CPython's `tailmatch`) = the same reference. -/
theorem uniTail_eq (self : List Nat) (a : TArg) (start end_ dir : Int) :
    uniTail self a start end_ dir = pyTail self a start end_ dir := by
  have hf : uniArg self start end_ dir =
      (fun x => match x with | .buf b => Out.ok (pyTail1 self b start end_ dir) | .bad => .err "TypeError") := by
    funext x; cases x <;> simp [uniArg, uniSingle_eq]
  cases a with
  | one x => cases x <;> simp [uniTail, pyTail, uniArg, uniSingle_eq]
  | tup xs =>
    simp only [uniTail, pyTail, hf]
    exact tupleLoop_find (fun b => pyTail1 self b start end_ dir) xs

example : uniTail [104, 105] (.tup [.buf [120], .buf [104], .bad]) 0 2 (-1) = .ok true := by decide
example : uniTail [104, 105] (.tup [.buf [120], .bad, .buf [104]]) 0 2 (-1) = .err "TypeError" := by decide
example : pyTail1 [1, 2, 3] [] 4 3 (-1) = false ∧ pyTail1 [1, 2, 3] [] 2 1 1 = false ∧ pyTail1 [1, 2, 3] [] 3 3 1 = true := by decide

/-! ## (2) decode / substring start-stop normalisation -/

/-- FULL: `__Pyx_decode_c_bytes` (behind `decode_bytes`, `decode_bytearray`, `decode_cpp_string`) selects exactly
the window of `b[start:stop]`, for all lengths and all integer bounds. -/
theorem decodeCBytes_eq (len : Nat) (start stop : Int) :
    decodeCBytes len start stop = pyWindow len start stop := by
  unfold decodeCBytes pyWindow adjBound
  simp only []
  (repeat' split) <;> first | omega | (congr 1 <;> first | omega | (congr 1 <;> omega)) | (exfalso; omega)

/-- FULL: the bytes decoded lie inside the buffer. -/
theorem decodeCBytes_inBounds (len : Nat) (start stop off n : Int)
    (h : decodeCBytes len start stop = some (off, n)) : 0 ≤ off ∧ 0 < n ∧ off + n ≤ len := by
  unfold decodeCBytes at h
  simp only [] at h
  (repeat' split at h) <;>
    first
    | (injection h with h; injection h with h1 h2; omega)
    | (cases h)

/-- FULL: `__Pyx_PyUnicode_Substring` = window of `s[start:stop]`. -/
theorem substring_eq (len : Nat) (start stop : Int) :
    substring len start stop = pyWindow len start stop := by
  unfold substring pyWindow adjBound
  simp only []
  (repeat' split) <;> first | omega | (congr 1 <;> first | omega | (congr 1 <;> omega)) | (exfalso; omega)

/-- full-strength statement for `char*` slices (FALSE: `stop` is not clamped to `strlen`) -/
def FullDecodeCString : Prop :=
  ∀ (slen : Nat) (start stop : Int), (slen : Int) ≤ 2 ^ 63 - 1 →
    decodeCString (2 ^ 63 - 1) slen start stop = .ok (pyWindow slen start stop)

/-- PARTIAL: `__Pyx_decode_c_string` = window of the Python slice under the C contract `start, stop ≤ strlen`. -/
theorem decodeCString_partial (M : Int) (slen : Nat) (start stop : Int) (hM : (slen : Int) ≤ M)
    (hstop : stop ≤ slen) (hstart : start ≤ slen) :
    decodeCString M slen start stop = .ok (pyWindow slen start stop) := by
  unfold decodeCString pyWindow adjBound
  simp only []
  (repeat' split) <;> first | omega | (congr 2 <;> first | omega | (congr 1 <;> omega)) | (exfalso; omega)

example : decodeCString (2 ^ 63 - 1) 5 (-3) 4 = .ok (some (2, 2)) := by decide

theorem decodeCString_counterexample : ¬ FullDecodeCString := by
  intro h
  have := h 3 0 10 (by decide)
  revert this; decide

/-! ## (3) list `pop()` / `pop(i)` / `append` fast paths -/

/-- FULL: for ALL histories of `append`, `pop()`, `pop(i)` (any integer `i`) from ANY list state with
`ob_size ≤ allocated`, the Cython helpers (fast paths on `size > allocated/2`, else CPython's own code on the same
object) never read or write outside the allocated/initialised slots and produce exactly the observations
(popped values, IndexError) and final contents of the Python list; the invariant is kept. -/
theorem listOps_refine {α} (s : LS α) (h : s.inv) (ops : List (Op α)) :
    ∃ s', pyxRun s ops = some ((specRun s.items ops).1, s') ∧ s'.items = (specRun s.items ops).2 ∧ s'.inv :=
  pyxRun_ok ops s h

/-- FULL: one `l.pop(i)`: value `l[i]` and remaining items `l[:i] + l[i+1:]` (negative index wrapped once),
`IndexError` outside, for every capacity. -/
theorem popIndex_eq {α} (s : LS α) (h : s.inv) (i : Int) :
    ∃ s', pyxPopIndex s i = .done (specStep s.items (.popi i)).1 s' ∧
      s'.items = (specStep s.items (.popi i)).2 ∧ s'.inv := pyxPopIndex_ok s h i

theorem pop_eq {α} (s : LS α) (h : s.inv) :
    ∃ s', pyxPop s = .done (specStep s.items .pop).1 s' ∧ s'.items = (specStep s.items .pop).2 ∧ s'.inv :=
  pyxPop_ok s h

example : (pyxRun (⟨[1, 2, 3], 4⟩ : LS Nat) [.pop, .popi 0, .popi 5, .append 9, .popi (-2), .pop, .pop]).map (·.1)
    = some [.val 3, .val 1, .exc "IndexError", .unit, .val 2, .val 9, .exc "IndexError"] := by decide
example : (⟨[1, 2, 3], 4⟩ : LS Nat).inv := by simp [LS.inv]

/-! ## (4) abs of C integers -/

/-- the full-strength statement without `overflowcheck` (FALSE at the most negative value) -/
def FullAbs : Prop :=
  ∀ (w : Nat) (x : Int), 1 ≤ w → -(2 ^ (w - 1)) ≤ x → x < 2 ^ (w - 1) → cAbs false w x = pyAbsFits w x

/-- PARTIAL: `abs/labs/llabs` on a signed C integer of ANY width = Python `abs` except at the type's minimum. -/
theorem cAbs_partial (oc : Bool) (w : Nat) (x : Int) (hlo : -(2 ^ (w - 1)) < x) (hhi : x < 2 ^ (w - 1)) :
    cAbs oc w x = .ok x.natAbs ∧ pyAbsFits w x = .ok x.natAbs := by
  unfold cAbs pyAbsFits
  generalize (2 : Int) ^ (w - 1) = P at *
  constructor
  · rw [if_neg (by omega)]; congr 1; split <;> omega
  · rw [if_pos (by omega)]

/-- FULL (directive `overflowcheck=True`): the value Python gives, or OverflowError exactly when it does not fit. -/
theorem cAbs_overflowcheck_full (w : Nat) (x : Int) (hlo : -(2 ^ (w - 1)) ≤ x) (hhi : x < 2 ^ (w - 1)) :
    cAbs true w x = pyAbsFits w x := by
  unfold cAbs pyAbsFits
  have hP : 0 < (2 : Int) ^ (w - 1) := Int.pow_pos (by decide)
  generalize (2 : Int) ^ (w - 1) = P at *
  by_cases h : x = -P
  · rw [if_pos h, if_neg (show ¬ ((x.natAbs : Int) < P) by omega)]; simp
  · rw [if_neg h, if_pos (show (x.natAbs : Int) < P by omega)]; congr 1; split <;> omega

example : cAbs false 32 (-5) = .ok 5 := by decide

/-- COUNTEREXAMPLE: `abs(<int>INT_MIN)` is undefined in C (observed result: INT_MIN, negative); Python: 2**31. -/
theorem cAbs_counterexample : ¬ FullAbs := by
  intro h
  have := h 32 (-(2 ^ 31)) (by decide) (by decide) (by decide)
  revert this; decide

/-! ## (6) min / max unrolling -/

theorem cpyGo_eq {α} (cmp : α → α → Out Bool) (xs : List α) : ∀ (m : α) (tr : List (α × α)),
    cpyMinMax.go cmp (some m) tr xs = (tr.reverse ++ (mmFold cmp m xs).1, (mmFold cmp m xs).2) := by
  induction xs with
  | nil => intro m tr; simp [cpyMinMax.go, mmFold]
  | cons x xs ih =>
    intro m tr
    simp only [cpyMinMax.go, mmFold]
    cases hc : cmp x m with
    | ok b => cases b <;> simp [ih]
    | err e => simp
    | ub k => simp

/-- FULL: the unrolled conditional expressions perform the same comparisons, in the same order and with the same
operand order, and return the same argument (or raise the same exception) as CPython's `min_max`, for EVERY
comparison relation — partial orders, NaN-like incomparables and raising `__lt__` included — and every arity. -/
theorem pyxMinMax_eq_cpy {α} (cmp : α → α → Out Bool) (args : List α) :
    pyxMinMax cmp args = cpyMinMax cmp args := by
  cases args with
  | nil => simp [pyxMinMax, cpyMinMax, cpyMinMax.go]
  | cons a rest => simp [pyxMinMax, cpyMinMax, cpyMinMax.go, cpyGo_eq]

/-- FULL: two arguments: `min(a, b)` is `b` exactly when `b < a` is true, else `a` (so `a` wins ties and incomparables). -/
theorem pyxMinMax_two {α} (lt : α → α → Bool) (a b : α) :
    (pyxMinMax (fun x y => .ok (lt x y)) [a, b]).2 = .ok (if lt b a then b else a) := by
  cases h : lt b a <;> simp [pyxMinMax, mmFold, h]

theorem mmFold_min {α} (lt : α → α → Bool) (hasym : ∀ x y, lt x y = true → lt y x = false)
    (hneg : ∀ x y z, lt x y = false → lt y z = false → lt x z = false) (xs : List α) :
    ∀ (acc : α) (seen : List α), (∀ y ∈ seen, lt y acc = false) → lt acc acc = false →
      ∃ r, (mmFold (fun x y => .ok (lt x y)) acc xs).2 = .ok r ∧ (r = acc ∨ r ∈ xs) ∧
        (∀ y ∈ seen, lt y r = false) ∧ (∀ y ∈ xs, lt y r = false) ∧ lt acc r = false := by
  induction xs with
  | nil => intro acc seen h hr; exact ⟨acc, rfl, Or.inl rfl, h, by simp, hr⟩
  | cons x xs ih =>
    intro acc seen h hr
    cases hc : lt x acc with
    | true =>
      have hax : lt acc x = false := hasym x acc hc
      have hxx : lt x x = false := by
        cases hxx : lt x x with
        | false => rfl
        | true => have := hasym x x hxx; rw [hxx] at this; cases this
      obtain ⟨r, h1, h2, h3, h4, h5⟩ := ih x (acc :: seen)
        (by intro y hy
            cases hy with
            | head => exact hax
            | tail _ hy => exact hneg y acc x (h y hy) hax) hxx
      refine ⟨r, by simp [mmFold, hc, h1], ?_, ?_, ?_, h3 acc (List.mem_cons_self ..)⟩
      · cases h2 with
        | inl e => exact Or.inr (by simp [e])
        | inr m => exact Or.inr (by simp [m])
      · intro y hy; exact h3 y (List.mem_cons_of_mem _ hy)
      · intro y hy
        cases hy with
        | head => exact h5
        | tail _ hy => exact h4 y hy
    | false =>
      obtain ⟨r, h1, h2, h3, h4, h5⟩ := ih acc (x :: seen)
        (by intro y hy
            cases hy with
            | head => exact hc
            | tail _ hy => exact h y hy) hr
      refine ⟨r, by simp [mmFold, hc, h1], ?_, ?_, ?_, h5⟩
      · cases h2 with
        | inl e => exact Or.inl e
        | inr m => exact Or.inr (by simp [m])
      · intro y hy; exact h3 y (List.mem_cons_of_mem _ hy)
      · intro y hy
        cases hy with
        | head => exact h3 x (List.mem_cons_self ..)
        | tail _ hy => exact h4 y hy

/-- FULL (corollary, strict weak orders): the result is one of the arguments and no argument is smaller. -/
theorem pyxMin_is_minimum {α} (lt : α → α → Bool) (hasym : ∀ x y, lt x y = true → lt y x = false)
    (hneg : ∀ x y z, lt x y = false → lt y z = false → lt x z = false) (a : α) (rest : List α) :
    ∃ r, (pyxMinMax (fun x y => .ok (lt x y)) (a :: rest)).2 = .ok r ∧ r ∈ a :: rest ∧
      ∀ y ∈ a :: rest, lt y r = false := by
  have haa : lt a a = false := by
    cases h : lt a a with
    | false => rfl
    | true => have := hasym a a h; rw [h] at this; cases this
  obtain ⟨r, h1, h2, h3, h4, _⟩ := mmFold_min lt hasym hneg rest a [a] (by simp [haa]) haa
  refine ⟨r, h1, ?_, ?_⟩
  · cases h2 with
    | inl e => simp [e]
    | inr m => simp [m]
  · intro y hy
    cases hy with
    | head => exact h3 a (by simp)
    | tail _ hy => exact h4 y hy

example : (pyxMinMax (fun (x y : Nat) => .ok (decide (x < y))) [3, 1, 2, 1]) =
    ([(1, 3), (2, 1), (1, 1)], .ok 1) := by decide

/-- the whole call `min(e0, …, e(n-1))` on argument EXPRESSIONS that may raise -/
def callMM {α} (fixed : Bool) (cmp : α → α → Out Bool) (thunks : List (Out α)) : List Nat × Out α :=
  match evalIn thunks (mmOrder fixed thunks.length) with
  | (lg, .ok vs) => (lg, (pyxMinMax cmp ((List.range thunks.length).filterMap (fun i => vs.lookup i))).2)
  | (lg, .err e) => (lg, .err e)
  | (lg, .ub k) => (lg, .ub k)

/-- Python: arguments left to right, then `min_max` -/
def pyCallMM {α} (cmp : α → α → Out Bool) (thunks : List (Out α)) : List Nat × Out α :=
  match evalIn thunks (List.range thunks.length) with
  | (lg, .ok vs) => (lg, (cpyMinMax cmp ((List.range thunks.length).filterMap (fun i => vs.lookup i))).2)
  | (lg, .err e) => (lg, .err e)
  | (lg, .ub k) => (lg, .ub k)

/-- full-strength statement for the code as it is (FALSE: evaluation order of the argument expressions) -/
def FullCallMM : Prop :=
  ∀ (cmp : Nat → Nat → Out Bool) (thunks : List (Out Nat)), 2 ≤ thunks.length →
    (callMM false cmp thunks).2 = (pyCallMM cmp thunks).2

/-- FULL (repaired order): same evaluation log, same result/exception as Python, every arity, every relation. -/
theorem callMM_fixed_eq {α} (cmp : α → α → Out Bool) (thunks : List (Out α)) :
    callMM true cmp thunks = pyCallMM cmp thunks := by
  unfold callMM pyCallMM mmOrder
  simp only [if_true, pyxMinMax_eq_cpy]

/-- PARTIAL (code as it is): 2 and 3 argument expressions that do not raise: same result/exception as Python
(the ORDER of evaluation differs: `e1, e2, e0`). -/
theorem callMM_unfixed_partial {α} (cmp : α → α → Out Bool) (a b c : α) :
    (callMM false cmp [.ok a, .ok b]).2 = (pyCallMM cmp [.ok a, .ok b]).2 ∧
    (callMM false cmp [.ok a, .ok b, .ok c]).2 = (pyCallMM cmp [.ok a, .ok b, .ok c]).2 ∧
    (callMM false cmp [.ok a, .ok b, .ok c]).1 = [1, 2, 0] := by
  refine ⟨?_, ?_, ?_⟩ <;>
    simp [callMM, pyCallMM, mmOrder, evalIn, List.range, List.range.loop, List.lookup, pyxMinMax_eq_cpy]

/-- COUNTEREXAMPLE: `min(f(), g())` where both raise: Cython raises g's exception, Python f's. -/
theorem callMM_counterexample : ¬ FullCallMM := by
  intro h
  have := h (fun x y => .ok (decide (x < y))) [.err "A", .err "B"] (by decide)
  revert this; decide

/-! ## (7) ord / chr, (5) dict helpers -/

/-- FULL (repaired): `ord()` helper = CPython `ord` on str / bytes / bytearray / anything else. -/
theorem pyxOrd_fixed_eq (a : OrdArg) : pyxOrd true a = pyOrd a := by
  cases a with
  | other => rfl
  | str l => match l with
    | [] => rfl
    | [_] => rfl
    | _ :: _ :: _ => simp [pyxOrd, pyOrd]
  | bytes l => match l with
    | [] => rfl
    | [_] => rfl
    | _ :: _ :: _ => simp [pyxOrd, pyOrd]
  | bytearray l => match l with
    | [] => rfl
    | [_] => rfl
    | _ :: _ :: _ => simp [pyxOrd, pyOrd]

def FullOrd : Prop := ∀ a, pyxOrd false a = pyOrd a

/-- PARTIAL (code as it is): equal except for a `str` whose length is not 1. -/
theorem pyxOrd_partial (a : OrdArg) (h : ∀ cps, a = .str cps → cps.length = 1) : pyxOrd false a = pyOrd a := by
  cases a with
  | str l => match l, h l rfl with
    | [_], _ => rfl
  | other => rfl
  | bytes l => match l with
    | [] => rfl
    | [_] => rfl
    | _ :: _ :: _ => simp [pyxOrd, pyOrd]
  | bytearray l => match l with
    | [] => rfl
    | [_] => rfl
    | _ :: _ :: _ => simp [pyxOrd, pyOrd]

example : pyxOrd false (.str [8364]) = .ok 8364 := by decide

/-- COUNTEREXAMPLE: `ord('ab')` raises ValueError where CPython raises TypeError. -/
theorem pyxOrd_counterexample : ¬ FullOrd := by
  intro h; have := h (.str [97, 98]); revert this; decide

def FullChr : Prop := ∀ x : Int, -(2 ^ 63) ≤ x → x < 2 ^ 63 → pyxChrC x = pyChr x

/-- PARTIAL: `chr()` of a C integer that fits a C `int` = CPython `chr` (value or ValueError). -/
theorem pyxChrC_partial (x : Int) (hlo : -(2 ^ 31) ≤ x) (hhi : x < 2 ^ 31) : pyxChrC x = pyChr x := by
  have ht : toInt32 x = x := by unfold toInt32; omega
  simp only [pyxChrC, pyChr, ht]
  rw [if_neg (show ¬ (x < -(2 ^ 31) ∨ x > 2 ^ 31 - 1) by omega)]

example : pyxChrC 8364 = .ok 8364 ∧ pyxChrC (-1) = .err "ValueError" := by decide

/-- COUNTEREXAMPLE: `chr(<long>2**40)` is silently truncated to `chr(0)`; CPython raises OverflowError. -/
theorem pyxChrC_counterexample : ¬ FullChr := by
  intro h; have := h (2 ^ 40) (by decide) (by decide); revert this; decide

/-- FULL: `__Pyx_PyDict_GetItemDefault` = `dict.get(key, default)` on every probe outcome (found / missing /
`__hash__` or `__eq__` raised). -/
theorem dictGetDefault_eq {α} (l : Look α) (d : α) : dictGetDefault l d = pyDictGet l d := by
  cases l <;> rfl

/-- FULL: both `#if` branches of `__Pyx_PyDict_Pop` = `dict.pop(key[, default])`: value and removal, default,
KeyError, propagated error. -/
theorem dictPop_eq {α} (l : Look α) (d : Option α) : dictPopNew l d = pyDictPop l d := by
  cases l <;> cases d <;> rfl

end CyVerif.C13

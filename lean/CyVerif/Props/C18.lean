import CyVerif.Lemmas.C18Main
import CyVerif.Lemmas.C18Ord
import CyVerif.Lemmas.C18ParseMain
import CyVerif.Lemmas.C18Join
import CyVerif.Lemmas.C18DirectiveFmt
import CyVerif.Lemmas.C18Dedup
/-!
# C18 — string formatting produces exactly CPython's text

Property theorems.  Models: `Model/C18Int.lean` (code), `Model/C18Spec.lean` (CPython semantics).
-/
namespace CyVerif.C18

/-- **`CIntToPyUnicode` = `format(v, "[0][width]{d,o,x,X}")`** for every C integer type
(`n = sizeof(TYPE) ≥ 1`, either signedness), every in-range value (MIN, MAX, 0 included), every
`width` (any `Py_ssize_t`, negative included), both padding characters and all four format
characters.  The model's memory is bounds-checked (`digits[3n+2]`, the digit tables, the unicode
buffer), asserts are checked and the loop is fuelled; a `.text` result therefore also says:
no access outside the buffers, no failed `assert`, every result cell written, termination. -/
theorem cint_format (n : Nat) (hn : 1 ≤ n) (signed : Bool) (v : Int) (hv : InRange n signed v)
    (width : Int) (pad : Char) (hpad : pad = ' ' ∨ pad = '0') (fmt : Fmt) :
    cintToPyUnicode n signed v width pad fmt =
      .text (pyFormatInt fmt (pad == '0') width.toNat v) := by
  have hm := natAbs_lt_of_inRange n hn signed v hv
  obtain ⟨hloop, hlen⟩ := digitLoop_spec n hn fmt v hm
  have hpos := pyDigits_length_pos fmt v.natAbs
  unfold cintToPyUnicode
  simp only [hloop]
  rw [pyFormatInt_eq]
  -- remove the excess digit, if any
  have hfin : cintFinish (n * 3 + 2) signed v width pad
      ⟨n * 3 + 2 - (rawDigits fmt v.natAbs).1.length, (rawDigits fmt v.natAbs).1⟩ (rawDigits fmt v.natAbs).2 =
      cintFinish (n * 3 + 2) signed v width pad
        ⟨n * 3 + 2 - (pyDigits fmt v.natAbs).length, pyDigits fmt v.natAbs⟩ false := by
    cases hl : (rawDigits fmt v.natAbs).2 with
    | true =>
      have e := rawDigits_true fmt v.natAbs hl
      rw [e] at hlen ⊢
      simp only [List.length_cons] at hlen ⊢
      exact cintFinish_loo _ _ _ _ _ _ (by omega)
    | false =>
      have e := rawDigits_false fmt v.natAbs hl
      rw [e]
  have hlen' : (pyDigits fmt v.natAbs).length + 1 ≤ n * 3 + 2 := by
    cases hl : (rawDigits fmt v.natAbs).2 with
    | true => rw [rawDigits_true fmt v.natAbs hl] at hlen; simp only [List.length_cons] at hlen; omega
    | false => rw [rawDigits_false fmt v.natAbs hl] at hlen; omega
  rw [hfin]
  by_cases hneg : v < 0
  · have hs : signed = true := by
      cases signed with
      | true => rfl
      | false => simp only [InRange, Bool.false_eq_true, if_false] at hv; omega
    subst hs
    simp only [hneg, decide_true]
    exact cintFinish_neg _ _ _ _ _ hpos hlen' hneg hpad
  · simp only [hneg, decide_false]
    exact cintFinish_nonneg _ _ _ _ _ _ hpos hlen' (by omega) hpad

/-- non-vacuity: `INT8_MIN` in octal, zero-padded to width 7 -/
example : InRange 1 true (-128) ∧ cintToPyUnicode 1 true (-128) 7 '0' .o = .text "-000200".toList :=
  ⟨by decide, by rw [cint_format 1 (by omega) true (-128) (by decide) 7 '0' (Or.inr rfl) .o]; decide⟩

/-! ## `c` presentation type: `COrdinalToPyUnicode` -/


/-- **`c` formatting, repaired range check**: `__Pyx_uchar___Pyx_PyUnicode_From_<type>` =
`format(v, "[0][width]c")` (text or `OverflowError`) for every C integer type, in-range value,
width and both padding characters; all `chars[256]` accesses in bounds. -/
theorem ordinal_format_fixed (n : Nat) (signed : Bool) (v : Int) (hv : InRange n signed v)
    (width : Int) (pad : Char) (hpad : pad = ' ' ∨ pad = '0') :
    ucharToPyUnicode .fixed n signed v width pad = pyFormatChr pad width.toNat v := by
  unfold ucharToPyUnicode
  by_cases hneg : v < 0
  · have hs : signed = true := by
      cases signed with
      | true => rfl
      | false => simp only [InRange, Bool.false_eq_true, if_false] at hv; omega
    have : v < 0 ∨ v > 0x10ffff := Or.inl hneg
    simp [hs, hneg, pyFormatChr]
  · have h0 : 0 ≤ v := by omega
    have hn1 : ¬ (signed = true ∧ v < 0) := fun h => hneg h.2
    simp only [hn1, if_false]
    by_cases hin : v ≤ 0x10FFFF
    · have hc := toCInt_small v h0 (by omega)
      have hhi : v / 2097152 = 0 := by omega
      have hok : (decide (n ≤ 2) || (decide (v / 2097152 = 0) && decide (toCInt v ≤ 1114111))) = true := by
        simp [hhi, hc]; omega
      simp only [hok, Bool.not_true, Bool.false_eq_true, if_false]
      exact uchar_tail v h0 hin width pad hpad
    · have hn2 : ¬ n ≤ 2 := fun h => by
        have := small_type_bound n h signed v hv; omega
      have hbad : (decide (n ≤ 2) || (decide (v / 2097152 = 0) && decide (toCInt v ≤ 1114111))) = false := by
        by_cases hhi : v / 2097152 = 0
        · have hlt : v < 2097152 := by omega
          have hc := toCInt_small v h0 (by omega)
          simp [hn2, hc]; omega
        · simp [hn2, hhi]
      have : v < 0 ∨ v > 0x10ffff := Or.inr (by omega)
      simp [hbad, pyFormatChr, this]

/-- full-strength statement for the range check as it is in the pinned source -/
def FullOrdinalOrig : Prop :=
  ∀ (n : Nat) (signed : Bool) (v : Int), InRange n signed v → ∀ (width : Int) (pad : Char),
    (pad = ' ' ∨ pad = '0') → ucharToPyUnicode .orig n signed v width pad = pyFormatChr pad width.toNat v

/-- **`c` formatting, pinned range check**: equal to `format(v, "[0][width]c")` for all values
below 2^21 (every value of the types up to 16 bits, every negative value, every valid code point). -/
theorem ordinal_format_orig_partial (n : Nat) (signed : Bool) (v : Int) (hv : InRange n signed v)
    (hsmall : v < 2097152)
    (width : Int) (pad : Char) (hpad : pad = ' ' ∨ pad = '0') :
    ucharToPyUnicode .orig n signed v width pad = pyFormatChr pad width.toNat v := by
  unfold ucharToPyUnicode
  by_cases hneg : v < 0
  · have hs : signed = true := by
      cases signed with
      | true => rfl
      | false => simp only [InRange, Bool.false_eq_true, if_false] at hv; omega
    simp [hs, hneg, pyFormatChr]
  · have h0 : 0 ≤ v := by omega
    have hn1 : ¬ (signed = true ∧ v < 0) := fun h => hneg h.2
    have hhi : v / 2097152 = 0 := by omega
    have hc := toCInt_small v h0 (by omega)
    simp only [hn1, if_false]
    by_cases hin : v ≤ 0x10FFFF
    · have hok : (decide (n ≤ 2) || !decide (v / 2097152 = 0) || decide (toCInt v ≤ 1114111)) = true := by
        simp [hhi, hc]; omega
      simp only [hok, Bool.not_true, Bool.false_eq_true, if_false]
      exact uchar_tail v h0 hin width pad hpad
    · have hn2 : ¬ n ≤ 2 := fun h => by
        have := small_type_bound n h signed v hv; omega
      have hbad : (decide (n ≤ 2) || !decide (v / 2097152 = 0) || decide (toCInt v ≤ 1114111)) = false := by
        simp [hn2, hhi, hc]; omega
      have : v < 0 ∨ v > 0x10ffff := Or.inr (by omega)
      simp [hbad, pyFormatChr, this]

/-- the pinned range check lets `long v = 2**32 + 65` through: `f"{v:c}"` is `'A'`, CPython raises
`OverflowError` -/
theorem ordinal_format_orig_counterexample : ¬ FullOrdinalOrig := by
  intro h
  have := h 8 true 4294967361 (by decide) 0 ' ' (Or.inl rfl)
  revert this
  decide

example : InRange 4 true 8364 ∧ (8364 : Int) < 2097152 ∧
    ucharToPyUnicode .orig 4 true 8364 5 ' ' = .text [32, 32, 32, 32, 8364] :=
  ⟨by decide, by decide, by
    rw [ordinal_format_orig_partial 4 true 8364 (by decide) (by decide) 5 ' ' (Or.inl rfl)]; decide⟩

/-! ## which format specs reach the C fast path (`_parse_format`) and what they mean -/


theorem cFastPath_some (var : ParseVariant) (spec : List Char) (ft : FmtC) (w : Nat) (pad : Char)
    (h : cFastPath var spec = some (ft, w, pad)) :
    parseFormat var spec = some (ft, w, pad) ∧ w ≤ 1073741824 := by
  unfold cFastPath at h
  split at h
  · rename_i ft' w' pad' hp
    split at h
    · simp only [Option.some.injEq, Prod.mk.injEq] at h
      obtain ⟨rfl, rfl, rfl⟩ := h
      exact ⟨hp, by assumption⟩
    · exact absurd h (by simp)
  · exact absurd h (by simp)

/-- the C call for a numeric format char equals CPython's text for the mapped triple -/
theorem cFormat_num (ov : OrdVariant) (n : Nat) (hn : 1 ≤ n) (signed : Bool) (v : Int) (hv : InRange n signed v)
    (f : Fmt) (w : Nat) (pad : Char) (hpad : pad = ' ' ∨ pad = '0') :
    cFormat ov n signed v (.num f) (w : Int) pad = specTextOf (.num f) w pad v := by
  simp only [cFormat, specTextOf]
  rw [cint_format n hn signed v hv w pad hpad f]
  simp [Out.toU, cps]

/-- **f-string field with a C integer value** (general form, any combination of repairs):
whenever the compiler takes the C fast path for a literal format spec (`can_coerce_to_pystring`),
the generated call produces exactly `format(v, spec)` — text or exception — for every C integer
type and in-range value, outside the defects the source still has (`BadSpecFor`, and `c` with a
value ≥ 2^21 for the unrepaired range check). -/
theorem fstring_cint (pv : ParseVariant) (ov : OrdVariant) (spec : List Char) (ft : FmtC) (w : Nat) (pad : Char)
    (h : cFastPath pv spec = some (ft, w, pad)) (hgood : ¬ BadSpecFor pv spec)
    (n : Nat) (hn : 1 ≤ n) (signed : Bool) (v : Int) (hv : InRange n signed v)
    (hchr : ov = .orig → ft = .chr → v < 2097152) :
    pyFormat (.int v) spec = some (cFormat ov n signed v ft (w : Int) pad) := by
  obtain ⟨hp, hw⟩ := cFastPath_some _ _ _ _ _ h
  have hpad := parseFormat_pad _ _ _ _ _ hp
  rw [parseFormat_meaning pv spec ft w pad hp (by unfold SSIZE_MAX; omega) hgood v]
  cases ft with
  | num f => rw [cFormat_num ov n hn signed v hv f w pad hpad]
  | chr =>
    simp only [cFormat, specTextOf]
    cases ov with
    | fixed => rw [ordinal_format_fixed n signed v hv w pad hpad]; simp
    | orig => rw [ordinal_format_orig_partial n signed v hv (hchr rfl rfl) w pad hpad]; simp

theorem not_badSpecFor_fixed (spec : List Char) : ¬ BadSpecFor .fixed spec := by
  rintro (⟨h, _⟩ | ⟨h, _⟩) <;> simp [ParseVariant.fixed] at h

/-- **f-string field with a C integer value, repaired sources** (full strength): the C fast path
produces exactly `format(v, spec)` for every mapped spec, C integer type and in-range value. -/
theorem fstring_cint_fixed (spec : List Char) (ft : FmtC) (w : Nat) (pad : Char)
    (h : cFastPath .fixed spec = some (ft, w, pad))
    (n : Nat) (hn : 1 ≤ n) (signed : Bool) (v : Int) (hv : InRange n signed v) :
    pyFormat (.int v) spec = some (cFormat .fixed n signed v ft (w : Int) pad) :=
  fstring_cint .fixed .fixed spec ft w pad h (not_badSpecFor_fixed spec) n hn signed v hv (by simp)

/-- full-strength statement for the pinned sources -/
def FullFstringCintOrig : Prop :=
  ∀ (spec : List Char) (ft : FmtC) (w : Nat) (pad : Char), cFastPath .orig spec = some (ft, w, pad) →
  ∀ (n : Nat), 1 ≤ n → ∀ (signed : Bool) (v : Int), InRange n signed v →
    pyFormat (.int v) spec = some (cFormat .orig n signed v ft (w : Int) pad)

/-- **f-string field with a C integer value, pinned sources**: the same, outside the three defects:
specs `>0…` and `-…c`, and `c` with a value ≥ 2^21. -/
theorem fstring_cint_orig_partial (spec : List Char) (ft : FmtC) (w : Nat) (pad : Char)
    (h : cFastPath .orig spec = some (ft, w, pad)) (hgood : ¬ BadSpecFor .orig spec)
    (n : Nat) (hn : 1 ≤ n) (signed : Bool) (v : Int) (hv : InRange n signed v)
    (hchr : ft = .chr → v < 2097152) :
    pyFormat (.int v) spec = some (cFormat .orig n signed v ft (w : Int) pad) :=
  fstring_cint .orig .orig spec ft w pad h hgood n hn signed v hv (fun _ => hchr)

/-- `f"{v:>05d}"` for `int v = -42`: the pinned compiler prints `-0042`, CPython `00-42` -/
theorem fstring_cint_orig_counterexample : ¬ FullFstringCintOrig := by
  intro h
  have := h ['>', '0', '5', 'd'] (.num .d) 5 '0' (by decide +kernel) 4 (by omega) true (-42) (by decide)
  revert this
  decide +kernel

/-- `f"{v:-5c}"` for `int v = 65`: the pinned compiler prints `    A`, CPython raises `ValueError` -/
theorem fstring_cint_orig_counterexample_sign_c :
    cFastPath .orig ['-', '5', 'c'] = some (.chr, 5, ' ') ∧
    pyFormat (.int 65) ['-', '5', 'c'] = some (.err "ValueError") ∧
    cFormat .orig 4 true 65 .chr 5 ' ' = .text [32, 32, 32, 32, 65] := by
  refine ⟨by decide +kernel, by decide +kernel, by decide +kernel⟩

/-- non-vacuity of the hypotheses of `fstring_cint_fixed` / `fstring_cint_orig_partial` -/
example : cFastPath .fixed ['0', '8', 'X'] = some (.num .X, 8, '0') ∧ ¬ BadSpecFor .orig ['0', '8', 'X'] ∧
    cFastPath .orig ['0', '8', 'X'] = some (.num .X, 8, '0') ∧ InRange 2 false 65535 := by
  refine ⟨by decide +kernel, ?_, by decide +kernel, by decide⟩
  rintro (⟨_, r, h⟩ | ⟨_, r, h, _⟩) <;> simp at h

/-! ## conversion characters on C fields -/

theorem intStr_eq (v : Int) : intStr v = cps (pyFormatInt .d false 0 v) := by
  simp [intStr, pyFormatInt, pyDigits, Fmt.base, cps]

theorem pyFormat_int_d (v : Int) : pyFormat (.int v) ['d'] = some (.text (intStr v)) := by
  have := parseFormat_meaning .fixed ['d'] (.num .d) 0 ' ' (by decide +kernel) (by decide)
    (not_badSpecFor_fixed _) v
  rw [this, intStr_eq]; rfl

theorem pyFormat_int_nil (v : Int) : pyFormat (.int v) [] = some (.text (intStr v)) := by
  simp [pyFormat]

/-- **A `FormattedValueNode` on a C integer variable = the same field on the Python int** (general
form over the repair switches): conversion char, literal spec, C fast path or generic path. -/
theorem field_cint (sv : SrcVariant) (n : Nat) (hn : 1 ≤ n) (signed : Bool) (v : Int) (hv : InRange n signed v)
    (conv : Option Char) (spec : List Char)
    (hgood : ¬ BadSpecFor sv.parse (if spec.isEmpty then ['d'] else spec))
    (hchr : sv.ord = .orig → ∀ w pad, fieldFastPath sv conv spec = some (.chr, w, pad) → v < 2097152)
    (hconv : sv.convAware = false → isStrConv conv = true → spec = []) :
    evalFieldCInt sv n signed v conv spec = evalFieldObj conv spec (.int v) := by
  unfold evalFieldCInt
  cases hf : fieldFastPath sv conv spec with
  | none => rfl
  | some t =>
    obtain ⟨ft, w, pad⟩ := t
    simp only []
    have hf' := hf
    unfold fieldFastPath at hf
    by_cases hc : (sv.convAware && isStrConv conv && !spec.isEmpty) = true
    · simp [hc] at hf
    · simp only [hc, Bool.false_eq_true, if_false] at hf
      have key := fstring_cint sv.parse sv.ord _ ft w pad hf hgood n hn signed v hv
        (fun ho hft => hchr ho w pad (by rw [hf', hft]))
      rw [← key]
      -- the generic path computes the same `format()` call
      by_cases hs : isStrConv conv = true
      · -- !s / !r / !a : only with an empty spec
        have hspec : spec = [] := by
          by_cases he : spec = []
          · exact he
          · have hca : sv.convAware = false := by
              cases hca : sv.convAware with
              | false => rfl
              | true =>
                have : spec.isEmpty = false := by cases spec <;> simp_all
                simp [hca, hs, this] at hc
            exact hconv hca hs
        subst hspec
        simp only [List.isEmpty_nil, if_true, pyFormat_int_d]
        unfold evalFieldObj applyConv
        simp only [isStrConv, Bool.or_eq_true, decide_eq_true_eq] at hs
        rcases hs with (h | h) | h <;> simp [h, PObj.strText, PObj.reprText, PObj.asciiText, pyFormat]
      · have hn1 : conv ≠ some 's' ∧ conv ≠ some 'r' ∧ conv ≠ some 'a' := by
          simp only [isStrConv, Bool.or_eq_true, decide_eq_true_eq, not_or] at hs
          exact ⟨hs.1.1, hs.1.2, hs.2⟩
        have hev : evalFieldObj conv spec (.int v) = pyFormat (.int v) spec := by
          unfold evalFieldObj applyConv
          simp [hn1.1, hn1.2.1, hn1.2.2]
        rw [hev]
        by_cases he : spec.isEmpty = true
        · have : spec = [] := by cases spec <;> simp_all
          subst this
          simp [pyFormat_int_d, pyFormat_int_nil]
        · simp [he]

/-- **repaired sources** (full strength): every f-string field on a C integer variable — any
conversion char, any literal spec — gives what CPython gives for the Python int. -/
theorem field_cint_fixed (n : Nat) (hn : 1 ≤ n) (signed : Bool) (v : Int) (hv : InRange n signed v)
    (conv : Option Char) (spec : List Char) :
    evalFieldCInt .fixed n signed v conv spec = evalFieldObj conv spec (.int v) :=
  field_cint .fixed n hn signed v hv conv spec (not_badSpecFor_fixed _) (by simp [SrcVariant.fixed])
    (by simp [SrcVariant.fixed])

/-- `f"{v!r:5}"` with `int v = 42`: the pinned compiler prints `'   42'`, CPython `'42   '` -/
theorem field_cint_orig_counterexample :
    evalFieldCInt .orig 4 true 42 (some 'r') ['5'] = some (.text [32, 32, 32, 52, 50]) ∧
    evalFieldObj (some 'r') ['5'] (.int 42) = some (.text [52, 50, 32, 32, 32]) := by
  constructor <;> decide +kernel

/-! ## string joins -/

/-- **`__Pyx_PyUnicode_Join` with the compiler's `(result_ulength, kind)` = concatenation**, all
writes inside the result buffer and every cell written, provided the values the compiler assumed
to be ASCII are ASCII. -/
theorem join_concat (nodes : List JNode) (hvalid : ∀ n ∈ nodes, ∀ c ∈ n.text, c < 0x110000)
    (hascii : ∀ s, JNode.val s true ∈ nodes → kind04 s = 0) :
    pyxJoin (nodes.map JNode.text) (joinArgs nodes).1 (joinArgs nodes).2 =
      .text (nodes.map JNode.text).flatten := by
  have hcell : ∀ n ∈ nodes, ∀ c ∈ n.text, c < cellOf (joinArgs nodes).2 := by
    intro n hn c hc
    have h1 := lt_cellOf_kind04 n.text c hc (hvalid n hn c hc)
    by_cases ha : ∃ s, n = .val s true
    · obtain ⟨s, rfl⟩ := ha
      have h0 := hascii s hn
      simp only [JNode.text] at h1 hc
      rw [h0] at h1
      exact Nat.lt_of_lt_of_le h1 (cellOf_mono 0 _ (by omega) (Nat.zero_le _))
    · have hna : ∀ s, n ≠ .val s true := fun s h => ha ⟨s, h⟩
      exact Nat.lt_of_lt_of_le h1 (cellOf_mono _ _ (kind04_le_four _) (joinArgs_kind_ge nodes n hn hna))
  have hlen : (joinArgs nodes).1 = ((nodes.map JNode.text).map List.length).sum + 0 := by
    simp [joinArgs, List.map_map, Function.comp_def]
  have hloop := joinLoop_spec (cellOf (joinArgs nodes).2) (nodes.map JNode.text) [] 0
  simp only [List.map_nil, List.nil_append, List.length_nil, List.replicate_zero, List.append_nil] at hloop
  have hid : ((nodes.map JNode.text).map fun v => v.map (· % cellOf (joinArgs nodes).2)) = nodes.map JNode.text := by
    rw [List.map_map]
    apply List.map_congr_left
    intro n hn
    exact map_mod_id _ _ (hcell n hn)
  unfold pyxJoin
  show (match joinLoop (cellOf (joinArgs nodes).2) (nodes.map JNode.text) (List.replicate (joinArgs nodes).1 none) 0 with
    | none => OutG.ub "oob-write"
    | some buf => match collectNat buf with | some s => OutG.text s | none => OutG.ub "uninit") = _
  rw [hlen, hloop, hid]
  simp only [collectNat_map_some]

/-- the pinned compiler counts `f"a{v:5c}b"`'s field as ASCII: U+20AC is stored as 0xAC -/
theorem join_kind_counterexample :
    pyxJoin [[97], [32, 32, 32, 32, 0x20ac], [98]]
      (joinArgs [.lit [97], .val [32, 32, 32, 32, 0x20ac] true, .lit [98]]).1
      (joinArgs [.lit [97], .val [32, 32, 32, 32, 0x20ac] true, .lit [98]]).2
    = .text [97, 32, 32, 32, 32, 0xac, 98] ∧
    assumedAsciiSpec false ['5', 'c'] = true ∧ assumedAsciiSpec true ['5', 'c'] = false := by
  decide +kernel
/-! ## the `%`-template rewrite, one directive -/

/-- the `%` directive as CPython reads it -/
def dirOf (flagsL wd p : List Char) (ft : Char) : PDir :=
  ⟨flagsL.contains '-', false, flagsL.contains ' ', false, flagsL.contains '0', widthOf wd, precOf p, ft⟩

/-- **One directive, repaired rewrite**: the f-string field emitted for a regex-matched directive
formats every modelled object exactly as CPython's `%` does for the directive — text or exception —
except `%o/%x/%X` of a str (`ValueError` instead of `TypeError`, excluded by `hx`). -/
theorem directive_fixed (st : Bool) (flagsL wd p : List Char) (h : DirShape flagsL wd p) (ft : Char)
    (hft : isConvC ft = true) (i : Nat)
    (hw : digitsVal wd < 2147483648) (hpv : ∀ ds, p = '.' :: ds → digitsVal ds < 2147483648)
    (o : PObj) (hx : (ft = 'o' ∨ ft = 'x' ∨ ft = 'X') → ∀ s r a, o ≠ .str s r a)
    (conv : Option Char) (spec : List Char)
    (hf : directiveField ⟨true, st⟩ ('%' :: (flagsL ++ wd ++ p ++ [ft])) i = some (.field i conv spec)) :
    evalFieldObj conv spec o = percentArg (dirOf flagsL wd p ft) o := by
  rw [directiveField_shape st flagsL wd p h ft hft i] at hf
  by_cases hbad : inStr ft ['d', 'o', 'x', 'X'] = true ∧ p ≠ []
  · simp [hbad] at hf
  · simp only [hbad, if_false] at hf
    by_cases hars : inStr ft ['a', 'r', 's'] = true
    · simp only [hars, if_true, Option.some.injEq, Piece.field.injEq, true_and] at hf
      obtain ⟨rfl, rfl⟩ := hf
      have hcases := (inStr_ars ft).mp hars
      -- the converted text
      have hconv : ∀ t, (t = if ft = 's' then o.strText else if ft = 'r' then o.reprText else o.asciiText) →
          applyConv (some ft) o = some (.ok (.str t)) := by
        intro t ht
        unfold applyConv
        rcases hcases with rfl | rfl | rfl <;> simp [ht]
      unfold evalFieldObj
      rw [hconv _ rfl]
      simp only []
      rw [str_format_eq _ (flagsL.contains '-') wd p h.hwd h.hwd0 h.hp hw hpv (dirOf flagsL wd p ft) rfl rfl]
      unfold percentArg
      have : (dirOf flagsL wd p ft).conv = ft := rfl
      have hsra : ft = 's' ∨ ft = 'r' ∨ ft = 'a' := by rcases hcases with h | h | h <;> simp [h]
      simp only [this, hsra, if_true]
      rfl
    · simp only [hars, Bool.false_eq_true, if_false, Option.some.injEq, Piece.field.injEq, true_and] at hf
      obtain ⟨rfl, rfl⟩ := hf
      have hnars : ¬ (ft = 'a' ∨ ft = 'r' ∨ ft = 's') := fun hh => hars ((inStr_ars ft).mpr hh)
      have hint : isIntConv ft = true := by
        simp only [isConvC, Bool.or_eq_true, decide_eq_true_eq] at hft
        simp only [isIntConv, Bool.or_eq_true, decide_eq_true_eq]
        rcases hft with (((((h | h) | h) | h) | h) | h) | h
        · exact absurd (Or.inl h) hnars
        · exact absurd (Or.inr (Or.inr h)) hnars
        · exact absurd (Or.inr (Or.inl h)) hnars
        · exact Or.inl (Or.inl (Or.inl h))
        · exact Or.inl (Or.inl (Or.inr h))
        · exact Or.inl (Or.inr h)
        · exact Or.inr h
      have hp : p = [] := by
        by_cases hp : p = []
        · exact hp
        · exact absurd ⟨(inStr_doxX ft).mpr (by
            simp only [isIntConv, Bool.or_eq_true, decide_eq_true_eq] at hint
            rcases hint with ((h | h) | h) | h <;> simp [h]), hp⟩ hbad
      subst hp
      obtain ⟨_, hc, hi, hu, _⟩ := isIntConv_facts ft hint
      have hns : ft ≠ 's' ∧ ft ≠ 'r' ∧ ft ≠ 'a' := ⟨fun e => hnars (Or.inr (Or.inr e)), fun e => hnars (Or.inr (Or.inl e)),
        fun e => hnars (Or.inl e)⟩
      have hdconv : (dirOf flagsL wd [] ft).conv = ft := rfl
      have hintc : ft = 'd' ∨ ft = 'i' ∨ ft = 'u' ∨ ft = 'o' ∨ ft = 'x' ∨ ft = 'X' := by
        simp only [isIntConv, Bool.or_eq_true, decide_eq_true_eq] at hint
        rcases hint with ((h | h) | h) | h <;> simp [h]
      cases o with
      | int v =>
        have hac : applyConv (if ft = 'd' then some 'd' else none) (.int v) = some (.ok (.int v)) := by
          unfold applyConv
          by_cases hd : ft = 'd' <;> simp [hd]
        unfold evalFieldObj
        rw [hac]
        simp only [List.append_nil]
        rw [int_format_eq v _ _ _ wd h.hwd h.hwd0 hw ft hint]
        unfold percentArg
        simp only [hdconv, hns.1, hns.2.1, hns.2.2, or_self, if_false, hintc, if_true]
        rfl
      | str s r a =>
        have hd : ft = 'd' := by
          simp only [isIntConv, Bool.or_eq_true, decide_eq_true_eq] at hint
          rcases hint with ((h | h) | h) | h
          · exact h
          · exact absurd rfl (hx (Or.inl h) s r a)
          · exact absurd rfl (hx (Or.inr (Or.inl h)) s r a)
          · exact absurd rfl (hx (Or.inr (Or.inr h)) s r a)
        subst hd
        simp [evalFieldObj, applyConv, percentArg, dirOf]
      | other s r a =>
        have hac : applyConv (if ft = 'd' then some 'd' else none) (.other s r a) = none := by
          unfold applyConv
          by_cases hd : ft = 'd' <;> simp [hd]
        unfold evalFieldObj percentArg
        rw [hac]
        simp only [hdconv, hns.1, hns.2.1, hns.2.2, or_self, if_false, hintc, if_true]


/-- CPython reads the directive text as `dirOf` (flags, width, precision, conversion) -/
theorem directive_parsed_by_python (flagsL wd p : List Char) (h : DirShape flagsL wd p) (ft : Char)
    (hft : isConvC ft = true) (after : List Char) (hw : digitsVal wd < 2147483648)
    (hpv : ∀ ds, p = '.' :: ds → digitsVal ds < 2147483648) :
    parsePercentDir (flagsL ++ wd ++ p ++ ft :: after) = .dir (dirOf flagsL wd p ft) after := by
  rw [parsePercentDir_shape flagsL wd p h ft hft after hw hpv]; rfl

/-- integer directives with a precision are left to the `%` operator (both variants of the flags code) -/
theorem directive_int_precision_refused (st : Bool) (flagsL wd p : List Char) (h : DirShape flagsL wd p)
    (ft : Char) (hft : isConvC ft = true) (hint : isIntConv ft = true) (hp : p ≠ []) (i : Nat) :
    directiveField ⟨true, st⟩ ('%' :: (flagsL ++ wd ++ p ++ [ft])) i = none := by
  rw [directiveField_shape st flagsL wd p h ft hft i]
  have : inStr ft ['d', 'o', 'x', 'X'] = true := (inStr_doxX ft).mpr (by
    simp only [isIntConv, Bool.or_eq_true, decide_eq_true_eq] at hint
    rcases hint with ((h | h) | h) | h <;> simp [h])
  simp [this, hp]

/-- a piece whose conversion character is not one of `asrfdoxX` makes `_build_fstring` give up -/
theorem unsupported_conversion_left_alone (var : BuildVariant) (starred : List Bool) (s : List Char)
    (more : List (List Char)) (i : Nat) (acc : List Piece)
    (h1 : s ≠ ['%', '%']) (h2 : s.head? = some '%') (h3 : s[1]? ≠ none ∧ s[1]? ≠ some '\n')
    (h4 : inStr (s.getLast?.getD '%') ['a', 's', 'r', 'f', 'd', 'o', 'x', 'X'] = false) :
    buildLoop var starred (s :: more) i acc = none := by
  unfold buildLoop
  have hlit : ¬ (s.head? ≠ some '%' ∨ (var.strictText = true ∧ (s[1]? = none ∨ s[1]? = some '\n'))) := by
    rintro (h | ⟨_, h | h⟩)
    · exact h h2
    · exact h3.1 h
    · exact h3.2 h
  simp only [h1, if_false, hlit, h4, Bool.false_eq_true]
  cases starred[i]? with
  | none => rfl
  | some b => cases b <;> rfl

/-- `"%5s" % ('ab',)`: the pinned rewrite gives `'ab   '`, CPython `'   ab'` -/
theorem directive_orig_counterexample :
    directiveField .orig ['%', '5', 's'] 0 = some (.field 0 (some 's') ['5']) ∧
    evalFieldObj (some 's') ['5'] (.str [97, 98] [39, 97, 98, 39] [39, 97, 98, 39]) = some (.text [97, 98, 32, 32, 32]) ∧
    percentArg (dirOf [] ['5'] [] 's') (.str [97, 98] [39, 97, 98, 39] [39, 97, 98, 39]) = some (.text [32, 32, 32, 97, 98]) := by
  refine ⟨by decide +kernel, by decide +kernel, by decide +kernel⟩

/-- non-vacuity of `directive_fixed`: `%-05d` -/
example : DirShape ['-', '0'] ['5'] [] ∧ isConvC 'd' = true ∧
    directiveField ⟨true, true⟩ ('%' :: (['-', '0'] ++ ['5'] ++ [] ++ ['d'])) 0 = some (.field 0 (some 'd') ['<', '5', 'd']) := by
  refine ⟨⟨by intro c hc; simp at hc; rcases hc with rfl | rfl <;> simp, by decide, by decide, Or.inl rfl⟩, by decide, by decide +kernel⟩

/-! ## de-duplication of repeated placeholders (`FinalOptimizePhase.visit_JoinedStrNode`) -/

/-- the argument is an int, a str or a C integer (not an object known only by its texts) -/
def Arg.modelled : Arg → Prop
  | .obj (.other _ _ _) => False
  | _ => True

theorem strIsDefault_modelled (sv : SrcVariant) (args : List Arg) (h : ∀ a ∈ args, a.modelled) :
    StrIsDefault sv args := by
  intro i a ha
  have hm := h a (List.mem_of_getElem? ha)
  cases a with
  | obj o =>
    cases o with
    | int v => simp [evalFieldArg, evalFieldObj, applyConv, pyFormat, PObj.strText]
    | str s r a => simp [evalFieldArg, evalFieldObj, applyConv, pyFormat, PObj.strText]
    | other s r a => exact absurd hm (by simp [Arg.modelled])
  | cint n sg v =>
    simp only [evalFieldArg, evalFieldCInt, fieldFastPath, List.isEmpty_nil, Bool.not_true, Bool.and_false,
      Bool.false_eq_true, if_false, if_true]
    cases cFastPath sv.parse ['d'] with
    | some t => rfl
    | none => simp [evalFieldObj, applyConv, pyFormat, PObj.strText]

/-- **Placeholder de-duplication keeps the text**: with the key `(name, spec, conversion or 's')`
re-using the first text of a key gives exactly what evaluating every placeholder gives. -/
theorem dedup_preserves (sv : SrcVariant) (ps : List Piece) (args : List Arg) (h : ∀ a ∈ args, a.modelled) :
    evalPiecesD true sv ps args [] [] = evalPiecesA sv ps args [] :=
  evalPiecesD_eq sv args (strIsDefault_modelled sv args h) ps [] []
    (by intro i conv t hf; simp [cacheFind] at hf)

/-- a key without the conversion character: `f"{s!r} is {s}!"` with `s = 'ab'` prints the repr twice -/
theorem dedup_key_counterexample :
    evalPiecesD false .fixed [.field 0 (some 'r') [], .lit [' '], .field 0 none []]
      [.obj (.str [97, 98] [39, 97, 98, 39] [39, 97, 98, 39])] [] [] = some (.text [39, 97, 98, 39, 32, 39, 97, 98, 39]) ∧
    evalPiecesA .fixed [.field 0 (some 'r') [], .lit [' '], .field 0 none []]
      [.obj (.str [97, 98] [39, 97, 98, 39] [39, 97, 98, 39])] [] = some (.text [39, 97, 98, 39, 32, 97, 98]) := by
  constructor <;> decide +kernel

end CyVerif.C18

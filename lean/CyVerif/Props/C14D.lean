import CyVerif.Model.C14D
/-!
C14, dict / set iteration: Cython's inlined iteration (`__Pyx_dict_iter_next`, `__Pyx_set_iter_next`) against CPython's
iterators, for ALL mutation histories.  A history is the list of states of the entries array (hash table) at the successive
`next` calls — nothing is assumed about what happened in between.
-/
namespace CyVerif.C14D

/-- the two iterators are at the same place -/
def Sync (cy : CyIt) (py : PyIt) : Prop := cy.orig = py.used ∧ cy.pos = py.pos

/-- A mutation that changed the size of the dict is detected at the next step, by both, with the same RuntimeError. -/
theorem dict_size_change_detected (cy : CyIt) (py : PyIt) (es : Entries) (hs : Sync cy py) (h : used es ≠ cy.orig) :
    cyNext cy es = (.err .sizeChanged, cy) ∧ pyNext py es = (.err .sizeChanged, py) := by
  obtain ⟨h1, _⟩ := hs
  constructor
  · unfold cyNext; rw [if_pos (fun e => h e.symm)]
  · unfold pyNext; rw [if_pos (fun e => h (by omega))]

/-- … and nothing else is reported as a size change: if the size is the same, neither raises that error. -/
theorem dict_no_false_alarm (cy : CyIt) (es : Entries) (h : used es = cy.orig) : (cyNext cy es).1 ≠ .err .sizeChanged := by
  unfold cyNext
  rw [if_neg (by omega)]
  split <;> simp

/-- FULL-STRENGTH statement (false, see `fullDict_false`): for every initial dict and every history the Cython loop sees
    the same sequence of items / StopIteration / RuntimeError as CPython's `for` loop. -/
def FullDict : Prop := ∀ (es0 : Entries) (hist : List Entries), cyRun (cyInit es0) hist = pyRun (pyInit es0) hist

theorem dict_iter_sync (cy : CyIt) (py : PyIt) (hs : Sync cy py) (hist : List Entries)
    (hk : ∀ s ∈ pyRun py hist, s ≠ .err .keysChanged) : cyRun cy hist = pyRun py hist := by
  induction hist generalizing cy py with
  | nil => rfl
  | cons es rest ih =>
    obtain ⟨h1, h2⟩ := hs
    rw [cyRun, pyRun]
    rw [pyRun] at hk
    unfold cyNext
    unfold pyNext at hk ⊢
    rw [h1, h2]
    by_cases hu : py.used ≠ used es
    · simp [hu]
    · simp only [hu, if_false] at hk ⊢
      cases hsc : scan es py.pos with
      | none => simp
      | some r =>
        obtain ⟨i, k, v⟩ := r
        simp only [hsc] at hk ⊢
        by_cases hl : py.len = 0
        · simp [hl] at hk
        · simp only [hl, if_false] at hk ⊢
          congr 1
          apply ih
          · exact ⟨rfl, rfl⟩
          · intro s hs'
            exact hk s (List.mem_cons_of_mem _ hs')

/-- As long as CPython does not report "dictionary keys changed during iteration" (a same-size replacement of keys that
    makes it find more entries than the dict had at the start), the Cython loop yields exactly CPython's sequence:
    same items in the same order, StopIteration at the same call, the size-change RuntimeError at the same call. -/
theorem dict_iter_partial (es0 : Entries) (hist : List Entries)
    (hk : ∀ s ∈ pyRun (pyInit es0) hist, s ≠ .err .keysChanged) :
    cyRun (cyInit es0) hist = pyRun (pyInit es0) hist :=
  dict_iter_sync _ _ ⟨rfl, rfl⟩ hist hk

/-- `d = {0: 0}`, the body does `del d[k]; d[k+1] = 0`: the entries array becomes `[hole, (1,0)]`; CPython raises
    RuntimeError("dictionary keys changed during iteration"), the Cython loop goes on with key 1 -/
theorem fullDict_false : ¬ FullDict := by
  intro h
  have := h [some (0, 0)] [[some (0, 0)], [none, some (1, 0)]]
  exact absurd this (by decide)

example : ∀ s ∈ pyRun (pyInit [some (0, 0), some (1, 10)]) [[some (0, 0), some (1, 10)], [some (0, 0), some (1, 77)], [some (0, 0), some (1, 77)]],
    s ≠ .err .keysChanged := by decide

/-- SETS (CPython < 3.13): `__Pyx_set_iter_next` = `setiter_iternext` for every history of the hash table — both check the
    size, then walk the table from the same index; CPython has no further check here. -/
theorem set_iter_full (cy : CyIt) (py : PyIt) (hs : Sync cy py) (hist : List Entries) : cySetRun cy hist = pySetRun py hist := by
  induction hist generalizing cy py with
  | nil => rfl
  | cons tbl rest ih =>
    obtain ⟨h1, h2⟩ := hs
    rw [cySetRun, pySetRun]
    unfold cySetNext pySetNext
    rw [h1, h2]
    by_cases hu : py.used ≠ used tbl
    · simp [hu]
    · simp only [hu, if_false]
      cases hsc : scan tbl py.pos with
      | none => simp
      | some r =>
        obtain ⟨i, k, v⟩ := r
        simp only
        congr 1
        exact ih _ _ ⟨rfl, rfl⟩

theorem set_iter_all_histories (t0 : Entries) (hist : List Entries) : cySetRun (cyInit t0) hist = pySetRun (pyInit t0) hist :=
  set_iter_full _ _ ⟨rfl, rfl⟩ hist

end CyVerif.C14D

import CyVerif.Model.C46
import CyVerif.Lemmas.C46Graph
import CyVerif.Lemmas.C46Helper
/-!
# C46 — `DependencyTree.all_dependencies` is the transitive closure; rebuild decision

`g n` = `cimported_files(n)` (any order, duplicates allowed), `E n` =
`immediate_dependencies(n)`, both arbitrary; `N` bounds the files that have
outgoing edges (`hfin`), so the graph is an arbitrary finite directed graph:
cycles, self-loops and interlocking cycles included.  `Reach g` is the
reflexive-transitive closure of `b ∈ g a`, `InClos g E n x` says
`x ∈ ⋃ {E v | Reach g n v}`.

The theorems say: for every such graph, every sequence of queries on one tree
(the `seen` cache is shared, so its state is an arbitrary reachable one), every
answer is exactly that closure, no `KeyError` can come out of `stack[...]`,
and every cache entry is a complete closure.  The interlocking-cycle defect
conjectured in DESIGN section 5 is refuted by `all_deps_closure`.
-/
namespace CyVerif.C46

variable {g E : Nat → List Nat} {N : Nat}

/-- One query on a tree with an exact cache returns exactly the closure and
leaves an exact cache (`cache_complete` is the `CacheOK` part). -/
theorem query_closure (hfin : ∀ n, N ≤ n → g n = []) (seen : Cache) (hc : CacheOK g E seen)
    (node : Nat) :
    ∃ deps seen', query g E N seen node = .ok deps none seen' ∧ CacheOK g E seen' ∧
      ∀ x, x ∈ deps ↔ InClos g E node x := by
  obtain ⟨d, l, s', hq, hp⟩ := helper_spec (E := E) hfin (N + 1) node seen [] hc
    (by rw [countFree_nil]; omega)
  have hl : l = none := by
    cases l with
    | none => rfl
    | some s => exact absurd (hp.loopIn s rfl) (by simp)
  subst hl
  exact ⟨d, s', hq, hp.cache, fun x => ⟨hp.sound x, hp.complete x⟩⟩

/-- `as` answers the queries `qs` exactly. -/
def AnswersExact (g E : Nat → List Nat) : List Nat → List (List Nat) → Prop
  | [], [] => True
  | q :: qs, a :: as => (∀ x, x ∈ a ↔ InClos g E q x) ∧ AnswersExact g E qs as
  | _, _ => False

/-- Invariant form: from ANY exact cache, any query sequence succeeds, every
answer is the closure, and the cache stays exact. -/
theorem cache_complete (hfin : ∀ n, N ≤ n → g n = []) (qs : List Nat) :
    ∀ seen, CacheOK g E seen →
    ∃ as seen', runQueries g E N seen qs = some (as, seen') ∧ AnswersExact g E qs as ∧
      CacheOK g E seen' := by
  induction qs with
  | nil => intro seen hc; exact ⟨[], seen, rfl, trivial, hc⟩
  | cons q qs ih =>
    intro seen hc
    obtain ⟨d, s', hq, hc', hd⟩ := query_closure hfin seen hc q
    obtain ⟨as, s'', hr, ha, hc''⟩ := ih s' hc'
    exact ⟨d :: as, s'', by simp [runQueries, hq, hr], ⟨hd, ha⟩, hc''⟩

/-- **Full strength.**  For all finite graphs and all query sequences on a fresh
tree, each answer of `all_dependencies` equals the union of `extract` over the
reflexive-transitive closure of `cimported_files`. -/
theorem all_deps_closure (hfin : ∀ n, N ≤ n → g n = []) (qs : List Nat) :
    ∃ as seen', runQueries g E N [] qs = some (as, seen') ∧ AnswersExact g E qs as ∧
      CacheOK g E seen' :=
  cache_complete hfin qs [] CacheOK.nil

/-- With the real shape of `immediate_dependencies` (`{f} ∪ cimported_files(f) ∪
included_files(f)`) the closure is: the files reachable through cimports,
together with the files they include. -/
theorem closure_files (inc : Nat → List Nat) (n x : Nat) :
    InClos g (fun v => v :: (g v ++ inc v)) n x ↔ ∃ v, Reach g n v ∧ (x = v ∨ x ∈ inc v) := by
  constructor
  · rintro ⟨v, hv, hx⟩
    simp only [List.mem_cons, List.mem_append] at hx
    rcases hx with rfl | hx | hx
    · exact ⟨x, hv, .inl rfl⟩
    · exact ⟨x, hv.trans (.step hx (.refl x)), .inl rfl⟩
    · exact ⟨v, hv, .inr hx⟩
  · rintro ⟨v, hv, hx⟩
    refine ⟨v, hv, ?_⟩
    simp only [List.mem_cons, List.mem_append]
    rcases hx with rfl | hx
    · exact .inl rfl
    · exact .inr (.inr hx)

/-! ### rebuild decision -/

/-- **Full strength (existing C file).**  With a C file of timestamp `c` generated
by this Cython, the module is regenerated iff `force` or some file in the
closure of its source (the source itself included) is strictly newer than the
C file — for every graph, every exact cache state, every timestamp assignment. -/
theorem rebuild_iff (hfin : ∀ n, N ≤ n → g n = []) (hself : ∀ n, n ∈ E n)
    (seen : Cache) (hc : CacheOK g E seen) (ts : Nat → Int) (src : Nat) (c : Int) (force : Bool) :
    ∃ b, decideModule g E N seen ts src (some c) force = some b ∧
      (b = true ↔ force = true ∨ ∃ x, InClos g E src x ∧ c < ts x) := by
  have hsrc : InClos g E src src := InClos.self (hself src)
  unfold decideModule
  by_cases h1 : c < ts src
  · simp only [h1, if_true]
    exact ⟨true, rfl, by simp; exact .inr ⟨src, hsrc, h1⟩⟩
  · simp only [h1, if_false]
    obtain ⟨d, s', hq, _, hd⟩ := query_closure hfin seen hc src
    rw [hq]
    have hne : d.map ts ≠ [] := by
      have := (hd src).2 hsrc
      intro h; rw [List.map_eq_nil_iff] at h; rw [h] at this; cases this
    obtain ⟨m, hm, hmem, hmax⟩ := maxList_spec (d.map ts) hne
    simp only [rebuild, h1, if_false, hm]
    refine ⟨force || decide (c < m), rfl, ?_⟩
    simp only [Bool.or_eq_true, decide_eq_true_eq]
    constructor
    · rintro (hf | hlt)
      · exact .inl hf
      · obtain ⟨x, hx, hxe⟩ := List.mem_map.1 hmem
        exact .inr ⟨x, (hd x).1 hx, by omega⟩
    · rintro (hf | ⟨x, hx, hlt⟩)
      · exact .inl hf
      · have := hmax (ts x) (List.mem_map.2 ⟨x, (hd x).2 hx, rfl⟩)
        exact .inr (by omega)

/-- Missing C file (or one not generated by this Cython): always regenerated,
provided the source's mtime is above the sentinel `-1` (not before 1970). -/
theorem rebuild_missing (seen : Cache) (ts : Nat → Int) (src : Nat) (force : Bool)
    (hts : -1 < ts src) : decideModule g E N seen ts src none force = some true := by
  simp [decideModule, hts]

/-- The rebuild predicate alone, for an arbitrary non-empty timestamp list. -/
theorem rebuild_spec (force : Bool) (c srcT : Int) (depTs : List Int) (hsrc : srcT ∈ depTs) :
    ∃ b, rebuild force (some c) srcT depTs = some b ∧
      (b = true ↔ force = true ∨ ∃ t, t ∈ depTs ∧ c < t) := by
  unfold rebuild
  by_cases h1 : c < srcT
  · simp only [h1, if_true]
    exact ⟨true, rfl, by simp; exact .inr ⟨srcT, hsrc, h1⟩⟩
  · simp only [h1, if_false]
    obtain ⟨m, hm, hmem, hmax⟩ := maxList_spec depTs (by intro h; rw [h] at hsrc; cases hsrc)
    rw [hm]
    refine ⟨force || decide (c < m), rfl, ?_⟩
    simp only [Bool.or_eq_true, decide_eq_true_eq]
    constructor
    · rintro (hf | hlt)
      · exact .inl hf
      · exact .inr ⟨m, hmem, hlt⟩
    · rintro (hf | ⟨t, ht, hlt⟩)
      · exact .inl hf
      · have := hmax t ht; exact .inr (by omega)

/-! ### non-vacuity -/

/-- Two interlocking cycles 0→1→2→0 and 1→3→1, plus a tail 3→4. -/
def gEx : Nat → List Nat := tableFn [[1], [2, 3], [0], [1, 4], []]
def eEx : Nat → List Nat := fun n => [n]

example : ∀ n, 5 ≤ n → gEx n = [] := by
  intro n hn
  have : ([[1], [2, 3], [0], [1, 4], []] : List (List Nat))[n]? = none :=
    List.getElem?_eq_none (by simpa using hn)
  simp [gEx, tableFn, List.getD, this]

/-- The hypotheses of `all_deps_closure` hold for the interlocking-cycle graph and the
model really computes something non-trivial on it (query order 3, 2, 0 with a shared cache;
sets are lists up to membership, the order shown is the model's merge order). -/
example : runQueries gEx eEx 5 [] [3, 2, 0] =
    some ([[3, 1, 2, 0, 4], [2, 0, 1, 3, 4], [0, 1, 2, 3, 4]],
      [(0, [0, 1, 2, 3, 4]), (1, [1, 2, 0, 3, 4]), (2, [2, 0, 1, 3, 4]), (3, [3, 1, 2, 0, 4]), (4, [4])]) := by
  decide

/-- During the first query nodes 1 and 2 stay uncached (their loop head 3 was still open). -/
example : runQueries gEx eEx 5 [] [3] = some ([[3, 1, 2, 0, 4]], [(3, [3, 1, 2, 0, 4]), (4, [4])]) := by
  decide

example : Reach gEx 3 0 := .step (b := 1) (by decide) (.step (b := 2) (by decide) (.step (b := 0) (by decide) (.refl 0)))

/-- `rebuild_iff` is not vacuous: a dependency (file 4, timestamp 50) newer than the C file (40). -/
example : decideModule gEx (fun v => v :: gEx v) 5 [] (fun n => if n = 4 then 50 else 10) 2 (some 40) false
    = some true := by decide
example : decideModule gEx (fun v => v :: gEx v) 5 [] (fun n => if n = 4 then 50 else 10) 4 (some 50) false
    = some false := by decide

/-- Why `rebuild_missing` needs `-1 < ts src`: the `-1` sentinel is compared with real mtimes. -/
example : decideModule gEx eEx 5 [] (fun _ => -5) 4 none false = some false := by decide

end CyVerif.C46

import CyVerif.Lemmas.C48
/-!
# C48 — compilation caches never return stale results (cache-key part)

`key_eq_inputs_eq`: under the stated assumptions on SHA-256 (`HashOK`), `%d` (`DecOK`) and Python's
`repr` of the fingerprint list (`renderOpts` injective), two compilations with the same cache key have
the same source file (path and content), the same dependency files (any number of them, path and
content), the same fingerprint flags and the same value for EVERY option that is not on the exclusion
list.  `miss_on_change` is the contrapositive the property states.  Whether the exclusion list only
contains options that cannot influence the output is the decidable obligation `ExclusionOK`,
re-extracted from the source on every run; `excludedPinned_not_ok` records that the list of the pinned
source (which excluded `compiler_directives`) fails it.
-/
namespace CyVerif.C48

variable {H : Str → Str} {dec : Nat → Str} {renderOpts : List (Nat × Str) → Str}

theorem key_eq_inputs_eq (hH : HashOK H) (hd : DecOK dec)
    (hr : ∀ a b, renderOpts a = renderOpts b → a = b)
    (version : Str) (excluded : Nat → Bool) (univ : List Nat) (hu : univ.Nodup) (i i' : Inputs)
    (h : key H dec renderOpts version excluded univ i = key H dec renderOpts version excluded univ i') :
    i.src = i'.src ∧ i.deps = i'.deps ∧ i.flags = i'.flags ∧
      ∀ k ∈ univ, excluded k = false → i.opts.value k = i'.opts.value k := by
  have h1 := hH.inj _ _ h
  unfold keyText at h1
  simp only [List.append_assoc] at h1
  have h2 := List.append_cancel_left h1
  -- [fileHash src] ++ dep hashes, as one run of hex blocks
  have hb : ∀ (j : Inputs), ∀ x ∈ (fileHash H dec j.src :: j.deps.map (fileHash H dec)),
      x.length = 64 ∧ ∀ c ∈ x, isHexChar c = true := by
    intro j x hx
    rcases List.mem_cons.1 hx with rfl | hx
    · exact ⟨hH.len _, hH.hex _⟩
    · obtain ⟨f, _, rfl⟩ := List.mem_map.1 hx
      exact ⟨hH.len _, hH.hex _⟩
  have h3 := hexrun_inj (fileHash H dec i.src :: i.deps.map (fileHash H dec))
    (fileHash H dec i'.src :: i'.deps.map (fileHash H dec)) _ _ (hb i) (hb i')
    (flags_render_head i.flags _) (flags_render_head i'.flags _)
    (by simpa [List.flatten_cons, List.append_assoc] using h2)
  simp only [List.cons.injEq] at h3
  have hsrc := fileHash_inj hH hd _ _ h3.1.1
  have hdeps := map_fileHash_inj hH hd _ _ h3.1.2
  have h4 := flags_render_inj _ _ _ _ h3.2
  exact ⟨hsrc, hdeps, h4.1, optionsFp_agree excluded univ hu _ _ (hr _ _ h4.2)⟩

/-- **Any change of an input that enters the key causes a miss.** -/
theorem miss_on_change (hH : HashOK H) (hd : DecOK dec)
    (hr : ∀ a b, renderOpts a = renderOpts b → a = b)
    (version : Str) (excluded : Nat → Bool) (univ : List Nat) (hu : univ.Nodup) (i i' : Inputs)
    (hchg : i.src ≠ i'.src ∨ i.deps ≠ i'.deps ∨ i.flags ≠ i'.flags ∨
      ∃ k ∈ univ, excluded k = false ∧ i.opts.value k ≠ i'.opts.value k) :
    key H dec renderOpts version excluded univ i ≠ key H dec renderOpts version excluded univ i' := by
  intro h
  obtain ⟨h1, h2, h3, h4⟩ := key_eq_inputs_eq hH hd hr version excluded univ hu i i' h
  rcases hchg with c | c | c | ⟨k, hk, he, c⟩
  · exact c h1
  · exact c h2
  · exact c h3
  · exact c (h4 k hk he)

/-- Conversely the key depends on nothing else: equal inputs on the included options give equal keys
(so excluded options never cause spurious misses). -/
theorem key_congr (version : Str) (excluded : Nat → Bool) (univ : List Nat) (i i' : Inputs)
    (h1 : i.src = i'.src) (h2 : i.deps = i'.deps) (h3 : i.flags = i'.flags)
    (h4 : ∀ k ∈ univ, excluded k = false → i.opts.value k = i'.opts.value k) :
    key H dec renderOpts version excluded univ i = key H dec renderOpts version excluded univ i' := by
  unfold key keyText
  rw [h1, h2, h3]
  congr 3
  unfold optionsFp
  clear h1 h2 h3
  induction univ with
  | nil => rfl
  | cons k univ ih =>
    simp only [List.filterMap_cons]
    rw [ih (fun k' hk' he => h4 k' (by simp [hk']) he)]
    by_cases he : excluded k = true
    · simp [he]
    · have he' : excluded k = false := by simpa using he
      simp [he', h4 k (by simp) he']

/-- the exclusion list of the repaired source is acceptable … -/
theorem neutral_ok : ExclusionOK neutral = true := by decide

/-- … the pinned one was not: it excluded `compiler_directives` (F13). -/
theorem excludedPinned_not_ok : ExclusionOK excludedPinned = false := by decide

/-- Non-vacuity: the hypotheses on the universe are met by the real option list. -/
example : (List.range names.length).Nodup := by decide

end CyVerif.C48

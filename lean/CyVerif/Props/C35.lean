import CyVerif.Lemmas.C35Exit
/-!
# C35 — reference counts stay balanced on every path (PARTIAL)

Proved here, for ALL operation histories / event streams:
* Part 1 — `FunctionState` (Code.py): the temp allocator never hands out a name that is in use,
  re-issues a name only for its own `(type, manage_ref)` key, rejects wrong releases, and every
  cleanup list computed LATER (`all_managed_temps()` at the function's error label,
  `all_free_managed_temps()` at a `try` handler) covers the managed temps in use NOW.
* Part 2 — refnanny `Context`: it reports nothing exactly on the balanced streams (sound and
  complete for the modelled events); a stream built by the temp discipline and ended by either exit
  is balanced and changes each refcount only by the references given away.

NOT proved: that `ExprNodes.py` / `Nodes.py` follow the discipline (searched by fault injection in
`harness/props/c35_fault.py`).
-/
namespace CyVerif.C35

/-- state after a history (any `names_taken`); rejected releases leave the state unchanged -/
def after (taken : List Nat) (ops : List Op) : FS := (FS.init taken).runOps ops

theorem after_append (taken : List Nat) (a b : List Op) : after taken (a ++ b) = (after taken a).runOps b := by
  simp [after, FS.runOps, List.foldl_append]

/-- the representation invariant holds after every history -/
theorem wf_reachable (taken : List Nat) (ops : List Op) : WF (after taken ops) := wf_run taken ops

theorem apply_taken (s : FS) (op : Op) : (s.apply op).taken = s.taken := by
  cases op with
  | alloc ty m st r =>
    rcases allocate_fresh_or_reuse s ty m st r with ⟨fl, n, -, he⟩ | ⟨-, he⟩ <;> simp [FS.apply, he, allocReuse, allocFresh]
  | release n =>
    simp only [FS.apply]; split
    · rename_i s' hr; obtain ⟨k, -, -, rfl⟩ := release_ok hr; rfl
    · rfl

theorem runOps_taken (ops : List Op) (s : FS) : (s.runOps ops).taken = s.taken := by
  induction ops generalizing s with
  | nil => rfl
  | cons o l ih => simp only [FS.runOps, List.foldl_cons] at ih ⊢; rw [ih, apply_taken]

theorem after_taken (taken : List Nat) (ops : List Op) : (after taken ops).taken = taken :=
  runOps_taken ops _

/-- (a) after ANY history: the name handed out by `allocate_temp` is not in use at the call, is in use
afterwards, is not in `names_taken`; if the name existed before, the request was `reusable`, the name
belongs to the same canonical `(type, manage_ref)` key and had been released -/
theorem no_double_handout (taken : List Nat) (ops : List Op) (ty : Ty) (m st r : Bool) :
    let s := after taken ops
    let n := (allocate s ty m st r).2
    n ∉ inUseNames s ∧ n ∈ inUseNames (allocate s ty m st r).1 ∧ n ∉ taken ∧
    (n ∈ names s → r = true ∧ ∃ t ∈ s.allocated, t.name = n ∧ t.key = reqKey ty m ∧ isFree s t = true) := by
  have h := allocate_spec (wf_reachable taken ops) ty m st r
  rw [after_taken] at h; exact h

/-- (b) the function-level error cleanup (`all_managed_temps()` evaluated at the END of the function,
i.e. after any continuation `ops2`) contains every managed temp that is in use at ANY earlier point -/
theorem cleanup_covers_live (taken : List Nat) (ops1 ops2 : List Op) (n : Nat)
    (h : n ∈ holdingRef (after taken ops1)) : n ∈ allManaged (after taken (ops1 ++ ops2)) := by
  rw [after_append]
  exact allManaged_mono _ ops2 (holdingRef_sub_allManaged h)

/-- (c) after ANY history every managed temp is in exactly one of three classes -/
theorem managed_partition_reachable (taken : List Nat) (ops : List Op) (n : Nat) :
    let s := after taken ops
    (n ∈ allManaged s ↔ n ∈ holdingRef s ∨ n ∈ freeManaged s ∨ n ∈ deadManaged s) ∧
    ¬ (n ∈ holdingRef s ∧ n ∈ freeManaged s) ∧ ¬ (n ∈ holdingRef s ∧ n ∈ deadManaged s) ∧
    ¬ (n ∈ freeManaged s ∧ n ∈ deadManaged s) :=
  managed_partition (wf_reachable taken ops) n

/-- (c) as generator / handler code relies on it — FALSE for the class as it exists -/
def FullFreeUnion : Prop :=
  ∀ (taken : List Nat) (ops : List Op) (n : Nat),
    n ∈ allManaged (after taken ops) ↔ n ∈ holdingRef (after taken ops) ∨ n ∈ freeManaged (after taken ops)

/-- histories in which no refcount-managed temp is requested with `reusable=False` -/
def ZombieFree (ops : List Op) : Prop := ∀ op ∈ ops, op.zombieFree

theorem noManagedZombie_after (taken : List Nat) (ops : List Op) (hz : ZombieFree ops) :
    NoManagedZombie (after taken ops) :=
  noManagedZombie_runOps (wf_init taken) (by intro t ht; simp [FS.init] at ht) hz

/-- (c) `all_managed_temps = temps_holding_reference ⊎ all_free_managed_temps` for every history
without managed non-reusable temps -/
theorem free_union_inuse_partial (taken : List Nat) (ops : List Op) (hz : ZombieFree ops) (n : Nat) :
    (n ∈ allManaged (after taken ops) ↔ n ∈ holdingRef (after taken ops) ∨ n ∈ freeManaged (after taken ops)) ∧
    ¬ (n ∈ holdingRef (after taken ops) ∧ n ∈ freeManaged (after taken ops)) :=
  free_union_inuse (wf_reachable taken ops) (noManagedZombie_after taken ops hz) n

def pyObj : Ty := ⟨0, true, false, false, 0, false⟩
def cInt : Ty := ⟨4, false, false, false, 0, false⟩

/-- witness: `t = allocate_temp(py_object_type, manage_ref=True, reusable=False); release_temp(t)` —
`t` is in `all_managed_temps()` but neither in use nor in `all_free_managed_temps()` -/
theorem fullFreeUnion_false : ¬ FullFreeUnion := by
  intro h
  have h1 := h [] [.alloc pyObj true false false, .release 1] 1
  have hm : 1 ∈ allManaged (after [] [.alloc pyObj true false false, .release 1]) := by decide
  have hh : 1 ∉ holdingRef (after [] [.alloc pyObj true false false, .release 1]) := by decide
  have hf : 1 ∉ freeManaged (after [] [.alloc pyObj true false false, .release 1]) := by
    simp only [freeManaged, List.mem_mergeSort]; decide
  rcases h1.mp hm with h2 | h2
  · exact hh h2
  · exact hf h2

/-- (b)+(c) handler cleanup: a managed temp in use at some point of a `try` body is, at the end of the
body (after any continuation), still in use or in `all_free_managed_temps()` (the handler's
`xdecref_clear` list) -/
theorem handler_cleanup_covers_partial (taken : List Nat) (ops1 ops2 : List Op) (hz : ZombieFree (ops1 ++ ops2))
    (n : Nat) (h : n ∈ holdingRef (after taken ops1)) :
    n ∈ holdingRef (after taken (ops1 ++ ops2)) ∨ n ∈ freeManaged (after taken (ops1 ++ ops2)) :=
  ((free_union_inuse_partial taken (ops1 ++ ops2) hz n).1).mp (cleanup_covers_live taken ops1 ops2 n h)

/-- (d) after ANY history `release_temp(name)` is accepted exactly for the temps in use; a name never
handed out gives `KeyError`, a released one `RuntimeError`; a rejected release changes nothing -/
theorem release_rejected (taken : List Nat) (ops : List Op) (n : Nat) :
    let s := after taken ops
    ((∃ s', release s n = .ok s') ↔ n ∈ inUseNames s) ∧
    (n ∉ names s → release s n = .err "KeyError") ∧
    (n ∈ names s → n ∉ inUseNames s → release s n = .err "RuntimeError") ∧
    (n ∉ inUseNames s → s.apply (.release n) = s) := by
  have w := wf_reachable taken ops
  refine ⟨release_ok_iff w n, release_unknown w, release_twice w, ?_⟩
  intro h
  simp only [FS.apply]
  split
  · rename_i s' hr; exact absurd ((release_ok_iff w n).mp ⟨s', hr⟩) h
  · rfl

-- non-vacuity
example : 2 ∈ holdingRef (after [] [.alloc pyObj true false true, .alloc pyObj true false true, .release 1]) := by decide
example : ZombieFree [.alloc pyObj true false true, .alloc cInt false true false, .release 1] := by
  intro op h; simp at h; rcases h with rfl | rfl | rfl <;> simp [Op.zombieFree, reqKey, canon, cInt, Ty.needsRefcounting, Ty.isCv, Ty.isRef, Ty.isCFunc]
example : (allocate (after [] [.alloc pyObj true false true, .release 1]) pyObj true false true).2 = 1 := by decide
example : (allocate (after [] [.alloc pyObj true false true, .release 1]) pyObj false false true).2 = 2 := by decide
example : release (after [1] [.alloc pyObj true false true]) 1 = .err "KeyError" := by decide
example : (allocate (after [1, 2] []) pyObj true false true).2 = 3 := by decide
example : release (after [] [.alloc pyObj true false true, .release 1]) 1 = .err "RuntimeError" := by decide

end CyVerif.C35

import CyVerif.Lemmas.C37Fin
/-!
C37 — property theorems, leg 2 (exit protocol).  All theorems quantify over every thread count
(`parts.length`), every assignment of iterations to threads (`parts`, any lists without repetition),
every behaviour of the iterations (`kinds`) and EVERY interleaving of the atomic steps
(`acts : List (thread × guard-choice)`, any length).  `srcCfg` is the variant the current source emits
(guarded fetch, error preferred after the region).
-/
namespace CyVerif.C37

def srcCfg (parts : List (List Nat)) (kinds : Nat → Kind) : Cfg :=
  { n := parts.length, kinds := kinds, guarded := true, preferErr := true }

theorem nodup_count_le {l : List Nat} (h : l.Nodup) (x : Nat) : l.count x ≤ 1 :=
  List.nodup_iff_count.mp h x

/-- During the region, at every reachable state: every exception object that was raised is held by exactly one
place (shared slot, one thread state) or has been released exactly once; nothing else is held or released. -/
theorem exit_ownership_invariant (kinds : Nat → Kind) (parts : List (List Nat)) (acts : List (Nat × Bool)) (st : St)
    (hnd : parts.flatten.Nodup)
    (hrun : runActs (srcCfg parts kinds) (initSt parts) acts = some st) (e : Nat) :
    ind (st.slot = some e) + sumN parts.length (fun t => ind (st.cur t = some e)) + st.released.count e
      = ind (e ∈ st.ran ∧ kinds e = .raise) :=
  (invA_run (c := srcCfg parts kinds) rfl (nodup_count_le hnd) acts (invA_init true true kinds parts) hrun).own e

/-- After the region: accounting of every exception object, and which one propagates. -/
theorem exit_exception_accounting (kinds : Nat → Kind) (parts : List (List Nat)) (acts : List (Nat × Bool))
    (st st' : St) (out : Outcome) (hnd : parts.flatten.Nodup) (hn : 0 < parts.length)
    (hrun : runActs (srcCfg parts kinds) (initSt parts) acts = some st)
    (hfin : finish (srcCfg parts kinds) st = some (st', out)) :
    (∀ e, st'.released.count e + ind (st'.cur 0 = some e) = ind (e ∈ st'.ran ∧ kinds e = .raise)) ∧
    st'.slot = none ∧ (∀ t < parts.length, t ≠ 0 → st'.cur t = none) ∧
    ((∃ k ∈ st'.ran, kinds k = .raise) →
      ∃ e, out = .raise (some e) ∧ e ∈ st'.ran ∧ kinds e = .raise ∧ st'.cur 0 = some e) ∧
    ((¬ ∃ k ∈ st'.ran, kinds k = .raise) → st'.released = [] ∧ st'.cur 0 = none ∧ ∀ e, out ≠ .raise e) := by
  have invA := invA_run (c := srcCfg parts kinds) rfl (nodup_count_le hnd) acts (invA_init true true kinds parts) hrun
  have invB := invB_run acts (invB_init (srcCfg parts kinds) parts) hrun
  unfold finish at hfin
  split at hfin
  next hall =>
    have hsum := fin_workers_sum (c := srcCfg parts kinds) hn hall invA
    have hown : ∀ e, ind (st.slot = some e) + ind (st.cur 0 = some e) + st.released.count e
        = ind (e ∈ st.ran ∧ kinds e = .raise) := fun e => by
      have := invA.own e
      unfold owners at this
      rw [hsum e] at this; exact this
    have hwork : ∀ t < parts.length, t ≠ 0 → st.cur t = none := fun t ht h0 =>
      invA.finCur t ht h0 (allFinished_pc hall t ht)
    have hiff := fin_slot_iff hall invA
    cases hs : st.slot with
    | some e0 =>
      simp only [srcCfg, hs, Option.isSome_some, Bool.and_self, if_true] at hfin
      simp only [show (4 : Nat) ≠ 3 by omega, if_false] at hfin
      cases hfin
      have he0 : e0 ∈ st.ran ∧ kinds e0 = .raise := by
        have := hown e0
        rw [hs, ind_true rfl] at this
        exact ind_pos.mp (by omega)
      refine ⟨fun e => ?_, rfl, fun t ht h0 => ?_, fun _ => ⟨e0, rfl, he0.1, he0.2, show upd st.cur 0 (some e0) 0 = some e0 from upd_same _ _ _⟩, fun hno => ?_⟩
      · have := hown e
        simp only [upd_same, List.count_append, count_toList, hs] at this ⊢
        omega
      · show upd st.cur 0 (some e0) t = none
        rw [upd_other _ _ _ t h0]; exact hwork t ht h0
      · exact absurd ⟨e0, he0.1, he0.2⟩ hno
    | none =>
      have hno : ¬ ∃ k ∈ st.ran, kinds k = .raise := by
        intro hr; have := hiff.mp hr; rw [hs] at this; cases this
      have hz : ∀ e, ind (st.cur 0 = some e) + st.released.count e = 0 := fun e => by
        have := hown e
        have h1 : ind (e ∈ st.ran ∧ kinds e = .raise) = 0 := ind_false (fun h => hno ⟨e, h.1, h.2⟩)
        have h2 : ind ((none : Option Nat) = some e) = 0 := ind_false (by simp)
        rw [hs] at this; omega
      have hcur0 : st.cur 0 = none := by
        cases hc : st.cur 0 with
        | none => rfl
        | some e => have := hz e; rw [hc, ind_true rfl] at this; omega
      have hrel : st.released = [] := List.eq_nil_iff_forall_not_mem.mpr (fun e he => by
        have := hz e; have := List.count_pos_iff.mpr he; omega)
      have hw4 : st.why ≠ 4 := fun h4 => by
        have := fin_why4 hall invA invB h4; rw [hs] at this; cases this
      simp only [srcCfg, hs, Option.isSome_none, Bool.and_false, Bool.false_eq_true, if_false, hw4] at hfin
      have key : st'.released = st.released ∧ st'.cur = st.cur ∧ st'.slot = none ∧ st'.ran = st.ran ∧ ∀ e, out ≠ .raise e := by
        split at hfin <;> (cases hfin; exact ⟨rfl, rfl, rfl, rfl, fun e h => by cases h⟩)
      obtain ⟨k1, k2, k3, k4, k5⟩ := key
      rw [k1, k2, k4]
      refine ⟨fun e => ?_, k3, hwork, fun hr => absurd hr hno, fun _ => ⟨hrel, hcur0, k5⟩⟩
      have := hz e
      have h1 : ind (e ∈ st.ran ∧ kinds e = .raise) = 0 := ind_false (fun h => hno ⟨e, h.1, h.2⟩)
      omega
  next => cases hfin

theorem any_kind_false {kinds : Nat → Kind} {ran : List Nat} {kd : Kind} (h : ¬ ∃ k ∈ ran, kinds k = kd) :
    (ran.any fun k => kinds k == kd) = false := by
  rw [List.any_eq_false]
  intro k hk hk'
  exact h ⟨k, hk, by simpa using hk'⟩

theorem any_kind_true {kinds : Nat → Kind} {ran : List Nat} {kd : Kind} (h : ∃ k ∈ ran, kinds k = kd) :
    (ran.any fun k => kinds k == kd) = true := by
  obtain ⟨k, hk, hk'⟩ := h
  exact List.any_eq_true.mpr ⟨k, hk, by simp [hk']⟩

/-- The final outcome lies in the documented best-effort set computed from the iterations that really ran:
an exception raised by some iteration wins (and it is one of the raised ones); otherwise a returned value of an
iteration that ran, or a break; a normal exit only if no iteration that ran exits. -/
theorem exit_outcome_allowed (kinds : Nat → Kind) (parts : List (List Nat)) (acts : List (Nat × Bool))
    (st st' : St) (out : Outcome) (hnd : parts.flatten.Nodup)
    (hrun : runActs (srcCfg parts kinds) (initSt parts) acts = some st)
    (hfin : finish (srcCfg parts kinds) st = some (st', out)) :
    allowedOutcome kinds st'.ran out = true := by
  have invA := invA_run (c := srcCfg parts kinds) rfl (nodup_count_le hnd) acts (invA_init true true kinds parts) hrun
  have invB := invB_run acts (invB_init (srcCfg parts kinds) parts) hrun
  unfold finish at hfin
  split at hfin
  next hall =>
    have hiff := fin_slot_iff hall invA
    cases hs : st.slot with
    | some e0 =>
      simp only [srcCfg, hs, Option.isSome_some, Bool.and_self, if_true] at hfin
      simp only [show (4 : Nat) ≠ 3 by omega, if_false] at hfin
      cases hfin
      have he0 : e0 ∈ st.ran ∧ kinds e0 = .raise := by
        have : owners (srcCfg parts kinds).n st e0 = ind (e0 ∈ st.ran ∧ kinds e0 = .raise) := invA.own e0
        unfold owners at this
        rw [hs, ind_true rfl] at this
        exact ind_pos.mp (by omega)
      simp [allowedOutcome, he0.1, he0.2]
    | none =>
      have hno : ¬ ∃ k ∈ st.ran, kinds k = .raise := by
        intro hr; have := hiff.mp hr; rw [hs] at this; cases this
      have hw4 : st.why ≠ 4 := fun h4 => by
        have := fin_why4 hall invA invB h4; rw [hs] at this; cases this
      have hnr := any_kind_false hno
      simp only [srcCfg, hs, Option.isSome_none, Bool.and_false, Bool.false_eq_true, if_false, hw4] at hfin
      split at hfin
      next h3 =>
        cases hfin
        rcases invB.whyInv with h0 | ⟨h2, _⟩ | ⟨_, hr⟩ | ⟨h4, _⟩
        · omega
        · omega
        · obtain ⟨k, hk⟩ := Option.isSome_iff_exists.mp hr
          have : k ∈ st.ran ∧ kinds k = .ret := invB.retInv k hk
          show allowedOutcome kinds st.ran (.ret st.ret) = true
          rw [hk]; simp [allowedOutcome, hnr, this.1, this.2]
        · omega
      next h3 =>
        cases hfin
        show allowedOutcome kinds st.ran (.fall st.why) = true
        rcases invB.whyInv with h0 | ⟨h2, hb⟩ | ⟨h3', _⟩ | ⟨h4, _⟩
        · have hall' : st.ran.all (fun k => kinds k == .cont) = true := by
            rw [List.all_eq_true]
            intro k hk
            by_cases hc : kinds k = .cont
            · simp [hc]
            · rcases invB.exitPending ⟨k, hk, hc⟩ with h | h
              · omega
              · exact absurd h (fin_not_pending hall)
          simp [allowedOutcome, hnr, h0, hall']
        · have hb' : ∃ k ∈ st.ran, kinds k = .brk := hb
          have := any_kind_true hb'
          simp [allowedOutcome, hnr, h2, this]
        · exact absurd h3' h3
        · exact absurd h4 hw4
  next => cases hfin

theorem finish_ghost {c : Cfg} {st st' : St} {out : Outcome} (h : finish c st = some (st', out)) :
    allFinished c st = true ∧ st'.ran = st.ran ∧ st'.skipped = st.skipped := by
  unfold finish at h
  split at h
  next hall =>
    refine ⟨hall, ?_⟩
    dsimp only at h
    revert h
    generalize (if (c.preferErr && st.slot.isSome) = true then 4 else st.why) = w
    intro h
    by_cases h3 : w = 3
    · rw [if_pos h3] at h; cases h; exact ⟨rfl, rfl⟩
    · rw [if_neg h3] at h
      by_cases h4 : w = 4
      · rw [if_pos h4] at h; cases h; exact ⟨rfl, rfl⟩
      · rw [if_neg h4] at h; cases h; exact ⟨rfl, rfl⟩
  next => cases h

/-- Every iteration is either executed or skipped, exactly once; an iteration is skipped only if some iteration
that ran ended with break / return / raise. -/
theorem exit_partition_and_skip (kinds : Nat → Kind) (parts : List (List Nat)) (acts : List (Nat × Bool))
    (st st' : St) (out : Outcome) (hnd : parts.flatten.Nodup)
    (hrun : runActs (srcCfg parts kinds) (initSt parts) acts = some st)
    (hfin : finish (srcCfg parts kinds) st = some (st', out)) :
    (st'.ran ++ st'.skipped).Perm parts.flatten ∧
    (st'.skipped ≠ [] → ∃ k ∈ st'.ran, kinds k ≠ .cont) := by
  have invA := invA_run (c := srcCfg parts kinds) rfl (nodup_count_le hnd) acts (invA_init true true kinds parts) hrun
  have invB := invB_run acts (invB_init (srcCfg parts kinds) parts) hrun
  obtain ⟨hall, h1, h2⟩ := finish_ghost hfin
  rw [h1, h2]
  constructor
  · rw [List.perm_iff_count]
    intro x
    have := invA.part x
    rw [fin_pend_zero hall invA x] at this
    rw [List.count_append]; omega
  · intro hsk
    have hw := invB.skipWhy hsk
    rcases invB.whyInv with h0 | ⟨_, k, hk, hb⟩ | ⟨_, hr⟩ | ⟨_, k, hk, hb⟩
    · omega
    · exact ⟨k, hk, by rw [show kinds k = .brk from hb]; simp⟩
    · obtain ⟨k, hk⟩ := Option.isSome_iff_exists.mp hr
      have : k ∈ st.ran ∧ kinds k = .ret := invB.retInv k hk
      exact ⟨k, this.1, by rw [this.2]; simp⟩
    · exact ⟨k, hk, by rw [show kinds k = .raise from hb]; simp⟩

/-- Link to leg 1: a loop whose iterations all end normally executes every iteration exactly once on every
interleaving and falls through with `why = 0`. -/
theorem exit_no_exit_runs_everything (kinds : Nat → Kind) (parts : List (List Nat)) (acts : List (Nat × Bool))
    (st st' : St) (out : Outcome) (hnd : parts.flatten.Nodup) (hcont : ∀ k ∈ parts.flatten, kinds k = .cont)
    (hrun : runActs (srcCfg parts kinds) (initSt parts) acts = some st)
    (hfin : finish (srcCfg parts kinds) st = some (st', out)) :
    out = .fall 0 ∧ st'.ran.Perm parts.flatten := by
  obtain ⟨hperm, hskip⟩ := exit_partition_and_skip kinds parts acts st st' out hnd hrun hfin
  have hallow := exit_outcome_allowed kinds parts acts st st' out hnd hrun hfin
  have hran : ∀ k ∈ st'.ran, kinds k = .cont := fun k hk =>
    hcont k (hperm.subset (List.mem_append_left _ hk))
  have hsk : st'.skipped = [] := by
    cases hq : st'.skipped with
    | nil => rfl
    | cons a l =>
      obtain ⟨k, hk, hne⟩ := hskip (by rw [hq]; simp)
      exact absurd (hran k hk) hne
  rw [hsk, List.append_nil] at hperm
  refine ⟨?_, hperm⟩
  have hnb : (st'.ran.any fun k => kinds k == .brk) = false :=
    any_kind_false (fun ⟨k, hk, hb⟩ => by rw [hran k hk] at hb; cases hb)
  cases out with
  | raise e =>
    cases e with
    | none => simp [allowedOutcome] at hallow
    | some e =>
      simp only [allowedOutcome, Bool.and_eq_true, List.contains_iff_mem, beq_iff_eq] at hallow
      have := hran e hallow.1; rw [this] at hallow; cases hallow.2
  | ret v =>
    cases v with
    | none => simp [allowedOutcome] at hallow
    | some v =>
      simp only [allowedOutcome, Bool.and_eq_true, List.contains_iff_mem, beq_iff_eq] at hallow
      have := hran v hallow.1.2; rw [this] at hallow; cases hallow.2
  | fall w =>
    simp only [allowedOutcome, hnb, Bool.and_false, Bool.or_false, Bool.and_eq_true, beq_iff_eq] at hallow
    rw [hallow.2.1]

/-- No deadlock: as long as some thread has not left the region, some thread can take a step
(the protocol never waits; the only blocking points are the GIL and the closing barrier). -/
theorem exit_progress (c : Cfg) (st : St) (h : allFinished c st = false) : ∃ t, (step c st t false).isSome = true := by
  unfold allFinished at h
  rw [List.all_eq_false] at h
  obtain ⟨t, ht, hp⟩ := h
  have ht' : t < c.n := List.mem_range.mp ht
  refine ⟨t, ?_⟩
  unfold step
  rw [if_pos ht']
  cases hpc : st.pc t with
  | finished => simp [hpc] at hp
  | idle =>
    cases htd : st.todo t with
    | nil => by_cases h0 : t = 0 <;> simp [h0]
    | cons k rest => cases hk : c.kinds k <;> simp [hk]
  | setWhy v => simp
  | writeRet v => simp
  | fetch => by_cases hg : (c.guarded && st.slot.isSome) = true <;> simp [hg]

/-! ### Variants that the current source does NOT emit (what the guards are for) -/

def twoRaise : Nat → Kind := fun _ => .raise
def cfgUnguarded : Cfg := { n := 2, kinds := twoRaise, guarded := false, preferErr := true }

/-- Without the `if (!parallel_exc_type)` guard the second fetch overwrites the slot: exception 0 was raised,
is never released and is held nowhere (a leak). -/
theorem unguarded_fetch_leaks :
    ∃ acts st st' out, runActs cfgUnguarded (initSt [[0], [1]]) acts = some st ∧
      finish cfgUnguarded st = some (st', out) ∧
      0 ∈ st'.ran ∧ st'.released.count 0 = 0 ∧ st'.slot ≠ some 0 ∧ ∀ t < 2, st'.cur t ≠ some 0 :=
  ⟨[(0, false), (1, false), (0, false), (1, false), (0, false), (1, false), (0, false), (1, false)], _, _, _,
    rfl, rfl, by decide, by decide, by decide, by decide⟩

def raiseBrk : Nat → Kind := fun k => if k = 0 then .raise else .brk
def cfgNoPrefer : Cfg := { n := 2, kinds := raiseBrk, guarded := true, preferErr := false }

/-- Without `if (parallel_exc_type) why = 4` after the region a later `break` hides the exception:
the loop falls through and the saved exception stays in the slot for ever. -/
theorem unpreferred_error_is_lost :
    ∃ acts st st' out, runActs cfgNoPrefer (initSt [[0], [1]]) acts = some st ∧
      finish cfgNoPrefer st = some (st', out) ∧
      0 ∈ st'.ran ∧ out = .fall 2 ∧ st'.slot = some 0 ∧ st'.released.count 0 = 0 :=
  ⟨[(0, false), (0, false), (0, false), (1, false), (1, false), (0, false), (1, false)], _, _, _,
    rfl, rfl, by decide, rfl, rfl, by decide⟩

/-- Stronger reading "if some iteration that ran returned (and none raised) the function returns". -/
def ReturnWins : Prop :=
  ∀ (kinds : Nat → Kind) (parts : List (List Nat)) (acts : List (Nat × Bool)) (st st' : St) (out : Outcome),
    parts.flatten.Nodup → runActs (srcCfg parts kinds) (initSt parts) acts = some st →
    finish (srcCfg parts kinds) st = some (st', out) →
    (∃ k ∈ st'.ran, kinds k = .ret) → (¬ ∃ k ∈ st'.ran, kinds k = .raise) → ∃ v, out = .ret (some v)

def retBrk : Nat → Kind := fun k => if k = 0 then .ret else .brk

/-- It does not hold for the emitted protocol (and the documentation does not promise it): `parallel_why` is a
plain last-writer-wins variable, a `break` that comes after a `return` makes the function fall through. -/
theorem return_can_lose_to_break : ¬ ReturnWins := by
  intro h
  have := h retBrk [[0], [1]]
    [(0, false), (0, false), (0, false), (1, false), (1, false), (0, false), (1, false)] _ _ _
    (by decide) rfl rfl ⟨0, by decide, rfl⟩ (by decide)
  obtain ⟨v, hv⟩ := this
  cases hv

/-! ### Non-vacuity: the hypotheses of the theorems above are met by concrete non-trivial runs -/

def demoKinds : Nat → Kind := fun k => if k = 1 then .raise else if k = 2 then .raise else if k = 3 then .brk else .cont

example : ∃ st st' out,
    [[0, 2], [1, 3]].flatten.Nodup ∧
    runActs (srcCfg [[0, 2], [1, 3]] demoKinds) (initSt [[0, 2], [1, 3]])
      [(0, false), (1, false), (0, false), (1, false), (0, false), (1, false), (0, false), (1, true), (1, false), (0, false)]
      = some st ∧
    finish (srcCfg [[0, 2], [1, 3]] demoKinds) st = some (st', out) ∧ out = .raise (some 1) ∧
    st'.released = [2] ∧ st'.skipped = [3] :=
  ⟨_, _, _, by decide, rfl, rfl, rfl, rfl, rfl⟩

end CyVerif.C37

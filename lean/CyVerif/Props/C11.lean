import CyVerif.Model.C11
import CyVerif.Lemmas.C11Emit
import CyVerif.Lemmas.C11Array
/-!
# C11 — emitted C string literals denote exactly the original bytes

`tbl` is the specials table of `_build_specials_replacer` (re-extracted from the
source on every run and checked against `tableWF`), `p = ⟨limit, back, corner⟩` the
constants of `split_string_literal` (checked against `SplitParams.WF`).  A
byte string is a `List Nat` with all members `< 256`.  `cLex tri` is the C99
reading of a sequence of adjacent string literals, with (`tri = true`,
`-std=c99 -trigraphs`) or without (gcc's default gnu mode) trigraph
replacement.  All statements are for every table / parameters satisfying the
decidable well-formedness predicates and for every byte string of any length.
-/
namespace CyVerif.C11

/-- `noQQ` says what its name says: no two adjacent question marks. -/
theorem noQQ_spec (s : List Nat) :
    noQQ s = true ↔ ∀ i, ¬ (s[i]? = some 63 ∧ s[i + 1]? = some 63) := by
  induction s with
  | nil => simp [noQQ]
  | cons c rest ih =>
    constructor
    · intro h i hi
      cases i with
      | zero =>
        simp at hi
        obtain ⟨rfl, h1⟩ := hi
        cases rest with
        | nil => simp at h1
        | cons a r => simp at h1; subst h1; simp [noQQ] at h
      | succ i => exact (ih.1 (noQQ_tail h)) i (by simpa using hi)
    · intro h
      have hr : noQQ rest = true := ih.2 (fun i hi => h (i + 1) (by simpa using hi))
      by_cases hc : c = 63
      · subst hc
        rw [noQQ_63_cons _ (by
          intro hh
          exact h 0 (by
            cases rest with
            | nil => simp at hh
            | cons a r => simp at hh; subst hh; simp))]
        exact hr
      · rw [noQQ_cons_of_ne hc]; exact hr

/-- **Round trip (full strength).**  For every byte string the literal written by
`BytesLiteral.as_c_string_literal` (`'"' + split_string_literal(escape_byte_string(b)) + '"'`)
is produced (the splitting loop terminates) and a C compiler reads it back as exactly `b`,
with and without trigraph processing. -/
theorem emit_roundtrip (tbl : Table) (hT : tableWF tbl = true) (p : SplitParams) (hp : p.WF)
    (b : List Nat) (hb : ∀ x ∈ b, x < 256) (tri : Bool) :
    ∃ text, asCStringLiteral tbl p b = some text ∧ cLex tri text = some b := by
  obtain ⟨hi, hesc⟩ := esc_eq_render tbl b
  obtain ⟨⟨ts, hfl, hdec⟩, hqq, _⟩ := scan_structure tbl hT hi b.length b (Nat.le_refl _) hb
  obtain ⟨groups, hg, hsp⟩ := split_groups p hp ts (shapes_of_decodeToks hdec)
  subst hg
  rw [← hesc] at hfl hqq
  rw [hfl] at hsp
  rw [← hfl] at hqq
  refine ⟨34 :: joinChunks (groups.map List.flatten) ++ [34], by simp [asCStringLiteral, hsp], ?_⟩
  exact (lex_groups tri groups b hdec hqq).1

/-- **No trigraph.**  The emitted literal never contains two adjacent question marks, so it
contains no trigraph `??x`, and translation phase 1 leaves it unchanged. -/
theorem emit_no_trigraph (tbl : Table) (hT : tableWF tbl = true) (p : SplitParams) (hp : p.WF)
    (b : List Nat) (hb : ∀ x ∈ b, x < 256) :
    ∃ text, asCStringLiteral tbl p b = some text ∧ noQQ text = true ∧ trigraphs text = text := by
  obtain ⟨hi, hesc⟩ := esc_eq_render tbl b
  obtain ⟨⟨ts, hfl, hdec⟩, hqq, _⟩ := scan_structure tbl hT hi b.length b (Nat.le_refl _) hb
  obtain ⟨groups, hg, hsp⟩ := split_groups p hp ts (shapes_of_decodeToks hdec)
  subst hg
  rw [← hesc] at hfl hqq
  rw [hfl] at hsp
  rw [← hfl] at hqq
  have := (lex_groups true groups b hdec hqq).2
  exact ⟨34 :: joinChunks (groups.map List.flatten) ++ [34], by simp [asCStringLiteral, hsp], this, trigraphs_id _ this⟩

/-- **Any text of safe tokens may be split** (this also covers the other caller in Code.py, the
base-32 number table joined by `\000`): the split text reads back as the token values. -/
theorem split_tokens_roundtrip (p : SplitParams) (hp : p.WF) (ts : List (List Nat)) (vs : List Nat)
    (hdec : decodeToks ts = some vs) (hqq : noQQ ts.flatten = true) (tri : Bool) :
    ∃ out, split p ts.flatten = some out ∧ cLex tri (34 :: out ++ [34]) = some vs := by
  obtain ⟨groups, hg, hsp⟩ := split_groups p hp ts (shapes_of_decodeToks hdec)
  subst hg
  exact ⟨_, hsp, (lex_groups tri groups vs hdec hqq).1⟩

theorem decode_groups (groups : List (List (List Nat))) (vs : List Nat)
    (h : decodeToks groups.flatten = some vs) :
    ∃ ds : List (List Nat), groups.map decodeToks = ds.map some ∧ ds.flatten = vs := by
  induction groups generalizing vs with
  | nil => simp [decodeToks] at h; subst h; exact ⟨[], rfl, rfl⟩
  | cons g gs ih =>
    rw [List.flatten_cons] at h
    obtain ⟨v1, v2, h1, h2, rfl⟩ := decodeToks_append_inv h
    obtain ⟨ds, hd1, hd2⟩ := ih v2 h2
    exact ⟨v1 :: ds, by simp [h1, hd1], by simp [hd2]⟩

/-- **No chunk boundary inside an escape.**  The chunks built by `split_string_literal`
concatenate to the escaped text, every chunk *on its own* is a complete literal body
(so no chunk ends inside an escape sequence or in an odd run of backslashes — the closing
quote would be swallowed), and the values of the chunks concatenate to `b`. -/
theorem chunks_not_in_escape (tbl : Table) (hT : tableWF tbl = true) (p : SplitParams) (hp : p.WF)
    (b : List Nat) (hb : ∀ x ∈ b, x < 256) (tri : Bool) :
    ∃ (cs ds : List (List Nat)),
      chunks p ((esc tbl b).length + 1) (esc tbl b) = some cs ∧ cs.flatten = esc tbl b ∧
      cs.map (fun c => cLex tri (34 :: c ++ [34])) = ds.map some ∧ ds.flatten = b := by
  obtain ⟨hi, hesc⟩ := esc_eq_render tbl b
  obtain ⟨⟨ts, hfl, hdec⟩, hqq, _⟩ := scan_structure tbl hT hi b.length b (Nat.le_refl _) hb
  rw [← hesc] at hfl hqq
  obtain ⟨groups, hg, hc⟩ := chunks_groups p hp (ts.flatten.length + 1) ts (shapes_of_decodeToks hdec) (by omega)
  subst hg
  rw [hfl] at hc
  obtain ⟨ds, hd1, hd2⟩ := decode_groups groups b hdec
  refine ⟨groups.map List.flatten, ds, hc, by rw [← flatten_flatten', hfl], ?_, hd2⟩
  rw [← hfl, flatten_flatten'] at hqq
  have hq := noQQ_of_flatten hqq
  clear hc hfl hdec hd2 hesc hqq
  induction groups generalizing ds with
  | nil => cases ds with
    | nil => rfl
    | cons _ _ => simp at hd1
  | cons g gs ih =>
    cases ds with
    | nil => simp at hd1
    | cons d ds =>
      simp only [List.map_cons, List.cons.injEq] at hd1
      have h1 := (lex_groups tri [g] d (by simpa using hd1.1) (by simpa using hq g.flatten (by simp))).1
      simp only [List.map_cons, List.map_nil, joinChunks] at h1
      simp only [List.map_cons, h1]
      rw [ih ds hd1.2 (fun c hc => hq c (by simp only [List.map_cons, List.mem_cons]; exact Or.inr hc))]

/-- **MSVC array form.**  `_split_characters` cuts the escaped text into pieces each of which,
between single quotes, is a valid C character constant; their values are `b`. -/
theorem array_form (tbl : Table) (hT : tableWF tbl = true) (b : List Nat) (hb : ∀ x ∈ b, x < 256) (tri : Bool) :
    (splitCharacters (esc tbl b)).map (fun t => cCharLex tri (39 :: t ++ [39])) = b.map some := by
  obtain ⟨hi, hesc⟩ := esc_eq_render tbl b
  obtain ⟨⟨ts, hfl, hdec⟩, _, _⟩ := scan_structure tbl hT hi b.length b (Nat.le_refl _) hb
  rw [hesc, ← hfl, splitCharacters_toks ts b hdec]
  exact cchar_toks tri ts b hdec

/-- **`escape_char` round trip**: `'` + `escape_char(c)` + `'` is a character constant of value `c`. -/
theorem escape_char_roundtrip : ∀ c, c < 256 → ∀ tri : Bool,
    cCharLex tri (39 :: escapeChar c ++ [39]) = some c := by decide +kernel

/-- The constants of the pinned commit satisfy the hypotheses (the harness re-checks this for the
constants of the *current* source). -/
theorem pinned_wf : tableWF pinnedTable = true ∧ SplitParams.WF ⟨2000, 4, 4⟩ := by decide +kernel

/-- Instance for the pinned commit: `_c_special` as in the source, `limit = 2000`. -/
theorem emit_roundtrip_pinned (b : List Nat) (hb : ∀ x ∈ b, x < 256) (tri : Bool) :
    ∃ text, asCStringLiteral pinnedTable ⟨2000, 4, 4⟩ b = some text ∧ cLex tri text = some b :=
  emit_roundtrip pinnedTable pinned_wf.1 ⟨2000, 4, 4⟩ pinned_wf.2 b hb tri

/-- `WF` is needed: with `limit = 5` the all-backslash corner makes no progress (the Python loop
never ends). -/
theorem wf_needed : split ⟨5, 4, 4⟩ (List.replicate 6 92) = none := by decide +kernel

/-- `WF` is tight in the look-back: with a window of 2 the cut lands inside `\047`
(`"aaa\04""7"` reads as `aaa`, EOT, `7`). -/
theorem wf_back_needed :
    (asCStringLiteral pinnedTable ⟨6, 2, 4⟩ [97, 97, 97, 39]).bind (cLex true) = some [97, 97, 97, 4, 55] := by
  decide +kernel

/-- `WF` is tight in the parity of the corner constant: an odd corner cuts a `\\` pair
(the literal no longer lexes). -/
theorem wf_corner_parity_needed :
    (asCStringLiteral pinnedTable ⟨7, 4, 3⟩ [92, 92, 92, 92]).bind (cLex true) = none := by
  decide +kernel

/-! ### Non-vacuity: concrete, non-trivial values meet the hypotheses and exercise every branch -/

/-- trigraph-like input, quotes, backslash, newline, a high byte (octal pass), DEL. -/
example : asCStringLiteral pinnedTable ⟨2000, 4, 4⟩ [63, 63, 47, 92, 34, 39, 10, 200, 127, 65] =
    some [34, 92,48,55,55, 92,48,55,55, 47, 92,92, 92,34, 92,48,52,55, 92,110, 92,51,49,48, 92,49,55,55, 65, 34] := by
  decide +kernel

/-- ASCII-only input keeps a raw DEL (the octal pass does not run). -/
example : esc pinnedTable [127, 63] = [127, 63] := by decide +kernel

/-- A split at a small well-formed limit: the cut moves in front of the backslash run. -/
example : asCStringLiteral pinnedTable ⟨8, 4, 4⟩ [65, 66, 67, 92, 92, 92] =
    some [34, 65,66,67, 34,34, 92,92,92,92, 34,34, 92,92, 34] ∧
    cLex true [34, 65,66,67, 34,34, 92,92,92,92, 34,34, 92,92, 34] = some [65, 66, 67, 92, 92, 92] := by
  decide +kernel

/-- The reference lexer is not the identity: trigraphs, short octal, greedy hex, concatenation. -/
example : cLex true [34, 63,63,47, 110, 92,49, 56, 92,120,52,49, 34, 34, 66, 34] = some [10, 1, 56, 65, 66] ∧
    cLex false [34, 63,63,47, 110, 34] = some [63, 63, 47, 110] ∧
    cLex true [34, 92, 34] = none ∧ cLex true [34, 92,52,48,48, 34] = none := by decide +kernel

example : (∀ x ∈ [63, 63, 47, 92, 34, 39, 10, 200, 127, 65], x < 256) := by decide

end CyVerif.C11

import CyVerif.Lemmas.C30Main2
import CyVerif.Lemmas.C30Cmp
import CyVerif.Lemmas.C30Dev
/-!
C30 — cdef dataclasses behave like standard dataclasses: property theorems.

`py`  = CPython 3.12 `dataclasses._process_class` decision logic, `cy p v` = `Cython/Compiler/Dataclass.py`
with regenerated parameters `p` (hash decision tree, option and field defaults) and repair variant `v`.
-/
namespace CyVerif.C30

/-! ## 1. finite option space: hash action, option defaults -/

/-- the transcribed pinned source satisfies the obligations the harness re-checks on the current source -/
theorem pinned_params_wf : Params.pinned.WF := by decide

/-- FULL-STRENGTH statement for the hash decision: the class ends up with the same `__hash__`
(inherited / unhashable / user-defined / generated) and the same refusal, for every option
combination and every way the class body treats `__hash__`/`__eq__`. -/
def FullHashAgree (p : Params) : Prop :=
  ∀ (o : Opts) (u : UserDefs) (ns : List String),
    hashState (cyHashAct p o u) u ns =
      hashState (pyHashAction o.unsafeHash o.eq o.frozen (pyExplicitHash u)) u ns ∧
    (cyHashAct p o u == .raise) = (pyHashAction o.unsafeHash o.eq o.frozen (pyExplicitHash u) == .raise)

/-- every regenerated tree that reproduces CPython's 16-row table gives the same hash decision, except
where the class body writes `__hash__ = None` next to its own `__eq__` and a hash would be added or refused -/
theorem hash_agree_partial (p : Params) (hp : p.WF) (o : Opts) (u : UserDefs) (ns : List String)
    (h : hashDefOK o u = true) :
    hashState (cyHashAct p o u) u ns =
      hashState (pyHashAction o.unsafeHash o.eq o.frozen (pyExplicitHash u)) u ns ∧
    (cyHashAct p o u == .raise) = (pyHashAction o.unsafeHash o.eq o.frozen (pyExplicitHash u) == .raise) := by
  rw [cyHashAct_eq p hp.1]
  have := hashAct_agree o.unsafeHash o.eq o.frozen u.hash u.eq h ns u rfl rfl
  exact ⟨this.1, this.2.1⟩

/-- witness: `@dataclass(frozen=True)` with `__hash__ = None` and a user `__eq__`: CPython adds `__hash__`,
Cython leaves the class unhashable -/
theorem hash_full_fails : ¬ FullHashAgree Params.pinned := by
  intro h
  have := (h ⟨true, true, true, false, false, true, false, true⟩
    ⟨false, false, true, false, false, false, false, false, false, false, false, .setNone⟩ []).1
  revert this
  decide

example : hashDefOK ⟨true, true, true, false, true, false, false, true⟩
    ⟨false, false, false, false, false, false, false, false, false, false, false, .defined⟩ = true := by decide

/-! ## 2. the whole decision: generated methods, `__init__` parameters, selections, errors -/

/-- FULL-STRENGTH statement: for every class specification both implementations reject, or both accept
with identical decisions (resolved fields, `__init__` parameter order / kinds / defaults / per-call
factories / `__post_init__` arguments, repr / compare / hash field selections, generated ordering
methods, hash state, `__match_args__`, frozen). -/
def FullAgree (p : Params) (v : Var) : Prop :=
  ∀ s : ClassSpec, s.wf = true → sameOutcome (cy p v s) (py s)

/-- proved part, for EVERY repair variant `v` and every parameter set passing the regenerated obligations:
agreement on the specifications admitted by `Hyp v` (each clause of `Hyp` is one named deviation) -/
theorem agree_partial (p : Params) (hp : p.WF) (v : Var) (s : ClassSpec) (hs : s.wf = true)
    (h : Hyp v s = true) : sameOutcome (cy p v s) (py s) :=
  agree_main p hp v s hs h

/-- the list of named deviations (the keys under which the harness reports findings) is empty exactly on
the specifications admitted by `Hyp` -/
theorem deviations_empty_iff_hyp (v : Var) (s : ClassSpec) : deviations v s = [] ↔ Hyp v s = true :=
  deviations_nil_iff v s

/-- what remains excluded once all seven repairs are in: the `KW_ONLY` sentinel, re-annotated inherited
fields, InitVar with a factory / mutable default, a user `__init__` hiding a default-order error, and
`__hash__ = None` next to a user `__eq__` -/
def HypCore (s : ClassSpec) : Bool :=
  let o := s.opts.resolve pyOptD
  s.fields.all (fun f => f.kind != .kwSentinel) &&
  s.fields.all (fun f => f.kind == .classvar || !(names s.baseFields).contains f.name) &&
  s.fields.all (fun f => !(f.kind == .initvar && (f.dflt == .factory || f.dflt == .mutable))) &&
  !(o.init && s.user.init && badOrder false ((pyStd (pyFields s o)).map (·.hasDefault))) &&
  hashDefOK o s.user

theorem agree_repaired_partial (p : Params) (hp : p.WF) (s : ClassSpec) (hs : s.wf = true)
    (h : HypCore s = true) : sameOutcome (cy p Var.repaired s) (py s) := by
  apply agree_main p hp Var.repaired s hs
  simp only [HypCore, Bool.and_eq_true] at h
  obtain ⟨⟨⟨⟨h1, h2⟩, h3⟩, h4⟩, h5⟩ := h
  simp only [Hyp, Var.repaired, h1, h2, h3, h4, h5, Bool.true_or, Bool.and_self]

/-- no field list: the generated-method set and the errors agree for every option combination and every
set of user-defined methods admitted by `Hyp` -/
theorem methods_agree_partial (p : Params) (hp : p.WF) (v : Var) (o : OptsGiven) (u : UserDefs)
    (h : Hyp v ⟨o, u, none, []⟩ = true) :
    sameOutcome (cy p v ⟨o, u, none, []⟩) (py ⟨o, u, none, []⟩) :=
  agree_main p hp v _ rfl h

/-! ### counterexamples: each clause of `Hyp Var.pinned` is needed (witnesses replayed on the real code) -/

def og : OptsGiven := ⟨none, none, none, none, none, none, none, none⟩
def nu : UserDefs := ⟨false, false, false, false, false, false, false, false, false, false, false, .absent⟩
def fld (n : String) : FieldSpec := ⟨n, .plain, .none, none, none, none, none, none⟩
def rf (n : String) : RField := ⟨n, false, .none, true, true, true, none, false⟩
abbrev Differs (v : Var) (s : ClassSpec) : Prop := s.wf = true ∧ ¬ sameOutcome (cy Params.pinned v s) (py s)

/-- `y: object = field(default=…, kw_only=True)`: compile error, CPython accepts -/
def wFieldKw : ClassSpec := ⟨og, nu, none, [fld "x", { fld "y" with dflt := .value, kwOnly := some true }]⟩
/-- `@dataclass(kw_only=True) class D(B)`: Cython makes the inherited `p` keyword-only too -/
def wBaseKw : ClassSpec := ⟨{ og with kwOnly := some true }, nu, some ⟨[rf "p"], false⟩, [fld "y"]⟩
/-- `x: int; _: KW_ONLY; y: object = …`: Cython makes `_` a field -/
def wSentinel : ClassSpec := ⟨og, nu, none, [fld "x", ⟨"_", .kwSentinel, .none, none, none, none, none, none⟩, { fld "y" with dflt := .value }]⟩
/-- `order=True, eq=False`: CPython ValueError, Cython accepts -/
def wOrderNoEq : ClassSpec := ⟨{ og with order := some true, eq := some false }, nu, none, [fld "x"]⟩
/-- `order=True` with a user `__lt__`: CPython TypeError, Cython keeps the user method -/
def wOrderClash : ClassSpec := ⟨{ og with order := some true }, { nu with lt := true }, none, [fld "x"]⟩
/-- non-frozen class derived from a frozen dataclass: CPython TypeError -/
def wFrozenInherit : ClassSpec := ⟨og, nu, some ⟨[rf "p"], true⟩, [fld "y"]⟩
/-- `frozen=True` with a user `__setattr__`: CPython TypeError -/
def wFrozenSetattr : ClassSpec := ⟨{ og with frozen := some true }, { nu with setattr := true }, none, [fld "x"]⟩
/-- `y = field(default=…, init=False)`: `__match_args__` must not contain `y` -/
def wMatchInit : ClassSpec := ⟨og, nu, none, [fld "x", { fld "y" with dflt := .value, init := some false }]⟩
/-- a field of the base re-annotated with a new default: Cython compile error -/
def wRedeclare : ClassSpec := ⟨og, nu, some ⟨[rf "p"], false⟩, [{ fld "p" with dflt := .value }]⟩
/-- `x: int = 1; y: int` with a user `__init__`: CPython TypeError, Cython accepts -/
def wUserInit : ClassSpec := ⟨og, { nu with init := true }, none, [{ fld "x" with dflt := .value }, fld "y"]⟩
/-- `frozen=True`, `__hash__ = None`, user `__eq__`: CPython adds `__hash__` -/
def wHashNone : ClassSpec := ⟨{ og with frozen := some true }, { nu with eq := true, hash := .setNone }, none, [fld "x"]⟩
/-- `x: InitVar[int] = field(default_factory=…)`: CPython TypeError -/
def wInitVarFactory : ClassSpec := ⟨og, nu, none, [{ fld "x" with kind := .initvar, dflt := .factory }]⟩
/-- `unsafe_hash=True`, `y = field(compare=False)`: Cython hashes `y` (equal objects, different hashes) -/
def wHashCompare : ClassSpec := ⟨{ og with unsafeHash := some true }, nu, none, [fld "x", { fld "y" with compare := some false }]⟩

set_option maxRecDepth 8000 in
theorem cex_field_kw_only : Differs Var.pinned wFieldKw := by decide
set_option maxRecDepth 8000 in
theorem cex_base_kw_only : Differs Var.pinned wBaseKw := by decide
set_option maxRecDepth 8000 in
theorem cex_kw_sentinel : Differs Var.pinned wSentinel ∧ Differs Var.repaired wSentinel := by decide
set_option maxRecDepth 8000 in
theorem cex_order_without_eq : Differs Var.pinned wOrderNoEq := by decide
set_option maxRecDepth 8000 in
theorem cex_order_clash : Differs Var.pinned wOrderClash := by decide
set_option maxRecDepth 8000 in
theorem cex_frozen_inherit : Differs Var.pinned wFrozenInherit := by decide
set_option maxRecDepth 8000 in
theorem cex_frozen_setattr : Differs Var.pinned wFrozenSetattr := by decide
set_option maxRecDepth 8000 in
theorem cex_match_args_init_false : Differs Var.pinned wMatchInit := by decide
set_option maxRecDepth 8000 in
theorem cex_redeclare : Differs Var.pinned wRedeclare ∧ Differs Var.repaired wRedeclare := by decide
set_option maxRecDepth 8000 in
theorem cex_user_init_default_order : Differs Var.pinned wUserInit ∧ Differs Var.repaired wUserInit := by decide
set_option maxRecDepth 8000 in
theorem cex_hash_none_user_eq : Differs Var.pinned wHashNone ∧ Differs Var.repaired wHashNone := by decide
set_option maxRecDepth 8000 in
theorem cex_initvar_factory : Differs Var.pinned wInitVarFactory ∧ Differs Var.repaired wInitVarFactory := by decide
set_option maxRecDepth 8000 in
theorem cex_hash_compare_false : Differs Var.pinned wHashCompare := by decide

/-- the full-strength statement is false on the pinned tree, and stays false after the seven repairs -/
theorem full_agree_fails : ¬ FullAgree Params.pinned Var.pinned ∧ ¬ FullAgree Params.pinned Var.repaired :=
  ⟨fun h => cex_match_args_init_false.2 (h _ cex_match_args_init_false.1),
   fun h => cex_kw_sentinel.2.2 (h _ cex_kw_sentinel.2.1)⟩

set_option maxRecDepth 8000 in
/-- the seven repairs remove the seven repairable deviations -/
theorem repaired_witnesses_agree :
    sameOutcome (cy Params.pinned Var.repaired wFieldKw) (py wFieldKw) ∧
    sameOutcome (cy Params.pinned Var.repaired wBaseKw) (py wBaseKw) ∧
    sameOutcome (cy Params.pinned Var.repaired wOrderNoEq) (py wOrderNoEq) ∧
    sameOutcome (cy Params.pinned Var.repaired wOrderClash) (py wOrderClash) ∧
    sameOutcome (cy Params.pinned Var.repaired wFrozenInherit) (py wFrozenInherit) ∧
    sameOutcome (cy Params.pinned Var.repaired wFrozenSetattr) (py wFrozenSetattr) ∧
    sameOutcome (cy Params.pinned Var.repaired wMatchInit) (py wMatchInit) ∧
    sameOutcome (cy Params.pinned Var.repaired wHashCompare) (py wHashCompare) := by decide

/-- non-vacuity of `agree_partial`: a class with a base, a factory, `init=False`, `compare=False` with an
explicit `hash`, class-level `kw_only`, `order`, `frozen`, a user `__repr__` and `__post_init__` -/
def wOK : ClassSpec :=
  ⟨{ og with order := some true, frozen := some true, kwOnly := some true },
   { nu with repr := true, postInit := true },
   some ⟨[{ rf "p" with kwOnly := true }, { rf "q" with dflt := .value, kwOnly := true }], true⟩,
   [fld "x", { fld "y" with dflt := .factory }, { fld "z" with dflt := .value, init := some false },
    { fld "w" with compare := some false, hash := some (some false) },
    { fld "iv" with kind := .initvar, dflt := .value }, ⟨"cv", .classvar, .value, none, none, none, none, none⟩]⟩

set_option maxRecDepth 8000 in
example : wOK.wf = true ∧ Hyp Var.pinned wOK = true ∧ (∃ o, py wOK = .ok o) := by
  refine ⟨by decide, by decide, ?_⟩
  exact ⟨pyOut wOK, by decide⟩

set_option maxRecDepth 8000 in
example : wFieldKw.wf = true ∧ HypCore wFieldKw = true := by decide

/-! ## 3. structural statements, for field lists of ANY length -/

/-- CPython's parameter list is a stable partition: positional `__init__` fields in field order, then
the keyword-only ones in field order; `init=False` fields are left out -/
theorem py_params_partition (fs : List RField) :
    (pyStd fs ++ pyKw fs).map (·.name) =
      names (fs.filter fun f => f.init && !f.kwOnly) ++ names (fs.filter fun f => f.init && f.kwOnly) := by
  simp [pyStd, pyKw, names]

/-- no keyword-only field: the parameters are exactly the `init` fields in declaration order -/
theorem py_params_no_kw (fs : List RField) (h : ∀ f ∈ fs, f.kwOnly = false) :
    (pyStd fs ++ pyKw fs).map (·.toParam) = (fs.filter (·.init)).map (fun f => ⟨f.name, false, f.dflt⟩) :=
  params_uniform false fs h

/-- same `__init__` parameter order, kinds and defaults for every field list (pinned tree: provided all
fields follow the class-level `kw_only`; with the `fieldKwOnly` repair: unconditionally) -/
theorem init_params_agree (v : Var) (o : Opts) (fs : List RField)
    (h : v.fieldKwOnly = true ∨ ∀ f ∈ fs, f.kwOnly = o.kwOnly) :
    cyParams v o fs = (pyStd fs ++ pyKw fs).map (·.toParam) :=
  cyParams_eq v o fs h

/-- same "non-default argument follows default argument" verdict for every field list -/
theorem default_order_agree (v : Var) (o : Opts) (fs : List RField)
    (h : v.fieldKwOnly = true ∨ ∀ f ∈ fs, f.kwOnly = o.kwOnly) :
    cyBadOrder v o false fs = badOrder false ((pyStd fs).map (·.hasDefault)) :=
  cyBadOrder_py v o fs h

/-- same `__match_args__` for every field list (pinned tree: provided no positional field has `init=False`) -/
theorem match_args_agree (v : Var) (o : Opts) (fs : List RField)
    (h : v.fieldKwOnly = true ∨ ∀ f ∈ fs, f.kwOnly = o.kwOnly)
    (h7 : v.matchArgsInit = true ∨ ∀ f ∈ fs, f.init = true ∨ f.kwOnly = true) :
    cyMatchArgs v o fs = names (pyStd fs) :=
  cyMatchArgs_eq v o fs h h7

/-- same hashed fields for every field list (pinned tree: provided `hash=None` fields have `compare=True`) -/
theorem hash_fields_agree (v : Var) (fs : List RField)
    (h : v.hashCompare = true ∨ ∀ f ∈ fs, f.initvar = true ∨ f.hash.isSome = true ∨ f.compare = true) :
    cyHashNames v fs = hashNames fs :=
  cyHashNames_eq v fs h

/-- fields with new, pairwise distinct names are appended after the inherited ones, in order -/
theorem merge_is_append (s : ClassSpec) (o : Opts)
    (hn : nodupStr (s.fields.map (·.name)) = true)
    (h8 : ∀ f ∈ s.fields, f.kind = .classvar ∨ (names s.baseFields).contains f.name = false) :
    pyFields s o = s.baseFields ++ pyOwn pyFldD s.baseFields o.kwOnly s.fields :=
  pyFields_eq_append s o hn h8

example : ∃ fs : List RField, fs.length = 3 ∧ (∀ f ∈ fs, f.kwOnly = false) ∧
    (pyStd fs ++ pyKw fs).map (·.name) = ["a", "c"] :=
  ⟨[rf "a", { rf "b" with init := false }, rf "c"], rfl, by decide, by decide⟩

/-! ## 4. what the generated `__eq__` / ordering methods compute -/

open C30Cmp in
/-- FULL-STRENGTH statement: Cython's if-chain returns (or raises) what CPython's tuple comparison does,
for all field values -/
def FullCmpAgree : Prop :=
  ∀ (op : Op) (ps : List (Val × Val)), cyCmp valOps op ps = pyCmp valOps op ps

open C30Cmp in
/-- proved part, for any number of compared fields and ANY value type with its own operators:
agreement whenever every pair of field values is `Sane` (`!=` is the negation of `==`, identical
implies equal, equal values are not `<`/`>` each other and do not raise, unequal values have
`<=` = `<`) -/
theorem cmp_agree_partial {α} (O : Ops α) (op : Op) (ps : List (α × α))
    (h : ∀ p ∈ ps, Sane O p.1 p.2) : cyCmp O op ps = pyCmp O op ps :=
  cyCmp_eq_pyCmp O op ps h

open C30Cmp in
/-- witnesses: the same NaN object in both instances (`==` is True for CPython, False for Cython), and
`None` in both instances of an `order=True` class (`<=` is True for CPython, TypeError for Cython) -/
theorem cmp_full_fails : ¬ FullCmpAgree := by
  intro h
  have := h .eq [(.nan 1, .nan 1)]
  revert this
  decide

open C30Cmp in
theorem cmp_cex_none_order :
    cyCmp valOps .le [(.none, .none)] = .err "TypeError" ∧ pyCmp valOps .le [(.none, .none)] = .ok true := by
  decide

open C30Cmp in
/-- all integer pairs are sane (non-vacuity of `cmp_agree_partial`, any length) -/
theorem int_pairs_sane (a b : Int) : Sane valOps (.int a) (.int b) := by
  unfold Sane valOps
  simp only [vEq, vIdent, vOrd]
  refine ⟨trivial, fun h => h, fun h => ?_, fun h => ?_⟩
  · have : a = b := by simpa using h
    subst this
    simp
  · have : a ≠ b := by simpa using h
    constructor
    · congr 1
      simp only [decide_eq_decide]
      omega
    · congr 1
      simp only [decide_eq_decide]
      omega


/-! ## 5. the class-identity guard of the generated comparison methods -/

open C30Cmp in
/-- the guard of the pinned source passes exactly the same-class operands (re-checked on the current source) -/
theorem exact_guard_wf : GuardWF .exact := by decide

open C30Cmp in
/-- for EVERY class relation of the operands (same / subclass / superclass / unrelated, and whether or not
`other` is an instance of the defining class), any number of fields and any value type: the generated
method answers NotImplemented exactly when CPython's does, and otherwise compares like it (sane values) -/
theorem method_agree_partial {α} (g : Guard) (hg : GuardWF g) (O : Ops α) (op : Op) (rel : Rel)
    (inDef : Bool) (ps : List (α × α)) (h : ∀ p ∈ ps, Sane O p.1 p.2) :
    cyMethod g O op rel inDef ps = pyMethod O op rel ps :=
  cyMethod_eq_pyMethod g hg O op rel inDef ps h

open C30Cmp in
/-- all four relations, concretely: only `same` reaches the field comparison -/
theorem method_four_cases (op : Op) (inDef : Bool) (ps : List (Val × Val)) :
    cyMethod .exact valOps op .sub inDef ps = none ∧ cyMethod .exact valOps op .super inDef ps = none ∧
    cyMethod .exact valOps op .unrelated inDef ps = none ∧
    cyMethod .exact valOps op .same inDef ps = some (cyCmp valOps op ps) := by
  refine ⟨rfl, rfl, rfl, rfl⟩

open C30Cmp in
/-- an `isinstance(other, <defining class>)` guard is NOT enough: a subclass operand with equal base fields
compares equal (CPython: NotImplemented, so `P(1) == Q(1)` is False) -/
theorem isinstance_guard_fails :
    ¬ GuardWF .isinstance ∧
    cyMethod .isinstance valOps .eq .sub true [(.int 1, .int 1)] = some (.ok true) ∧
    pyMethod valOps .eq .sub [(.int 1, .int 1)] = none ∧
    cyMethod .isinstance valOps .lt .unrelated true [(.int 1, .int 2)] = some (.ok true) := by
  decide

end CyVerif.C30

import CyVerif.Lemmas.C33RoundMain
import CyVerif.Lemmas.C33Class
import CyVerif.Lemmas.C33Sorted
/-!
# C33 — Python ↔ C/C++ value conversions round-trip or raise (property theorems)

`fromPy m t` / `toPy m t` are the conversion combinators of `CppConvert.pyx`, `CConvert.pyx` and the ctuple /
string helpers of `TypeConversion.c` over the type grammar `Ty` (any nesting depth); `m` is the
`c_string_type`/`c_string_encoding` mode.  All statements are for every type, value and depth.
-/
namespace CyVerif.C33

/-! ## 1. C → Python → C is the identity -/

/-- Full-strength statement: every C value that `from_py` can produce converts to Python and back to itself.
FALSE for the code as it exists (`full_roundtrip_false`): a union with several members, a `set`/`map` whose
elements/keys become unhashable Python objects, a string that does not decode under `c_string_encoding`. -/
def FullRoundTrip : Prop :=
  ∀ (m : Mode) (t : Ty) (p0 : PyVal) (c : CVal), fromPy m t p0 = .ok c →
    ∃ p, toPy m t c = .ok p ∧ fromPy m t p = .ok c

/-- **Round trip** for every well-formed C value (`WF`: integers in range, `std::set`/`std::map` strictly sorted
with hashable key types, arrays/ctuples/structs of the declared shape, `char*` without NUL, strings decodable in
the mode, unions with a single member), at any nesting depth: `to_py` succeeds and `from_py` gives back exactly
the same C value. -/
theorem fromPy_toPy_partial (m : Mode) (t : Ty) (c : CVal) (h : WF m t c) :
    ∃ p, toPy m t c = .ok p ∧ fromPy m t p = .ok c :=
  fromPy_toPy_aux m t c h

/-- non-vacuity: a `map[string, vector[pair[int, double]]]` value and a struct with a nested struct and array -/
example : WF .bytes (.map .str (.vec (.pair (.int 32 true) .dbl)))
    (.map [(.str [97], .seq [.pair (.int (-5)) (.dbl 0)]), (.str [97, 0], .seq [])]) := by
  simp [WF, KeyTy, StrOk, inRange, CVal.lt, CVal.cmp, cmpBytes, cmpNat, Ordering.andThen]
example : WF .ascii (.struct ["inner", "arr"] [.struct ["a"] [.int 8 false], .carray (.int 16 true) 2])
    (.seq [.seq [.int 255], .seq [.int (-32768), .int 7]]) := by
  simp [WF, WFL, inRange, nameCps]

/-- the witness: `cdef union U: int i; double d` — `{'i': 5}` converts, `to_py` reads BOTH members, and the
resulting dict is rejected by `from_py` ("More than one union attribute passed") -/
theorem full_roundtrip_false : ¬ FullRoundTrip := by
  intro h
  obtain ⟨p, h1, h2⟩ := h .bytes (.union ["i", "d"] [.int 32 true, .dbl]) (.dict [(.str [105], .int 5)])
    (.umember 0 (.int 5)) (by rfl)
  have hp : toPy .bytes (.union ["i", "d"] [.int 32 true, .dbl]) (.umember 0 (.int 5)) =
      .ok (.dict [(.str [105], .int 5), (.str [100], .other)]) := by rfl
  rw [hp] at h1
  injection h1 with h1
  subst h1
  have : fromPy .bytes (.union ["i", "d"] [.int 32 true, .dbl])
      (.dict [(.str [105], .int 5), (.str [100], .other)]) = .error "ValueError" := by rfl
  rw [this] at h2
  cases h2

/-- `set[vector[int]]` converts from `[[1, 2]]` but its `to_py` raises TypeError (a list is unhashable) -/
theorem unhashable_no_roundtrip :
    fromPy .bytes (.set (.vec (.int 32 true))) (.list [.list [.int 1, .int 2]]) = .ok (.seq [.seq [.int 1, .int 2]]) ∧
    toPy .bytes (.set (.vec (.int 32 true))) (.seq [.seq [.int 1, .int 2]]) = .error "TypeError" := ⟨by rfl, by rfl⟩

/-- `c_string_type=str, c_string_encoding=ascii`: `b'\xff'` converts to `std::string`, `to_py` raises -/
theorem undecodable_no_roundtrip :
    fromPy .ascii .str (.bytes [255]) = .ok (.str [255]) ∧
    toPy .ascii .str (.str [255]) = .error "UnicodeDecodeError" := ⟨by rfl, by rfl⟩

/-! ## 2. errors: first failing position decides, every error has a cause, nothing is converted partially -/

/-- **First error wins, at any position and depth**: if, walking the input in conversion order, the first thing
that goes wrong is an error `e` raised at some node (a leaf conversion — C05's OverflowError/TypeError —, a
non-iterable, a wrong length, a missing key …), `from_py` of the whole value is exactly that error: no value,
in particular no partially converted one, is returned. -/
theorem first_error_wins (m : Mode) (t : Ty) (p : PyVal) (e : String) (h : FirstBad m t p e) :
    fromPy m t p = .error e :=
  firstBad_err m t p e h

/-- **Every error has a cause**: for every union-free type with one name per struct field, an error of
`from_py` is the error of some node of the input, everything before it having converted. -/
theorem error_has_cause (m : Mode) (t : Ty) (p : PyVal) (e : String) (ht : TyOK t = true)
    (h : fromPy m t p = .error e) : FirstBad m t p e :=
  complete m t p e ht h

theorem error_iff_firstBad (m : Mode) (t : Ty) (p : PyVal) (e : String) (ht : TyOK t = true) :
    fromPy m t p = .error e ↔ FirstBad m t p e :=
  ⟨complete m t p e ht, firstBad_err m t p e⟩

/-- a successful conversion means no position was bad -/
theorem ok_no_bad (m : Mode) (t : Ty) (p : PyVal) (c : CVal) (e : String) (h : fromPy m t p = .ok c) :
    ¬ FirstBad m t p e := by
  intro hb; rw [firstBad_err m t p e hb] at h; cases h

/-- non-vacuity: `vector[pair[int, string]]` ← `[(1, b'a'), (2**31, b'b')]`: the bad leaf is at depth 2,
position 1.0; the model evaluates to OverflowError -/
example : FirstBad .bytes (.vec (.pair (.int 32 true) .str))
    (.list [.tuple [.int 1, .bytes [97]], .tuple [.int (2 ^ 31), .bytes [98]]]) "OverflowError" :=
  .elem (t' := .pair (.int 32 true) .str) (pre := [.tuple [.int 1, .bytes [97]]])
    (x := .tuple [.int (2 ^ 31), .bytes [98]]) (post := []) (by rfl)
    (by intro a ha; simp at ha; subst ha; exact ⟨_, by rfl⟩)
    (.comp (ts := [.int 32 true, .str]) (xs := [.int (2 ^ 31), .bytes [98]]) (tpre := []) (ti := .int 32 true)
      (tpost := [.str]) (xpre := []) (xi := .int (2 ^ 31)) (xpost := [.bytes [98]]) (by rfl) rfl rfl rfl
      (by intro cs h; simp [fromPyL] at h) (.node (by rfl)))

/-! ## 3. exception classes -/

/-- Full-strength statement of the property's second sentence: only TypeError, ValueError (incl. its subclass
UnicodeEncodeError) or OverflowError.  FALSE: `error_classes_false_map`, `error_classes_false_carray`. -/
def FullErrorClasses : Prop :=
  ∀ (m : Mode) (t : Ty) (p : PyVal) (e : String), TyOK t = true → fromPy m t p = .error e → Documented e

/-- all classes `from_py` can raise: the documented ones, IndexError only below a C array, AttributeError only
below a `map`/`unordered_map` -/
theorem error_classes (m : Mode) (t : Ty) (p : PyVal) (e : String) (ht : TyOK t = true)
    (h : fromPy m t p = .error e) :
    Documented e ∨ (e = "IndexError" ∧ anySub isCarray t = true) ∨
      (e = "AttributeError" ∧ anySub isMap t = true) :=
  firstBad_class m t p e (complete m t p e ht h)

/-- the documented classes for every type without C arrays and without `map`/`unordered_map`, any depth -/
theorem error_classes_partial (m : Mode) (t : Ty) (p : PyVal) (e : String) (ht : TyOK t = true)
    (hc : anySub isCarray t = false) (hm : anySub isMap t = false) (h : fromPy m t p = .error e) :
    Documented e := by
  rcases error_classes m t p e ht h with h | ⟨_, h2⟩ | ⟨_, h2⟩
  · exact h
  · rw [hc] at h2; cases h2
  · rw [hm] at h2; cases h2

example : TyOK (.vec (.pair (.int 32 true) (.set .str))) = true ∧
    anySub isCarray (.vec (.pair (.int 32 true) (.set .str))) = false ∧
    anySub isMap (.vec (.pair (.int 32 true) (.set .str))) = false := by
  simp [TyOK, anySub, isCarray, isMap]

/-- `cdef map[int, int] c = [(1, 2)]` raises AttributeError (`o.items()` on a list) -/
theorem error_classes_false_map : ¬ FullErrorClasses := by
  intro h
  have := h .bytes (.map (.int 32 true) (.int 32 true)) (.list []) "AttributeError" (by rfl) (by rfl)
  simp [Documented] at this

/-- `cdef int[3] c = [1, 2]` raises IndexError -/
theorem error_classes_false_carray :
    fromPy .bytes (.carray (.int 32 true) 3) (.list [.int 1, .int 2]) = .error "IndexError" ∧
    ¬ Documented "IndexError" := ⟨by rfl, by simp [Documented]⟩

/-! ## 4. documented normalisations (what `to_py ∘ from_py` changes) -/

/-- `std::map::insert` keeps the FIRST of two Python keys that convert to the same C key -/
theorem map_first_key_wins :
    roundTrip .utf8 (.map .str (.int 32 true)) (.dict [(.bytes [97], .int 1), (.str [97], .int 2)]) =
      .ok (.dict [(.str [97], .int 1)]) := by rfl

/-- a `char*` ends at its first NUL, a `std::string` does not -/
theorem cstr_truncates :
    roundTrip .bytes .cstr (.bytes [97, 0, 98]) = .ok (.bytes [97]) ∧
    roundTrip .bytes .str (.bytes [97, 0, 98]) = .ok (.bytes [97, 0, 98]) := ⟨by rfl, by rfl⟩

/-- any iterable is accepted for a vector (here the KEYS of a dict), a struct ignores extra keys -/
theorem container_kinds :
    roundTrip .bytes (.vec (.int 32 true)) (.dict [(.int 1, .str [120])]) = .ok (.list [.int 1]) ∧
    roundTrip .bytes (.struct ["a"] [.int 32 true]) (.dict [(.str [122], .none), (.str [97], .int 1)]) =
      .ok (.dict [(.str [97], .int 1)]) := ⟨by rfl, by rfl⟩

end CyVerif.C33

/-! ## 5. the variant with `map.from_py` repaired (`fromPyV true`): same values, AttributeError becomes TypeError -/
namespace CyVerif.C33

theorem fromPyV_false (m : Mode) (t : Ty) (p : PyVal) : fromPyV false m t p = fromPy m t p := by
  unfold fromPyV; cases fromPy m t p <;> simp [fixErr]

/-- both variants convert exactly the same inputs to exactly the same values (so the round-trip theorems hold
verbatim for the repaired code) -/
theorem fromPyV_ok_iff (fixed : Bool) (m : Mode) (t : Ty) (p : PyVal) (c : CVal) :
    fromPyV fixed m t p = .ok c ↔ fromPy m t p = .ok c := by
  unfold fromPyV; cases fromPy m t p <;> simp

theorem roundtrip_fixed (fixed : Bool) (m : Mode) (t : Ty) (c : CVal) (h : WF m t c) :
    ∃ p, toPy m t c = .ok p ∧ fromPyV fixed m t p = .ok c := by
  obtain ⟨p, h1, h2⟩ := fromPy_toPy_partial m t c h
  exact ⟨p, h1, (fromPyV_ok_iff fixed m t p c).mpr h2⟩

/-- after the repair the second sentence of the property holds for every array-free type (any depth,
maps included): only TypeError, ValueError (incl. UnicodeEncodeError) or OverflowError -/
theorem error_classes_fixed (m : Mode) (t : Ty) (p : PyVal) (e : String) (ht : TyOK t = true)
    (h : fromPyV true m t p = .error e) :
    Documented e ∨ (e = "IndexError" ∧ anySub isCarray t = true) := by
  unfold fromPyV at h
  cases hf : fromPy m t p with
  | ok c => rw [hf] at h; cases h
  | error e' =>
    rw [hf] at h; injection h with h
    rcases error_classes m t p e' ht hf with hd | ⟨h1, h2⟩ | ⟨h1, _⟩
    · left
      have hne : e' ≠ "AttributeError" := by
        rcases hd with h | h | h | h <;> rw [h] <;> decide
      have : fixErr true e' = e' := by simp [fixErr, hne]
      rw [← h, this]; exact hd
    · right
      have : fixErr true e' = e' := by subst h1; simp [fixErr]
      rw [← h, this]; exact ⟨h1, h2⟩
    · left; subst h1; subst h; simp [fixErr, Documented]

example : fromPyV true .bytes (.map (.int 32 true) (.int 32 true)) (.list []) = .error "TypeError" := by rfl

end CyVerif.C33

/-! ## 6. `from_py` produces genuine `std::set` / `std::map` states (int, bool or string keys)

`fromPy_set_sorted`, `fromPy_map_sorted` (in `Lemmas/C33Sorted.lean`): the C value built by `set.from_py` /
`map.from_py` is strictly sorted by the C++ `operator<`, duplicate-free and contains exactly the converted
elements / keys — so input order and duplicates are normalised away, which is the documented normalisation
of `to_py ∘ from_py` for sets and dicts.  Instances: -/
namespace CyVerif.C33

theorem set_normalises (m : Mode) (w : Nat) (sg : Bool) (p : PyVal) (c : CVal)
    (h : fromPy m (.set (.int w sg)) p = .ok c) :
    ∃ xs cs0 s, iterate p = .ok xs ∧ mapR (fromPy m (.int w sg)) xs = .ok cs0 ∧ c = .seq s ∧ SortedL s ∧
      (∀ y, y ∈ s ↔ y ∈ cs0) :=
  fromPy_set_sorted m (.int w sg) p c rfl h

example : fromPy .bytes (.set (.int 32 true)) (.list [.int 3, .int 1, .int 3, .int 2]) =
    .ok (.seq [.int 1, .int 2, .int 3]) := by rfl

end CyVerif.C33

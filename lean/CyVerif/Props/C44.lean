import CyVerif.Model.C44
import CyVerif.Lemmas.C44
/-!
# C44 — the position table decodes to exactly the recorded positions

`buildLineTable` models `Cython/Compiler/LineTable.py:build_line_table`,
`decode` models CPython 3.12 `code.co_positions()`, `scanLines` models the
line-only scanner behind `co_lines()` / `PyCode_Addr2Line`.

`Dom first ps` is the documented input: `0 ≤ first`, start lines sorted and
`≥ first`, `start ≤ end` line, columns `≥ 0`, lines `≤ INT_MAX`, columns
`< INT_MAX`.  The thresholds 80/16/3/128/128 are parameters (`Params.WF`).

The pinned source carries the END line of an entry to the next entry
(`return end_lineno`), CPython adds line deltas to the START line, so the
full statement is false for the pinned source as soon as an entry that
spans several lines is followed by another entry.  It is proved for the
repaired encoder (`retStart = true`), and for the pinned one under the
extra hypothesis that only the last entry may span lines.
-/
namespace CyVerif.C44

/-- The table is built (no exception), consists of bytes, `co_positions()`
yields exactly the recorded positions — each once, in order, and the decoder
stops exactly at the end of the table — and the line scanner reports the
start line of every entry, one code unit each. -/
def RoundTrip (P : Params) (first : Int) (ps : List Pos) : Prop :=
  ∃ bs, buildLineTable P ps first = .ok bs ∧ (∀ b ∈ bs, b < 256) ∧
    decode bs first = some (ps.map Pos.toLoc) ∧
    scanLines bs first = some (ps.map fun p => (p.sl, 1))

/-- Full-strength statement: every first line, every position list of the documented domain. -/
def FullStatement (P : Params) : Prop :=
  ∀ (first : Int) (ps : List Pos), Dom first ps → RoundTrip P first ps

theorem roundTrip_of_good (P : Params) (hP : P.WF) (first : Int) (ps : List Pos)
    (h0 : 0 ≤ first) (hg : Good P first ps) : RoundTrip P first ps := by
  obtain ⟨bs, t⟩ := table_ok P hP ps first h0 hg
  exact ⟨bs, t.enc, t.bytes, t.dec _ (Nat.lt_succ_self _), t.scan _ (Nat.lt_succ_self _)⟩

/-- Full strength for the repaired encoder (long form ends with `return start_lineno`),
for every threshold setting satisfying `WF`. -/
theorem decode_encode_fixed (P : Params) (hP : P.WF) (hr : P.retStart = true) : FullStatement P := by
  intro first ps hd
  exact roundTrip_of_good P hP first ps hd.1 (good_of_dom_fixed P hr ps first hd.2)

/-- Whatever line the encoder carries (in particular for the pinned source):
the round trip holds on the documented domain when no entry other than the
last one spans several lines. -/
theorem decode_encode_partial (P : Params) (hP : P.WF) (first : Int) (ps : List Pos)
    (hd : Dom first ps) (hs : innerSingleLine ps = true) : RoundTrip P first ps :=
  roundTrip_of_good P hP first ps hd.1 (good_of_dom_single P ps first hd.2 hs)

/-- The constants of the pinned source satisfy `WF`. -/
theorem pinned_wf : Params.pinned.WF := by decide

/-- Witness: a three-line entry followed by an entry on line 4. -/
def witness : List Pos := [⟨1, 3, 0, 5⟩, ⟨4, 4, 0, 1⟩]

theorem witness_in_dom : Dom 1 witness := by decide

theorem witness_table : buildLineTable Params.pinned witness 1 = .ok [240, 0, 2, 1, 6, 216, 0, 1] := by
  simp [buildLineTable, witness, encodeFrom, encodeOne, carry, encodeVarint, Params.pinned]

/-- CPython reads the second entry as line 2, not 4. -/
theorem witness_decoded :
    decode [240, 0, 2, 1, 6, 216, 0, 1] 1 = some [⟨1, 3, 0, 5⟩, ⟨2, 2, 0, 1⟩] := by
  decide +kernel

/-- The full statement is false for the pinned encoder. -/
theorem full_statement_false_pinned : ¬ FullStatement Params.pinned := by
  intro h
  obtain ⟨bs, h1, -, h2, -⟩ := h 1 witness witness_in_dom
  rw [witness_table] at h1
  cases h1
  rw [witness_decoded] at h2
  revert h2
  decide

/-- A start-sorted list whose second entry starts inside the first span is rejected by the pinned encoder. -/
theorem overlap_rejected_pinned :
    Dom 1 [⟨1, 5, 0, 5⟩, ⟨2, 2, 0, 1⟩] ∧
    buildLineTable Params.pinned [⟨1, 5, 0, 5⟩, ⟨2, 2, 0, 1⟩] 1 = .err "AssertionError" := by
  refine ⟨by decide, ?_⟩
  simp [buildLineTable, encodeFrom, encodeOne, carry, encodeVarint, Params.pinned]

/-- In the domain nothing is shown as `None`: every decoded field is `≥ 0`. -/
theorem dom_visible (first : Int) (ps : List Pos) (hd : Dom first ps) :
    ∀ p ∈ ps, toPy p.sl = some p.sl ∧ toPy p.el = some p.el ∧ toPy p.sc = some p.sc ∧ toPy p.ec = some p.ec := by
  obtain ⟨h0, hd⟩ := hd
  induction ps generalizing first with
  | nil => intro p hp; cases hp
  | cons q qs ih =>
    simp only [domFrom, Bool.and_eq_true, decide_eq_true_eq] at hd
    obtain ⟨⟨a1, a2, a3, a4, a5, a6, a7⟩, hd'⟩ := hd
    intro p hp
    rcases List.mem_cons.1 hp with rfl | hp
    · have b1 : ¬ p.sl = -1 := by omega
      have b2 : ¬ p.el = -1 := by omega
      have b3 : ¬ p.sc = -1 := by omega
      have b4 : ¬ p.ec = -1 := by omega
      simp [toPy, b1, b2, b3, b4]
    · exact ih q.sl (by omega) hd' p hp

/-! ### the guards of `Dom` are needed (inputs outside the documented domain) -/

/-- Column `-1` in a long-form entry is written as varint 0, which CPython shows as `None`. -/
theorem negative_column_long :
    buildLineTable Params.pinned [⟨1, 2, -1, 0⟩] 1 = .ok [240, 0, 1, 0, 1] ∧
    decode [240, 0, 1, 0, 1] 1 = some [⟨1, 2, -1, 0⟩] ∧ toPy (-1) = none := by
  refine ⟨?_, by decide +kernel, by decide⟩
  simp [buildLineTable, encodeFrom, encodeOne, carry, encodeVarint, Params.pinned]

set_option linter.unusedSimpArgs false in
/-- A negative start column in the short / one-line forms raises `OverflowError`;
`end < start` line or a column below `-1` raises `AssertionError`. -/
theorem outside_domain_rejected :
    buildLineTable Params.pinned [⟨1, 1, -1, 0⟩] 1 = .err "OverflowError" ∧
    buildLineTable Params.pinned [⟨5, 5, 100, -1⟩] 5 = .err "OverflowError" ∧
    buildLineTable Params.pinned [⟨5, 3, 3, 2⟩] 5 = .err "AssertionError" ∧
    buildLineTable Params.pinned [⟨5, 6, -2, 2⟩] 5 = .err "AssertionError" ∧
    buildLineTable Params.pinned [⟨4, 4, 0, 1⟩] 5 = .err "AssertionError" := by
  refine ⟨?_, ?_, ?_, ?_, ?_⟩ <;>
    simp [buildLineTable, encodeFrom, encodeOne, carry, encodeVarint, Params.pinned]

/-- Lines beyond `INT_MAX` are encoded by the (unbounded) pure-Python encoder into a 7-chunk varint
that is outside the defined behaviour of CPython's 32-bit reader. -/
theorem beyond_int_range :
    buildLineTable Params.pinned [⟨2147483653, 2147483653, 1, 2⟩] 1 =
      .ok [240, 72, 64, 64, 64, 64, 4, 0, 2, 3] ∧
    decode [240, 72, 64, 64, 64, 64, 4, 0, 2, 3] 1 = none := by
  refine ⟨?_, by decide +kernel⟩
  simp [buildLineTable, encodeFrom, encodeOne, carry, encodeVarint, Params.pinned]

/-! ### what the compiler records (`_build_positions`) lies in the domain -/

/-- The node positions of one function, as `sorted(..., reverse=True)` hands them to the loop of
`_build_positions`: lines descending, every line `≥ first` (the encoder's own `assert`; a hypothesis
here, checked on generated modules) and `≤ INT_MAX`, columns `0 ≤ c < INT_MAX - 1`. -/
def NodesOK (first : Int) (desc : List (Int × Int)) : Prop :=
  desc.Pairwise (fun a b => b.1 ≤ a.1) ∧
  ∀ x ∈ desc, first ≤ x.1 ∧ x.1 < 2147483648 ∧ 0 ≤ x.2 ∧ x.2 < 2147483646

/-- Whatever node positions the transform collected, the ranges it records are a documented input
of the encoder consisting of single-line spans only … -/
theorem compiler_positions_in_dom (first : Int) (desc : List (Int × Int)) (h0 : 0 ≤ first)
    (h : NodesOK first desc) :
    Dom first (buildPositions desc) ∧ innerSingleLine (buildPositions desc) = true := by
  obtain ⟨hs, hb⟩ := h
  have hok := rangesDesc_ok first desc (-1) 0 (by omega) (by omega) hb
  refine ⟨⟨h0, domFrom_of_pairwise _ _ ?_ ?_⟩, innerSingleLine_of_all _ ?_⟩
  · unfold buildPositions
    rw [List.pairwise_reverse]
    have : (List.map (·.sl) (rangesDesc (-1) 0 desc)).Pairwise (fun a b => b ≤ a) := by
      rw [rangesDesc_lines, List.pairwise_map]; exact hs
    rw [List.pairwise_map] at this
    exact this
  · intro p hp
    have := hok p (by simpa [buildPositions] using hp)
    exact ⟨this.2.1, this.2.2⟩
  · intro p hp
    exact (hok p (by simpa [buildPositions] using hp)).1

/-- … hence the table the (pinned or repaired) encoder builds for them decodes to exactly these ranges. -/
theorem compiler_positions_roundtrip (P : Params) (hP : P.WF) (first : Int) (desc : List (Int × Int))
    (h0 : 0 ≤ first) (h : NodesOK first desc) : RoundTrip P first (buildPositions desc) := by
  obtain ⟨hd, hs⟩ := compiler_positions_in_dom first desc h0 h
  exact decode_encode_partial P hP first _ hd hs

/-- Non-vacuity: two nodes on line 3, one on line 2, first line 2. -/
example : NodesOK 2 [(3, 8), (3, 4), (2, 0)] ∧
    buildPositions [(3, 8), (3, 4), (2, 0)] = [⟨2, 2, 0, 1⟩, ⟨3, 3, 4, 8⟩, ⟨3, 3, 8, 9⟩] := by
  refine ⟨⟨by decide, by decide⟩, by decide⟩

/-! ### non-vacuity -/

/-- A non-trivial list in the domain using all three forms, and (for the
repaired encoder) an inner multi-line span; the hypotheses of both theorems
are satisfiable. -/
example : Dom 10 [⟨10, 10, 4, 9⟩, ⟨10, 10, 90, 100⟩, ⟨12, 12, 0, 200⟩, ⟨300, 300, 5, 6⟩, ⟨301, 305, 2, 1⟩] ∧
    innerSingleLine [⟨10, 10, 4, 9⟩, ⟨10, 10, 90, 100⟩, ⟨12, 12, 0, 200⟩, ⟨300, 300, 5, 6⟩, ⟨301, 305, 2, 1⟩] = true := by
  decide

example : Dom 1 witness ∧ (⟨80, 16, 3, 128, 128, true⟩ : Params).WF ∧
    (⟨80, 16, 3, 128, 128, true⟩ : Params).retStart = true := by decide

/-- The repaired encoder on the witness: second entry is relative to the start line and decodes to line 4. -/
example :
    buildLineTable ⟨80, 16, 3, 128, 128, true⟩ witness 1 = .ok [240, 0, 2, 1, 6, 240, 6, 0, 1, 2] ∧
    decode [240, 0, 2, 1, 6, 240, 6, 0, 1, 2] 1 = some (witness.map Pos.toLoc) := by
  refine ⟨?_, by decide +kernel⟩
  simp [buildLineTable, witness, encodeFrom, encodeOne, carry, encodeVarint]

end CyVerif.C44

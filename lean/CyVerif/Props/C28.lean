import CyVerif.Lemmas.C28BinopChkUnrel
import CyVerif.Lemmas.C28BinopChkSame
import CyVerif.Lemmas.C28BinopChkSub
import CyVerif.Lemmas.C28CmpChkC
import CyVerif.Lemmas.C28CmpChkP
import CyVerif.Lemmas.C28CmpProofs
/-!
# C28 — extension-type operators dispatch like Python classes

`runOp v w cfg mode l r` is the decision tree (user-method calls in order, branching on each body's
answer, ending in the result / TypeError) of `l op r`, `l op= r` or `pow(l, r, m)` for instances of the
classes `l`, `r` of the world `w`; `pyWorld w` are the equivalent Python classes.  `doRich` is the same
for the six comparisons.  `v = ⟨true⟩` is the pinned `BinopSlot` template, `⟨false⟩` the repaired one.
Tree equality = same calls, same order, same result for EVERY behaviour of the method bodies.
-/
namespace CyVerif.C28

/-! ## The full-strength statement -/

/-- Every two-class configuration: the two classes are unrelated roots, or the second is a subclass
(cdef or Python) of the first; any method subsets; any operand pair; every operator form. -/
def FullBinop (v : Variant) : Prop :=
  ∀ (cfg : OpCfg) (md : Mode) (k1 k2 : Kind) (sub : Bool) (s1 s2 : Sub3) (l r : Nat),
    k1 = .cdef → k2 ≠ .int ∨ sub = false → l < 2 → r < 2 →
    let w := [mkCls k1 none s1, mkCls k2 (if sub then some 0 else none) s2]
    runOp v w cfg md l r = runOp v (pyWorld w) cfg md l r

theorem both_eq {v : Variant} {w : World} {cfg : OpCfg} {l r : Nat} (h : both v w cfg l r = true) :
    runOp v w cfg .bin l r = runOp v (pyWorld w) cfg .bin l r
    ∧ runOp v w cfg .inp l r = runOp v (pyWorld w) cfg .inp l r := by
  simp only [both, Bool.and_eq_true] at h
  exact ⟨agree_eq h.1, agree_eq h.2⟩

/-! ## Relations on which the generated slot function conforms -/

/-- Operands of unrelated types (cdef/cdef, cdef/Python object, cdef/int, either order): for every
subset of `{__op__, __rop__, __iop__}` in both classes, every operator kind and both templates,
`l op r` and `l op= r` dispatch exactly like the Python classes. -/
theorem binop_unrelated (v : Variant) (cfg : OpCfg) (k1 k2 : Kind) (hk : (k1, k2) ∈ kindPairs) (s1 s2 : Sub3) :
    runOp v (wPair k1 k2 s1 s2) cfg .bin 0 1 = runOp v (pyWorld (wPair k1 k2 s1 s2)) cfg .bin 0 1
    ∧ runOp v (wPair k1 k2 s1 s2) cfg .inp 0 1 = runOp v (pyWorld (wPair k1 k2 s1 s2)) cfg .inp 0 1 := by
  have h := unrelChk_all v cfg
  simp only [unrelChk, List.all_eq_true] at h
  exact both_eq (h (k1, k2) hk s1 (mem_allSub3 s1) s2 (mem_allSub3 s2))

example : ((Kind.cdef, Kind.int) : Kind × Kind) ∈ kindPairs := by decide

/-- Same type, REPAIRED template: both operands instances of the most derived class of any cdef
hierarchy of depth ≤ 3, every method subset at every level: full conformance. -/
theorem binop_same_type_fixed (cfg : OpCfg) (a b c : Sub3) :
    (runOp ⟨false⟩ (w1 a) cfg .bin 0 0 = runOp ⟨false⟩ (pyWorld (w1 a)) cfg .bin 0 0
      ∧ runOp ⟨false⟩ (w1 a) cfg .inp 0 0 = runOp ⟨false⟩ (pyWorld (w1 a)) cfg .inp 0 0)
    ∧ (runOp ⟨false⟩ (w2 .cdef a b) cfg .bin 1 1 = runOp ⟨false⟩ (pyWorld (w2 .cdef a b)) cfg .bin 1 1
      ∧ runOp ⟨false⟩ (w2 .cdef a b) cfg .inp 1 1 = runOp ⟨false⟩ (pyWorld (w2 .cdef a b)) cfg .inp 1 1)
    ∧ (runOp ⟨false⟩ (w3 a b c) cfg .bin 2 2 = runOp ⟨false⟩ (pyWorld (w3 a b c)) cfg .bin 2 2
      ∧ runOp ⟨false⟩ (w3 a b c) cfg .inp 2 2 = runOp ⟨false⟩ (pyWorld (w3 a b c)) cfg .inp 2 2) := by
  have h := sameFixChk_all
  simp only [List.all_eq_true, sameFixChk, Bool.and_eq_true] at h
  have h12 := h cfg (mem_allOpCfg cfg)
  have h3 : sameFixChk3 cfg a = true := by
    obtain ⟨x, y⟩ := cfg
    cases x <;> cases y
    · exact (List.all_eq_true.mp sameFixChk3_c) a (mem_allSub3 a)
    · exact (List.all_eq_true.mp sameFixChk3_d) a (mem_allSub3 a)
    · exact (List.all_eq_true.mp sameFixChk3_b) a (mem_allSub3 a)
    · exact (List.all_eq_true.mp sameFixChk3_a) a (mem_allSub3 a)
  simp only [sameFixChk3, List.all_eq_true] at h3
  exact ⟨both_eq (h12.1 a (mem_allSub3 a)), both_eq (h12.2 a (mem_allSub3 a) b (mem_allSub3 b)),
    both_eq (h3 b (mem_allSub3 b) c (mem_allSub3 c))⟩

/-- Same type, instances of a Python subclass of a cdef class, repaired template (`+=` excluded). -/
theorem binop_same_type_pysub_fixed (cfg : OpCfg) (a b : Sub3) :
    runOp ⟨false⟩ (w2 .py a b) cfg .bin 1 1 = runOp ⟨false⟩ (pyWorld (w2 .py a b)) cfg .bin 1 1
    ∧ (cfg.isAdd = false →
        runOp ⟨false⟩ (w2 .py a b) cfg .inp 1 1 = runOp ⟨false⟩ (pyWorld (w2 .py a b)) cfg .inp 1 1) := by
  have h := samePyFixChk_all
  simp only [List.all_eq_true, samePyFixChk, Bool.and_eq_true, Bool.or_eq_true] at h
  have h2 := h cfg (mem_allOpCfg cfg) a (mem_allSub3 a) b (mem_allSub3 b)
  refine ⟨agree_eq h2.1, fun hadd => ?_⟩
  rcases h2.2 with h3 | h3
  · rw [hadd] at h3; exact absurd h3 (by decide)
  · exact agree_eq h3

/-- Same type, PINNED template: conforms only if no `__rop__` is visible and at most one class of the
hierarchy defines `__op__` (depth ≤ 2). -/
theorem binop_same_type_cur_partial (cfg : OpCfg) (a b : Sub3) (ha : a.rop = false) :
    (runOp ⟨true⟩ (w1 a) cfg .bin 0 0 = runOp ⟨true⟩ (pyWorld (w1 a)) cfg .bin 0 0
      ∧ runOp ⟨true⟩ (w1 a) cfg .inp 0 0 = runOp ⟨true⟩ (pyWorld (w1 a)) cfg .inp 0 0)
    ∧ (b.rop = false → (a.op && b.op) = false →
        runOp ⟨true⟩ (w2 .cdef a b) cfg .bin 1 1 = runOp ⟨true⟩ (pyWorld (w2 .cdef a b)) cfg .bin 1 1
        ∧ runOp ⟨true⟩ (w2 .cdef a b) cfg .inp 1 1 = runOp ⟨true⟩ (pyWorld (w2 .cdef a b)) cfg .inp 1 1) := by
  have h := sameCurChk_all
  simp only [List.all_eq_true, sameCurChk, Bool.and_eq_true, Bool.or_eq_true] at h
  have h2 := h cfg (mem_allOpCfg cfg)
  constructor
  · rcases h2.1 a (mem_allSub3 a) with h3 | h3
    · rw [ha] at h3; exact absurd h3 (by decide)
    · exact both_eq h3
  · intro hb hab
    rcases h2.2 a (mem_allSub3 a) b (mem_allSub3 b) with (h3 | h3) | h3
    · rcases h3 with h4 | h4
      · rw [ha] at h4; exact absurd h4 (by decide)
      · rw [hb] at h4; exact absurd h4 (by decide)
    · rw [h3.1, h3.2] at hab; exact absurd hab (by decide)
    · exact both_eq h3

example : (⟨true, false, true⟩ : Sub3).rop = false := rfl

/-- Base class and cdef subclass as the two operands, both orders, both templates: conforms when at
most one of the two classes defines `__op__` / `__rop__` (so also for every inherited method). -/
theorem binop_subclass_partial (v : Variant) (cfg : OpCfg) (a b : Sub3) (h1 : (a.defines && b.defines) = false) :
    (runOp v (w2 .cdef a b) cfg .bin 0 1 = runOp v (pyWorld (w2 .cdef a b)) cfg .bin 0 1
      ∧ runOp v (w2 .cdef a b) cfg .inp 0 1 = runOp v (pyWorld (w2 .cdef a b)) cfg .inp 0 1)
    ∧ (runOp v (w2 .cdef a b) cfg .bin 1 0 = runOp v (pyWorld (w2 .cdef a b)) cfg .bin 1 0
      ∧ runOp v (w2 .cdef a b) cfg .inp 1 0 = runOp v (pyWorld (w2 .cdef a b)) cfg .inp 1 0) := by
  have h := subChk_all
  simp only [List.all_eq_true, subChk, Bool.and_eq_true, Bool.or_eq_true] at h
  rcases h v (mem_allVariant v) cfg (mem_allOpCfg cfg) a (mem_allSub3 a) b (mem_allSub3 b) with h2 | h2
  · rw [h2.1, h2.2] at h1; exact absurd h1 (by decide)
  · exact ⟨both_eq h2.1, both_eq h2.2⟩

example : ((⟨true, true, true⟩ : Sub3).defines && (⟨false, false, true⟩ : Sub3).defines) = false := rfl

/-- Two sibling cdef subclasses as operands: conforms when the base defines neither method or
neither sibling does. -/
theorem binop_siblings_partial (v : Variant) (cfg : OpCfg) (a b c : Sub3)
    (h1 : (a.defines && (b.defines || c.defines)) = false) :
    runOp v (w3s a b c) cfg .bin 1 2 = runOp v (pyWorld (w3s a b c)) cfg .bin 1 2
    ∧ runOp v (w3s a b c) cfg .inp 1 2 = runOp v (pyWorld (w3s a b c)) cfg .inp 1 2 := by
  have h := sibChk_all v cfg
  simp only [List.all_eq_true, sibChk, Bool.or_eq_true] at h
  rcases h a (mem_allSub3 a) b (mem_allSub3 b) c (mem_allSub3 c) with h2 | h2
  · rw [h2] at h1; exact absurd h1 (by decide)
  · exact both_eq h2

example : ((⟨true, true, false⟩ : Sub3).defines && ((⟨false, false, true⟩ : Sub3).defines || (⟨false, false, false⟩ : Sub3).defines)) = false := rfl

/-- Python subclass of a cdef class as one operand (both orders): conforms when the cdef base itself
defines neither `__op__` nor `__rop__` (`+=` excluded). -/
theorem binop_pysubclass_partial (v : Variant) (cfg : OpCfg) (a b : Sub3) (h1 : a.defines = false) :
    (runOp v (w2 .py a b) cfg .bin 0 1 = runOp v (pyWorld (w2 .py a b)) cfg .bin 0 1
      ∧ runOp v (w2 .py a b) cfg .bin 1 0 = runOp v (pyWorld (w2 .py a b)) cfg .bin 1 0)
    ∧ (cfg.isAdd = false →
        runOp v (w2 .py a b) cfg .inp 0 1 = runOp v (pyWorld (w2 .py a b)) cfg .inp 0 1
        ∧ runOp v (w2 .py a b) cfg .inp 1 0 = runOp v (pyWorld (w2 .py a b)) cfg .inp 1 0) := by
  have h := pySubChk_all
  simp only [List.all_eq_true, pySubChk, Bool.and_eq_true, Bool.or_eq_true] at h
  rcases h v (mem_allVariant v) cfg (mem_allOpCfg cfg) a (mem_allSub3 a) b (mem_allSub3 b) with h2 | h2
  · rw [h1] at h2; exact absurd h2 (by decide)
  · refine ⟨⟨agree_eq h2.1.1, agree_eq h2.1.2⟩, fun hadd => ?_⟩
    rcases h2.2 with h3 | h3
    · rw [hadd] at h3; exact absurd h3 (by decide)
    · exact ⟨agree_eq h3.1, agree_eq h3.2⟩

/-! ## Where the generated code deviates (witnesses, replayed on the real code on every run) -/

def sOp : Sub3 := ⟨true, false, false⟩
def sRop : Sub3 := ⟨false, true, false⟩
def sOpRop : Sub3 := ⟨true, true, false⟩
def sIop : Sub3 := ⟨false, false, true⟩
def sNone : Sub3 := ⟨false, false, false⟩
def cfgAdd : OpCfg := ⟨true, true⟩
def cfgSub : OpCfg := ⟨true, false⟩
def cfgPow : OpCfg := ⟨false, false⟩

/-- pinned template: `a + a'` (same cdef type, `__radd__` only) calls `__radd__`; Python raises TypeError -/
theorem cex_same_type_reflected :
    runOp ⟨true⟩ (w1 sRop) cfgAdd .bin 0 0 ≠ runOp ⟨true⟩ (pyWorld (w1 sRop)) cfgAdd .bin 0 0 := by decide

/-- both templates: `a + b`, `b` of a cdef subclass that overrides `__add__`, base `__add__` returning
NotImplemented is called twice -/
theorem cex_subclass_double_call (v : Variant) :
    runOp v (w2 .cdef sOp sOp) cfgAdd .bin 0 1 ≠ runOp v (pyWorld (w2 .cdef sOp sOp)) cfgAdd .bin 0 1 := by
  obtain ⟨b⟩ := v; cases b <;> decide

/-- both templates: `b + a`, subclass `__add__` returned NotImplemented: the base class `__add__` is tried -/
theorem cex_subclass_base_left (v : Variant) :
    runOp v (w2 .cdef sOp sOp) cfgAdd .bin 1 0 ≠ runOp v (pyWorld (w2 .cdef sOp sOp)) cfgAdd .bin 1 0 := by
  obtain ⟨b⟩ := v; cases b <;> decide

/-- both templates: Python subclass that defines nothing: `a + p` calls `__radd__` before `__add__` -/
theorem cex_pysubclass_order (v : Variant) :
    runOp v (w2 .py sOpRop sNone) cfgAdd .bin 0 1 ≠ runOp v (pyWorld (w2 .py sOpRop sNone)) cfgAdd .bin 0 1 := by
  obtain ⟨b⟩ := v; cases b <;> decide

/-- CPython quirk: `p += x` for a Python subclass of a cdef class with `__iadd__` can return the
object NotImplemented (`sq_inplace_concat` inherits the C-level `nb_inplace_add`) -/
theorem cex_pysubclass_iadd_leak (v : Variant) :
    runOp v (w2 .py sIop sNone) cfgAdd .inp 1 1 ≠ runOp v (pyWorld (w2 .py sIop sNone)) cfgAdd .inp 1 1 := by
  obtain ⟨b⟩ := v; cases b <;> decide

/-- 3-argument `pow(a, x, m)`: the generated slot calls `__rpow__`; CPython 3.12 never does -/
theorem cex_pow3_reflected (v : Variant) :
    runOp v (wPair .cdef .cdef sOp sRop) cfgPow .pow3 0 1 ≠ runOp v (pyWorld (wPair .cdef .cdef sOp sRop)) cfgPow .pow3 0 1 := by
  obtain ⟨b⟩ := v; cases b <;> decide

/-- the full statement is false for the pinned and for the repaired template (subclass operands) -/
theorem full_binop_false (v : Variant) : ¬ FullBinop v := by
  intro h
  have := h cfgAdd .bin .cdef .cdef true sOp sOp 0 1 rfl (Or.inl (by decide)) (by decide) (by decide)
  exact cex_subclass_double_call v this

/-! ## Rich comparison

`richcmp_plain` and `richcmp_plain_ident` (file `Lemmas/C28CmpProofs.lean`) are the full-strength
theorems for hierarchies without `total_ordering`, of ANY depth and with ANY method subsets:
for cdef chains, Python chains and `int` on either side (same type, subclass either way, unrelated),
`doRich l r ident op = doRich (pyChain l) (pyChain r) ident op`. -/

/-- the full statement over all hierarchies, including `total_ordering` and Python subclasses of cdef classes -/
def FullCmp : Prop :=
  ∀ (l r : Chain) (ident : Bool) (op : Cmp), (ident = true → l = r) →
    doRich l r ident op = doRich (pyChain l) (pyChain r) ident op

/-- `ModuleNode.TOTAL_ORDERING` (as transcribed in the model and re-checked against the source on every
run) is `functools._convert` -/
theorem toTable_eq_functools (s t : Cmp) : toTable s t = pyToTable s t := by
  cases s <;> cases t <;> rfl

/-- `total_ordering` on a cdef class with `__eq__` (and no `__ne__`) and any ordering methods, against
an unrelated class of any kind with any comparison methods (both operand orders), its own type
(distinct objects or the same object) and `int`: all six comparisons agree with
`functools.total_ordering` as long as `__eq__` does not answer NotImplemented. -/
theorem total_ordering_partial (lt gt le ge : Bool) (op : Cmp) :
    (∀ (kx : Kind) (x : Sub6), kx = .cdef ∨ kx = .py →
      pruneEq (doRich (toCls lt gt le ge) [mkCC 1 kx x false] false op)
        = pruneEq (doRich (pyChain (toCls lt gt le ge)) (pyChain [mkCC 1 kx x false]) false op)
      ∧ pruneEq (doRich [mkCC 1 kx x false] (toCls lt gt le ge) false op)
        = pruneEq (doRich (pyChain [mkCC 1 kx x false]) (pyChain (toCls lt gt le ge)) false op))
    ∧ (∀ ident, pruneEq (doRich (toCls lt gt le ge) (toCls lt gt le ge) ident op)
        = pruneEq (doRich (pyChain (toCls lt gt le ge)) (pyChain (toCls lt gt le ge)) ident op))
    ∧ pruneEq (doRich (toCls lt gt le ge) [mkCC 1 .int noCmp false] false op)
        = pruneEq (doRich (pyChain (toCls lt gt le ge)) (pyChain [mkCC 1 .int noCmp false]) false op)
    ∧ pruneEq (doRich [mkCC 1 .int noCmp false] (toCls lt gt le ge) false op)
        = pruneEq (doRich (pyChain [mkCC 1 .int noCmp false]) (pyChain (toCls lt gt le ge)) false op) := by
  refine ⟨fun kx x hk => ?_, ?_⟩
  · have h : toUnrelChk kx lt gt = true := by
      rcases hk with hk | hk <;> subst hk <;> cases lt <;> cases gt
      · exact toUnrelChk_c00
      · exact toUnrelChk_c01
      · exact toUnrelChk_c10
      · exact toUnrelChk_c11
      · exact toUnrelChk_p00
      · exact toUnrelChk_p01
      · exact toUnrelChk_p10
      · exact toUnrelChk_p11
    simp only [toUnrelChk, List.all_eq_true, Bool.and_eq_true] at h
    have h2 := h le (mem_allBool le) ge (mem_allBool ge) x (mem_allSub6 x) op (mem_allCmpL op)
    exact ⟨agreeP_eq h2.1, agreeP_eq h2.2⟩
  · have h := toSameChk_ok
    simp only [toSameChk, List.all_eq_true, Bool.and_eq_true] at h
    have h2 := h lt (mem_allBool lt) gt (mem_allBool gt) le (mem_allBool le) ge (mem_allBool ge) op (mem_allCmpL op)
    refine ⟨fun ident => ?_, agreeP_eq h2.1.2, agreeP_eq h2.2⟩
    cases ident
    · exact agreeP_eq h2.1.1.1
    · exact agreeP_eq h2.1.1.2

/-- non-vacuity of the plain theorems: a two-level cdef hierarchy -/
example : PlainChain [mkCC 1 .cdef ⟨false, true, false, false, true, false⟩ false, mkCC 0 .cdef ⟨true, false, true, false, false, false⟩ false] :=
  .cdef _ (by intro c hc; simp only [List.mem_cons, List.mem_nil_iff, or_false] at hc; rcases hc with h | h <;> subst h <;> rfl)
    (by intro c hc; simp only [List.mem_cons, List.mem_nil_iff, or_false] at hc; rcases hc with h | h <;> subst h <;> rfl)

/-! ### Deviations of the generated rich comparison (witnesses replayed on the real code) -/

def tEqLt : Sub6 := ⟨true, false, true, false, false, false⟩
def tNeLt : Sub6 := ⟨false, true, true, false, false, false⟩
def tEqNeLt : Sub6 := ⟨true, true, true, false, false, false⟩
def tLt : Sub6 := ⟨false, false, true, false, false, false⟩
def tEq : Sub6 := ⟨true, false, false, false, false, false⟩

/-- `__eq__` answering NotImplemented inside a synthesised comparison: Cython returns NotImplemented,
functools falls back to the reflected `__eq__` and identity (`a <= b`, class with `__lt__`, `__eq__`) -/
theorem cex_to_eq_notimplemented :
    doRich [mkCC 0 .cdef tEqLt true] [mkCC 0 .cdef tEqLt true] false .le
      ≠ doRich (pyChain [mkCC 0 .cdef tEqLt true]) (pyChain [mkCC 0 .cdef tEqLt true]) false .le := by decide

/-- only `__ne__` defined: Cython uses the inverted `__ne__`, functools the default `__eq__` (identity) -/
theorem cex_to_ne_only :
    pruneEq (doRich [mkCC 0 .cdef tNeLt true] [mkCC 0 .cdef tNeLt true] false .le)
      ≠ pruneEq (doRich (pyChain [mkCC 0 .cdef tNeLt true]) (pyChain [mkCC 0 .cdef tNeLt true]) false .le) := by decide

/-- `__eq__` and `__ne__` both defined: `a > b` uses `__eq__` in Cython, `__ne__` in functools -/
theorem cex_to_eq_and_ne :
    pruneEq (doRich [mkCC 0 .cdef tEqNeLt true] [mkCC 0 .cdef tEqNeLt true] false .gt)
      ≠ pruneEq (doRich (pyChain [mkCC 0 .cdef tEqNeLt true]) (pyChain [mkCC 0 .cdef tEqNeLt true]) false .gt) := by decide

/-- no `__eq__`/`__ne__`: Cython ignores the directive (warning), functools synthesises with the default `__eq__` -/
theorem cex_to_without_eq :
    pruneEq (doRich [mkCC 0 .cdef tLt true] [mkCC 0 .cdef tLt true] false .le)
      ≠ pruneEq (doRich (pyChain [mkCC 0 .cdef tLt true]) (pyChain [mkCC 0 .cdef tLt true]) false .le) := by decide

/-- a cdef subclass with an own comparison method loses what `total_ordering` synthesised in its base -/
theorem cex_to_subclass_loses_synthesised :
    pruneEq (doRich [mkCC 1 .cdef tEq false, mkCC 0 .cdef tEqLt true] [mkCC 1 .cdef tEq false, mkCC 0 .cdef tEqLt true] false .ge)
      ≠ pruneEq (doRich (pyChain [mkCC 1 .cdef tEq false, mkCC 0 .cdef tEqLt true]) (pyChain [mkCC 1 .cdef tEq false, mkCC 0 .cdef tEqLt true]) false .ge) := by decide

/-- `total_ordering` on a subclass that defines no comparison method itself is ignored -/
theorem cex_to_on_empty_subclass :
    pruneEq (doRich [mkCC 1 .cdef noCmp true, mkCC 0 .cdef tEqLt false] [mkCC 1 .cdef noCmp true, mkCC 0 .cdef tEqLt false] false .ge)
      ≠ pruneEq (doRich (pyChain [mkCC 1 .cdef noCmp true, mkCC 0 .cdef tEqLt false]) (pyChain [mkCC 1 .cdef noCmp true, mkCC 0 .cdef tEqLt false]) false .ge) := by decide

/-- Python subclass of a cdef class: the slot wrappers of the generated function shadow `object.__ne__`
(`a != p`, cdef base with `__lt__`, Python subclass with `__eq__`) -/
theorem cex_pysubclass_ne_shadowed :
    doRich [mkCC 0 .cdef tLt false] [mkCC 1 .py tEq false, mkCC 0 .cdef tLt false] false .ne
      ≠ doRich (pyChain [mkCC 0 .cdef tLt false]) (pyChain [mkCC 1 .py tEq false, mkCC 0 .cdef tLt false]) false .ne := by decide

def tEqLtGe : Sub6 := ⟨true, false, true, false, false, true⟩

/-- the other operand is an instance of a subclass: functools evaluates `self == other` with the full
protocol (the subclass operand's reflected `__eq__` first), the generated code calls `__eq__(self, other)` -/
theorem cex_to_subclass_operand :
    pruneEq (doRich [mkCC 0 .cdef tEqLtGe true] [mkCC 1 .cdef noCmp false, mkCC 0 .cdef tEqLtGe true] false .le)
      ≠ pruneEq (doRich (pyChain [mkCC 0 .cdef tEqLtGe true]) (pyChain [mkCC 1 .cdef noCmp false, mkCC 0 .cdef tEqLtGe true]) false .le) := by decide

theorem full_cmp_false : ¬ FullCmp := fun h =>
  cex_to_eq_notimplemented (h _ _ false .le (fun h => by cases h))

end CyVerif.C28

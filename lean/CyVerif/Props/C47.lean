import CyVerif.Model.C47
import CyVerif.Lemmas.C47Unstrip
import CyVerif.Lemmas.C47Fresh
import CyVerif.Lemmas.C47Sim
/-!
# C47 — `strip_string_literals` is lossless (and how far it is complete)

`pieces code` is the list of slices the scanner appends to `new_code`, in order: `kept s` copied
verbatim, `lit s` replaced by the label `prefix ++ str(counter) ++ "_"` and stored in `literals`.
`strip p code = (render p 0 (pieces code), lits (pieces code))` is the function's result.

Two ways of substituting the labels back are modelled:
* `unstripSeq` — what `Cython/Build/Inline.py` does: `for key, value in literals.items():
  code = code.replace(key, value)` (Python `str.replace`, labels in counter order);
* `unstripOne` — one left-to-right pass expecting the labels in counter order.

Reversibility needs "the text does not contain the label prefix" — for BOTH procedures (see the
counterexamples); with the candidate repair (`stripFresh`: extend the prefix with `_` until it is
absent from the text) it holds for every text.
-/
namespace CyVerif.C47

/-! ## (2) piece accounting — every text, no hypothesis -/

/-- Expanding every label to the slice it replaced gives back the input, for every text: nothing is
lost, duplicated or reordered by the scanner (also: the model never runs out of fuel and never takes
a branch the Python code cannot take — those branches drop text). -/
theorem accounting (code : List Char) : expand (pieces code) = code := (pieces_post code).1

/-- The i-th label handed out is `prefix ++ str(i) ++ "_"` and the i-th recorded literal is the slice
of the i-th `lit` piece (definitional: `render`/`lits` walk the same piece list with one counter). -/
theorem strip_eq (p code : List Char) :
    strip p code = (render p 0 (pieces code), lits (pieces code)) := rfl

/-- In the stripped text every label is followed by end-of-text or by a quote, `{` or newline copied
from the input (never by another label) — for every text. -/
theorem label_followed_by_delimiter (code : List Char) : followOK (pieces code) = true :=
  (pieces_post code).2

/-! ## (1) losslessness -/

/-- FULL-STRENGTH statement for the substitution of `Inline.py` — FALSE for the code as it is. -/
def FullLosslessSeq : Prop :=
  ∀ code : List Char,
    unstripSeq defaultPrefix 0 (strip defaultPrefix code).2 (strip defaultPrefix code).1 = code

/-- FULL-STRENGTH statement for the single-pass substitution — FALSE as well. -/
def FullLosslessOne : Prop :=
  ∀ code : List Char,
    unstripOne defaultPrefix 0 (strip defaultPrefix code).2 0 (strip defaultPrefix code).1 = code

/-- Sequential `str.replace` of all labels (Inline.py) restores every text that does not contain
the label prefix; any prefix without digits, quotes, `{`, newline (`WF`). -/
theorem lossless_seq_partial (p code : List Char) (hp : WF p) (hfree : ¬ p <:+: code) :
    unstripSeq p 0 (strip p code).2 (strip p code).1 = code := by
  have h := unstripSeq_render hp (pieces code) [] 0 (pieces_post code).2
    (by simpa [accounting] using hfree)
  simpa [strip, accounting] using h

/-- The single left-to-right pass restores every text that does not contain the label prefix. -/
theorem lossless_one_partial (p code : List Char) (hp : WF p) (hfree : ¬ p <:+: code) :
    unstripOne p 0 (strip p code).2 0 (strip p code).1 = code := by
  have h := unstripOne_render hp (pieces code) 0 (by simpa [accounting] using hfree)
  simpa [strip, accounting] using h

theorem wf_default : WF defaultPrefix := by
  refine ⟨by decide, ?_, ?_⟩ <;> decide

/-- The function as it is called everywhere in Cython (default prefix `__Pyx_L`). -/
theorem lossless_default_partial (code : List Char) (hfree : ¬ defaultPrefix <:+: code) :
    unstripSeq defaultPrefix 0 (strip defaultPrefix code).2 (strip defaultPrefix code).1 = code ∧
    unstripOne defaultPrefix 0 (strip defaultPrefix code).2 0 (strip defaultPrefix code).1 = code :=
  ⟨lossless_seq_partial _ _ wf_default hfree, lossless_one_partial _ _ wf_default hfree⟩

/-- the witness of DESIGN F12 -/
def witness : List Char := "x = \"a\"; __Pyx_L1_ = 3".toList

set_option maxRecDepth 4000 in
/-- the stripped form of the witness and what the two substitutions make of it -/
theorem witness_strip :
    strip defaultPrefix witness = ("x = \"__Pyx_L1_\"; __Pyx_L1_ = 3".toList, ["a".toList]) ∧
    unstripSeq defaultPrefix 0 (strip defaultPrefix witness).2 (strip defaultPrefix witness).1
      = "x = \"a\"; a = 3".toList := by decide

/-- a second witness: here the single pass goes wrong too (the foreign label comes first) -/
def witness2 : List Char := "__Pyx_L1_ = \"a\"".toList

set_option maxRecDepth 4000 in
theorem witness2_one :
    unstripOne defaultPrefix 0 (strip defaultPrefix witness2).2 0 (strip defaultPrefix witness2).1
      = "a = \"__Pyx_L1_\"".toList := by decide

/-- COUNTEREXAMPLE: the full-strength statement fails on `x = "a"; __Pyx_L1_ = 3`. -/
theorem not_fullLosslessSeq : ¬ FullLosslessSeq := by
  intro h
  have h1 := h witness
  rw [witness_strip.2] at h1
  revert h1; decide

/-- COUNTEREXAMPLE: the single pass fails on `__Pyx_L1_ = "a"`. -/
theorem not_fullLosslessOne : ¬ FullLosslessOne := by
  intro h
  have h1 := h witness2
  rw [witness2_one] at h1
  revert h1; decide

/-- With the candidate repair (prefix extended by `_` until absent from the text) the substitution of
Inline.py restores EVERY text. -/
theorem lossless_fresh (code : List Char) :
    unstripSeq (stripFresh code).1 0 (stripFresh code).2.2 (stripFresh code).2.1 = code := by
  obtain ⟨hwf, hfree⟩ := freshPrefix_spec (code.length + 1) defaultPrefix code wf_default (by omega)
  exact lossless_seq_partial _ code hwf hfree

/-! ## (3) completeness — every text without an f-prefixed literal

`refLex .code 0 code = some m`: the reference lexer (a character-level lexer written independently
of the scanner: code / `#` comment to end of line / literal with one or three quote characters,
backslash escapes the next character; `Model/C47.lean`) accepts `code` — i.e. no `f` directly
precedes an opening quote — and `m` marks the characters that belong to a comment body or a literal
body.  `keptMask (pieces code)` marks the characters the scanner copies verbatim into the stripped
text.  The reference lexer itself is tied to CPython's `tokenize` by the differential check. -/

/-- No character of a comment body or string-literal body is copied into the stripped text, for
EVERY text the reference lexer accepts (any quote kind, triple quotes, prefixes r/b/u/…, escapes,
runs of quotes, unterminated literals, `#` inside literals, quotes inside comments). -/
theorem complete_nof (code : List Char) (m : List Bool) (h : refLex .code 0 code = some m) :
    (keptMask (pieces code)).length = code.length ∧
    ∀ i : Nat, (keptMask (pieces code))[i]? = some true → m[i]? = some false := by
  obtain ⟨h1, h2⟩ := (sim_all (code.length + 1)).2 [] code m (by omega) h
  have hl := refLex_length code _ _ m h
  simp only [List.length_nil, Nat.zero_add, ff, List.replicate_zero, List.nil_append] at h1 h2
  exact ⟨by unfold pieces; rw [h1, hl], disj_getElem _ _ h2 h1⟩

/-- the same, as one boolean check over the two masks -/
theorem complete_nof_disj (code : List Char) (m : List Bool) (h : refLex .code 0 code = some m) :
    disj (keptMask (pieces code)) m = true := by
  have := ((sim_all (code.length + 1)).2 [] code m (by omega) h).2
  simpa [pieces] using this

/-- FULL-STRENGTH completeness would have to speak about every text CPython tokenizes, f-strings
included; it is FALSE for the code as it is (see `known_findings.txt`: `F'{d['k']}'`,
`y if'{'else z`, `f'\N{BULLET}'`, `f'{x:">10}' + "abc"`).  The Lean side has no model of the
f-string grammar of the tokenizer, so these witnesses are replayed on the real code only. -/
def sampleNoF : List Char :=
  "x = r'''a\\'''b''' + \"c#d\" # e \"g\"\ny = ''''''; z = 'h\\\\'".toList

set_option maxRecDepth 8000 in
/-- the reference lexer accepts a non-trivial text (raw triple-quoted literal containing an escaped
quote, `#` in a literal, quotes in a comment, empty triple literal, escaped backslash before the
terminator) and marks 18 body characters -/
example : ∃ m, refLex .code 0 sampleNoF = some m ∧ (m.filter id).length = 18 := by
  refine ⟨_, rfl, ?_⟩
  decide

/-! ## non-vacuity -/

def sample : List Char := "s = f'a{x!r:>{w}}b' + r\"c\\\"\" # d\ninclude 'e.pxi'\n".toList

set_option maxRecDepth 8000 in
/-- a non-trivial text (f-string with nested field, raw string with escaped quote, comment, include)
meets the hypotheses; it yields five labels -/
example : WF defaultPrefix ∧ ¬ defaultPrefix <:+: sample ∧ (strip defaultPrefix sample).2.length = 5 := by
  refine ⟨wf_default, ?_, by decide⟩
  rw [← isInfixB_iff]; decide

set_option maxRecDepth 4000 in
/-- the repair is not the identity on the witness: a longer prefix is chosen and the text comes back -/
example : (stripFresh witness).1 = "__Pyx_L_".toList ∧
    unstripSeq (stripFresh witness).1 0 (stripFresh witness).2.2 (stripFresh witness).2.1 = witness := by
  decide

end CyVerif.C47

import CyVerif.Model.C04
import CyVerif.Lemmas.C04Fold
/-!
# C04 — `overflowcheck` reports exactly the overflowing C arithmetic

All theorems quantify over every width `w ≥ 2`, both signednesses, every
platform `P` satisfying `Plat.WF`, every in-range operand pair, both
preprocessor variants of `Overflow.c` and every value of
`__builtin_constant_p` the C compiler may choose (`Constp`).

A helper returns `Except Ub (result × flag)`; `= .ok …` therefore includes
"no C undefined behaviour".  `Sound` is the contract of the property for one
emitted statement.

Where the statement is FALSE for the code as it exists the full statement is a
`def Full… : Prop` with the candidate repair as a Boolean parameter:
`…_full_fixed` proves it for the repaired variant, `…_full_false` refutes it
for the existing code with a concrete witness, `…_partial` proves the existing
code under the excluded points as hypotheses.
-/
namespace CyVerif.C04

/-- contract of the property for one statement whose C result type is `(sg, w)`: it raises
OverflowError, or the exact result is defined, fits, and is what the statement yields.
(So: never a wrapped value, never UB/crash, never another exception.) -/
def Sound (sg : Bool) (w : Nat) (defined : Prop) (exact : Int) (o : Out) : Prop :=
  o = .raise "OverflowError" ∨ (defined ∧ InR sg w exact ∧ o = .val exact)

instance (sg w) (d : Prop) [Decidable d] (e o) : Decidable (Sound sg w d e o) := by
  unfold Sound; exact inferInstance

/-- "always raises when the result does not fit the C result type" -/
theorem Sound.raises {sg : Bool} {w : Nat} {d : Prop} {e : Int} {o : Out} (h : Sound sg w d e o)
    (hn : ¬ (d ∧ InR sg w e)) : o = .raise "OverflowError" := by
  rcases h with h | ⟨h1, h2, _⟩
  · exact h
  · exact absurd ⟨h1, h2⟩ hn

/-! ## A. the helpers of `Overflow.c` -/

/-- **add / sub / mul are exact in both variants**: the wrapped exact result, and the flag is set
iff the exact result is not representable.  No undefined behaviour on any in-range input. -/
theorem helper_exact (V : Variant) (P : Plat) (hP : 1 ≤ P.wint) (sg : Bool) (w : Nat) (hw : 2 ≤ w)
    (hwl : w < P.wl → 2 * w ≤ P.wl) (hwll : w < P.wll → 2 * w ≤ P.wll) (df : Bool)
    (op : Op) (hop : op ≠ .div) (const : Bool) (cp : Constp) (a b : Int)
    (ha : InR sg w a) (hb : InR sg w b) :
    helper V P df sg w op const cp a b =
      .ok (wrap sg w (op.exact a b), decide (¬ InR sg w (op.exact a b))) := by
  rw [helper_eq_builtin hP hw hwl hwll df hop const cp ha hb, builtinOvf_eq (by omega)]

/-- the portable branch and the `__builtin_*_overflow` branch are the same function on in-range
operands (every operator, `div` included: it is shared code) -/
theorem variants_agree (P : Plat) (hP : 1 ≤ P.wint) (sg : Bool) (w : Nat) (hw : 2 ≤ w)
    (hwl : w < P.wl → 2 * w ≤ P.wl) (hwll : w < P.wll → 2 * w ≤ P.wll) (df : Bool)
    (op : Op) (const : Bool) (cp cp' : Constp) (a b : Int) (ha : InR sg w a) (hb : InR sg w b) :
    helper .portable P df sg w op const cp a b = helper .builtin P df sg w op const cp' a b := by
  by_cases hop : op = .div
  · subst hop; rfl
  · rw [helper_eq_builtin hP hw hwl hwll df hop const cp ha hb,
      helper_eq_builtin hP hw hwl hwll df hop const cp' ha hb]

/-- the contract in the form of DESIGN.md: flag clear ⇒ exact result; result not representable ⇒
flag set; result always a value of the type -/
theorem checked_sound (V : Variant) (P : Plat) (hP : 1 ≤ P.wint) (sg : Bool) (w : Nat) (hw : 2 ≤ w)
    (hwl : w < P.wl → 2 * w ≤ P.wl) (hwll : w < P.wll → 2 * w ≤ P.wll) (df : Bool)
    (op : Op) (hop : op ≠ .div) (const : Bool) (cp : Constp) (a b : Int)
    (ha : InR sg w a) (hb : InR sg w b) :
    ∃ r f, helper V P df sg w op const cp a b = .ok (r, f) ∧ InR sg w r ∧
      (f = false → r = op.exact a b) ∧ (¬ InR sg w (op.exact a b) → f = true) := by
  refine ⟨_, _, helper_exact V P hP sg w hw hwl hwll df op hop const cp a b ha hb,
    wrap_inR (by omega) _, ?_, ?_⟩
  · intro h
    simp only [decide_eq_false_iff_not, Decidable.not_not] at h
    exact wrap_of_inR (by omega) h
  · intro h; simpa using h

example : helper .portable ⟨32, 64, 64⟩ false true 32 .mul false ⟨false, false, false⟩ 65536 32768
    = .ok (-2147483648, true) := by decide
example : helper .portable ⟨32, 64, 64⟩ false true 64 .add false ⟨false, false, false⟩
    9223372036854775807 1 = .ok (-9223372036854775808, true) := by decide
example : helper .portable ⟨32, 64, 64⟩ false true 64 .mul true ⟨false, false, true⟩ (-3) 3037000500
    = .ok (-9111001500, false) := by decide

/-- the hypothesis "a strictly wider type is at least twice as wide" is needed: on a platform with
16-bit `int` and 24-bit `long` the widened product itself overflows (signed UB) -/
theorem mul_widening_needs_double_width :
    mulS_portable ⟨16, 24, 24⟩ 16 ⟨false, false, false⟩ (-32768) (-32768) = .error .signedOverflow := by
  decide

/-- the contract of a `div` helper (exact = C truncating quotient) -/
def FullDivHelper (fixed : Bool) : Prop :=
  ∀ (w : Nat), 2 ≤ w → ∀ (a b : Int), InR true w a → InR true w b →
    ∃ r f, (if fixed then divS_fixed w a b else divS w a b) = .ok (r, f) ∧
      (f = false → b ≠ 0 ∧ r = a.tdiv b) ∧ ((b = 0 ∨ ¬ InR true w (a.tdiv b)) → f = true)

/-- the signed `div` helper (dead code: no operator is routed to it) divides the UNSIGNED
representations: wrong for a negative operand, without setting the flag -/
theorem div_helper_full_false : ¬ FullDivHelper false := by
  intro h
  obtain ⟨r, f, h1, h2, _⟩ := h 32 (by omega) (-6) 2 (by decide) (by decide)
  have e : divS 32 (-6) 2 = .ok (2147483645, false) := by decide
  simp only [Bool.false_eq_true, if_false] at h1
  rw [e] at h1
  simp only [Except.ok.injEq, Prod.mk.injEq] at h1
  obtain ⟨h3, h4⟩ := h1
  subst h3 h4
  have := (h2 rfl).2
  revert this; decide

theorem div_helper_partial (w : Nat) (hw : 2 ≤ w) (a b : Int) (ha : InR true w a) (hb : InR true w b)
    (ha0 : 0 ≤ a) (hb0 : 0 < b) : divS w a b = .ok (a.tdiv b, false) :=
  divS_nonneg (by omega) ha hb ha0 hb0

example : divS 32 7 2 = .ok (3, false) := by decide

theorem div_helper_full_fixed : FullDivHelper true := by
  intro w hw a b ha hb
  simp only [if_true]
  rw [divS_fixed_eq hw ha]
  by_cases h : b = 0 ∨ (a = tmin true w ∧ b = -1)
  · rw [if_pos h]
    exact ⟨0, true, rfl, by simp, fun _ => rfl⟩
  · rw [if_neg h]
    have h0 : b ≠ 0 := fun e => h (Or.inl e)
    have h1 : ¬ (a = tmin true w ∧ b = -1) := fun e => h (Or.inr e)
    refine ⟨_, false, rfl, fun _ => ⟨h0, rfl⟩, ?_⟩
    rintro (e | e)
    · exact absurd e h0
    · exact absurd (tdiv_inR (by omega) ha h0 h1) e

/-- the unsigned `div` helper is exact -/
theorem divU_sound (w : Nat) (a b : Int) (ha : InR false w a) (hb : InR false w b) :
    divU a b = .ok (if b = 0 then (0, true) else (a.tdiv b, false)) ∧ (b ≠ 0 → InR false w (a.tdiv b)) :=
  divU_eq ha hb

/-- **LeftShift**: never UB; flag clear ⇒ shift count non-negative and the exact `a·2^b`; not
representable (or negative count) ⇒ flag set.  Any width, also types narrower than `int`. -/
theorem lshift_sound (P : Plat) (sg : Bool) (w : Nat) (hw : 2 ≤ w) (a b : Int)
    (ha : InR sg w a) (hb : InR sg w b) :
    ∃ r f, lshift P sg w a b = .ok (r, f) ∧
      (f = false → 0 ≤ b ∧ r = a * (2 : Int) ^ b.toNat ∧ InR sg w r) ∧
      ((b < 0 ∨ ¬ InR sg w (a * (2 : Int) ^ b.toNat)) → f = true) := by
  rw [lshift_spec hw ha hb]
  by_cases hf : lshiftFlag P sg w a b
  · rw [if_pos hf]; exact ⟨0, true, rfl, by simp, fun _ => rfl⟩
  · rw [if_neg hf]
    unfold lshiftFlag at hf
    have hmin := tmin_nonpos sg w
    have hb0 : 0 ≤ b := by
      cases sg
      · have := hb.1; simp [tmin] at this; exact this
      · have : ¬ (a < 0 ∨ b < 0) := fun h => hf (Or.inl ⟨rfl, h⟩)
        omega
    have ha0 : 0 ≤ a := by
      cases sg
      · have := ha.1; simp [tmin] at this; exact this
      · have : ¬ (a < 0 ∨ b < 0) := fun h => hf (Or.inl ⟨rfl, h⟩)
        omega
    have hfit : ¬ (tmax sg w < a * (2 : Int) ^ b.toNat) := fun h => hf (Or.inr (Or.inr (Or.inr h)))
    have hnn : 0 ≤ a * (2 : Int) ^ b.toNat := Int.mul_nonneg ha0 (by have := two_pow_pos' b.toNat; omega)
    have hin : InR sg w (a * (2 : Int) ^ b.toNat) := ⟨by omega, by omega⟩
    refine ⟨_, false, rfl, fun _ => ⟨hb0, rfl, hin⟩, ?_⟩
    rintro (h | h)
    · omega
    · exact absurd hin h

/-- exactly when LeftShift sets the flag — hence the spurious flags are: a negative left operand
whose shifted value would fit, a count `≥ w` with `a = 0`, and every shift of an unsigned type
narrower than `int` (`__PYX_MAX` is `-1` there) -/
theorem lshift_flag_iff (P : Plat) (sg : Bool) (w : Nat) (hw : 2 ≤ w) (a b : Int)
    (ha : InR sg w a) (hb : InR sg w b) :
    lshift P sg w a b =
      .ok (if lshiftFlag P sg w a b then (0, true) else (a * (2 : Int) ^ b.toNat, false)) :=
  lshift_spec hw ha hb

example : lshift ⟨32, 64, 64⟩ true 32 1 30 = .ok (1073741824, false) := by decide
example : lshift ⟨32, 64, 64⟩ true 32 1 31 = .ok (0, true) := by decide
example : lshift ⟨32, 64, 64⟩ true 32 (-1) 1 = .ok (0, true) := by decide   -- spurious: -2 fits

/-- `__Pyx_UNARY_NEG_WOULD_OVERFLOW(x)` is `x == LONG_MIN` for a `long`-sized operand … -/
theorem negmacro_long_iff (P : Plat) (hl : 1 ≤ P.wl) (x : Int) (hx : InR true P.wl x) :
    unaryNegWouldOverflow P x = decide (x = tmin true P.wl) := negmacro_long hl hx

/-- … and constantly false for any narrower operand (the root of `int MIN // -1` crashing) -/
theorem negmacro_narrow_false (P : Plat) (w : Nat) (hw : 1 ≤ w) (h : w < P.wl) (x : Int)
    (hx : InR true w x) : unaryNegWouldOverflow P x = false := negmacro_narrow hw h hx

example : unaryNegWouldOverflow ⟨32, 64, 64⟩ (-9223372036854775808) = true := by decide
example : unaryNegWouldOverflow ⟨32, 64, 64⟩ (-2147483648) = false := by decide

/-! ## B. `SizeCheck` / `Binop` dispatch -/

/-- the contract of `__Pyx_<op>_<typedef>_checking_overflow` for add, sub, mul on a typedef'd type
of any sane size; `2·w (+1 if unsigned) ≤ wint` keeps the promoted `int` product defined. -/
def FullBinop (narrowFixed : Bool) : Prop :=
  ∀ (V : Variant) (P : Plat), P.WF → ∀ (sg : Bool) (w : Nat), 2 ≤ w → sizeSane P w = true →
    (w < P.wint → 2 * w + (if sg then 0 else 1) ≤ (if narrowFixed then P.wll else P.wint)) →
    ∀ (op : Op), op ≠ .div → ∀ (const : Bool) (cp : Constp) (a b : Int), InR sg w a → InR sg w b →
      ∃ r f, binop V P narrowFixed false sg w op const cp a b = .ok (r, f) ∧
        (f = false → r = op.exact a b) ∧ (¬ InR sg w (op.exact a b) → f = true)

theorem sane_cases {P : Plat} (_hP : P.WF) {w : Nat} (h : sizeSane P w = true) :
    w < P.wint ∨ BaseWidth P w := by
  unfold sizeSane at h
  simp only [Bool.or_eq_true, decide_eq_true_eq] at h
  unfold BaseWidth
  omega

/-- for a type at least as wide as `int` the dispatch reaches the helper of that width -/
theorem binop_partial (V : Variant) (P : Plat) (hP : P.WF) (nf : Bool) (sg : Bool) (w : Nat)
    (hbw : BaseWidth P w) (op : Op) (hop : op ≠ .div) (const : Bool) (cp : Constp) (a b : Int)
    (ha : InR sg w a) (hb : InR sg w b) :
    binop V P nf false sg w op const cp a b =
      .ok (wrap sg w (op.exact a b), decide (¬ InR sg w (op.exact a b))) := by
  obtain ⟨hw, _, hwl, hwll⟩ := hbw.widen hP
  rw [binop_base hP hbw]
  exact helper_exact V P (by have := hP.1; omega) sg w hw hwl hwll false op hop const cp a b ha hb

/-- never the `Py_FatalError` path once `SizeCheck` passed -/
theorem binop_never_fatal (V : Variant) (P : Plat) (hP : P.WF) (nf df sg : Bool) (w : Nat)
    (hs : sizeSane P w = true) (op : Op) (const : Bool) (cp : Constp) (a b : Int)
    (ha : InR sg w a) (hb : InR sg w b) :
    binop V P nf df sg w op const cp a b ≠ .error .fatal := by
  rcases sane_cases hP hs with h | h
  · unfold binop; rw [if_pos h]
    cases hn : noOverflowOp (if nf then P.wll else P.wint) op a b with
    | ok r => simp [bind, Except.bind, pure, Except.pure]
    | error k =>
      have : k ≠ .fatal := by
        cases op <;> simp only [noOverflowOp, sadd, ssub, smul, cdiv] at hn <;>
          (repeat' split at hn) <;> simp at hn <;> subst hn <;> simp
      simpa [bind, Except.bind] using this
  · obtain ⟨hw, _, hwl, hwll⟩ := h.widen hP
    rw [binop_base hP h]
    by_cases hop : op = .div
    · subst hop
      cases sg <;> cases df <;> simp only [helper, divS, divS_fixed, divU, cdiv, if_true,
        Bool.false_eq_true, if_false] <;> (repeat' split) <;> simp [pure, Except.pure, bind, Except.bind]
    · rw [helper_eq_builtin (by have := hP.1; omega) hw hwl hwll df hop const cp ha hb]
      simp

/-- a typedef'd type that is really narrower than `int` (`ctypedef int tiny_t` over a C
`signed char`): the promoted sum is converted back to the type and wraps, flag clear -/
theorem binop_full_false : ¬ FullBinop false := by
  intro h
  obtain ⟨r, f, h1, h2, h3⟩ := h .builtin ⟨32, 64, 64⟩ (by decide) true 8 (by omega) (by decide)
    (by decide) .add (by decide) false ⟨false, false, false⟩ 100 100 (by decide) (by decide)
  have e : binop .builtin ⟨32, 64, 64⟩ false false true 8 .add false ⟨false, false, false⟩ 100 100
      = .ok (-56, false) := by decide
  rw [e] at h1
  simp only [Except.ok.injEq, Prod.mk.injEq] at h1
  obtain ⟨e1, e2⟩ := h1
  subst e1 e2
  have := h2 rfl
  revert this; decide

theorem narrow_ok {W : Nat} {sg : Bool} {w : Nat} (hw : 2 ≤ w) (hn : w < W)
    (h2 : 2 * w + (if sg then 0 else 1) ≤ W) {op : Op} (hop : op ≠ .div) {a b : Int}
    (ha : InR sg w a) (hb : InR sg w b) : noOverflowOp W op a b = .ok (op.exact a b) := by
  have hp := two_pow_pos' (w - 1)
  have hs := two_pow_split (w := w) (by omega)
  have hmono : (2 : Int) ^ w ≤ (2 : Int) ^ (W - 1) := two_pow_mono (by omega)
  -- both operands lie in [-2^(w-1), 2^w - 1] ⊆ [-q, q] for q = 2^(w-1) (signed) / 2^w (unsigned)
  cases op
  · unfold noOverflowOp sadd Op.exact
    rw [if_pos]
    rw [inR_signed]
    cases sg
    · simp only [Bool.false_eq_true, if_false] at h2
      have hm2 : (2 : Int) ^ (w + 1) ≤ (2 : Int) ^ (W - 1) := two_pow_mono (by omega)
      rw [Int.pow_succ] at hm2
      rw [inR_unsigned] at ha hb; omega
    · rw [inR_signed] at ha hb; omega
  · unfold noOverflowOp ssub Op.exact
    rw [if_pos]
    rw [inR_signed]
    cases sg
    · simp only [Bool.false_eq_true, if_false] at h2
      have hm2 : (2 : Int) ^ (w + 1) ≤ (2 : Int) ^ (W - 1) := two_pow_mono (by omega)
      rw [Int.pow_succ] at hm2
      rw [inR_unsigned] at ha hb; omega
    · rw [inR_signed] at ha hb; omega
  · unfold noOverflowOp smul Op.exact
    rw [if_pos]
    rw [inR_signed]
    cases sg
    · rw [inR_unsigned] at ha hb
      simp only [Bool.false_eq_true, if_false] at h2
      have hbd := mul_bounds (p := (2 : Int) ^ w) (a := a) (b := b) (by omega) (by omega)
      have hpp : (2 : Int) ^ w * (2 : Int) ^ w = (2 : Int) ^ (2 * w) := by
        rw [← two_pow_add]; congr 1; omega
      have hm2 : (2 : Int) ^ (2 * w) ≤ (2 : Int) ^ (W - 1) := two_pow_mono (by omega)
      have := Int.mul_nonneg ha.1 hb.1
      have hlt : a * b < (2 : Int) ^ w * (2 : Int) ^ w := by
        have h1 : a * b ≤ ((2 : Int) ^ w - 1) * ((2 : Int) ^ w - 1) := Int.mul_le_mul ha.2 hb.2 hb.1 (by omega)
        have h3 : ((2 : Int) ^ w - 1) * ((2 : Int) ^ w - 1) = (2 : Int) ^ w * (2 : Int) ^ w - 2 * (2 : Int) ^ w + 1 := by
          rw [Int.sub_mul, Int.mul_sub]; omega
        omega
      omega
    · rw [inR_signed] at ha hb
      simp only [if_true] at h2
      have hbd := mul_bounds (p := (2 : Int) ^ (w - 1)) (a := a) (b := b) (by omega) (by omega)
      have hpp : (2 : Int) ^ (w - 1) * (2 : Int) ^ (w - 1) = (2 : Int) ^ (2 * w - 2) := by
        rw [← two_pow_add]; congr 1; omega
      have hm2 : (2 : Int) ^ (2 * w - 2) ≤ (2 : Int) ^ (W - 2) := two_pow_mono (by omega)
      have hs2 := two_pow_split (w := W - 1) (by omega)
      have : W - 1 - 1 = W - 2 := by omega
      rw [this] at hs2
      have := two_pow_pos' (W - 2)
      omega
  · exact absurd rfl hop

/-- with the candidate repair (compute in `PY_LONG_LONG`, flag a result that does not survive the
conversion back to `{{TYPE}}`) the contract holds for every sane size -/
theorem binop_full_fixed : FullBinop true := by
  intro V P hP sg w hw hs h2 op hop const cp a b ha hb
  rcases sane_cases hP hs with hn | hbw
  · have hlt : w < P.wll := by have := hP.2.1; have := hP.2.2.1; omega
    have h2' := h2 hn
    simp only [if_true] at h2'
    unfold binop
    simp only [if_true]
    rw [if_pos hn, narrow_ok hw hlt h2' hop ha hb]
    simp only [bind, Except.bind, pure, Except.pure, Bool.true_and]
    refine ⟨_, _, rfl, ?_, ?_⟩
    · intro h
      simp only [decide_eq_false_iff_not, Decidable.not_not] at h
      exact h
    · intro h
      simp only [decide_eq_true_eq]
      intro e; exact h ((wrap_eq_self_iff (by omega) _).1 e)
  · rw [binop_partial V P hP true sg w hbw op hop const cp a b ha hb]
    refine ⟨_, _, rfl, ?_, ?_⟩
    · intro h
      simp only [decide_eq_false_iff_not, Decidable.not_not] at h
      exact wrap_of_inR (by omega) h
    · intro h; simpa using h

example : binop .builtin ⟨32, 64, 64⟩ true false true 8 .add false ⟨false, false, false⟩ 100 100
    = .ok (-56, true) := by decide
example : binop .portable ⟨32, 64, 64⟩ false false false 64 .mul false ⟨false, false, false⟩
    4294967296 4294967296 = .ok (0, true) := by decide

/-! ## C. the emitted statements -/

/-- `+ - * <<` on a type of `int`, `long` or `long long` width (spelled as such or typedef'd, e.g.
`Py_ssize_t`, `size_t`): exact result or OverflowError; OverflowError whenever it does not fit. -/
theorem emitBinop_sound (C : Cfg) (hP : C.P.WF) (base sg : Bool) (w : Nat) (hbw : BaseWidth C.P w)
    (op : BOp) (const : Bool) (a b : Int) (ha : InR sg w a) (hb : InR sg w b) :
    Sound sg w (op.exactDefined a b) (op.exact a b) (emitBinop C base sg w op const a b) := by
  obtain ⟨r, f, h, hr, h1, _⟩ := callHelper_spec hP (base := base) hbw op const ha hb
  unfold emitBinop Sound
  rw [h]
  cases f
  · obtain ⟨hd, e⟩ := h1 rfl
    subst e
    right; exact ⟨hd, hr, rfl⟩
  · left; rfl

example : emitBinop ⟨.portable, ⟨32, 64, 64⟩, ⟨false, false, false⟩, false, false⟩ true true 32 .mul false 46341 46341
    = .raise "OverflowError" := by decide
example : emitBinop ⟨.portable, ⟨32, 64, 64⟩, ⟨false, false, false⟩, false, false⟩ true true 32 .mul false 46340 46340
    = .val 2147395600 := by decide

/-- unary minus under `overflowcheck` -/
def FullNeg (fixed : Bool) : Prop :=
  ∀ (C : Cfg), C.P.WF → ∀ (base sg : Bool) (w : Nat), BaseWidth C.P w → ∀ (x : Int), InR sg w x →
    Sound sg w True (-x) (emitNeg C fixed base sg w x)

def cfg64 : Cfg := ⟨.builtin, ⟨32, 64, 64⟩, ⟨false, false, false⟩, false, false⟩

/-- F2: `UnaryMinusNode` emits a plain `(-x)`: `-INT_MIN` is signed overflow (the wrapped `MIN`
comes back at `-O0`) … -/
theorem neg_full_false : ¬ FullNeg false := by
  intro h
  have := h cfg64 (by decide) true true 32 (by decide) (-2147483648) (by decide)
  revert this; decide

/-- … and for an unsigned operand `-x` silently wraps to `2^w - x` -/
theorem neg_unsigned_counterexample :
    emitNeg cfg64 false true false 32 1 = .val 4294967295 ∧
    ¬ Sound false 32 True (-1) (emitNeg cfg64 false true false 32 1) := by decide

/-- what the existing code does guarantee -/
theorem neg_partial (C : Cfg) (base sg : Bool) (w : Nat) (_hw : 1 ≤ w) (x : Int) (hx : InR sg w x)
    (hs : sg = true → x ≠ tmin true w) (hu : sg = false → x = 0) :
    Sound sg w True (-x) (emitNeg C false base sg w x) := by
  have hp := two_pow_pos' (w - 1)
  unfold emitNeg Sound
  simp only [Bool.false_eq_true, if_false]
  cases sg
  · have := hu rfl; subst this
    right
    refine ⟨trivial, ?_, ?_⟩
    · have := two_pow_pos' w; rw [inR_unsigned]; omega
    · simp [wrap]
  · have hne := hs rfl
    have hmin : tmin true w = -(2 : Int) ^ (w - 1) := by simp [tmin]
    rw [hmin] at hne
    rw [inR_signed] at hx
    have hin : InR true w (-x) := by rw [inR_signed]; omega
    right
    simp only [if_true, sneg, if_pos hin]
    refine ⟨trivial, hin, ?_⟩
    first | rfl | trivial

example : emitNeg cfg64 false true true 32 2147483647 = .val (-2147483647) := by decide

/-- candidate repair (route `-x` through the checked `0 - x`): the full statement holds -/
theorem neg_full_fixed : FullNeg true := by
  intro C hP base sg w hbw x hx
  obtain ⟨hw, _, _, _⟩ := hbw.widen hP
  have h0 : InR sg w 0 := by
    have := tmin_nonpos sg w
    have : 0 ≤ tmax sg w := by
      have := two_pow_pos' (w - 1); have := two_pow_pos' w
      cases sg <;> simp [tmax] <;> omega
    exact ⟨by omega, by omega⟩
  have := emitBinop_sound C hP base sg w hbw .sub false 0 x h0 hx
  simp only [BOp.exactDefined, BOp.exact, Int.zero_sub] at this
  unfold emitNeg
  simpa using this

example : emitNeg cfg64 true true true 32 (-2147483648) = .raise "OverflowError" := by decide
example : emitNeg cfg64 true true false 32 1 = .raise "OverflowError" := by decide

/-- `//` (and `/` under `cdivision=True`): ZeroDivisionError for a zero divisor when Python
semantics are on; otherwise floor (C: truncating) quotient or OverflowError, never a crash -/
def FullFloorDiv (fx : DivFix) : Prop :=
  ∀ (P : Plat), P.WF → ∀ (sg : Bool) (w : Nat), BaseWidth P w → ∀ (cdivision const : Bool) (a b : Int),
    InR sg w a → InR sg w b →
    (b = 0 → cdivision = false → emitFloorDiv P fx sg w cdivision const a b = .raise "ZeroDivisionError") ∧
    (b ≠ 0 → Sound sg w True (if cdivision then a.tdiv b else a.fdiv b)
      (emitFloorDiv P fx sg w cdivision const a b))

def plat64 : Plat := ⟨32, 64, 64⟩

/-- F3: `int MIN // -1` — the `-1` guard only exists for `sizeof(type) == sizeof(long)` -/
theorem floordiv_full_false : ¬ FullFloorDiv ⟨false, false, false⟩ := by
  intro h
  have := (h plat64 (by decide) true 32 (by decide) false false (-2147483648) (-1) (by decide) (by decide)).2
    (by decide)
  revert this; decide

/-- `long MIN // -1` with a literal `-1`: the guard is only emitted together with the zero check -/
theorem floordiv_const_counterexample :
    emitFloorDiv plat64 ⟨false, false, false⟩ true 64 false true (-9223372036854775808) (-1)
      = .ub .divOverflow := by decide

/-- `MIN / -1` under `cdivision=True`: plain C division -/
theorem floordiv_cdivision_counterexample :
    emitFloorDiv plat64 ⟨false, false, false⟩ true 64 true false (-9223372036854775808) (-1)
      = .ub .divOverflow := by decide

theorem floordiv_core (P : Plat) (hP : P.WF) (fx : DivFix) (sg : Bool) (w : Nat) (hbw : BaseWidth P w)
    (cdivision const : Bool) (a b : Int) (ha : InR sg w a) (hb : InR sg w b)
    (hok : (¬ (sg = true ∧ a = tmin true w ∧ b = -1)) ∨
      (cdivision = false ∧ (const = false ∨ fx.constDivisor = true) ∧ (fx.allWidths = true ∨ w = P.wl)) ∨
      (cdivision = true ∧ fx.cdivision = true)) :
    (b = 0 → cdivision = false → emitFloorDiv P fx sg w cdivision const a b = .raise "ZeroDivisionError") ∧
    (b ≠ 0 → Sound sg w True (if cdivision then a.tdiv b else a.fdiv b)
      (emitFloorDiv P fx sg w cdivision const a b)) := by
  obtain ⟨hw, _, _, _⟩ := hbw.widen hP
  have hw1 : 1 ≤ w := by omega
  constructor
  · intro h0 hc
    subst h0 hc
    simp [emitFloorDiv]
  · intro h0
    unfold emitFloorDiv
    have hz : (decide (b = 0)) = false := by simpa using h0
    simp only [hz, Bool.and_false, Bool.false_eq_true, if_false, Bool.or_false]
    cases sg
    · -- unsigned: plain C division, exact
      simp only [Bool.false_and, Bool.false_eq_true, if_false, Bool.not_false, Bool.or_true, if_true]
      have hd : cdiv false w a b = .ok (a.tdiv b) := by
        unfold cdiv; rw [if_neg h0, if_neg (by simp)]
      rw [hd]
      obtain ⟨_, hin⟩ := divU_eq ha hb
      rw [inR_unsigned] at ha hb
      have hfd : a.fdiv b = a.tdiv b := Int.fdiv_eq_tdiv_of_nonneg ha.1 hb.1
      right
      refine ⟨trivial, ?_, ?_⟩
      · cases cdivision <;> simp only [Bool.false_eq_true, if_false, if_true, hfd] <;> exact hin h0
      · cases cdivision <;> simp only [Bool.false_eq_true, if_false, if_true, hfd]
    · simp only [Bool.true_and, Bool.not_true, Bool.or_false]
      by_cases hm : a = tmin true w ∧ b = -1
      · -- the overflowing quotient: must be guarded
        obtain ⟨hma, hmb⟩ := hm
        have hbw' : 1 ≤ P.wl := by have := hP.1; have := hP.2.1; omega
        rcases hok with h | h | h
        · exact absurd ⟨rfl, hma, hmb⟩ h
        · obtain ⟨hc, hcst, hwd⟩ := h
          subst hc
          left
          simp only [Bool.not_false, Bool.true_and]
          have hg : divGuard P fx w a b = true := by
            unfold divGuard
            rcases hwd with h | h
            · rw [if_pos h]; simp [hma, hmb]
            · rw [h] at ha hma
              by_cases hall : fx.allWidths = true
              · rw [if_pos hall]; simp [hma, hmb, h]
              · rw [if_neg hall, negmacro_long hbw' ha]; simp [hma, hmb, h]
          have hcond : ((!const || fx.constDivisor) && divGuard P fx w a b) = true := by
            rw [hg]; rcases hcst with h | h <;> simp [h]
          rw [if_pos hcond]
        · obtain ⟨hc, hf⟩ := h
          subst hc
          left
          simp only [Bool.not_true, Bool.false_and, Bool.false_eq_true, if_false, Bool.true_and, hf]
          rw [if_pos (by simp [hma, hmb])]
      · -- everything else: the guards do not fire, the division is defined and exact
        have hg : divGuard P fx w a b = false := by
          unfold divGuard
          split
          · simp only [Bool.and_eq_false_iff, decide_eq_false_iff_not]
            by_cases hb1 : b = -1
            · right; intro e; exact hm ⟨e, hb1⟩
            · left; exact hb1
          · by_cases hwl : w = P.wl
            · have hbw' : 1 ≤ P.wl := by omega
              rw [hwl] at ha hm
              rw [negmacro_long hbw' ha]
              simp only [Bool.and_eq_false_iff, decide_eq_false_iff_not]
              by_cases hb1 : b = -1
              · right; intro e; exact hm ⟨e, hb1⟩
              · left; right; exact hb1
            · simp [hwl]
        have hdb : decide (b = -1) = false ∨ decide (a = tmin true w) = false := by
          by_cases hb1 : b = -1
          · right; simp only [decide_eq_false_iff_not]; intro e; exact hm ⟨e, hb1⟩
          · left; simpa using hb1
        have hg3 : ∀ x : Bool, (x && decide (b = -1) && decide (a = tmin true w)) = false := by
          intro x; rcases hdb with h | h <;> simp [h]
        simp only [hg, Bool.and_false, Bool.false_eq_true, if_false, hg3]
        cases cdivision
        · simp only [Bool.false_eq_true, if_false]
          obtain ⟨he, hin⟩ := divInt_eq hw1 ha hb h0 hm
          rw [he]
          right; exact ⟨trivial, hin, rfl⟩
        · simp only [if_true]
          have hd : cdiv true w a b = .ok (a.tdiv b) := by
            unfold cdiv; rw [if_neg h0, if_neg (by simpa using hm)]
          rw [hd]
          right; exact ⟨trivial, tdiv_inR hw1 ha h0 hm, rfl⟩

/-- what the existing code guarantees: everything except `MIN // -1`, which is only caught for a
run-time divisor of a `long`-sized type under Python division semantics -/
theorem floordiv_partial (P : Plat) (hP : P.WF) (sg : Bool) (w : Nat) (hbw : BaseWidth P w)
    (cdivision const : Bool) (a b : Int) (ha : InR sg w a) (hb : InR sg w b)
    (hok : (¬ (sg = true ∧ a = tmin true w ∧ b = -1)) ∨ (cdivision = false ∧ const = false ∧ w = P.wl)) :
    (b = 0 → cdivision = false →
      emitFloorDiv P ⟨false, false, false⟩ sg w cdivision const a b = .raise "ZeroDivisionError") ∧
    (b ≠ 0 → Sound sg w True (if cdivision then a.tdiv b else a.fdiv b)
      (emitFloorDiv P ⟨false, false, false⟩ sg w cdivision const a b)) := by
  apply floordiv_core P hP _ sg w hbw cdivision const a b ha hb
  rcases hok with h | ⟨h1, h2, h3⟩
  · exact Or.inl h
  · exact Or.inr (Or.inl ⟨h1, Or.inl h2, Or.inr h3⟩)

example : emitFloorDiv plat64 ⟨false, false, false⟩ true 64 false false (-9223372036854775808) (-1)
    = .raise "OverflowError" := by decide
example : emitFloorDiv plat64 ⟨false, false, false⟩ true 32 false false (-7) 2 = .val (-4) := by decide

/-- with the three candidate repairs the full statement holds -/
theorem floordiv_full_fixed : FullFloorDiv ⟨true, true, true⟩ := by
  intro P hP sg w hbw cdivision const a b ha hb
  apply floordiv_core P hP _ sg w hbw cdivision const a b ha hb
  cases cdivision
  · exact Or.inr (Or.inl ⟨rfl, Or.inr rfl, Or.inl rfl⟩)
  · exact Or.inr (Or.inr ⟨rfl, rfl⟩)

example : emitFloorDiv plat64 ⟨true, true, true⟩ true 32 false false (-2147483648) (-1)
    = .raise "OverflowError" := by decide

/-! ## D. nested expressions, `overflowcheck.fold` -/

/-- **fold soundness** for every expression tree over `+ - * <<` (structural induction): no UB
even though later helpers run on wrapped intermediate values; the single final test raises as
soon as ANY intermediate exact value is undefined or does not fit; otherwise the value is exact. -/
theorem fold_sound (C : Cfg) (hP : C.P.WF) (base sg : Bool) (w : Nat) (hbw : BaseWidth C.P w)
    (e : Expr) (hl : e.leavesIn sg w = true) :
    (emitFold C base sg w e = .raise "OverflowError" ∨
      (e.AllFit sg w ∧ emitFold C base sg w e = .val e.denote)) ∧
    (¬ e.AllFit sg w → emitFold C base sg w e = .raise "OverflowError") := by
  obtain ⟨v, f, h, _, h1, h2⟩ := evalFold_spec hP (base := base) hbw e hl
  unfold emitFold
  rw [h]
  cases f
  · obtain ⟨ha, ev⟩ := h1 rfl
    subst ev
    exact ⟨Or.inr ⟨ha, rfl⟩, fun hn => absurd ha hn⟩
  · exact ⟨Or.inl rfl, fun _ => rfl⟩

/-- with `overflowcheck.fold=False` the observable outcome is identical -/
theorem nofold_eq_fold (C : Cfg) (hP : C.P.WF) (base sg : Bool) (w : Nat) (hbw : BaseWidth C.P w)
    (e : Expr) (hl : e.leavesIn sg w = true) :
    emitNoFold C base sg w e = emitFold C base sg w e := by
  obtain ⟨v, f, h, _, _, _⟩ := evalFold_spec hP (base := base) hbw e hl
  rw [noFold_of_evalFold C base sg w e v f h]
  unfold emitFold
  rw [h]

theorem nofold_sound (C : Cfg) (hP : C.P.WF) (base sg : Bool) (w : Nat) (hbw : BaseWidth C.P w)
    (e : Expr) (hl : e.leavesIn sg w = true) :
    (emitNoFold C base sg w e = .raise "OverflowError" ∨
      (e.AllFit sg w ∧ emitNoFold C base sg w e = .val e.denote)) ∧
    (¬ e.AllFit sg w → emitNoFold C base sg w e = .raise "OverflowError") := by
  rw [nofold_eq_fold C hP base sg w hbw e hl]
  exact fold_sound C hP base sg w hbw e hl

/-- the final value fits whenever every operator application fits -/
theorem allFit_denote_inR {sg : Bool} {w : Nat} {e : Expr} (h : e.AllFit sg w) : InR sg w e.denote := by
  cases e with
  | leaf v => exact h
  | bin op c l r => exact h.2.2.2

-- (a + b) * c - d with an overflowing a + b: raised although the wrapped product is small
example : emitFold cfg64 true true 32
    (.bin .sub false (.bin .mul false (.bin .add false (.leaf 1073741824) (.leaf 1073741824)) (.leaf 0)) (.leaf 5))
    = .raise "OverflowError" := by decide
example : emitFold cfg64 true true 32
    (.bin .sub false (.bin .mul false (.bin .add false (.leaf 3) (.leaf 4)) (.leaf 5)) (.leaf 5))
    = .val 30 := by decide

/-- `a // (b + c) + d` under fold: an overflowing `b + c` must surface as OverflowError -/
def FullFoldDiv (scopeFixed : Bool) : Prop :=
  ∀ (C : Cfg), C.P.WF → ∀ (fx : DivFix) (base sg : Bool) (w : Nat), BaseWidth C.P w →
    ∀ (cdivision : Bool) (a b c d : Int), InR sg w a → InR sg w b → InR sg w c → InR sg w d →
    ¬ InR sg w (b + c) →
      emitFoldThroughDiv C fx scopeFixed base sg w cdivision a b c d = .raise "OverflowError"

/-- `ConsolidateOverflowCheck` lets the inner `+` share the outer flag through the unchecked
division node: the division runs on the wrapped divisor (here `0`) before the flag is tested -/
theorem folddiv_full_false : ¬ FullFoldDiv false := by
  intro h
  have := h cfg64 (by decide) ⟨false, false, false⟩ true true 32 (by decide) false
    1 (-2147483648) (-2147483648) 0 (by decide) (by decide) (by decide) (by decide) (by decide)
  revert this; decide

/-- … a crash (SIGFPE) when `cdivision=True` -/
theorem folddiv_cdivision_counterexample :
    emitFoldThroughDiv cfg64 ⟨false, false, false⟩ false true true 32 true 1 (-2147483648) (-2147483648) 0
      = .ub .divByZero := by decide

theorem folddiv_full_fixed : FullFoldDiv true := by
  intro C hP fx base sg w hbw cdivision a b c d _ hb hc _ hn
  have := (emitBinop_sound C hP base sg w hbw .add false b c hb hc).raises
    (by simp only [BOp.exactDefined, BOp.exact, true_and]; exact hn)
  unfold emitFoldThroughDiv
  simp only [if_true, this]

/-- when the inner sum fits, the existing scope and the repaired scope behave identically -/
theorem folddiv_partial (C : Cfg) (hP : C.P.WF) (fx : DivFix) (base sg : Bool) (w : Nat)
    (hbw : BaseWidth C.P w) (cdivision : Bool) (a b c d : Int) (hb : InR sg w b) (hc : InR sg w c)
    (hs : InR sg w (b + c)) :
    emitFoldThroughDiv C fx false base sg w cdivision a b c d =
      emitFoldThroughDiv C fx true base sg w cdivision a b c d := by
  obtain ⟨r, f, h, _, h1, h2⟩ := callHelper_spec hP (base := base) hbw .add false hb hc
  have hf : f = false := by
    cases f
    · rfl
    · exfalso
      obtain ⟨hw, _, hwl, hwll⟩ := hbw.widen hP
      have hP1 : 1 ≤ C.P.wint := by have := hP.1; omega
      have e : callHelper C base sg w .add false b c = .ok (builtinOvf sg w (b + c)) := by
        unfold callHelper
        cases base
        · simp only [Bool.false_eq_true, if_false]
          rw [binop_base hP hbw]; exact helper_eq_builtin hP1 hw hwl hwll _ (by simp) _ _ hb hc
        · simp only [if_true]; exact helper_eq_builtin hP1 hw hwl hwll _ (by simp) _ _ hb hc
      rw [e, builtinOvf_eq (by omega)] at h
      simp only [Except.ok.injEq, Prod.mk.injEq, decide_eq_true_eq] at h
      exact h.2 hs
  subst hf
  unfold emitFoldThroughDiv
  simp only [Bool.false_eq_true, if_false, if_true, emitBinop, h, Bool.false_or]

example : emitFoldThroughDiv cfg64 ⟨false, false, false⟩ false true true 32 false 7 1 1 5 = .val 8 := by decide

end CyVerif.C04

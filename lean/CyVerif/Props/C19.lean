import CyVerif.Lemmas.C19Dup
import CyVerif.Lemmas.C19Cmp
import CyVerif.Lemmas.C19In
import CyVerif.Lemmas.C19Str
import CyVerif.Lemmas.C19Bytes
import CyVerif.Lemmas.C19Int
/-!
# C19 — comparisons and membership tests match CPython

Part 1  `SwitchTransform`: the emitted `switch` selects the arm the if-chain selects.
Part 2  cascaded comparisons: Cython's evaluation scheme = the language reference.
Part 3  `x in (a, b, c)` flattening vs. CPython's container search.
Part 4  string / bytes comparison and membership helpers.

Every part has the full statement, the theorem that holds for the source as found (suffix
`_partial`, excluded points as hypotheses), the theorem for the repaired source, and
counterexamples with concrete witnesses (replayed on the real code by the harness).
-/
namespace CyVerif.C19

/-! ## Part 1: switch -/

/-- hypotheses about things outside the transform: C types have a positive width and the guard's
range lies inside them; variables hold values of their type; constants can be written in C;
an enum type represents its members, extern constants have values of the switch type -/
structure Setting (vk : Nat → VarKind) (env : Env) (s : IfStat) : Prop where
  varsWF : ∀ v, (vk v).WF
  envWF : EnvWF vk env
  constsOK : ∀ p ∈ s.clauses, CondOK vk env.ext p.1

/-- **Full statement** for a variant of the transform: for all chains, directive values, variable
typings and variable values the transformed statement executes the arm the if-chain executes. -/
def SwitchCorrect (V : Variant) : Prop :=
  ∀ (useSwitch : Bool) (vk : Nat → VarKind) (env : Env) (s : IfStat), Setting vk env s →
    runT vk env (xformIf V useSwitch vk s) = runIf vk env s

theorem xformIf_sound_gen (V : Variant) (us : Bool) (vk : Nat → VarKind) (env : Env) (s : IfStat)
    (hS : Setting vk env s)
    (hA : ∀ p ∈ s.clauses, V.andFix = true ∨ NoAnd p.1)
    (hG : ∀ p ∈ s.clauses, V.rangeGuard = true ∨ FitsCond vk env.ext p.1) :
    runT vk env (xformIf V us vk s) = runIf vk env s := by
  have hplain : runT vk env (.ifs (s.clauses.map fun (c, b) => (xformE V vk c, b)) s.els) = runIf vk env s := by
    simp only [runT, runIf]
    exact firstArm_map (xformE V vk) (evalT vk env) (evalC vk env) s.clauses s.els
      (fun p hp => xformE_sound V vk env hS.varsWF hS.envWF p.1 (hA p hp) (hG p hp) (hS.constsOK p hp))
  unfold xformIf
  simp only
  cases us with
  | false =>
    simp only [Bool.not_false, ↓reduceIte, runT, runIf]
    exact firstArm_map embed (evalT vk env) (evalC vk env) s.clauses s.els (fun p _ => embed_sound vk env p.1)
  | true =>
    simp only [Bool.not_true, Bool.false_eq_true, ↓reduceIte]
    cases hc : collect V vk none s.clauses with
    | none => exact hplain
    | some r =>
      obtain ⟨w, cases⟩ := r
      cases w with
      | none => exact hplain
      | some v =>
        simp only
        split
        · exact hplain
        · simp only [runT, runIf]
          exact ((collect_sound V vk env hS.varsWF hS.envWF s.els s.clauses none v cases
            (fun p hp => ⟨hS.constsOK p hp, hA p hp, hG p hp⟩) hc).1).symm

/-- **Theorem (repaired transform).** The full statement holds. -/
theorem switch_eq_ifchain (V : Variant) (hA : V.andFix = true) (hG : V.rangeGuard = true) : SwitchCorrect V :=
  fun us vk env s hS => xformIf_sound_gen V us vk env s hS (fun _ _ => Or.inl hA) (fun _ _ => Or.inl hG)

/-- **Theorem (any variant, in particular the source as found).** Same conclusion for chains that
contain no `and` and whose constants are representable in the promoted type of the tested
variable and denote their Python value in C. -/
theorem switch_eq_ifchain_partial (V : Variant) (us : Bool) (vk : Nat → VarKind) (env : Env) (s : IfStat)
    (hS : Setting vk env s) (hNoAnd : ∀ p ∈ s.clauses, NoAnd p.1)
    (hFits : ∀ p ∈ s.clauses, FitsCond vk env.ext p.1) :
    runT vk env (xformIf V us vk s) = runIf vk env s :=
  xformIf_sound_gen V us vk env s hS (fun p hp => Or.inr (hNoAnd p hp)) (fun p hp => Or.inr (hFits p hp))

/-- **Expression level** (`visit_BoolBinopNode`, `visit_PrimaryCmpNode`, `visit_CondExprNode`):
every test keeps its value (repaired transform). -/
theorem boolexpr_eq (V : Variant) (hA : V.andFix = true) (hG : V.rangeGuard = true)
    (vk : Nat → VarKind) (env : Env) (hwf : ∀ v, (vk v).WF) (henv : EnvWF vk env) (c : Cond)
    (hok : CondOK vk env.ext c) : evalT vk env (xformE V vk c) = evalC vk env c :=
  xformE_sound V vk env hwf henv c (Or.inl hA) (Or.inl hG) hok

/-- the same for any variant under the explicit side conditions -/
theorem boolexpr_eq_partial (V : Variant)
    (vk : Nat → VarKind) (env : Env) (hwf : ∀ v, (vk v).WF) (henv : EnvWF vk env) (c : Cond)
    (hok : CondOK vk env.ext c) (hNoAnd : NoAnd c) (hFits : FitsCond vk env.ext c) :
    evalT vk env (xformE V vk c) = evalC vk env c :=
  xformE_sound V vk env hwf henv c (Or.inr hNoAnd) (Or.inr hFits) hok

/-- what it means that `visit_IfStatNode` emitted a switch -/
theorem xformIf_switch_inv (V : Variant) (us : Bool) (vk : Nat → VarKind) (s : IfStat) (v : Nat)
    (cases : List (List Const × Nat)) (els : Option Nat) (h : xformIf V us vk s = .switch v cases els) :
    us = true ∧ collect V vk none s.clauses = some (some v, cases) ∧ els = s.els ∧
    2 ≤ (cases.flatMap (·.1)).length ∧ hasDup V (cases.flatMap (·.1)) = false := by
  unfold xformIf at h
  simp only at h
  cases us with
  | false => simp at h
  | true =>
    simp only [Bool.not_true, Bool.false_eq_true, ↓reduceIte] at h
    cases hc : collect V vk none s.clauses with
    | none => simp [hc] at h
    | some r =>
      obtain ⟨w, cases'⟩ := r
      cases w with
      | none => simp [hc] at h
      | some v' =>
        simp only [hc] at h
        split at h
        · cases h
        · rename_i hcond
          simp only [StatT.switch.injEq] at h
          obtain ⟨rfl, rfl, rfl⟩ := h
          simp only [Bool.or_eq_true, decide_eq_true_eq, not_or, Nat.not_lt, Bool.not_eq_true] at hcond
          exact ⟨rfl, rfl, rfl, hcond.1, hcond.2⟩

/-- **Duplicates ⇒ no switch** (every variant): a switch is only emitted for at least two values
with pairwise different keys. -/
theorem duplicates_refused (V : Variant) (us : Bool) (vk : Nat → VarKind) (s : IfStat) (v : Nat)
    (cases : List (List Const × Nat)) (els : Option Nat) (h : xformIf V us vk s = .switch v cases els) :
    hasDup V (cases.flatMap (·.1)) = false ∧ 2 ≤ (cases.flatMap (·.1)).length :=
  let r := xformIf_switch_inv V us vk s v cases els h
  ⟨r.2.2.2.2, r.2.2.2.1⟩

/-- **Switch = CPython** (repaired transform): when a switch is emitted, it selects the arm that
CPython selects when it runs the same chain on Python integers. -/
theorem switch_eq_python (V : Variant) (hA : V.andFix = true) (hG : V.rangeGuard = true)
    (us : Bool) (vk : Nat → VarKind) (env : Env) (s : IfStat) (hS : Setting vk env s)
    (v : Nat) (cases : List (List Const × Nat)) (els : Option Nat)
    (h : xformIf V us vk s = .switch v cases els) :
    runT vk env (xformIf V us vk s) = runPy env s := by
  obtain ⟨_, hc, _, _, _⟩ := xformIf_switch_inv V us vk s v cases els h
  have hs := collect_sound V vk env hS.varsWF hS.envWF s.els s.clauses none v cases
    (fun p hp => ⟨hS.constsOK p hp, Or.inl hA, Or.inl hG⟩) hc
  rw [switch_eq_ifchain V hA hG us vk env s hS]
  simp only [runIf, runPy]
  exact hs.2.1.symm

/-- **The emitted switch is valid C** (repaired transform): its labels are pairwise distinct values
of the promoted switch type (labels that are extern constants of unknown value excluded). -/
theorem switch_labels_distinct (V : Variant) (hG : V.rangeGuard = true) (hB : V.bchrInt = true)
    (us : Bool) (vk : Nat → VarKind) (env : Env) (s : IfStat) (hS : Setting vk env s)
    (v : Nat) (cases : List (List Const × Nat)) (els : Option Nat)
    (h : xformIf V us vk s = .switch v cases els)
    (ty : CTy) (glo ghi : Int) (e : Bool) (hvk : vk v = .cint ty glo ghi e)
    (hne : ∀ k ∈ cases.flatMap (·.1), k.noExt = true) :
    labelsDistinct ty env.ext (cases.flatMap (·.1)) = true := by
  obtain ⟨_, hc, _, _, hd⟩ := xformIf_switch_inv V us vk s v cases els h
  have hwf := hS.varsWF v
  rw [hvk] at hwf
  apply labelsDistinct_of_noDup V hB ty hwf.1 env.ext
  · intro k hk
    obtain ⟨p, hp, com, ni, v', cs, hx, hkcs, hv⟩ := collect_labels V vk s.clauses none (some v) cases hc k hk
    have hv' : v' = v := hv v rfl
    subst hv'
    obtain ⟨hex, _, hint, hsafe, _⟩ := extractCommon_some V vk com p.1 false ni v' cs hx
    obtain ⟨h1, _, h3⟩ := extract_consts_ok V vk env.ext p.1 false ni v' cs hex (hS.constsOK p hp) k hkcs
    have hs := hsafe hG k hkcs
    rw [hvk] at hs
    exact ⟨hne k hk, fits_of_safe V ty glo ghi e k env.ext hwf h1 (h3 ty glo ghi e hvk) (hint k hkcs) hs⟩
  · unfold hasDup at hd
    exact ((hasDupFrom_false_iff V _ []).mp hd).2

/-- the same for the switches inside transformed tests (`build_simple_switch_statement`) -/
theorem boolexpr_labels_distinct (V : Variant) (hG : V.rangeGuard = true) (hB : V.bchrInt = true)
    (vk : Nat → VarKind) (ext : Nat → Int) (hwf : ∀ v, (vk v).WF) (c : Cond) (hok : CondOK vk ext c)
    (hne : CondNoExt c) : allSwDistinct vk ext (xformE V vk c) = true :=
  xformE_labels_distinct V hG hB vk ext hwf c hok hne

/-- **C comparison = Python comparison** for a C integer and a constant that the promoted type of
the variable represents (the range guard's condition) -/
theorem c_compare_eq_python (vk : Nat → VarKind) (env : Env) (v : Nat) (k : Const)
    (ty : CTy) (glo ghi : Int) (e : Bool) (hvk : vk v = .cint ty glo ghi e) (hwf : (vk v).WF)
    (henv : EnvWF vk env) (hpy : k.isPy = false) (hint : k.isIntTyped = true)
    (hfit : ty.promote.has (k.cval env.ext) = true) (hval : k.cval env.ext = k.pyval env.ext) :
    eqSem vk env v k = eqPy env v k :=
  (eq_all_of_fits vk env v k ty glo ghi e hvk hwf henv hpy hint ⟨hfit, hval⟩).2

/-! ### counterexamples for the source as found (replayed on the real code by the harness) -/

/-- `int` variable; guard range of the repaired source -/
def vkInt : Nat → VarKind := fun _ => .cint s32 (-2147483648) 2147483647 false
def vkChar : Nat → VarKind := fun _ => .cint ⟨8, true⟩ (-2147483648) 2147483647 false
def lit (n : Nat) : Const := .int false n false false 0
def envOf (x : Int) : Env := ⟨fun _ => x, fun _ => false, fun _ => 0⟩

/-- `x == 1 and x == 2` -/
def cAnd : Cond := .bin true (.cmp false 0 (lit 1)) (.cmp false 0 (lit 2))
/-- `if x == 4294967296LL: 1 / elif x == 5: 2 / else: 3` -/
def sWide : IfStat := ⟨[(.cmp false 0 (.int false 4294967296 false false 2), 1), (.cmp false 0 (lit 5), 2)], some 3⟩
/-- `if x in b'ab' or x == 97: 1 / elif x == 5: 2` on a `char` -/
def sBchr : IfStat := ⟨[(.bin false (.inStr false 0 [97, 98] true) (.cmp false 0 (lit 97)), 1), (.cmp false 0 (lit 5), 2)], none⟩

/-- **Counterexample 1** (`and` rule as found): `x == 1 and x == 2` becomes `switch (x) {case 1: case 2: true}`;
for `x = 1` the transformed test is true, the original false. -/
theorem and_merges_eq_tests :
    evalT vkInt (envOf 1) (xformE ⟨false, true, true⟩ vkInt cAnd) = true ∧ evalC vkInt (envOf 1) cAnd = false := by
  decide

/-- **Counterexample 2** (no range guard): `int x = 0` selects arm 1 (`case 4294967296LL` is converted to `int` 0)
while the if-chain selects the `else` arm 3. -/
theorem wide_constant_wraps :
    runT vkInt (envOf 0) (xformIf ⟨true, false, true⟩ true vkInt sWide) = some 1 ∧
    runIf vkInt (envOf 0) sWide = some 3 := by
  decide

/-- **Counterexample 3** (byte characters keyed as bytes objects): the switch for
`x in b'ab' or x == 97` has the label value 97 twice — C rejects it. -/
theorem bchr_duplicate_label :
    (∃ cases els, xformIf ⟨true, false, false⟩ true vkChar sBchr = .switch 0 cases els ∧
      labelsDistinct ⟨8, true⟩ (fun _ => 0) (cases.flatMap (·.1)) = false) :=
  ⟨[([.bchr 97, .bchr 98, lit 97], 1), ([lit 5], 2)], none, by rfl, by decide⟩

theorem settingInt (x : Int) (hx : s32.has x = true) (s : IfStat)
    (hc : ∀ p ∈ s.clauses, CondOK vkInt (envOf x).ext p.1) : Setting vkInt (envOf x) s :=
  ⟨fun _ => by simp [vkInt, VarKind.WF, s32, CTy.promote, CTy.lo, CTy.hiX],
   fun v ty glo ghi e h => by simp only [vkInt, VarKind.cint.injEq] at h; obtain ⟨rfl, _⟩ := h; exact hx,
   hc⟩

/-- the full statement is false for the source as found … -/
theorem switchCorrect_false_without_guard (a b : Bool) : ¬ SwitchCorrect ⟨a, false, b⟩ := by
  intro h
  have hs : Setting vkInt (envOf 0) sWide := settingInt 0 (by decide) sWide (by
    intro p hp
    simp only [sWide, List.mem_cons, List.not_mem_nil, or_false] at hp
    rcases hp with rfl | rfl <;> simp [CondOK, Const.WF, lit, SideOK])
  have := h true vkInt (envOf 0) sWide hs
  revert this
  cases a <;> cases b <;> decide

/-- … and for a source with the guard but the `and` rule as found (`if x == 1 and x == 2: …`) -/
theorem switchCorrect_false_without_andFix (b c : Bool) : ¬ SwitchCorrect ⟨false, b, c⟩ := by
  intro h
  have hs : Setting vkInt (envOf 1) ⟨[(cAnd, 1)], some 0⟩ := settingInt 1 (by decide) _ (by
    intro p hp
    simp only [List.mem_singleton] at hp
    subst hp
    simp [cAnd, CondOK, Const.WF, lit, SideOK])
  have := h true vkInt (envOf 1) ⟨[(cAnd, 1)], some 0⟩ hs
  revert this
  cases b <;> cases c <;> decide

/-- **C `==` is not Python `==` outside the guard's range**: `int x = -1; x == 4294967295U` is true in C. -/
theorem c_compare_ne_python :
    eqSem vkInt (envOf (-1)) 0 (.int false 4294967295 false true 0) = true ∧
    eqPy (envOf (-1)) 0 (.int false 4294967295 false true 0) = false := by decide

/-! non-vacuity: the hypotheses of the theorems are met by non-trivial chains -/

/-- a switch is really emitted, it selects arm 2 for `x = 5`, and the setting is well-formed -/
example : xformIf ⟨true, true, true⟩ true vkInt ⟨[(.cmp false 0 (lit 1), 1), (.bin false (.cmp false 0 (lit 5)) (.cmp false 0 (lit 7)), 2)], some 3⟩
    = .switch 0 [([lit 1], 1), ([lit 5, lit 7], 2)] (some 3) := by rfl
example : runT vkInt (envOf 5) (.switch 0 [([lit 1], 1), ([lit 5, lit 7], 2)] (some 3)) = some 2 := by decide
example : Setting vkInt (envOf 5) ⟨[(.cmp false 0 (lit 1), 1), (.bin false (.cmp false 0 (lit 5)) (.cmp false 0 (lit 7)), 2)], some 3⟩ :=
  settingInt 5 (by decide) _ (by
    intro p hp
    simp only [List.mem_cons, List.not_mem_nil, or_false] at hp
    rcases hp with rfl | rfl <;> simp [CondOK, Const.WF, lit, SideOK])
/-- the side conditions of the `_partial` theorem hold for an ordinary chain -/
example : NoAnd (.bin false (.cmp false 0 (lit 5)) (.cmp false 0 (lit 7))) := by simp [NoAnd]
example : FitsCond vkInt (fun _ => 0) (.cmp false 0 (lit 5)) := by
  intro ty glo ghi e h _ _
  simp only [vkInt, VarKind.cint.injEq] at h
  obtain ⟨rfl, _⟩ := h
  decide
/-- duplicates are refused: `x == 1` / `x == True` stays an if-chain -/
example : xformIf ⟨true, true, true⟩ true vkInt ⟨[(.cmp false 0 (lit 1), 1), (.cmp false 0 (.bool true), 2)], none⟩
    = .ifs [(.cmp false 0 (lit 1), 1), (.cmp false 0 (.bool true), 2)] none := by rfl

/-! ## Part 2: cascaded comparisons -/

/-- **Full statement**: for every world (operand expressions, comparison methods and truth tests
that may raise), every chain length and both contexts (value / truth), Cython's evaluation
scheme produces the event log and the outcome of the language reference. -/
def CascadeCorrect (checked clears : Bool) : Prop :=
  ∀ (W : World) (boolCtx : Bool) (first : Nat) (links : List (Nat × Nat)), links ≠ [] →
    cyChain checked clears W boolCtx first links = pyChain W boolCtx first links

/-- **Theorem (repaired `CascadedCmpNode`)**: each operand is evaluated once, left to right, evaluation
stops at the first false link, the value is the deciding result object, exceptions (also from the
truth test) propagate at the same point. -/
theorem chain_eval : CascadeCorrect true true := by
  intro W boolCtx first links hne
  unfold cyChain pyChain
  cases hev : W.ev first with
  | raise e => rfl
  | ok a =>
    cases links with
    | nil => exact absurd rfl hne
    | cons p rest =>
      obtain ⟨op, leaf⟩ := p
      cases boolCtx with
      | false =>
        simp only [Bool.false_eq_true, ↓reduceIte]
        rw [cascade_value]
        cases W.ev leaf <;> simp
      | true =>
        simp only [↓reduceIte]
        rw [cascade_bool]
        cases W.ev leaf <;> simp

/-- the truth test of a link does not raise -/
def TruthTotal (W : World) : Prop := ∀ v e, W.truth v ≠ .raise e
/-- operand expressions do not raise -/
def EvTotal (W : World) : Prop := ∀ l e, W.ev l ≠ .raise e

theorem cyCascade_as_found (W : World) (hT : TruthTotal W) (hE : EvTotal W) (bc : Bool) :
    ∀ (rest : List (Nat × Nat)) (res : Log × Fin) (a : Val),
      cyCascade false false W bc res a rest = cyCascade true true W bc res a rest := by
  intro rest
  induction rest with
  | nil => intro res a; simp [cyCascade]
  | cons p rest ih =>
    intro res a
    obtain ⟨op, leaf⟩ := p
    obtain ⟨log, fin⟩ := res
    cases fin with
    | val r =>
      unfold cyCascade
      cases ht : W.truth r with
      | raise e => exact absurd ht (hT r e)
      | ok t =>
        cases t
        · rfl
        · simp only
          cases hev : W.ev leaf with
          | raise e => exact absurd hev (hE leaf e)
          | ok b => exact ih _ _
    | bool b =>
      cases b
      · simp [cyCascade]
      · unfold cyCascade
        cases W.ev leaf with
        | raise e => rfl
        | ok b => exact ih _ _
    | raise e => simp [cyCascade]
    | raiseDD e => simp [cyCascade]
    | ub => simp [cyCascade]

/-- **Theorem (source as found)**: the same, provided no truth test of an intermediate result and no
operand expression raises. -/
theorem chain_eval_partial (W : World) (hT : TruthTotal W) (hE : EvTotal W) (boolCtx : Bool) (first : Nat)
    (links : List (Nat × Nat)) (hne : links ≠ []) :
    cyChain false false W boolCtx first links = pyChain W boolCtx first links := by
  rw [← chain_eval W boolCtx first links hne]
  unfold cyChain
  cases W.ev first with
  | raise e => rfl
  | ok a =>
    cases links with
    | nil => rfl
    | cons p rest =>
      obtain ⟨op, leaf⟩ := p
      simp only
      cases W.ev leaf with
      | raise e => rfl
      | ok b => exact cyCascade_as_found W hT hE boolCtx rest _ b

/-- world of the witness: `a < b` yields an object (50) whose `__bool__` raises (exception 7) -/
def wRaise : World := ⟨fun l => .ok l, fun _ _ _ => .ok 50, fun v => if v = 50 then .raise 7 else .ok true, fun a b => a == b⟩

/-- **Counterexample** (source as found): `a < b < c` where `bool(a < b)` raises: CPython raises,
the generated code goes on with the exception pending. -/
theorem chain_truth_error_lost :
    pyChain wRaise false 0 [(0, 1), (0, 2)] = ([.E 0, .E 1, .C 0 0 1, .T 50], .raise 7) ∧
    cyChain false false wRaise false 0 [(0, 1), (0, 2)] = ([.E 0, .E 1, .C 0 0 1, .T 50], .ub) := by decide

/-- world of the second witness: the third operand raises (exception 2) -/
def wEvRaise : World := ⟨fun l => if l = 2 then .raise 2 else .ok l, fun _ _ _ => .ok 50, fun _ => .ok true, fun a b => a == b⟩

/-- **Counterexample** (source as found): `a < b < c` where evaluating `c` raises: the result object of
`a < b` is DECREF'ed twice (memory corruption; CPython just raises). -/
theorem chain_operand_error_double_decref :
    pyChain wEvRaise false 0 [(0, 1), (0, 2)] = ([.E 0, .E 1, .C 0 0 1, .T 50, .E 2], .raise 2) ∧
    cyChain true false wEvRaise false 0 [(0, 1), (0, 2)] = ([.E 0, .E 1, .C 0 0 1, .T 50, .E 2], .raiseDD 2) := by decide

theorem cascadeCorrect_false_as_found (clears : Bool) : ¬ CascadeCorrect false clears := by
  intro h
  have := h wRaise false 0 [(0, 1), (0, 2)] (by simp)
  revert this
  cases clears <;> decide

theorem cascadeCorrect_false_without_clear (checked : Bool) : ¬ CascadeCorrect checked false := by
  intro h
  have := h wEvRaise false 0 [(0, 1), (0, 2)] (by simp)
  revert this
  cases checked <;> decide

/-- non-vacuity: a three-link chain that stops at the second link -/
example : pyChain ⟨fun l => .ok l, fun op _ _ => .ok (60 + op), fun v => .ok (v != 61), fun a b => a == b⟩
    false 0 [(0, 1), (1, 2), (2, 3)] = ([.E 0, .E 1, .C 0 0 1, .T 60, .E 2, .C 1 1 2, .T 61], .val 61) := by decide
example : TruthTotal ⟨fun l => .ok l, fun op _ _ => .ok (60 + op), fun v => .ok (v != 61), fun a b => a == b⟩ := by
  intro v e h; simp at h
example : EvTotal ⟨fun l => .ok l, fun op _ _ => .ok (60 + op), fun v => .ok (v != 61), fun a b => a == b⟩ := by
  intro l e h; simp at h

/-! ## Part 3: `x in (a1, …, an)` -/

/-- **Full statement**: the flattened membership test produces CPython's event log and outcome. -/
def InCorrect (V : InVariant) : Prop :=
  ∀ (W : World) (notIn : Bool) (x : Nat) (items : List Nat), cyIn V W notIn x items = pyIn W notIn x items

/-- no item is the very object `x` -/
def NoIdentical (W : World) (x : Nat) (items : List Nat) : Prop :=
  ∀ xv, W.ev x = .ok xv → ∀ l ∈ items, ∀ a, W.ev l = .ok a → W.same a xv = false

theorem evalLeaves_nil_mem (W : World) (items : List Nat) (log log' : Log) (vs : List Val)
    (h : evalLeaves W items log [] = (log', .ok vs)) : ∀ a ∈ vs, ∃ l ∈ items, W.ev l = .ok a := by
  intro a ha
  rcases evalLeaves_mem W items log [] log' vs h a ha with h | h
  · simp at h
  · exact h

/-- **Theorem (repaired order of evaluation and of the comparison)**: `x in (…)` performs exactly
CPython's calls in CPython's order and gives its result — also when calls raise — provided no item
is identical to `x` (CPython then skips `==`). -/
theorem in_eq_python_partial (lf : Bool) (hlf : lf = true) (W : World) (x : Nat) (items : List Nat)
    (hid : NoIdentical W x items) :
    cyIn ⟨lf, true⟩ W false x items = pyIn W false x items := by
  subst hlf
  unfold cyIn pyIn
  simp only [↓reduceIte, Bool.false_eq_true]
  cases hx : W.ev x with
  | raise e => rfl
  | ok xv =>
    simp only
    cases hl : evalLeaves W items [.E x] [] with
    | mk log r =>
      cases r with
      | raise e => rfl
      | ok vs =>
        simp only
        apply flat_eq_contains
        intro a ha
        obtain ⟨l, hlm, hla⟩ := evalLeaves_nil_mem W items _ _ vs hl a ha
        exact hid xv hx l hlm a hla

/-- results when equality is reflexive on identical objects: the identity shortcut is then unobservable -/
theorem in_result_reflexive (W : World) (x : Nat) (items : List Nat)
    (hrefl : ∀ a xv, W.same a xv = true → cmpTruth W opEQ a xv = .ok true) :
    (cyIn ⟨true, true⟩ W false x items).2 = (pyIn W false x items).2 := by
  unfold cyIn pyIn
  simp only [↓reduceIte, Bool.false_eq_true]
  cases hx : W.ev x with
  | raise e => rfl
  | ok xv =>
    simp only
    cases hl : evalLeaves W items [.E x] [] with
    | mk log r =>
      cases r with
      | raise e => rfl
      | ok vs =>
        simp only
        exact flat_result_reflexive true W xv vs log log (fun a _ hs => hrefl a xv hs)

/-- `not in`: same result if `!=` is the negation of `==` (and no item is identical to `x`) -/
theorem notin_result_partial (W : World) (x : Nat) (items : List Nat) (hid : NoIdentical W x items)
    (hne : ∀ a xv, cmpTruth W opNE a xv = (cmpTruth W opEQ a xv).not) :
    (cyIn ⟨true, true⟩ W true x items).2 = (pyIn W true x items).2 := by
  unfold cyIn pyIn
  simp only [↓reduceIte]
  cases hx : W.ev x with
  | raise e => rfl
  | ok xv =>
    simp only
    cases hl : evalLeaves W items [.E x] [] with
    | mk log r =>
      cases r with
      | raise e => rfl
      | ok vs =>
        simp only
        apply flat_notin_result
        · intro a ha
          obtain ⟨l, hlm, hla⟩ := evalLeaves_nil_mem W items _ _ vs hl a ha
          exact hid xv hx l hlm a hla
        · intro a _; exact hne a xv

/-- worlds of the witnesses -/
def wPlain : World := ⟨fun l => .ok l, fun op a b => .ok (100 * op + 10 * a + b), fun _ => .ok false, fun a b => a == b⟩
/-- `a.__eq__(x)` is true (result 219), `x.__eq__(a)` false -/
def wAsym : World := ⟨fun l => .ok l, fun op a b => .ok (100 * op + 10 * a + b), fun v => .ok (v == 219), fun a b => a == b⟩
/-- item 1 *is* x (9), but `==` says false (NaN) -/
def wNaN : World := ⟨fun l => .ok l, fun op a b => .ok (100 * op + 10 * a + b), fun _ => .ok false, fun a b => a == b || (a == 1 && b == 9)⟩

/-- **Counterexample** (as found): the items are evaluated before the left operand -/
theorem in_order_as_found :
    (cyIn ⟨false, false⟩ wPlain false 9 [1, 2]).1.take 3 = [.E 1, .E 2, .E 9] ∧
    (pyIn wPlain false 9 [1, 2]).1.take 3 = [.E 9, .E 1, .E 2] := by decide

/-- **Counterexample** (as found): `x == item` instead of `item == x` — asymmetric `__eq__` changes the result -/
theorem in_eq_order_as_found :
    (cyIn ⟨true, false⟩ wAsym false 9 [1]).2 = .bool false ∧ (pyIn wAsym false 9 [1]).2 = .bool true := by decide

/-- **Counterexample** (both variants): the identity shortcut is missing (`nan in (nan,)`) -/
theorem in_identity_missing :
    (cyIn ⟨true, true⟩ wNaN false 9 [1]).2 = .bool false ∧ (pyIn wNaN false 9 [1]).2 = .bool true := by decide

theorem inCorrect_false (V : InVariant) : ¬ InCorrect V := by
  intro h
  have := h wNaN false 9 [1]
  revert this
  obtain ⟨a, b⟩ := V
  cases a <;> cases b <;> decide

/-- non-vacuity of `NoIdentical` and of the `!=` hypothesis -/
example : NoIdentical wPlain 9 [1, 2] := by
  intro xv hx l hl a ha
  simp only [wPlain, Out.ok.injEq] at hx ha
  subst hx; subst ha
  simp only [List.mem_cons, List.not_mem_nil, or_false] at hl
  rcases hl with rfl | rfl <;> decide
example : ∀ a xv, cmpTruth ⟨fun l => .ok l, fun op a b => .ok (if op = 3 then (if a = b then 0 else 1) else (if a = b then 1 else 0)),
    fun v => .ok (v == 1), fun a b => a == b⟩ opNE a xv =
    (cmpTruth ⟨fun l => .ok l, fun op a b => .ok (if op = 3 then (if a = b then 0 else 1) else (if a = b then 1 else 0)),
    fun v => .ok (v == 1), fun a b => a == b⟩ opEQ a xv).not := by
  intro a xv
  simp only [cmpTruth, opNE, opEQ, Out.not]
  by_cases h : a = xv <;> simp [h]

/-! ## Part 4: string / bytes helpers -/

/-- **`s == 'c'`** (`__Pyx_PyObject_Equals_uchar` / `__Pyx__PyUnicode_EqualsUCS4`): for every unicode
object in canonical PEP 393 form and every character, `==` (`eq = true`) and `!=` (`eq = false`)
give Python's answer -/
theorem unicode_equals_char (s : UStr) (hc : s.canon) (ch2 : Nat) (eq : Bool) :
    equalsUCS4 s ch2 eq = if s.chars = [ch2] then eq else !eq := equalsUCS4_spec s hc ch2 eq

theorem unicode_equals_char_macro (s : UStr) (hc : s.canon) (ident : Bool) (ch2 : Nat) (eq : Bool)
    (hid : ident = true → s.chars = [ch2]) :
    equalsUchar (.str s ident) ch2 eq = if s.chars = [ch2] then eq else !eq :=
  equalsUchar_spec s hc ident ch2 eq hid

/-- `None == 'c'` is false, `None != 'c'` true; other types get `PyObject_RichCompareBool` -/
theorem unicode_equals_char_none (ch2 : Nat) (eq : Bool) : equalsUchar .none ch2 eq = !eq := rfl
theorem unicode_equals_char_other (rc : Bool) (ch2 : Nat) (eq : Bool) : equalsUchar (.other rc) ch2 eq = rc := rfl

/-- **`ch in text`** (`__Pyx_UnicodeContainsUCS4`) -/
theorem unicode_contains_char (s : UStr) (hc : s.canon) (ch : Nat) (eq : Bool) :
    unicodeContainsUCS4 ch s eq = ((s.chars.any (· == ch)) == eq) := unicodeContains_spec s hc ch eq

/-- **`b1 == b2`, `b1 != b2`** on bytes / bytearray for all byte strings (embedded NULs included) -/
theorem bytes_eq_ne (ba1 : Bool) (s1 s2 : List Nat) (ne : Bool) :
    bytesEqNe ba1 s1 s2 ne = if s1 = s2 then !ne else ne := bytesEqNe_spec ba1 s1 s2 ne

/-- **Full statement** for the ordering helpers -/
def BytesOrdCorrect (emptyFix : Bool) : Prop :=
  ∀ (op : OrdOp) (s1 s2 : List Nat), bytesOrd emptyFix op s1 s2 = op.holds (lexCmp s1 s2)

/-- **Theorem (repaired helper)**: `<`, `<=`, `>`, `>=` are Python's lexicographic order -/
theorem bytes_ord : BytesOrdCorrect true := fun op s1 s2 => bytesOrd_spec true op s1 s2 (Or.inl rfl)

/-- **Theorem (as found)**: the same unless both operands are empty -/
theorem bytes_ord_partial (op : OrdOp) (s1 s2 : List Nat) (h : ¬(s1 = [] ∧ s2 = [])) :
    bytesOrd false op s1 s2 = op.holds (lexCmp s1 s2) := bytesOrd_spec false op s1 s2 (Or.inr h)

/-- **Counterexample** (as found): two distinct empty bytearrays: `a < b` is true, `a >= b` false -/
theorem bytes_ord_empty_as_found :
    bytesOrd false .lt [] [] = true ∧ OrdOp.lt.holds (lexCmp [] []) = false ∧
    bytesOrd false .ge [] [] = false ∧ OrdOp.ge.holds (lexCmp [] []) = true := by decide

theorem bytesOrdCorrect_false_as_found : ¬ BytesOrdCorrect false := by
  intro h
  have := h .lt [] []
  revert this
  decide

/-- **`x in <bytes>`** for a C integer `x`.  Full statement: CPython's answer (`ValueError` outside `range(256)`) -/
def BytesContainsCorrect (charOnly : Bool) : Prop :=
  ∀ (bits : Nat) (x : Int) (bs : List Nat) (eq : Bool), bits > 8 →
    bytesContainsC charOnly bits x bs eq = bytesContainsPy x bs eq

/-- repaired: wider-than-char integers are not truncated -/
theorem bytes_contains_wide : BytesContainsCorrect true :=
  fun bits x bs eq hb => bytesContainsC_wide bits hb x bs eq

/-- as found / `char`-sized: correct for byte values -/
theorem bytes_contains_partial (co : Bool) (bits : Nat) (x : Int) (bs : List Nat) (eq : Bool)
    (h0 : 0 ≤ x) (h1 : x < 256) : bytesContainsC co bits x bs eq = bytesContainsPy x bs eq :=
  bytesContainsC_byte co bits x bs eq h0 h1

/-- **Counterexample** (as found): `cdef int x = 353; x in b'a'` is true -/
theorem bytes_contains_truncates :
    bytesContainsC false 32 353 [97] true = .ok true ∧ bytesContainsPy 353 [97] true = .err "ValueError" := by
  decide

theorem bytesContainsCorrect_false_as_found : ¬ BytesContainsCorrect false := by
  intro h
  have := h 32 353 [97] true (by omega)
  revert this
  decide

/-- non-vacuity -/
example : (UStr.mk 2 [0x20AC]).canon := by simp [UStr.canon, kindOf]
example : equalsUCS4 ⟨2, [0x20AC]⟩ 0x20AC true = true := by decide
example : bytesOrd true .lt [97, 0, 98] [97, 0, 99] = true := by decide
example : ¬(([97] : List Nat) = [] ∧ ([] : List Nat) = []) := by simp

/-! ## Part 5: `__Pyx_PyObject_CompareIntInt` (object / `int`-typed operands of `== != < <= > >=`) -/

/-- **Theorem**: for every base `B >= 2` (CPython: 2^30), all six operators and all canonical digit strings of ANY
length (sign/size shortcut, 1- and 2-digit fast paths, count-down digit loop), the helper answers `x op y`. -/
theorem int_compare (B : Nat) (hB : 2 ≤ B) (op : CmpOp) (a b : PyInt) (ha : a.WF B) (hb : b.WF B) :
    compareIntInt B op a b = op.holds (a.val B) (b.val B) := compareIntInt_spec B hB op a b ha hb

/-- the digit loop alone: sign of the difference of the magnitudes, every digit position counts -/
theorem int_digit_loop (B : Nat) (xs ys : List Nat) (hl : xs.length = ys.length)
    (hx : ∀ d ∈ xs, d < B) (hy : ∀ d ∈ ys, d < B) :
    (digitLoop xs ys < 0 ↔ magBE B xs < magBE B ys) ∧ (0 < digitLoop xs ys ↔ magBE B ys < magBE B xs) :=
  digitLoop_sign B xs ys hl hx hy

/-- non-vacuity: 2^60 vs 2^60 + 1 (three digits, they differ in the least significant one) -/
example : compareIntInt (2 ^ 30) .lt ⟨false, [1, 0, 0]⟩ ⟨false, [1, 0, 1]⟩ = true := by decide
example : compareIntInt (2 ^ 30) .eq ⟨false, [1, 0, 0]⟩ ⟨false, [1, 0, 1]⟩ = false := by decide
example : (PyInt.mk false [1, 0, 1]).WF (2 ^ 30) := by
  refine ⟨?_, ?_, ?_⟩ <;> simp

end CyVerif.C19
